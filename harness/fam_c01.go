package main

// C01 — every run ends in success or one of the three reported error kinds
// (syntax, runtime, JSON input), never in a panic, a Go runtime crash or a
// surfaced control-flow sentinel.
//
// Families:
//   control-placement  grammar-directed programs, next/exit/return/break/continue in every context
//   token-mutation     near-grammatical token-level mutations of valid programs
//   arbitrary-bytes    random bytes, token soup, non-ASCII bytes in identifiers/strings/comments
//   selectors          valid / invalid / failing / control-flow root selectors
//   panic-prone-operations  every operation of the language on edge operands in every evaluating context
//   runaway-recursion  unbounded and very deep recursion of every call shape, padded so that a missing limit overflows the Go stack at once
//   multibyte-text-operations  panic-prone operations on texts whose byte length and character count differ: printf with every
//                      width of the window 0 .. byte length + 3, every string method, index and loop
//   containers-changed-while-walked  the root array / for-in iterables shrunk, grown, cleared, reassigned, sorted through a second
//                      reference while the rule driver or a loop walks them
//   fuzzing-mode       library runs with fuzzing=true (request flag z): millions of statements below the loop guard's limit with
//                      every statement kind at every position of the count, loops around and beyond the limit (implementation only)
//   binary-error-paths the real binary: every error kind x every flag combination (-o modes, -f, -r, stdin / files)
//   binary-line-endings  the real binary on program (-f, inline) and -r selector texts with LF / CR LF / CR / mixed line
//                      endings, with and without a final one, the error at end of input / at a newline token / at the last
//                      byte / a runtime error on the last token of the line, non-ASCII text before the error column
//
// Every case compares class,out with the model; the oracle flags any class
// outside ok/syntax/runtime/json by itself (core.go flags timeouts/crashes).

import (
	"fmt"
	"io"
	"math/rand"
	"os"
	"strconv"
	"strings"
	"time"
	"unicode/utf8"

	lang "github.com/alligator/jqawk/src"
)

var c01Fields = []string{"class", "out"}
var c01FieldsJSON = []string{"class", "out", "json"}

// c01ClassOracle is the direct replay oracle of C01.
func c01ClassOracle(i Resp) string {
	switch i["class"] {
	case "ok", "syntax", "runtime", "json":
		return ""
	}
	return "C01: the run ended in class " + i["class"] + " (msg=" + i["msg"] + "): not success and not one of the three reported error kinds"
}

func c01Any(Resp) bool { return true }

// ---------------------------------------------------------------------------
// inputs

type c01Input struct {
	name   string
	files  []File
	valid  bool // every stream decodes completely
	values int  // number of JSON values decoded before any error
}

func c01F(name, data string) File { return File{Name: name, Data: []byte(data)} }

func c01Inputs() []c01Input {
	return []c01Input{
		{"none", nil, true, 0},
		{"array", []File{c01F("in.json", `[1,2,3]`)}, true, 1},
		{"array-of-objects", []File{c01F("in.json", `[{"a":1},{"a":2,"b":[1,2]}]`)}, true, 1},
		{"object", []File{c01F("in.json", `{"a":1,"b":[1,2],"c":"x"}`)}, true, 1},
		{"number", []File{c01F("in.json", `2`)}, true, 1},
		{"string", []File{c01F("in.json", `"hello"`)}, true, 1},
		{"null", []File{c01F("in.json", `null`)}, true, 1},
		{"bool", []File{c01F("in.json", `true`)}, true, 1},
		{"empty-array", []File{c01F("in.json", `[]`)}, true, 1},
		{"nested-empty", []File{c01F("in.json", `[[],{}]`)}, true, 1},
		{"jsonl", []File{c01F("in.jsonl", "1\n[2,3]\n{\"a\":4}\n\"s\"\n")}, true, 4},
		{"concatenated", []File{c01F("in.json", `[1][2]{"a":1} 2`)}, true, 4},
		{"two-files", []File{c01F("a.json", `[1,2]`), c01F("b.json", `{"a":1}`)}, true, 2},
		{"three-files-empty-middle", []File{c01F("a.json", `[2]`), c01F("e.json", ``), c01F("c.json", `2 3`)}, true, 3},
		{"empty-file", []File{c01F("in.json", ``)}, true, 0},
		{"blank-file", []File{c01F("in.json", " \n\t ")}, true, 0},
		{"truncated-array", []File{c01F("in.json", `[1,2`)}, false, 0},
		{"truncated-deep", []File{c01F("in.json", `{"a":[1,{"b":`)}, false, 0},
		{"truncated-string", []File{c01F("in.json", `"abc`)}, false, 0},
		{"truncated-literal", []File{c01F("in.json", `nul`)}, false, 0},
		{"malformed-member", []File{c01F("in.json", `{"a":}`)}, false, 0},
		{"malformed-comma", []File{c01F("in.json", `[1,,2]`)}, false, 0},
		{"malformed-trailing-comma", []File{c01F("in.json", `{"a":1,}`)}, false, 0},
		{"stray-bracket", []File{c01F("in.json", `[1] ] [2]`)}, false, 1},
		{"trailing-garbage", []File{c01F("in.json", `[1,2]x`)}, false, 1},
		{"bad-byte", []File{c01F("in.json", "\xff")}, false, 0},
		{"number-out-of-range", []File{c01F("in.json", `[1e999]`)}, false, 0},
		{"valid-then-truncated", []File{c01F("in.json", "[1,2]\n{\"a\"")}, false, 1},
		{"good-file-then-bad-file", []File{c01F("a.json", `[2]`), c01F("b.json", `{"a"`)}, false, 1},
		{"read-failure", []File{{Name: "in.json", Data: []byte(`[1,2] `), IOErr: true}}, false, 1},
		{"read-failure-at-start", []File{{Name: "in.json", Data: nil, IOErr: true}}, false, 0},
		{"deep-array-500", []File{c01F("in.json", strings.Repeat("[", 500)+"1"+strings.Repeat("]", 500))}, true, 1},
		{"too-deep-array-10001", []File{c01F("in.json", strings.Repeat("[", 10001)+strings.Repeat("]", 10001))}, false, 0},
	}
}

// c01PickInput: mostly inputs that decode, so that rules actually run.
func c01PickInput(r *rand.Rand, ins []c01Input) c01Input {
	for {
		in := pick(r, ins)
		if in.valid || chance(r, 0.35) {
			return in
		}
	}
}

// ---------------------------------------------------------------------------
// family 1: control statements in every context

type c01Flags struct{ inLoop, inFn bool }

// c01B builds one program: unique names and the functions collected on the way.
type c01B struct {
	r   *rand.Rand
	n   int
	fns []string
}

func (b *c01B) id(p string) string { b.n++; return fmt.Sprintf("%s%d", p, b.n) }

// c01M wraps statements into a match block, the only way to put a statement
// into an expression.
func c01M(inner string) string { return "match (1) { _ => {\n" + inner + "\n} }" }

const (
	c01Neutral = iota // flags pass through (blocks, if, match bodies, expression hosts, loop HEADERS)
	c01LoopBody
	c01Fn
)

type c01Wrap struct {
	name   string
	kind   int
	needFn bool // the wrapper itself contains a `return`
	noSel  bool // needs program functions: not usable inside a selector
	build  func(b *c01B, inner string) string
}

func c01Host(name, tmpl string) c01Wrap {
	return c01Wrap{name: "expr:" + name, kind: c01Neutral, noSel: strings.Contains(tmpl, "g("),
		needFn: strings.HasPrefix(tmpl, "return"),
		build: func(b *c01B, inner string) string {
			return strings.ReplaceAll(tmpl, "§", c01M(inner))
		}}
}

func c01Wraps() []c01Wrap {
	mark := func(b *c01B, p string) (string, string, string) {
		n := b.id(p)
		return n, "print \"" + n + "<\"", "print \"" + n + ">\""
	}
	ws := []c01Wrap{
		{name: "plain", build: func(b *c01B, in string) string { return in }},
		{name: "block", build: func(b *c01B, in string) string { return "{\n" + in + "\n}" }},
		{name: "if-then", build: func(b *c01B, in string) string {
			return "if (1) {\n" + in + "\n} else {\nprint \"no\"\n}"
		}},
		{name: "if-else", build: func(b *c01B, in string) string {
			return "if (0) print \"no\"; else {\n" + in + "\n}"
		}},
		{name: "match-block", build: func(b *c01B, in string) string {
			return "match (1) {\n2 => { print \"no\" },\n1 => {\n" + in + "\n}\n}"
		}},
		{name: "match-assign", build: func(b *c01B, in string) string {
			return b.id("m") + " = match (2) { 1 => 0, _ => {\n" + in + "\n} }"
		}},
		{name: "match-expr-form", build: func(b *c01B, in string) string {
			return "match (1) { _ => match (2) { _ => {\n" + in + "\n} } }"
		}},
		{name: "match-array-pattern", build: func(b *c01B, in string) string {
			return "match ([1, 2]) { [1, 3] => 0, [ma, mb] => {\nprint ma, mb\n" + in + "\n} }"
		}},
		{name: "while-body", kind: c01LoopBody, build: func(b *c01B, in string) string {
			n, lt, gt := mark(b, "w")
			return n + " = 0\nwhile (" + n + " < 2) {\n" + n + "++\n" + lt + "\n" + in + "\n" + gt + "\n}"
		}},
		{name: "for-body", kind: c01LoopBody, build: func(b *c01B, in string) string {
			n, lt, gt := mark(b, "j")
			return "for (" + n + " = 0; " + n + " < 2; " + n + "++) {\n" + lt + "\n" + in + "\n" + gt + "\n}"
		}},
		{name: "for-body-unbraced", kind: c01LoopBody, build: func(b *c01B, in string) string {
			n := b.id("j")
			return "for (" + n + " = 0; " + n + " < 2; " + n + "++) " + c01M(in)
		}},
		{name: "forin-array-body", kind: c01LoopBody, build: func(b *c01B, in string) string {
			n, lt, gt := mark(b, "x")
			return "for (" + n + " in [1, 2]) {\n" + lt + "\n" + in + "\n" + gt + "\n}"
		}},
		{name: "forin-object-body", kind: c01LoopBody, build: func(b *c01B, in string) string {
			n, lt, gt := mark(b, "k")
			return "for (" + n + ", v" + n + " in {a: 1, b: 2}) {\n" + lt + "\n" + in + "\n" + gt + "\n}"
		}},
		{name: "forin-string-body", kind: c01LoopBody, build: func(b *c01B, in string) string {
			n, lt, gt := mark(b, "c")
			return "for (" + n + " in \"ab\") {\n" + lt + "\n" + in + "\n" + gt + "\n}"
		}},
		{name: "forin-input-body", kind: c01LoopBody, build: func(b *c01B, in string) string {
			n, lt, gt := mark(b, "e")
			return "for (" + n + " in [$, $]) {\n" + lt + "\n" + in + "\n" + gt + "\n}"
		}},
		// loop HEADERS: the statement sits in a match block inside the header
		{name: "while-cond", build: func(b *c01B, in string) string {
			n := b.id("h")
			return n + " = 0\nwhile (" + n + "++ < 2 && " + c01M(in) + " == null) {\nprint \"" + n + "-body\"\n}"
		}},
		{name: "for-pre", build: func(b *c01B, in string) string {
			n := b.id("p")
			return "for (" + n + " = " + c01M(in) + "; " + n + " < 1; " + n + "++) {\nprint \"" + n + "-body\"\n}"
		}},
		{name: "for-cond", build: func(b *c01B, in string) string {
			n := b.id("q")
			return "for (" + n + " = 0; " + n + " < 2 && " + c01M(in) + " == null; " + n + "++) {\nprint \"" + n + "-body\"\n}"
		}},
		{name: "for-post", build: func(b *c01B, in string) string {
			n := b.id("q")
			return "for (" + n + " = 0; " + n + " < 2; " + n + " = " + n + " + 1 + " + c01M(in) + ") {\nprint \"" + n + "-body\"\n}"
		}},
		{name: "forin-iterable", build: func(b *c01B, in string) string {
			n := b.id("x")
			return "for (" + n + " in [1, " + c01M(in) + "]) {\nprint \"" + n + "-body\", " + n + "\n}"
		}},
		{name: "forin-iterable-bare", build: func(b *c01B, in string) string {
			n := b.id("x")
			return "for (" + n + " in " + c01M(in) + ") {\nprint \"" + n + "-body\", " + n + "\n}"
		}},
		// functions
		{name: "fn-call", kind: c01Fn, noSel: true, build: func(b *c01B, in string) string {
			n, lt, gt := mark(b, "f")
			b.fns = append(b.fns, "function "+n+"(a, b) {\n"+lt+"\n"+in+"\n"+gt+"\nreturn 1\n}")
			return n + "(1)"
		}},
		{name: "fn-call-in-expr", kind: c01Fn, noSel: true, build: func(b *c01B, in string) string {
			n, lt, gt := mark(b, "f")
			b.fns = append(b.fns, "function "+n+"() {\n"+lt+"\n"+in+"\n"+gt+"\n}")
			return "print \"c\", " + n + "() + 1, [" + n + "()]"
		}},
		{name: "fn-call-twice", kind: c01Fn, noSel: true, build: func(b *c01B, in string) string {
			n, lt, gt := mark(b, "f")
			b.fns = append(b.fns, "function "+n+"(a) {\n"+lt+"\n"+in+"\n"+gt+"\nreturn a\n}")
			return n + "(1)\n" + n + "(" + n + "(2))"
		}},
	}
	hosts := [][2]string{
		{"assign-rhs", "hx = §"}, {"print-last-arg", "print \"p\", §"}, {"print-first-arg", "print §, \"q\""},
		{"call-arg", "g(§)"}, {"call-arg-2", "g(1, §)"}, {"printf-arg", "printf(\"%v|\\n\", §)"}, {"json-arg", "hx = json(§)"}, {"num-arg", "hx = num(§)"},
		{"array-elem", "hx = [1, §, 3]"}, {"object-value", "ho = {a: §, b: 2}"}, {"index", "hz = [1, 2][§]"},
		{"add-left", "§ + 1"}, {"add-right", "1 + §"}, {"mul-right", "2 * §"}, {"and-right", "1 && §"}, {"or-right", "0 || §"},
		{"and-left", "§ && 1"}, {"not", "hx = ! §"}, {"neg", "hx = - §"}, {"eq-left", "§ == null"}, {"lt-left", "§ < 1"}, {"lt-right", "hx = 1 < §"},
		{"tilde-left", "§ ~ \"a\""}, {"tilde-right", "\"a\" ~ §"}, {"is-left", "§ is null"}, {"member-base", "§.foo"}, {"index-base", "§[0]"},
		{"group", "hx = (§)"}, {"compound-rhs", "hx += §"}, {"index-assign", "ha[§] = 1"}, {"member-assign-base", "§.foo = 1"},
		{"if-cond", "if (§) { print \"t\" } else { print \"e\" }"},
		{"match-subject", "match (§) { null => { print \"mn\" }, _ => { print \"mo\" } }"},
		{"match-case-expr", "match (1) { 1 => § }"}, {"chain-assign", "hx = hy = §"}, {"callee", "§()"},
		{"method-arg", "hl = [1].push(§)"}, {"return-value", "return §"},
	}
	for _, h := range hosts {
		ws = append(ws, c01Host(h[0], h[1]))
	}
	return ws
}

func (w c01Wrap) flags(fl c01Flags) c01Flags {
	switch w.kind {
	case c01LoopBody:
		return c01Flags{true, fl.inFn}
	case c01Fn:
		return c01Flags{false, true}
	}
	return fl
}

type c01Ctl struct {
	name, text       string
	needLoop, needFn bool
}

var c01Ctls = []c01Ctl{
	{"none", `print "s"`, false, false},
	{"next", "next", false, false},
	{"exit", "exit", false, false},
	{"cond-next", "if ($ == 2) next", false, false},
	{"cond-exit", "if ($ == 2) { exit }", false, false},
	{"return", "return", false, true},
	{"return-value", "return 5", false, true},
	{"break", "break", true, false},
	{"continue", "continue", true, false},
}

var c01Contexts = []string{"BEGIN", "END", "BEGINFILE", "ENDFILE", "rule-body", "rule-body-with-pattern",
	"pattern-match-block", "pattern-bare", "pattern-function", "selector", "selector-second"}

type c01Built struct {
	prog  string
	sels  []string
	valid bool // the generator's static view: break/continue in a loop body of the same function, return in a function
}

// c01Build assembles a program with the control statement ctl wrapped by
// chain (outermost first) placed in context ctx.
func c01Build(r *rand.Rand, ctx string, chain []c01Wrap, ctl c01Ctl) c01Built {
	b := &c01B{r: r}
	fl := c01Flags{}
	if ctx == "pattern-function" {
		fl = c01Flags{false, true}
	}
	valid := true
	for _, w := range chain {
		if w.needFn && !fl.inFn {
			valid = false
		}
		fl = w.flags(fl)
	}
	if ctl.needLoop && !fl.inLoop || ctl.needFn && !fl.inFn {
		valid = false
	}
	inner := "print \"s<\"\n" + ctl.text + "\nprint \"s>\""
	for i := len(chain) - 1; i >= 0; i-- {
		inner = chain[i].build(b, inner)
	}
	body := "print \"C<\"\n" + inner + "\nprint \"C>\""
	var sels []string
	ctxRule := ""
	switch ctx {
	case "BEGIN", "END", "BEGINFILE", "ENDFILE":
		ctxRule = ctx + " {\n" + body + "\n}"
	case "rule-body":
		ctxRule = "{\n" + body + "\n}"
	case "rule-body-with-pattern":
		ctxRule = "!($ is string) {\n" + body + "\n}"
	case "pattern-match-block":
		ctxRule = c01M(body) + " == null { print \"PB\" }"
	case "pattern-bare":
		ctxRule = c01M(body) + " == null"
	case "pattern-function":
		n := b.id("pf")
		b.fns = append(b.fns, "function "+n+"() {\n"+body+"\nreturn 1\n}")
		ctxRule = n + "() { print \"PB\" }"
	case "selector":
		sels = []string{pick(r, []string{"§", "[$, §]", "§ || $"})}
	case "selector-second":
		sels = []string{"$", "§", "$"}
	}
	for i := range sels {
		sels[i] = strings.ReplaceAll(sels[i], "§", c01M(body))
	}
	at := func(where string) string {
		switch {
		case where == ctx, where == "rule" && (strings.HasPrefix(ctx, "rule-") || strings.HasPrefix(ctx, "pattern-")):
			return ctxRule + "\n"
		}
		return ""
	}
	var sb strings.Builder
	sb.WriteString("function g(a, b) {\nprint \"g\", a\nreturn a\n}\n")
	for _, f := range b.fns {
		sb.WriteString(f + "\n")
	}
	sb.WriteString("BEGIN { print \"B1\" }\n" + at("BEGIN") + "BEGIN { print \"B2\" }\n")
	sb.WriteString("BEGINFILE { print \"BF1\", $file }\n" + at("BEGINFILE") + "BEGINFILE { print \"BF2\" }\n")
	sb.WriteString("{ print \"R1\", $ }\n" + at("rule") + "1 { print \"R2\" }\n")
	sb.WriteString("ENDFILE { print \"EF1\" }\n" + at("ENDFILE") + "ENDFILE { print \"EF2\", $ }\n")
	sb.WriteString("END { print \"E1\" }\n" + at("END") + "END { print \"E2\" }\n")
	return c01Built{sb.String(), sels, valid}
}

func c01ChainName(chain []c01Wrap) string {
	names := make([]string, len(chain))
	for i, w := range chain {
		names[i] = w.name
	}
	return strings.Join(names, " > ")
}

func c01IsSel(ctx string) bool { return strings.HasPrefix(ctx, "selector") }

func c01EmitPlacement(r *rand.Rand, emit func(Case), ins []c01Input, ctx string, chain []c01Wrap, ctl c01Ctl) {
	if c01IsSel(ctx) {
		for _, w := range chain {
			if w.noSel {
				return
			}
		}
	}
	bt := c01Build(r, ctx, chain, ctl)
	in := c01PickInput(r, ins)
	if c01IsSel(ctx) && in.values == 0 && chance(r, 0.8) {
		in = ins[1]
	}
	valid, isSel := bt.valid, c01IsSel(ctx)
	meta := metaProg(bt.prog, "context", ctx, "wrappers", c01ChainName(chain), "control", ctl.name, "input", in.name,
		"statically-valid", fmt.Sprint(valid), "row", ctl.name, "col", ctx)
	if len(bt.sels) > 0 {
		meta["selectors"] = strings.Join(bt.sels, "  ||  ")
	}
	fields, wantJSON := c01Fields, chance(r, 0.25)
	if wantJSON {
		fields = c01FieldsJSON // also calls GetRootJson (the -o path) after the run
	}
	emit(Case{Req: RunReq(bt.prog, bt.sels, in.files, wantJSON), Fields: fields, Meta: meta,
		NonTrivial: func(i Resp) bool { return i["class"] != "syntax" || !valid },
		Oracle: func(i Resp) string {
			if w := c01ClassOracle(i); w != "" {
				return w
			}
			if isSel {
				return "" // a selector is only parsed once a value has been decoded
			}
			if valid && i["class"] == "syntax" {
				return "generator: a well-scoped program was rejected: " + i["msg"]
			}
			if !valid && (i["class"] != "syntax" || i.Bytes("out") != nil) {
				return "C01/C11: break/continue outside a loop body or return outside a function must be a syntax error with no output, got class " + i["class"]
			}
			return ""
		}})
}

func c01Enablers(ws []c01Wrap) (loops, fns []c01Wrap) {
	for _, w := range ws {
		switch w.kind {
		case c01LoopBody:
			loops = append(loops, w)
		case c01Fn:
			fns = append(fns, w)
		}
	}
	return
}

func c01StaticValid(ctx string, chain []c01Wrap, ctl c01Ctl) bool {
	fl := c01Flags{}
	if ctx == "pattern-function" {
		fl.inFn = true
	}
	for _, w := range chain {
		if w.needFn && !fl.inFn {
			return false
		}
		fl = w.flags(fl)
	}
	return !(ctl.needLoop && !fl.inLoop || ctl.needFn && !fl.inFn)
}

func c01GenPlacement(r *rand.Rand, tier string, emit func(Case)) {
	ws := c01Wraps()
	loops, fns := c01Enablers(ws)
	ins := c01Inputs()
	// systematic: every context x control x single wrapper; when the placement
	// is not well-scoped, also the two ways of making it so (an enabling loop
	// body / function outside, and one directly around the statement)
	for _, ctx := range c01Contexts {
		for _, ctl := range c01Ctls {
			for _, w := range ws {
				chain := []c01Wrap{w}
				if c01StaticValid(ctx, chain, ctl) {
					c01EmitPlacement(r, emit, ins, ctx, chain, ctl)
					continue
				}
				if chance(r, 0.34) || tier == "thorough" {
					c01EmitPlacement(r, emit, ins, ctx, chain, ctl)
				}
				if c01IsSel(ctx) && (ctl.needFn || w.needFn) {
					continue // no functions in selectors: cannot be made valid
				}
				var outer, innerW []c01Wrap
				if ctl.needFn || w.needFn {
					outer = append(outer, pick(r, fns))
				}
				if ctl.needLoop {
					outer = append(outer, pick(r, loops))
					innerW = append(innerW, pick(r, loops))
				}
				if ctl.needFn {
					innerW = append([]c01Wrap{pick(r, fns)}, innerW...)
				}
				c01EmitPlacement(r, emit, ins, ctx, append(append([]c01Wrap{}, outer...), w), ctl)
				if len(innerW) > 0 && !(w.needFn && !ctl.needFn) {
					c01EmitPlacement(r, emit, ins, ctx, append([]c01Wrap{w}, innerW...), ctl)
				}
			}
		}
	}
	// random nested combinations (match in function in loop ...)
	n := tierN(tier, 3000, 150000)
	for i := 0; i < n; i++ {
		ctx, ctl := pick(r, c01Contexts), pick(r, c01Ctls)
		depth := 2 + r.Intn(3)
		chain := make([]c01Wrap, 0, depth+2)
		for len(chain) < depth {
			w := pick(r, ws)
			if strings.HasPrefix(w.name, "expr:") && chance(r, 0.5) {
				continue // keep statement-level wrappers as frequent as the many expression hosts
			}
			chain = append(chain, w)
		}
		if !c01StaticValid(ctx, chain, ctl) && chance(r, 0.8) && !c01IsSel(ctx) {
			// repair: a function outside if a return needs one, a loop body right around the statement
			needFn := ctl.needFn
			for _, w := range chain {
				needFn = needFn || w.needFn
			}
			if needFn {
				chain = append([]c01Wrap{pick(r, fns)}, chain...)
			}
			if ctl.needLoop && !c01StaticValid(ctx, chain, ctl) {
				chain = append(chain, pick(r, loops))
			}
		}
		c01EmitPlacement(r, emit, ins, ctx, chain, ctl)
	}
}

// ---------------------------------------------------------------------------
// family 2: token-level mutations

// c01Lex splits a VALID ASCII jqawk text into token texts the way the jqawk
// lexer and parser do ("\n" is a token; a comment is one token up to the end
// of its line; `/` starts a regex literal where an operand is expected).
func c01Lex(src string) []string {
	var toks []string
	operandNext := true
	isIdent := func(c byte) bool {
		return c == '_' || c >= 'a' && c <= 'z' || c >= 'A' && c <= 'Z' || c >= '0' && c <= '9'
	}
	ops2 := []string{"==", "=>", "!=", "!~", "<=", ">=", "++", "+=", "--", "-=", "*=", "/=", "&&", "||"}
	for i := 0; i < len(src); {
		c := src[i]
		switch {
		case c == ' ' || c == '\t' || c == '\r':
			i++
			continue
		case c == '\n':
			toks = append(toks, "\n")
			i++
			continue
		case c == '#':
			j := i
			for j < len(src) && src[j] != '\n' {
				j++
			}
			toks = append(toks, src[i:j])
			i = j
			continue
		case c == '$' || isIdent(c) && !(c >= '0' && c <= '9'):
			j := i + 1
			for j < len(src) && isIdent(src[j]) {
				j++
			}
			t := src[i:j]
			toks = append(toks, t)
			i = j
			switch t {
			case "print", "return", "in", "is", "else":
				operandNext = true
			default:
				operandNext = false
			}
			continue
		case c >= '0' && c <= '9':
			j := i
			for j < len(src) && src[j] >= '0' && src[j] <= '9' {
				j++
			}
			if j+1 < len(src) && src[j] == '.' && src[j+1] >= '0' && src[j+1] <= '9' {
				j++
				for j < len(src) && src[j] >= '0' && src[j] <= '9' {
					j++
				}
			}
			toks = append(toks, src[i:j])
			i = j
			operandNext = false
			continue
		case c == '"' || c == '\'' || c == '/' && operandNext:
			j := i + 1
			for j < len(src) && src[j] != c {
				j++
			}
			if j < len(src) {
				j++
			}
			toks = append(toks, src[i:j])
			i = j
			operandNext = false
			continue
		}
		t := src[i : i+1]
		if i+1 < len(src) {
			for _, o := range ops2 {
				if src[i:i+2] == o {
					t = o
				}
			}
		}
		toks = append(toks, t)
		i += len(t)
		operandNext = !(t == ")" || t == "]" || t == "}" || t == "++" || t == "--")
	}
	return toks
}

func c01Render(toks []string) string {
	var sb strings.Builder
	for i, t := range toks {
		if i > 0 && t != "\n" && toks[i-1] != "\n" {
			sb.WriteByte(' ')
		}
		sb.WriteString(t)
	}
	return sb.String()
}

var c01MutSeeds = []string{
	`BEGIN { print "b" } { print $ } END { print "e" }`,
	"function f(a, b) {\n  if (a > b) return a\n  return b\n}\nBEGIN { print f(1, 2), f(3) }\n$ > 1 { print \"big\", $; next }\n{ print \"small\", $ }\nEND { print \"done\" }",
	"BEGIN {\n  i = 0\n  while (i < 5) {\n    i++\n    if (i == 2) continue\n    if (i == 4) break\n    print i\n  }\n  print \"after\", i\n}",
	"{ n += $ }\n$ == 2 { exit }\nEND { print \"sum\", n }",
	"BEGIN {\n  for (i = 0; i < 3; i++) {\n    for (x in [1, 2, 3]) {\n      if (x == 2) continue\n      if (i == 1) break\n      print i, x\n    }\n  }\n}",
	"BEGIN {\n  x = match (3) {\n    1, 2 => \"low\",\n    3 => { print \"three\"; y = 1 }\n    _ => \"other\"\n  }\n  print x, y\n}",
	"function fact(n) {\n  if (n <= 1) { return 1 }\n  return n * fact(n - 1)\n}\nBEGIN { print fact(5) }\n{ print fact($) }",
	"BEGINFILE { print \"start\", $file; c = 0 }\n{ c++; a[$index] = $ }\nENDFILE { print \"count\", c, a }\nEND { for (k, v in a) print k, v }",
	"{ print $index, $ ~ /^[0-9]+$/, $ is number }\n$ ~ \"2\" { print \"has two\" }\n!($ is number) { next }\n{ print $ * 2, $ % 2, -$ }",
	"BEGIN { o = {a: 1, \"b c\": [1, 2, {d: null}]}; print o.a, o[\"b c\"][2].d, o.length() }\nBEGIN { o.a += 2; o.z = o.a++; print json(o) }",
	"function each(arr) {\n  for (v, i in arr) {\n    match (v) {\n      1 => { continue },\n      3 => { break },\n      n => { print i, n }\n    }\n  }\n  return arr.length()\n}\nBEGIN { print each([1, 2, 3, 4]) }",
	"BEGIN { printf(\"%s=%5v|%-3f|%%\\n\", \"k\", [1], 2.5) }\n{ printf(\"%v \", $) }\nEND { print \"\" }",
	"function skip() { next }\nfunction stop() { exit }\n$ == 1 { skip() }\n$ == 3 { stop() }\n{ print \"kept\", $ }\nEND { print \"end\" }",
	"BEGIN {\n  s = \"a,b,c\"\n  for (p in s.split(\",\")) print p.upper()\n  a = [3, 1, 2]\n  a.push(0)\n  print a.sort(), a.pop(), a.popfirst(), a.contains(1), a.length()\n}",
	"BEGIN { k = 0; while (k++ < 3 && match (k) { 2 => { print \"two\" }, _ => 0 } == null || k < 3) { print \"k\", k } }",
	"$.a > 1 && $.b[0] == 1 || $ is array { print $.a, $.b }\n$ is object { for (k in $) print k }",
	"BEGIN { x = 1; y = x++ + ++x; x -= 1; x *= 2; x /= 4; print x, y, !x, x == y, x != y, x <= y, x >= y }",
	"function r(n) {\n  if (n > 0) { print n; return r(n - 1) }\n  return \"done\"\n}\nBEGIN { print r(3) }",
	"# leading comment\nBEGIN { print 1 } # trailing\n# another\n{ print $ } # end",
	"BEGIN { a = [[1, 2], [3, 4]]; for (row in a) for (v in row) { if (v == 3) break; print v } }",
	"{ $ = 5 }\n{ print $ }\nBEGINFILE { $ = [7, 8] }\nENDFILE { print \"ef\", $ }",
}

var c01TokAlphabet = []string{"BEGIN", "END", "BEGINFILE", "ENDFILE", "print", "function", "return", "if", "else", "for", "while", "in", "match",
	"break", "continue", "next", "exit", "null", "is", "true", "false", "{", "}", "[", "]", "(", ")", "<", ">", "$", ",", ".", "=", "==", "!=", "<=", ">=",
	":", ";", "+", "-", "*", "/", "+=", "-=", "*=", "/=", "~", "!~", "&&", "||", "=>", "!", "++", "--", "%", "\n",
	"x", "y", "a", "i", "n", "_", "$index", "$file", "$x", "printf", "json", "num", "length", "push", "number", "0", "1", "2", "10", "0.5", "\"s\"", "'a b'", "\"\"", "\"%v\\n\"", "/a+/", "# c",
	"@", "&", "|", "\\", "`", "?", "^", "\x00", "\xc3\xa9", "\xff", "'", "\""}

var c01TokClasses = [][]string{
	{"next", "exit", "break", "continue", "return"},
	{"BEGIN", "END", "BEGINFILE", "ENDFILE"},
	{"if", "while"},
	{"+", "-", "*", "/", "%", "==", "!=", "<", "<=", ">", ">=", "~", "!~", "&&", "||"},
	{"=", "+=", "-=", "*=", "/="},
	{"++", "--"},
	{"(", ")", "[", "]", "{", "}"},
	{",", ";", ":", "\n", "=>", "."},
	{"0", "1", "2", "10", "0.5"},
	{"x", "y", "a", "i", "n", "$", "$index", "_"},
	{"true", "false", "null", "\"s\"", "1", "x", "/a+/", "[]"},
}

// c01Terminates runs the program on the real code with the interpreter's own
// loop limit switched on (the `fuzzing` flag: while/for loops error out after
// 10000 rounds; a program that defines a function runs in a worker process instead,
// see c01PreRunIsolated) and says whether the run finished without hitting that limit. It only FILTERS mutants
// that loop for ever; it never decides a verdict.
func c01Terminates(prog string, sels []string, files []File) bool {
	return c01PreRun(prog, sels, files) != "loops"
}

// c01PreWorker is the worker process in which programs that define a function are pre-run.
var c01PreWorker *worker

// c01PreRunIsolated: the pre-run of a program that can recurse. In this process the
// interpreter's call-depth limit would be the only thing between a runaway recursion and
// Go's fatal "stack overflow", which no recover() catches: the check itself would die (a
// machinery failure, exit 2) on exactly the implementations it has to flag -- those whose
// limit is broken. So such a program runs in a worker process (without the loop limit: a
// loop that never ends costs the timeout). No answer in time = "loops" (the mutant is
// dropped); a worker that died = "done": the case goes through and the pooled run flags it.
func c01PreRunIsolated(prog string, sels []string, files []File) string {
	if c01PreWorker == nil {
		self, err := os.Executable()
		if err != nil {
			return "done"
		}
		c01PreWorker = &worker{argv: []string{self, "implworker"}, env: []string{"GOMEMLIMIT=2GiB"}, timeout: 1500 * time.Millisecond}
	}
	if ParseResp(c01PreWorker.ask(RunReq(prog, sels, files, false)))["class"] == "timeout" {
		return "loops"
	}
	return "done"
}

// c01DefinesFunction: the text parses and defines at least one function (the parser
// recurses no deeper than the text nests, so parsing in this process is safe).
func c01DefinesFunction(prog string) (yes bool) {
	defer func() {
		if recover() != nil {
			yes = false // a parser panic ends the run before anything is evaluated
		}
	}()
	lex := lang.NewLexer(prog)
	parser := lang.NewParser(&lex)
	p, err := parser.Parse()
	return err == nil && len(p.Functions) > 0
}

// c01PreRun: "loops" or "done".
func c01PreRun(prog string, sels []string, files []File) string {
	if strings.Contains(prog, "function") && c01DefinesFunction(prog) {
		return c01PreRunIsolated(prog, sels, files)
	}
	done := make(chan string, 1)
	go func() {
		defer func() {
			if recover() != nil {
				done <- "done" // a panic terminates too: let the case through, the oracle will see it
			}
		}()
		var inputs []lang.InputFile
		for _, f := range files {
			inputs = append(inputs, lang.InputFile{Name: f.Name, Reader: &chunkReader{data: f.Data, ioErr: f.IOErr}})
		}
		_, err := lang.EvalProgram(prog, inputs, sels, io.Discard, true)
		if re, ok := err.(lang.RuntimeError); ok && re.Message == "fuzz test loop limit" {
			done <- "loops"
			return
		}
		done <- "done"
	}()
	select {
	case v := <-done:
		return v
	case <-time.After(3 * time.Second):
		return "loops"
	}
}

func c01Mutate(r *rand.Rand, toks []string, op string, at int) ([]string, string) {
	out := make([]string, 0, len(toks)+2)
	desc := ""
	switch op {
	case "delete":
		out = append(append(out, toks[:at]...), toks[at+1:]...)
		desc = fmt.Sprintf("delete token %d %q", at, toks[at])
	case "duplicate":
		out = append(append(append(out, toks[:at+1]...), toks[at]), toks[at+1:]...)
		desc = fmt.Sprintf("duplicate token %d %q", at, toks[at])
	case "swap":
		out = append(out, toks...)
		if at+1 < len(out) {
			out[at], out[at+1] = out[at+1], out[at]
		}
		desc = fmt.Sprintf("swap tokens %d,%d %q %q", at, at+1, toks[at], out[at])
	case "replace-same-class":
		out = append(out, toks...)
		var cands []string
		for _, cl := range c01TokClasses {
			for _, t := range cl {
				if t == toks[at] {
					cands = append(cands, cl...)
				}
			}
		}
		if len(cands) == 0 {
			cands = c01TokAlphabet
		}
		out[at] = pick(r, cands)
		desc = fmt.Sprintf("replace token %d %q by %q (same class)", at, toks[at], out[at])
	case "replace":
		out = append(out, toks...)
		out[at] = pick(r, c01TokAlphabet)
		desc = fmt.Sprintf("replace token %d %q by %q", at, toks[at], out[at])
	case "insert":
		t := pick(r, c01TokAlphabet)
		out = append(append(append(out, toks[:at]...), t), toks[at:]...)
		desc = fmt.Sprintf("insert %q before token %d", t, at)
	case "unterminate":
		out = append(out, toks...)
		t := toks[at]
		if len(t) >= 2 && (t[0] == '"' || t[0] == '\'' || t[0] == '/') && t[len(t)-1] == t[0] {
			out[at] = t[:len(t)-1]
			desc = fmt.Sprintf("drop the closing delimiter of token %d %s", at, t)
		} else {
			out[at] = pick(r, []string{"\"", "'", "/"}) + t
			desc = fmt.Sprintf("open a string/regex before token %d %q", at, t)
		}
	case "truncate":
		out = append(out, toks[:at]...)
		desc = fmt.Sprintf("truncate before token %d", at)
	}
	return out, desc
}

func c01GenMutation(r *rand.Rand, tier string, emit func(Case)) {
	ins := c01Inputs()
	ws := c01Wraps()
	seeds := append([]string{}, c01MutSeeds...)
	// some seeds from the control-placement grammar, so that mutants move
	// control statements around in loops, functions and match blocks
	for i := 0; i < tierN(tier, 25, 150); i++ {
		chain := []c01Wrap{pick(r, ws), pick(r, ws)}
		ctx := pick(r, c01Contexts[:9])
		ctl := pick(r, c01Ctls)
		if !c01StaticValid(ctx, chain, ctl) {
			continue
		}
		seeds = append(seeds, c01Build(r, ctx, chain, ctl).prog)
	}
	dropped := 0
	defer func() {
		if c01PreWorker != nil {
			c01PreWorker.stop()
			c01PreWorker = nil
		}
	}()
	try := func(seedNo int, toks []string, desc string) {
		prog := c01Render(toks)
		in := ins[1]
		if chance(r, 0.3) {
			in = c01PickInput(r, ins)
		}
		if !c01Terminates(prog, nil, in.files) {
			dropped++
			return
		}
		emit(Case{Req: RunReq(prog, nil, in.files, false), Fields: c01Fields, Oracle: c01ClassOracle, NonTrivial: c01Any,
			Meta: metaProg(prog, "seed", fmt.Sprint(seedNo), "mutation", desc, "input", in.name, "row", strings.Fields(desc + " x")[0],
				"non-terminating-mutants-dropped-so-far", fmt.Sprint(dropped))})
	}
	perSeed := tierN(tier, 60, 800)
	for si, seed := range seeds {
		toks := c01Lex(seed)
		if c01Render(c01Lex(c01Render(toks))) != c01Render(toks) {
			panic("c01Lex/c01Render not stable on seed " + fmt.Sprint(si))
		}
		// the re-rendered seed itself must behave like the seed
		emit(Case{Req: RunReq(seed, nil, ins[1].files, false), Fields: c01Fields, Oracle: c01ClassOracle,
			Group: fmt.Sprintf("seed%d", si), GroupFields: c01Fields, Meta: metaProg(seed, "seed", fmt.Sprint(si), "mutation", "none (original text)")})
		emit(Case{Req: RunReq(c01Render(toks), nil, ins[1].files, false), Fields: c01Fields, Oracle: c01ClassOracle,
			Group: fmt.Sprintf("seed%d", si), GroupFields: c01Fields, Meta: metaProg(c01Render(toks), "seed", fmt.Sprint(si), "mutation", "none (tokens re-rendered)")})
		if tier == "thorough" || si < len(c01MutSeeds) {
			// exhaustive single delete / duplicate / swap
			for at := range toks {
				for _, op := range []string{"delete", "duplicate", "swap"} {
					if tier != "thorough" && !chance(r, 0.5) {
						continue
					}
					m, d := c01Mutate(r, toks, op, at)
					try(si, m, d)
				}
			}
		}
		for k := 0; k < perSeed; k++ {
			m := toks
			nmut := 1
			if chance(r, 0.25) {
				nmut = 2 + r.Intn(2)
			}
			var descs []string
			for j := 0; j < nmut && len(m) > 0; j++ {
				op := pick(r, []string{"delete", "duplicate", "swap", "replace-same-class", "replace-same-class", "replace", "insert", "insert", "unterminate", "truncate"})
				if op == "unterminate" && chance(r, 0.5) {
					// aim at a real string/regex token when there is one
					var idx []int
					for i, t := range m {
						if len(t) >= 2 && (t[0] == '"' || t[0] == '\'' || t[0] == '/') {
							idx = append(idx, i)
						}
					}
					if len(idx) > 0 {
						var d string
						m, d = c01Mutate(r, m, op, pick(r, idx))
						descs = append(descs, d)
						continue
					}
				}
				var d string
				m, d = c01Mutate(r, m, op, r.Intn(len(m)))
				descs = append(descs, d)
			}
			try(si, m, strings.Join(descs, "; "))
		}
		// unbalanced brackets: remove or add one bracket at a random place
		for k := 0; k < perSeed/6; k++ {
			var idx []int
			for i, t := range toks {
				if strings.Contains("(){}[]", t) && len(t) == 1 {
					idx = append(idx, i)
				}
			}
			if len(idx) == 0 {
				break
			}
			at := pick(r, idx)
			if chance(r, 0.5) {
				m, d := c01Mutate(r, toks, "delete", at)
				try(si, m, "unbalance: "+d)
			} else {
				m, d := c01Mutate(r, toks, "duplicate", at)
				try(si, m, "unbalance: "+d)
			}
		}
	}
}

// ---------------------------------------------------------------------------
// family 3: arbitrary bytes

// no `while`, `for`, `function`: a soup over this alphabet cannot loop or recurse
var c01Soup = []string{"BEGIN", "END", "BEGINFILE", "ENDFILE", "print", "return", "if", "else", "in", "match",
	"break", "continue", "next", "exit", "null", "is", "true", "false", "{", "}", "[", "]", "(", ")", "<", ">", "$", ",", ".", "=", "==", "!=", "<=", ">=",
	":", ";", "+", "-", "*", "/", "+=", "-=", "*=", "/=", "~", "!~", "&&", "||", "=>", "!", "++", "--", "%", "\n", "\n",
	"x", "y", "_", "$index", "$file", "printf", "json", "num", "length", "push", "pop", "split", "number", "string", "0", "1", "2", "0.5", "007",
	"\"s\"", "'a b'", "\"\"", "\"%v\\n\"", "\"\\q\"", "/a+/", "/(/", "# c\n", "@", "&", "|", "\\", "'", "\"", "\xc3\xa9", "\xff", "\x00"}

// tokens that make up expressions and simple statements (for the structured soup)
var c01SoupExpr = []string{"x", "y", "$", "1", "2", "0", "\"s\"", "null", "true", "[", "]", "(", ")", "{", "}", ",", ".", "=", "==", "<", "+", "-", "*", "/", "%", "~", "&&", "||", "!", "++", "--",
	":", ";", "\n", "print", "next", "exit", "break", "continue", "return", "if", "else", "match", "=>", "_", "is", "in", "length", "push", "printf", "json", "num", "/a/", "+=", "$index", "$file"}

// valid fragments (expressions and statements) for the structured soup; the
// for-in loops are over literals or the input, so nothing can loop for ever
var c01SoupPhrases = []string{"x = 1", "print x", "print", "next", "exit", "break", "continue", "return", "return x", "x + 1", "[1, 2]", "x.length()",
	"match (x) { 1 => 2, _ => { next } }", "match ($) { [p, q] => { exit }, v => v }", "y = x[0]", "x++", "--y", "$", "$.a", "$[0]", "printf(\"%v\\n\", x)",
	"if (x) next", "if (x) { exit } else { print 2 }", "{a: 1}", "x = {a: [1]}", "x.a.b = 2", "\"s\" ~ /s/", "x is number", "for (q in [1, 2]) { print q; break }",
	"for (q in $) print q", "for (q, w in {a: 1}) { continue }", "1 / 0", "x()", "json(x)", "num(\"3\")", "!x", "-x", "x == y", "x && y", "$index", "$file", "a, b", "1", "null", "_",
	"for ($ in [1]) print", "for ($q in [1]) print 1", "for (q, $ in [1]) print", "$ = 5", "$.a.b = 1", "$index = 7", "$q = 1", "match ($) { $ => 1 }", "x.length = 1", "[1].push.x = 2", "printf = 1", "x = [x]"}

func c01SoupText(r *rand.Rand, alphabet []string, n int) string {
	var sb strings.Builder
	for i := 0; i < n; i++ {
		sb.WriteString(pick(r, alphabet))
		switch k := r.Intn(20); {
		case k < 14:
			sb.WriteByte(' ')
		case k < 17:
			sb.WriteByte('\n')
		}
	}
	return sb.String()
}

func c01RandBytes(r *rand.Rand, n int, mode int) []byte {
	b := make([]byte, n)
	const punct = "{}[]()<>$,.=!:;+-*/~&|%#'\"\\\n \t\r_aZ09@"
	for i := range b {
		switch mode {
		case 0: // all 256 values
			b[i] = byte(r.Intn(256))
		case 1: // printable ASCII and newline
			b[i] = byte(32 + r.Intn(95))
			if r.Intn(12) == 0 {
				b[i] = '\n'
			}
		case 2: // jqawk punctuation, heavy
			b[i] = punct[r.Intn(len(punct))]
		default: // mostly punctuation/letters, some high bytes
			if r.Intn(6) == 0 {
				b[i] = byte(128 + r.Intn(128))
			} else {
				b[i] = punct[r.Intn(len(punct))]
			}
		}
	}
	return b
}

func c01GenBytes(r *rand.Rand, tier string, emit func(Case)) {
	ins := c01Inputs()
	send := func(prog string, kind string, implOnly bool) {
		in := ins[1]
		if chance(r, 0.25) {
			in = c01PickInput(r, ins)
		}
		meta := map[string]string{"kind": kind, "input": in.name, "size": fmt.Sprint(len(prog)), "row": strings.SplitN(kind, " ", 2)[0]}
		if len(prog) <= 2000 {
			meta["program"] = prog
			meta["program-quoted"] = fmt.Sprintf("%q", prog)
		} else {
			meta["program-head-quoted"] = fmt.Sprintf("%q", prog[:300])
		}
		emit(Case{Req: RunReq(prog, nil, in.files, false), Fields: c01Fields, Oracle: c01ClassOracle, NonTrivial: c01Any,
			ImplOnly: implOnly || len(prog) >= 4096, Meta: meta})
	}
	// (0) systematic small texts: every single byte, every pair over the characters
	// the lexer looks at, and every byte-prefix of valid programs (the end of input
	// in the middle of every token and construct)
	for b := 0; b < 256; b++ {
		send(string([]byte{byte(b)}), "single-byte", false)
		send("BEGIN { x = 1 "+string([]byte{byte(b)}), "single-byte-at-end", false)
	}
	const lexChars = "{}[]()<>$,.=!:;+-*/~&|%#'\"\\\n _a1@\x00\xe9"
	for i := 0; i < len(lexChars); i++ {
		for j := 0; j < len(lexChars); j++ {
			send(string([]byte{lexChars[i], lexChars[j]}), "byte-pair", false)
			if tier == "thorough" {
				send("1"+string([]byte{lexChars[i], lexChars[j]}), "byte-pair-after-digit", false)
				send("x "+string([]byte{lexChars[i], lexChars[j]})+" 1", "byte-pair-between-operands", false)
			}
		}
	}
	for si, seed := range c01MutSeeds {
		if tier == "quick" && si%3 != 0 {
			continue
		}
		for k := 0; k < len(seed); k++ {
			send(seed[:k], "prefix-of-valid-program", false)
		}
	}
	for _, t := range []string{"1.", "1.5.", "x = 1.", "BEGIN { print 1.", "print 10.", "{ print $.", "{ print $", "$", "$.", "x.", "x[", "f(", "1 +", "1 /", "/", "/a", "\"", "'", "\"\\", "#", "# c",
		"!", "&", "|", "=", "<", "-", "+", "++", "--", "=>", "match", "match (", "match (1) {", "match (1) { 1", "match (1) { 1 =>", "function", "function f", "function f(", "function f(a", "function f(a,",
		"function f() {", "if", "if (", "if (1)", "if (1) x = 1; else", "for", "for (", "for (x", "for (x,", "for (x, y", "for (x in", "for (x in y", "for (x in y)", "for (;", "for (1;1;", "while", "while (", "while (0)",
		"print", "print 1,", "return", "BEGIN", "BEGIN {", "END", "{", "{ x = {", "{ x = {a", "{ x = {a:", "{ x = [", "{ x = [1,", "x is", "x is 1", "x ~", "1 = ", "x +=", "next", "exit", "break", "continue"} {
		send(t, "cut-off-construct", false)
		send(t+"\n", "cut-off-construct", false)
	}
	// texts that once separated implementation and model
	for _, t := range []string{"BEGIN { print ; ; x = 7; print x }", "BEGIN { print 1, ; ; print 2 }", "BEGIN { print ;\n; print 2 }", "BEGIN { print 1 ; ; print 2 }",
		"1 ++", "++ 1 ;", "f ( ) --", "BEGIN { x = 1 ++ @ }", "BEGIN { print \"a\"\n[1, 2]\nprint \"b\" }", "BEGIN { print \"a\"\n!x\n}", "BEGIN { print \"a\"\n(1)\n}"} {
		send(t, "regression", false)
	}
	// (a) random byte strings
	n := tierN(tier, 2500, 100000)
	for i := 0; i < n; i++ {
		size := r.Intn(201)
		if chance(r, 0.3) {
			size = r.Intn(12)
		}
		mode := r.Intn(4)
		send(string(c01RandBytes(r, size, mode)), fmt.Sprintf("random-bytes/mode%d", mode), false)
	}
	// random bytes behind a valid prefix, so that the lexer is deep in a program when they come
	for i := 0; i < n/4; i++ {
		prefix := pick(r, []string{"BEGIN { print 1 }\n", "{ print $", "BEGIN { x = \"", "function f(a) { return a ", "BEGIN { x = /", "BEGIN { print 1 } # ", "{ match ($) { 1 => "})
		send(prefix+string(c01RandBytes(r, r.Intn(60), r.Intn(4))), "valid-prefix+random-bytes", false)
	}
	if tier == "thorough" {
		for _, size := range []int{1000, 4095, 4096, 10000, 30000, 65536, 65536, 65536, 65536} {
			for mode := 0; mode < 4; mode++ {
				send(string(c01RandBytes(r, size, mode)), fmt.Sprintf("random-bytes-large/mode%d", mode), size >= 4096)
			}
		}
		// well-formed deep nesting inside the 64 KiB bound: must run, or stop with the depth-limit runtime error
		for _, w := range [][3]string{{"(", "1", ")"}, {"[", "1", "]"}, {"- ", "1", ""}, {"!", "1", ""}, {"{a:", "1", "}"}, {"g(", "1", ")"}, {"x[", "0", "]"},
			{"match(1){_=>", "1", "}"}, {"match(1){_=>{print ", "1", "}}\n"}, {"1+(", "1", ")"}} {
			for _, k := range []int{1000, 4090, 4100, 60000 / (len(w[0]) + len(w[2]))} {
				send("function g(a) { return a }\nBEGIN { x = "+strings.Repeat(w[0], k)+w[1]+strings.Repeat(w[2], k)+"\nprint \"done\" }", fmt.Sprintf("deep-well-formed %s x%d", w[0], k), true)
			}
		}
		send("function r(n) { return r(n + 1) }\nBEGIN { r(0) }", "deep-recursion", false)
		send("function r(n) { if (n == 0) return 0\nreturn 1 + r(n - 1) }\nBEGIN { print r(4000) }", "deep-recursion-ok", false)
		// deep nesting inside the 64 KiB bound
		for _, u := range []string{"(", "[", "-", "!", "{a:", "match(", "x[", "f(", "1+(", "BEGIN{", "{{", "if(1)"} {
			k := 65536 / len(u)
			send("BEGIN { x = "+strings.Repeat(u, k-10), "deep-nesting "+u, true)
			send(strings.Repeat(u, k), "deep-nesting-bare "+u, true)
		}
	}
	// (b) token soup over the jqawk alphabet (no loops, no function definitions)
	n = tierN(tier, 2500, 100000)
	for i := 0; i < n; i++ {
		send(c01SoupText(r, c01Soup, 1+r.Intn(40)), "token-soup", false)
	}
	// structured soup: a valid skeleton whose bodies/patterns/arguments are soup.
	// for-in over a literal is bounded; function bodies cannot name a user function.
	skel := []string{
		"BEGIN { § }", "{ § }", "END { § }", "BEGINFILE { § }\nENDFILE { § }", "§ { print \"body\" }", "§",
		"function f(a, b) { § }\nBEGIN { print f(1, 2) }\n{ f($) }", "BEGIN { for (v in [1, 2, 3]) { § } }", "{ for (k, v in $) { § } }",
		"BEGIN { x = match (1) { § } }", "BEGIN { x = match (§) { 1 => { § }, _ => § } }", "BEGIN { print § }", "BEGIN { x = [§] }", "BEGIN { x = {a: §} }",
		"BEGIN { if (§) { § } else { § } }", "BEGIN { printf(§) }", "function f(§) { return 1 }\nBEGIN { f(1) }", "BEGIN { x[§] = § }",
	}
	for i := 0; i < n; i++ {
		s := pick(r, skel)
		for strings.Contains(s, "§") {
			// a slot holds 1-3 items: valid phrases mixed with random tokens
			var items []string
			for k := 1 + r.Intn(3); k > 0; k-- {
				if chance(r, 0.7) {
					items = append(items, pick(r, c01SoupPhrases))
				} else {
					items = append(items, c01SoupText(r, c01SoupExpr, 1+r.Intn(3)))
				}
			}
			s = strings.Replace(s, "§", strings.Join(items, pick(r, []string{" ", "; ", "\n", "\n", ", "})), 1)
		}
		send(s, "structured-soup", false)
	}
	// (c) non-ASCII bytes in identifiers, strings and comments of valid programs
	hi := func(k int, lettersOnly bool) string {
		b := make([]byte, k)
		for i := range b {
			for {
				b[i] = byte(128 + r.Intn(128))
				isLetter := b[i] == 0xAA || b[i] == 0xB5 || b[i] == 0xBA || b[i] >= 0xC0 && b[i] != 0xD7 && b[i] != 0xF7
				if !lettersOnly || isLetter {
					break
				}
			}
		}
		return string(b)
	}
	word := func() string {
		switch r.Intn(4) {
		case 0:
			return pick(r, utf8Words)
		case 1:
			return hi(1+r.Intn(3), false)
		case 2:
			return "a" + hi(1, false) + "b"
		default:
			return pick(r, utf8Words) + hi(1, false)
		}
	}
	nonASCII := []func() string{
		func() string {
			id := "v" + hi(1+r.Intn(3), true)
			return "BEGIN { " + id + " = 1; " + id + "++; print " + id + " }"
		},
		func() string { return "BEGIN { v" + word() + " = 1; print 2 }" }, // may contain non-letter bytes: lexer error or not
		func() string {
			return "BEGIN { s = \"" + word() + "\"; print s, s.length(), s[0], s[1], s + s, s == s, s < \"a\" }"
		},
		func() string { return "BEGIN { for (c, i in '" + word() + "') print i, c }" },
		func() string { return "BEGIN { print 1 } # " + word() + word() + "\n{ print $ } #" + word() },
		func() string {
			return "BEGIN { o = {" + "k" + hi(1, true) + ": 1, \"" + word() + "\": 2}; print o; for (k in o) print k }"
		},
		func() string {
			return "function f" + hi(2, true) + "(a" + hi(1, true) + ") { return a" + hi(1, true) + " }\nBEGIN { print 1 }"
		},
		func() string {
			return "BEGIN { print \"" + word() + "\" ~ /" + pick(r, []string{"a", ".", "^.$", "b$"}) + "/, json(\"" + word() + "\") }"
		},
		func() string { return "BEGIN { print 1 " + hi(1, false) + " 2 }" },
		func() string { return "{ print $." + "k" + hi(1, true) + ", $[\"" + word() + "\"] }" },
		func() string {
			return "BEGIN { print \"a\".split(\"" + word() + "\"), \"x" + word() + "y\".split(\"\") }"
		},
	}
	n = tierN(tier, 1200, 15000)
	for i := 0; i < n; i++ {
		send(pick(r, nonASCII)(), "non-ascii", false)
	}
}

// ---------------------------------------------------------------------------
// family 4: selectors

var c01SelValid = []string{"$", "$.a", "$[0]", "$.a.b", "$[1]", "$.nosuch", "$.b[0]", "[$, $]", "{x: $}", "$.length()", "1", "\"s\"", "null", "$ + 1", "[3, 1, 2]",
	"$.a || $", "match ($) { [x, y, z] => x, 2 => \"two\", _ => $ }", "x = $", "$.a = 5", "$[0] = 9", "-$", "$ is array", "num(\"3\")", "json($)",
	"$.b.push(1)", "[3, 1, 2].sort()", "$\n", "\n $", "$ # comment", "($)", "$[-1]", "$.a.nosuch.deeper", "true", "[]", "{}", "[[1, 2], [3]]", "unsetname", "$.b"}
var c01SelFnValued = []string{"printf", "json", "num", "$.length", "[1].push", "\"s\".upper", "/ab+/", "$.b.sort", "1.floor"}
var c01SelSyntax = []string{"", " ", "$.", "$[", ")", "1 +", "@", "$ $", "\"abc", "/abc", "return 1", "break", "continue", "next", "exit", "print 1",
	"match ($) { _ => { break } }", "match ($) { _ => { return 1 } }", "match ($) { _ => { continue } }", "1 = 2", "$.a;", "{ print }", "BEGIN", "function f() {}",
	"$ ,", "$ is 1", "match ($) {", "match ($) { 1 }", "$.1", "[$", "{a: }", "* 2", "while (1) {}", "\xff", "$ \x00"}
var c01SelRuntime = []string{"1/0", "$.a.b.c = 1/0", "$()", "nosuch()", "\"a\" ~ \"(\"", "[] < 1", "$[-100]", "$file", "$index", "$nosuch", "\"\\q\"", "[printf]", "x = printf",
	"printf(\"%d\", 1)", "printf()", "match ($) { 1 + 1 => 2 }", "for5 = match (1) { _ => { for (x in 5) { } } }", "{a: json}", "null.x = 1", "$ % 0", "1.x = 2"}
var c01SelControl = []string{
	"match ($) { _ => { next } }", "match ($) { _ => { exit } }", "match ($) { _ => { print \"sel\", $\nnext } }", "match ($) { 2 => { next }, _ => $ }",
	"match ($) { [a, b] => { exit }, _ => $ }", "match ($) { [a, b, c] => { print \"sel3\"\nexit }, _ => $ }",
	"match ($) { _ => { for (x in [1, 2, 3]) { print \"sx\", x\nbreak } } }",
	"match ($) { _ => { i = 0\nwhile (i < 3) { i++\nif (i == 2) continue\nprint \"si\", i } } }",
	"match ($) { _ => { for (x in [1, 2]) { if (x == 1) next } } }",
	"[match ($) { _ => { exit } }, 1]", "match (1) { _ => { print \"only print\" } }", "match ($) { 1 => { exit }, _ => match ($) { 2 => { next }, v => v } }",
	"$ == 2 && match (1) { _ => { exit } }", "match ($) { _ => { printf(\"%v|\", $) } }",
}

var c01SelPrograms = []string{
	"BEGIN { print \"B\" }\nBEGINFILE { print \"BF\", $file, $ }\n{ print \"R\", $ }\nENDFILE { print \"EF\", $ }\nEND { print \"E\" }",
	"{ print $ }",
	"BEGIN { print \"B\" }\n$ is number && $ > 1 { print \"big\", $; next }\n{ print \"other\", $ }\nEND { print \"E\", $file }",
	"BEGINFILE { $ = [$, 1] }\n{ print \"R\", $ }\n$ == 1 { exit }\nENDFILE { print \"EF\", $ }\nEND { print \"E\" }",
	"{ $ = 0; print $ is function, $ is regex, $ is unknown, $ is null }\nEND { print \"E\" }",
	"{ print \"call\", $(1) }",
	"{ print \"R\", $index, $ }",
}

func c01GenSelectors(r *rand.Rand, tier string, emit func(Case)) {
	ins := c01Inputs()
	groups := []struct {
		name string
		sels []string
	}{{"valid", c01SelValid}, {"function-valued", c01SelFnValued}, {"syntax-error", c01SelSyntax}, {"runtime-error", c01SelRuntime}, {"control-flow", c01SelControl}}
	send := func(prog string, sels []string, kinds []string, in c01Input) {
		meta := metaProg(prog, "selectors", strings.Join(sels, "  ||  "), "selector-kinds", strings.Join(kinds, ","), "input", in.name,
			"row", strings.Join(kinds, "+"), "col", in.name)
		fields, wantJSON := c01Fields, chance(r, 0.4)
		if wantJSON {
			fields = c01FieldsJSON
		}
		emit(Case{Req: RunReq(prog, sels, in.files, wantJSON), Fields: fields, Oracle: c01ClassOracle, NonTrivial: c01Any, Meta: meta})
	}
	// systematic: every selector alone, on the main input shapes, with the first two programs
	mainInputs := []c01Input{ins[1], ins[3], ins[4], ins[10], ins[12], ins[14], ins[27]}
	for _, g := range groups {
		for _, s := range g.sels {
			for ii, in := range mainInputs {
				send(c01SelPrograms[ii%2], []string{s}, []string{g.name}, in)
			}
		}
	}
	// random: one to three selectors, any program, any input
	n := tierN(tier, 2500, 100000)
	for i := 0; i < n; i++ {
		k := 1 + r.Intn(3)
		var sels, kinds []string
		for j := 0; j < k; j++ {
			g := groups[0]
			if chance(r, 0.55) {
				g = pick(r, groups)
			}
			sels = append(sels, pick(r, g.sels))
			kinds = append(kinds, g.name)
		}
		in := c01PickInput(r, ins)
		if in.values == 0 && chance(r, 0.7) {
			in = pick(r, mainInputs)
		}
		send(pick(r, c01SelPrograms), sels, kinds, in)
	}
}

// ---------------------------------------------------------------------------
// family 5: panic-prone operations on edge operands
//
// Every operator, method, builtin, index form, printf width form, literal,
// loop header and match form of the language applied to edge operands (0, -0,
// fractions inside (-1, 1), the int64 / fill / width limits, 1e300, NaN and
// +-Inf as the language can produce them, empty and nested and cyclic
// containers, unset, null, booleans, regexes, function values, long strings),
// in every syntactic context that evaluates an expression.  The Go code
// truncates, indexes, slices, repeats and dereferences with these values; each
// of those is a potential Go panic (integer divide by zero, index out of
// range, nil dereference, negative Repeat count).

// c01EdgePool: C05's operand pool plus the values at which Go's integer
// conversion, slice indexing and strings.Repeat change behaviour.
func c01EdgePool() []opnd {
	p := append([]opnd{}, c05Pool()...)
	p = append(p, []opnd{
		{"N", "0.5", "0.5"}, {"N", "(-0.5)", "-0.5"}, {"N", "0.999", "0.999"}, {"N", "(-0.25)", "-0.25"}, {"N", "(1 / 3)", ""},
		{"N", "(-1)", "-1"}, {"N", "2", "2"}, {"N", "3", "3"}, {"N", "(-2)", "-2"}, {"N", "1.5", "1.5"},
		{"N", "1000000000000000000", "1000000000000000000"}, {"N", "9223372036854775807", "9223372036854775807"},
		{"N", "9223372036854775808", "9223372036854775808"}, {"N", "(-9223372036854775808)", "-9223372036854775808"},
		{"N", "99999999999999999999", "99999999999999999999"}, {"N", "4294967296", "4294967296"}, {"N", "2147483648", "2147483648"},
		{"N", "(-2147483649)", "-2147483649"}, {"N", "65536", "65536"}, {"N", "65537", "65537"}, {"N", "(-65536)", "-65536"}, {"N", "(-65537)", "-65537"},
		{"N", "1048577", "1048577"}, {"N", "num('-1e300')", "-1e300"}, {"N", "num('-inf')", ""}, {"N", "(num('1e308') * 10)", ""},
		{"N", "(num('1e308') * 10 - num('1e308') * 10)", ""}, {"N", "num('1e19')", "1e19"}, {"N", "(0 * -1)", ""},
		{"S", "'0.5'", `"0.5"`}, {"S", "'0.3'", `"0.3"`}, {"S", "'-0.9'", `"-0.9"`}, {"S", "'nan'", `"nan"`}, {"S", "'NaN'", `"NaN"`}, {"S", "'inf'", `"inf"`},
		{"S", "'-Inf'", `"-Inf"`}, {"S", "'1e400'", `"1e400"`}, {"S", "'%'", `"%"`}, {"S", "'%s'", `"%s"`}, {"S", "'%5'", `"%5"`}, {"S", "'%v%v'", `"%v%v"`},
		{"S", "'%-'", `"%-"`}, {"S", "'a,b'", `"a,b"`}, {"S", "','", `","`}, {"S", "'k'", `"k"`}, {"S", "'length'", `"length"`}, {"S", "'push'", `"push"`},
		{"S", "'[a'", `"[a"`}, {"S", "'a*'", `"a*"`}, {"S", "'-'", `"-"`}, {"S", "'65537'", `"65537"`}, {"S", "'-65536'", `"-65536"`},
		{"S", "L()", ""}, // 65536 characters, built by a program function
		{"A", "[0.5, -1, null]", `[0.5,-1,null]`}, {"A", "[[1, [2]], {a: {b: []}}]", `[[1,[2]],{"a":{"b":[]}}]`}, {"A", "[[], []]", `[[],[]]`},
		{"A", "[3, 1, 2]", `[3,1,2]`}, {"A", "['b', 1, null, [2]]", `["b",1,null,[2]]`}, {"A", "[null]", `[null]`}, {"A", "cyc()", ""}, {"A", "big()", ""},
		{"O", "{a: {b: {c: 1}}, k: [1]}", `{"a":{"b":{"c":1}},"k":[1]}`}, {"O", "{length: 5, push: 1}", `{"length":5,"push":1}`},
		{"O", "{'': 1, '0': 2, '-1': 3}", `{"":1,"0":2,"-1":3}`}, {"O", "ocyc()", ""},
		{"R", "/(/", ""}, {"R", "/[a/", ""}, {"R", "/^$/", ""},
		{"F", "json", ""}, {"F", "num", ""}, {"F", "[1].push", ""}, {"F", "'s'.upper", ""}, {"F", "[].length", ""},
		{"U", "u.v", ""}, {"U", "u[0]", ""}, {"Z", "[1][5]", ""}, {"Z", "{a: 1}.b.c", ""},
	}...)
	return p
}

const c01EdgeFuncs = "function f() { return 1 }\n" +
	"function g2(p, q) { p[q] = 1\n return p }\n" +
	"function L() { s = 'ab'\n for (i = 0; i < 15; i++) s = s + s\n return s }\n" +
	"function cyc() { a = [1]\n a.push(a)\n return a }\n" +
	"function ocyc() { o = {k: 1}\n o.self = o\n o.list = [o]\n return o }\n" +
	"function big() { a = []\n for (i = 0; i < 3000; i++) a.push(i % 7)\n return a }\n"

type c01Op struct {
	text string // §A §B §C are the operand slots
	stmt bool   // statements (with their own prints) instead of one expression
}

func c01EdgeOps() []c01Op {
	var ops []c01Op
	e := func(ts ...string) {
		for _, t := range ts {
			ops = append(ops, c01Op{t, false})
		}
	}
	s := func(ts ...string) {
		for _, t := range ts {
			ops = append(ops, c01Op{t, true})
		}
	}
	for _, op := range c05BinOps {
		e("§A " + op + " §B")
	}
	for _, op := range []string{"+=", "-=", "*=", "/="} {
		s("x = §A\nx "+op+" §B\nprint x", "§A "+op+" §B\nprint §A", "x = [§A, {k: §A}]\nx[0] "+op+" §B\nx[1].k "+op+" §C\nprint x")
	}
	e("§A is number", "§A is unknown", "§A is function", "§A is regex", "§A is §B", "-§A", "+§A", "!§A", "- -§A", "-§A % §B", "§A % -§B",
		"§A % §B % §C", "§A / §B / §C", "(§A + §B) % §C", "§A * §B - §C", "§A % (§B - §C)", "§A / (§B * §C)", "§A % (§B / §C)",
		"num(§A) % num(§B)", "§A.floor() % §B.ceil()", "(§A / §B).round()", "(§A * §B).floor()", "num(§A / §B)", "num(§A * §B)",
		"[1, 2, 3][§A % §B]", "[1, 2, 3][§A / §B]", "[1, 2, 3][num(§A)]", "[1, 2, 3][§A - §B]", "'abc'[§A * §B]", "'abc'[§A % §B]",
		"§A + §B + §C", "(§A + §B).length()", "(§A + '').split('')", "(§A + '').upper().lower()", "(§A + '')[§B]", "(§A + '').split(§B + '')",
		"§A < §B == §C", "§A && §B || §C", "!§A == !§B")
	s("x = §A\nprint x++, x\nprint ++x, x\nprint x--, x\nprint --x, x", "print §A++, §A\nprint --§A, §A", "x = [§A, §B]\nx[0]++\n--x[1]\nx[2]++\nprint x",
		"x = {k: §A}\nx.k++\nx.j--\nprint x, x.k++ + ++x.k")
	// index and member reads
	e("§A[§B]", "§A[§B][§C]", "§A.k", "§A.length", "§A[§B].k", "§A.k[§B]", "§A[0]", "§A[-1]", "§A[§B].length()", "[10, 20, 30][§A]", "'hello'[§A]",
		"{a: 1, '1': 2}[§A]", "[[1, 2], [3]][§A][§B]", "[§A, §B][§C]", "{k: §A}[§B]", "§A[§A]", "§A[§B[§C]]", "§A.a.b.c", "§A[0][0][0]")
	// index and member writes (also through missing / unset bases)
	s("x = §A\nx[§B] = §C\nprint x", "x = §A\nx.k = §B\nprint x", "x = §A\nx[§B].k = §C\nprint x", "x = §A\nx[§B][§C] = 1\nprint x",
		"x = §A\nx[§B]++\nprint x", "x = §A\nx[§B] += §C\nprint x", "y[§A] = §B\nprint y", "y[§A][§B] = §C\nprint y", "y.k[§A] = §B\nprint y",
		"x = [1, 2, 3]\nx[§A] = §B\nprint x.length(), x[0], x[§A]", "x = 'str'\nx[§A] = §B\nprint x", "x = {a: 1}\nx[§A] = §B\nprint x",
		"§A[§B] = §C\nprint §A", "§A.k = §B\nprint §A", "§A.k.j[§B] = §C\nprint §A", "x = [[1], [2]]\nx[§A][§B] = §C\nprint x",
		"x = §A\nx[0] = x\nprint x", "x = §A\nx.me = x\nprint x\nprint json(x)", "x = §A\ny = x\ny[§B] = §C\nprint x, y")
	// methods: every method on every receiver, right and wrong argument counts
	e("§A.length()", "§A.push(§B)", "§A.pop()", "§A.popfirst()", "§A.contains(§B)", "§A.sort()", "§A.pluck(§B)", "§A.pluck(§B, §C)", "§A.pluck()",
		"§A.split(§B)", "§A.split()", "§A.lower()", "§A.upper()", "§A.floor()", "§A.ceil()", "§A.round()",
		"§A.push()", "§A.push(§B, §C)", "§A.pop(§B)", "§A.popfirst(§B)", "§A.contains()", "§A.contains(§B, §C)", "§A.length(§B)", "§A.sort(§B)",
		"§A.floor(§B)", "§A.split(§B, §C)", "§A.upper(§B)", "§A.nosuch(§B)", "§A.k.push(§B)", "§A.sort().pop()", "§A.sort()[§B]",
		"[3, 1, 2].contains(§A)", "[§A, §B, §C].sort()", "[§A, §B].contains(§C)", "{a: 1, b: 2}.pluck(§A, §B)", "'a,b,,c'.split(§A)",
		"[§A].pop()", "[§A].popfirst()", "[].pop()", "[].popfirst()", "[[§A], §B].sort()", "[§A, §B].sort().contains(§C)", "{k: §A}.pluck('k', §B).length()",
		"§A.push(§B).pop()", "§A.push(§A)", "§A.length().floor()", "§A.split(§B).pop()", "§A.split(§B)[§C]")
	s("x = §A\nx.push(§B)\nx.push(§C)\nprint x.pop(), x.popfirst(), x.pop(), x.pop(), x.popfirst(), x", "x = [§A]\nprint x.popfirst(), x.popfirst(), x.pop(), x, x.length()",
		"m = §A.push\nprint m(§B)", "§A.length = §B\nprint §A, §A.length", "x = §A\nx.pop = §B\nprint x.pop", "x = [§A, §B, §C]\ny = x.sort()\ny[0] = 'changed'\nprint x, y",
		"x = §A\nwhile (x.length() > 0 && n < 5) { n++\n print x.popfirst() }\nprint x.pop(), x.popfirst()")
	// builtins, printf verbs and widths
	e("num(§A)", "num()", "num(§A, §B)", "json(§A)", "json()", "json(§A, §B)", "json([§A, §B, {k: §C}])", "num(json(§A))", "json(num(§A))",
		"printf(§A)", "printf(§A, §B)", "printf(§A, §B, §C)", "printf()", "printf('%s|%f|%v|\\n', §A, §B, §C)", "printf('%5s|\\n', §A)", "printf('%-5f|\\n', §A)",
		"printf('%05v|%-3v|%3v\\n', §A, §B, §C)", "printf('%v %v\\n', §A)", "printf('%s\\n', §A)", "printf('%f\\n', §A)", "printf('%v\\n', §A)", "printf('%012f|%-12f|\\n', §A, §B)",
		"printf('%' + §A + 'v|\\n', §B)", "printf('%' + §A + 's|\\n', §B)", "printf('%' + §A + 'f|\\n', §B)", "printf('%-' + §A + 'v|\\n', §B)", "printf('%0' + §A + 'v|\\n', §B)",
		"printf('%' + §A, §B)", "printf('%' + §A + '%', §B)", "printf(§A + '%')", "printf('%5')", "printf('%-')", "printf('%q', §A)", "printf('%' + num(§A) + 'v|\\n', 1)",
		"printf('%65536v|\\n', §A)", "printf('%-65536s|\\n', §A)", "printf('%65537v|\\n', §A)", "printf('%-65537v|\\n', §A)", "printf('%9223372036854775807v', §A)", "printf('%9223372036854775808v', §A)",
		"printf('%--5v', §A)", "printf('%-0v|%00v|%0v|\\n', §A, §B, §C)", "printf('%1' + §A, §B)")
	// calls
	e("§A()", "§A(§B)", "§A(§B, §C)", "f(§A)", "f(§A, §B, §C)", "g2(§A, §B)", "g2(§A)", "§A.k()", "§A[§B]()", "§A()()")
	// loops and conditions (all bounded by a counter of their own)
	s("for (e in §A) { print e\n if (n++ > 5) break }", "for (e, i in §A) { print i, e\n if (n++ > 5) break }", "for (e in [§A, §B, §C]) print e", "for (k, v in {a: §A, b: §B}) print k, v",
		"for (e in §A[§B]) { print e\n if (n++ > 5) break }", "for (e in §A) { for (e2 in e) { print e2\n if (m++ > 5) break }\n if (n++ > 5) break }",
		"if (§A) print 'T'; else print 'E'", "w = 0\nwhile (§A && w < 2) w++\nprint w", "for (i = §A; i < §B && k < 3; i++) k++\nprint i, k", "for (i = 0; i < 3 && !§A; i = i + 1) print i",
		"for (i = 0; i < 3; i = i + 1 / §A) { print i\n if (k++ > 3) break }", "i = §A\nwhile (i % 2 < 1 && k < 3) { k++\n i++ }\nprint i, k")
	// match: subject, literal patterns, array patterns, bindings
	e("match (§A) { 0 => 'zero', 'abc' => 's', null => 'nul', true => 't', [] => 'e', [p] => p, [p, q] => q, n => n }", "match (§A) { §B => 1, _ => 2 }",
		"match ([§A, §B]) { [0, p] => p, [p, null] => p, [[p], q] => q, _ => 'other' }", "match (§A) { /a/ => 1, _ => 0 }", "match (§A) { 1, §B, 3 => 'hit' }",
		"match (§A) { [[[p]]] => p, [p, [q, [r]]] => r }", "match (§A[§B]) { n => n[§C] }", "match (§A) { n => n % §B }", "match (§A) { [p, q] => p % q, n => 1 % n }")
	s("match (§A) { n => { n[§B] = §C\nprint n } }\nprint §A", "match (§A) { [p, q] => { p = §B\nq.k = §C\nprint p, q } }\nprint §A")
	// literals and regex matching
	e("[§A, §B, §C]", "{k: §A, 'k2': §B}", "[[§A], {k: [§B]}]", "{a: {b: {c: §A}}}.a.b.c", "§A ~ /a/", "'abc' ~ §A", "§A ~ '(' + §B", "§A ~ §B + '*'", "§A !~ '^' + §B + '$'")
	// the root
	s("$ = §A\nprint $", "$.k = §A\nprint $", "$[§A] = §B\nprint $", "print $[§A], $.k[§B]", "$[§A] += §B\nprint $", "print $index % §A, $index / §A", "$ = [§A]\n$[0][§B] = §C\nprint")
	return ops
}

var c01EdgeContexts = []string{"BEGIN", "END", "BEGINFILE", "rule-body", "rule-pattern", "function-body", "function-from-rule", "match-body", "loop-body", "selector"}

// c01EdgeCase builds one case: op with the given operands in context ctx.
// mode: inline | vars | fields | params
func c01EdgeCase(r *rand.Rand, op c01Op, a [3]opnd, ctx, mode string) Case {
	isSel := ctx == "selector"
	isFn := strings.HasPrefix(ctx, "function")
	hasDoc := ctx != "BEGIN" && ctx != "match-body" && ctx != "loop-body" && ctx != "function-body"
	used := []bool{strings.Contains(op.text, "§A"), strings.Contains(op.text, "§B"), strings.Contains(op.text, "§C")}
	if mode == "fields" {
		ok := hasDoc && ctx != "END"
		for i := range a {
			if used[i] && a[i].json == "" {
				ok = false
			}
		}
		if !ok {
			mode = "inline"
		}
	}
	if mode == "params" && !isFn {
		mode = "vars"
	}
	exprCtx := ctx == "rule-pattern" || isSel
	if mode == "vars" && exprCtx && !op.stmt {
		mode = "inline"
	}
	slot := [3]string{}
	var pre []string
	for i := range a {
		switch mode {
		case "inline", "params":
			slot[i] = a[i].expr
			if mode == "params" {
				slot[i] = "p" + string(rune('a'+i))
			}
		case "vars":
			slot[i] = a[i].expr
			if used[i] && a[i].kind != "F" && a[i].kind != "U" {
				slot[i] = "v" + string(rune('a'+i))
				pre = append(pre, slot[i]+" = "+a[i].expr)
			}
		case "fields":
			slot[i] = "$." + string(rune('a'+i))
		}
	}
	text := strings.NewReplacer("§A", slot[0], "§B", slot[1], "§C", slot[2]).Replace(op.text)
	body := text
	if !op.stmt {
		switch r.Intn(3) {
		case 0:
			body = "r = " + text + "\nprint r, r is number, r is string"
		case 1:
			body = "print " + text
		default:
			body = "r = [" + text + "]\nprint r"
		}
	}
	if len(pre) > 0 {
		body = strings.Join(pre, "\n") + "\n" + body
	}
	doc := pick(r, []string{`[1, [2], {"k": 3}]`, `{"k": [1, 2], "a": {"b": 1}}`, `[0.5]`, `7`, `[]`, `"str"`})
	if mode == "fields" {
		var ms []string
		for i := range a {
			if used[i] {
				ms = append(ms, fmt.Sprintf(`"%c": %s`, 'a'+i, a[i].json))
			}
		}
		doc = "{" + strings.Join(ms, ", ") + "}"
		if chance(r, 0.3) && !isSel {
			doc = "[" + doc + "]"
		}
	}
	var prog string
	var sels []string
	var files []File
	if hasDoc {
		files = []File{{Name: "in.json", Data: []byte(doc)}}
	}
	args := a[0].expr + ", " + a[1].expr + ", " + a[2].expr
	switch ctx {
	case "BEGIN":
		prog = "BEGIN {\n" + body + "\n}\nEND { print \"end\" }\n"
	case "END":
		prog = "{ seen++ }\nEND {\n" + body + "\nprint \"end\", seen\n}\n"
	case "BEGINFILE":
		prog = "BEGINFILE {\n" + body + "\n}\n{ print \"R\", $ }\n"
	case "rule-body":
		prog = "{\n" + body + "\n}\nEND { print \"end\" }\n"
	case "rule-pattern":
		if op.stmt {
			prog = c01M(body) + " == null { print \"hit\", $index }\n{ print \"second rule\" }\n"
		} else {
			prog = text + " { print \"hit\", $index }\n{ print \"second rule\" }\n"
		}
	case "function-body", "function-from-rule":
		ret := "return r"
		if op.stmt {
			ret = "return x"
		}
		prog = "function t(pa, pb, pc) {\n" + body + "\n" + ret + "\n}\n"
		call := "t(" + args + ")"
		if mode != "params" {
			call = "t()"
		}
		if ctx == "function-body" {
			prog += "BEGIN { print " + call + "\nprint pa is unknown }\n"
		} else {
			prog += "{ print " + call + " }\n" + call + " { print \"pattern\" }\n"
		}
	case "match-body":
		if op.stmt {
			prog = "BEGIN {\nmatch (1) { 2 => 0, _ => {\n" + body + "\n} }\nprint \"after\"\n}\n"
		} else {
			p := strings.Join(pre, "\n")
			prog = "BEGIN {\n" + p + "\nprint match (1) { 2 => 0, _ => " + text + " }\nprint match (" + text + ") { v => v }\n}\n"
		}
	case "loop-body":
		prog = "BEGIN {\nfor (it = 0; it < 2; it++) {\n" + body + "\n}\nprint \"after\", it\n}\n"
	case "selector":
		prog = "{ print \"R\", $ }\n"
		if op.stmt {
			sels = []string{c01M(body)}
		} else {
			sels = []string{text}
		}
		if chance(r, 0.3) {
			sels = append(sels, "$")
		}
	}
	if !isSel {
		prog = c01EdgeFuncs + prog
	}
	fields, wantJSON := c01Fields, hasDoc && chance(r, 0.3)
	if wantJSON {
		fields = c01FieldsJSON
	}
	meta := metaProg(prog, "operation", op.text, "operands", a[0].expr+" | "+a[1].expr+" | "+a[2].expr, "context", ctx, "operand-mode", mode,
		"row", strings.Fields(strings.NewReplacer("§A", "A", "§B", "B", "§C", "C", "\n", " ; ").Replace(op.text) + " x")[0], "col", ctx)
	if hasDoc {
		meta["input"] = short(doc)
	}
	if len(sels) > 0 {
		meta["selectors"] = strings.Join(sels, "  ||  ")
	}
	return Case{Req: RunReq(prog, sels, files, wantJSON), Fields: fields, Meta: meta, Oracle: c01ClassOracle,
		NonTrivial: func(i Resp) bool { return i["class"] != "syntax" }}
}

func c01GenEdgeOps(r *rand.Rand, tier string, emit func(Case)) {
	pool := c01EdgePool()
	ops := c01EdgeOps()
	modes := []string{"inline", "vars", "fields", "params"}
	// operands that need the program's functions cannot be written in a selector
	selOK := func(o opnd) bool {
		return !strings.Contains(o.expr, "()") || strings.HasPrefix(o.expr, "(")
	}
	// operands whose cases are slow (64 KiB strings and paddings, 3000-element arrays): a small share in the quick tier
	heavy := func(o opnd) bool {
		return strings.Contains(o.expr, "L()") || strings.Contains(o.expr, "big()") || strings.Contains(o.expr, "6553")
	}
	pickOp := func(ctx string) opnd {
		for {
			o := pick(r, pool)
			if heavy(o) && tier != "thorough" && !chance(r, 0.15) {
				continue
			}
			if ctx != "selector" || selOK(o) {
				return o
			}
		}
	}
	one := func(op c01Op, fixed int, o opnd, ctx string) {
		if ctx == "selector" && (!selOK(o) || strings.Contains(op.text, "f(") || strings.Contains(op.text, "g2(")) {
			ctx = "rule-body"
		}
		a := [3]opnd{pickOp(ctx), pickOp(ctx), pickOp(ctx)}
		if fixed >= 0 {
			a[fixed] = o
		}
		emit(c01EdgeCase(r, op, a, ctx, pick(r, modes)))
	}
	// systematic: every operation x every slot x every pool operand (the other slots random), contexts in rotation
	k := 0
	for _, op := range ops {
		for si, s := range []string{"§A", "§B", "§C"} {
			if !strings.Contains(op.text, s) {
				continue
			}
			for _, o := range pool {
				if tier != "thorough" {
					p := []float64{0.5, 0.5, 0.2}[si]
					if heavy(o) {
						p *= 0.3
					}
					if !chance(r, p) {
						continue
					}
				}
				one(op, si, o, c01EdgeContexts[k%len(c01EdgeContexts)])
				k++
			}
		}
		// every operation in every context at least once
		for _, ctx := range c01EdgeContexts {
			one(op, -1, opnd{}, ctx)
		}
	}
	// random combinations
	n := tierN(tier, 6000, 250000)
	for i := 0; i < n; i++ {
		one(pick(r, ops), -1, opnd{}, pick(r, c01EdgeContexts))
	}
}

// ---------------------------------------------------------------------------
// runaway recursion: the CRASH class of the call-depth limit. Every shape through
// which a user function can reach itself (a plain call, no parameters, mutual
// recursion, match expression / block bodies and subjects, array patterns, nested
// matches, loop bodies and headers, method arguments and receivers, call arguments,
// index / member selectors, literals, conditions, rule patterns) recurses without
// a base case -- or with one far beyond the limit -- and the recursive call sits
// inside a deep pad of nested operators, so that each level takes tens to hundreds
// of kilobytes of Go stack: an implementation that fails to stop the recursion dies
// with Go's fatal "stack overflow" (class crash, within seconds) or, at best, runs
// into the worker's timeout; neither is one of the outcomes C01 allows. Expected
// everywhere: the runtime error "call depth limit exceeded" with the output
// printed before it.
//
// Finding K1 (clean tree; KNOWN_FINDINGS.txt, fam_known.go): the limit counts frames, not Go stack. ~2 KB of Go
// stack per nested operator x the nesting around the call x 4096 levels exceeds the
// 512 MB that Go's 1 GB cap effectively allows once a level nests ~80 operators: the
// real binary dies with "fatal error: stack overflow" on
//   function f(n) { return 0+(0+( …80 times… f(n + 1) … )) } BEGIN { print f(0) }
// The generator stays below that product: in the "late-pad" form (most cases) every
// function counts its calls in a global and only levels beyond 4200 -- which the
// limit never lets a run reach -- use the deep pad (150-300 operators); the
// "padded" form of the seeded witness (a pad on every level) and the count-down
// shapes that must complete within the limit use at most 40.

// c01Pad nests call inside n operators of one kind (every form starts with an
// operand, so that it can open a statement: a leading { would be a block).
func c01Pad(kind int, n int, call string) string {
	switch kind {
	case 1: // array literal + index selector
		return "0+" + strings.Repeat("[", n) + call + strings.Repeat("][0]", n)
	case 2: // unary minus and an addition, alternating
		return strings.Repeat("-(0+(", n/2) + call + strings.Repeat("))", n/2)
	case 3: // object literal + member selector
		return "0+" + strings.Repeat("{k: ", n) + call + strings.Repeat("}.k", n)
	}
	return strings.Repeat("0+(", n) + call + strings.Repeat(")", n)
}

// c01RFn is one function of a recursion shape: the body has §…§ around every recursive call.
type c01RFn struct{ sig, body string }

type c01Rec struct {
	name  string
	fns   []c01RFn
	entry string
}

var c01RunawayShapes = []c01Rec{
	{"direct", []c01RFn{{"f(n)", "return §f(n + 1)§"}}, "f(0)"},
	{"direct-no-parameters", []c01RFn{{"f()", "return §f()§"}}, "f()"},
	{"direct-no-parameters-statement", []c01RFn{{"f()", "§f()§"}}, "f()"},
	{"direct-statement", []c01RFn{{"f(n)", "§f(n + 1)§\n return 1"}}, "f(0)"},
	{"direct-assignment", []c01RFn{{"f(n)", "v = §f(n + 1)§\n return v"}}, "f(0)"},
	{"direct-surplus-and-missing-arguments", []c01RFn{{"f(a, b)", "return §f(a, b, 1)§ + §f()§"}}, "f(0)"},
	{"direct-two-calls", []c01RFn{{"f(n)", "return §f(n + 1)§ + §f(n + 2)§"}}, "f(0)"},
	{"mutual-2", []c01RFn{{"a(n)", "return §b(n + 1)§"}, {"b(n)", "return §a(n + 1)§"}}, "a(0)"},
	{"mutual-2-no-parameters", []c01RFn{{"a()", "§b()§"}, {"b()", "§a()§"}}, "a()"},
	{"mutual-3", []c01RFn{{"a(n)", "return §b(n + 0)§"}, {"b(n)", "x = §c(n + 1)§\n return x"}, {"c(n)", "if (§a(n)§) return 1\n return 0"}}, "a(0)"},
	{"match-expr-body", []c01RFn{{"f(n)", "return match (n) { x => §f(x + 1)§ }"}}, "f(0)"},
	{"match-expr-body-no-binding", []c01RFn{{"f(n)", "return match (1) { 1 => §f(n + 1)§ }"}}, "f(0)"},
	{"match-expr-body-second-case", []c01RFn{{"f(n)", "return match (n) { -1 => 0, \"s\", [q] => 1, x => §f(x + 1)§ }"}}, "f(0)"},
	{"match-block-body", []c01RFn{{"f(n)", "match (n) { x => { return §f(x + 1)§ } }"}}, "f(0)"},
	{"match-block-body-statement", []c01RFn{{"f(n)", "match (n) { x => { §f(x)§ } }\n return 1"}}, "f(0)"},
	{"match-array-pattern", []c01RFn{{"f(n)", "return match (n) { [a] => §f([a])§, _ => 0 }"}}, "f([1])"},
	{"match-array-pattern-nested-block", []c01RFn{{"f(n)", "match (n) { [[a], b] => { return §f([[b], a])§ } }"}}, "f([[1], 2])"},
	{"match-subject", []c01RFn{{"f(n)", "return match (§f(n + 1)§) { x => x }"}}, "f(0)"},
	{"match-no-parameters", []c01RFn{{"f()", "return match (1) { x => §f()§ }"}}, "f()"},
	{"nested-match-expr", []c01RFn{{"f(n)", "return match (n) { a => match (a) { b => §f(b + 1)§ } }"}}, "f(0)"},
	{"nested-match-block", []c01RFn{{"f(n)", "match (n) { a => { match (a) { b => { return §f(b + 1)§ } } } }"}}, "f(0)"},
	{"nested-match-3-mixed", []c01RFn{{"f(n)", "return match (n) { a => match ([a]) { [b] => { match (b) { c => { return §f(c + 1)§ } } } } }"}}, "f(0)"},
	{"mutual-through-two-matches", []c01RFn{{"a(n)", "return match (n) { x => §b(x + 1)§ }"}, {"b(n)", "match (n) { y => { return §a(y + 1)§ } }"}}, "a(0)"},
	{"mutual-match-and-plain", []c01RFn{{"a(n)", "return match (n) { x => §b(x)§ }"}, {"b(n)", "return §a(n + 1)§"}}, "a(0)"},
	{"loop-for-in", []c01RFn{{"f(n)", "for (x in [n]) { return §f(x + 1)§ }"}}, "f(0)"},
	{"loop-for-in-object", []c01RFn{{"f(n)", "for (k, v in {a: n}) { return §f(v + 1)§ }"}}, "f(0)"},
	{"loop-while", []c01RFn{{"f(n)", "while (true) { return §f(n + 1)§ }"}}, "f(0)"},
	{"loop-c-for", []c01RFn{{"f(n)", "for (j = 0; j < 1; j++) { §f(n + 1)§ }"}}, "f(0)"},
	{"loop-while-condition", []c01RFn{{"f(n)", "while (§f(n + 1)§) { return 1 }"}}, "f(0)"},
	{"loop-for-in-iterable", []c01RFn{{"f(n)", "for (x in §f(n + 1)§) { return 1 }"}}, "f(0)"},
	{"loop-c-for-clauses", []c01RFn{{"f(n)", "for (j = §f(n + 1)§; j < 1; j++) { return 1 }"}}, "f(0)"},
	{"loops-in-match-in-loop", []c01RFn{{"f(n)", "for (x in [n]) { match (x) { y => { while (true) { return §f(y + 1)§ } } } }"}}, "f(0)"},
	{"match-in-loop-expr", []c01RFn{{"f(n)", "for (x in [n, n]) { v = match (x) { y => §f(y + 1)§ } }"}}, "f(0)"},
	{"method-argument-contains", []c01RFn{{"f(n)", "return [n].contains(§f(n + 1)§)"}}, "f(0)"},
	{"method-argument-push", []c01RFn{{"f(n)", "a = []\n a.push(§f(n + 1)§)\n return a"}}, "f(0)"},
	{"method-argument-split", []c01RFn{{"f(n)", "return \"a,b\".split(§f(n + 1)§)"}}, "f(0)"},
	{"method-argument-pluck", []c01RFn{{"f(n)", "return {a: 1}.pluck(\"a\", §f(n + 1)§)"}}, "f(0)"},
	{"method-receiver", []c01RFn{{"f(n)", "return §f(n + 1)§.length()"}}, "f(0)"},
	{"method-argument-in-match", []c01RFn{{"f(n)", "return match (n) { x => [x].contains(§f(x + 1)§) }"}}, "f(0)"},
	{"call-argument", []c01RFn{{"g(v)", "return v"}, {"f(n)", "return g(§f(n + 1)§)"}}, "f(0)"},
	{"call-argument-own", []c01RFn{{"f(n)", "return f(§f(n + 1)§)"}}, "f(0)"},
	{"builtin-argument-printf", []c01RFn{{"f(n)", "printf(\"%s\", §f(n + 1)§)"}}, "f(0)"},
	{"builtin-argument-json", []c01RFn{{"f(n)", "return json(§f(n + 1)§)"}}, "f(0)"},
	{"builtin-argument-num", []c01RFn{{"f(n)", "return num(§f(n + 1)§)"}}, "f(0)"},
	{"index-selector", []c01RFn{{"f(n)", "return [n, n][§f(n + 1)§]"}}, "f(0)"},
	{"index-selector-of-root", []c01RFn{{"f(n)", "return $[§f(n + 1)§]"}}, "f(0)"},
	{"index-selector-assigned", []c01RFn{{"f(n)", "t[§f(n + 1)§] = 1"}}, "f(0)"},
	{"member-selector-base", []c01RFn{{"f(n)", "return §f(n + 1)§.k.l"}}, "f(0)"},
	{"member-selector-assigned", []c01RFn{{"f(n)", "[§f(n + 1)§][0].k = 1"}}, "f(0)"},
	{"index-selector-in-match", []c01RFn{{"f(n)", "return match (n) { x => [x][§f(x + 1)§] }"}}, "f(0)"},
	{"array-literal", []c01RFn{{"f(n)", "return [n, §f(n + 1)§]"}}, "f(0)"},
	{"object-literal", []c01RFn{{"f(n)", "return {a: n, b: §f(n + 1)§}"}}, "f(0)"},
	{"condition-if", []c01RFn{{"f(n)", "if (§f(n + 1)§) return 1\n return 0"}}, "f(0)"},
	{"condition-and-or", []c01RFn{{"f(n)", "return n < 0 || true && §f(n + 1)§"}}, "f(0)"},
	{"unary-not", []c01RFn{{"f(n)", "return !§f(n + 1)§"}}, "f(0)"},
	{"compare-regex", []c01RFn{{"f(n)", "return §f(n + 1)§ ~ /a/"}}, "f(0)"},
	{"print-argument", []c01RFn{{"f(n)", "print n < 0, §f(n + 1)§"}}, "f(0)"},
	{"compound-assignment", []c01RFn{{"f(n)", "t += §f(n + 1)§\n return t"}}, "f(0)"},
}

// the same with a base case that an unlimited implementation would reach: the
// argument counts down from d; frames = how many frames one level opens
var c01DeepShapes = []struct {
	name   string
	fns    []c01RFn
	frames int
}{
	{"direct", []c01RFn{{"f(n)", "if (n <= 0) return 0\n return 1 + §f(n - 1)§"}}, 1},
	{"mutual-2", []c01RFn{{"f(n)", "if (n <= 0) return 0\n return 1 + §g(n - 1)§"}, {"g(n)", "if (n <= 0) return 0\n return 1 + §f(n - 1)§"}}, 1},
	{"match-expr-body", []c01RFn{{"f(n)", "return match (n) { 0 => 0, x => 1 + §f(x - 1)§ }"}}, 2},
	{"match-block-body", []c01RFn{{"f(n)", "match (n) { 0 => { return 0 }\n x => { return 1 + §f(x - 1)§ } }"}}, 2},
	{"nested-match", []c01RFn{{"f(n)", "if (n == 0) return 0\n return match (n) { a => match (a) { b => 1 + §f(b - 1)§ } }"}}, 3},
	{"match-array-pattern", []c01RFn{{"f(n)", "return match ([n]) { [0] => 0, [x] => 1 + §f(x - 1)§ }"}}, 2},
	{"loop-in-match", []c01RFn{{"f(n)", "for (x in [n]) { match (x) { 0 => { return 0 }\n y => { return 1 + §f(y - 1)§ } } }"}}, 2},
	{"method-argument-in-match", []c01RFn{{"f(n)", "return match (n) { 0 => 0, x => 1 + [§f(x - 1)§].pop() }"}}, 2},
	{"index-selector", []c01RFn{{"f(n)", "if (n <= 0) return 0\n return [0, 1 + §f(n - 1)§][1]"}}, 1},
}

type c01RecCtx struct {
	name  string
	tmpl  string // %s = the entry call
	doc   string
	sels  []string
	extra int // frames open where the entry call is made
}

var c01RecCtxs = []c01RecCtx{
	{"BEGIN", "BEGIN { print \"start\"\n print %s\n print \"after\" }\n", "", nil, 0},
	{"END", "{ cnt++ }\nEND { print \"start\"\n print %s\n print \"after\" }\n", "[1,2]", nil, 0},
	{"rule-body", "{ print \"start\"\n print %s\n print \"after\" }\n", "[7]", nil, 0},
	{"rule-pattern", "BEGIN { print \"start\" }\n%s || true { print \"after\" }\n", "[7]", nil, 0},
	{"BEGINFILE", "BEGINFILE { print \"start\"\n print %s\n print \"after\" }\n", "[7]", nil, 0},
	{"ENDFILE", "ENDFILE { print \"start\"\n print %s\n print \"after\" }\n", "{\"a\":1}", nil, 0},
	{"match-block-at-rule-level", "BEGIN { print \"start\"\n match (1) { q => { print %s } }\n print \"after\" }\n", "", nil, 1},
	{"match-expr-at-rule-level", "BEGIN { print \"start\"\n print match (1) { q => %s }\n print \"after\" }\n", "", nil, 1},
	{"wrapper-function", "function w() { return %s }\nBEGIN { print \"start\"\n print w()\n print \"after\" }\n", "", nil, 1},
	{"wrapper-function-match", "function w(v) { return match (v) { q => %s } }\n{ print \"start\"\n print w($)\n print \"after\" }\n", "[7]", nil, 2},
	{"loop-at-rule-level", "BEGIN { print \"start\"\n for (k in [1]) { print %s }\n print \"after\" }\n", "", nil, 0},
	{"rule-body-after-selector", "{ print \"start\"\n print %s\n print \"after\" }\n", "{\"a\":{\"b\":[7]}}", []string{"$.a.b"}, 0},
}

// c01Body pads the recursive calls of a function body.
func c01Body(body string, padKind, padN int) string {
	parts := strings.Split(body, "§")
	var sb strings.Builder
	for i, p := range parts {
		if i%2 == 1 {
			sb.WriteString(c01Pad(padKind, padN, p))
		} else {
			sb.WriteString(p)
		}
	}
	return sb.String()
}

// c01RecProg renders the functions and the starting rule. late == 0: the pad on every
// level. late > 0: levels below `late` run the body without a pad, the later ones with
// it; the level is the parameter n where every call passes n + 1 (found in the top
// frame: the other variables cost a walk down the whole frame chain on every use),
// else a global that every function increments.
func c01RecProg(s c01Rec, ctx c01RecCtx, entry string, padKind, padN, late int) string {
	var sb strings.Builder
	for _, f := range s.fns {
		switch {
		case late > 0 && strings.Contains(f.body, "§") && c01ByArg(s):
			fmt.Fprintf(&sb, "function %s { if (n < %d) { %s } else { %s } }\n", f.sig, late, c01Body(f.body, 0, 0), c01Body(f.body, padKind, padN))
		case late > 0 && strings.Contains(f.body, "§"):
			fmt.Fprintf(&sb, "function %s { lvl++\n if (lvl < %d) { %s } else { %s } }\n", f.sig, late, c01Body(f.body, 0, 0), c01Body(f.body, padKind, padN))
		default:
			fmt.Fprintf(&sb, "function %s { %s }\n", f.sig, c01Body(f.body, padKind, padN))
		}
	}
	return sb.String() + fmt.Sprintf(ctx.tmpl, entry)
}

// c01ByArg: every recursing function is X(n), started with 0, and every recursive call passes … + 1
func c01ByArg(s c01Rec) bool {
	ok := strings.HasSuffix(s.entry, "(0)")
	for _, f := range s.fns {
		for j, part := range strings.Split(f.body, "§") {
			if j%2 == 1 && !strings.HasSuffix(part, " + 1)") {
				ok = false
			}
		}
		if strings.Contains(f.body, "§") && !strings.HasSuffix(f.sig, "(n)") {
			ok = false
		}
	}
	return ok
}

func c01GenRunaway(r *rand.Rand, tier string, emit func(Case)) {
	send := func(row, kind, prog string, ctx c01RecCtx, wantClass, wantOut string) {
		var files []File
		if ctx.doc != "" {
			files = []File{{Name: "in.json", Data: []byte(ctx.doc)}}
		}
		meta := map[string]string{"kind": kind, "row": row, "col": ctx.name, "expected": wantClass, "size": fmt.Sprint(len(prog))}
		if len(prog) <= 3000 {
			meta["program"] = prog
		} else {
			meta["program-head"] = prog[:600]
		}
		emit(Case{Req: RunReq(prog, ctx.sels, files, false), Fields: c01Fields, NonTrivial: c01Any, Meta: meta,
			Oracle: func(i Resp) string {
				if w := c01ClassOracle(i); w != "" {
					return w
				}
				if i["class"] != wantClass {
					return "C01/C20: recursion beyond the call-depth limit must stop with a runtime error, recursion within it must complete: expected class " + wantClass + ", got " + i["class"] + " " + i["msg"]
				}
				if out := string(i.Bytes("out")); out != wantOut {
					return fmt.Sprintf("output differs: got %q want %q", short(out), wantOut)
				}
				return ""
			}})
	}
	// (a) runaway recursion, late pad: every shape x every starting context (quick: one
	// context that rotates with the shape)
	for si, s := range c01RunawayShapes {
		for ci, ctx := range c01RecCtxs {
			if nc := len(c01RecCtxs); tier != "thorough" && ci != (si*5+7)%nc {
				continue
			}
			prog := c01RecProg(s, ctx, s.entry, r.Intn(4), 150+r.Intn(150), 4200+r.Intn(300))
			send(s.name, "runaway late-pad", prog, ctx, "runtime", "start\n")
		}
		// the plain form without any pad: stopped by the limit long before the stack matters
		if tier != "thorough" && si%8 != 0 {
			continue
		}
		send(s.name, "runaway unpadded", c01RecProg(s, c01RecCtxs[0], s.entry, 0, 0, 0), c01RecCtxs[0], "runtime", "start\n")
	}
	// (b) the form of the seeded witness: a pad of 20-32 operators on every level (these
	// fill a few hundred MB of Go stack on the clean tree too: quick runs a seventh of the shapes)
	for si, s := range c01RunawayShapes {
		if tier != "thorough" && si%7 != int(r.Int63()%7) {
			continue
		}
		ctx := c01RecCtxs[0]
		if chance(r, 0.5) {
			ctx = pick(r, c01RecCtxs)
		}
		kind := 0
		if chance(r, 0.3) {
			kind = 2
		}
		send(s.name, "runaway padded", c01RecProg(s, ctx, s.entry, kind, 20+r.Intn(13), 0), ctx, "runtime", "start\n")
	}
	// (c) very deep recursion with a base case: beyond the limit it is the same runtime
	// error (an implementation that loses count completes it instead); within the limit,
	// with a pad, it completes with the right value and does not run out of stack
	for si, s := range c01DeepShapes {
		for ci, ctx := range c01RecCtxs {
			if ctx.name == "rule-pattern" {
				continue
			}
			if tier != "thorough" && ci != (si*5+8)%len(c01RecCtxs) {
				continue
			}
			room := (c20Limit - ctx.extra) / s.frames // levels that fit (the base-case call included)
			for _, d := range []int{room - 1 - r.Intn(40), room + r.Intn(40), 5000 + r.Intn(3000), 12000} {
				if d == 12000 && tier != "thorough" {
					continue
				}
				kind, n := 0, 5+r.Intn(30)
				if chance(r, 0.3) {
					kind = 2
				}
				prog := c01RecProg(c01Rec{fns: s.fns}, ctx, fmt.Sprintf("f(%d)", d), kind, n, 0)
				if d < room {
					send(s.name, fmt.Sprintf("deep within the limit, depth %d", d), prog, ctx, "ok", fmt.Sprintf("start\n%d\nafter\n", c01PadValue(kind, n, d)))
				} else {
					send(s.name, fmt.Sprintf("deep beyond the limit, depth %d", d), prog, ctx, "runtime", "start\n")
				}
			}
		}
	}
	// (d) random: shape x context x pad kind x pad depth x where the pad starts
	for i, n := 0, tierN(tier, 20, 2000); i < n; i++ {
		s, ctx := pick(r, c01RunawayShapes), pick(r, c01RecCtxs)
		send(s.name, "runaway late-pad random", c01RecProg(s, ctx, s.entry, r.Intn(4), 100+r.Intn(400), 4097+r.Intn(2000)), ctx, "runtime", "start\n")
	}
}

// c01PadValue is the value of a count-down shape for argument d: every level adds 1
// to what the padded call below it yields; pad kind 2 with an odd number of
// negations turns that into 1 - value(d-1), value(0) = 0.
func c01PadValue(kind, n, d int) int {
	if kind == 2 && (n/2)%2 == 1 {
		return d % 2
	}
	return d
}

func init() {
	register(Family{Name: "control-placement", Prop: "C01",
		Rule: "grammar-directed multi-rule programs (two marker rules of every kind) with one of next/exit/return/break/continue (or a harmless print) wrapped by 1-4 of ~60 wrappers (blocks, if, match bodies in block and expression form, bodies of while/for/for-in, loop HEADERS via match blocks: while condition, the three for clauses, for-in iterable, ~38 expression hosts, functions) placed in BEGIN/END/BEGINFILE/ENDFILE, rule bodies, rule patterns (match block, bare, function) and -r selectors; every context x control x wrapper once, ill-scoped placements also repaired by an enabling loop body/function outside and inside, plus random nestings; inputs none/array/object/scalars/JSONL/several files/empty/malformed/truncated/read failure. Oracle: class in ok|syntax|runtime|json; statically well-scoped => not a syntax error, ill-scoped => syntax error and no output. Non-trivial = program ran (or was rejected as predicted).",
		Gen:  c01GenPlacement})
	register(Family{Name: "token-mutation", Prop: "C01",
		Rule: "valid seed programs (21 hand-written + some from the control-placement grammar) lexed into tokens; single delete/duplicate/swap at every token, random replace (same token class or whole alphabet, including illegal characters), insert, dropped closing quote/slash, truncation, one bracket removed/doubled, 1-3 mutations per mutant; mutants that hit the interpreter's own loop limit in a pre-run with the fuzzing flag are dropped (count in Meta). The re-rendered seed must equal the seed (group). Every distinct mutant counts.",
		Gen:  c01GenMutation})
	register(Family{Name: "arbitrary-bytes", Prop: "C01",
		Rule: "random byte strings (4 distributions: all 256 values, printable, punctuation-heavy, mixed with high bytes; size 0-200, thorough also 1000-65536 and 64 KiB deep nestings, implementation only from 4 KiB), random bytes after a valid prefix, token soup over the jqawk alphabet without while/for/function (cannot loop), structured soup inside valid skeletons, valid programs with non-ASCII bytes in identifiers/strings/comments/keys. Every distinct text counts.",
		Gen:  c01GenBytes})
	register(Family{Name: "panic-prone-operations", Prop: "C01",
		Rule: "every operator (15 binary, unary, ++/--, compound assignment, is), index/member read and write form (also through missing and unset bases), method (right and wrong argument counts, detached, shadowed), builtin, printf verb and width form (widths built from operands, the 65536 limit, int64 overflow), call form, loop header, match form (subject, literal/array patterns, bindings), literal, regex match and root assignment, applied to an edge-operand pool (C05's pool plus fractions in (-1,1), +-0, int32/int64/fill/width limits, +-1e300, NaN and +-Inf as literals' computations and num() produce them, numeric-looking and format-looking strings, a 65536-character string, nested / cyclic / 3000-element containers, objects shadowing method names, invalid regexes, bound methods, missing members) supplied inline, through variables, through document fields and through parameters, in BEGIN, END, BEGINFILE, rule bodies, rule patterns, function bodies (called from BEGIN, rule bodies and patterns), match bodies and subjects, loop bodies and -r selectors; every operation x slot x operand (thorough: all; quick: half of them, a fifth for third slots, fewer for the slow 64 KiB operands) plus random combinations. Oracle: class in ok|syntax|runtime|json (a Go panic is class panic); model comparison on class,out(,json). Non-trivial = not a syntax error.",
		Gen:  c01GenEdgeOps})
	register(Family{Name: "selectors", Prop: "C01",
		Rule: "-r selectors from five pools (valid, function/native/regex-valued, syntax error, runtime error, control flow via match blocks: next/exit/print/loops) alone on 7 input shapes and in random lists of 1-3 with 6 programs and all inputs",
		Gen:  c01GenSelectors})
	register(Family{Name: "runaway-recursion", Prop: "C01",
		Rule: "58 shapes of recursion without a base case (direct, without parameters, as a statement, mutual of 2 and 3, through match expression / block bodies, literal and array-pattern cases, the match subject, nested matches, two different matches, for-in / while / for bodies and headers, method arguments and receivers, call and builtin arguments, index / member selectors read and assigned, literals, conditions, print) x 12 starting contexts (BEGIN, END, BEGINFILE, ENDFILE, rule body, rule pattern, match block / expression at rule level, wrapper function, wrapper function with a match, loop, after a -r selector). Late-pad form: every function counts its calls and from level 4200-4500 on (never reached when the limit works) the recursive call sits inside 150-300 nested operators (additions, array literal + index, negation, object literal + member), so that an unstopped recursion overflows the Go stack within a second; padded form (the seeded witness): 20-32 operators on every level; unpadded form; 9 count-down shapes at depths just within the limit (must complete with the exact value), just beyond it, 5000-8000 (thorough: 12000) (must be the runtime error, not a completed run); random shape x context x pad x pad start (quick: one rotating starting context per shape, a seventh of the padded forms, one context per count-down shape). Oracle: class runtime with exactly the prior output (class ok with the value within the limit); a crash / timeout / panic of the worker is a violation by itself; model comparison on class,out.",
		Gen:  c01GenRunaway})
}

// ---------------------------------------------------------------------------
// family 7: multi-byte text in every operation that counts, pads, slices or walks a string
//
// The Go code measures strings in bytes in some places (len, width arithmetic, indexing) and
// in characters in others (for range, upper / lower, the lexer's rune decoding). Wherever two
// such measures meet -- "pad when the character count is below the width, by width minus the
// byte length" -- a text whose two lengths differ gives a negative Repeat count or an index
// past the end. ASCII operands cannot expose that, so these operands are texts of 2-, 3- and
// 4-byte characters, combining marks and invalid UTF-8 (program texts travel as hex), and the
// widths and indices run through the whole window 0 .. byte length + 3.

type c01Text struct {
	name string
	s    string
}

func c01Texts() []c01Text {
	return []c01Text{
		{"2-byte", "é"}, {"2-byte word", "Łódź"}, {"2-byte run", "ñüß"}, {"3-byte", "水"}, {"3-byte pair", "日本"}, {"4-byte", "😀"}, {"4-byte plane 15", "\U000f3000"},
		{"4-byte pair", "𝒔𝒇"}, {"mixed widths", "aé水😀"}, {"combining mark", "e\u0301"}, {"two combining marks", "a\u0300\u0301b"}, {"zero-width joiner sequence", "\U0001f469\u200d\U0001f4bb"},
		{"lone high byte", "\xff"}, {"high byte between letters", "a\xffb"}, {"truncated 3-byte", "\xe6\xb0"}, {"truncated 4-byte", "x\xf3\xb3\x80"}, {"overlong", "\xc0\xaf"},
		{"surrogate", "\xed\xa0\x80"}, {"lone continuation bytes", "\x80\xbf\x80"}, {"beyond U+10FFFF", "\xf4\x90\x80\x80"}, {"BOM first", "\ufeffk"}, {"NUL and é", "\x00é"},
		{"replacement character", "\ufffd"}, {"long 3-byte run", strings.Repeat("語", 12)},
	}
}

// c01TextCase: one program; want != nil gives the exact expected stdout (implementation-only oracle)
func c01TextCase(emit func(Case), prog string, files []File, row, col, probe string, want *string) {
	emit(Case{Req: RunReq(prog, nil, files, false), Fields: c01Fields,
		Meta: metaProg(prog, "probe", probe, "row", row, "col", col),
		Oracle: func(i Resp) string {
			if w := c01ClassOracle(i); w != "" {
				return w
			}
			if i["class"] == "syntax" {
				return "generator: the program was rejected: " + i["msg"]
			}
			if want != nil && (i["class"] != "ok" || string(i.Bytes("out")) != *want) {
				return fmt.Sprintf("expected class ok and stdout %q, got class %s stdout %q", short(*want), i["class"], short(string(i.Bytes("out"))))
			}
			return ""
		}, NonTrivial: func(i Resp) bool { return i["class"] == "ok" || i["class"] == "runtime" }})
}

func c01GenMultibyte(r *rand.Rand, tier string, emit func(Case)) {
	texts := c01Texts()
	// how the text reaches the operation
	type source struct {
		name string
		wrap func(t string, body string) (prog string, files []File, ok bool) // body uses T for the text
	}
	sources := []source{
		{"literal", func(t, body string) (string, []File, bool) {
			return "BEGIN {\n" + strings.ReplaceAll(body, "§T", mustStrLit(t)) + "\n}\n", nil, true
		}},
		{"variable", func(t, body string) (string, []File, bool) {
			return "BEGIN {\nt = " + mustStrLit(t) + "\n" + strings.ReplaceAll(body, "§T", "t") + "\n}\n", nil, true
		}},
		{"parameter, called from a rule", func(t, body string) (string, []File, bool) {
			return "function op(t) {\n" + strings.ReplaceAll(body, "§T", "t") + "\nreturn t\n}\n{ op(" + mustStrLit(t) + ") }\nEND { print 'end' }\n", []File{c01F("in.json", "[1, 2]")}, true
		}},
		{"document field", func(t, body string) (string, []File, bool) {
			if !utf8.ValidString(t) || strings.ContainsRune(t, 0) {
				return "", nil, false // a JSON text cannot carry these bytes
			}
			return "{\n" + strings.ReplaceAll(body, "§T", "$.t") + "\n}\n", []File{c01F("in.json", `{"t": `+jsonString(t)+`}`)}, true
		}},
		{"concatenation", func(t, body string) (string, []File, bool) {
			if len(t) < 2 {
				return "", nil, false
			}
			cut := 1 + len(t)/2 // often inside a character
			return "BEGIN {\nt = " + mustStrLit(t[:cut]) + " + " + mustStrLit(t[cut:]) + "\n" + strings.ReplaceAll(body, "§T", "t") + "\n}\n", nil, true
		}},
	}
	k := r.Intn(100)
	src := func() source { k++; return sources[k%len(sources)] }
	emitBody := func(t c01Text, body, row, col string, want *string) {
		for tries := 0; tries < len(sources); tries++ {
			s := src()
			if want != nil && s.name == "parameter, called from a rule" {
				continue // runs twice: the expected text below is for one run
			}
			if prog, files, ok := s.wrap(t.s, body); ok {
				c01TextCase(emit, prog, files, row, col, t.name+" text ("+fmt.Sprintf("%q", t.s)+") through a "+s.name+": "+body, want)
				return
			}
		}
	}
	// 1. printf: every width of the window, both signs, zero padded, the three verbs, the text as the
	//    argument, inside a container (for %v), and as literal text of the format around the directive
	for _, t := range texts {
		maxW := len(t.s) + 3
		if tier != "thorough" && maxW > 16 {
			maxW = 16
		}
		for w := 0; w <= maxW; w++ {
			for _, sign := range []string{"", "-", "0", "-0"} {
				if w == 0 && sign != "" && sign != "-" {
					continue
				}
				spec := sign + strconv.Itoa(w)
				for _, verb := range []string{"s", "v", "f"} {
					format := "[%" + spec + verb + "]\n"
					want, ok, _ := c18Ref(format, []c18Arg{c18Str(t.s)})
					var wp *string
					if ok {
						wp = &want
					}
					emitBody(t, "printf("+mustStrLit(format)+", §T)", "printf %"+verb, "width "+sign+"N", wp)
				}
				if tier == "thorough" || (w+len(sign))%3 == 0 {
					inArr := "[" + `"` + t.s + `"` + "]"
					wantArr := "<" + c18PadTo2(inArr, w, sign) + ">\n"
					var wp *string
					if !strings.ContainsAny(t.s, "\"\\") {
						wp = &wantArr
					}
					emitBody(t, "printf('<%"+spec+"v>\\n', [§T])", "printf %v of a container", "width "+sign+"N", wp)
					emitBody(t, "printf('%"+spec+"v|%"+spec+"s|\\n', {k: §T}, §T + §T)", "printf %v of a container", "width "+sign+"N", nil)
					if !strings.ContainsAny(t.s, "%'\"") {
						emitBody(t, "printf('"+t.s+"%"+spec+"s"+t.s+"%"+spec+"v\\n', 'ab', 7)", "printf, the text in the format", "width "+sign+"N", nil)
					}
				}
			}
		}
		// the width itself computed from the text's length, the text as the whole format
		emitBody(t, "printf('%' + §T.length() + 's|\\n', §T)", "printf, computed width", "", nil)
		emitBody(t, "printf('%-' + (§T.length() - 1) + 'v|\\n', §T)", "printf, computed width", "", nil)
		emitBody(t, "n = 0\nfor (c in §T) n++\nprintf('%' + n + 's|%-' + (n + 1) + 'v|\\n', §T, §T)", "printf, computed width", "character count", nil)
		emitBody(t, "printf(§T)\nprintf(§T + '%s', §T)\nprintf(§T + '%5')", "printf, the text as the format", "", nil)
	}
	// 2. every string method, index, loop and operator on such texts; indices through the whole window
	ops := []string{
		"print §T.length()", "print §T.upper()", "print §T.lower()", "print §T.upper().length(), §T.lower().length()", "print §T.upper().lower() == §T.lower()",
		"print §T.split('')", "print §T.split('').length()", "print §T.split(§T)", "print §T.split(§T[0])", "print §T.split(§T[§T.length() - 1])", "print (§T + ',' + §T).split(',')",
		"print §T.split('\xc3')", "print §T.split('\x80')", "print §T.split('é')", "print (§T + §T).split(§T).length()",
		"for (c in §T) print c, c.length()", "for (c, i in §T) print i, c, §T[i]", "for (c, i in §T) { printf('%3s|%-3v|', c, c)\n print i }", "for (c in §T.split('')) printf('%2s.', c)\nprint ''",
		"for (c in §T.upper()) print c", "for (c, i in §T) { for (d in c) print i, d, d.length() }",
		"n = 0\nfor (c in §T) n++\nprint n, §T.length(), n <= §T.length()", "i = 0\nwhile (i < §T.length()) { print i, §T[i], §T[i].length()\n i++ }",
		"print §T == §T, §T < 'z', §T > 'a', §T + §T, §T ~ §T, §T ~ /./, §T ~ /^.$/, §T ~ /^..$/, §T !~ /\\w/", "print [§T, 'z', 'a', §T + 'a'].sort()", "print [§T].contains(§T), [§T + 'x'].contains(§T)",
		"o = {}\no[§T] = 1\no[§T + §T] = 2\nprint o, o[§T], o.length()\nfor (k, v in o) print k, v, k.length()", "print json(§T), json([§T]), json({k: §T})", "print num(§T), num(§T) is number",
		"print match (§T) { 'é' => 1, '水' => 2, s => s.length() }", "x = [§T, [§T], {k: §T}]\nprint x, x[1][0].length(), x[2].k.upper()", "print §T[0], §T[1], §T[0] + §T[1], (§T[0] + §T[1]).length()",
		"print §T[0].upper(), §T[0].lower(), §T[0].split(''), §T[0] ~ /./", "s = ''\nfor (c in §T) s = c + s\nprint s, s.length(), s.upper()", "print (§T + §T + §T).upper().split(§T.upper()).length()",
	}
	for _, t := range texts {
		for _, op := range ops {
			emitBody(t, op, "text operation", strings.Fields(strings.ReplaceAll(op, "§T", "T") + " x")[1], nil)
		}
		for i := -2; i <= len(t.s)+3; i++ {
			if tier != "thorough" && i > 14 {
				break
			}
			emitBody(t, fmt.Sprintf("print §T[%d]\nprint §T[%d].length(), §T[%d].upper()", i, i, i), "text index", "", nil)
		}
		emitBody(t, "§T[0] = 'x'", "text index", "store", nil)
	}
	// 3. random combinations: two texts, an operation, a printf with a width from the window
	n := tierN(tier, 1500, 40000)
	for i := 0; i < n; i++ {
		a, b := pick(r, texts), pick(r, texts)
		op := pick(r, ops)
		w := r.Intn(len(a.s) + len(b.s) + 4)
		spec := pick(r, []string{"", "-", "0", "-0"}) + strconv.Itoa(w)
		body := "u = §T + " + mustStrLit(b.s) + "\nprintf('%" + spec + pick(r, []string{"s", "v"}) + "|%" + spec + "v|\\n', u, [u, " + mustStrLit(b.s) + "])\n" + op
		if chance(r, 0.15) {
			body = op + "\n" + strings.ReplaceAll(body, "u = §T + ", "u = §T.upper() + ")
		}
		emitBody(a, body, "random", "", nil)
	}
}

// c18PadTo2 pads like printf does: by bytes, sign "-" = on the right, "0" = with zeros
func c18PadTo2(s string, w int, sign string) string {
	if len(s) >= w {
		return s
	}
	pad := " "
	if strings.Contains(sign, "0") {
		pad = "0"
	}
	if strings.HasPrefix(sign, "-") {
		return s + strings.Repeat(pad, w-len(s))
	}
	return strings.Repeat(pad, w-len(s)) + s
}

func init() {
	register(Family{Name: "multibyte-text-operations", Prop: "C01",
		Rule: "panic-prone operations, widened to texts whose byte length and character count differ: 24 texts (2-, 3-, 4-byte characters alone, in words and mixed, combining marks, a ZWJ sequence, BOM, NUL, U+FFFD, invalid UTF-8: lone high and continuation bytes, truncated 3- and 4-byte sequences, overlong, surrogate, beyond U+10FFFF; a 36-byte run) reaching the operation as a literal, a variable, a parameter of a function called from a rule, a document field (valid texts) and a concatenation cut inside a character; (1) printf with EVERY width 0 .. byte length + 3, plain / negative / zero-padded / both, x %s %v %f with the text as the argument (closed form: the reference formatter of C18, padding by bytes), inside an array and an object, doubled, as literal text around directives, as the whole format, and with widths computed from length() and from the character count; (2) every string method (length, upper, lower, split by '' / itself / its first and last byte / a lone lead or continuation byte), for-in with and without index (nested, over split and upper results, feeding printf), indexing at every position -2 .. byte length + 3 and in a while loop, comparison, concatenation, regex matching against itself and . patterns, sort, contains, object keys, json(), num(), match, store into a character; (3) random pairs of texts x an operation x a printf with a width from the joint window. Oracle: class in ok|runtime (a Go panic is class panic; syntax = generator bug), exact stdout where the closed form exists; model comparison on class,out (upper / lower of non-ASCII text is unmodelled: oracle only)",
		Gen:  c01GenMultibyte})
}

// ---------------------------------------------------------------------------
// family 8: containers changed while something walks them
//
// The rule driver walks the root array, for-in walks its iterable; both are Go loops over a
// slice that the program can reach through a second reference (arrays are shared, not
// copied): BEGINFILE { all = $ } keeps the root, a parameter keeps the caller's array. A loop
// that trusts a length taken earlier, or indexes the live slice, panics (index out of range)
// as soon as the body shrinks the array; one that follows the live length never ends when
// the body grows it. So: every holder of such a reference x every way of shrinking, growing,
// clearing, reassigning, overwriting or sorting through it x when (every round, one round,
// the first, the last).
//
// The documented modelling gap (DESIGN.md section 2): the model walks the cell list taken at
// loop entry, Go the slice header taken at loop entry -- they differ when a pop() is followed
// by a push() on the walked array (the append overwrites a slot the loop still visits). A
// program whose changes mix removing and adding on a walked array is therefore run on the
// implementation only (oracle: class ok or runtime, never a panic, hang or crash); programs that
// only remove, or only add, are also compared with the model.

type c01Change struct {
	text string // §R is the reference
	kind int    // bit set: 1 removes, 2 adds, 4 stores at a fixed index (adds when the array has become shorter than that)
}

var c01Changes = []c01Change{
	{"§R.pop()", 1}, {"§R.popfirst()", 1}, {"§R.pop()\n§R.pop()", 1}, {"§R.popfirst()\n§R.pop()", 1}, {"gone = §R.pop()\nprint 'gone', gone", 1},
	{"cn = 0\nwhile (§R.length() > 0 && cn < 50) { §R.pop()\n cn++ }", 1}, {"cn = 0\nwhile (§R.length() > 1 && cn < 50) { §R.popfirst()\n cn++ }", 1},
	{"§R.pop().k = 1", 1}, {"print §R.popfirst(), §R.length()", 1},
	{"§R.push(9)", 2}, {"§R.push(§R.length())", 2}, {"§R.push([§R.length()])", 2}, {"§R[§R.length()] = 7", 2}, {"§R[§R.length() + 2] = 'far'", 2}, {"§R.push(§R)", 2},
	{"§R.push(1)\n§R.push(2)\n§R.push(3)\n§R.push(4)\n§R.push(5)", 2}, {"§R.push({k: §R.length()}).push(0)", 2},
	{"§R[0] = 'first'", 4}, {"§R[§R.length() - 1] = 'last'", 4}, {"§R[1].k = 'member'", 4}, {"§R[0] = §R", 4}, {"other = §R\nother[0] = 'via other'", 4},
	{"§R = []", 0}, {"§R = 5", 0}, {"§R = [§R, 1]", 0}, {"§R.sort()", 0}, {"§R = §R.sort()", 0},
	{"print §R.sort(), §R.contains(2), §R.length()", 0}, {"srt = §R.sort()\nsrt.pop()\nsrt[0] = 'copy'", 0}, {"print json(§R)", 0}, {"print §R[0], §R[§R.length() - 1], §R[§R.length()]", 0},
}

// c01Holder: a program skeleton with one or two slots §1 §2 for changes; ref is what §R becomes
type c01Holder struct {
	name string
	prog string
	ref  string
	doc  string
	sel  string
}

var c01Holders = []c01Holder{
	{"rule driver, root kept by BEGINFILE", "BEGINFILE { all = $ }\n{ print 'R', $index, $\n§1\n}\nENDFILE { print 'EF', all, $ }\nEND { print 'E', all }\n", "all", "[1, 2, 3, 4, 5]", ""},
	{"rule driver, two rules and a pattern", "BEGINFILE { all = $ }\n§W { print 'A', $\n§1\n}\n{ print 'B', $index, $\n§2\n}\nEND { print all.length() }\n", "all", "[1, 2, 3, 4]", ""},
	{"rule driver, the change after next-free bookkeeping, objects as records", "BEGINFILE { all = $ }\n{ seen++\nprint $.k\n§1\nprint all.length()\n}\nEND { print seen, all }\n", "all", `[{"k": 1}, {"k": 2}, {"k": 3}, {"k": 4}]`, ""},
	{"rule driver, root kept inside a container", "BEGINFILE { box = {r: $, n: 0} }\n{ box.n++\n§1\nprint $, box.n\n}\nEND { print box }\n", "box.r", "[1, 2, 3, 4, 5, 6]", ""},
	{"rule driver, the change made by a function given the root", "function chg(arr, i) {\n§1\nreturn arr.length()\n}\nBEGINFILE { all = $ }\n{ print $, chg(all, $index) }\nEND { print all }\n", "arr", "[1, 2, 3, 4]", ""},
	{"rule driver, the change made by a function in the pattern", "function chg(arr) {\n§1\nreturn 1\n}\nBEGINFILE { all = $ }\nchg(all) { print 'hit', $index, $ }\nEND { print all }\n", "arr", "[1, 2, 3, 4]", ""},
	{"rule driver, two files", "BEGINFILE { all = $ }\n{ print $file, $\n§1\n}\nENDFILE { print all }\n", "all", "[1, 2, 3]", ""},
	{"rule driver, root chosen by a selector", "BEGINFILE { all = $ }\n{ print $\n§1\n}\nEND { print all }\n", "all", `{"items": [1, 2, 3, 4]}`, "$.items"},
	{"rule driver, $ assigned in BEGINFILE", "BEGINFILE { $ = [7, 8, 9, 10]\nall = $ }\n{ print $\n§1\n}\nEND { print all }\n", "all", "[1]", ""},
	{"rule driver, the root changed from a nested for-in over it", "BEGINFILE { all = $ }\n{ for (x in all) { if (x == $) {\n§1\n} }\nprint $ }\nEND { print all }\n", "all", "[1, 2, 3, 4]", ""},
	{"for-in over $ in BEGINFILE", "BEGINFILE { for (x, i in $) { print i, x\n§1\n}\nprint $ }\n{ print 'R', $ }\n", "$", "[1, 2, 3, 4, 5]", ""},
	{"for-in over an array record", "{ for (x, i in $) { print i, x\n§1\n}\nprint $ }\n", "$", "[[1, 2, 3, 4], [5, 6], []]", ""},
	{"for-in over a local array", "BEGIN { a = [1, 2, 3, 4, 5]\nfor (x, i in a) { print i, x\n§1\n}\nprint a }\n", "a", "", ""},
	{"for-in over a local array, changed through an alias", "BEGIN { a = [1, 2, 3, 4]\nb = a\nfor (x in a) { print x\n§1\n}\nprint a, b }\n", "b", "", ""},
	{"for-in in a function over its parameter", "function walk(arr) { for (x, i in arr) { print i, x\n§1\n}\nreturn arr }\nBEGIN { a = [1, 2, 3, 4]\nprint walk(a), a }\n", "arr", "", ""},
	{"for-in in a function, the caller's array changed by a second function", "function chg(q) {\n§1\nreturn 0 }\nfunction walk(arr) { for (x in arr) { print x, chg(arr) }\nreturn arr.length() }\nBEGIN { a = [1, 2, 3, 4]\nprint walk(a), a }\n", "q", "", ""},
	{"nested for-in over the same array", "BEGIN { a = [1, 2, 3]\nfor (x in a) { for (y in a) { print x, y\n§1\n} }\nprint a }\n", "a", "", ""},
	{"for-in over a member array of an object", "BEGIN { o = {list: [1, 2, 3, 4], n: 0}\nfor (x in o.list) { o.n++\n§1\nprint x, o.n }\nprint o }\n", "o.list", "", ""},
	{"for-in over an element of an array of arrays", "BEGIN { m = [[1, 2, 3], [4, 5, 6]]\nfor (row in m) { for (x in m[0]) { print x\n§1\n} }\nprint m }\n", "m[0]", "", ""},
	{"for-in in END over the kept root", "BEGINFILE { all = $ }\nEND { for (x, i in all) { print i, x\n§1\n}\nprint all }\n", "all", "[1, 2, 3, 4]", ""},
	{"while loop that trusts a length taken before", "BEGIN { a = [1, 2, 3, 4, 5]\nn = a.length()\nfor (i = 0; i < n; i++) { print i, a[i]\n§1\n}\nprint a }\n", "a", "", ""},
	{"match binding of the walked array", "BEGIN { a = [1, 2, 3, 4]\nfor (x in a) { match (a) { [p, q] => { print 'two', p, q }, whole => {\n§1\n} }\nprint x }\nprint a }\n", "whole", "", ""},
	{"for-in over the keys of an object that gains members", "BEGIN { o = {a: [1, 2], b: [3]}\nfor (k, v in o) { print k, v\no[k + k] = v\n§1\n}\nprint o }\n", "v", "", ""},
	{"for-in over a string while the variable is reassigned", "BEGIN { s = 'héllo'\nlist = [1, 2, 3]\nfor (c in s) { s = s + c\n§1\nprint c }\nprint s, list }\n", "list", "", ""},
}

var c01Whens = []struct{ name, pre, post string }{
	{"every round", "", ""},
	{"first round only", "if (!did) { did = 1\n", "\n}"},
	{"second round on", "rounds++\nif (rounds >= 2) {\n", "\n}"},
	{"one round in the middle", "rounds++\nif (rounds == 2) {\n", "\n}"},
	{"every other round", "rounds++\nif (rounds % 2 == 0) {\n", "\n}"},
}

// c01Blowup: sort() clones its receiver deeply; together with a change that puts the array into
// itself (or wraps it) every round the clone doubles per round -- slow, and beside the point
func c01Blowup(a, b c01Change) bool {
	nests := func(c c01Change) bool {
		return strings.Contains(c.text, "push(§R)") || strings.Contains(c.text, "[§R, 1]") || strings.Contains(c.text, "= §R")
	}
	sorts := func(c c01Change) bool { return strings.Contains(c.text, "sort()") || strings.Contains(c.text, "json(") }
	return nests(a) && sorts(b) || nests(b) && sorts(a)
}

func c01GenWalked(r *rand.Rand, tier string, emit func(Case)) {
	one := func(h c01Holder, c1, c2 c01Change, when int, wantJSON bool) {
		w := c01Whens[when]
		slot := func(c c01Change) string {
			return w.pre + strings.ReplaceAll(c.text, "§R", h.ref) + w.post
		}
		prog := strings.ReplaceAll(h.prog, "§1", slot(c1))
		second := strings.Contains(prog, "§2")
		prog = strings.ReplaceAll(prog, "§2", strings.ReplaceAll(c2.text, "§R", h.ref))
		prog = strings.ReplaceAll(prog, "§W", pick(r, []string{"", "$ % 2 == 0", "$index > 0", "all.length() > 2"}))
		var files []File
		if h.doc != "" {
			files = []File{c01F("in.json", h.doc)}
			if strings.Contains(h.name, "two files") {
				files = append(files, c01F("b.json", "[4, 5, 6, 7]"))
			}
		}
		var sels []string
		if h.sel != "" {
			sels = []string{h.sel}
		}
		mask := c1.kind
		if second {
			mask |= c2.kind
		}
		// after a removal, anything that may append (a push, a store at or beyond the end) hits the gap
		implOnly := mask&1 != 0 && mask&6 != 0
		fields := c01Fields
		if wantJSON && files != nil {
			fields = c01FieldsJSON
		} else {
			wantJSON = false
		}
		col := map[int]string{0: "neutral", 1: "removes", 2: "adds", 4: "stores", 6: "adds"}[mask]
		if implOnly {
			col = "removes and adds (implementation only)"
		}
		emit(Case{Req: RunReq(prog, sels, files, wantJSON), Fields: fields, ImplOnly: implOnly,
			Meta: metaProg(prog, "holder", h.name, "change", c1.text, "when", w.name, "input", h.doc, "row", h.name, "col", col),
			Oracle: func(i Resp) string {
				if i["class"] != "ok" && i["class"] != "runtime" {
					return "C01: a program that changes a container while it is walked ended in class " + i["class"] + " (msg=" + i["msg"] + "): must be success or a runtime error"
				}
				return ""
			}, NonTrivial: func(i Resp) bool { return i["class"] == "ok" || i["class"] == "runtime" }})
	}
	// systematic: every holder x every change x when (quick: two of the five in rotation)
	k := r.Intn(100)
	for _, h := range c01Holders {
		for _, c := range c01Changes {
			for when := range c01Whens {
				if tier != "thorough" && (when+k)%5 > 1 {
					continue
				}
				c2 := pick(r, c01Changes)
				for c01Blowup(c, c2) {
					c2 = pick(r, c01Changes)
				}
				one(h, c, c2, when, (k+when)%4 == 0)
			}
			k++
		}
	}
	// random: two changes joined in one slot (same kind: compared with the model; mixed: implementation only)
	n := tierN(tier, 2500, 60000)
	for i := 0; i < n; i++ {
		h := pick(r, c01Holders)
		a, b := pick(r, c01Changes), pick(r, c01Changes)
		if c01Blowup(a, b) {
			continue
		}
		joined := c01Change{a.text + "\n" + b.text, a.kind | b.kind}
		c2 := pick(r, c01Changes)
		for c01Blowup(joined, c2) {
			c2 = pick(r, c01Changes)
		}
		one(h, joined, c2, r.Intn(len(c01Whens)), chance(r, 0.2))
	}
}

func init() {
	register(Family{Name: "containers-changed-while-walked", Prop: "C01",
		Rule: "24 holders of a second reference to a container that a Go loop is walking -- the rule driver's root array (kept by BEGINFILE { all = $ }, inside a container, handed to a function called from a rule body or from a pattern, with several rules, two files, a -r selector, $ assigned in BEGINFILE, changed from a nested for-in), for-in over $ in BEGINFILE, over an array record, over local arrays (directly, through an alias, in a function over its parameter, changed by a second function, nested over the same array, member and element arrays, in END over the kept root), a counting loop that trusts a length taken before, a match binding, object-key and string loops -- x 31 changes through that reference (pop, popfirst, several, clear by popping, pop().k = 1; push of numbers / arrays / itself / five at once, store at and beyond the end; overwrite first / last / a member, rebind to [] / 5 / a wrapper, sort, sorted copies, aliases, self-reference, json) x when (every round, first only, second on, one in the middle, every other); quick: two of the five timings per pair in rotation; plus random pairs of changes. Programs that only remove or only add are compared with the model on class,out(,json); programs that remove AND add on a walked array (the documented modelling gap: Go walks the slice header, the model the cell list) run on the implementation only. Oracle: class ok or runtime -- never a panic (index out of range), crash or hang",
		Gen:  c01GenWalked})
}

// ---------------------------------------------------------------------------
// family 9: library runs with fuzzing=true (request flag z), as the project's own fuzz targets
// FuzzJqawk / FuzzJqawkWithJson make them
//
// With fuzzing=true the evaluator guards its while / for loops (a runtime error after 10 000
// rounds). Whatever such a guard counts and wherever it sits, the run still has to end in success
// or one of the three reported error kinds. A guard that counts the WORK of the whole run (rounds
// of all loops, statements, calls) trips on whatever statement happens to be executing when the
// count runs out: a bare `return`, `next`, `break`, `continue`, a print, a call, a match. So the
// programs here do a lot of work (1-5 million statements) while every single while / for loop
// stays below 10 000 rounds, their innermost body holds every statement kind, and each program
// comes in P+2 variants that differ only in the number s = 0 .. P+1 of filler statements executed
// before the loops (P = number of statements one innermost round executes): whatever the number N
// at which a counter trips, in one of the variants the N-th statement is the bare `return`, in
// another one the `continue`, and so on.
//
// The model has no fuzzing mode: these cases are implementation only. Oracle (C01): class in
// ok | runtime | syntax | json; a completed run prints exactly the expected counters, a run
// stopped with a runtime error has printed a prefix of the expected output.

// c01FzShape is a long-running program: § is where the filler statements go.
type c01FzShape struct {
	name   string
	prog   string
	period int // upper bound of the number of statements one innermost round executes
	want   string
	files  []File
	sels   []string
	stmts  int   // rough total number of statements executed
	fills  []int // the filler counts to use when the cycle is longer than a handful of statements (default 0 .. period+1)
}

func c01FzShapes(r *rand.Rand, tier string) []c01FzShape {
	// scale: quick about 2.2-3 million statements per program, thorough up to 5 million
	big := tier == "thorough"
	funcs := "function fr() { return }\n" +
		"function fv(a) { if (a < 0) return 0; return a + 1 }\n" +
		"function fl() { for (k in [1, 2]) { return } }\n" +
		"function fm(a) { return match (a) { 0 => 1, _ => 2 } }\n"
	var shapes []c01FzShape
	lines := func(n int) string { return strings.Repeat("\n", n) }

	// A: for x for, the innermost body holds every statement kind and ends in `continue`
	{
		a, b := 8, 8600+r.Intn(1300)
		if big {
			a = 16 + r.Intn(5)
		}
		body := "n++; fr(); r = fv(j); fl(); if (j % 2 == 0) { t++ } else { u++ }\n" +
			"m = match (j % 3) { 0 => fm(0), 1 => fm(j), _ => fm(2) }\n" +
			"match (1) { _ => { z++ } }\n" +
			"for (q = 0; q < 9; q++) { w++; break }\n" +
			"while (0) { }\n" +
			"print \"\"; o = {a: j}; o.a++; continue"
		prog := funcs + "BEGIN { z = 0; §\nfor (i = 0; i < " + fmt.Sprint(a) + "; i++) { for (j = 0; j < " + fmt.Sprint(b) + "; j++) { " + body + " } }\nprint n, t + u, z, w }"
		rounds := a * b
		shapes = append(shapes, c01FzShape{name: "for-for/every-statement-kind", prog: prog, period: 32, stmts: rounds * 32,
			want: lines(rounds) + fmt.Sprintf("%d %d %d %d\n", rounds, rounds, rounds, rounds)})
	}
	// B: for-in over a long string (no loop guard there) x for-in over an array, bare returns
	{
		dbl, el := 10, 150+r.Intn(20)
		if big {
			dbl = 12
		}
		chars := 2 << dbl
		prog := funcs + "BEGIN { s = \"ab\"; for (i = 0; i < " + fmt.Sprint(dbl) + "; i++) s = s + s\narr = []; for (i = 0; i < " + fmt.Sprint(el) + "; i++) arr.push(i)\n§\n" +
			"for (c in s) { for (v, ix in arr) { n++; fr(); if (v == ix) continue; n-- } }\nprint n, s.length() }"
		shapes = append(shapes, c01FzShape{name: "forin-string-forin-array/bare-return-continue", prog: prog, period: 7, stmts: chars * el * 7,
			want: fmt.Sprintf("%d %d\n", chars*el, chars)})
	}
	// C: the work is in the rules: one record per round, every round ends in `next`
	{
		recs := 260000 + r.Intn(20000)
		if big {
			recs = 500000
		}
		data := []byte("[" + strings.Repeat("1,", recs-1) + "1]")
		prog := funcs + "BEGIN { § }\n$ > 0 { n++; fr() }\n{ m++; if ($ == 1) next; bad++ }\n{ bad++ }\nEND { print n, m, bad }"
		shapes = append(shapes, c01FzShape{name: "rules/bare-return-next", prog: prog, period: 9, stmts: recs * 9, files: []File{{Name: "in.json", Data: data}},
			want: fmt.Sprintf("%d %d <unknown>\n", recs, recs)})
	}
	// D: recursion: every level returns with a bare `return`
	{
		depth, calls := 60+r.Intn(20), 8500+r.Intn(1400)
		if big {
			depth = 120
		}
		prog := "function down(d) { if (d == 0) return; down(d - 1); return }\nBEGIN { §\nfor (i = 0; i < " + fmt.Sprint(calls) + "; i++) { down(" + fmt.Sprint(depth) + "); n++ }\nprint n }"
		// one call is a cycle of 4*depth+4 statements: 3 per level on the way down, then `depth` bare
		// returns in a row; filler counts half a depth apart land in every stretch of it
		var fills []int
		for k := 0; k <= 9; k++ {
			fills = append(fills, k*(depth/2)+k%3)
		}
		shapes = append(shapes, c01FzShape{name: "recursion/bare-return-at-every-level", prog: prog, period: 4*depth + 4, stmts: calls * depth * 4, want: fmt.Sprintf("%d\n", calls), fills: fills})
	}
	// E: while x while with the counters in the body, break out of an inner for-in, exit at the very end
	{
		a, b := 28+r.Intn(3), 9000+r.Intn(900)
		if big {
			a = 60
		}
		prog := funcs + "BEGIN { §\ni = 0\nwhile (i < " + fmt.Sprint(a) + ") { i++; j = 0; while (j < " + fmt.Sprint(b) + ") { j++; for (e in [1, 2, 3]) { if (e == 2) break; n++ }\nif (i == " + fmt.Sprint(a) + " && j == " + fmt.Sprint(b) + ") { print n; exit }\n} }\nprint \"not reached\" }\nEND { print \"end\" }"
		shapes = append(shapes, c01FzShape{name: "while-while/break-exit", prog: prog, period: 10, stmts: a * b * 9, want: fmt.Sprintf("%d\n", a*b)})
	}
	// F: the work is done by a function called from a rule pattern and from ENDFILE, behind a -r selector
	{
		a, b := 17+r.Intn(2), 9000+r.Intn(900)
		if big {
			a = 36
		}
		prog := funcs + "BEGIN { n = 0 }\nfunction work(d) { §\nfor (i = 0; i < " + fmt.Sprint(a) + "; i++) { for (j = 0; j < " + fmt.Sprint(b) + "; j++) { n++; fr(); if (j < 0) return } }\nreturn d }\nwork(1) > 0 { print n, $ }\nENDFILE { work(2); print n }"
		shapes = append(shapes, c01FzShape{name: "pattern-and-ENDFILE/function-with-loops", prog: prog, period: 8, stmts: 2 * a * b * 7, sels: []string{"[$[0] + 4]"},
			files: []File{{Name: "in.json", Data: []byte("[1]")}}, want: fmt.Sprintf("%d 5\n%d\n", a*b, 2*a*b)})
	}
	return shapes
}

// c01FzOracle: C01 itself (the class), and what follows from it together with "output is written as
// statements execute": a completed run has printed everything, a stopped run a prefix. (Whether a
// guard stops a run at all is not C01's business, except that these valid programs on valid input
// cannot end in a syntax or JSON error.)
func c01FzOracle(want string, mustOK bool) func(Resp) string {
	return func(i Resp) string {
		if w := c01ClassOracle(i); w != "" {
			return w
		}
		got := string(i.Bytes("out"))
		switch i["class"] {
		case "ok":
			if got != want {
				return fmt.Sprintf("fuzzing=true: the run completed but printed %s, expected %s", short(strconv.Quote(got)), short(strconv.Quote(want)))
			}
		case "runtime":
			if !strings.HasPrefix(want, got) {
				return fmt.Sprintf("fuzzing=true: the run stopped with a runtime error after printing %s, which is not a prefix of what the program prints (%s)", short(strconv.Quote(c11Tail(got))), short(strconv.Quote(c11Tail(want))))
			}
		default:
			if mustOK {
				return "fuzzing=true: a valid program on valid input ended with class " + i["class"]
			}
		}
		return ""
	}
}

func c01GenFuzzing(r *rand.Rand, tier string, emit func(Case)) {
	// (1) a lot of work below the loop limit, every filler count
	for _, sh := range c01FzShapes(r, tier) {
		fills := sh.fills
		if fills == nil {
			for s := 0; s <= sh.period+1; s++ {
				fills = append(fills, s)
			}
		}
		for _, s := range fills {
			prog := strings.Replace(sh.prog, "§", strings.Repeat("x = 1; ", s), 1)
			emit(Case{ID: fmt.Sprintf("work/%s/fill%d", sh.name, s), Req: RunReqFuzz(prog, sh.sels, sh.files), ImplOnly: true, Oracle: c01FzOracle(sh.want, true), NonTrivial: c01Any,
				Meta: metaProg(prog, "shape", sh.name, "filler-statements", fmt.Sprint(s), "statements-executed-about", fmt.Sprint(sh.stmts), "selectors", strings.Join(sh.sels, " | "),
					"expected-output", short(strconv.Quote(c11Tail(sh.want))), "row", "work/"+sh.name)})
		}
	}
	// (2) loops around the limit of 10 000 rounds and far beyond it, endless loops: the guard's own
	// error is an ordinary runtime error, output before it is kept
	type lp struct{ name, prog string }
	loops := []lp{
		{"for", "BEGIN { print \"B1\"; for (i = 0; i < #; i++) { n++; if (n % 2500 == 0) print n }\nprint \"done\", n }"},
		{"while", "BEGIN { print \"B1\"; i = 0; while (i < #) { i++; n++; if (n % 2500 == 0) print n }\nprint \"done\", n }"},
		{"while-continue", "BEGIN { print \"B1\"; i = 0; while (i < #) { i++; n++; if (n % 2500 == 0) print n; continue; n = 0 }\nprint \"done\", n }"},
		{"for-continue-in-match", "BEGIN { print \"B1\"; for (i = 0; i < #; i++) { n++; if (n % 2500 == 0) print n; match (1) { _ => { continue } } }\nprint \"done\", n }"},
		{"for-in-function", "function lf() { for (i = 0; i < #; i++) { n++; if (n % 2500 == 0) print n }\nreturn }\nBEGIN { print \"B1\"; lf(); print \"done\", n }"},
		{"while-in-function-value", "function lf(a) { i = 0; while (i < a) { i++; n++; if (n % 2500 == 0) print n }\nreturn n }\nBEGIN { print \"B1\"; print \"done\", lf(#) }"},
		{"for-in-rule-body", "BEGIN { print \"B1\" }\n$ == 1 { for (i = 0; i < #; i++) { n++; if (n % 2500 == 0) print n }\nprint \"done\", n }"},
		{"for-in-END", "BEGIN { print \"B1\" }\nEND { for (i = 0; i < #; i++) { n++; if (n % 2500 == 0) print n }\nprint \"done\", n }"},
		{"for-in-BEGINFILE", "BEGIN { print \"B1\" }\nBEGINFILE { for (i = 0; i < #; i++) { n++; if (n % 2500 == 0) print n }\nprint \"done\", n }"},
		{"while-in-pattern-function", "function lf(a) { i = 0; while (i < a) { i++; n++; if (n % 2500 == 0) print n }\nprint \"done\", n; return 0 }\nBEGIN { print \"B1\" }\n$ == 1 && lf(#) { print \"no\" }"},
		{"inner-loop-of-a-nest", "BEGIN { print \"B1\"; for (o = 0; o < 1; o++) { for (i = 0; i < #; i++) { n++; if (n % 2500 == 0) print n } }\nprint \"done\", n }"},
		{"for-inside-for-in", "BEGIN { print \"B1\"; for (e in [1]) { for (i = 0; i < #; i++) { n++; if (n % 2500 == 0) print n } }\nprint \"done\", n }"},
		{"for-in-match-block", "BEGIN { print \"B1\"; match (1) { _ => { for (i = 0; i < #; i++) { n++; if (n % 2500 == 0) print n } } }\nprint \"done\", n }"},
	}
	ns := []int{9000, 10000, 10001, 10002, 10003, 12500, 40000}
	if tier == "thorough" {
		ns = append(ns, 1, 9999, 20000, 1000000)
	}
	full := func(n int) string {
		var sb strings.Builder
		sb.WriteString("B1\n")
		for k := 2500; k <= n; k += 2500 {
			fmt.Fprintf(&sb, "%d\n", k)
		}
		fmt.Fprintf(&sb, "done %d\n", n)
		return sb.String()
	}
	in := []File{{Name: "in.json", Data: []byte("[1, 2]")}}
	for _, l := range loops {
		for _, n := range ns {
			prog := "BEGIN { n = 0 }\n" + strings.ReplaceAll(l.prog, "#", fmt.Sprint(n))
			want := full(n)
			o := c01FzOracle(want, true)
			emit(Case{ID: fmt.Sprintf("limit/%s/%d", l.name, n), Req: RunReqFuzz(prog, nil, in), ImplOnly: true, NonTrivial: c01Any,
				Meta: metaProg(prog, "loop", l.name, "rounds", fmt.Sprint(n), "row", "limit/"+l.name),
				Oracle: func(i Resp) string {
					if w := o(i); w != "" {
						return w
					}
					if n >= 10002 && i["class"] != "runtime" {
						return fmt.Sprintf("fuzzing=true: a loop of %d rounds was not stopped by the loop guard: class %s", n, i["class"])
					}
					return ""
				}})
		}
	}
	// endless loops: only the guard ends them
	for k, prog := range []string{
		"BEGIN { print \"B1\"; while (1) { n++ }\nprint \"no\" }",
		"BEGIN { print \"B1\"; for (;;) { n++ }\nprint \"no\" }",
		"BEGIN { print \"B1\"; while (1) { n++; continue }\nprint \"no\" }",
		"BEGIN { print \"B1\"; for (i = 0; 1; i++) { match (1) { _ => { continue } } }\nprint \"no\" }",
		"function spin() { while (true) { } }\nBEGIN { print \"B1\" }\n{ spin(); print \"no\" }",
		"BEGIN { print \"B1\" }\nEND { for (x in [1, 2]) { while (1) { n++ } }\nprint \"no\" }",
		"BEGIN { print \"B1\"; while (1) { for (i = 0; i < 3; i++) { n++ } } }",
		"BEGIN { print \"B1\"; for (i = 0; i < 2; i--) { if (i < -5) i = 0 } }",
	} {
		emit(Case{ID: fmt.Sprintf("endless/%d", k), Req: RunReqFuzz(prog, nil, in), ImplOnly: true, NonTrivial: c01Any, Meta: metaProg(prog, "loop", "endless", "row", "endless"),
			Oracle: func(i Resp) string {
				if w := c01ClassOracle(i); w != "" {
					return w
				}
				if i["class"] != "runtime" && i["class"] != "syntax" || i["class"] == "runtime" && string(i.Bytes("out")) != "B1\n" {
					return "fuzzing=true: an endless loop must be stopped by the loop guard with a runtime error after the output B1, got " + short(i.String())
				}
				return ""
			}})
	}
	// (3) the flag alone changes nothing: small programs on every input, fuzzing=true against the
	// model's answer for the ordinary run
	ins := c01Inputs()
	nSmall := tierN(tier, 150, 3000)
	for k := 0; k < nSmall; k++ {
		prog := c01MutSeeds[k%len(c01MutSeeds)]
		inp := ins[1+k%7]
		if k >= len(c01MutSeeds)*2 {
			inp = c01PickInput(r, ins)
		}
		var sels []string
		if chance(r, 0.2) {
			sels = []string{pick(r, c01SelValid)}
		}
		emit(Case{ID: fmt.Sprintf("small/%d", k), Req: RunReqFuzz(prog, sels, inp.files), ModelReq: RunReq(prog, sels, inp.files, false), Fields: c01Fields, Oracle: c01ClassOracle, NonTrivial: c01Any,
			Meta: metaProg(prog, "input", inp.name, "selectors", strings.Join(sels, " | "), "row", "small programs, flag only")})
	}
}

func init() {
	register(Family{Name: "fuzzing-mode", Prop: "C01",
		Rule: "library runs with fuzzing=true (request flag z; implementation only, the model has no such mode): (1) 6 long-running programs (for x for with every statement kind in the innermost body -- bare return, return with a value, return out of a loop, calls, if/else, match expression and block, break, an empty while, print, member update, continue --; for-in over a 4096-character string x for-in over an array; 230 000 records through three rules ending in next; recursion 60-80 deep with a bare return at every level; while x while with break and a final exit; a function with loops called from a rule pattern and ENDFILE behind a -r selector), 1-5 million statements each while every while/for loop stays below 10 000 rounds, each in P+2 variants with 0 .. P+1 filler statements before the loops (P = statements per innermost round; the recursion: 10 filler counts half a depth apart) so that the N-th statement of the run is each statement kind in turn for ANY N; (2) 13 loop forms x 7 round counts around the guard's limit (9000 .. 10003, 12500, 40000) and 8 endless loops: at most 10 000 rounds must complete, from 10 002 on and for endless loops the guard's runtime error, output before it kept; (3) small valid programs x inputs with the flag, compared with the model's answer for the ordinary run. Oracle: class in ok|runtime|syntax|json (a panic, crash or timeout is a violation), a completed run prints exactly the expected counters, a stopped run a prefix of them.",
		Gen:  c01GenFuzzing})
}

// ---------------------------------------------------------------------------
// family 10: every error path of the real binary under every flag combination
//
// cli.Run has several steps after the evaluation (the -o step: count the inputs, serialise the
// root, create the file, write), and several before it (-f, opening the inputs). An error of any
// kind must end the run at once with status 1 and a diagnostic; a step that runs after a failed
// one works on values the failure left unset (a nil evaluator after a syntax error). So: every
// error kind x every flag combination, through the `cli` request.

type c01BinErr struct {
	kind, name string
	prog       string   // the program text
	sels       []string // -r selectors
	input      string   // "" = a good input; else the kind of bad input
	sure       bool     // the run certainly fails (exit status 1), whatever the flags
	silent     bool     // a syntax error in the program: no output at all
}

func c01BinErrKinds() []c01BinErr {
	var ks []c01BinErr
	add := func(kind, name, prog string, sels []string, input string, sure, silent bool) {
		ks = append(ks, c01BinErr{kind, name, prog, sels, input, sure, silent})
	}
	for _, p := range [][2]string{
		{"unterminated string", "BEGIN { print \"a }"}, {"illegal character", "BEGIN { print 1 @ 2 }"}, {"unterminated regex", "{ print $ ~ /ab }"},
		{"expression cut off", "{ $.y = $.x + "}, {"block not closed", "BEGIN { print \"a\" "}, {"stray closing brace", "{ print $ } }"}, {"function without a name", "function { }"},
		{"break outside a loop", "BEGIN { print \"a\"; break }"}, {"return outside a function", "{ return 1 }"}, {"assignment to a literal", "{ 1 = 2 }"},
		{"error after valid rules", "BEGIN { print \"before\" }\n{ $.k = 1; print $ }\nEND { print ( }"}, {"only an operator", "+"}, {"match without cases closed", "{ x = match ($) { 1 => 2 }"},
	} {
		add("syntax", p[0], p[1], nil, "", true, true)
	}
	for _, s := range []string{"$.a +", "(", "", "$ $", "\"abc", "break"} {
		add("selector-syntax", "selector "+strconv.Quote(s), "BEGIN { print \"b\" } { $.k = 1; print $ }", []string{s}, "", true, false)
	}
	for _, s := range []string{"1 / 0", "$.a.b.c()", "$nosuch", "\"a\" ~ \"(\"", "7 % 0.5"} {
		add("selector-runtime", "selector "+strconv.Quote(s), "BEGIN { print \"b\" } { $.k = 1; print $ }", []string{s}, "", true, false)
	}
	add("selector-second-fails", "second selector fails", "{ print $ }", []string{"$", "1 / 0"}, "", true, false)
	for _, p := range [][2]string{
		{"BEGIN", "BEGIN { print \"b\"; x = 1 / 0; print \"after\" }\n{ $.k = 1 }"},
		{"BEGIN, nothing else", "BEGIN { x = [] < [] }"},
		{"BEGINFILE", "BEGINFILE { print \"bf\"; nosuch() }\n{ $.k = 1 }"},
		{"rule pattern", "BEGIN { print \"b\" }\n$.a / 0 > 1 { print \"no\" }"},
		{"rule body", "{ $.seen = 1; print \"r\"; x = \"a\" ~ \"(\"; print \"after\" }"},
		{"rule body, second record", "{ $.seen = $index }\n$index == 1 { print \"second\"; x = 7 % 0.5 }\nEND { print \"end\" }"},
		{"function called from a rule", "function f(a) { return a.b.c() }\n{ $.k = 1; print \"r\"; f($) }"},
		{"match body", "{ match ($) { _ => { print \"m\"; printf(\"%s\") } } }"},
		{"ENDFILE", "{ $.k = 1 }\nENDFILE { print \"ef\"; $nosuch = 1 }"},
		{"END", "{ $.k = 1; print $index }\nEND { print \"e\"; x = 5(); print \"after\" }"},
		{"END after the root was replaced", "{ $ = {n: $index} }\nEND { [1][null] }"},
		{"call depth", "function r(n) { return r(n + 1) }\n{ $.k = 1; print r(0) }"},
	} {
		add("runtime", "runtime error in "+p[0], p[1], nil, "", true, false)
	}
	okProgs := []string{"{ $.k = 1; print $index }", "BEGIN { print \"only\" }", "{ print $ } END { exit }", "", "{ $ = null }", "BEGIN { exit } { print \"no\" }", "{ $ = printf }"}
	for _, in := range []string{"truncated", "stray", "bad-byte", "good-then-bad", "out-of-range", "too-deep"} {
		add("json", "JSON input error: "+in, okProgs[len(ks)%3], nil, in, true, false)
	}
	add("json", "JSON input error and a runtime error in END", "{ print $index }\nEND { x = 1 / 0 }", nil, "good-then-bad", true, false)
	for _, in := range []string{"missing", "directory"} {
		add("open", in+" input", okProgs[len(ks)%3], nil, in, true, false)
		add("open", in+" input, program with a syntax error", "{ print ( }", nil, in, true, true)
	}
	add("open", "-f names a missing file", "{ print $ }", nil, "f-missing", true, true)
	add("open", "-f names a directory", "{ print $ }", nil, "f-directory", true, true)
	add("open", "-f file is empty", "", nil, "f-empty", false, false)
	for _, in := range []string{"empty", "blank"} {
		add("no-value", in+" input (nothing to write with -o)", okProgs[0], nil, in, false, false)
	}
	for i, p := range okProgs {
		add("none", fmt.Sprintf("no error (%d)", i), p, nil, "", false, false)
	}
	return ks
}

func c01BinBad(kind string) []byte {
	switch kind {
	case "truncated":
		return []byte(`[{"a":1},{"a":2}`)
	case "stray":
		return []byte(`[{"a":1}] ] [2]`)
	case "bad-byte":
		return []byte("\xff")
	case "good-then-bad":
		return []byte("{\"a\":1}\n{\"a\":2}\n{\"a\":")
	case "out-of-range":
		return []byte(`[1e999]`)
	case "too-deep":
		return []byte(strings.Repeat("[", 10001) + strings.Repeat("]", 10001))
	case "empty":
		return nil
	case "blank":
		return []byte(" \n\t")
	}
	return []byte("[{\"a\":1},{\"a\":2,\"b\":[1,2]}]\n")
}

func c01GenBinErrors(r *rand.Rand, tier string, emit func(Case)) {
	if os.Getenv("JQAWK_BIN") == "" {
		emit(Case{ID: "no-binary", Req: "cli - - - -", ImplOnly: true,
			Oracle: func(Resp) string { return "env JQAWK_BIN is not set: the binary was not run" },
			Meta:   map[string]string{"problem": "env JQAWK_BIN is not set; this family runs the real binary"}})
		return
	}
	oModes := []string{"", "-", "out.json", "nodir/out.json", "d", "sub/out.json", "-o=-"}
	deliveries := []string{"stdin", "one-file", "two-files-first", "two-files-last", "three-files"}
	kinds := c01BinErrKinds()
	n := 0
	one := func(k c01BinErr, o string, viaF bool, deliv string, extraSel bool) {
		n++
		var argv []string
		var disk []CliFile
		ofile := ""
		switch o {
		case "":
		case "-o=-":
			argv = append(argv, "-o=-")
		default:
			argv = append(argv, "-o", o)
			if o != "-" {
				ofile = o
			}
		}
		switch o {
		case "d":
			disk = append(disk, CliFile{Name: "d", Dir: true})
		case "sub/out.json":
			disk = append(disk, CliFile{Name: "sub", Dir: true})
		}
		sels := k.sels
		if extraSel && k.sels == nil {
			sels = []string{"$"}
		}
		for _, s := range sels {
			if s == "" {
				argv = append(argv, "-r", "")
			} else if n%2 == 0 {
				argv = append(argv, "-r="+s)
			} else {
				argv = append(argv, "-r", s)
			}
		}
		fKind := ""
		if strings.HasPrefix(k.input, "f-") {
			viaF, fKind = true, k.input
		}
		if viaF {
			argv = append(argv, "-f", "prog.jqawk")
			switch fKind {
			case "f-missing":
			case "f-directory":
				disk = append(disk, CliFile{Name: "prog.jqawk", Dir: true})
			default:
				disk = append(disk, CliFile{Name: "prog.jqawk", Data: []byte(k.prog)})
			}
		} else {
			argv = append(argv, k.prog)
		}
		// the input under test (x) and where it goes
		good := c01BinBad("")
		var x CliFile
		xName := "x.json"
		inKind := k.input
		if fKind != "" {
			inKind = ""
		}
		switch inKind {
		case "missing":
			xName = "nope.json"
		case "directory":
			xName = "xdir"
			x = CliFile{Name: xName, Dir: true}
		default:
			x = CliFile{Name: xName, Data: c01BinBad(inKind)}
		}
		var stdin []byte
		hasStdin := false
		switch deliv {
		case "stdin":
			if inKind == "missing" || inKind == "directory" {
				deliv = "one-file"
			}
		}
		other := CliFile{Name: "good.json", Data: good}
		switch deliv {
		case "stdin":
			stdin, hasStdin = x.Data, true
			if len(stdin) > 60000 {
				// more than a pipe holds and the binary may stop reading: through a file instead
				hasStdin, deliv = false, "one-file"
				argv = append(argv, xName)
				disk = append(disk, x)
			}
		case "one-file":
			argv = append(argv, xName)
		case "two-files-first":
			argv = append(argv, xName, "good.json")
			disk = append(disk, other)
		case "two-files-last":
			argv = append(argv, "good.json", xName)
			disk = append(disk, other)
		case "three-files":
			argv = append(argv, "good.json", xName, "good.json")
			disk = append(disk, other)
		}
		if deliv != "stdin" && inKind != "missing" && !(len(disk) > 0 && disk[len(disk)-1].Name == xName) {
			disk = append(disk, x)
		}
		sure, silent := k.sure, k.silent
		if inKind == "missing" || inKind == "directory" {
			silent = true // the inputs are opened before anything runs
			if inKind == "directory" && k.kind == "open" && !k.silent {
				silent = false // a directory opens; reading it fails when its turn comes: BEGIN has run by then
			}
		}
		kindName, what := k.kind, k.name
		emit(Case{ID: fmt.Sprintf("%s/%d", k.kind, n), Req: CliReq(argv, stdin, hasStdin, disk, ofile), Fields: c14CliFields, NonTrivial: c14NT,
			Meta: metaProg(k.prog, "error-kind", k.kind, "what", k.name, "argv", strings.Join(argv, " ␣ "), "input-delivery", deliv, "input", short(strconv.Quote(string(x.Data))),
				"row", k.kind+": "+k.name, "col", "-o "+o+map[bool]string{true: " -f", false: ""}[viaF]+" "+deliv),
			Oracle: func(i Resp) string {
				switch i["class"] {
				case "nobinary", "badrequest", "crash", "garbled":
					return "harness problem running the binary: " + i.String()
				}
				stderr := string(i.Bytes("stderr"))
				for _, mark := range []string{"goroutine ", "panic:", "fatal error", "runtime error: invalid memory", "SIGSEGV"} {
					if strings.Contains(stderr, mark) {
						return "C01: the binary ended in a Go panic / stack trace (exit status " + i["exit"] + "): " + short(stderr)
					}
				}
				if i["exit"] != "0" && i["exit"] != "1" {
					return "C01: exit status " + i["exit"] + " (expected 0, or 1 with a diagnostic): " + short(stderr)
				}
				if i["exit"] == "1" && i["errlen"] == "0" {
					return "C01: exit status 1 without a diagnostic on stderr"
				}
				if sure && i["exit"] != "1" {
					return fmt.Sprintf("C01: %s (%s): the run must end with status 1 and a diagnostic, got status %s", kindName, what, i["exit"])
				}
				if silent && (i["out"] != "-" || i["ofexists"] == "1" && ofile != "d") {
					return fmt.Sprintf("C01: %s (%s): nothing may run, but stdout is %q / the -o file exists: %s", kindName, what, i.Bytes("out"), i["ofexists"])
				}
				return ""
			}})
	}
	// every error kind x every -o mode x inline / -f x a rotating delivery; every delivery at least
	// once per kind
	rounds := tierN(tier, 1, 4)
	for round := 0; round < rounds; round++ {
		for ki, k := range kinds {
			for oi, o := range oModes {
				for fi := 0; fi < 2; fi++ {
					if tier != "thorough" && o == "-o=-" && fi == 1 {
						continue
					}
					one(k, o, fi == 1, deliveries[(ki+oi*2+fi+round)%len(deliveries)], (ki+oi+round)%5 == 0)
				}
			}
			for di, d := range deliveries {
				one(k, pick(r, oModes[:4]), (di+ki+round)%3 == 0, d, chance(r, 0.2))
			}
		}
	}
	for i := tierN(tier, 200, 6000); i > 0; i-- {
		one(pick(r, kinds), pick(r, oModes), chance(r, 0.4), pick(r, deliveries), chance(r, 0.3))
	}
}

func init() {
	register(Family{Name: "binary-error-paths", Prop: "C01",
		Rule: "the real binary (request kind cli): every error kind -- 13 syntax errors in the program (lexer, parser, static checks, after valid rules), syntax and runtime errors in a -r selector (alone, second of two), runtime errors in BEGIN / BEGINFILE / rule pattern / rule body (first and second record) / function / match body / ENDFILE / END / call depth, JSON input errors (truncated, stray bracket, bad byte, after good values, number out of range, nested too deep), missing input file, directory as input, -f naming a missing file / a directory / an empty file, inputs without a value, and programs without an error -- x every flag combination: no -o, -o -, -o=-, -o FILE, -o into a missing directory, -o onto a directory, -o into a sub-directory, program inline / through -f, with and without -r, the input under test on stdin / as the only file / first / last / middle of several files; plus random combinations. Oracle (C01): exit status 0, or 1 with a diagnostic on stderr; stderr never holds `goroutine`, `panic:` or `fatal error`; an error that is certain by construction gives status 1, a syntax error / an input that cannot be opened leaves stdout empty and writes no -o file. Compared with the model on exit, stdout, diagnostic flag, -o file content and existence. Non-trivial = stdout, stderr or an -o file.",
		Gen:  c01GenBinErrors})
}

// ---------------------------------------------------------------------------
// family 11: program and selector texts with CR LF / CR / mixed line endings through the real binary
//
// cli.printError prints the offending source line and a caret under the error column; the line
// and the column come from the lexer, which knows only '\n' as a line break, so the '\r' of a
// CR LF pair is the last byte of the source line, an error at the newline token has the column
// len(line), and CR-only text is ONE line. Anything the diagnostic code does with (line, column)
// -- slicing, trimming, counting characters -- has to survive every such pair. Texts: valid lines
// (some with non-ASCII text, tabs, comments) followed by a line that ends in an error of each
// position class (detected at end of input, at a newline token, at the first token of the next
// line, at the last byte of the line, a runtime error whose position is the last token of the
// line), under every line-ending style, with and without a final line ending, given through -f,
// inline, and as a -r selector.

type c01EolErr struct {
	class string   // where the error sits
	lines []string // the lines that hold the error (S = a string literal slot); the error is in the first one
	atEOF bool     // nothing may follow: the error is the end of the text
}

var c01EolProgErrs = []c01EolErr{
	{"eof", []string{`BEGIN { print S`}, true},
	{"eof", []string{`{ n += $.size; print S, n`}, true},
	{"eof", []string{`{ x = S +`}, true},
	{"eof", []string{`function f(a) { return S`}, true},
	{"eof", []string{`{ x = match ($) { 1 => S`}, true},
	{"eof", []string{`{ print [S, 2`}, true},
	{"eof", []string{`{ print (S`}, true},
	{"eof", []string{`END { print S } {`}, true},
	{"eof", []string{`{`}, true},
	{"newline", []string{`{ x = S; a.`, `b }`}, false},
	{"newline", []string{`{ print S; x = 1 +`, `}`}, false},
	{"newline", []string{`function`, `f() { return S }`}, false},
	{"newline", []string{`{ print S; for (i = 0`, `i < 2; i++) print i }`}, false},
	{"newline", []string{`{ print S; $.`, `}`}, false},
	{"newline", []string{`BEGIN { print S,`, `}`}, false},
	{"newline", []string{`{ x = S; x[`, `0] = 1 }`}, false},
	{"newline", []string{`{ y = f(S,`, `) }`}, false},
	{"last-byte", []string{`BEGIN { print S @`}, false},
	{"last-byte", []string{`BEGIN { print S; y = "abc`}, false},
	{"last-byte", []string{`BEGIN { print S; y = 'abc`}, false},
	{"last-byte", []string{`{ print S; y = $ ~ /ab`}, false},
	{"last-byte", []string{`{ print S } }`}, false},
	{"last-byte", []string{`BEGIN { print S; break`, `}`}, false},
	{"last-byte", []string{`BEGIN { print S; return`, `}`}, false},
	{"last-byte", []string{`BEGIN { print S; 1 = 2`, `}`}, false},
	{"last-byte", []string{`@`}, false},
	{"runtime-last-token", []string{`BEGIN { print S; x = $nosuch`, `}`}, false},
	{"runtime-last-token", []string{`BEGIN { print S; x = nosuch()`, `}`}, false},
	{"runtime-last-token", []string{`BEGIN { print S; x = 1 / 0`, `}`}, false},
	{"runtime-last-token", []string{`BEGIN { print S; x = S.nosuch()`, `}`}, false},
	{"runtime-last-token", []string{`BEGIN { print S; printf("%s")`, `}`}, false},
	{"runtime-last-token", []string{`BEGIN { print S; x = 7 % 0.5`, `}`}, false},
	{"runtime-last-token", []string{`{ print S; x = $.a.b.c()`, `}`}, false},
	{"runtime-last-token", []string{`BEGIN { print S; x = [] < []`, `}`}, false},
	{"runtime-last-token", []string{`BEGIN { print S; x = S ~ "("`, `}`}, false},
	{"runtime-last-token", []string{`BEGIN { print S; x = -S`, `}`}, false},
	{"runtime-last-token", []string{`{ print S; $nosuch = 1`, `}`}, false},
	{"runtime-last-token", []string{`{ print S; x = 5; x++; x = x.k.j`, `}`}, false},
	{"none", []string{`BEGIN { print S }`}, false},
	{"none", []string{`{ print S, $.size`, `}`}, false},
}

var c01EolSelErrs = []c01EolErr{
	{"eof", []string{`$.a +`}, true},
	{"eof", []string{`[$, S`}, true},
	{"eof", []string{`($`}, true},
	{"eof", []string{`{k: S`}, true},
	{"eof", []string{`match ($) { 1 => S`}, true},
	{"newline", []string{`$.`, `a`}, false},
	{"newline", []string{`[S,`, `]`}, false},
	{"newline", []string{`$ +`, `+`}, false},
	{"last-byte", []string{`S @`}, false},
	{"last-byte", []string{`S + "abc`}, false},
	{"last-byte", []string{`$ ~ /ab`}, false},
	{"last-byte", []string{`[S] ]`}, false},
	{"runtime-last-token", []string{`$nosuch`}, false},
	{"runtime-last-token", []string{`S + $nosuch`}, false},
	{"runtime-last-token", []string{`[S, 1 / 0`, `]`}, false},
	{"runtime-last-token", []string{`[S, $.a.b.c()`, `]`}, false},
	{"runtime-last-token", []string{`[S, nosuch()`, `]`}, false},
	{"runtime-last-token", []string{`S ~ "("`}, false},
	{"none", []string{`[$, S]`}, false},
	{"none", []string{`[$,`, `S`, `]`}, false},
}

var c01EolGoodLines = []string{
	`BEGIN { n = 0 }`, `# a comment: é 日本 →`, `BEGIN { s = "héllo wörld" }`, `{ n += 1 }`, ``, `function g(a) { return a + 1 }`,
	"\tBEGIN { t = 'x' }", `BEGIN { print "start" }   # trailing comment`, `   `, `$.size > 0 { n += $.size }`,
}

// the line-ending styles: what follows each line (rotating when there are several)
var c01EolStyles = []struct {
	name string
	eols []string
}{
	{"LF", []string{"\n"}}, {"CRLF", []string{"\r\n"}}, {"CR", []string{"\r"}}, {"mixed CRLF/LF", []string{"\r\n", "\n"}}, {"mixed LF/CR/CRLF", []string{"\n", "\r", "\r\n"}},
	{"CR CR LF", []string{"\r\r\n"}}, {"LF CR", []string{"\n\r"}}, {"blank CRLF", []string{" \r\n"}},
}

// what follows the LAST line
var c01EolFinals = []string{"", "=", "\r", "==", "\n"}

func c01EolText(lines []string, eols []string, final string, rot int) string {
	var sb strings.Builder
	for i, l := range lines {
		sb.WriteString(l)
		e := eols[(i+rot)%len(eols)]
		if i == len(lines)-1 {
			switch final {
			case "":
				e = ""
			case "=":
			case "==":
				e += e
			default:
				e = final
			}
		}
		sb.WriteString(e)
	}
	return sb.String()
}

func c01EolOracle(i Resp) string {
	switch i["class"] {
	case "nobinary", "badrequest", "crash", "garbled":
		return "harness problem running the binary: " + i.String()
	}
	stderr := string(i.Bytes("stderr"))
	for _, mark := range []string{"goroutine ", "panic:", "fatal error", "runtime error: invalid memory", "runtime error: slice", "runtime error: index", "SIGSEGV"} {
		if strings.Contains(stderr, mark) {
			return "C01: the binary ended in a Go panic / stack trace (exit status " + i["exit"] + "): " + short(stderr)
		}
	}
	if i["exit"] != "0" && i["exit"] != "1" {
		return "C01: exit status " + i["exit"] + " (expected 0, or 1 with a diagnostic): " + short(stderr)
	}
	if i["exit"] == "1" && i["errlen"] == "0" {
		return "C01: exit status 1 without a diagnostic on stderr"
	}
	return ""
}

// c01EolTie: the binary (self) against the library run of the same text (first): same outcome, and
// the diagnostic names the error kind and the line the library reports.
func c01EolTie(first, self Resp) string {
	if self["exit"] == "" || first["class"] == "" {
		return ""
	}
	stderr := string(self.Bytes("stderr"))
	switch first["class"] {
	case "ok":
		if self["exit"] != "0" {
			return "the library runs the text without an error, the binary ends with status " + self["exit"] + ": " + short(stderr)
		}
	case "syntax", "runtime":
		if self["exit"] != "1" {
			return fmt.Sprintf("the library reports a %s error, the binary ends with status %s: %s", first["class"], self["exit"], short(stderr))
		}
		want := fmt.Sprintf("%s error on line %s:", first["class"], first["line"])
		if !strings.Contains(stderr, want) {
			return fmt.Sprintf("the diagnostic does not say %q: %s", want, short(strconv.Quote(stderr)))
		}
	default:
		return ""
	}
	if self["out"] != first["out"] {
		return fmt.Sprintf("stdout of the binary %q differs from the library's %q", self.Bytes("out"), first.Bytes("out"))
	}
	return ""
}

func c01GenEolTexts(r *rand.Rand, tier string, emit func(Case)) {
	if os.Getenv("JQAWK_BIN") == "" {
		emit(Case{ID: "no-binary", Req: "cli - - - -", ImplOnly: true,
			Oracle: func(Resp) string { return "env JQAWK_BIN is not set: the binary was not run" },
			Meta:   map[string]string{"problem": "env JQAWK_BIN is not set; this family runs the real binary"}})
		return
	}
	input := []byte("[{\"size\": 3, \"a\": 5}, {\"size\": 4}]\n")
	lits := []string{`"abc"`, `"héllo→日本"`, `'ß🙂'`, `"a\tb"`}
	libFields := []string{"class", "out", "line", "col", "src"}
	thorough := tier == "thorough"
	n := 0
	one := func(sel bool, e c01EolErr, lit string, style int, final string, nGood int, suffix bool, via string) {
		n++
		st := c01EolStyles[style]
		var lines []string
		if !sel {
			for k := 0; k < nGood; k++ {
				lines = append(lines, c01EolGoodLines[(n+k*3)%len(c01EolGoodLines)])
			}
		}
		for _, l := range e.lines {
			lines = append(lines, strings.ReplaceAll(l, "S", lit))
		}
		if suffix && !e.atEOF && !sel {
			lines = append(lines, c01EolGoodLines[(n+1)%len(c01EolGoodLines)], `END { print "end", n }`)
		}
		text := c01EolText(lines, st.eols, final, n)
		prog, sels := text, []string(nil)
		if sel {
			prog, sels = "BEGIN { print \"b\" }\n{ print $ }", []string{text}
		}
		g := fmt.Sprintf("eol-%d", n)
		what := map[bool]string{false: "program", true: "selector"}[sel]
		meta := func(variant string) map[string]string {
			return metaProg(prog, "text under test", what+" "+strconv.Quote(text), "line endings", st.name, "after the last line", strconv.Quote(final), "error position class", e.class,
				"variant", variant, "row", what+": "+e.class, "col", st.name+" final "+strconv.Quote(final))
		}
		emit(Case{ID: g + "/lib", Req: RunReq(prog, sels, []File{{Name: "in.json", Data: input}}, false), Fields: libFields, Group: g, Meta: meta("library run (reference of the group)"),
			NonTrivial: func(i Resp) bool { return i["class"] == "syntax" || i["class"] == "runtime" || i["out"] != "-" },
			Oracle: func(i Resp) string {
				switch i["class"] {
				case "ok", "syntax", "runtime":
					return ""
				}
				return "C01: outcome class " + i["class"] + " (" + i["msg"] + ")"
			}})
		disk := []CliFile{{Name: "in.json", Data: input}}
		var argv []string
		for _, s := range sels {
			if n%2 == 0 {
				argv = append(argv, "-r="+s)
			} else {
				argv = append(argv, "-r", s)
			}
		}
		vias := []string{via}
		if via == "both" {
			vias = []string{"-f", "inline"}
		}
		for _, v := range vias {
			av := append([]string{}, argv...)
			dk := disk
			if v == "-f" {
				av = append(av, "-f", "prog.jqawk", "in.json")
				dk = append(append([]CliFile{}, disk...), CliFile{Name: "prog.jqawk", Data: []byte(prog)})
			} else {
				if strings.HasPrefix(prog, "-") {
					av = append(av, "--")
				}
				av = append(av, prog, "in.json")
			}
			emit(Case{ID: g + "/" + v, Req: CliReq(av, nil, false, dk, ""), Fields: c14CliFields, Group: g, GroupCheck: c01EolTie, Oracle: c01EolOracle, NonTrivial: c14NT,
				Meta: meta("the binary, " + v + ": " + strings.Join(av, " ␣ "))})
		}
	}
	for _, sel := range []bool{false, true} {
		errs := c01EolProgErrs
		if sel {
			errs = c01EolSelErrs
		}
		for ei, e := range errs {
			for li, lit := range lits {
				if !thorough && li >= 2 && (ei+li)%3 != 0 {
					continue
				}
				for si := range c01EolStyles {
					finals := c01EolFinals
					if !thorough {
						// the style's own ending, nothing, and one rotating other
						finals = []string{"=", "", c01EolFinals[2+(ei+li+si)%3]}
						if li >= 1 {
							finals = finals[(ei+si)%3 : (ei+si)%3+1]
						}
					}
					for fi, final := range finals {
						via := []string{"-f", "inline"}[(ei+li+si+fi)%2]
						if thorough || (final == "=" && li == 0) {
							via = "both"
						}
						one(sel, e, lit, si, final, (ei+si+fi)%3, (ei+si)%2 == 0, via)
					}
				}
			}
		}
	}
	// random combinations
	for k := tierN(tier, 150, 3000); k > 0; k-- {
		sel := chance(r, 0.3)
		errs := c01EolProgErrs
		if sel {
			errs = c01EolSelErrs
		}
		one(sel, pick(r, errs), pick(r, lits), r.Intn(len(c01EolStyles)), pick(r, c01EolFinals), r.Intn(4), chance(r, 0.5), pick(r, []string{"-f", "inline"}))
	}
}

func init() {
	register(Family{Name: "binary-line-endings", Prop: "C01",
		Rule: "the real binary on program texts (-f FILE and inline) and -r selector texts with LF, CR LF, CR-only, mixed, CR CR LF, LF CR and blank+CR LF line endings, with no final line ending / the style's own / a lone CR / a doubled one / LF: 0-3 valid lines (non-ASCII strings and comments, tabs, blank lines) followed by a line ending in an error of each position class -- detected at end of input (9 shapes), at a newline token or the first token of the next line (8), at the last byte of the line (9: illegal character, unterminated string / regex, stray brace, break / return / assignment rejected by the static checks), a runtime error whose position is the last token of the line (12) -- or no error, each with an ASCII and a non-ASCII string literal before the error column; 20 selector shapes likewise. One Group per text: the library run (class, out, line, col, src compared with the model) and the binary (exit, stdout, diagnostic flag compared with the model of the wrapper). Oracle (C01): exit status 0, or 1 with a diagnostic, never 2; no `goroutine` / `panic:` / `runtime error: slice` on stderr; the binary fails exactly when the library does, with the same stdout, and its diagnostic says `<kind> error on line <the library's line>:`. Non-trivial = an error diagnostic or output.",
		Gen:  c01GenEolTexts})
}
