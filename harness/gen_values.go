package main

// Value generators shared by the families of C04, C17 and C10 (prefix vg):
//   - rich JSON documents (empty containers at every depth, every string escape,
//     non-ASCII text, numeric extremes, duplicate keys, nesting to depth 8),
//   - Go-side decoding / bit-exact tree comparison (the implementation-only oracles),
//   - random trees written as jqawk literals,
//   - auto-created containers through path assignments,
//   - arbitrary container graphs (sharing, cycles) built by a program, with the
//     rendering / JSON outcome the properties demand computed on the graph.

import (
	"bytes"
	"encoding/json"
	"fmt"
	"io"
	"math"
	"math/rand"
	"sort"
	"strconv"
	"strings"
	"unicode/utf8"
)

// ---------------------------------------------------------------- decoding / comparison

// vgDecodeAll decodes a stream of JSON values as jqawk's reader does
// (encoding/json, numbers as float64).
func vgDecodeAll(data []byte) ([]interface{}, error) {
	d := json.NewDecoder(bytes.NewReader(data))
	var vals []interface{}
	for {
		var v interface{}
		err := d.Decode(&v)
		if err == io.EOF {
			return vals, nil
		}
		if err != nil {
			return vals, err
		}
		vals = append(vals, v)
	}
}

// vgDecodeOne decodes exactly one JSON value (anything but white space after it is an error).
func vgDecodeOne(data []byte) (interface{}, error) {
	vals, err := vgDecodeAll(data)
	if err != nil {
		return nil, err
	}
	if len(vals) != 1 {
		return nil, fmt.Errorf("%d JSON values instead of one", len(vals))
	}
	return vals[0], nil
}

// vgEqual compares decoded trees; numbers bit for bit (so 0 and -0 differ).
func vgEqual(a, b interface{}) bool {
	switch x := a.(type) {
	case nil:
		return b == nil
	case bool:
		y, ok := b.(bool)
		return ok && x == y
	case float64:
		y, ok := b.(float64)
		return ok && math.Float64bits(x) == math.Float64bits(y)
	case string:
		y, ok := b.(string)
		return ok && x == y
	case []interface{}:
		y, ok := b.([]interface{})
		if !ok || len(x) != len(y) {
			return false
		}
		for i := range x {
			if !vgEqual(x[i], y[i]) {
				return false
			}
		}
		return true
	case map[string]interface{}:
		y, ok := b.(map[string]interface{})
		if !ok || len(x) != len(y) {
			return false
		}
		for k, v := range x {
			w, present := y[k]
			if !present || !vgEqual(v, w) {
				return false
			}
		}
		return true
	}
	return false
}

// vgShow renders a decoded tree compactly for violation messages.
func vgShow(v interface{}) string {
	b, err := json.Marshal(v)
	if err != nil {
		return fmt.Sprintf("%#v", v)
	}
	return short(string(b))
}

// vgStringsPlain says that every string and key of the tree is "escape free":
// valid UTF-8 without '"', '\\' and control characters (the precondition of the
// C17 re-parse oracle).
func vgStringsPlain(v interface{}) bool {
	switch x := v.(type) {
	case string:
		return vgPlain(x)
	case []interface{}:
		for _, e := range x {
			if !vgStringsPlain(e) {
				return false
			}
		}
	case map[string]interface{}:
		for k, e := range x {
			if !vgPlain(k) || !vgStringsPlain(e) {
				return false
			}
		}
	}
	return true
}

func vgPlain(s string) bool {
	if !utf8.ValidString(s) {
		return false
	}
	for _, c := range s {
		if c == '"' || c == '\\' || c < 0x20 || c == utf8.RuneError {
			return false
		}
	}
	return true
}

// ---------------------------------------------------------------- documents

type vgDocCfg struct {
	maxDepth   int
	maxWidth   int
	budget     int  // rough bound on the number of nodes
	plain      bool // only escape-free string VALUES (the text may still use \u escapes)
	invalid    bool // allow invalid UTF-8 / lone surrogates (become U+FFFD)
	dupKeys    bool
	whitespace bool
}

var vgNumberPool = []string{
	"0", "-0", "0.0", "-0.0", "0E0", "1", "-1", "2", "7", "10", "100", "-42", "2.5", "0.5", "-0.5", "1.5", "1.50", "100e-2", "1e+2", "0.1e1",
	"0.1", "0.2", "0.30000000000000004", "3.141592653589793", "12345.6789e-3",
	"1e20", "1e21", "1E21", "1e22", "999999999999999999999", "123456789012345678901234567890", "1e100",
	"1e-6", "0.000001", "1e-7", "0.0000001", "1.5e-7", "1e-10",
	"5e-324", "4.9406564584124654e-324", "2.2250738585072014e-308", "2.225073858507201e-308", "1e-320",
	"1.7976931348623157e308", "-1.7976931348623157e308", "1.7976931348623157E+308",
	"9007199254740991", "9007199254740992", "9007199254740993", "-9007199254740993", "9007199254740994", "18014398509481985",
	"0.1000000000000000055511151231257827", "2.00000000000000011102230246251565404236316680908203125",
	"0.333333333333333333333333333333", "1.0000000000000002", "4.35", "0.000123456789012345678",
	"123456789", "1234567.125", "65536", "4294967296", "-2147483649",
}

// vgNumber: a JSON number literal, from the pool or a random finite double in a random notation.
func vgNumber(r *rand.Rand) string {
	if chance(r, 0.75) {
		return pick(r, vgNumberPool)
	}
	var f float64
	for {
		f = math.Float64frombits(r.Uint64())
		if !math.IsNaN(f) && !math.IsInf(f, 0) {
			break
		}
	}
	if chance(r, 0.3) {
		// moderate magnitudes
		f = math.Float64frombits(r.Uint64()&0x000fffffffffffff | uint64(1023-30+r.Intn(90))<<52)
		if chance(r, 0.5) {
			f = -f
		}
	}
	switch r.Intn(3) {
	case 0:
		return strconv.FormatFloat(f, 'g', -1, 64)
	case 1:
		return strings.Replace(strconv.FormatFloat(f, 'e', -1, 64), "e+", pick(r, []string{"e", "E", "e+"}), 1)
	default:
		if math.Abs(f) < 1e25 && math.Abs(f) > 1e-12 {
			return strconv.FormatFloat(f, 'f', -1, 64)
		}
		return strconv.FormatFloat(f, 'g', -1, 64)
	}
}

var vgPlainPieces = []string{"a", "abc", "Hello", "x y", "10", "007", "1e3", " 1", "true", "null", "a,b,,c", "\u00e9", "\u65e5\u672c", "a\u00f1b", "\U0001F642", "\u00df", "<", ">", "&", "<b>&amp;</b>",
	"\u2028", "\u2029", "\u007f", "\u00a0", "\U0001D11E", "'", "/", "[1, 2]", "{k: v}", ": ", ", ", "#", "$", "%s", "\u03a9", "\ufeff", "\U0010ffff", "\u0080", "\u07ff", "\u0800", "\uffff"}
var vgEscPieces = []string{"\"", "\\", "\b", "\f", "\n", "\r", "\t", "\x00", "\x01", "\x1f", "\"q\"", "a\\b", "\\n", "\\u0041", "line1\nline2", "tab\there", "\r\n"}
var vgInvalidPieces = []string{"\xff", "\xc3", "\xe2\x82", "\xed\xa0\x80", "\xf0\x9f", "\xc0\xaf"}

// vgStringValue: the decoded value of a random string.
func vgStringValue(r *rand.Rand, c vgDocCfg) string {
	n := r.Intn(4)
	if chance(r, 0.1) {
		n = 0
	}
	var sb strings.Builder
	for i := 0; i < n; i++ {
		switch {
		case !c.plain && chance(r, 0.3):
			sb.WriteString(pick(r, vgEscPieces))
		case !c.plain && c.invalid && chance(r, 0.05):
			sb.WriteString(pick(r, vgInvalidPieces))
		default:
			sb.WriteString(pick(r, vgPlainPieces))
		}
	}
	return sb.String()
}

// vgEncodeString writes s as a JSON string literal choosing a random
// representation for every character: raw, short escape, \uXXXX (either hex
// case), surrogate pair.
func vgEncodeString(r *rand.Rand, s string, c vgDocCfg) string {
	var sb strings.Builder
	sb.WriteByte('"')
	for i := 0; i < len(s); {
		ch, w := utf8.DecodeRuneInString(s[i:])
		if ch == utf8.RuneError && w == 1 {
			// invalid byte: raw (the decoder substitutes U+FFFD)
			sb.WriteByte(s[i])
			i++
			continue
		}
		i += w
		u := func() {
			f := pick(r, []string{`\u%04x`, `\u%04X`})
			if ch >= 0x10000 {
				v := ch - 0x10000
				fmt.Fprintf(&sb, f, 0xd800+(v>>10))
				fmt.Fprintf(&sb, f, 0xdc00+(v&0x3ff))
			} else {
				fmt.Fprintf(&sb, f, ch)
			}
		}
		shortEsc := map[rune]string{'"': `\"`, '\\': `\\`, '\b': `\b`, '\f': `\f`, '\n': `\n`, '\r': `\r`, '\t': `\t`, '/': `\/`}
		esc, hasShort := shortEsc[ch]
		mustEscape := ch == '"' || ch == '\\' || ch < 0x20
		switch {
		case mustEscape && hasShort && chance(r, 0.7):
			sb.WriteString(esc)
		case mustEscape:
			u()
		case ch == '/' && chance(r, 0.5):
			sb.WriteString(esc)
		case chance(r, 0.15):
			u()
		default:
			sb.WriteRune(ch)
		}
	}
	sb.WriteByte('"')
	if c.invalid && chance(r, 0.02) {
		// a lone surrogate: becomes U+FFFD
		return sb.String()[:sb.Len()-1] + pick(r, []string{`\ud800`, `\udc00`, `\ud800A`, `\uDBFF`}) + `"`
	}
	return sb.String()
}

var vgKeyPool = []string{"a", "b", "c", "d", "name", "k1", "length", "pluck", "push", "x y", "é", "10", "0", "", "A", "aa", "a.b", "日本", "-1", "self", "next"}

type vgDocGen struct {
	r      *rand.Rand
	c      vgDocCfg
	budget int
}

func (g *vgDocGen) ws() string {
	if !g.c.whitespace || chance(g.r, 0.6) {
		return ""
	}
	return pick(g.r, []string{" ", "  ", "\n", "\t", "\r\n", " \n "})
}

func (g *vgDocGen) key() string {
	if g.c.plain || chance(g.r, 0.8) {
		return pick(g.r, vgKeyPool)
	}
	return vgStringValue(g.r, g.c)
}

func (g *vgDocGen) value(depth int) string {
	r := g.r
	g.budget--
	k := r.Intn(12)
	if depth >= g.c.maxDepth || g.budget <= 0 {
		if k >= 6 {
			// at the depth / size limit only empty containers and scalars
			if chance(r, 0.4) {
				return pick(r, []string{"[]", "{}", "[ ]", "{ }"})
			}
			k = r.Intn(6)
		}
	}
	switch k {
	case 0:
		return "null"
	case 1:
		return pick(r, []string{"true", "false"})
	case 2, 3:
		return vgNumber(r)
	case 4, 5:
		return vgEncodeString(r, vgStringValue(r, g.c), g.c)
	case 6, 7, 8:
		n := r.Intn(g.c.maxWidth + 1)
		if chance(r, 0.2) {
			n = 0
		}
		parts := make([]string, n)
		for i := range parts {
			parts[i] = g.ws() + g.value(depth+1) + g.ws()
		}
		if n == 0 {
			return "[" + g.ws() + "]"
		}
		return "[" + strings.Join(parts, ",") + "]"
	default:
		n := r.Intn(g.c.maxWidth + 1)
		if chance(r, 0.2) {
			n = 0
		}
		parts := make([]string, 0, n+1)
		var keys []string
		for i := 0; i < n; i++ {
			k := g.key()
			if !g.c.dupKeys {
				dup := false
				for _, x := range keys {
					dup = dup || x == k
				}
				if dup {
					continue
				}
			}
			keys = append(keys, k)
			parts = append(parts, g.ws()+vgEncodeString(r, k, g.c)+g.ws()+":"+g.ws()+g.value(depth+1)+g.ws())
		}
		if g.c.dupKeys && len(keys) > 0 && chance(r, 0.3) {
			// a duplicate of an earlier key: the last one wins
			k := pick(r, keys)
			parts = append(parts, vgEncodeString(r, k, g.c)+":"+g.value(depth+1))
		}
		if len(parts) == 0 {
			return "{" + g.ws() + "}"
		}
		return "{" + strings.Join(parts, ",") + "}"
	}
}

// vgSpine: containers nested to exactly depth d with a random leaf (empty
// containers and scalars), arrays and objects mixed.
func (g *vgDocGen) spine(d int) string {
	leaf := pick(g.r, []string{"[]", "{}", "null", "0", `""`, "true", "-0", "1e21", `"x"`, "[[]]", "[{}]", `{"a":[]}`, `{"a":{}}`, "[[],[]]", "[{},{}]", `[[],{},"",0,null,false]`})
	s := leaf
	for i := 0; i < d; i++ {
		switch g.r.Intn(4) {
		case 0:
			s = "[" + s + "]"
		case 1:
			s = `{"` + pick(g.r, []string{"a", "b", "k1", "length"}) + `":` + s + "}"
		case 2:
			s = "[" + pick(g.r, []string{"[]", "{}", "1", `"s"`}) + "," + s + "]"
		default:
			s = `{"a":` + s + `,"b":` + pick(g.r, []string{"[]", "{}", "null", "2"}) + "}"
		}
	}
	return s
}

// vgDoc produces the text of one JSON document.
func vgDoc(r *rand.Rand, c vgDocCfg) string {
	g := &vgDocGen{r: r, c: c, budget: c.budget}
	if chance(r, 0.12) {
		return g.ws() + g.spine(1+r.Intn(8)) + g.ws()
	}
	// the top level is a container most of the time
	for try := 0; try < 4; try++ {
		s := g.value(0)
		if s[0] == '[' || s[0] == '{' || chance(r, 0.3) {
			return g.ws() + s + g.ws()
		}
		g.budget = c.budget
	}
	return g.value(0)
}

func vgRichCfg() vgDocCfg {
	return vgDocCfg{maxDepth: 8, maxWidth: 4, budget: 40, invalid: true, dupKeys: true, whitespace: true}
}

func vgPlainCfg() vgDocCfg {
	return vgDocCfg{maxDepth: 8, maxWidth: 4, budget: 40, plain: true, dupKeys: true, whitespace: true}
}

func vgDocFile(data string) []File { return []File{{Name: "in.json", Data: []byte(data)}} }

// vgStream: one document, or (sometimes) several in one stream; returns the text.
func vgStream(r *rand.Rand, cfg vgDocCfg) string {
	n := 1
	if chance(r, 0.12) {
		n = 2 + r.Intn(2)
	}
	parts := make([]string, n)
	for i := range parts {
		parts[i] = vgDoc(r, cfg)
	}
	return strings.Join(parts, pick(r, []string{"\n", " ", "\n\n", "\t"}))
}

// ---------------------------------------------------------------- literal trees

// vgLit is a value written as a jqawk expression together with the tree that
// json() of it must denote.
type vgLit struct {
	expr string
	tree interface{}
}

var vgLitNumbers = []struct {
	expr string
	val  float64
}{
	{"0", 0}, {"(-0)", math.Copysign(0, -1)}, {"1", 1}, {"2", 2}, {"(-7)", -7}, {"2.5", 2.5}, {"0.5", 0.5}, {"(-0.5)", -0.5}, {"0.1", 0.1},
	{"(0.1 + 0.2)", vgAdd(0.1, 0.2)}, {"(1 / 3)", vgDiv(1, 3)}, {"(5 / 2)", 2.5}, {"9007199254740993", 9007199254740992}, {"9007199254740991", 9007199254740991},
	{"(9007199254740992 + 2)", 9007199254740994}, {"1000000000000000000000", 1e21}, {"100000000000000000000", 1e20}, {"0.0000001", 1e-7}, {"0.000001", 1e-6},
	{"num('5e-324')", 5e-324}, {"num('1.7976931348623157e308')", math.MaxFloat64}, {"num('1e21')", 1e21}, {"num('-1e-7')", -1e-7}, {"num('1e300')", 1e300},
	{"123456789012345678901234567890", 123456789012345678901234567890.0}, {"3.141592653589793", 3.141592653589793}, {"(3 * 0.35)", vgMul(3, 0.35)}, {"(0.7 + 0.1)", vgAdd(0.7, 0.1)}, {"(1.1 * 1.1)", vgMul(1.1, 1.1)}, {"4.35", 4.35},
	{"(0 * (-1))", math.Copysign(0, -1)}, {"1.50", 1.5}, {"007", 7},
}

// run-time float64 arithmetic (Go folds constant expressions exactly)
func vgAdd(a, b float64) float64 { return a + b }
func vgMul(a, b float64) float64 { return a * b }
func vgDiv(a, b float64) float64 { return a / b }

// vgLitString: a string that a jqawk literal can express; plain = no escapes needed in JSON.
func vgLitString(r *rand.Rand, plain bool) (string, string) {
	pieces := []string{"a", "abc", "Hello", "x y", "10", "é", "日本", "🙂", "<", ">", "&", "'", "/", ", ", ": ", "[1]", "{}", " ", "null", ""}
	if !plain {
		pieces = append(pieces, "\n", "\t", "\\", "\"", "a\\nb", "\"q\"", "\\\\")
	}
	for {
		var sb strings.Builder
		n := r.Intn(3)
		for i := 0; i < n; i++ {
			sb.WriteString(pick(r, pieces))
		}
		if lit, ok := strLit(r, sb.String()); ok {
			return lit, sb.String()
		}
	}
}

// vgLitTree: a random value written with literals only.
func vgLitTree(r *rand.Rand, depth int, plain bool) vgLit {
	k := r.Intn(11)
	if depth >= 4 && k >= 6 {
		k = r.Intn(6)
	}
	switch k {
	case 0:
		if chance(r, 0.3) {
			return vgLit{"vgunset", nil} // an unset variable: null in JSON
		}
		return vgLit{"null", nil}
	case 1:
		b := chance(r, 0.5)
		return vgLit{fmt.Sprint(b), b}
	case 2, 3:
		n := pick(r, vgLitNumbers)
		return vgLit{n.expr, n.val}
	case 4, 5:
		lit, s := vgLitString(r, plain)
		return vgLit{lit, s}
	case 6, 7, 8:
		n := r.Intn(4)
		if chance(r, 0.25) {
			n = 0
		}
		items := make([]string, n)
		tree := make([]interface{}, n)
		for i := range items {
			l := vgLitTree(r, depth+1, plain)
			items[i], tree[i] = l.expr, l.tree
		}
		return vgLit{"[" + strings.Join(items, ", ") + "]", tree}
	default:
		n := r.Intn(4)
		if chance(r, 0.25) {
			n = 0
		}
		var items []string
		tree := map[string]interface{}{}
		for i := 0; i < n; i++ {
			key := pick(r, []string{"a", "b", "c", "k1", "length", "pluck", "x y", "é", "10", "A", ""})
			l := vgLitTree(r, depth+1, plain)
			if vgDotKeys[key] && chance(r, 0.6) {
				items = append(items, key+": "+l.expr)
			} else {
				items = append(items, mustStrLit(key)+": "+l.expr)
			}
			tree[key] = l.tree // a repeated key: the last one wins
		}
		return vgLit{"{" + strings.Join(items, ", ") + "}", tree}
	}
}

// ---------------------------------------------------------------- auto-created containers

// vgAutoProg builds a value through path assignments to an unset variable
// (`o.a.b = 1`, `a[3] = 1`, `o.a[2].k = 'x'`), simulating the auto-creation of
// containers: a string step creates an object, a numeric step an array filled
// with nulls. Only assignments that jqawk accepts are generated (steps agree
// with the containers already there, no descent through a stored null or
// scalar). Returns the statements and the expected tree.
func vgAutoProg(r *rand.Rand, name string, plain bool) (string, interface{}) {
	var root interface{}
	created := false
	var stmts []string
	n := 1 + r.Intn(5)
	for i := 0; i < n*3 && len(stmts) < n; i++ {
		depth := 1 + r.Intn(4)
		var steps []interface{} // string or int
		cur, known := root, created
		for d := 0; d < depth; d++ {
			wantIdx := chance(r, 0.4)
			if known {
				switch cur.(type) {
				case []interface{}:
					wantIdx = true
				case map[string]interface{}:
					wantIdx = false
				}
			}
			if wantIdx {
				idx := r.Intn(4)
				if arr, isArr := cur.([]interface{}); known && isArr {
					if len(arr) > 0 && chance(r, 0.5) {
						idx = r.Intn(len(arr))
					} else {
						idx = len(arr) + r.Intn(3)
					}
					if idx < len(arr) {
						cur = arr[idx]
					} else {
						known = false
					}
				} else {
					known = false
				}
				steps = append(steps, idx)
			} else {
				key := pick(r, []string{"a", "b", "c", "k", "name", "x1"})
				if m, isMap := cur.(map[string]interface{}); known && isMap {
					v, present := m[key]
					cur, known = v, present
				} else {
					known = false
				}
				steps = append(steps, key)
			}
		}
		var lit string
		var val interface{}
		switch r.Intn(6) {
		case 0:
			lit, val = "null", nil
		case 1:
			lit, val = "true", true
		case 2:
			lit, val = vgLitString(r, plain)
		case 3:
			lit, val = "[]", []interface{}{}
		case 4:
			lit, val = "{}", map[string]interface{}{}
		default:
			nn := pick(r, vgLitNumbers)
			lit, val = nn.expr, nn.val
		}
		newRoot, ok := vgAutoSet(vgCopyTree(root), created, steps, val)
		if !ok {
			continue
		}
		root, created = newRoot, true
		path := name
		for _, st := range steps {
			switch x := st.(type) {
			case int:
				path += fmt.Sprintf("[%d]", x)
			case string:
				if chance(r, 0.7) {
					path += "." + x
				} else {
					path += "[" + mustStrLit(x) + "]"
				}
			}
		}
		stmts = append(stmts, path+" = "+lit)
	}
	if !created {
		stmts = append(stmts, name+".a.b = 1")
		root = map[string]interface{}{"a": map[string]interface{}{"b": 1.0}}
	}
	return strings.Join(stmts, "; "), root
}

func vgCopyTree(v interface{}) interface{} {
	switch x := v.(type) {
	case []interface{}:
		out := make([]interface{}, len(x))
		for i, e := range x {
			out[i] = vgCopyTree(e)
		}
		return out
	case map[string]interface{}:
		out := map[string]interface{}{}
		for k, e := range x {
			out[k] = vgCopyTree(e)
		}
		return out
	}
	return v
}

// vgAutoSet stores val at steps below the cell holding cur. exists=false: the
// cell is an unset variable or a member that is not there yet (jqawk creates the
// container that the next step asks for); exists=true: the cell is there and
// holds cur (nil = a stored null). ok=false: jqawk would raise a runtime error
// (or the step kinds do not agree with the container): not generated.
func vgAutoSet(cur interface{}, exists bool, steps []interface{}, val interface{}) (interface{}, bool) {
	if len(steps) == 0 {
		return val, true
	}
	switch st := steps[0].(type) {
	case int:
		arr := []interface{}{}
		if exists {
			a, isArr := cur.([]interface{})
			if !isArr {
				return nil, false // stored null, scalar or object
			}
			arr = a
		}
		childExists := st < len(arr)
		for len(arr) <= st {
			arr = append(arr, nil)
		}
		child, ok := vgAutoSet(arr[st], childExists, steps[1:], val)
		if !ok {
			return nil, false
		}
		arr[st] = child
		return arr, true
	case string:
		m := map[string]interface{}{}
		if exists {
			mm, isMap := cur.(map[string]interface{})
			if !isMap {
				return nil, false
			}
			m = mm
		}
		v, present := m[st]
		child, ok := vgAutoSet(v, present, steps[1:], val)
		if !ok {
			return nil, false
		}
		m[st] = child
		return m, true
	}
	return nil, false
}

// ---------------------------------------------------------------- container graphs

// vgNode is a node of a value graph built by a program: containers are
// variables c0, c1, …; edges are added by push / member assignment, so any graph
// (trees, sharing, cycles of any length through arrays, objects and mixtures)
// can be built.
type vgNode struct {
	kind   byte        // 'a' array, 'o' object, 's' scalar
	lit    string      // scalar: jqawk expression
	pretty string      // scalar: rendering inside a container
	val    interface{} // scalar: JSON tree
	bad    bool        // scalar that JSON cannot express (regex, non-finite number)
	kids   []int       // array elements / object member values (node ids)
	keys   []string    // object: keys parallel to kids
}

type vgGraph struct {
	nodes []vgNode
	conts []int    // ids of the containers, in creation order (variable ci = conts[i])
	stmts []string // the program building the graph
}

func (g *vgGraph) varOf(id int) string {
	for i, c := range g.conts {
		if c == id {
			return fmt.Sprintf("c%d", i)
		}
	}
	return "?"
}

func (g *vgGraph) newCont(kind byte) int {
	g.nodes = append(g.nodes, vgNode{kind: kind})
	id := len(g.nodes) - 1
	g.conts = append(g.conts, id)
	if kind == 'a' {
		g.stmts = append(g.stmts, fmt.Sprintf("%s = []", g.varOf(id)))
	} else {
		g.stmts = append(g.stmts, fmt.Sprintf("%s = {}", g.varOf(id)))
	}
	return id
}

func (g *vgGraph) scalar(r *rand.Rand, plain, allowBad bool) int {
	var n vgNode
	n.kind = 's'
	switch k := r.Intn(12); {
	case k == 0:
		n.lit, n.pretty, n.val = "null", "null", nil
	case k == 1:
		n.lit, n.pretty, n.val = "true", "true", true
	case k == 2:
		n.lit, n.pretty, n.val = "false", "false", false
	case k == 3:
		n.lit, n.pretty, n.val = "vgunset", "<unknown>", nil
	case k == 4 && allowBad:
		switch r.Intn(4) {
		case 0:
			n.lit, n.pretty, n.bad = "/a+b/", "<regex>", true
		case 1:
			n.lit, n.pretty, n.bad = "num('inf')", "+Inf", true
		case 2:
			n.lit, n.pretty, n.bad = "num('-inf')", "-Inf", true
		default:
			n.lit, n.pretty, n.bad = "num('nan')", "NaN", true
		}
	case k <= 7:
		x := pick(r, vgLitNumbers)
		n.lit, n.pretty, n.val = x.expr, strconv.FormatFloat(x.val, 'f', -1, 64), x.val
	default:
		lit, s := vgLitString(r, plain)
		n.lit, n.pretty, n.val = lit, `"`+s+`"`, s
	}
	g.nodes = append(g.nodes, n)
	return len(g.nodes) - 1
}

// link adds the edge from container `from` to node `to`.
func (g *vgGraph) link(r *rand.Rand, from, to int, key string) {
	f := &g.nodes[from]
	target := g.nodes[to].lit
	if g.nodes[to].kind != 's' {
		target = g.varOf(to)
	}
	v := g.varOf(from)
	if f.kind == 'a' {
		if chance(r, 0.7) {
			g.stmts = append(g.stmts, fmt.Sprintf("%s.push(%s)", v, target))
		} else {
			g.stmts = append(g.stmts, fmt.Sprintf("%s[%d] = %s", v, len(f.kids), target))
		}
		f.kids = append(f.kids, to)
		return
	}
	if vgDotKeys[key] && chance(r, 0.7) {
		g.stmts = append(g.stmts, fmt.Sprintf("%s.%s = %s", v, key, target))
	} else {
		g.stmts = append(g.stmts, fmt.Sprintf("%s[%s] = %s", v, mustStrLit(key), target))
	}
	for i, k := range f.keys {
		if k == key {
			f.kids[i] = to
			return
		}
	}
	f.keys = append(f.keys, key)
	f.kids = append(f.kids, to)
}

// keys that can be written as `.key` (identifiers that are not keywords such as next / in)
var vgDotKeys = map[string]bool{"a": true, "b": true, "c": true, "d": true, "v": true, "z": true, "k1": true, "self": true, "tail": true, "name": true, "A": true, "aa": true, "length": true, "pluck": true, "push": true}

var vgGraphKeys = []string{"a", "b", "c", "next", "self", "k1", "x y", "é", "10", "length", "pluck", "z"}

// vgRing builds a cycle of n containers (kinds: 'a', 'o' or 'm' = mixture) with
// some scalar content, returns the graph. Every ring member reaches itself.
func vgRing(r *rand.Rand, n int, kinds byte, plain bool) *vgGraph {
	g := &vgGraph{}
	for i := 0; i < n; i++ {
		k := kinds
		if k == 'm' {
			k = pick(r, []byte{'a', 'o'})
		}
		id := g.newCont(k)
		for j := r.Intn(3); j > 0; j-- {
			g.link(r, id, g.scalar(r, plain, false), pick(r, []string{"a", "b", "v"}))
		}
	}
	for i := 0; i < n; i++ {
		g.link(r, g.conts[i], g.conts[(i+1)%n], pick(r, []string{"next", "self", "c", "k1"}))
		if chance(r, 0.3) {
			g.link(r, g.conts[i], g.scalar(r, plain, false), pick(r, []string{"z", "tail"}))
		}
	}
	return g
}

// vgRandomGraph: nc containers with random edges; acyclic=true only links from
// later to earlier containers (sharing without cycles).
func vgRandomGraph(r *rand.Rand, nc int, acyclic, plain, allowBad bool) *vgGraph {
	g := &vgGraph{}
	for i := 0; i < nc; i++ {
		g.newCont(pick(r, []byte{'a', 'o'}))
	}
	ne := nc + r.Intn(2*nc+1)
	for e := 0; e < ne; e++ {
		fi := r.Intn(nc)
		var to int
		switch {
		case chance(r, 0.4):
			to = g.scalar(r, plain, allowBad)
		case acyclic:
			if fi == 0 {
				to = g.scalar(r, plain, allowBad)
			} else {
				to = g.conts[r.Intn(fi)]
			}
		default:
			to = g.conts[r.Intn(nc)]
		}
		g.link(r, g.conts[fi], to, pick(r, vgGraphKeys))
	}
	return g
}

func (g *vgGraph) prog() string { return strings.Join(g.stmts, "; ") }

// pretty: the rendering print must give for node id (top = true: a top-level
// print argument). <circular reference> exactly where a container is its own
// ancestor; shared containers in full.
func (g *vgGraph) pretty(id int, path []int, top bool) string {
	n := g.nodes[id]
	if n.kind == 's' {
		if top && strings.HasPrefix(n.pretty, `"`) {
			return n.pretty[1 : len(n.pretty)-1]
		}
		return n.pretty
	}
	for _, p := range path {
		if p == id {
			return "<circular reference>"
		}
	}
	path = append(append([]int{}, path...), id)
	var parts []string
	if n.kind == 'a' {
		for _, k := range n.kids {
			parts = append(parts, g.pretty(k, path, false))
		}
		return "[" + strings.Join(parts, ", ") + "]"
	}
	idx := make([]int, len(n.keys))
	for i := range idx {
		idx[i] = i
	}
	sort.Slice(idx, func(a, b int) bool { return n.keys[idx[a]] < n.keys[idx[b]] })
	for _, i := range idx {
		parts = append(parts, `"`+n.keys[i]+`": `+g.pretty(n.kids[i], path, false))
	}
	return "{" + strings.Join(parts, ", ") + "}"
}

// tree: the JSON tree of node id, or ok=false when the value reaches itself or
// contains something JSON cannot express (json() / -o must fail).
func (g *vgGraph) tree(id int, path []int) (interface{}, bool) {
	n := g.nodes[id]
	if n.kind == 's' {
		return n.val, !n.bad
	}
	for _, p := range path {
		if p == id {
			return nil, false
		}
	}
	path = append(append([]int{}, path...), id)
	if n.kind == 'a' {
		out := make([]interface{}, 0, len(n.kids))
		for _, k := range n.kids {
			t, ok := g.tree(k, path)
			if !ok {
				return nil, false
			}
			out = append(out, t)
		}
		return out, true
	}
	out := map[string]interface{}{}
	for i, k := range n.kids {
		t, ok := g.tree(k, path)
		if !ok {
			return nil, false
		}
		out[n.keys[i]] = t
	}
	return out, true
}

// plainStrings: all strings reachable in the graph are escape free.
func (g *vgGraph) plainStrings() bool {
	for _, n := range g.nodes {
		if s, ok := n.val.(string); ok && !vgPlain(s) {
			return false
		}
		for _, k := range n.keys {
			if !vgPlain(k) {
				return false
			}
		}
	}
	return true
}
