package main

// C03 — input is a JSON value stream: incremental, chunking-independent, faults
// reported (src/evaluator.go EvalProgram decode loop).
//
// Families:
//   chunking          same request under different read partitions (one byte per
//                     read, random, all at once; ALL compositions for streams of
//                     at most 12 bytes, each also with the last chunk delivered in
//                     the same Read call as io.EOF; reads that return (0, nil)) as
//                     one Group on class,out,file; the unchunked member and the
//                     data-with-EOF / empty-read members are compared with the model
//   truncate-corrupt  every truncation point and single-byte flip/insert/delete of
//                     short streams; oracle with Go's own decoder: ok => the whole
//                     stream is values+whitespace, json => output equals that of
//                     the longest valid prefix of complete values (Group)
//   io-error          reader failing at every offset -- the error after the last bytes
//                     or in the same Read call as the last bytes, whole / one byte per
//                     read / random reads with empty reads; class must be json,
//                     output = that of the values complete before the failure
//   incremental       read schedule recorded: output of value k is written before
//                     any byte beyond end(k)+1 (or the end of the chunk holding
//                     it) has been served
//   nesting-limit     arrays nested 9 999 / 10 000 / 10 001 (thorough only)
//   cli-incremental   the REAL BINARY reading a named pipe, /dev/stdin or a stdin pipe that
//                     stays open: the output of the complete values of the first part must
//                     be on stdout while the rest has not been sent yet
//   fault-after-assign  programs that assign $file / $ / $index, the fault in the value after
//                     the assignment or in a later file: the error names the real file
//                     (truncate-corrupt and io-error draw a third of their programs from the
//                     same pool)
//   big-values        streams with top-level values of 1 kB - 3 MB (around 4 KiB, 32 KiB,
//                     64 KiB +- 1, 100 KiB, 300 KiB) at the start / in the middle / at the
//                     end, delivered whole, in exact bursts, one byte per read around the end
//                     of the big value, and through the real binary; closed-form oracle: every
//                     value once, in order
//   every-byte-corruption  valid streams with one byte replaced / inserted, the byte running over EVERY
//                     value 0x00-0x1f and 0x7f-0xff, in every position class (string, escape, quote,
//                     number, literal, between values, inside a composite, before / after); the JSON
//                     grammar says which must be errors
//   stdin-descriptor-kinds  the real binary without file arguments, stdin a character device
//                     (/dev/zero, /dev/full, /dev/urandom), /dev/null, closed, an empty / regular
//                     file, a pipe, a socket, a terminal: non-JSON stdin is reported, a terminal is
//                     not read, a named file keeps stdin unread

import (
	"bytes"
	"encoding/json"
	"fmt"
	"io"
	"math/rand"
	"os"
	"strconv"
	"strings"
)

var c03Programs = []string{
	`{ print "v", $ }`,
	"BEGINFILE { print \"B\", $file } { print \"v\", $ } ENDFILE { print \"E\" }",
	"BEGINFILE { n++; print \"B\", n, $ }\nEND { print \"END\", n }",
	"BEGIN { print \"start\" }\n$ is number { s += $ }\n{ print \"v\", $, s }\nENDFILE { print \"E\" }\nEND { print \"end\", s }",
}

// programs that assign the variables the driver publishes per value ($file, $, $index) in
// BEGINFILE / pattern / ENDFILE rules, in patterns and through functions: the next value's
// (or the next file's) JSON input error must still name the real input file, and the driver
// must publish the real name again with every value
var c03AssignProgs = []string{
	"BEGINFILE { $file = \"input #\" + (++n) } { print \"v\", $file, $ }",
	"ENDFILE { $file = [] } { print \"v\", $ }",
	"{ print \"v\", $file, $; $file = \"renamed\" }",
	"{ $file = null; print \"v\", $ }",
	"BEGINFILE { $file = 7 } { print \"v\", $file, $ } ENDFILE { print \"E\", $file }",
	"($file = \"x\") { print \"v\", $ }",
	"{ $ = [$, $file]; $file = $file + \"!\"; print \"v\", $ }",
	"BEGINFILE { $ = {f: $file}; $file = \"\" } { print \"v\", $ } ENDFILE { print \"E\", $file, $ }",
	"function f() { $file = \"fn\" }\n{ f(); print \"v\", $ }",
	"{ $file += 1; print \"v\", $file }",
	"BEGINFILE { print \"B\", $file } { print \"v\", $ } ENDFILE { $file = {gone: true}; $ = null; print \"E\" }",
	"ENDFILE { $file = \"other.json\"; print \"E\", $file }",
	"{ $ = $file; print \"v\", $ } ENDFILE { $file = $file + $file }",
	"{ if ($ is number) { $file = \"num\" } else { $file = true }\n print \"v\", $file }",
	"$file ~ /json/ { $file = \"no match next time\"; print \"v\", $ }",
}

// the same with $index, which the driver publishes only while it iterates a top-level array: on
// other roots these programs end in a runtime error (only used where the oracle allows for that)
var c03AssignIndexProgs = []string{
	"{ $index = \"i\"; print \"v\", $index, $ }",
	"{ $file++; print \"v\", $file, $index++ }",
	"BEGINFILE { $file = $ } { $file = [$file, $index] } ENDFILE { print \"E\", $file }",
	"$ is number { $index = $index + 10; $file = $index; print \"v\", $file, $ }",
}

// c03PickProg: a program of the plain pool, or (one time in three) one that assigns $file / $ / $index
func c03PickProg(r *rand.Rand) string {
	if chance(r, 0.34) {
		return pick(r, c03AssignProgs)
	}
	return pick(r, c03Programs)
}

// the program of the incrementality oracle: exactly one line "E" per top-level value
const c03IncProg = "BEGINFILE { print \"B\", $file } { print \"v\", $ } ENDFILE { print \"E\" }"

// c03Scan: Go's own decoder over the whole buffer: end offsets of the complete
// values and whether the whole stream is values + whitespace.
func c03Scan(data []byte) (ends []int, valid bool) {
	dec := json.NewDecoder(bytes.NewReader(data))
	prev := 0
	for {
		var v any
		err := dec.Decode(&v)
		if err == io.EOF {
			return ends, true
		}
		if err != nil {
			return ends, false
		}
		end := int(dec.InputOffset())
		// cross-check with the non-streaming validator
		if !json.Valid(bytes.TrimSpace(data[prev:end])) {
			panic(fmt.Sprintf("c03Scan: decoder accepted %q which json.Valid rejects", data[prev:end]))
		}
		ends = append(ends, end)
		prev = end
	}
}

// c03IOErrPrefix: the bytes of the values that are complete when the reader fails
// after data: composites at their closing bracket, scalars only with a following byte.
func c03IOErrPrefix(data []byte) []byte {
	ends, _ := c03Scan(data)
	if len(ends) == 0 {
		return nil
	}
	last := ends[len(ends)-1]
	if last == len(data) {
		c := data[last-1]
		if c != ']' && c != '}' {
			ends = ends[:len(ends)-1]
		}
	}
	if len(ends) == 0 {
		return nil
	}
	return data[:ends[len(ends)-1]]
}

var c03Scalars = []string{"0", "1", "-7", "2.5", "1e3", "12", "345", `"a"`, `"b c"`, `""`, `"é"`, `"é\n"`, `"q\"uote"`, "true", "false", "null", "-0", "0.5", `"日本"`, "1E-2", `"\\"`}

func c03Value(r *rand.Rand, noNewline bool) string {
	switch k := r.Intn(10); {
	case k < 5:
		for {
			s := pick(r, c03Scalars)
			if noNewline && strings.Contains(s, `\n`) {
				continue
			}
			return s
		}
	case k < 7:
		n := r.Intn(4)
		parts := make([]string, n)
		for i := range parts {
			parts[i] = pick(r, []string{"1", "2", `"x"`, "null", "[3]", `{"k":0}`, "true", "4.5", "[]"})
		}
		return "[" + strings.Join(parts, pick(r, []string{",", ", ", " ,\n"})) + "]"
	case k < 9:
		return pick(r, []string{`{}`, `{"a":1}`, `{"a":[1,2],"b":"s"}`, `{"a":{"b":null}}`, `{ "k" : true }`, `{"a":1,"a":2}`, `[[1,[2]],{"x":[]}]`})
	default:
		cfg := defaultJSONCfg()
		cfg.maxDepth, cfg.maxWidth = 2, 3
		cfg.strings = []string{"a", "Hello", "x y", "é", "10"}
		cfg.numbers = []string{"0", "1", "-7", "2.5", "1e3", "123456789"}
		return genJSON(r, cfg, 0)
	}
}

func c03SepLegal(prev, next string) bool {
	if prev == "" || next == "" {
		return true
	}
	p, n := prev[len(prev)-1], next[0]
	return p == ']' || p == '}' || p == '"' || n == '[' || n == '{' || n == '"'
}

// c03Stream: n values with varied separators (none where legal, and rarely where it
// merely changes the meaning), optional leading/trailing whitespace.
func c03Stream(r *rand.Rand, n int, noNewline bool) []byte {
	var sb strings.Builder
	seps := []string{" ", "\n", "\t", "\r\n", "  ", " \n\t", "\n\n"}
	if chance(r, 0.3) {
		sb.WriteString(pick(r, seps))
	}
	prev := ""
	for i := 0; i < n; i++ {
		v := c03Value(r, noNewline)
		if i > 0 {
			switch {
			case c03SepLegal(prev, v) && chance(r, 0.45):
			case chance(r, 0.04): // adjacent bare scalars: merges or splits as the decoder sees fit
			default:
				sb.WriteString(pick(r, seps))
			}
		}
		sb.WriteString(v)
		prev = v
	}
	if chance(r, 0.4) {
		sb.WriteString(pick(r, seps))
	}
	return []byte(sb.String())
}

// all compositions of n (ordered partitions into positive parts)
func c03Compositions(n int) [][]int {
	if n == 0 {
		return [][]int{nil}
	}
	var res [][]int
	for mask := 0; mask < 1<<(n-1); mask++ {
		var parts []int
		run := 1
		for i := 0; i < n-1; i++ {
			if mask&(1<<i) != 0 {
				parts = append(parts, run)
				run = 1
			} else {
				run++
			}
		}
		res = append(res, append(parts, run))
	}
	return res
}

func c03Ones(n int) []int {
	c := make([]int, n+1)
	for i := range c {
		c[i] = 1
	}
	return c
}

func c03RandChunks(r *rand.Rand, n int) []int {
	var c []int
	max := pick(r, []int{2, 3, 5, 8, 17, 64})
	for s := 0; s < n; {
		k := 1 + r.Intn(max)
		c = append(c, k)
		s += k
	}
	return c
}

// c03Sched is a read schedule: the sizes of the successive reads (a negative entry is a
// Read that returns (0, nil)) and whether the Read handing out the last bytes returns the
// terminal error (io.EOF or the I/O error) in the same call.
type c03Sched struct {
	ch      []int
	dataErr bool
}

func (s c03Sched) String() string {
	parts := make([]string, len(s.ch))
	for i, c := range s.ch {
		parts[i] = fmt.Sprint(c)
		if c < 0 {
			parts[i] = "(0,nil)"
		}
	}
	t := "[" + strings.Join(parts, " ") + "]"
	if s.dataErr {
		t += " last bytes and the terminal error in ONE Read call"
	}
	return t
}

func (s c03Sched) file(name string, data []byte, ioErr bool) File {
	ch := s.ch
	if len(ch) == 0 && !s.dataErr {
		ch = []int{1}
	}
	return File{Name: name, Data: data, IOErr: ioErr, Chunks: ch, DataErr: s.dataErr}
}

// special says whether the schedule does something an os.File or a bytes.Reader never does
func (s c03Sched) special() bool {
	if s.dataErr {
		return true
	}
	for _, c := range s.ch {
		if c < 0 {
			return true
		}
	}
	return false
}

// c03Zeros inserts runs of 1-3 empty reads into a schedule (at least one run; also in
// front of the first and after the last chunk, i.e. right before the terminal error).
func c03Zeros(r *rand.Rand, ch []int) []int {
	var out []int
	p := pick(r, []float64{0.1, 0.3, 0.6})
	forced := r.Intn(len(ch) + 1)
	for i := 0; i <= len(ch); i++ {
		if i == forced || chance(r, p) {
			for k := 1 + r.Intn(3); k > 0; k-- {
				out = append(out, -1)
			}
		}
		if i < len(ch) {
			out = append(out, ch[i])
		}
	}
	return out
}

// c03SpecialScheds: schedules for a stream of n bytes that exercise the corners of the
// io.Reader contract: data together with the terminal error (everything in one call, one
// byte per call, only the last byte, everything but the first byte, random), empty reads,
// and both at once.
func c03SpecialScheds(r *rand.Rand, n int) []c03Sched {
	res := []c03Sched{
		{nil, true}, // one Read: all bytes and the error
		{c03Ones(n), true},
		{c03RandChunks(r, n+1), true},
		{c03Zeros(r, c03RandChunks(r, n+1)), false},
		{c03Zeros(r, c03RandChunks(r, n+1)), true},
	}
	if n >= 2 {
		res = append(res, c03Sched{[]int{n - 1, 1}, true}, c03Sched{[]int{1, n - 1}, true})
		k := 1 + r.Intn(n-1)
		res = append(res, c03Sched{[]int{k, n - k}, true})
	}
	if chance(r, 0.5) {
		res = append(res, c03Sched{c03Zeros(r, c03Ones(n)), chance(r, 0.5)})
	}
	return res
}

func c03Meta(prog string, data []byte, extra ...string) map[string]string {
	return metaProg(prog, append([]string{"stream", strconv.Quote(string(data))}, extra...)...)
}

var c03ShortStreams = []string{
	"1 2", "[1,2] 3", `"a""b"`, `{"a":1}[2]`, "null true", `1.5e2 "x"`, "[[]]{}7", "tru", "[1,]", "1 ] 2", `"é"`,
	"12 345 6", "-0 0.5", "[] ] [1]", "truefalse", "1\n2\n3\n", " [ 1 ] ", `{"a":[1]}`, `"a\nb" 1`, "[1][2][3]", "1,2", `{"a" 1}`, "nul", "0 1 2 3 4 5",
	"", " ", "7", "[", `"`, "1e999 2", "[1]x[2]", `[1] "ab`, "-", "01", "[1 2]", "1 2 }",
}

// c03FaultOracle: the laws for a possibly faulty stream (EOF-terminated).
func c03FaultOracle(name string, data []byte) func(Resp) string {
	_, valid := c03Scan(data)
	return func(i Resp) string {
		switch i["class"] {
		case "ok":
			if !valid {
				return fmt.Sprintf("class ok on a stream that Go's decoder does not accept as values+whitespace (silent truncation): %q", data)
			}
		case "json":
			if valid {
				return fmt.Sprintf("JSON error reported on a valid stream %q", data)
			}
			if string(i.Bytes("file")) != name {
				return fmt.Sprintf("JSON error names file %q, expected %q", i.Bytes("file"), name)
			}
		default:
			return "unexpected outcome class " + i["class"] + " (" + i["msg"] + ")"
		}
		return ""
	}
}

func c03Marks(s string) (outLen, served []int, ok bool) {
	if s == "" || s == "-" {
		return nil, nil, s == "-"
	}
	for _, m := range strings.Split(s, ",") {
		p := strings.Split(m, "@")
		if len(p) != 2 {
			return nil, nil, false
		}
		a, e1 := strconv.Atoi(p[0])
		b, e2 := strconv.Atoi(p[1])
		if e1 != nil || e2 != nil {
			return nil, nil, false
		}
		outLen = append(outLen, a)
		served = append(served, b)
	}
	return outLen, served, true
}

// c03IncOracle: with the read schedule `chunks`, the output of value k (ending with
// its "E" line) must be complete before the reader has served more than the chunk
// that holds byte end(k)+1.
func c03IncOracle(data []byte, chunks []int) func(Resp) string {
	ends, valid := c03Scan(data)
	// chunk boundaries
	var bounds []int
	s := 0
	for _, c := range chunks {
		if c < 0 {
			continue // a Read that returned (0, nil)
		}
		s += c
		if s >= len(data) {
			break
		}
		bounds = append(bounds, s)
	}
	bounds = append(bounds, len(data))
	return func(i Resp) string {
		if !valid {
			return ""
		}
		if i["class"] != "ok" {
			return "valid stream, class " + i["class"]
		}
		out := i.Bytes("out")
		outLen, served, ok := c03Marks(i["marks"])
		if !ok {
			return "no read/write marks in the answer: " + i["marks"]
		}
		// offsets after the k-th line "E"
		var lk []int
		pos := 0
		for _, ln := range bytes.SplitAfter(out, []byte("\n")) {
			pos += len(ln)
			if string(ln) == "E\n" {
				lk = append(lk, pos)
			}
		}
		if len(lk) != len(ends) {
			return fmt.Sprintf("%d values in the stream, %d ENDFILE lines in the output", len(ends), len(lk))
		}
		for k, l := range lk {
			need := ends[k] + 1
			if need > len(data) {
				need = len(data)
			}
			limit := len(data)
			for _, b := range bounds {
				if b >= need {
					limit = b
					break
				}
			}
			found := false
			for m := range outLen {
				if outLen[m] >= l {
					if served[m] > limit {
						return fmt.Sprintf("value %d (ends at byte %d): its output was complete only after %d input bytes had been served (limit %d)", k, ends[k], served[m], limit)
					}
					found = true
					break
				}
			}
			if !found {
				return fmt.Sprintf("no write mark reaches the output of value %d", k)
			}
		}
		return ""
	}
}

// c03PrefixCheck: a faulted run prints what the clean run on the complete values
// prints, except that END rules (lines "END ..."/"end ...") do not run after an error.
func c03PrefixCheck(first, self Resp) string {
	clean := string(first.Bytes("out"))
	lines := strings.SplitAfter(clean, "\n")
	for len(lines) > 0 && (lines[len(lines)-1] == "" || strings.HasPrefix(lines[len(lines)-1], "END ") || strings.HasPrefix(lines[len(lines)-1], "end ")) {
		lines = lines[:len(lines)-1]
	}
	want := strings.Join(lines, "")
	if got := string(self.Bytes("out")); got != want {
		return fmt.Sprintf("output %q differs from the output of the complete values before the fault %q", got, want)
	}
	if self["class"] == "json" && (strings.Contains(string(self.Bytes("out")), "\nEND ") || strings.Contains(string(self.Bytes("out")), "\nend ")) {
		return "an END rule ran after a JSON input error"
	}
	return ""
}

func c03NT(i Resp) bool {
	return (i["class"] == "ok" || i["class"] == "json") && i["out"] != "-" && i["out"] != ""
}

// ---- cli-incremental ------------------------------------------------------------------

var c03CliProgs = []string{
	`{ print "v", $ }`,
	"BEGINFILE { print \"B\" } { print \"v\", $ } ENDFILE { print \"E\" }",
	"BEGIN { print \"start\" }\n{ print \"v\", $ }\nEND { print \"END\", 1 }",
	"BEGIN { print \"start\" }\nBEGINFILE { n++; print \"B\", n }\nEND { print \"END\", n }",
	"BEGINFILE { c = 0 } { c++ } ENDFILE { print \"count\", c }",
	"{ print $ } END { print \"END reached\" }",
}

// c03StripEnd removes the lines an END rule printed ("END ...").
func c03StripEnd(out string) string {
	lines := strings.SplitAfter(out, "\n")
	for len(lines) > 0 && (lines[len(lines)-1] == "" || strings.HasPrefix(lines[len(lines)-1], "END ")) {
		lines = lines[:len(lines)-1]
	}
	return strings.Join(lines, "")
}

// c03InProcOut: the library's output for prog on the given inputs (run inside the generator).
func c03InProcOut(prog string, files []File) (string, string) {
	i := ParseResp(implAnswer(RunReq(prog, nil, files, false)))
	return i["class"], string(i.Bytes("out"))
}

func c03CliIncremental(r *rand.Rand, tier string, emit func(Case)) {
	if os.Getenv("JQAWK_BIN") == "" {
		emit(Case{ID: "no-binary", Req: "cli - - - -", ImplOnly: true, Oracle: func(i Resp) string { return "JQAWK_BIN is not set: the binary was not run" },
			Meta: map[string]string{"problem": "env JQAWK_BIN is not set; this family runs the real binary"}})
		return
	}
	n := tierN(tier, 32, 300)
	modes := []string{"fifo", "fifo", "stdin", "fifo", "devstdin", "fifo", "file-then-fifo", "stdin"}
	finalFields := []string{"exit", "out", "err"}
	for i := 0; i < n; i++ {
		mode := modes[i%len(modes)]
		prog := c03CliProgs[(i/len(modes))%len(c03CliProgs)]
		if i >= len(modes)*len(c03CliProgs) {
			prog = pick(r, c03CliProgs)
		}
		// a stream and a cut: `first` holds k complete values (and perhaps the beginning of the
		// next one), `rest` the others -- sometimes faulty, so that the run ends in a JSON error
		var data, first, rest []byte
		var wantEarly string
		var cutKind string
		for try := 0; ; try++ {
			data = c03Stream(r, 2+r.Intn(5), true)
			ends, valid := c03Scan(data)
			if !valid || len(ends) < 2 {
				continue
			}
			k := r.Intn(len(ends)) // cut after value k (0-based)
			cut := ends[k]
			switch r.Intn(4) {
			case 0:
				cutKind = "right after the value"
			case 1:
				// one following byte (what a scalar needs to be complete)
				if cut < len(data) {
					cut++
				}
				cutKind = "one byte after the value"
			case 2:
				// into the next value
				if k+1 < len(ends) {
					cut = ends[k] + 1 + r.Intn(ends[k+1]-ends[k])
					if cut > ends[k+1]-1 {
						cut = ends[k+1] - 1
					}
				}
				cutKind = "inside the next value"
			default:
				for cut < len(data) && strings.IndexByte(" \t\r\n", data[cut]) >= 0 {
					cut++
				}
				cutKind = "after the white space that follows the value"
			}
			if (i%len(modes) == 5 && strings.Contains(prog, "BEGIN {")) || (mode == "file-then-fifo" && chance(r, 0.5)) {
				cut, cutKind = 0, "nothing is sent before the wait"
			}
			first, rest = data[:cut], data[cut:]
			if chance(r, 0.2) && len(rest) > 0 {
				rest = c03Corrupt(r, rest)
			}
			files := []File{{Name: "in.fifo", Data: c03IOErrPrefix(first)}}
			if mode == "file-then-fifo" {
				files = []File{{Name: "first.json", Data: []byte("[10, 20]\n{\"a\": 1}\n")}, {Name: "in.fifo", Data: c03IOErrPrefix(first)}}
			}
			class, out := c03InProcOut(prog, files)
			if class != "ok" {
				continue
			}
			wantEarly = c03StripEnd(out)
			if wantEarly != "" || try > 50 {
				break
			}
		}
		if wantEarly == "" {
			continue
		}
		whole := append(append([]byte{}, first...), rest...)
		g := fmt.Sprintf("inc-cli-%d", i)
		var plainReq, stagedReq string
		var argv []string
		switch mode {
		case "fifo":
			argv = []string{prog, "in.fifo"}
			plainReq = CliReq(argv, nil, false, []CliFile{{Name: "in.fifo", Data: whole}}, "")
			stagedReq = CliStagedReq(argv, "fifo", nil, nil, []CliFile{{Name: "in.fifo", Fifo: true, Data: first, Rest: rest}}, len(wantEarly))
		case "file-then-fifo":
			argv = []string{prog, "first.json", "in.fifo"}
			f1 := CliFile{Name: "first.json", Data: []byte("[10, 20]\n{\"a\": 1}\n")}
			plainReq = CliReq(argv, nil, false, []CliFile{f1, {Name: "in.fifo", Data: whole}}, "")
			stagedReq = CliStagedReq(argv, "fifo", nil, nil, []CliFile{f1, {Name: "in.fifo", Fifo: true, Data: first, Rest: rest}}, len(wantEarly))
		case "stdin":
			argv = []string{prog}
			plainReq = CliReq(argv, whole, true, nil, "")
			stagedReq = CliStagedReq(argv, "stdin", first, rest, nil, len(wantEarly))
		case "devstdin":
			// standard input given BY NAME: for the model a file of that name
			argv = []string{prog, "/dev/stdin"}
			plainReq = CliReq(argv, whole, true, nil, "")
			stagedReq = CliStagedReq(argv, "stdin", first, rest, nil, len(wantEarly))
		}
		modelReq := plainReq
		if mode == "devstdin" {
			modelReq = CliReq(argv, nil, false, []CliFile{{Name: "/dev/stdin", Data: whole}}, "")
		}
		meta := func(what string) map[string]string {
			return metaProg(prog, "argv", strings.Join(argv, " ␣ "), "input kind", mode, "first part", strconv.Quote(string(first)), "cut", cutKind, "rest", strconv.Quote(string(rest)),
				"output expected before the rest is sent", strconv.Quote(wantEarly), "variant", what)
		}
		emit(Case{ID: g + "/plain", Req: plainReq, ModelReq: modelReq, Fields: finalFields, Group: g, Meta: meta("all bytes at once (regular file / stdin with EOF): reference of the group"),
			NonTrivial: func(i Resp) bool { return i["exit"] != "" && i["out"] != "-" }})
		want := wantEarly
		emit(Case{ID: g + "/staged", Req: stagedReq, ModelReq: modelReq, Fields: finalFields, Group: g, GroupFields: []string{"exit", "out", "stderr"},
			Meta:       meta("the first part, a pause until its output is there (at most 2.5 s), then the rest"),
			NonTrivial: func(i Resp) bool { return i["early"] != "" && i["early"] != "-" },
			Oracle: func(i Resp) string {
				switch i["class"] {
				case "badrequest", "crash", "garbled", "nobinary":
					return "harness problem running the binary: " + i.String()
				}
				if got := string(i.Bytes("early")); got != want {
					return fmt.Sprintf("while the input was still open and only %q had been sent, stdout held %q after %s ms; the complete values sent so far produce %q", first, got, i["earlyms"], want)
				}
				return ""
			}})
	}
}

func init() {
	fields := []string{"class", "out", "file"}

	register(Family{
		Name: "chunking", Prop: "C03",
		Rule: "a stream (valid or not) run unchunked (compared with the model) and under read partitions: one byte per read, random partitions, one read, and for streams of at most 12 bytes ALL compositions, each also with the last chunk delivered in the same Read call as io.EOF; reads that return (0, nil); one Group per stream on class,out,file, the members with data+EOF or empty reads are also compared with the model; also two-file runs (data+EOF at the end of the first file); non-trivial = distinct (stream, partition) with output",
		Gen: func(r *rand.Rand, tier string, emit func(Case)) {
			gid := 0
			group := func(prog string, data []byte, all bool, nrand int) {
				gid++
				g := fmt.Sprintf("chunk-%d", gid)
				name := "in.json"
				emit(Case{ID: g + "/whole", Req: RunReq(prog, nil, []File{{Name: name, Data: data}}, false), Fields: fields,
					Meta: c03Meta(prog, data, "chunks", "unchunked"), Group: g, GroupFields: fields, Oracle: c03FaultOracle(name, data), NonTrivial: c03NT})
				var parts []c03Sched
				wholeReq := RunReq(prog, nil, []File{{Name: name, Data: data}}, false)
				if all {
					// every composition, each also with its last chunk delivered together with io.EOF
					for _, ch := range c03Compositions(len(data)) {
						parts = append(parts, c03Sched{ch, false}, c03Sched{ch, true})
					}
					for j := 0; j < 6; j++ {
						parts = append(parts, c03Sched{c03Zeros(r, c03RandChunks(r, len(data)+1)), j%2 == 0})
					}
				} else {
					parts = append(parts, c03Sched{c03Ones(len(data)), false}, c03Sched{[]int{len(data) + 1}, false})
					for j := 0; j < nrand; j++ {
						parts = append(parts, c03Sched{c03RandChunks(r, len(data)), false})
					}
					parts = append(parts, c03SpecialScheds(r, len(data))...)
				}
				for j, sc := range parts {
					c := Case{ID: fmt.Sprintf("%s/%d", g, j), Req: RunReq(prog, nil, []File{sc.file(name, data, false)}, false),
						Meta: c03Meta(prog, data, "chunks", sc.String()), Group: g, GroupFields: fields, ImplOnly: true, NonTrivial: c03NT}
					if sc.special() && (!all || j%16 < 2) {
						// the model's answer does not depend on the read schedule
						c.ImplOnly, c.ModelReq, c.Fields = false, wholeReq, fields
						c.Oracle = c03FaultOracle(name, data)
					}
					emit(c)
				}
			}
			// exhaustive compositions of short streams
			short := append([]string{}, c03ShortStreams...)
			nshort := tierN(tier, 14, len(short))
			if nshort < len(short) {
				r.Shuffle(len(short), func(i, j int) { short[i], short[j] = short[j], short[i] })
				short = short[:nshort]
			}
			for _, s := range short {
				group(c03Programs[1], []byte(s), true, 0)
			}
			for i := 0; i < tierN(tier, 6, 150); i++ {
				var s []byte
				for {
					s = c03Stream(r, 1+r.Intn(4), false)
					if len(s) <= 12 && len(s) >= 4 {
						break
					}
				}
				group(pick(r, c03Programs), s, true, 0)
			}
			// longer streams: special and random partitions
			for i := 0; i < tierN(tier, 1500, 12000); i++ {
				s := c03Stream(r, 1+r.Intn(7), false)
				if chance(r, 0.25) && len(s) > 0 { // a faulty one
					s = c03Corrupt(r, s)
				}
				group(pick(r, c03Programs), s, false, 4)
			}
			// two files, each with its own partition
			for i := 0; i < tierN(tier, 150, 3000); i++ {
				gid++
				g := fmt.Sprintf("chunk2-%d", gid)
				a, b := c03Stream(r, 1+r.Intn(3), false), c03Stream(r, r.Intn(4), false)
				if chance(r, 0.15) && len(a) > 0 {
					a = c03Corrupt(r, a)
				}
				if chance(r, 0.3) && len(b) > 0 {
					b = c03Corrupt(r, b)
				}
				prog := pick(r, c03Programs)
				_, va := c03Scan(a)
				_, vb := c03Scan(b)
				want := ""
				if !va {
					want = "a.json"
				} else if !vb {
					want = "b.json"
				}
				emit(Case{ID: g + "/whole", Req: RunReq(prog, nil, []File{{Name: "a.json", Data: a}, {Name: "b.json", Data: b}}, false), Fields: fields,
					Meta: c03Meta(prog, a, "second", strconv.Quote(string(b))), Group: g, GroupFields: fields, NonTrivial: c03NT,
					Oracle: func(i Resp) string {
						if (want == "") != (i["class"] == "ok") || (want != "" && i["class"] != "json") {
							return fmt.Sprintf("class %s, but the first faulty file is %q", i["class"], want)
						}
						if got := string(i.Bytes("file")); got != want {
							return fmt.Sprintf("JSON error names file %q, the faulty file is %q", got, want)
						}
						return ""
					}})
				wholeReq := RunReq(prog, nil, []File{{Name: "a.json", Data: a}, {Name: "b.json", Data: b}}, false)
				for j := 0; j < 7; j++ {
					sa, sb := c03Sched{c03RandChunks(r, len(a)+1), false}, c03Sched{c03RandChunks(r, len(b)+1), false}
					switch j {
					case 0:
						sa.ch, sb.ch = c03Ones(len(a)), c03Ones(len(b))
					case 3: // the first file ends with data and io.EOF in one call
						sa.dataErr = true
					case 4:
						sa.ch, sa.dataErr, sb.dataErr = nil, true, true
					case 5:
						sa.ch, sb.ch, sb.dataErr = c03Zeros(r, sa.ch), c03Zeros(r, sb.ch), chance(r, 0.5)
					case 6:
						sa.ch, sa.dataErr, sb.ch, sb.dataErr = c03Ones(len(a)), true, c03Ones(len(b)), true
					}
					c := Case{ID: fmt.Sprintf("%s/%d", g, j), Req: RunReq(prog, nil, []File{sa.file("a.json", a, false), sb.file("b.json", b, false)}, false),
						Meta: c03Meta(prog, a, "second", strconv.Quote(string(b)), "chunks", sa.String()+" / "+sb.String()), Group: g, GroupFields: fields, ImplOnly: true}
					if sa.special() || sb.special() {
						c.ImplOnly, c.ModelReq, c.Fields = false, wholeReq, fields
					}
					emit(c)
				}
			}
		},
	})

	register(Family{
		Name: "truncate-corrupt", Prop: "C03",
		Rule: "short valid streams (a third of them under programs that assign $file / $ in BEGINFILE, pattern and ENDFILE rules: the error must name the real file all the same): every truncation point, and at every position a byte replaced / inserted (from a pool of structural, whitespace, digit, letter, control and non-UTF-8 bytes) / deleted; compared with the model; oracle via encoding/json: ok only if the whole stream is values+whitespace, json error names the file, and (Group) the output equals the output of the clean run on the longest valid prefix of complete values; non-trivial = json error after some output, or ok with output",
		Gen: func(r *rand.Rand, tier string, emit func(Case)) {
			pool := []byte{']', '}', '[', '{', ',', ':', '"', ' ', '\n', 'x', '0', '9', '-', '.', 'e', '\\', 0x00, 0xff, 0xc3, 't', 'n', '/', '+'}
			name := "data.json"
			nt := func(i Resp) bool { return i["out"] != "-" && i["out"] != "" }
			for si := 0; si < tierN(tier, 40, 400); si++ {
				prog := c03PickProg(r)
				var base []byte
				for {
					base = c03Stream(r, 2+r.Intn(4), false)
					if _, ok := c03Scan(base); ok && len(base) <= 44 && len(base) >= 6 {
						break
					}
				}
				seenPrefix := map[string]bool{}
				seenMut := map[string]bool{}
				one := func(kind string, data []byte) {
					if seenMut[string(data)] {
						return
					}
					seenMut[string(data)] = true
					ends, valid := c03Scan(data)
					c := Case{Req: RunReq(prog, nil, []File{{Name: name, Data: data}}, false), Fields: fields,
						Meta: c03Meta(prog, data, "mutation", kind, "base", strconv.Quote(string(base))), Oracle: c03FaultOracle(name, data), NonTrivial: nt}
					if !valid {
						var prefix []byte
						if len(ends) > 0 {
							prefix = data[:ends[len(ends)-1]]
						}
						g := fmt.Sprintf("prefix-%d-%x", si, prefix)
						if !seenPrefix[g] {
							seenPrefix[g] = true
							emit(Case{ID: g, Req: RunReq(prog, nil, []File{{Name: name, Data: prefix}}, false), Fields: fields,
								Meta: c03Meta(prog, prefix, "mutation", "clean prefix (reference of its group)"), Group: g, NonTrivial: nt})
						}
						c.Group, c.GroupCheck = g, c03PrefixCheck
					}
					emit(c)
				}
				one("none", base)
				for k := 0; k < len(base); k++ {
					one(fmt.Sprintf("truncate@%d", k), append([]byte{}, base[:k]...))
					one(fmt.Sprintf("delete@%d", k), append(append([]byte{}, base[:k]...), base[k+1:]...))
				}
				nb := tierN(tier, 7, len(pool))
				for k := 0; k <= len(base); k++ {
					r.Shuffle(len(pool), func(i, j int) { pool[i], pool[j] = pool[j], pool[i] })
					for _, b := range pool[:nb] {
						one(fmt.Sprintf("insert %q@%d", b, k), append(append(append([]byte{}, base[:k]...), b), base[k:]...))
						if k < len(base) && base[k] != b {
							m := append([]byte{}, base...)
							m[k] = b
							one(fmt.Sprintf("flip %q@%d", b, k), m)
						}
					}
				}
			}
		},
	})

	register(Family{
		Name: "io-error", Prop: "C03",
		Rule: "the reader fails with an I/O error after every prefix of a stream (a third of the streams under programs that assign $file / $) -- the error in a Read call of its own or in the SAME call as the last bytes (all bytes at once, one byte per read, random reads, with reads that return (0, nil)): class must be json naming the file, and the output must equal (Group) the output of the clean run on the values complete at the failure (composites at their closing bracket, scalars only once a following byte was read); compared with the model; non-trivial = some value was processed before the failure",
		Gen: func(r *rand.Rand, tier string, emit func(Case)) {
			name := "pipe.json"
			nt := func(i Resp) bool { return i["out"] != "-" && i["out"] != "" }
			for si := 0; si < tierN(tier, 150, 2000); si++ {
				prog := c03PickProg(r)
				var base []byte
				if si < len(c03ShortStreams) && si%2 == 0 {
					base = []byte(c03ShortStreams[si])
				} else {
					base = c03Stream(r, 1+r.Intn(5), false)
				}
				if len(base) > 60 {
					base = base[:60]
				}
				seenPrefix := map[string]bool{}
				for k := 0; k <= len(base); k++ {
					data := append([]byte{}, base[:k]...)
					prefix := c03IOErrPrefix(data)
					g := fmt.Sprintf("ioprefix-%d-%x", si, prefix)
					if !seenPrefix[g] {
						seenPrefix[g] = true
						emit(Case{ID: g, Req: RunReq(prog, nil, []File{{Name: name, Data: prefix}}, false), Fields: fields,
							Meta: c03Meta(prog, prefix, "role", "clean run on the complete values (reference of its group)"), Group: g, NonTrivial: nt})
					}
					oracle := func(i Resp) string {
						if i["class"] != "json" {
							return fmt.Sprintf("reader failed after %q but the outcome is %s, not a JSON input error", data, i["class"])
						}
						if string(i.Bytes("file")) != name {
							return fmt.Sprintf("JSON error names file %q, expected %q", i.Bytes("file"), name)
						}
						return ""
					}
					c := Case{Req: RunReq(prog, nil, []File{{Name: name, Data: data, IOErr: true}}, false), Fields: fields,
						Meta: c03Meta(prog, data, "fault", fmt.Sprintf("I/O error after %d bytes", k)), Oracle: oracle, NonTrivial: nt}
					c.Group, c.GroupCheck = g, c03PrefixCheck
					emit(c)
					plainReq := c.Req
					variant := func(sc c03Sched, what string) {
						c2 := c
						c2.Req = RunReq(prog, nil, []File{sc.file(name, data, true)}, false)
						c2.ModelReq = plainReq // the model's answer does not depend on the read schedule
						c2.Meta = c03Meta(prog, data, "fault", fmt.Sprintf("I/O error after %d bytes, %s", k, what), "chunks", sc.String())
						emit(c2)
					}
					// the error in the same Read call as the last bytes (legal for an io.Reader)
					variant(c03Sched{nil, true}, "all the bytes and the error in one Read call")
					if chance(r, 0.3) {
						variant(c03Sched{c03Ones(len(data)), false}, "one byte per read")
					}
					if chance(r, 0.3) {
						variant(c03Sched{c03Ones(len(data)), true}, "one byte per read, the last byte together with the error")
					}
					if chance(r, 0.3) {
						variant(c03Sched{c03RandChunks(r, len(data)+1), true}, "random reads, the last bytes together with the error")
					}
					if chance(r, 0.2) {
						variant(c03Sched{c03Zeros(r, c03RandChunks(r, len(data)+1)), chance(r, 0.5)}, "random reads and empty reads")
					}
					if k >= 2 && chance(r, 0.2) {
						j := 1 + r.Intn(k-1)
						variant(c03Sched{[]int{j, k - j}, true}, "two reads, the second one together with the error")
					}
				}
			}
		},
	})

	register(Family{
		Name: "incremental", Prop: "C03",
		Rule: "valid streams of 1-8 values read one byte per read or in random chunks of up to 64 bytes, also with the last chunk in the same Read call as io.EOF and with reads that return (0, nil); the harness records (output length, input bytes served) at every write; oracle: the output of value k (up to its ENDFILE line) is complete before more than end(k)+1 bytes (rounded up to the chunk boundary) have been served; Group with the unchunked run (compared with the model)",
		Gen: func(r *rand.Rand, tier string, emit func(Case)) {
			for si := 0; si < tierN(tier, 1500, 15000); si++ {
				var data []byte
				for {
					data = c03Stream(r, 1+r.Intn(8), true)
					if _, ok := c03Scan(data); ok {
						break
					}
				}
				g := fmt.Sprintf("inc-%d", si)
				emit(Case{ID: g + "/whole", Req: RunReq(c03IncProg, nil, []File{{Name: "s.json", Data: data}}, false), Fields: fields,
					Meta: c03Meta(c03IncProg, data, "chunks", "unchunked"), Group: g, GroupFields: fields})
				scheds := []c03Sched{{c03Ones(len(data)), false}, {c03RandChunks(r, len(data)+1), false}, {c03RandChunks(r, len(data)+1), false},
					{c03Ones(len(data)), true}, {c03RandChunks(r, len(data)+1), true}, {c03Zeros(r, c03RandChunks(r, len(data)+1)), chance(r, 0.5)}}
				if si%3 == 0 {
					scheds = append(scheds, c03Sched{nil, true}, c03Sched{c03Zeros(r, c03Ones(len(data))), si%2 == 0})
				}
				for j, sc := range scheds {
					emit(Case{ID: fmt.Sprintf("%s/%d", g, j), Req: RunReq(c03IncProg, nil, []File{sc.file("s.json", data, false)}, false),
						Meta: c03Meta(c03IncProg, data, "chunks", sc.String()), Group: g, GroupFields: fields, ImplOnly: true, Oracle: c03IncOracle(data, sc.ch)})
				}
			}
		},
	})

	register(Family{
		Name: "nesting-limit", Prop: "C03",
		Rule: "thorough tier only: arrays and objects nested 9 999 / 10 000 / 10 001 deep (the decoder's limit is 10 000), alone and after a first value, whole and one byte per read; compared with the model; oracle via encoding/json",
		Gen: func(r *rand.Rand, tier string, emit func(Case)) {
			if tier != "thorough" {
				return
			}
			prog := "BEGINFILE { n++; print \"B\", n }\nEND { print \"end\", n }"
			for _, depth := range []int{9999, 10000, 10001} {
				for _, shape := range []string{"arr", "obj", "after"} {
					var data []byte
					switch shape {
					case "arr":
						data = []byte(strings.Repeat("[", depth) + strings.Repeat("]", depth))
					case "obj":
						data = []byte(strings.Repeat(`{"a":`, depth-1) + "[]" + strings.Repeat("}", depth-1))
					default:
						data = []byte("1 [2] " + strings.Repeat("[", depth) + strings.Repeat("]", depth) + " 3")
					}
					name := "deep.json"
					g := fmt.Sprintf("deep-%s-%d", shape, depth)
					meta := map[string]string{"program": prog, "stream": fmt.Sprintf("%s nested %d deep", shape, depth)}
					emit(Case{ID: g, Req: RunReq(prog, nil, []File{{Name: name, Data: data}}, false), Fields: fields, Meta: meta,
						Oracle: c03FaultOracle(name, data), Group: g, GroupFields: fields, NonTrivial: func(i Resp) bool { return true }})
					emit(Case{ID: g + "/1", Req: RunReq(prog, nil, []File{{Name: name, Data: data, Chunks: c03Ones(len(data))}}, false), Meta: meta,
						Group: g, GroupFields: fields, ImplOnly: true})
					emit(Case{ID: g + "/whole+EOF", Req: RunReq(prog, nil, []File{{Name: name, Data: data, DataErr: true}}, false), Meta: meta,
						Group: g, GroupFields: fields, ImplOnly: true})
				}
			}
		},
	})
	register(Family{
		Name: "cli-incremental", Prop: "C03",
		Rule: "the real binary with an input that is NOT a finished regular file: a named pipe given as a file argument (alone, and as second file after a regular one), /dev/stdin given by name, and a stdin pipe that stays open. The harness writes a first part of a valid stream (cut right after a value, one byte later, after the following white space, inside the next value, or nothing at all for BEGIN output), waits until stdout holds as many bytes as the complete values of that part must produce (library run in the generator on those values; END lines removed) or 2.5 s have passed, records stdout (`early`), then sends the rest (sometimes corrupted) and closes. Oracle: early = exactly that output; Group: final exit / stdout / stderr equal to the run on a plain file with all the bytes, which is compared with the model",
		Gen:  c03CliIncremental,
	})
}

// c03Corrupt applies one random single-byte corruption.
func c03Corrupt(r *rand.Rand, s []byte) []byte {
	pool := []byte{']', '}', '[', '{', ',', '"', 'x', '0', '\\', 0x00, 0xff, ':'}
	k := r.Intn(len(s))
	switch r.Intn(4) {
	case 0:
		return append([]byte{}, s[:k]...)
	case 1:
		return append(append([]byte{}, s[:k]...), s[k+1:]...)
	case 2:
		m := append([]byte{}, s...)
		m[k] = pick(r, pool)
		return m
	default:
		return append(append(append([]byte{}, s[:k]...), pick(r, pool)), s[k:]...)
	}
}

// ---- fault-after-assign ---------------------------------------------------------------
//
// The JSON input error names the FILE it was read from -- whatever the rules did to $file,
// $ and $index while the earlier values were processed. Two or three files; the fault
// (truncation, corruption, failing reader) sits in the value after an assignment of the
// same file, or in a later file.

func c03FaultAfterAssign(r *rand.Rand, tier string, emit func(Case)) {
	fields := []string{"class", "out", "file"}
	nt := func(i Resp) bool { return i["class"] == "json" && i["out"] != "-" && i["out"] != "" }
	names := []string{"a.json", "b.json", "c.json", "dir/d.json", "<stdin>", "x y.json", "renamed", "x", "other.json", "é.json", "7", ""}
	for si := 0; si < tierN(tier, 700, 8000); si++ {
		prog := pick(r, c03AssignProgs)
		switch si % 8 {
		case 6:
			prog = pick(r, c03AssignIndexProgs)
		case 7:
			prog = pick(r, c03Programs)
		}
		nf := 1 + r.Intn(3)
		perm := r.Perm(len(names))
		faultAt := r.Intn(nf)
		if chance(r, 0.1) {
			faultAt = -1 // no fault at all: END rules run, class ok
		}
		var files, cleanFiles []File
		var what string
		for f := 0; f < nf; f++ {
			name := names[perm[f]]
			if name == "" && chance(r, 0.7) {
				name = "e.json"
			}
			var data []byte
			for {
				data = c03Stream(r, 1+r.Intn(4), false)
				if _, ok := c03Scan(data); ok {
					break
				}
			}
			fl := File{Name: name, Data: data}
			if f > faultAt && faultAt >= 0 {
				files = append(files, fl) // never read
				continue
			}
			clean := fl
			if f == faultAt {
				switch r.Intn(5) {
				case 0, 1: // truncated inside a value (or between values: then there is no fault)
					k := r.Intn(len(data) + 1)
					fl.Data = append([]byte{}, data[:k]...)
					what = fmt.Sprintf("file %d truncated after %d bytes", f, k)
				case 2:
					fl.Data = c03Corrupt(r, data)
					what = fmt.Sprintf("file %d: one byte corrupted", f)
				case 3:
					fl.Data = append(append([]byte{}, data...), []byte(pick(r, []string{" ]", "}", " x", "\n{\"id\": \n", ",", "[1, 2", "\"open", "tru", "\x00"}))...)
					what = fmt.Sprintf("file %d: stray text after the last value", f)
				default:
					k := r.Intn(len(data) + 1)
					fl.Data, fl.IOErr = append([]byte{}, data[:k]...), true
					what = fmt.Sprintf("file %d: the reader fails after %d bytes", f, k)
					if chance(r, 0.4) {
						fl.DataErr = true
						what += " (in the same Read call as the last bytes)"
					}
				}
				if fl.IOErr {
					clean.Data = c03IOErrPrefix(fl.Data)
				} else {
					ends, _ := c03Scan(fl.Data)
					clean.Data = nil
					if len(ends) > 0 {
						clean.Data = fl.Data[:ends[len(ends)-1]]
					}
				}
			}
			files = append(files, fl)
			cleanFiles = append(cleanFiles, clean)
		}
		// is there a fault after all? (a truncation between values is none)
		wantFile, faulty := "", false
		if faultAt >= 0 {
			_, valid := c03Scan(files[faultAt].Data)
			faulty = !valid || files[faultAt].IOErr
			wantFile = files[faultAt].Name
		}
		g := fmt.Sprintf("assign-%d", si)
		var metaFiles []string
		for f, fl := range files {
			metaFiles = append(metaFiles, fmt.Sprintf("file %d", f), fmt.Sprintf("%q = %q", fl.Name, fl.Data))
		}
		meta := func(extra ...string) map[string]string {
			return metaProg(prog, append(append([]string{}, metaFiles...), extra...)...)
		}
		if faulty {
			emit(Case{ID: g + "/clean", Req: RunReq(prog, nil, cleanFiles, false), Fields: fields, Group: g,
				Meta: meta("role", "clean run on the values complete before the fault (reference of its group)"), NonTrivial: c03NT})
		}
		req := RunReq(prog, nil, files, false)
		c := Case{ID: g + "/fault", Req: req, Fields: fields, Meta: meta("fault", what), NonTrivial: nt,
			Oracle: func(i Resp) string {
				switch i["class"] {
				case "runtime": // a program of the pool that fails on this value: not this family's business
					return ""
				case "ok":
					if faulty {
						return "class ok although " + what
					}
					return ""
				case "json":
					if !faulty {
						return "JSON input error on streams that are valid"
					}
					if got := string(i.Bytes("file")); got != wantFile {
						return fmt.Sprintf("the JSON input error names %q, the faulty input is %q (%s)", got, wantFile, what)
					}
					return ""
				}
				return "unexpected outcome class " + i["class"] + " (" + i["msg"] + ")"
			}}
		if files[faultAt0(faultAt)].DataErr {
			// the model knows no read schedules
			plain := append([]File{}, files...)
			plain[faultAt].DataErr = false
			c.ModelReq = RunReq(prog, nil, plain, false)
		}
		if faulty {
			c.Group = g
			c.GroupCheck = func(first, self Resp) string {
				if first["class"] != "ok" || self["class"] == "runtime" {
					return ""
				}
				return c03PrefixCheck(first, self)
			}
		}
		emit(c)
	}
}

func faultAt0(k int) int {
	if k < 0 {
		return 0
	}
	return k
}

// ---- big-values -----------------------------------------------------------------------
//
// Streams in which one or more top-level values are BIG (around and beyond the sizes at which
// a decoder's buffer grows or a "memory optimisation" might kick in: 4 KiB, 32 KiB, 64 KiB +- 1,
// 100 KiB, 300 KiB, 1 MiB), with small values before and after them. Every value must be
// processed exactly once and in order however the bytes arrive.

const c03BigProg = "function id(v) {\n if (v is object) return v.n\n if (v is array) return v[0]\n if (v is string) return num(v.split(\":\")[0])\n return v\n}\n" +
	"function sz(v) {\n if (v is object) {\n  p = v.pad\n  if (p is string || p is array || p is object) return p.length()\n  return 0\n }\n if (v is array || v is string) return v.length()\n return 0\n}\n" +
	"BEGINFILE { c++; i = id($); s += i * c; print i, sz($) }\n{ recs++ }\nEND { print \"count\", c, \"records\", recs, \"sum\", s }"

// c03Pad returns JSON text of exactly n bytes (n >= 16) of the given kind.
func c03Pad(r *rand.Rand, kind string, n int) string {
	fillStr := func(n int) string { // a JSON string of exactly n >= 2 bytes
		return `"` + strings.Repeat("x", n-2) + `"`
	}
	var sb strings.Builder
	switch kind {
	case "escapes":
		// every escape form and multi-byte text; the rest plain
		sb.WriteString(`"`)
		units := []string{`\n`, `é`, "é", `\"`, `\\`, "日本", `🙂`, "ab c", `\/`, `\t`}
		for sb.Len()+16 < n {
			sb.WriteString(units[r.Intn(len(units))])
		}
		sb.WriteString(strings.Repeat("y", n-1-sb.Len()))
		sb.WriteString(`"`)
	case "array":
		sb.WriteString("[")
		for i := 0; sb.Len()+24 < n; i++ {
			sb.WriteString(strconv.Itoa(i%1000) + ",")
		}
		sb.WriteString(fillStr(n - 1 - sb.Len()))
		sb.WriteString("]")
	case "objects":
		sb.WriteString("[")
		for i := 0; sb.Len()+64 < n; i++ {
			sb.WriteString(fmt.Sprintf(`{"k":%d,"s":"v%d","l":[%d,null,true]},`, i, i%7, i%13))
		}
		sb.WriteString(fillStr(n - 1 - sb.Len()))
		sb.WriteString("]")
	case "deep":
		// an object nested a few hundred levels, a long string at the bottom
		d := 50 + r.Intn(400)
		for d*6+8 > n {
			d /= 2
		}
		sb.WriteString(strings.Repeat(`{"a":`, d))
		sb.WriteString(fillStr(n - 6*d))
		sb.WriteString(strings.Repeat("}", d))
	case "wide":
		// an object with many keys (a few hundred at most: kept small enough for the model) and long values
		sb.WriteString("{")
		k := 20 + r.Intn(200)
		per := n / k
		for i := 0; i < k && sb.Len()+per+40 < n; i++ {
			key := fmt.Sprintf(`"key%d":`, i)
			if per > len(key)+3 {
				sb.WriteString(key + fillStr(per-len(key)-1) + ",")
			}
		}
		sb.WriteString(`"z":`)
		sb.WriteString(fillStr(n - 1 - sb.Len()))
		sb.WriteString("}")
	default: // "string"
		return fillStr(n)
	}
	if sb.Len() != n {
		panic(fmt.Sprintf("c03Pad(%s, %d) made %d bytes", kind, n, sb.Len()))
	}
	return sb.String()
}

// c03BigValue: a top-level value of exactly `size` bytes carrying the id.
func c03BigValue(r *rand.Rand, id, size int, kind string) string {
	switch kind {
	case "top-string":
		pre := fmt.Sprintf(`"%d:`, id)
		return pre + strings.Repeat("s", size-len(pre)-1) + `"`
	case "top-array":
		// the rule driver iterates a top-level array: its elements are the records
		pre := fmt.Sprintf(`[%d,`, id)
		return pre + c03Pad(r, "string", size-len(pre)-1) + "]"
	case "top-array-long":
		pre := fmt.Sprintf(`[%d,`, id)
		body := c03Pad(r, "array", size-len(pre)-1)
		return pre + body[1:len(body)-1] + " ]"
	}
	pre := fmt.Sprintf(`{"n":%d,"pad":`, id)
	return pre + c03Pad(r, kind, size-len(pre)-1) + "}"
}

func c03SmallValue(r *rand.Rand, id int) string {
	switch r.Intn(10) {
	case 0:
		return strconv.Itoa(id)
	case 1:
		return fmt.Sprintf(`[%d, "x"]`, id)
	case 2:
		return fmt.Sprintf(`"%d:small"`, id)
	case 3:
		return fmt.Sprintf(`{"n": %d, "pad": [1, 2, 3]}`, id)
	default:
		return fmt.Sprintf(`{"n":%d}`, id)
	}
}

// c03BigLines: the lines the BEGINFILE rule of c03BigProg prints for the values, and the END line.
func c03BigLines(vals []string) (lines []string, end string) {
	c, recs, sum := 0, 0, 0
	for _, v := range vals {
		var x interface{}
		if err := json.Unmarshal([]byte(v), &x); err != nil {
			panic("c03BigLines: generated value is not JSON: " + err.Error())
		}
		id, sz, nrec := 0, 0, 1
		length := func(p interface{}) int {
			switch q := p.(type) {
			case string:
				return len(q)
			case []interface{}:
				return len(q)
			case map[string]interface{}:
				return len(q)
			}
			return 0
		}
		switch t := x.(type) {
		case map[string]interface{}:
			id = int(t["n"].(float64))
			sz = length(t["pad"])
		case []interface{}:
			id, sz, nrec = int(t[0].(float64)), len(t), len(t)
		case string:
			id, _ = strconv.Atoi(strings.SplitN(t, ":", 2)[0])
			sz = len(t)
		case float64:
			id = int(t)
		}
		c++
		recs += nrec
		sum += id * c
		lines = append(lines, fmt.Sprintf("%d %d\n", id, sz))
	}
	return lines, fmt.Sprintf("count %d records %d sum %d\n", c, recs, sum)
}

func c03BigValues(r *rand.Rand, tier string, emit func(Case)) {
	fields := []string{"class", "out", "file"}
	sizes := []int{61440, 65535, 65536, 65537, 66560, 102400, 307200, 4095, 4097, 8193, 16385, 32767, 32768, 32769, 131071, 131073, 262145, 70000, 1000}
	kinds := []string{"string", "array", "deep", "escapes", "objects", "wide", "top-string", "top-array", "top-array-long"}
	rounds := 1
	if tier == "thorough" {
		sizes = append(sizes, 524289, 1<<20+1, 3<<20)
		rounds = 8
	}
	haveBin := os.Getenv("JQAWK_BIN") != ""
	si := 0
	for round := 0; round < rounds; round++ {
		for zi, size := range sizes {
			si++
			kind := kinds[(zi+round*4+si/len(sizes))%len(kinds)]
			if round > 0 {
				kind = pick(r, kinds)
			}
			if kind == "wide" && size > 150000 {
				kind = "objects"
			}
			// layout: small values, the big one(s), small values
			layout := []string{"start", "middle", "end", "middle", "two", "adjacent", "middle"}[(zi+round)%7]
			nBefore, nAfter := 1+r.Intn(30), 1+r.Intn(60)
			switch layout {
			case "start":
				nBefore = 0
			case "end":
				nAfter = 0
			}
			var vals []string
			var bigIdx []int
			id := 0
			small := func(n int) {
				for j := 0; j < n; j++ {
					id++
					vals = append(vals, c03SmallValue(r, id))
				}
			}
			big := func(sz int, k string) {
				id++
				bigIdx = append(bigIdx, len(vals))
				vals = append(vals, c03BigValue(r, id, sz, k))
			}
			small(nBefore)
			big(size, kind)
			switch layout {
			case "two":
				small(1 + r.Intn(20))
				big(pick(r, sizes[:7]), pick(r, kinds))
			case "adjacent":
				big(pick(r, sizes[:7]), pick(r, kinds[:6]))
				if chance(r, 0.5) {
					big(size, "string")
				}
			}
			small(nAfter)
			// the byte stream; offsets of the ends of the values
			var sb strings.Builder
			ends := make([]int, len(vals))
			sepPool := []string{"\n", "\n", " ", "", "\r\n", "  \n\t", "\n\n"}
			sepStyle := r.Intn(3) // 0: newline always, 1: mixed, 2: nothing where legal
			for k, v := range vals {
				if k > 0 {
					sep := "\n"
					switch sepStyle {
					case 1:
						sep = pick(r, sepPool)
					case 2:
						sep = ""
					}
					if sep == "" && !c03SepLegal(vals[k-1], v) {
						sep = " "
					}
					sb.WriteString(sep)
				}
				sb.WriteString(v)
				ends[k] = sb.Len()
			}
			if chance(r, 0.5) {
				sb.WriteString("\n")
			}
			data := []byte(sb.String())
			lines, endLine := c03BigLines(vals)
			want := strings.Join(lines, "") + endLine
			name := "stream.data"
			g := fmt.Sprintf("big-%d", si)
			desc := fmt.Sprintf("%d values, %d bytes; big value(s) of kind %s, %d bytes, at index %v (layout %s), ends at byte %d", len(vals), len(data), kind, size, bigIdx, layout, ends[bigIdx[0]])
			meta := func(how string) map[string]string {
				return map[string]string{"program": c03BigProg, "stream": desc, "delivery": how, "expected output": short(want)}
			}
			oracle := func(i Resp) string {
				if i["class"] != "ok" {
					return "a valid stream: class " + i["class"] + " " + i["msg"] + " file=" + string(i.Bytes("file"))
				}
				if got := string(i.Bytes("out")); got != want {
					gl := strings.SplitAfter(got, "\n")
					k := 0
					for k < len(gl) && k < len(lines) && gl[k] == lines[k] {
						k++
					}
					return fmt.Sprintf("every value must be processed once, in order: %d values; the output differs from line %d on; it ends with %q, expected %q", len(vals), k+1, short(lastLine(got)), endLine)
				}
				return ""
			}
			wholeReq := RunReq(c03BigProg, nil, []File{{Name: name, Data: data}}, false)
			emit(Case{ID: g + "/whole", Req: wholeReq, Fields: fields, Group: g, GroupFields: fields, Meta: meta("as much as the decoder asks for per Read"), Oracle: oracle})
			E := ends[bigIdx[len(bigIdx)-1]] // end of the last big value
			E0 := ends[bigIdx[0]]
			type sched struct {
				how     string
				ch      []int
				exact   bool
				dataErr bool
			}
			rep := func(c, total int) []int {
				var ch []int
				for s := 0; s < total; s += c {
					ch = append(ch, c)
				}
				return ch
			}
			around := func(e, before, n int) []int {
				b := e - before
				if b < 1 {
					b = 1
				}
				ch := []int{b}
				for j := 0; j < n; j++ {
					ch = append(ch, 1)
				}
				return append(ch, len(data))
			}
			randBursts := func() []int {
				var ch []int
				max := pick(r, []int{700, 5000, 40000, 70000, 200000})
				for s := 0; s < len(data); {
					k := 1 + r.Intn(max)
					ch = append(ch, k)
					s += k
				}
				return ch
			}
			scheds := []sched{
				{"everything and io.EOF in one Read call", nil, false, true},
				{"bursts of 4 KiB", rep(4096, len(data)), true, false},
				{"bursts of 64 KiB", rep(65536, len(data)), true, false},
				{"bursts of 512 bytes", rep(512, len(data)), true, false},
				{"random bursts", randBursts(), true, false},
				{"random bursts, the last one together with io.EOF", randBursts(), true, true},
				{"one byte per read from 40 bytes before the end of the big value to 60 bytes after it", around(E, 40, 100), true, false},
				{"a burst that ends exactly at the end of the big value", []int{E0, len(data)}, true, false},
				{"a burst that ends one byte after the big value", []int{E0 + 1, len(data)}, true, false},
				{"a burst that ends one byte before the end of the big value", []int{E0 - 1, len(data)}, true, false},
				{"a burst that ends a few values after the big value", []int{E + 1 + r.Intn(200), len(data)}, true, false},
				{"reads of at most 4096 bytes (cut to the decoder's buffer)", rep(4096, len(data)), false, false},
				{"one byte per read around the end of the FIRST big value, empty reads in between", c03Zeros(r, around(E0, 8, 40)), true, false},
			}
			for j, sc := range scheds {
				f := File{Name: name, Data: data, Chunks: sc.ch, Exact: sc.exact, DataErr: sc.dataErr}
				emit(Case{ID: fmt.Sprintf("%s/%d", g, j), Req: RunReq(c03BigProg, nil, []File{f}, false), Group: g, GroupFields: fields, ImplOnly: true,
					Meta: meta(sc.how), Oracle: oracle})
			}
			// a second file after the one with the big value
			if si%3 == 0 {
				second := []byte("{\"n\":1000}\n[2000]\n")
				l2, e2 := c03BigLines(append(append([]string{}, vals...), `{"n":1000}`, `[2000]`))
				want2 := strings.Join(l2, "") + e2
				emit(Case{ID: g + "/two-files", Req: RunReq(c03BigProg, nil, []File{{Name: name, Data: data}, {Name: "second.data", Data: second}}, false), Fields: fields,
					Meta: meta("followed by a second, small file"), Oracle: func(i Resp) string {
						if i["class"] != "ok" || string(i.Bytes("out")) != want2 {
							return fmt.Sprintf("two files: class %s, output ends with %q, expected %q", i["class"], short(lastLine(string(i.Bytes("out")))), e2)
						}
						return ""
					}})
			}
			// the stream cut inside the value after the last big one / stray text after it: a JSON error
			// naming the file, after the complete values
			if si%2 == 0 && bigIdx[len(bigIdx)-1]+1 < len(vals) {
				k := bigIdx[len(bigIdx)-1] + 1 + r.Intn(len(vals)-bigIdx[len(bigIdx)-1]-1)
				cutData := append([]byte{}, data[:ends[k]]...)
				cutData = append(cutData, []byte(pick(r, []string{" {\"n\": ", " ]", " [1, 2", " \"open", " nul"}))...)
				wantCut := strings.Join(lines[:k+1], "")
				for _, dl := range []struct {
					how string
					f   File
				}{{"whole", File{Name: name, Data: cutData}}, {"bursts of 4 KiB", File{Name: name, Data: cutData, Chunks: rep(4096, len(cutData)), Exact: true}}} {
					c := Case{ID: g + "/fault-" + dl.how, Req: RunReq(c03BigProg, nil, []File{dl.f}, false), Fields: fields, Meta: meta("faulty text after value " + strconv.Itoa(k) + ", " + dl.how),
						NonTrivial: c03NT, Oracle: func(i Resp) string {
							if i["class"] != "json" || string(i.Bytes("file")) != name {
								return fmt.Sprintf("faulty text after value %d: class %s file %q, expected a JSON input error naming %q", k, i["class"], i.Bytes("file"), name)
							}
							if got := string(i.Bytes("out")); got != wantCut {
								return fmt.Sprintf("faulty text after value %d: the output must be that of the %d complete values; it ends with %q", k, k+1, short(lastLine(got)))
							}
							return ""
						}}
					if dl.f.Exact {
						c.ModelReq = RunReq(c03BigProg, nil, []File{{Name: name, Data: cutData}}, false)
					}
					emit(c)
				}
			}
			// the real binary: a named file, stdin (a pipe the harness writes without pausing)
			if haveBin && (tier == "thorough" || si%2 == 1 || zi < 7) {
				cliOracle := func(i Resp) string {
					if w := c04CliBasic(i); w != "" {
						return w
					}
					if i["exit"] != "0" || i["errlen"] != "0" {
						return "the binary fails on a valid stream: exit " + i["exit"] + " " + short(string(i.Bytes("stderr")))
					}
					return oracle(Resp{"class": "ok", "out": i["out"]})
				}
				cliFields := []string{"exit", "out", "err"}
				nt := func(i Resp) bool { return i["exit"] == "0" && i["out"] != "-" }
				emit(Case{ID: g + "/binary-file", Req: CliReq([]string{c03BigProg, name}, nil, false, []CliFile{{Name: name, Data: data}}, ""), Fields: cliFields,
					Meta: meta("the real binary, the stream in a named file"), Oracle: cliOracle, NonTrivial: nt})
				emit(Case{ID: g + "/binary-stdin", Req: CliReq([]string{c03BigProg}, data, true, nil, ""), Fields: cliFields,
					Meta: meta("the real binary, the stream on stdin (a pipe)"), Oracle: cliOracle, NonTrivial: nt})
			}
		}
	}
}

func lastLine(s string) string {
	s = strings.TrimSuffix(s, "\n")
	return s[strings.LastIndexByte(s, '\n')+1:]
}

func init() {
	register(Family{
		Name: "fault-after-assign", Prop: "C03",
		Rule: "one to three input files (names that look like values a program might store: \"renamed\", \"x\", \"7\", \"<stdin>\", the empty name) and programs that ASSIGN $file, $ and $index -- in BEGINFILE, pattern and ENDFILE rules, in a pattern, through a function, with strings, numbers, null, arrays, objects, compound assignment and ++ -- with a fault (truncation at a random byte, single-byte corruption, stray text after the last value, a reader that fails after a random prefix, also in the same Read call as the last bytes) in the value AFTER the assignments of the same file or in a later file; compared with the model on class, out, file; oracle: a JSON input error that names the real input file, ok only if Go's decoder accepts every stream; Group: the output equals that of the clean run on the values complete before the fault",
		Gen:  c03FaultAfterAssign,
	})
	register(Family{
		Name: "big-values", Prop: "C03",
		Rule: "streams of 2-90 top-level values of which one to three are BIG -- exactly 1000, 4095, 4097, 8193, 16385, 32767/8/9, 60 KiB, 65535/6/7, 65 KiB, 70000, 100 KiB, 131071/3, 262145, 300 KiB bytes (thorough: also 512 KiB+1, 1 MiB+1, 3 MiB): objects with a long string / a string full of escapes and multi-byte text / a long array of numbers / an array of small objects / an object nested some hundred levels / an object with many keys, top-level long strings and top-level long arrays -- at the start, in the middle, at the end, two of them, two or three adjacent, separated by newlines, mixed white space or nothing; delivered as much as the decoder asks for (compared with the model; reference of the Group), everything with io.EOF in one call, in bursts of 512 B / 4 KiB / 64 KiB / random sizes (bursts are exact arrival boundaries), one byte per read around the end of the big value, a burst ending exactly at / one byte before / one byte after / a few values after the end of the big value, with empty reads; followed by a second file; cut or corrupted after a value that follows the big one (JSON error naming the file after the complete values); and through the REAL BINARY from a named file and from a stdin pipe (compared with the model of the wrapper). Closed-form oracle: BEGINFILE prints id and size of every top-level value, END the count, the number of records and an order-sensitive checksum: every value exactly once, in order",
		Gen:  c03BigValues,
	})
}

// ---- program-shapes -----------------------------------------------------------------------
//
// A fault in the input is reported whatever the program looks like: programs without any rule
// that looks at the input (only BEGIN rules, only END rules, only functions, nothing at all,
// only a pattern that is never true) still decode every input, and the run fails on a
// malformed / truncated / unreadable one. The only legitimate way not to reach a fault is an
// `exit` executed before the faulty value is decoded.

type c03Shape struct {
	kind string
	prog string
	// exitAt: the run ends by `exit` — 0 = in a BEGIN rule (no input is decoded at all),
	// k > 0 = while the k-th top-level value (counted over all files) is processed; -1 = never
	exitAt int
}

var c03Shapes = []c03Shape{
	{"begin-only", `BEGIN { print "start" }`, -1},
	{"begin-only", "BEGIN { x = 1 }\nBEGIN { print \"start\", x }", -1},
	{"begin-only", `BEGIN { }`, -1},
	{"begin-only", "BEGIN { for (i = 0; i < 3; i++) print \"start\", i }", -1},
	{"begin+functions", "function f(a) { print \"start\", a }\nBEGIN { f(1) }", -1},
	{"begin+functions", "BEGIN { print g(2) }\nfunction g(a) { return a * 2 }", -1},
	{"end-only", `END { print "END", 1 }`, -1},
	{"end-only", "END { print \"END\", 1 }\nEND { print \"END\", 2 }", -1},
	{"begin+end", "BEGIN { print \"start\" }\nEND { print \"END\", 1 }", -1},
	{"functions-only", `function f(a) { return a }`, -1},
	{"functions-only", "function f(a) { print a }\nfunction g() { exit }", -1},
	{"empty", ``, -1},
	{"empty", " \n", -1},
	{"empty", "# nothing here\n", -1},
	{"beginfile-only", `BEGINFILE { print "B", $file }`, -1},
	{"beginfile-only", `BEGINFILE { n++ }`, -1},
	{"endfile-only", `ENDFILE { print "E", $file }`, -1},
	{"endfile-only", `ENDFILE { }`, -1},
	{"false-pattern", `false { print "never" }`, -1},
	{"false-pattern", `1 == 2 { print "never" }`, -1},
	{"false-pattern", `0`, -1},
	{"false-pattern", `"" { print "never" }`, -1},
	{"false-pattern", `null`, -1},
	{"false-pattern", "BEGIN { print \"start\" }\nfalse", -1},
	{"pattern", `{ print "v", $ }`, -1},
	{"exit-in-begin", `BEGIN { exit }`, 0},
	{"exit-in-begin", `BEGIN { print "start"; exit }`, 0},
	{"exit-in-begin", "BEGIN { if (1) exit\n print \"unreachable\" }", 0},
	{"exit-in-begin", "function q() { exit }\nBEGIN { q() }", 0},
	{"exit-in-begin", "BEGIN { exit }\nEND { print \"END\", 1 }", 0},
	{"exit-in-begin", "BEGIN { print \"start\" }\nBEGIN { exit }\n{ print \"v\", $ }", 0},
	{"exit-at-value", `BEGINFILE { exit }`, 1},
	{"exit-at-value", `BEGINFILE { print "B"; if (++n == 2) exit }`, 2},
	{"exit-at-value", `ENDFILE { print "E"; if (++n == 3) exit }`, 3},
	{"exit-at-value", "BEGIN { print \"start\" }\nBEGINFILE { n++ }\nENDFILE { if (n == 2) exit }\nEND { print \"END\", n }", 2},
}

// c03ShapeInput: 1-3 files, one of them faulty (or none); returns the files, the index of
// the faulty file (-1: none), the files of the reference run (everything complete before the
// fault) and how many top-level values are complete before the fault.
func c03ShapeInput(r *rand.Rand) (files []File, faulty int, ref []File, complete int, what string) {
	names := []string{"a.json", "b.json", "c.json"}
	nf := pick(r, []int{1, 1, 1, 2, 2, 3})
	faulty = r.Intn(nf)
	if chance(r, 0.12) {
		faulty = -1
	}
	for f := 0; f < nf; f++ {
		var data []byte
		for {
			data = c03Stream(r, r.Intn(4), false)
			if _, ok := c03Scan(data); ok && len(data) <= 60 {
				break
			}
		}
		fl := File{Name: names[f], Data: data}
		if f != faulty {
			files = append(files, fl)
			continue
		}
		switch k := r.Intn(10); {
		case k < 3: // stray text / corruption
			bad := data
			for tries := 0; ; tries++ {
				if len(data) == 0 {
					bad = []byte(pick(r, []string{"]", " x", "}", ","}))
					break
				}
				bad = c03Corrupt(r, data)
				if _, ok := c03Scan(bad); !ok {
					break
				}
				if tries > 20 {
					bad = append(append([]byte{}, data...), " ] "...)
					break
				}
			}
			fl.Data, what = bad, "corrupted"
		case k < 5:
			fl.Data, what = []byte(pick(r, c03ShortStreams[:36])), "from the pool of short streams"
			if _, ok := c03Scan(fl.Data); ok {
				fl.Data = append(append([]byte{}, fl.Data...), pick(r, []string{" x", "]", " nul", "\"", "\xef\xbb\xbf"})...)
			}
		case k < 7: // truncated inside a value
			whole := append(append([]byte{}, data...), pick(r, []string{`{"a": [1, 2, {"b": "text"}]}`, `[1, [2, [3]], "abc"]`, `"a string"`, `tru`, `-`})...)
			cut := len(data) + 1 + r.Intn(len(whole)-len(data))
			if cut > len(whole) {
				cut = len(whole)
			}
			fl.Data, what = whole[:cut], "truncated"
			if _, ok := c03Scan(fl.Data); ok {
				fl.Data = append(fl.Data, '[')
			}
		case k < 8: // unreadable from the first byte (what a directory is for the binary)
			fl.Data, fl.IOErr, what = nil, true, "unreadable"
		default: // the reader fails after some bytes
			fl.Data, fl.IOErr, what = data[:r.Intn(len(data)+1)], true, "read error after some bytes"
			if chance(r, 0.3) {
				fl.DataErr = true
			}
		}
		files = append(files, fl)
	}
	if faulty < 0 {
		what = "no fault"
		ref = files
		for _, f := range files {
			ends, _ := c03Scan(f.Data)
			complete += len(ends)
		}
		return
	}
	for f := 0; f < faulty; f++ {
		ends, _ := c03Scan(files[f].Data)
		complete += len(ends)
		ref = append(ref, files[f])
	}
	var prefix []byte
	if files[faulty].IOErr {
		prefix = c03IOErrPrefix(files[faulty].Data)
	} else if ends, _ := c03Scan(files[faulty].Data); len(ends) > 0 {
		prefix = files[faulty].Data[:ends[len(ends)-1]]
	}
	ends, _ := c03Scan(prefix)
	complete += len(ends)
	ref = append(ref, File{Name: files[faulty].Name, Data: prefix})
	return
}

func c03ShapeFilesMeta(files []File) string {
	var sb strings.Builder
	for _, f := range files {
		fmt.Fprintf(&sb, "%s=%q", f.Name, f.Data)
		if f.IOErr {
			sb.WriteString("+read error")
		}
		sb.WriteString(" ")
	}
	return sb.String()
}

func c03ProgramShapes(r *rand.Rand, tier string, emit func(Case)) {
	fields := []string{"class", "out", "file"}
	nt := func(i Resp) bool { return i["class"] == "json" || (i["out"] != "-" && i["out"] != "") }
	n := tierN(tier, 40, 500)
	gid := 0
	for round := 0; round < n; round++ {
		for _, sh := range c03Shapes {
			sh := sh
			files, faulty, ref, complete, what := c03ShapeInput(r)
			gid++
			g := fmt.Sprintf("shape-%d", gid)
			reached := faulty >= 0 && (sh.exitAt < 0 || complete < sh.exitAt)
			faultyName := ""
			if faulty >= 0 {
				faultyName = files[faulty].Name
			}
			meta := metaProg(sh.prog, "shape", sh.kind, "files", c03ShapeFilesMeta(files), "fault", what, "complete values before the fault", strconv.Itoa(complete),
				"row", sh.kind, "col", what)
			emit(Case{ID: g + "/reference", Req: RunReq(sh.prog, nil, ref, false), Fields: fields, Group: g, NonTrivial: nt,
				Meta: metaProg(sh.prog, "shape", sh.kind, "files", c03ShapeFilesMeta(ref), "role", "clean run on everything complete before the fault (reference of its group)"),
				Oracle: func(i Resp) string {
					if i["class"] != "ok" {
						return "clean inputs, outcome " + i["class"] + " " + i["msg"]
					}
					return ""
				}})
			c := Case{ID: g + "/fault", Req: RunReq(sh.prog, nil, files, false), Fields: fields, Group: g, Meta: meta, NonTrivial: nt,
				Oracle: func(i Resp) string {
					switch {
					case reached && i["class"] == "ok":
						return fmt.Sprintf("the input has a fault (%s, file %s) that no exit keeps the run from reaching, but the run succeeds: the fault is not reported", what, faultyName)
					case reached && i["class"] != "json":
						return "faulty input, outcome " + i["class"] + " " + i["msg"] + " instead of a JSON input error"
					case reached && string(i.Bytes("file")) != faultyName:
						return fmt.Sprintf("JSON error names file %q, expected %q", i.Bytes("file"), faultyName)
					case !reached && i["class"] != "ok":
						return "no fault before the end of the run (clean input, or exit comes first), outcome " + i["class"] + " " + i["msg"]
					}
					return ""
				},
				GroupCheck: func(first, self Resp) string {
					if self["class"] == "ok" {
						if !reached && sh.exitAt >= 0 && complete >= sh.exitAt && string(self.Bytes("out")) != string(first.Bytes("out")) {
							return fmt.Sprintf("the run exits before the fault: output %q, the run on the clean part prints %q", self.Bytes("out"), first.Bytes("out"))
						}
						return ""
					}
					return c03PrefixCheck(first, self)
				}}
			hasSched := false
			for _, f := range files {
				if f.DataErr {
					hasSched = true
				}
			}
			if hasSched {
				plain := make([]File, len(files))
				copy(plain, files)
				for k := range plain {
					plain[k].DataErr = false
				}
				c.ModelReq = RunReq(sh.prog, nil, plain, false)
			}
			emit(c)
			// the same through the real binary (a directory stands for the unreadable file)
			if os.Getenv("JQAWK_BIN") != "" && !hasSched && chance(r, 0.25) {
				okCli := true
				var disk []CliFile
				argv := []string{sh.prog}
				for _, f := range files {
					switch {
					case f.IOErr && len(f.Data) == 0:
						disk = append(disk, CliFile{Name: f.Name, Dir: true})
					case f.IOErr:
						okCli = false
					default:
						disk = append(disk, CliFile{Name: f.Name, Data: f.Data})
					}
					argv = append(argv, f.Name)
				}
				if okCli {
					nIn := len(files)
					emit(Case{ID: g + "/binary", Req: CliReq(argv, nil, false, disk, ""), Fields: c14CliFields, Group: g, Meta: meta,
						NonTrivial: c14NT,
						Oracle: func(i Resp) string {
							if w := c14Basic(i); w != "" {
								return w
							}
							if i["exit"] == "" {
								return ""
							}
							if reached && i["exit"] == "0" {
								return fmt.Sprintf("the binary exits with status 0 although input %s is faulty (%s) and no exit comes first", faultyName, what)
							}
							if reached && !strings.Contains(string(i.Bytes("stderr")), faultyName) {
								return fmt.Sprintf("the diagnostic %q does not name the faulty input %s", i.Bytes("stderr"), faultyName)
							}
							if !reached && i["exit"] != "0" {
								return "no fault before the end of the run, exit status " + i["exit"] + ": " + short(string(i.Bytes("stderr")))
							}
							return ""
						},
						GroupCheck: func(first, self Resp) string {
							if self["exit"] == "" {
								return ""
							}
							if self["exit"] == "0" {
								return c14CliVsLib(self, first, "", nIn)
							}
							return c03PrefixCheck(first, Resp{"class": "json", "out": self["out"]})
						}})
				}
			}
		}
	}
}

func init() {
	register(Family{
		Name: "program-shapes", Prop: "C03",
		Rule: "program SHAPES that never look at a value — only BEGIN rules (also with functions), only END rules, BEGIN and END, only functions, the empty program (blank, a comment), only BEGINFILE, only ENDFILE, only a pattern that is never true (false, 1 == 2, 0, \"\", null, body-less) — plus programs that leave by exit in a BEGIN rule (directly, in an if, through a function, with END rules present) or while the 1st/2nd/3rd value is processed, over 1-3 files of which the first / a middle / the last (or none) is faulty: corrupted, stray text, truncated inside a value, unreadable from the first byte, read error after some bytes (also in the same Read call as the last bytes); a quarter also through the REAL BINARY (a directory as the unreadable input). Compared with the model on class, out, file; oracle: the fault is reported (JSON error naming the faulty file, binary: exit status != 0 and the name in the diagnostic) UNLESS the run ended by exit before the faulty value was reached, counted with Go's own decoder; Group: the output equals that of the clean run on everything complete before the fault (minus END rules); matrix shape x fault",
		Gen:  c03ProgramShapes,
	})
}

// ---- selector-side-effects ------------------------------------------------------------------
//
// A stream is processed value by value, each value independently: a -r selector is evaluated
// by a fresh nested evaluator for every value and every selector, so variables a selector
// assigns (`$[n++]`, `x = x + 1`, `seen.push($.id)` on an unset `seen`) start unset every time.
// The output for value k under selector s therefore equals the output of a run on value k alone
// with selector s alone.

// selectors with side effects on their own variables
var c03SideSels = []string{
	"$[n++]", "$[++n]", "$.list[n++]", "[n++, $.id]", "[$.id, n = n + 1]", "[x = x + 1, x = x + 1]", "$[i += 1]",
	"{k: c++, v: $.id}", "[cnt, cnt = 5, cnt]", "[seen.push($.id), seen]", "[seen.push($.id), seen.length()]", "[seen.length(), seen.push(1), seen.length()]",
	"match (c++) { 0 => $, _ => \"again\" }", "match (n++) { 0 => [$.id], _ => { next } }", "match (n++) { 0, 1 => $.list, _ => { exit } }",
	"[o.k = $.id, o]", "[a[0] = $.id, a]", "match (first is unknown) { true => first = $.id, _ => [\"kept\", first] }",
	"[t = t + \"x\", $.id]", "[n--, n--, n]", "$.list[k++] + $.list[k++]", "[done = !done, done]",
	"[printf(\"sel\\n\"), m++, $.id]", "[$, y++][0]", "last = $", "[prev, prev = $.id]",
	"match (seen is unknown) { true => seen = [$.id], _ => seen.push($.id) }", "[q = [q, $.id], q.length()]",
	// and a few without side effects
	"$", "$.list", "[$.id]", "$.id",
}

// programs whose rules keep no state between roots: the output of a stream is the
// concatenation of the outputs of its roots
var c03SideProgs = []string{
	`{ print "v", $ }`,
	// ($index is not printed: on a root that is not an array it keeps the value the last array left)
	"BEGINFILE { print \"B\", $file, $ } { print \"v\", $ } ENDFILE { print \"E\", $ }",
	`$ is number`,
	"BEGINFILE { print \"B\" }\n$ is number { print \"num\", $ * 2 }\n$ is string { print \"str\", $ }\nENDFILE { print \"E\", $ }",
	"BEGINFILE { n = 100; x = 7; seen = [0] }\n{ print \"v\", $, n, x, seen }",
	"{ print \"v\", $, n, c, seen is unknown }",
}

func c03SideValue(r *rand.Rand, id int) string {
	nl := 1 + r.Intn(4)
	list := make([]string, nl)
	for j := range list {
		list[j] = strconv.Itoa(id*10 + j)
	}
	switch r.Intn(4) {
	case 0: // an array of records
		parts := make([]string, 2+r.Intn(3))
		for j := range parts {
			parts[j] = fmt.Sprintf(`{"id": %d, "j": %d}`, id, j)
		}
		return "[" + strings.Join(parts, ", ") + "]"
	case 1: // an array of numbers
		return "[" + strings.Join(list, ",") + "]"
	default:
		return fmt.Sprintf(`{"id": %d, "list": [%s]}`, id, strings.Join(list, ", "))
	}
}

func c03SelectorSideEffects(r *rand.Rand, tier string, emit func(Case)) {
	fields := []string{"class", "out", "file"}
	n := tierN(tier, 600, 8000)
	for i := 0; i < n; i++ {
		prog := pick(r, c03SideProgs)
		nv := 2 + r.Intn(5)
		vals := make([]string, nv)
		for k := range vals {
			vals[k] = c03SideValue(r, k+1)
		}
		ns := pick(r, []int{1, 1, 1, 2, 2, 3})
		sels := make([]string, ns)
		for k := range sels {
			sels[k] = pick(r, c03SideSels)
		}
		if ns >= 2 && chance(r, 0.3) {
			sels[1] = sels[0] // the same selector twice: each has its own variables
		}
		// one file holding all values, or the values spread over two files
		var files []File
		sep := pick(r, []string{"\n", " ", "\n\n"})
		cut := nv
		if nv >= 3 && chance(r, 0.3) {
			cut = 1 + r.Intn(nv-1)
			files = []File{{Name: "a.jsonl", Data: []byte(strings.Join(vals[:cut], sep))}, {Name: "b.jsonl", Data: []byte(strings.Join(vals[cut:], sep) + "\n")}}
		} else {
			files = []File{{Name: "a.jsonl", Data: []byte(strings.Join(vals, sep))}}
		}
		// what the values print one at a time: value k alone under all the selectors (computed
		// with the implementation itself on ONE value). A marker END rule tells whether the run
		// on that value ended by exit (in a selector): then nothing follows
		const endMark = "<<end of the run>>\n"
		markProg := prog + "\nEND { print \"<<end of the run>>\" }"
		var want, wantBySel strings.Builder
		wantClass := "ok"
		bySel := true // also: each selector alone, where no selector fails, prints or leaves
		for _, s := range sels {
			if strings.Contains(s, "printf") || strings.Contains(s, "exit") || strings.Contains(s, "next") {
				bySel = false
			}
		}
		for k, v := range vals {
			name := files[0].Name
			if k >= cut {
				name = files[1].Name
			}
			one := ParseResp(implAnswer(RunReq(markProg, sels, []File{{Name: name, Data: []byte(v)}}, false)))
			out := string(one.Bytes("out"))
			want.WriteString(strings.TrimSuffix(out, endMark))
			if one["class"] != "ok" {
				wantClass = one["class"]
				bySel = false
				break
			}
			if !strings.HasSuffix(out, endMark) {
				break // left by exit
			}
			for _, s := range sels {
				if !bySel {
					break
				}
				single := ParseResp(implAnswer(RunReq(prog, []string{s}, []File{{Name: name, Data: []byte(v)}}, false)))
				wantBySel.Write(single.Bytes("out"))
				if single["class"] != "ok" {
					bySel = false
				}
			}
		}
		if bySel && wantBySel.String() != want.String() {
			got, alone := want.String(), wantBySel.String()
			emit(Case{Req: RunReq(prog, sels, files, false), ImplOnly: true,
				Meta: metaProg(prog, "selectors", strings.Join(sels, " | "), "files", c03ShapeFilesMeta(files)),
				Oracle: func(Resp) string {
					return fmt.Sprintf("the values one at a time under all selectors print %q, under each selector alone %q: a selector's variables are seen by another selector", got, alone)
				}})
		}
		expOut, expClass := want.String(), wantClass
		emit(Case{Req: RunReq(prog, sels, files, false), Fields: fields,
			Meta: metaProg(prog, "selectors", strings.Join(sels, " | "), "files", c03ShapeFilesMeta(files), "expected (roots one at a time)", expClass+" "+strconv.Quote(expOut)),
			Oracle: func(i Resp) string {
				switch i["class"] {
				case "ok", "runtime":
				default:
					return "outcome class " + i["class"] + " " + i["msg"]
				}
				if i["class"] != expClass {
					return fmt.Sprintf("class %s; the values processed one after another, each alone, give %s", i["class"], expClass)
				}
				if got := string(i.Bytes("out")); got != expOut {
					return fmt.Sprintf("the stream prints %q; its values processed one at a time (each value alone) print %q: a selector's variables survived from one value to the next", got, expOut)
				}
				return ""
			}})
	}
}

func init() {
	register(Family{
		Name: "selector-side-effects", Prop: "C03",
		Rule: "streams of 2-6 values (records with an id and a list, arrays of records, arrays of numbers; one file or spread over two) under 1-3 -r selectors WITH SIDE EFFECTS on their own variables — $[n++], $[++n], x = x + 1 twice, i += 1, c++ in an object literal, seen.push($.id) on an unset seen, assignments to members / elements of unset variables, match (n++) with next / exit arms, a printf inside the selector, prev = $.id — also the same selector twice, and rule programs that keep no state between roots (two of them use the selector's variable names themselves); compared with the model (a fresh nested evaluator per value and selector) on class, out, file; oracle: the output equals the concatenation of the outputs of runs on each value ALONE (up to the first failure / exit), and, where no selector fails, prints or leaves, of runs on each value alone under each selector ALONE",
		Gen:  c03SelectorSideEffects,
	})
}

// ---- every-byte-corruption --------------------------------------------------------------
//
// A valid stream with ONE byte corrupted, the corrupting byte running over EVERY value
// 0x00-0x1f and 0x7f-0xff (and, in the thorough tier, the printable ones too), replaced or
// inserted in every position class: inside a string, inside an escape sequence, on a quote,
// inside a number, inside a literal, in the white space between top-level values, in the white
// space / punctuation inside a composite, before the first and after the last value. The JSON
// grammar decides most of them without any decoder: outside a string every such byte except
// tab, line feed and carriage return is an error; inside a string every byte below 0x20 is.

// c03ByteClasses classifies each byte of a VALID stream: S string body, E escape sequence, Q quote,
// N number, L literal, W white space between top-level values, w white space inside a composite,
// P punctuation; and says for every insertion point 0..len whether it lies inside a string.
func c03ByteClasses(data []byte) (cls []byte, inStr []bool, depthAt []int) {
	cls = make([]byte, len(data))
	inStr = make([]bool, len(data)+1)
	depthAt = make([]int, len(data)+1)
	depth := 0
	str, esc := false, 0
	for k, c := range data {
		inStr[k] = str
		depthAt[k] = depth
		switch {
		case str && esc > 0:
			cls[k] = 'E'
			esc--
			if esc == 0 && c == 'u' {
				esc = 4
			}
		case str && c == '\\':
			cls[k] = 'E'
			esc = 1
		case str && c == '"':
			cls[k] = 'Q'
			str = false
		case str:
			cls[k] = 'S'
		case c == '"':
			cls[k] = 'Q'
			str = true
		case c == '[' || c == '{':
			cls[k] = 'P'
			depth++
		case c == ']' || c == '}':
			cls[k] = 'P'
			depth--
		case c == ',' || c == ':':
			cls[k] = 'P'
		case c == ' ' || c == '\t' || c == '\n' || c == '\r':
			cls[k] = 'W'
			if depth > 0 {
				cls[k] = 'w'
			}
		case c == '-' || c == '+' || c == '.' || c == 'e' && k > 0 && cls[k-1] == 'N' || c == 'E' || c >= '0' && c <= '9':
			cls[k] = 'N'
		default:
			cls[k] = 'L'
		}
	}
	inStr[len(data)] = str
	depthAt[len(data)] = depth
	return
}

var c03ByteBases = []string{
	"{\"name\":\"alice\"}\n{\"name\":\"bobby\"}\n",
	"7\n12045\n9\n",
	"[true, false, null] \"str\" -1.5e+3 ",
	" [1, {\"k\": [2, \"x\\ny\\u00e9\"]}]  \"é日\" 30",
	"\"a\"\"b\" true\tnull\r\n0.5",
	"{ \"a\" : { \"b\" : [ ] } , \"c\" : \"\" }",
}

func c03GenEveryByte(r *rand.Rand, tier string, emit func(Case)) {
	fields := []string{"class", "out", "file"}
	nt := func(i Resp) bool { return i["out"] != "-" && i["out"] != "" }
	var bytesUnderTest []byte
	for b := 0; b < 256; b++ {
		if b < 0x20 || b >= 0x7f || tier == "thorough" {
			bytesUnderTest = append(bytesUnderTest, byte(b))
		}
	}
	names := []string{"data.json", "<stdin>", "b c.jsonl", "é.json"}
	bases := append([]string{}, c03ByteBases...)
	for k := tierN(tier, 2, 12); k > 0; {
		b := c03Stream(r, 2+r.Intn(3), false)
		if _, ok := c03Scan(b); ok && len(b) >= 6 && len(b) <= 40 {
			bases = append(bases, string(b))
			k--
		}
	}
	for si, bs := range bases {
		base := []byte(bs)
		if _, ok := c03Scan(base); !ok {
			panic("every-byte-corruption: base stream is not valid: " + bs)
		}
		prog := c03Programs[si%len(c03Programs)]
		if si >= len(c03ByteBases) {
			prog = c03PickProg(r)
		}
		name := names[si%len(names)]
		cls, inStr, depthAt := c03ByteClasses(base)
		// the positions: all of them (thorough), or two per class
		type pos struct {
			k      int
			insert bool
			class  string
			str    bool // the corrupting byte lands inside a string
		}
		var all []pos
		for k := range base {
			cn := map[byte]string{'S': "inside a string", 'E': "inside an escape sequence", 'Q': "on a quote", 'N': "inside a number", 'L': "inside a literal",
				'W': "white space between values", 'w': "white space inside a composite", 'P': "punctuation"}[cls[k]]
			all = append(all, pos{k, false, "replace " + cn, cls[k] == 'S' || cls[k] == 'E'})
		}
		for k := 0; k <= len(base); k++ {
			var cn string
			switch {
			case k == 0:
				cn = "before the first value"
			case k == len(base):
				cn = "after the last byte"
			case inStr[k]:
				cn = "inside a string"
			case cls[k-1] == 'N' && cls[k] == 'N':
				cn = "inside a number"
			case cls[k-1] == 'L' && cls[k] == 'L':
				cn = "inside a literal"
			case depthAt[k] == 0:
				cn = "between values"
			default:
				cn = "inside a composite"
			}
			all = append(all, pos{k, true, "insert " + cn, inStr[k]})
		}
		chosen := all
		if tier != "thorough" {
			by := map[string][]pos{}
			var order []string
			for _, p := range all {
				if by[p.class] == nil {
					order = append(order, p.class)
				}
				by[p.class] = append(by[p.class], p)
			}
			chosen = nil
			for _, c := range order {
				ps := by[c]
				chosen = append(chosen, ps[r.Intn(len(ps))])
				if len(ps) > 1 && si < len(c03ByteBases) {
					chosen = append(chosen, ps[len(ps)-1])
				}
			}
		}
		seenPrefix := map[string]bool{}
		seenMut := map[string]bool{}
		for _, p := range chosen {
			for _, b := range bytesUnderTest {
				var data []byte
				if p.insert {
					data = append(append(append([]byte{}, base[:p.k]...), b), base[p.k:]...)
				} else {
					if base[p.k] == b {
						continue
					}
					data = append([]byte{}, base...)
					data[p.k] = b
				}
				if seenMut[string(data)] {
					continue
				}
				seenMut[string(data)] = true
				// what the grammar says, without a decoder
				mustErr := false
				if p.str {
					mustErr = b < 0x20
				} else {
					mustErr = (b < 0x20 || b >= 0x7f) && b != '\t' && b != '\n' && b != '\r'
				}
				ends, valid := c03Scan(data)
				ref := c03FaultOracle(name, data)
				fname := name
				c := Case{Req: RunReq(prog, nil, []File{{Name: name, Data: data}}, false), Fields: fields, NonTrivial: nt,
					Meta: c03Meta(prog, data, "mutation", fmt.Sprintf("%s: byte 0x%02x at offset %d", p.class, b, p.k), "base", strconv.Quote(bs), "file name", name,
						"row", p.class, "col", fmt.Sprintf("0x%02x", b&0xf0)),
					Oracle: func(i Resp) string {
						if mustErr && (i["class"] != "json" || string(i.Bytes("file")) != fname) {
							return fmt.Sprintf("C03: a byte 0x%02x %s is not JSON: the run must end in a JSON input error naming %q, got class %s file %q", b, strings.SplitN(p.class, " ", 2)[1], fname, i["class"], i.Bytes("file"))
						}
						return ref(i)
					}}
				if mustErr && valid {
					panic(fmt.Sprintf("every-byte-corruption: encoding/json accepts %q", data))
				}
				if !valid {
					var prefix []byte
					if len(ends) > 0 {
						prefix = data[:ends[len(ends)-1]]
					}
					g := fmt.Sprintf("byte-prefix-%d-%x", si, prefix)
					if !seenPrefix[g] {
						seenPrefix[g] = true
						emit(Case{ID: g, Req: RunReq(prog, nil, []File{{Name: name, Data: prefix}}, false), Fields: fields,
							Meta: c03Meta(prog, prefix, "mutation", "clean prefix (reference of its group)"), Group: g, NonTrivial: nt})
					}
					c.Group, c.GroupCheck = g, c03PrefixCheck
				}
				emit(c)
			}
		}
	}
}

func init() {
	register(Family{
		Name: "every-byte-corruption", Prop: "C03",
		Rule: "valid streams (6 fixed ones covering objects with string members, bare numbers, literals, escapes and non-ASCII text, adjacent strings, every white-space byte, plus random ones) with ONE byte corrupted: every byte value 0x00-0x1f and 0x7f-0xff (thorough: all 256) replaces a byte of each class (string body, escape sequence, quote, number, literal, white space between values / inside a composite, punctuation) and is inserted at an insertion point of each class (before the first value, inside a string / number / literal, between values, inside a composite, after the last byte) -- quick: two positions per class and stream, thorough: every position. Compared with the model (class, out, file). Oracle (C03) from the JSON grammar alone: outside a string every such byte except tab / LF / CR, inside a string every byte below 0x20, must give a JSON input error naming the file; plus encoding/json run by the harness as reference (ok only if the whole stream is values + white space) and (Group) output = output of the clean run on the complete values before the corruption, no END rule. Non-trivial = output.",
		Gen:  c03GenEveryByte,
	})
}

// ---- stdin-descriptor-kinds -------------------------------------------------------------
//
// With no file arguments standard input IS the input unless it is a terminal -- whatever kind of
// descriptor it is: a character device that is not a terminal (/dev/zero, /dev/full: endless NUL
// bytes, which is not JSON; /dev/urandom: not JSON either), /dev/null, a closed descriptor, a
// regular file, a pipe, a socket. Malformed stdin must be REPORTED (status 1, `could not parse
// <stdin>`), never taken for "no input". And a real terminal (a pseudo-terminal nobody types
// into) is not read at all.

type c03KindProg struct {
	text    string
	noInput string // stdout when there is no input at all (BEGIN and END only)
}

var c03KindProgs = []c03KindProg{
	{"BEGIN { print \"b\" }\n{ print \"v\", $ }\nEND { print \"END\", 1 }", "b\nEND 1\n"},
	{"{ print \"value\" }", ""},
	{"END { print \"done\" }", "done\n"},
	{"BEGINFILE { print \"bf\", $file } { print $file, $ } ENDFILE { print \"ef\" }", ""},
	{"BEGIN { print \"only\" }", "only\n"},
	{"", ""},
}

func c03GenStdinKinds(r *rand.Rand, tier string, emit func(Case)) {
	if os.Getenv("JQAWK_BIN") == "" {
		emit(Case{ID: "no-binary", Req: "cli - - - -", ImplOnly: true, Oracle: func(i Resp) string { return "JQAWK_BIN is not set: the binary was not run" },
			Meta: map[string]string{"problem": "env JQAWK_BIN is not set; this family runs the real binary"}})
		return
	}
	shapes := []string{"inline", "-f", "-r", "-o -", "--", "-r x2"}
	nuls := make([]byte, 4096)
	streams := []struct {
		what string
		data []byte
	}{
		{"two good values", []byte("[1, 2]\n{\"a\": 1}\n")},
		{"a good value, then a NUL byte", []byte("[1]\n\x00")},
		{"NUL bytes only", nuls[:64]},
		{"a truncated value", []byte("[1, 2]\n{\"a\": ")},
	}
	all := []string{"exit", "out", "stderr"}
	n := 0
	for pi, p := range c03KindProgs {
		for si, shape := range shapes {
			if tier != "thorough" && si != pi%len(shapes) && si != (pi+3)%len(shapes) {
				continue
			}
			n++
			var argv []string
			var disk []CliFile
			switch shape {
			case "-r":
				argv = []string{"-r", "$"}
			case "-r x2":
				argv = []string{"-r=$", "-r", "[$]"}
			case "-o -":
				argv = []string{"-o", "-"}
			case "--":
				argv = []string{"--"}
			}
			if shape == "-f" {
				argv = append(argv, "-f", "prog.jqawk")
				disk = []CliFile{{Name: "prog.jqawk", Data: []byte(p.text)}}
			} else {
				argv = append(argv, p.text)
			}
			g := fmt.Sprintf("kind-%d", n)
			meta := func(what, bytes string) map[string]string {
				return metaProg(p.text, "argv", strings.Join(argv, " ␣ "), "stdin is", what, "stdin bytes", bytes, "row", what, "col", shape)
			}
			basic := func(i Resp) string {
				switch i["class"] {
				case "badrequest", "crash", "garbled", "nobinary":
					return "harness problem running the binary: " + i.String()
				}
				return c14Basic(i)
			}
			// malformed stdin must be reported: status 1, a diagnostic naming <stdin>, and no END rule
			reported := func(what string) func(Resp) string {
				return func(i Resp) string {
					if w := basic(i); w != "" || i["exit"] == "" {
						return w
					}
					stderr := string(i.Bytes("stderr"))
					if i["exit"] != "1" || !strings.Contains(stderr, "could not parse <stdin>") {
						return fmt.Sprintf("C03: stdin is %s, which is not JSON, and there is no file argument: expected status 1 and `could not parse <stdin>: ...`, got status %s, stderr %q, stdout %q",
							what, i["exit"], short(stderr), short(string(i.Bytes("out"))))
					}
					out := string(i.Bytes("out"))
					if strings.Contains(out, "END 1") || strings.Contains(out, "done") {
						return fmt.Sprintf("C03: an END rule ran after the JSON input error: stdout %q", short(out))
					}
					return ""
				}
			}
			// 1. endless NUL bytes: /dev/zero, /dev/full -- and a pipe with 4096 of them (first member, compared with the model)
			gz := g + "z"
			nulReq := CliReq(argv, nuls, true, disk, "")
			emit(Case{ID: gz + "/pipe", Req: nulReq, Fields: c14CliFields, Group: gz, Meta: meta("a pipe (first member of the group)", "4096 NUL bytes"), Oracle: reported("a pipe carrying NUL bytes"), NonTrivial: c14NT})
			for _, kind := range []string{"zero", "full"} {
				emit(Case{ID: gz + "/" + kind, Req: CliStdinKindReq(argv, nil, kind, disk, ""), ModelReq: nulReq, Fields: c14CliFields, Group: gz, GroupFields: all,
					Meta: meta("the character device /dev/"+kind, "NUL bytes without end"), Oracle: reported("/dev/" + kind + " (NUL bytes)"), NonTrivial: c14NT})
			}
			emit(Case{ID: g + "/random", Req: CliStdinKindReq(argv, nil, "random", disk, ""), ImplOnly: true,
				Meta: meta("the character device /dev/urandom", "random bytes without end"), Oracle: reported("/dev/urandom (random bytes)"), NonTrivial: c14NT})
			// 2. no bytes: an empty pipe (first member), an empty regular file, /dev/null, a closed descriptor
			ge := g + "e"
			emptyReq := CliReq(argv, []byte{}, true, disk, "")
			emit(Case{ID: ge + "/pipe", Req: emptyReq, Fields: c14CliFields, Group: ge, Meta: meta("an empty pipe (first member of the group)", "none"), Oracle: basic,
				NonTrivial: func(i Resp) bool { return i["exit"] != "" }})
			for _, kind := range []string{"empty", "null", "closed"} {
				emit(Case{ID: ge + "/" + kind, Req: CliStdinKindReq(argv, nil, kind, disk, ""), ModelReq: emptyReq, Fields: c14CliFields, Group: ge, GroupFields: all,
					Meta:   meta(map[string]string{"empty": "an empty regular file", "null": "/dev/null", "closed": "closed (`<&-`)"}[kind], "none"),
					Oracle: basic, NonTrivial: func(i Resp) bool { return i["exit"] != "" }})
			}
			// 3. the same bytes through a pipe (first member), a regular file, a socket
			for di, st := range streams {
				if tier != "thorough" && (di+n)%2 != 0 {
					continue
				}
				gd := fmt.Sprintf("%sd%d", g, di)
				pipeReq := CliReq(argv, st.data, true, disk, "")
				orc := basic
				if di > 0 {
					orc = reported("a stream with " + st.what)
				}
				emit(Case{ID: gd + "/pipe", Req: pipeReq, Fields: c14CliFields, Group: gd, Meta: meta("a pipe (first member of the group)", strconv.Quote(string(st.data))), Oracle: orc, NonTrivial: c14NT})
				for _, kind := range []string{"file", "socket"} {
					emit(Case{ID: gd + "/" + kind, Req: CliStdinKindReq(argv, st.data, kind, disk, ""), ModelReq: pipeReq, Fields: c14CliFields, Group: gd, GroupFields: all,
						Meta: meta(map[string]string{"file": "a regular file opened for reading", "socket": "a socket"}[kind], strconv.Quote(string(st.data))), Oracle: orc, NonTrivial: c14NT})
				}
			}
			// 4. a file argument is named: stdin is NOT read, whatever it is
			{
				argvF := append(append([]string{}, argv...), "named.json")
				named := CliFile{Name: "named.json", Data: []byte("[7, 8]\n")}
				diskF := append(append([]CliFile{}, disk...), named)
				gf := g + "f"
				emit(Case{ID: gf + "/null", Req: CliReq(argvF, nil, false, diskF, ""), Fields: c14CliFields, Group: gf, Meta: meta("/dev/null, next to the file argument named.json (first member of the group)", "none"), Oracle: basic, NonTrivial: c14NT})
				for _, kind := range []string{"zero", "random", "tty"} {
					emit(Case{ID: gf + "/" + kind, Req: CliStdinKindReq(argvF, nil, kind, diskF, ""), ModelReq: CliReq(argvF, nil, false, diskF, ""), Fields: c14CliFields, Group: gf, GroupFields: all,
						Meta: meta(kind+" device, next to the file argument named.json: not read", "-"), NonTrivial: c14NT,
						Oracle: func(i Resp) string {
							if i["class"] == "nodevice" {
								return ""
							}
							return basic(i)
						}})
				}
			}
			// 5. a terminal: not an input; only BEGIN and END rules run
			if shape != "-o -" {
				want := p.noInput
				emit(Case{ID: g + "/tty", Req: CliStdinKindReq(argv, nil, "tty", disk, "") + ",t=6000", ImplOnly: true,
					Meta:       meta("a terminal (the slave side of a fresh pseudo-terminal; nothing is typed)", "none"),
					NonTrivial: func(i Resp) bool { return i["exit"] != "" },
					Oracle: func(i Resp) string {
						if i["class"] == "nodevice" {
							return ""
						}
						if w := basic(i); w != "" || i["exit"] == "" {
							return w
						}
						if i["exit"] != "0" || string(i.Bytes("out")) != want {
							return fmt.Sprintf("C03/C14: stdin is a terminal and there is no file argument: there is no input, only BEGIN and END rules run: expected status 0 and stdout %q, got status %s, stdout %q, stderr %q",
								want, i["exit"], i.Bytes("out"), short(string(i.Bytes("stderr"))))
						}
						return ""
					}})
			}
		}
	}
}

func init() {
	register(Family{
		Name: "stdin-descriptor-kinds", Prop: "C03",
		Rule: "the real binary WITHOUT file arguments (6 programs: BEGIN + rule + END, a bare rule, END only, BEGINFILE / ENDFILE with $file, BEGIN only, the empty program; inline, -f, after --, with one or two -r selectors, with -o -) and stdin of every kind: the character devices /dev/zero and /dev/full (endless NUL bytes; Group with a pipe carrying 4096 NUL bytes, which is compared with the model: same exit, stdout, stderr), /dev/urandom (implementation only), an empty pipe / an empty regular file / /dev/null / a closed descriptor (Group; compared with the model on empty stdin), and four streams (good values; a good value then a NUL byte; NUL bytes; a truncated value) through a pipe / a regular file / a socket (Group; model). Oracle (C03): stdin that is not JSON is REPORTED -- status 1, stderr says `could not parse <stdin>`, no END rule has run -- never taken for the absence of input. With a file argument named, stdin is not read whatever it is (/dev/null, /dev/zero, /dev/urandom, a terminal: same answer). With a TERMINAL on stdin (a fresh pseudo-terminal nobody types into) and no file argument there is no input: status 0 and exactly the BEGIN and END output (skipped, class nodevice, where /dev/ptmx is missing).",
		Gen:  c03GenStdinKinds,
	})
}
