package main

// C12 — reported error positions are consistent with, and point into, the
// program text.
//
// Every case carries an implementation-only oracle computed from the text the
// generator wrote (it knows where the fault sits): the quoted source line is
// line `line` of the text split at "\n", and line / column point at (into) the
// faulty construct.  Everything is also compared with the model.

import (
	"fmt"
	"math/rand"
	"os"
	"regexp"
	"strconv"
	"strings"
)

var c12Fields = []string{"class", "line", "col", "src"}

// c12LineOf gives (1-based line, 0-based byte column, text of the line) of a
// byte offset in text; an offset past the end is the end, an offset on a "\n"
// belongs to the line that newline ends.
func c12LineOf(text string, off int) (int, int, string) {
	if off > len(text) {
		off = len(text)
	}
	line, start := 1, 0
	for i := 0; i < off; i++ {
		if text[i] == '\n' {
			line++
			start = i + 1
		}
	}
	return line, off - start, strings.Split(text, "\n")[line-1]
}

// c12Consistent is the part of the property that holds for every error: the
// quoted line is exactly line N of the program text and the column lies in it.
func c12Consistent(text string, i Resp) string {
	line, err := strconv.Atoi(i["line"])
	if err != nil {
		return "no line number: " + i.String()
	}
	col, err := strconv.Atoi(i["col"])
	if err != nil {
		return "no column: " + i.String()
	}
	lines := strings.Split(text, "\n")
	if line < 1 || line > len(lines) {
		return fmt.Sprintf("line %d is not a line of the text (it has %d)", line, len(lines))
	}
	if got := string(i.Bytes("src")); got != lines[line-1] {
		return fmt.Sprintf("quoted source line %q is not line %d of the text, which is %q", got, line, lines[line-1])
	}
	if col < 0 || col > len(lines[line-1]) {
		return fmt.Sprintf("column %d outside line %d (%d bytes)", col, line, len(lines[line-1]))
	}
	return ""
}

// c12At: the error must be of class `class` and point into [off, off+n) of text.
func c12At(text, class string, off, n int) func(Resp) string {
	return func(i Resp) string {
		if i["class"] != class {
			return fmt.Sprintf("expected a %s error at offset %d, got %s", class, off, i.String())
		}
		if w := c12Consistent(text, i); w != "" {
			return w
		}
		wl, wc, _ := c12LineOf(text, off)
		line, _ := strconv.Atoi(i["line"])
		col, _ := strconv.Atoi(i["col"])
		if line != wl || col < wc || col >= wc+n {
			return fmt.Sprintf("position line %d col %d does not point into the fault at line %d col %d..%d", line, col, wl, wc, wc+n-1)
		}
		return ""
	}
}

// c12In: like c12At for a construct that may span several lines: the reported position,
// taken as a byte offset of text, lies in [off, off+n).
func c12In(text, class string, off, n int) func(Resp) string {
	return func(i Resp) string {
		if i["class"] != class {
			return fmt.Sprintf("expected a %s error at offset %d, got %s", class, off, i.String())
		}
		if w := c12Consistent(text, i); w != "" {
			return w
		}
		line, _ := strconv.Atoi(i["line"])
		col, _ := strconv.Atoi(i["col"])
		at := col
		for _, l := range strings.Split(text, "\n")[:line-1] {
			at += len(l) + 1
		}
		if at < off || at >= off+n {
			wl, wc, _ := c12LineOf(text, off)
			el, ec, _ := c12LineOf(text, off+n-1)
			return fmt.Sprintf("position line %d col %d does not point into the fault, which spans line %d col %d .. line %d col %d", line, col, wl, wc, el, ec)
		}
		return ""
	}
}

func c12IsKeyword(w string) bool {
	for _, k := range c13Keywords {
		if k == w {
			return true
		}
	}
	return false
}

func c12ErrNT(i Resp) bool { return i["class"] == "syntax" || i["class"] == "runtime" }

// ---- texts for the pos family ---------------------------------------------------

var c12LinePool = []string{"", "", " ", "x = 1", "# comment é", "print 'héé'", "\t\tindented", "a\rb", "日本語", "\x80\xfe", "é", "tail \r", "\r", "BEGIN {", "}", "s = \"a#b\"  # trailing", "🙂", "x\xc3", "\xa9y", "ab", "a\fb", "x\u2028y", "n\u0085l", "v\vt", "\f", "s = \"é\tü\"\t# 日本"}

func c12Text(r *rand.Rand) string {
	n := r.Intn(10)
	lines := make([]string, n)
	for i := range lines {
		lines[i] = pick(r, c12LinePool)
	}
	sep := "\n"
	if chance(r, 0.25) {
		sep = "\r\n"
	}
	t := strings.Join(lines, sep)
	switch r.Intn(4) {
	case 0:
		t += "\n"
	case 1:
		t += sep + sep
	}
	return t
}

// ---- hostile text before (and after) the fault ------------------------------------------------

// complete statements, valid inside a block (and as a bare pattern at top level), that never
// fault: string and regex literals containing RAW line breaks (LF, CR LF, several, a break right
// before the closing quote), \n escapes, comments with quotes, tabs, multi-byte characters, form
// feeds, U+2028 / U+0085 (line breaks for Unicode, not for jqawk), very long lines
var c12Hostile = []string{
	"h1 = \"first half\nsecond half\"",
	"h2 = 'a\r\nb'",
	"h3 = \"l1\n\nl3\n\"",
	"h4 = \"esc\\n only \\t no break\"",
	"h5 = /a\nb/",
	"h6 = /x\ny\nz/",
	"h7 = 'x' ~ /a\n/",
	"# it's \"quoted",
	"h8 = 1 # ' unbalanced \"",
	"h9 =\t\t2\t# tabs",
	"h10 = \"tab\tinside\ttabs\"",
	"h11 = \"é日本🙂\"  # é 日本",
	"h12 = \"form\ffeed\" # \f\v",
	"h13 = \"a#b\n#c\"",
	"h14 = \"it's\n'quoted'\"",
	"h15 = [\"a\nb\", /c\nd/, 'e\nf']",
	"if (h1 == \"a\nb\") { h16 = 1 }",
	"h17 = {k: \"v\nw\", 'k\n2': 1}",
	"h18 = \"x\ny\".length()",
	"h19 = \"u2028   nel \u0085 ls\" #   \u0085  ",
	"h20 = 'é\n日本\n🙂'",
	"h21 = \"\n\"",
	"h22 = '\n\n\n'",
	"h23 = \"cr only\rhere\"",
	"h24 = \"ends with cr lf\r\n\"",
	"",
	"   ",
	"\t",
	"h26 = \"" + strings.Repeat("x", 150) + "\n" + strings.Repeat("y", 150) + "\"",
	"h27 = \"\\\\\n\\\\\"",
	"h28 = /[\n]/",
}

// very long lines (past 255, 4096 bytes): picked rarely, they make the cases big
var c12HostileLong = []string{
	"h25 = \"" + strings.Repeat("long ", 1000) + "\"",
	"# " + strings.Repeat("a very long comment é ", 200),
	"h30 = \"" + strings.Repeat("é", 2100) + "\n" + strings.Repeat("y", 300) + "\"",
}

// c12LongLines: a fault at the end of / on the line after a line of 300, 5 000 and 70 000 bytes
// (a long string, a long comment), for one kind of fault: "illegal", "unterminated", "arrow", "runtime".
func c12LongLines(kind string, emit func(Case)) {
	for _, n := range []int{300, 5000, 70000} {
		for _, sameLine := range []bool{true, false} {
			for _, filler := range []string{"string", "comment"} {
				if filler == "comment" && sameLine {
					continue // a comment runs to the end of its line
				}
				long := "  s = \"" + strings.Repeat("0123456789", n/10) + "\""
				if filler == "comment" {
					long = "  # " + strings.Repeat("0123456789", n/10)
				}
				sep := "; "
				if !sameLine {
					sep = "\n  "
				}
				head := "BEGIN {\n  a = 1\n" + long + sep
				var text, class string
				var off, ln int
				switch kind {
				case "illegal":
					text, class, off, ln = head+"b = 2 @ 3\n}\n", "syntax", len(head)+6, 1
				case "unterminated":
					text, class, off, ln = head+"b = 'open\n}\n", "syntax", len(head)+5, 1
				case "arrow":
					text, class, off, ln = head+"b = 2 => 3\n}\n", "syntax", len(head)+6, 2
				default:
					text, class, off, ln = head+"b = 1 / 0\n}\n", "runtime", len(head)+4, 5
				}
				emit(Case{Req: RunReq(text, nil, nil, false), Fields: c12Fields,
					Meta:   map[string]string{"program": short(text), "probe": fmt.Sprintf("%s fault after a %d-byte %s, same line: %v", kind, n, filler, sameLine)},
					Oracle: c12At(text, class, off, ln), NonTrivial: c12ErrNT})
			}
		}
	}
}

// c12HasComment: does a statement of the pool carry a comment ('#' outside its string and regex
// literals; '/' only occurs as a regex delimiter there)?
func c12HasComment(st string) bool {
	var q byte
	for i := 0; i < len(st); i++ {
		c := st[i]
		switch {
		case q != 0:
			if c == q {
				q = 0
			}
		case c == '"' || c == '\'' || c == '/':
			q = c
		case c == '#':
			return true
		}
	}
	return false
}

// c12HostileBlock writes `KW {` + n hostile statements + `}`; returns the text and, for every
// statement, the offset right after it (still on its last line).
func c12HostileBlock(r *rand.Rand, kw string, n int, huge bool) (string, []int) {
	var sb strings.Builder
	var points []int
	crlf := r.Intn(3)
	sb.WriteString(kw + " {")
	sb.WriteString(c12Eol(r, crlf))
	for i := 0; i < n; i++ {
		st := pick(r, c12Hostile)
		if chance(r, 0.007) {
			st = pick(r, c12HostileLong)
		}
		if huge && i == 0 {
			st = "h29 = \"" + strings.Repeat("0123456789", 7000) + "\"" // a 70 kB line
		}
		sb.WriteString(pick(r, []string{"  ", "", "\t", "    "}))
		sb.WriteString(st)
		if strings.TrimSpace(st) != "" && !c12HasComment(st) {
			points = append(points, sb.Len())
		}
		sb.WriteString(c12Eol(r, crlf))
	}
	sb.WriteString("}")
	sb.WriteString(c12Eol(r, crlf))
	return sb.String(), points
}

// c12Surround puts a hostile block before (and sometimes after) a program text and shifts the
// given offsets; extra = offsets inside the hostile block right after a multi-line literal.
func c12Surround(r *rand.Rand, text string, offs ...[]int) (string, []int) {
	pre, points := c12HostileBlock(r, "BEGIN", 1+r.Intn(5), chance(r, 0.02))
	for _, o := range offs {
		for i := range o {
			o[i] += len(pre)
		}
	}
	out := pre + text
	if chance(r, 0.3) {
		post, _ := c12HostileBlock(r, "END", 1+r.Intn(3), false)
		if !strings.HasSuffix(out, "\n") {
			out += "\n"
		}
		out += post
	}
	return out, points
}

// ---- illegal characters ------------------------------------------------------------

type c12Bad struct {
	seq string
	at  int // index of the byte the lexer rejects, when the sequence starts a token
}

// byte sequences that no token can contain or start with; for multi-byte
// characters the lead byte may be taken for a (Latin-1) letter, so the
// rejected byte is the first continuation byte
var c12BadSeqs = []c12Bad{
	{"@", 0}, {"^", 0}, {"`", 0}, {"\\", 0}, {"?", 0}, {"\x00", 0}, {"\x7f", 0}, {"\x01", 0}, {"\x0b", 0}, {"\x0c", 0},
	{"\x80", 0}, {"\xa9", 0}, {"\xbf", 0}, {"\xd7", 0}, {"\xf7", 0}, {"\xa0", 0},
	{"é", 1}, {"€", 1}, {"×", 1}, {"日", 1}, {"🙂", 1}, {"\xc2\xa0", 1}, {"\xe2\x80\xa8", 1},
}

var c12Layouts = []int{c13Canon, c13Newlines, c13Blanks, c13Mixed, c13Comments, c13Tight}

// c12Points lists the byte offsets of all token starts and token ends of a
// rendered token sequence (both are positions outside strings and comments).
func c12Points(toks []c13Tok, text string, offs []int) (starts, ends []int) {
	for i, t := range toks {
		s := offs[i]
		l := len(t.s)
		if t.kind == 's' {
			s--
			l += 2
		}
		starts = append(starts, s)
		ends = append(ends, s+l)
	}
	return
}

// ---- runtime faults ---------------------------------------------------------------------

type c12Fault struct {
	text string
	what string
	stmt bool // a whole statement (only usable where a statement stands)
}

var c12Faults = []c12Fault{
	{"1 / 0", "division by zero", false}, {"7 % 0", "modulo by zero", false}, {"x /= 0", "compound division by zero", false}, {"6 / (x - x)", "division by computed zero", false},
	{"nf(1)", "call of a number", false}, {"obj.k(2)", "call of a member that is a number", false}, {"1.5.nope()", "call of a missing method", false}, {"'str'(1)", "call of a string", false},
	{"'abc' ~ '('", "bad regex in a string", false}, {"'abc' ~ /(/", "bad regex literal", false}, {"'abc' !~ 'a)'", "bad regex with !~", false}, {"'abc' ~ 5", "non-pattern right of ~", false},
	{"[1] < 2", "compare of an array", false}, {"obj == 1", "compare of an object", false}, {"1 >= [2]", "compare with an array on the right", false},
	{"$nope", "unknown $name", false}, {"$nope.x", "unknown $name with member", false},
	{"printf('%s', 1)", "printf %s with a number", false}, {"printf(1)", "printf without a format", false}, {"printf('%q', 1)", "printf unknown verb", false}, {"printf('%f', 'a')", "printf %f with a string", false}, {"printf('%s')", "printf missing argument", false},
	{`'a\qb'`, "bad string escape", false}, {`"tail\"`, "backslash at end of string", false}, {`'é\x'`, "bad escape after non-ASCII", false},
	{"[1][0 - 5]", "index out of range", false}, {"[printf]", "function stored in an array", false}, {"fv = printf", "function assigned", false}, {"json(1, 2)", "json with two arguments", false},
	{"'l1\nl2\\qc'", "bad escape on the second line of a multi-line string", false}, {"\"é\n\n\\x\"", "bad escape after two raw line breaks", false}, {"'abc' ~ /(\n/", "bad regex literal containing a line break", false},
	{"'abc' ~ \"l1\n(\"", "bad regex in a multi-line string", false},
	{"for (q in 5) { }", "for-in over a number", true}, {"obj.k.z.w = 1", "member store below a number", true},
}

type c12Wrap struct {
	pre, post string
	paren     bool   // the fault is written in parentheses
	where     string // stmt (a statement in a block), fn (inside a function body), top (a top-level item)
}

var c12Wraps = []c12Wrap{
	{"y = 2; ", "", false, "stmt"}, {"x = ", "", false, "stmt"}, {"print ", "", false, "stmt"}, {"print 1, 'a', ", "", false, "stmt"}, {"print ", ", 2", false, "stmt"},
	{"x = (", ")", false, "stmt"}, {"x = -", "", true, "stmt"}, {"x = !", "", true, "stmt"}, {"x = + ", "", true, "stmt"}, {"x = ", " + 1", true, "stmt"}, {"x = 1 + ", "", true, "stmt"}, {"x = 2 * ", " - 1", true, "stmt"},
	{"x = 'héé' + ", "", true, "stmt"}, {"x = ", " < 3", true, "stmt"}, {"x = 3 == ", "", true, "stmt"}, {"x = ", " ~ 'a'", true, "stmt"}, {"x = ", " is number", true, "stmt"},
	{"x = 1 && ", "", true, "stmt"}, {"x = 0 || ", "", true, "stmt"}, {"x = ", " && 1", true, "stmt"}, {"x = ", " || 1", true, "stmt"},
	{"x = [", "]", false, "stmt"}, {"x = [1, 'é', ", ", 4]", false, "stmt"}, {"x = {k: ", "}", false, "stmt"}, {"x = {a: 1, 'b c': ", "}", false, "stmt"},
	{"x = id(", ")", false, "stmt"}, {"x = id(1, ", ")", false, "stmt"}, {"id(id(", "))", false, "stmt"}, {"x = arr[", "]", false, "stmt"}, {"x = ", ".k", true, "stmt"}, {"x = ", "[0]", true, "stmt"}, {"x = ", ".length()", true, "stmt"},
	{"x += ", "", false, "stmt"}, {"x *= ", "", true, "stmt"}, {"arr[0] = ", "", false, "stmt"}, {"obj.fresh = ", "", false, "stmt"}, {"obj['k'] = ", "", false, "stmt"}, {"arr[", "] = 1", false, "stmt"},
	{"if (", ") { y = 1 }", false, "stmt"}, {"if (", ") print 1; else print 2", false, "stmt"}, {"if (0) { } else if (", ") { }", false, "stmt"}, {"if (1) x = ", "", false, "stmt"}, {"if (0) { y = 1 } else x = ", "", false, "stmt"},
	{"while (", ") { break }", false, "stmt"}, {"for (", "; 0; 0) { }", false, "stmt"}, {"for (i = 0; ", "; i++) { }", false, "stmt"}, {"for (i = 0; i < 1; ", ") { }", false, "stmt"}, {"for (i = 0; i < 1; i++) x = ", "", false, "stmt"},
	{"for (q in [", "]) { }", false, "stmt"}, {"for (q, qi in ", ") { }", true, "stmt"}, {"for (q in [1]) { x = ", " }", false, "stmt"}, {"{ { x = ", " } }", false, "stmt"},
	{"x = match (", ") { 1 => 2 }", false, "stmt"}, {"x = match (1) { 1 => ", " }", false, "stmt"}, {"x = match (1) { q => { z = ", " } }", false, "stmt"}, {"x = match (5) { 1 => 2, q => ", ", 7 => 8 }", false, "stmt"},
	{"x = y = ", "", false, "stmt"}, {"x = (y = ", ") + 1", false, "stmt"}, {"x++; x = ", "", false, "stmt"}, {"s = 'é日本'; t = \"# no comment\"; x = ", "  # comment é", false, "stmt"}, {"\tx\t=\t", "\t", false, "stmt"},
	{"s = \"l1\nl2\"; x = ", "", false, "stmt"}, {"x = 'a\nb' + ", "", true, "stmt"}, {"x = [/r\ns/, \"é\n\", ", "]", false, "stmt"}, {"x = ", " + \"after\nbreak\"", true, "stmt"}, {"print \"m1\nm2\", ", "", false, "stmt"},
	{"x = {k: 'v\r\nw', j: ", "}", false, "stmt"}, {"if (\"a\nb\" != ", ") { y = 1 }", true, "stmt"}, {"s = \"é日本\n🙂\";\tx =\t", "", false, "stmt"},
	{"return ", "", false, "fn"}, {"s = 'm1\nm2'; return ", "", false, "fn"}, {"'p1\np2' != ", " { print }", true, "top"}, {"if (v) return ", "", false, "fn"}, {"return v + ", "", true, "fn"}, {"w = ", "; return w", false, "fn"},
	{"", " { print }", false, "top"}, {"$.id > 0 && ", " { print }", true, "top"}, {"$.id > 0 { x = ", " }", false, "top"}, {"END { x = ", " }", false, "top"}, {"BEGINFILE { x = ", " }", false, "top"}, {"ENDFILE { print ", " }", false, "top"}, {"{ print $.id, ", " }", false, "top"},
}

var c12Filler = []string{"h1 = \"first half\nsecond half\"", "h5 = /a\nb/", "h3 = \"l1\n\nl3\n\"", "h2 = 'a\r\nb'", "h12 = \"form\ffeed\" # \f", "h15 = [\"a\nb\", /c\nd/, 'e\nf']", "# it's \"quoted", "h19 = \"u2028 \u2028 nel \u0085\" # \u2028",
	"h13 = \"a#b\n#c\"", "h20 = 'é\n日本\n🙂'", "h22 = '\n\n\n'",
	"", "  ", "# comment", "\t# tab comment é 日本", "y = y + 1", "s = 'héé 日本'", "print 'line', y", "t = \"a#b\"  # trailing", "z = [1,", "y++;", "if (y > 100) { y = 0 }", "u1 = 'ü'; u2 = \"\x80 stray\"", "#", "print"}

func c12Eol(r *rand.Rand, crlf int) string {
	switch crlf {
	case 0:
		return "\n"
	case 1:
		return "\r\n"
	default:
		return pick(r, []string{"\n", "\r\n", "\n", " \n", "\t\r\n"})
	}
}

// c12FaultProgram builds a multi-line program with the fault line at position
// pos of its section; returns the text, the offset and the length of the
// faulty construct.
func c12FaultProgram(r *rand.Rand, w c12Wrap, f c12Fault, nFill, pos, crlf int) (string, int, int) {
	var sb strings.Builder
	eol := func() { sb.WriteString(c12Eol(r, crlf)) }
	fill := func() {
		l := pick(r, c12Filler)
		if chance(r, 0.02) {
			l = pick(r, c12HostileLong)
		}
		if l == "z = [1," {
			sb.WriteString("  z = [1,")
			eol()
			sb.WriteString("    2, 3]")
			eol()
			return
		}
		if l == "print" && w.where == "top" {
			l = "y = 7"
		}
		sb.WriteString("  " + l)
		eol()
	}
	faultOff, faultLen := 0, len(f.text)
	faultLine := func(indent string) {
		sb.WriteString(indent + w.pre)
		if w.paren {
			sb.WriteString("(")
		}
		faultOff = sb.Len()
		sb.WriteString(f.text)
		if w.paren {
			sb.WriteString(")")
		}
		sb.WriteString(w.post)
		eol()
	}
	section := func(indent string, here bool) {
		for i := 0; i <= nFill; i++ {
			if here && i == pos {
				faultLine(indent)
			}
			if i < nFill {
				fill()
			}
		}
	}
	if chance(r, 0.5) {
		sb.WriteString(pick(r, []string{"# header é", "#!/usr/bin/env jqawk -f", "# 日本語 \x80"}))
		eol()
	}
	if chance(r, 0.3) {
		eol()
	}
	sb.WriteString("function id(v, w) { return v }")
	eol()
	topItems := []func(){
		func() {
			sb.WriteString("function wrapfn(v) {")
			eol()
			section("  ", w.where == "fn")
			sb.WriteString("  return 0")
			eol()
			sb.WriteString("}")
			eol()
		},
		func() {
			sb.WriteString("BEGIN {")
			eol()
			sb.WriteString("  nf = 3; obj = {k: 1}; arr = [4, 5]; x = 6; y = 0; print 'begin'")
			eol()
			section("  ", w.where == "stmt")
			if w.where == "fn" {
				sb.WriteString("  r = wrapfn(1)")
				eol()
			}
			sb.WriteString("  print 'end of BEGIN'")
			eol()
			sb.WriteString("}")
			eol()
		},
		func() {
			sb.WriteString("$.id == 2 { print 'two' }")
			eol()
		},
	}
	if w.where != "top" {
		if chance(r, 0.5) {
			topItems[0], topItems[1] = topItems[1], topItems[0]
		}
		for _, it := range topItems {
			it()
			if chance(r, 0.3) {
				eol()
			}
		}
	} else {
		at := pos % (len(topItems) + 1)
		for i := 0; i <= len(topItems); i++ {
			if i == at {
				faultLine("")
			}
			if i < len(topItems) {
				topItems[i]()
			}
		}
	}
	text := sb.String()
	if chance(r, 0.3) {
		text = strings.TrimRight(text, "\r\n")
	}
	return text, faultOff, faultLen
}

// ---- the call-depth limit as a runtime fault -------------------------------------------------
//
// The limit (4096 open frames) is checked wherever a frame is pushed: for a call of a user
// function AND for the body of a match case. Which of the two is the push that exceeds it
// depends on the shape of the recursion (how many match frames a level opens, one or several
// functions) and on how many frames were open when the recursion started (a rule, one or
// two wrapper functions, match cases at rule level). Every such error must be a positioned
// runtime error: line / col / quoted line of the recursive call (its function name) or of
// the `match` whose case body could not be entered. The generator writes the program over
// many lines, remembers where every push site stands and finds the site of the 4097th push
// by simulating the pushes.

const c12DepthLimit = 4096

// one recursion shape: lines of the functions with «k:…» around push site k, "~" where filler
// lines (statements, comments, blank) may stand, "~#" where only comments may; steps(n) lists
// the sites a level with argument n pushes, in order, the last one being the recursive call
type c12DepthShape struct {
	name  string
	lines []string
	steps func(n int) []int
}

var c12DepthShapes = []c12DepthShape{
	{"match arm", []string{"function depth(n) {", "~", "  return «0:match (n)» {", "~#", "    0 => 0,", "~#", "    m => 1 + «1:depth(m - 1)»", "  }", "}"},
		func(n int) []int { return []int{0, 1} }},
	{"match arm, call on its own line", []string{"function depth(n) {", "  return «0:match (n)» {", "    0 => 0,", "    m =>", "~#", "      1 +", "      «1:depth(m - 1)»,", "  }", "}"},
		func(n int) []int { return []int{0, 1} }},
	{"match block arm", []string{"function depth(n) {", "  «0:match (n)» {", "    0 => { return 0 }", "    m => {", "~", "      return 1 + «1:depth(m - 1)»", "    }", "  }", "}"},
		func(n int) []int { return []int{0, 1} }},
	{"two nested matches per call", []string{"function depth(n) {", "  return «0:match (n)» {", "    0 => 0,", "~#", "    m => «1:match (m - 1)» {", "~#", "      k => 1 + «2:depth(k)»", "    }", "  }", "}"},
		func(n int) []int { return []int{0, 1, 2} }},
	{"three nested matches per call, block and expression arms", []string{"function depth(n) {", "  «0:match (n)» {", "    0 => { return 0 }", "    m => {", "      v = «1:match ([m, 1])» {", "        [a, b] => «2:match (a - b)» {", "~#", "          k => 1 + «3:depth(k)»", "        }", "      }", "      return v", "    }", "  }", "}"},
		func(n int) []int { return []int{0, 1, 2, 3} }},
	{"mutual: one function through a match arm, the other plain", []string{"function depth(n) {", "  return «0:match (n)» {", "    0 => 0,", "    m => 1 + «1:other(m - 1)»", "  }", "}", "~#", "function other(n) {", "  if (n == 0) return 0", "~", "  return 1 + «2:depth(n - 1)»", "}"},
		func(n int) []int { return []int{0, 1, 2} }},
	{"two arms chosen by parity", []string{"function depth(n) {", "  if (n == 0) return 0", "  return «0:match (n % 2)» {", "    0 => 1 + «1:depth(n - 1)»,  # even", "~#", "    r => 2 + «2:depth(n - 1)»   # odd", "  }", "}"},
		func(n int) []int {
			if n%2 == 0 {
				return []int{0, 1}
			}
			return []int{0, 2}
		}},
	{"match only every third level", []string{"function depth(n) {", "  if (n == 0) return 0", "  if (n % 3 != 0) return 1 + «0:depth(n - 1)»", "~", "  return «1:match (n)» {", "    m => 1 + «2:depth(m - 1)»", "  }", "}"},
		func(n int) []int {
			if n%3 != 0 {
				return []int{0}
			}
			return []int{1, 2}
		}},
	{"plain recursion", []string{"function depth(n) {", "  if (n == 0) return 0", "~", "  return 1 + «0:depth(n - 1)»", "}"},
		func(n int) []int { return []int{0} }},
	{"call in the match subject", []string{"function depth(n) {", "  return match (1 + «0:depth(n - 1)») {", "    v => v", "  }", "}"},
		func(n int) []int { return []int{0} }},
}

// how the recursion is started: lines (ENTRY = the starting call), the frames open once
// the first level's function frame is pushed, the document if a pattern rule starts it
type c12DepthStart struct {
	name   string
	lines  []string
	frames int
	doc    string
}

var c12DepthStarts = []c12DepthStart{
	{"directly from BEGIN", []string{"BEGIN {", "  print depth(10)", "~", "  print ENTRY", "  print 'not reached'", "}"}, 1, ""},
	{"directly from END", []string{"{ seen++ }", "END {", "~", "  print depth(10)", "  x = ENTRY", "}"}, 1, "[1,2]"},
	{"from a rule body", []string{"$.id == 2 {", "  print depth(10)", "~", "  print ENTRY", "}"}, 1, `[{"id": 1}, {"id": 2}]`},
	{"from a rule pattern", []string{"BEGIN { print depth(10) }", "~", "ENTRY > 0 { print 'not reached' }"}, 1, `[{"id": 1}]`},
	{"via one wrapper function", []string{"function start(n) {", "~", "  return depth(n)", "}", "~", "BEGIN {", "  print depth(10)", "  print start(10)", "  print START", "}"}, 2, ""},
	{"via two wrapper functions", []string{"function start(n) {", "  return middle(n) + 1", "}", "function middle(n) {", "~", "  return depth(n)", "}", "BEGIN {", "  print start(10)", "~", "  print START", "}"}, 3, ""},
	{"via three wrapper functions", []string{"function start(n) { return middle(n) }", "function middle(n) { return last(n) }", "~", "function last(n) { return depth(n) }", "BEGIN {", "  print start(10)", "  print START", "}"}, 4, ""},
	{"from a match arm at rule level", []string{"BEGIN {", "  print depth(10)", "  x = match (1) {", "~#", "    q => ENTRY", "  }", "}"}, 2, ""},
	{"from a match block in a match arm at rule level", []string{"BEGIN {", "  print depth(10)", "  x = match (1) {", "    q => match (q) { p => { print ENTRY } }", "  }", "}"}, 3, ""},
	{"via a wrapper function with a match arm", []string{"function start(n) {", "  return match (n) {", "~#", "    v => depth(v)", "  }", "}", "{", "  print start(10)", "  print START", "}"}, 3, `[{"id": 1}]`},
	{"via a wrapper called from a match arm", []string{"function start(n) { return depth(n) }", "BEGIN {", "  print start(10)", "~", "  match (2) { q => { print START } }", "}"}, 3, ""},
}

var c12DepthFill = []string{"", "  ", "# comment é", "\t# tab comment é 日本", "s = 'héé 日本'", "h1 = \"first half\nsecond half\"", "h2 = 'a\r\nb'", "t = \"a#b\"  # trailing", "# it's \"quoted", "h3 = \"l1\n\nl3\n\"", "u2 = \"\x80 stray\"", "#"}

// c12DepthProgram renders one shape with one start; returns the text, the span of every
// push site of the shape and the number of the site where the limit is exceeded.
func c12DepthProgram(r *rand.Rand, sh c12DepthShape, st c12DepthStart, crlf int) (text string, spans [][2]int, hit int, arg int) {
	arg = 20000 + r.Intn(80000)
	var sb strings.Builder
	eol := func() { sb.WriteString(c12Eol(r, crlf)) }
	spans = make([][2]int, 8)
	write := func(lines []string, top bool) {
		for _, l := range lines {
			if l == "~" || l == "~#" {
				for k := r.Intn(3); k > 0; k-- {
					f := pick(r, c12DepthFill)
					if (top || l == "~#") && !strings.HasPrefix(f, "#") && strings.TrimSpace(f) != "" {
						f = "# " + strings.ReplaceAll(strings.ReplaceAll(f, "\n", " "), "\r", " ") // no statements between top-level items or between the cases of a match
					}
					sb.WriteString("  " + f)
					eol()
				}
				continue
			}
			if chance(r, 0.15) {
				l = "\t" + l
			}
			l = strings.ReplaceAll(l, "ENTRY", fmt.Sprintf("depth(%d)", arg))
			l = strings.ReplaceAll(l, "START", fmt.Sprintf("start(%d)", arg))
			for {
				a := strings.Index(l, "«")
				if a < 0 {
					break
				}
				b := strings.Index(l, "»")
				k := int(l[a+len("«")] - '0')
				inner := l[a+len("«")+2 : b]
				spans[k] = [2]int{sb.Len() + a, len(inner)}
				l = l[:a] + inner + l[b+len("»"):]
			}
			sb.WriteString(l)
			eol()
		}
	}
	if chance(r, 0.5) {
		sb.WriteString(pick(r, []string{"# header é", "#!/usr/bin/env jqawk -f", "# 日本語 \x80", "", "\t"}))
		eol()
	}
	shapeFirst := chance(r, 0.5)
	if shapeFirst {
		write(sh.lines, false)
		write([]string{"~"}, true)
	}
	write(st.lines, false)
	if !shapeFirst {
		write([]string{"~"}, true)
		write(sh.lines, false)
	}
	text = sb.String()
	if chance(r, 0.3) {
		text = strings.TrimRight(text, "\r\n")
	}
	// the 4097th push: st.frames are open when the first level starts
	open, n := st.frames, arg
	for {
		for _, site := range sh.steps(n) {
			open++
			if open > c12DepthLimit {
				return text, spans, site, arg
			}
		}
		n--
	}
}

func c12DepthFaults(r *rand.Rand, tier string, emit func(Case)) {
	reps := tierN(tier, 1, 12)
	for _, sh := range c12DepthShapes {
		for _, st := range c12DepthStarts {
			for rep := 0; rep < reps; rep++ {
				text, spans, hit, arg := c12DepthProgram(r, sh, st, r.Intn(3))
				var files []File
				if st.doc != "" {
					files = []File{{Name: "in.json", Data: []byte(st.doc)}}
				}
				kind := "the call of a function"
				if strings.HasPrefix(text[spans[hit][0]:], "match") {
					kind = "the body of a match case"
				}
				emit(Case{Req: RunReq(text, nil, files, false), Fields: []string{"class", "line", "col", "src", "out"},
					Meta: metaProg(text, "fault", "call depth limit exceeded entering "+kind, "form", sh.name+", started "+st.name, "fault offset", fmt.Sprint(spans[hit][0]), "argument", fmt.Sprint(arg),
						"row", "depth limit: "+sh.name, "col", st.name),
					Oracle: c12At(text, "runtime", spans[hit][0], spans[hit][1]), NonTrivial: c12ErrNT})
			}
		}
	}
}

// ---- positions as the binary prints them ------------------------------------------------------

var c12DiagRe = regexp.MustCompile(`^(syntax|runtime) error on line (\d+): `)

// c12ParseDiag reads what cli.go's printError wrote: "  <source line>", "  <col blanks>^",
// "<kind> error on line N: message".
func c12ParseDiag(stderr string) (class string, line, col int, src string, ok bool) {
	parts := strings.SplitN(stderr, "\n", 3)
	if len(parts) < 3 || !strings.HasPrefix(parts[0], "  ") || !strings.HasPrefix(parts[1], "  ") || !strings.HasSuffix(parts[1], "^") {
		return "", 0, 0, "", false
	}
	m := c12DiagRe.FindStringSubmatch(parts[2])
	if m == nil || strings.Trim(parts[1], " ") != "^" {
		return "", 0, 0, "", false
	}
	line, _ = strconv.Atoi(m[2])
	return m[1], line, len(parts[1]) - 3, parts[0][2:], true
}

// c12DiagResp turns the binary's diagnostic into the fields of a library answer.
func c12DiagResp(i Resp) (Resp, string) {
	switch i["class"] {
	case "nobinary":
		return nil, "JQAWK_BIN is not set: the binary was not run"
	case "badrequest", "crash", "garbled", "timeout":
		return nil, "harness problem running the binary: " + i.String()
	}
	if i["exit"] == "0" {
		return Resp{"class": "ok"}, ""
	}
	class, line, col, src, ok := c12ParseDiag(string(i.Bytes("stderr")))
	if !ok {
		return nil, "exit status " + i["exit"] + " but stderr is not a positioned diagnostic (source line, caret line, 'error on line N'): " + short(strconv.Quote(string(i.Bytes("stderr"))))
	}
	return Resp{"class": class, "line": fmt.Sprint(line), "col": fmt.Sprint(col), "src": hxs(src)}, ""
}

var c12Lead = []string{"\n", "\n\n\n", "  ", "\t", "\r\n\r\n", " \n\t\n", "# leading comment\n\n", "\n# c é\n  ", "\n  ", "\n\n\t\t", " ", "\r\n", "\n \n  \n", "", "", "#!/usr/bin/env jqawk -f\n\n"}
var c12Trail = []string{"", "", "\n", "\n\n", "  ", "\r\n", "\t\n", "\n\n\n  ", " # trailing comment", "\n# c\n"}

func c12ThroughBinary(r *rand.Rand, tier string, emit func(Case)) {
	if os.Getenv("JQAWK_BIN") == "" {
		emit(Case{ID: "no-binary", Req: "cli - - - -", ImplOnly: true, Oracle: func(i Resp) string { return "JQAWK_BIN is not set: the binary was not run" },
			Meta: map[string]string{"problem": "env JQAWK_BIN is not set; this family runs the real binary"}})
		return
	}
	doc := []byte(`[{"id": 1}, {"id": 2}]`)
	n := tierN(tier, 160, 3000)
	for i := 0; i < n; i++ {
		var text, class, what string
		var off, ln int
		exact := true
		switch {
		case i%16 == 5:
			// the call-depth limit, exceeded by a function frame or by a match frame
			sh, st := pick(r, c12DepthShapes), pick(r, c12DepthStarts)
			dtext, spans, hit, _ := c12DepthProgram(r, sh, st, r.Intn(3))
			text, off, ln = dtext, spans[hit][0], spans[hit][1]
			class, what = "runtime", "call depth limit exceeded: "+sh.name+", started "+st.name
		case i%4 < 2:
			// a runtime fault of every kind in every form
			w, f := pick(r, c12Wraps), pick(r, c12Faults)
			for f.stmt && !(w.pre == "y = 2; " && w.post == "") {
				w, f = pick(r, c12Wraps), pick(r, c12Faults)
			}
			nFill := 1 + r.Intn(3)
			text, off, ln = c12FaultProgram(r, w, f, nFill, r.Intn(nFill+1), r.Intn(3))
			class, what = "runtime", "runtime fault: "+f.what
		default:
			toks := c13Program(r, true)
			body, offs := c13Render(toks, pick(r, c12Layouts), r)
			starts, ends := c12Points(toks, body, offs)
			k := r.Intn(len(toks))
			switch r.Intn(4) {
			case 0:
				o := starts[k]
				pre := " "
				text, off, ln, class, what = body[:o]+pre+"=>"+body[o:], o+len(pre), 2, "syntax", "unexpected token => before "+toks[k].s
			case 1:
				o := ends[k]
				b := pick(r, []string{"@", "^", "`", "\\", "?", "\x01"})
				text, off, ln, class, what = body[:o]+b+" "+body[o:], o, 1, "syntax", fmt.Sprintf("illegal character %q after %s", b, toks[k].s)
			case 2:
				o := pick(r, []int{starts[k], ends[k]})
				q := pick(r, []string{"'", `"`})
				other := map[string]string{"'": `"`, `"`: "'"}[q]
				text, off, ln, class, what = body[:o]+q+strings.ReplaceAll(body[o:], q, other), o+1, 1, "syntax", "unterminated string opened at offset "+fmt.Sprint(o)
			default:
				// cut off: the position of an end-of-input error depends on what white space follows
				text, class, what, exact = body[:ends[k]], "syntax", "truncated after "+toks[k].s, false
			}
		}
		lead, trail := pick(r, c12Lead), pick(r, c12Trail)
		if i%8 == 7 {
			lead = "" // starts in column 0 of line 1
		}
		if class == "syntax" && !exact {
			trail = pick(r, []string{"", "\n", "\n\n\n", "  ", "\r\n\r\n", "\n\t"})
		} else if strings.Contains(trail, "#") && strings.Contains(text[strings.LastIndexByte(text, '\n')+1:], "'") {
			trail = "\n"
		}
		text = lead + text + trail
		off += len(lead)
		g := fmt.Sprintf("bin-%d", i)
		meta := func(variant string) map[string]string {
			return metaProg(text, "fault", what, "leading", strconv.Quote(lead), "trailing", strconv.Quote(trail), "variant", variant)
		}
		libOracle := func(i Resp) string {
			if !exact {
				if i["class"] == "syntax" || i["class"] == "runtime" {
					return c12Consistent(text, i)
				}
				return ""
			}
			return c12At(text, class, off, ln)(i)
		}
		emit(Case{ID: g + "/lib", Req: RunReq(text, nil, []File{{Name: "in.json", Data: doc}}, false), Fields: c12Fields, Group: g,
			Meta: meta("library run (reference of the group)"), Oracle: libOracle, NonTrivial: c12ErrNT})
		for _, viaFile := range []bool{false, true} {
			argv := []string{text, "in.json"}
			files := []CliFile{{Name: "in.json", Data: doc}}
			variant := "the binary, program as an argument"
			if viaFile {
				argv = []string{"-f", "prog.jqawk", "in.json"}
				files = append(files, CliFile{Name: "prog.jqawk", Data: []byte(text)})
				variant = "the binary, program in a file given with -f"
			} else if strings.HasPrefix(text, "-") {
				argv = append([]string{"--"}, argv...)
			}
			id := g + map[bool]string{false: "/inline", true: "/dash-f"}[viaFile]
			emit(Case{ID: id, Req: CliReq(argv, nil, false, files, ""), Fields: []string{"exit", "out", "err"}, Group: g, Meta: meta(variant),
				NonTrivial: func(i Resp) bool { return i["exit"] == "1" },
				Oracle: func(i Resp) string {
					d, w := c12DiagResp(i)
					if w != "" {
						return w
					}
					return libOracle(d)
				},
				GroupCheck: func(first, self Resp) string {
					d, w := c12DiagResp(self)
					if w != "" {
						return "" // reported by the oracle
					}
					if first["class"] != "ok" && first["class"] != "syntax" && first["class"] != "runtime" {
						return ""
					}
					for _, f := range c12Fields {
						if d[f] != first[f] {
							return fmt.Sprintf("the binary's diagnostic says %s=%s, the library reports %s=%s for the same program text (binary: class %s line %s col %s src %q; library: class %s line %s col %s src %q)",
								f, short(d[f]), f, short(first[f]), d["class"], d["line"], d["col"], d.Bytes("src"), first["class"], first["line"], first["col"], first.Bytes("src"))
						}
					}
					if string(self.Bytes("out")) != string(first.Bytes("out")) {
						return fmt.Sprintf("stdout %q, the library printed %q before the error", self.Bytes("out"), first.Bytes("out"))
					}
					return ""
				}})
		}
	}
}

// ---- positions through the binary with SEVERAL input files -------------------------------------
//
// A runtime fault keeps its position whatever the input looks like: one, two or three input
// files (one of them /dev/stdin), the fault raised while the first, a middle or the last file
// is processed, in a rule of every kind (BEGIN, BEGINFILE, a pattern, a rule body, ENDFILE,
// END) or in a function called from it. The faults are triggered by the DATA (a record with
// d = 0, a bad regex, an index out of range, an array where a number is compared, a number
// where printf wants a string), so the rules run cleanly on every value before the trigger.

type c12DataFault struct {
	text string // the faulty expression, over the record `$` (or `v` inside the function)
	what string
}

var c12DataFaults = []c12DataFault{
	{"$.a / $.d", "division by a zero field"}, {"$.a % $.d", "modulo by a zero field"}, {"$.s ~ $.re", "bad regex from the data"},
	{"[10, 20, 30][$.i]", "index from the data out of range"}, {"$.a < $.t", "compare with an array from the data"}, {"printf(\"%s\\n\", $.p)", "printf %s with a number from the data"},
	{"100 / ($.d * 2)", "division by a computed zero"}, {"$.a /\n    $.d", "division spread over two lines"},
}

const c12GoodRec = `{"a": 6, "d": 3, "s": "abc", "re": "b", "i": 1, "t": 9, "p": "str"}`

// the record that triggers fault k
func c12TriggerRec(k int) string {
	switch k {
	case 2:
		return `{"a": 6, "d": 3, "s": "abc", "re": "(", "i": 1, "t": 9, "p": "str"}`
	case 3:
		return `{"a": 6, "d": 3, "s": "abc", "re": "b", "i": -5, "t": 9, "p": "str"}`
	case 4:
		return `{"a": 6, "d": 3, "s": "abc", "re": "b", "i": 1, "t": [9], "p": "str"}`
	case 5:
		return `{"a": 6, "d": 3, "s": "abc", "re": "b", "i": 1, "t": 9, "p": 5}`
	}
	return `{"a": 6, "d": 0, "s": "abc", "re": "b", "i": 1, "t": 9, "p": "str"}`
}

var c12RuleKinds = []string{"BEGIN", "BEGINFILE", "pattern", "body", "ENDFILE", "END", "fn-from-BEGINFILE", "fn-from-pattern", "fn-from-body", "fn-from-ENDFILE", "bodyless-pattern"}

// c12MultiFileProgram: a multi-line program with the fault in a rule of the given kind;
// returns the text and the span of the faulty expression.
func c12MultiFileProgram(r *rand.Rand, kind string, f c12DataFault, crlf int) (string, int, int) {
	var sb strings.Builder
	eol := func() { sb.WriteString(c12Eol(r, crlf)) }
	line := func(s string) { sb.WriteString(s); eol() }
	fill := func(indent string) {
		for k := r.Intn(3); k > 0; k-- {
			line(indent + pick(r, []string{"# comment é", "y = y + 1", "s = 'héé 日本'", "", "t = \"a#b\"  # trailing", "h1 = \"first half\nsecond half\"", "#", "u2 = \"\x80 stray\""}))
		}
	}
	off := -1
	fault := func(pre, text, post string) {
		sb.WriteString(pre)
		off = sb.Len()
		sb.WriteString(text)
		line(post)
	}
	static := "1 / (n - n)" // BEGIN and END rules see no record
	inFn := strings.HasPrefix(kind, "fn-")
	fnText := strings.ReplaceAll(f.text, "$", "v")
	if chance(r, 0.5) {
		line(pick(r, []string{"# ratio per record é", "#!/usr/bin/env jqawk -f", "# 日本語 \x80"}))
	}
	if chance(r, 0.3) {
		eol()
	}
	items := []func(){
		func() {
			line("function chk(v) {")
			fill("  ")
			if inFn {
				fault("  w = ", fnText, pick(r, []string{"", "  # é", " "}))
			} else {
				line("  w = v.a")
			}
			line("  return w")
			line("}")
		},
		func() {
			line("BEGIN {")
			line("  n = 0; y = 0")
			fill("  ")
			if kind == "BEGIN" {
				fault("  x = ", static, "")
			}
			line("  print 'begin'")
			line("}")
		},
		func() {
			line("BEGINFILE {")
			fill("  ")
			line("  bf++")
			switch kind {
			case "BEGINFILE":
				fault(pick(r, []string{"  x = ", "  print 'bf', ", "  if (bf > 0) x = "}), f.text, "")
			case "fn-from-BEGINFILE":
				line("  x = chk($)")
			}
			line("  print 'B', $file, bf")
			line("}")
		},
		func() {
			switch kind {
			case "pattern":
				pre := pick(r, []string{"", "$.a > 0 && ", "('p1\np2' != ("})
				fault(pre, f.text, map[bool]string{true: ")) { print 'hit' }", false: " { print 'hit' }"}[strings.HasPrefix(pre, "(")])
			case "fn-from-pattern":
				line("chk($) > 100 { print 'big' }")
			case "bodyless-pattern":
				fault("", f.text, "")
			default:
				line("$.a > 100 { print 'big' }")
			}
		},
		func() {
			line("{")
			line("  n++")
			fill("  ")
			switch kind {
			case "body":
				pre := pick(r, []string{"  print ", "  x = ", "  if (n > 0) { x = ", "  print 'v', n, "})
				fault(pre, f.text, map[bool]string{true: " }", false: ""}[strings.HasSuffix(pre, "{ x = ")])
			case "fn-from-body":
				line("  print chk($)")
			}
			line("  print 'v', n, $.a")
			line("}")
		},
		func() {
			line("ENDFILE {")
			fill("  ")
			switch kind {
			case "ENDFILE":
				fault(pick(r, []string{"  x = ", "  print 'ef', "}), f.text, "")
			case "fn-from-ENDFILE":
				line("  x = chk($)")
			}
			line("  print 'E', $file")
			line("}")
		},
		func() {
			line("END {")
			fill("  ")
			if kind == "END" {
				fault("  print ", static, "")
			}
			line("  print 'end', n")
			line("}")
		},
	}
	// the function anywhere among the rules; the rules of different kinds in any order (the order
	// of rules of different kinds does not matter for the schedule)
	r.Shuffle(len(items), func(a, b int) { items[a], items[b] = items[b], items[a] })
	for _, it := range items {
		it()
		if chance(r, 0.3) {
			eol()
		}
	}
	text := sb.String()
	n := len(f.text)
	if kind == "BEGIN" || kind == "END" {
		n = len(static)
	} else if inFn {
		n = len(fnText)
	}
	if chance(r, 0.3) {
		text = strings.TrimRight(text, "\r\n")
	}
	return text, off, n
}

func c12MultiFile(r *rand.Rand, tier string, emit func(Case)) {
	if os.Getenv("JQAWK_BIN") == "" {
		return // reported by c12ThroughBinary
	}
	n := tierN(tier, 220, 4000)
	names := []string{"one.json", "two.json", "sub/three.json"}
	for i := 0; i < n; i++ {
		kind := c12RuleKinds[i%len(c12RuleKinds)]
		fk := r.Intn(len(c12DataFaults))
		f := c12DataFaults[fk]
		text, off, ln := c12MultiFileProgram(r, kind, f, r.Intn(3))
		lead := pick(r, c12Lead)
		if i%8 == 7 {
			lead = ""
		}
		text = lead + text
		off += len(lead)
		// 1-3 files of 1-3 records each; the trigger in the first / second / last file
		nf := 1 + (i/len(c12RuleKinds))%3
		tf := pick(r, []int{0, 1, nf - 1})
		if tf >= nf {
			tf = nf - 1
		}
		trig := c12TriggerRec(fk % 8)
		if fk >= 6 {
			trig = c12TriggerRec(0)
		}
		var lib []File
		var disk []CliFile
		var argvFiles []string
		var stdin []byte
		stdinAt := -1
		if nf >= 2 && chance(r, 0.25) {
			stdinAt = r.Intn(nf) // stdin plus files: /dev/stdin among the file arguments
		}
		for k := 0; k < nf; k++ {
			nv := 1 + r.Intn(3)
			vals := make([]string, nv)
			for j := range vals {
				vals[j] = c12GoodRec
			}
			if k == tf {
				vals[r.Intn(nv)] = trig
			}
			var data string
			if chance(r, 0.3) && kind != "BEGINFILE" && kind != "ENDFILE" && !strings.HasSuffix(kind, "FILE") {
				data = "[" + strings.Join(vals, ", ") + "]\n" // one array of records: the pattern rules see the records
			} else {
				data = strings.Join(vals, "\n") + "\n"
			}
			name := names[k]
			if k == stdinAt {
				name = "/dev/stdin"
				stdin = []byte(data)
			} else {
				disk = append(disk, CliFile{Name: name, Data: []byte(data)})
			}
			lib = append(lib, File{Name: name, Data: []byte(data)})
			argvFiles = append(argvFiles, name)
		}
		what := fmt.Sprintf("%s in a %s rule, %d input file(s), triggered by file %d", f.what, kind, nf, tf+1)
		if stdinAt >= 0 {
			what += fmt.Sprintf(", file %d is /dev/stdin", stdinAt+1)
		}
		g := fmt.Sprintf("mf-%d", i)
		meta := func(variant string) map[string]string {
			m := metaProg(text, "fault", what, "variant", variant, "row", kind, "col", fmt.Sprintf("%d files, trigger in file %d", nf, tf+1))
			for _, fl := range lib {
				m["file "+fl.Name] = string(fl.Data)
			}
			return m
		}
		libOracle := c12In(text, "runtime", off, ln)
		emit(Case{ID: g + "/lib", Req: RunReq(text, nil, lib, false), Fields: append([]string{"out"}, c12Fields...), Group: g,
			Meta: meta("library run (reference of the group)"), Oracle: libOracle, NonTrivial: c12ErrNT})
		for _, viaFile := range []bool{false, true} {
			if viaFile && i%2 == 0 {
				continue
			}
			argv := append([]string{text}, argvFiles...)
			files := append([]CliFile{}, disk...)
			variant := "the binary, program as an argument"
			if viaFile {
				argv = append([]string{"-f", "prog.jqawk"}, argvFiles...)
				files = append(files, CliFile{Name: "prog.jqawk", Data: []byte(text)})
				variant = "the binary, program in a file given with -f"
			} else if strings.HasPrefix(text, "-") {
				argv = append([]string{"--"}, argv...)
			}
			c := Case{ID: g + map[bool]string{false: "/inline", true: "/dash-f"}[viaFile], Req: CliReq(argv, stdin, stdinAt >= 0, files, ""), Fields: []string{"exit", "out", "err"}, Group: g, Meta: meta(variant),
				NonTrivial: func(i Resp) bool { return i["exit"] == "1" },
				Oracle: func(i Resp) string {
					d, w := c12DiagResp(i)
					if w != "" {
						return w
					}
					return libOracle(d)
				},
				GroupCheck: func(first, self Resp) string {
					d, w := c12DiagResp(self)
					if w != "" {
						return "" // reported by the oracle
					}
					if first["class"] != "ok" && first["class"] != "syntax" && first["class"] != "runtime" {
						return ""
					}
					for _, f := range c12Fields {
						if d[f] != first[f] {
							return fmt.Sprintf("the binary's diagnostic says %s=%s, the library reports %s=%s for the same program text and inputs (binary: class %s line %s col %s src %q; library: class %s line %s col %s src %q)",
								f, short(d[f]), f, short(first[f]), d["class"], d["line"], d["col"], d.Bytes("src"), first["class"], first["line"], first["col"], first.Bytes("src"))
						}
					}
					if string(self.Bytes("out")) != string(first.Bytes("out")) {
						return fmt.Sprintf("stdout %q, the library printed %q before the error", self.Bytes("out"), first.Bytes("out"))
					}
					return ""
				}}
			if stdinAt >= 0 {
				// the model knows stdin only as bytes: the same bytes in a plain file of that name
				c.ModelReq = CliReq(argv, nil, false, append(append([]CliFile{}, files...), CliFile{Name: "/dev/stdin", Data: stdin}), "")
			}
			emit(c)
		}
	}
}

// ---- selector faults of every kind, in selector texts that look nothing like the program -------

// expressions that evaluate without a fault but whose VALUE cannot become a root (a method
// bound to its receiver, a builtin): the error is raised by the final copy, after the
// selector's own evaluation
var c12SelCopyExprs = []string{
	"$.a.length", "$.b.pluck", "printf", "json", "num", "[1].push", "'x'.upper", "(1).floor", "$.a.sort", "$.a[0].floor", "$.b.c.split", "$['a'].pop",
	"($.a.length)", "$.a.contains", "$.a.popfirst", "$.b.c.lower", "$.b.length", "$.a[1].round", "$.a[0].ceil", "\"é日本\".length", "$.b.c.upper", "[$.a][0].push",
	"$\n  .a\n  .length", "$.a # pick the array é\n  .push", "$ .b\r\n\t.pluck", "$.b\n\n\n.c\n.split", "match (1) { 1 => num }", "match ($.a) {\n  [p, q] => p.floor\n}",
	"(\n  json\n)", "{k: 1}.pluck", "[1, 2,\n 3].length", "$.a[0 +\n 1].floor", "((printf))", "$.b['c'].length",
}

// the same on the SECOND value of the input only (the first value selects fine)
var c12SelCopyLater = []string{"$.a.push", "$.a.pop", "$.a.sort", "$.a.contains", "$.a\n  .popfirst", "$.d.floor", "$['d']\n.round"}
var c12SelRuntimeLater = []string{"1 / $.d", "7 % $.d", "'abc' ~ $.re", "$.a[0 - $.n]", "$.d / $.d"}

// valid selectors (no strings, comments or operators that an inserted '=>' could merge with)
var c12SelValid = []string{"$.a", "$.b.c", "$.a[0]", "$\n  .b\n  .c", "[$.a,\n $.b]", "$.a.length()", "{k: $.a,\n j: $.b}", "$.b.pluck(\n  $.b.c\n)", "match ($.a) {\n  [p, q] => p\n}"}

// programs whose lines look nothing like a selector's: one line, three lines, many lines,
// leading blank lines, CR LF, empty
var c12SelProgs = []string{
	"BEGIN { print 'b' }\n{ print $ }\nEND { print 'e' }",
	"{ print $ }",
	"\n\n# program comment\nBEGIN { n = 0 } # P4\n{ n = n + 1; print n, $ } # P5\n\n\nEND { print n } # P8\n",
	"BEGIN { print 'b' }\r\n{ print 'v', $ }\r\n",
	"BEGIN {\n  n = 0\n}\n\n{\n  n = n + 1\n  if (n > 0) {\n    print n, $\n  }\n}\n\nEND {\n  print 'end', n\n}\n",
	"BEGIN { n = 0 }\n{ n = n + 1 }\nEND { print n }",
	"",
	"      { print $ } # everything far to the right of any selector column                                                  ",
}

const c12SelDoc = `{"a": [1, 2], "b": {"c": "x"}}`
const c12SelDocs2 = `{"a": "str", "b": {"c": "x"}, "d": 1, "re": "b", "n": 0}` + "\n" + `{"a": [1, 2], "b": {"c": "x"}, "d": 0, "re": "(", "n": 9}`

func c12SelectorFaultKinds(r *rand.Rand, tier string, emit func(Case)) {
	fields := []string{"class", "line", "col", "src", "out"}
	layout := func(expr string) (text string, off int, lead, trail string) {
		lead, trail = pick(r, c12Lead), pick(r, c12Trail)
		if chance(r, 0.15) {
			lead = strings.Repeat(pick(r, []string{"\n", "\r\n", "# c\n", "  \n"}), 1+r.Intn(12))
		}
		if strings.Contains(trail, "#") && strings.ContainsAny(expr[strings.LastIndexByte(expr, '\n')+1:], "'\"") {
			trail = "\n"
		}
		return lead + expr + trail, len(lead), lead, trail
	}
	// one case: the fault sits in selector number `which` of sels
	one := func(kind, what, prog string, sels []string, which int, doc string, oracle func(Resp) string) {
		text := sels[which]
		nl := strings.Count(text, "\n") + 1
		col := fmt.Sprintf("selector of %d line(s), program of %d", nl, strings.Count(prog, "\n")+1)
		if nl > 3 {
			col = fmt.Sprintf("selector of 4+ lines, program of %d", strings.Count(prog, "\n")+1)
		}
		meta := metaProg(prog, "selector", text, "fault", what, "row", kind, "col", col, "input", doc)
		if len(sels) > 1 {
			meta["selectors"] = fmt.Sprintf("%d selectors, the fault is in number %d; the other: %q", len(sels), which+1, sels[1-which])
		}
		emit(Case{Req: RunReq(prog, sels, []File{{Name: "in.json", Data: []byte(doc)}}, false), Fields: fields, Meta: meta, Oracle: oracle, NonTrivial: c12ErrNT})
	}
	// the selector list around the faulty text: alone, before or after a faultless one of a different shape
	around := func(text string) ([]string, int) {
		switch r.Intn(5) {
		case 0:
			return []string{pick(r, []string{"$.b", "\n\n\n\n$.a\n", "  $  ", "# only a comment line first\n$.b.c"}), text}, 1
		case 1:
			return []string{text, pick(r, []string{"$.b", "\n\n$.a"})}, 0
		}
		return []string{text}, 0
	}
	reps := tierN(tier, 24, 120)
	// (1) the final copy of the selected value fails
	for _, e := range c12SelCopyExprs {
		for rep := 0; rep < reps; rep++ {
			text, off, _, _ := layout(e)
			sels, which := around(text)
			one("copy of the selected value", "the value of "+e+" cannot become a root", pick(r, c12SelProgs), sels, which, c12SelDoc, c12In(text, "runtime", off, len(e)))
		}
	}
	// (2) ... only for the second value of the input
	for _, e := range c12SelCopyLater {
		for rep := 0; rep < reps/2+1; rep++ {
			text, off, _, _ := layout(e)
			sels, which := around(text)
			one("copy of the selected value, second input value", "the value of "+e+" cannot become a root for the second value", pick(r, c12SelProgs), sels, which, c12SelDocs2, c12In(text, "runtime", off, len(e)))
		}
	}
	for _, e := range c12SelRuntimeLater {
		for rep := 0; rep < reps/2+1; rep++ {
			text, off, _, _ := layout(e)
			sels, which := around(text)
			one("runtime fault inside the expression, second input value", e+" faults for the second value", pick(r, c12SelProgs), sels, which, c12SelDocs2, c12In(text, "runtime", off, len(e)))
		}
	}
	// (3) a runtime fault inside the expression
	wraps := []c12Wrap{{"", "", false, ""}, {"$.a[0] + ", "", true, ""}, {"[$.a,\n  ", "]", false, ""}, {"$.b\n\n  .c + 'é' + ", "", true, ""}, {"{k:\r\n\t", "}", false, ""}, {"nf = 3 + ", "", true, ""}, {"$.a.contains(\n", "\n)", false, ""}}
	for _, f := range c12Faults {
		if f.stmt {
			continue
		}
		for rep := 0; rep < tierN(tier, 8, 40); rep++ {
			w := pick(r, wraps)
			e := w.pre
			if w.paren {
				e += "("
			}
			foff := len(e)
			e += f.text
			if w.paren {
				e += ")"
			}
			e += w.post
			text, off, _, _ := layout(e)
			sels, which := around(text)
			flen := len(f.text)
			at := off + foff
			one("runtime fault inside the expression", f.what+": "+f.text, pick(r, c12SelProgs), sels, which, c12SelDoc, func(i Resp) string {
				if i["class"] == "runtime" || i["class"] == "syntax" {
					if w := c12Consistent(text, i); w != "" {
						return w
					}
				}
				if i["class"] == "runtime" {
					return c12In(text, "runtime", at, flen)(i)
				}
				return ""
			})
		}
	}
	// (4) syntax and lexical faults
	for _, e := range c12SelValid {
		for rep := 0; rep < tierN(tier, 30, 150); rep++ {
			text, off, _, trail := layout(e)
			o := off + r.Intn(len(e)+1)
			if o > 0 && o < len(text) && text[o-1] == '=' && text[o] == '>' {
				o++ // never split the arrow of a match arm: "= <x> >" fails earlier, at the assignment
			}
			var mut, what, kind string
			var at, n int
			mode := rep % 3
			if mode == 0 && strings.Contains(e, "=>") {
				mode = 1 // an inserted => next to the arrow of a match arm is not the first unexpected token
			}
			switch mode {
			case 0:
				pre := pick(r, []string{"", " ", "\t"})
				mut, at, n, kind, what = text[:o]+pre+"=>"+pick(r, []string{"", " "})+text[o:], o+len(pre), 2, "syntax: unexpected token", fmt.Sprintf("=> at offset %d", o)
			case 1:
				b := pick(r, c12BadSeqs)
				ld := ""
				if o > 0 && c13WordByte(text[o-1]) && len(b.seq) > 1 {
					ld = " "
				}
				mut, at, n = text[:o]+ld+b.seq+text[o:], o+b.at, 1
				if len(b.seq) > 1 {
					at, n = o+len(ld), len(b.seq)
				}
				kind, what = "lexical: illegal character", fmt.Sprintf("%q at offset %d", b.seq, o)
			default:
				if strings.Contains(trail, "#") {
					continue
				}
				q := pick(r, []string{"'", `"`})
				mut, at, n, kind, what = text[:o]+q+text[o:], o+1, 1, "lexical: unterminated string", fmt.Sprintf("opening %s at offset %d", q, o)
			}
			sels, which := around(mut)
			one(kind, what, pick(r, c12SelProgs), sels, which, c12SelDoc, c12At(mut, "syntax", at, n))
		}
	}
	// (5) the real binary with -r: the diagnostic on stderr quotes the selector's line
	if os.Getenv("JQAWK_BIN") == "" {
		return
	}
	for rep := 0; rep < tierN(tier, 40, 400); rep++ {
		var e, kind string
		class := "runtime"
		switch rep % 4 {
		case 0, 1:
			e, kind = pick(r, c12SelCopyExprs), "binary -r: copy of the selected value"
		case 2:
			e, kind = "$.a[0] + ("+pick(r, []string{"1 / 0", "7 % 0", "[1] < 2", "$nope", "'abc' ~ '('"})+")", "binary -r: runtime fault inside the expression"
		default:
			e, kind, class = pick(r, c12SelValid)+" =>", "binary -r: syntax", "syntax"
		}
		text, off, _, _ := layout(e)
		if class == "syntax" {
			text = text[:off+len(e)]
		}
		if strings.HasPrefix(text, "-") {
			continue
		}
		prog := pick(r, c12SelProgs)
		if prog == "" {
			prog = "{ print }"
		}
		argv := []string{"-r", text, prog, "in.json"}
		at, n := off, len(e)
		if class == "syntax" {
			at, n = off+len(e)-2, 2
		}
		emit(Case{Req: CliReq(argv, nil, false, []CliFile{{Name: "in.json", Data: []byte(c12SelDoc)}}, ""), Fields: []string{"exit", "out", "err"},
			Meta:       metaProg(prog, "selector", text, "fault", e, "row", kind, "col", "the binary's stderr"),
			NonTrivial: func(i Resp) bool { return i["exit"] == "1" },
			Oracle: func(i Resp) string {
				d, w := c12DiagResp(i)
				if w != "" {
					return w
				}
				return c12In(text, class, at, n)(d)
			}})
	}
}

func init() {
	register(Family{
		Name: "pos-every-offset", Prop: "C12",
		Rule: "GetLineAndCol at EVERY byte offset (0..len+3) of generated texts with blank lines, comments, CRLF, tabs, CRs, multi-byte characters and stray bytes >= 0x80, with and without final newline; oracle: src = line `line` of the text split at \\n, col = offset - start of that line; non-trivial = offset not in the first line's first column",
		Gen: func(r *rand.Rand, tier string, emit func(Case)) {
			texts := []string{"", "\n", "\n\n", "a", "a\n", "\na", "\r\n", "\r\n\r\n", "é", "é\né", "\x80", "a\nb\nc", "a\n\nb\n", "\n\n\n", "x\r\ny\r\n", "日本\n語", "\xff\n\xfe\n"}
			n := tierN(tier, 300, 4000)
			for i := 0; i < n; i++ {
				texts = append(texts, c12Text(r))
			}
			for ti, t := range texts {
				for off := 0; off <= len(t)+3; off++ {
					t, off := t, off
					emit(Case{ID: fmt.Sprintf("text%d@%d", ti, off), Req: fmt.Sprintf("pos %s %d", hxs(t), off), Fields: []string{"line", "col", "src"},
						Meta: map[string]string{"text": t, "offset": fmt.Sprint(off)},
						Oracle: func(i Resp) string {
							wl, wc, ws := c12LineOf(t, off)
							if i["line"] != fmt.Sprint(wl) || i["col"] != fmt.Sprint(wc) || string(i.Bytes("src")) != ws {
								return fmt.Sprintf("offset %d of %q: got line %s col %s src %q, the text says line %d col %d src %q", off, t, i["line"], i["col"], i.Bytes("src"), wl, wc, ws)
							}
							return ""
						},
						NonTrivial: func(i Resp) bool { return i["line"] != "" && (i["line"] != "1" || i["col"] != "0") }})
				}
			}
		},
	})
	register(Family{
		Name: "illegal-character", Prop: "C12",
		Rule: "multi-line programs (token sequences of the C13 generator in 6 layouts) with one illegal byte sequence (ASCII, control, stray >= 0x80, multi-byte characters) inserted at every token start, every token end (before a newline, after ; , print-list commas, inside for headers ...), inside identifiers and numbers, at offset 0 and at the end (with and without a final newline); two programs in three are preceded (one in three of those also followed) by a block of hostile statements -- string and regex literals containing raw line breaks (LF, CR LF, several, one right before the closing quote), \\n escapes, comments containing quotes, tabs, multi-byte characters, form feeds, U+2028 / U+0085, CR-only, empty lines, lines of 300 - 5 000 (rarely 70 000) bytes -- with the illegal sequence also right after each of those statements; plus listed faults after lines of 300 / 5 000 / 70 000 bytes; oracle: a syntax error whose line/col point exactly at the rejected byte (into the character for multi-byte ones) and whose src is that line",
		Gen: func(r *rand.Rand, tier string, emit func(Case)) {
			n := tierN(tier, 24, 400)
			for p := 0; p < n; p++ {
				toks := c13Program(r, true)
				layout := c12Layouts[p%len(c12Layouts)]
				text, offs := c13Render(toks, layout, r)
				starts, ends := c12Points(toks, text, offs)
				type pt struct {
					off  int
					what string
					word bool // directly after a word: a letter-like lead byte would merge into it
				}
				var hostile []int
				if p%3 != 0 {
					// hostile text before (and sometimes after) the program
					text, hostile = c12Surround(r, text, starts, ends)
				}
				noFinalNL := !strings.HasSuffix(text, "\n") && !strings.Contains(text[strings.LastIndexByte(text, '\n')+1:], "#")
				text += "\n" // a trailing comment must not swallow what is appended
				pts := []pt{{0, "offset 0", false}, {len(text), "end of text", false}}
				if noFinalNL {
					pts = append(pts, pt{len(text) - 1, "end of the last line, which has no final newline", false})
				}
				for _, h := range hostile {
					pts = append(pts, pt{h, "right after a hostile statement (multi-line literal, comment with quotes, ...) before the program", false})
				}
				for i := range toks {
					pts = append(pts, pt{starts[i], "start of token " + toks[i].s, false}, pt{ends[i], "end of token " + toks[i].s, toks[i].kind == 'w'})
					if (toks[i].kind == 'w' || toks[i].kind == 'n') && len(toks[i].s) >= 2 && !c12IsKeyword(toks[i].s) {
						// split an identifier or a number (never so that a keyword is left standing)
						k := 1 + r.Intn(len(toks[i].s)-1)
						if !c12IsKeyword(toks[i].s[:k]) && toks[i].s[:k] != "$" {
							pts = append(pts, pt{starts[i] + k, "inside token " + toks[i].s, false})
						}
					}
				}
				for _, q := range pts {
					b := pick(r, c12BadSeqs)
					pad := pick(r, []string{"", "", " "})
					lead := ""
					if (q.word || (q.off > 0 && c13WordByte(text[q.off-1]))) && len(b.seq) > 1 {
						lead = " " // keep a keyword a keyword
					}
					mut := text[:q.off] + lead + b.seq + pad + text[q.off:]
					if q.what == "end of the last line, which has no final newline" {
						mut = text[:q.off] + lead + b.seq
					}
					at, n := q.off+b.at, 1
					if len(b.seq) > 1 {
						at, n = q.off+len(lead), len(b.seq)
					}
					emit(Case{Req: RunReq(mut, nil, nil, false), Fields: c12Fields,
						Meta:   metaProg(mut, "inserted", fmt.Sprintf("%q at offset %d (%s)", b.seq, q.off, q.what), "layout", c13LayoutNames[layout]),
						Oracle: c12At(mut, "syntax", at, n), NonTrivial: c12ErrNT})
				}
			}
			c12LongLines("illegal", emit)
			// single & and | (half an operator), and bytes that are fine inside strings and comments
			for _, t := range []string{"BEGIN {\n  a = 1\n  b = a & 2\n}", "BEGIN {\n  a = 1\n  b = a | 2\n}", "BEGIN { a = 1 &", "BEGIN { a = 1 |\n}", "BEGIN {\n x = 1 &&& 2\n}", "BEGIN {\n x = 1 ||| 2\n}"} {
				t := t
				at := strings.IndexAny(t, "&|")
				if strings.Contains(t, "&&&") || strings.Contains(t, "|||") {
					at += 2
				}
				emit(Case{Req: RunReq(t, nil, nil, false), Fields: c12Fields, Meta: metaProg(t, "inserted", "half an operator"), Oracle: c12At(t, "syntax", at, 1), NonTrivial: c12ErrNT})
			}
			for _, b := range c12BadSeqs {
				if b.seq == "\\" {
					continue
				}
				for _, t := range []string{"BEGIN {\n  s = 'a" + b.seq + "b'\n  print s.length() # c" + b.seq + "\n}\n# " + b.seq, "BEGIN { print \"" + b.seq + "\" } #" + b.seq} {
					t := t
					emit(Case{Req: RunReq(t, nil, nil, false), Fields: []string{"class", "out"}, Meta: metaProg(t, "control", "the sequence only inside strings and comments"),
						Oracle: func(i Resp) string {
							if i["class"] != "ok" {
								return "bytes inside a string or comment were rejected: " + i.String()
							}
							return ""
						}})
				}
			}
		},
	})
	register(Family{
		Name: "unterminated-literal", Prop: "C12",
		Rule: "the same programs (same hostile blocks before / after, the opening quote also right after every hostile statement, so that the unterminated literal spans many lines) with an opening quote (matching quotes removed from the rest) at every token boundary: syntax error exactly one byte after the quote; with a '/' in operand position (later slashes removed): exactly at the slash",
		Gen: func(r *rand.Rand, tier string, emit func(Case)) {
			n := tierN(tier, 20, 300)
			for p := 0; p < n; p++ {
				toks := c13Program(r, true)
				layout := c12Layouts[p%len(c12Layouts)]
				text, offs := c13Render(toks, layout, r)
				starts, ends := c12Points(toks, text, offs)
				var hostile []int
				if p%3 != 0 {
					text, hostile = c12Surround(r, text, starts, ends)
				}
				unterminated := func(off int, where string) {
					q := pick(r, []string{"'", `"`})
					other := map[string]string{"'": `"`, `"`: "'"}[q]
					mut := text[:off] + q + strings.ReplaceAll(text[off:], q, other)
					emit(Case{Req: RunReq(mut, nil, nil, false), Fields: c12Fields, Meta: metaProg(mut, "inserted", fmt.Sprintf("opening %s at offset %d%s", q, off, where)),
						Oracle: c12At(mut, "syntax", off+1, 1), NonTrivial: c12ErrNT})
				}
				for _, h := range hostile {
					unterminated(h, " (right after a hostile statement before the program)")
				}
				for i := range toks {
					unterminated(pick(r, []int{starts[i], ends[i]}), "")
					if i > 0 && toks[i-1].kind == 'o' && strings.Contains(" = += -= *= ( , + - * % < <= > >= == != && || ! [ : ~ !~ ", " "+toks[i-1].s+" ") && (toks[i].kind == 'n' || toks[i].kind == 's' || (toks[i].kind == 'w' && toks[i].s != "in")) {
						// operand position: a '/' starts a regex literal
						off := starts[i]
						mut := text[:off] + "/" + strings.ReplaceAll(text[off:], "/", " ")
						emit(Case{Req: RunReq(mut, nil, nil, false), Fields: c12Fields, Meta: metaProg(mut, "inserted", fmt.Sprintf("opening / at offset %d", off)),
							Oracle: c12At(mut, "syntax", off, 1), NonTrivial: c12ErrNT})
					}
				}
			}
			c12LongLines("unterminated", emit)
			for _, t := range []string{"'", `"`, "x = '", "BEGIN {\n print 'abc\n}\n", "BEGIN {\n print 1\n print \"é\n\n}", "BEGIN { x = 1 }\n'", "BEGIN { x = /abc\n}", "/", "BEGIN { x = 'a' ~ /", "BEGIN {\n\n  x = [/a/, /b\n]}", "BEGIN { x = 'é' + 'ü\n}"} {
				t := t
				emit(Case{Req: RunReq(t, nil, nil, false), Fields: c12Fields, Meta: metaProg(t, "probe", "unterminated literal (listed)"),
					Oracle: func(i Resp) string {
						if i["class"] != "syntax" {
							return "expected a syntax error: " + i.String()
						}
						return c12Consistent(t, i)
					}, NonTrivial: c12ErrNT})
			}
		},
	})
	register(Family{
		Name: "unexpected-token", Prop: "C12",
		Rule: "the same programs (without match, so that '=>' is never legal; same hostile blocks, '=>' also right after every hostile statement) with '=>' inserted at every token boundary: syntax error exactly at the inserted token; and truncated at every token boundary: whatever is reported must quote its own line (end-of-input errors)",
		Gen: func(r *rand.Rand, tier string, emit func(Case)) {
			n := tierN(tier, 20, 300)
			for p := 0; p < n; p++ {
				toks := c13Program(r, true)
				layout := c12Layouts[p%len(c12Layouts)]
				text, offs := c13Render(toks, layout, r)
				starts, ends := c12Points(toks, text, offs)
				var hostile []int
				if p%3 != 0 {
					text, hostile = c12Surround(r, text, starts, ends)
				}
				for _, off := range hostile {
					mut := text[:off] + " =>" + text[off:]
					emit(Case{Req: RunReq(mut, nil, nil, false), Fields: c12Fields, Meta: metaProg(mut, "inserted", fmt.Sprintf("=> at offset %d right after a hostile statement before the program", off+1)),
						Oracle: c12At(mut, "syntax", off+1, 2), NonTrivial: c12ErrNT})
				}
				for i := range toks {
					off := starts[i]
					pre := pick(r, []string{"", " ", "\t"})
					if off > 0 && strings.IndexByte("+-*/=!<>", text[off-1]) >= 0 {
						pre = " " // "+=>" would be "+=" ">"
					}
					mut := text[:off] + pre + "=>" + pick(r, []string{" ", "", "\t"}) + text[off:]
					emit(Case{Req: RunReq(mut, nil, nil, false), Fields: c12Fields, Meta: metaProg(mut, "inserted", fmt.Sprintf("=> at offset %d before %s", off+len(pre), toks[i].s)),
						Oracle: c12At(mut, "syntax", off+len(pre), 2), NonTrivial: c12ErrNT})
					cut := text[:ends[i]] + pick(r, []string{"", "\n", " ", "\n\n", " # c"})
					emit(Case{Req: RunReq(cut, nil, nil, false), Fields: c12Fields, Meta: metaProg(cut, "truncated", "after token "+toks[i].s),
						Oracle: func(i Resp) string {
							if i["class"] == "syntax" || i["class"] == "runtime" {
								return c12Consistent(cut, i)
							}
							return ""
						}, NonTrivial: c12ErrNT})
				}
			}
			c12LongLines("arrow", emit)
		},
	})
	register(Family{
		Name: "selector-fault-position", Prop: "C12",
		Rule: "faults in a -r selector expression (one or several lines): illegal byte sequences at every offset class, unterminated literals, '=>', and every runtime fault kind; the error must quote and point into the SELECTOR text, not the program",
		Gen: func(r *rand.Rand, tier string, emit func(Case)) {
			files := []File{{Name: "in.json", Data: []byte(`{"a": [1, 2], "b": {"c": "x"}}`)}}
			prog := "BEGIN { print 'b' }\n{ print $ }\nEND { print 'e' }"
			sels := []string{"$.a", "$.b.c", "$.a[0] + 1", "$\n  .b\n  .c", "$.a # comment é\n [1]", "\t$.a.length()\r\n", "[$.a, 'é',\n $.b]"}
			reps := tierN(tier, 4, 20)
			for _, sel := range sels {
				for off := 0; off <= len(sel); off++ {
					inComment := false
					if i := strings.Index(sel, "#"); i >= 0 && off > i && off <= i+strings.Index(sel[i:], "\n") {
						inComment = true
					}
					inString := strings.Count(sel[:off], "'")%2 == 1
					if inComment || inString {
						continue
					}
					for rep := 0; rep < reps; rep++ {
						b := pick(r, c12BadSeqs)
						lead := ""
						if off > 0 && c13WordByte(sel[off-1]) && len(b.seq) > 1 {
							lead = " "
						}
						mut := sel[:off] + lead + b.seq + sel[off:]
						at, n := off+b.at, 1
						if len(b.seq) > 1 {
							at, n = off+len(lead), len(b.seq)
						}
						emit(Case{Req: RunReq(prog, []string{mut}, files, false), Fields: []string{"class", "line", "col", "src", "out"},
							Meta:   metaProg(prog, "selector", mut, "inserted", fmt.Sprintf("%q at offset %d", b.seq, off)),
							Oracle: c12At(mut, "syntax", at, n), NonTrivial: c12ErrNT})
					}
				}
			}
			for _, f := range c12Faults {
				if f.stmt {
					continue
				}
				for _, w := range []c12Wrap{{"", "", false, ""}, {"$.a[0] + ", "", true, ""}, {"[$.a,\n  ", "]", false, ""}, {"$.b\n\n  .c + 'é' + ", "  # c", true, ""}, {"{k:\r\n\t", "}", false, ""}, {"nf = 3 + ", "", true, ""}} {
					text := w.pre
					if w.paren {
						text += "("
					}
					off := len(text)
					text += f.text
					if w.paren {
						text += ")"
					}
					text += w.post
					// the selector's evaluator has its own globals: nf, obj, x are unset there
					emit(Case{Req: RunReq(prog, []string{text}, files, false), Fields: []string{"class", "line", "col", "src", "out"},
						Meta: metaProg(prog, "selector", text, "fault", f.what),
						Oracle: func(i Resp) string {
							if i["class"] == "runtime" || i["class"] == "syntax" {
								if w := c12Consistent(text, i); w != "" {
									return w
								}
							}
							if i["class"] == "runtime" {
								return c12At(text, "runtime", off, len(f.text))(i)
							}
							return ""
						}, NonTrivial: c12ErrNT})
				}
			}
		},
	})
	register(Family{
		Name: "selector-fault-kinds", Prop: "C12",
		Rule: "every kind of fault a -r selector run can end in: the final COPY of the selected value failing (bound methods of arrays / objects / strings / numbers, the builtins printf / json / num, directly, parenthesised, out of match arms, in expressions spread over several lines), the same only for the SECOND value of the input, every runtime fault kind inside the expression (7 forms), an unexpected '=>', an illegal byte sequence, an unterminated string; the selector text has leading blank lines (up to 12), indentation, comment lines, CR LF, a #! line, trailing blanks / comments, and is used alone or before / after a faultless selector of another shape; the program is one of 8 texts of 1-15 lines (also empty, CR LF, leading blank lines) none of whose lines occurs in a selector. Oracle: line / col / quoted line are those of the fault in the SELECTOR text as generated (c12At); class, line, col, src and stdout compared with the model; plus the real binary with -r (diagnostic on stderr parsed back)",
		Gen:  c12SelectorFaultKinds,
	})
	register(Family{
		Name: "runtime-fault-position", Prop: "C12",
		Rule: "every runtime fault kind (division by zero, call of a non-function, bad regex, compare of containers, unknown $name, bad printf arguments, bad string escape, ...) x every expression / statement form around it (operands, arguments, literals, conditions, loop headers, match, function bodies, rule patterns and bodies) placed on each line of multi-line programs with blank lines, comments (also containing quotes), CRLF, tabs, non-ASCII bytes, string and regex literals with raw line breaks, form feeds, U+2028 and long lines before the fault, also on the same line right after / before a multi-line literal and inside one (bad escape on its second line); the call-depth limit as a fault: 10 recursion shapes (through a match arm / block arm, 2 and 3 nested matches per call, mutual, arms chosen by parity, a match every third level, plain, call in the subject) x 11 ways of starting it (BEGIN, END, rule body, rule pattern, 1 / 2 / 3 wrapper functions, match arms at rule level, wrapper with a match arm, wrapper called from a match arm) so that both a function frame and a match frame are the push that exceeds the limit, in every residue; the site of the 4097th push is found by simulating the pushes; oracle: runtime error, src = that line of the text, line = the fault's line, col inside the faulty construct (for the depth limit: inside the recursive call or the `match (…)` whose case body could not be entered)",
		Gen: func(r *rand.Rand, tier string, emit func(Case)) {
			files := []File{{Name: "in.json", Data: []byte(`[{"id": 1}, {"id": 2}]`)}}
			reps := tierN(tier, 1, 6)
			c12LongLines("runtime", emit)
			c12DepthFaults(r, tier, emit)
			for _, w := range c12Wraps {
				for _, f := range c12Faults {
					if f.stmt && !(w.pre == "y = 2; " && w.post == "") {
						continue
					}
					for rep := 0; rep < reps; rep++ {
						nFill := 1 + r.Intn(4)
						for pos := 0; pos <= nFill; pos++ {
							if tier != "thorough" && pos != 0 && pos != nFill && !chance(r, 0.5) {
								continue
							}
							text, off, n := c12FaultProgram(r, w, f, nFill, pos, r.Intn(3))
							emit(Case{Req: RunReq(text, nil, files, false), Fields: []string{"class", "line", "col", "src", "out"},
								Meta:   metaProg(text, "fault", f.what+": "+f.text, "form", w.pre+"<fault>"+w.post, "fault offset", fmt.Sprint(off)),
								Oracle: c12At(text, "runtime", off, n), NonTrivial: c12ErrNT})
						}
					}
				}
			}
		},
	})
	register(Family{
		Name: "positions-through-binary", Prop: "C12",
		Rule: "the REAL BINARY's diagnostic (cli.go printError: the quoted source line, the caret line, 'syntax|runtime error on line N') parsed back into line / column / source line: programs with a runtime fault (every kind x every form, multi-line, the C12 fillers; one in 16: the call-depth limit exceeded by a function frame or a match frame, every recursion shape x start), an unexpected '=>', an illegal character, an unterminated string at a known offset, or cut off at a token boundary, preceded by blank lines / blanks / tabs / CR LF / comment lines / a #! line and followed by blank lines, blanks, comments; each given as the program argument and in a -f file. Oracle on the binary alone: line / col / quoted line are those of the fault in the text AS GIVEN (c12At); Group: equal to the library's line, col, src, class and stdout for the same text (the library run is compared with the model); the binary's exit / stdout / stderr-present are compared with the model's cli answer",
		Gen: func(r *rand.Rand, tier string, emit func(Case)) {
			c12ThroughBinary(r, tier, emit)
			c12MultiFile(r, tier, emit)
		},
	})
}

// ---------------------------------------------------------------------------------------
// context-keyword: the three CONTEXT errors of the parser -- `return` outside a function,
// `break` / `continue` outside a loop -- are reported AT THE KEYWORD, whatever follows it.
// The keyword sits in every kind of place where it is not allowed (rule bodies of every rule
// kind, nested blocks, if / else branches with and without braces, after a loop that has been
// closed, a function body for break / continue, a loop in a rule for return, a match block) and is
// followed by every position class: the end of its line and then blank lines / comment lines /
// a trailing comment, another token on the same line (`;`, `}`, an operand), the end of the text
// (with and without a final newline, blanks, a comment), and text that the lexer rejects; in LF,
// CRLF and mixed line endings, after 0-3 lines of multi-line material. Expected: class syntax,
// line / col / quoted line of the keyword (computed from the generated text), and the model's.
// ---------------------------------------------------------------------------------------

type c12CtxWrap struct {
	name      string
	pre, post string
	kws       []string
}

var c12CtxAll = []string{"return", "break", "continue"}
var c12CtxLoopKw = []string{"break", "continue"}

var c12CtxWraps = []c12CtxWrap{
	{"BEGIN body", "BEGIN {\n  x = 1\n  ", "print x\n}\n", c12CtxAll},
	{"pattern rule body", "$.n > 1 {\n  ", "print $.n\n}\n", c12CtxAll},
	{"END body, one line", "END { ", "}", c12CtxAll},
	{"bare rule, first token of the text's block", "{", "}\n", c12CtxAll},
	{"BEGINFILE body", "BEGINFILE {\n\tn = 0\n\t", "n++\n}\nENDFILE { print n }\n", c12CtxAll},
	{"if block in a rule", "{\n  if ($ > 1) {\n    y = 2\n    ", "z = 3\n  }\n}\n", c12CtxAll},
	{"else block in a rule", "{\n  if ($ > 1) {\n    print 1\n  } else {\n    ", "}\n}\n", c12CtxAll},
	{"if without braces", "BEGIN {\n  if (1)\n    ", "\n  print 2\n}\n", c12CtxAll},
	{"blocks three deep", "END {\n  {\n    {\n      ", "}\n  }\n}\n", c12CtxAll},
	{"after a closed for loop", "function f(x) {\n  return x + 1\n}\nBEGIN {\n  for (i = 0; i < 3; i++) {\n    print f(i)\n  }\n  ", "\n}\n", c12CtxAll},
	{"after a closed while loop with break inside", "BEGIN {\n  while (1) {\n    break\n  }\n  ", "print 1\n}\n", c12CtxAll},
	{"after a one-statement for-in loop", "{\n  for (v in $) print v\n  ", "\n}\n", c12CtxAll},
	{"match block in a rule", "BEGIN { match (1) {\n  1 => {\n    ", "}\n}\n}\n", c12CtxAll},
	{"second rule after a valid first", "BEGIN { print \"ok\" }\n\n{\n  print $\n  ", "\n}\nEND { print \"end\" }\n", c12CtxAll},
	{"function body", "function f(x) {\n  x = x + 1\n  ", "return x\n}\nBEGIN { print f(1) }\n", c12CtxLoopKw},
	{"function body after its loop", "function f(x) {\n  while (x < 3) { x++; continue }\n  ", "return x\n}\n", c12CtxLoopKw},
	{"if block in a function", "function f(x) {\n  if (x) {\n    ", "}\n  return 1\n}\n", c12CtxLoopKw},
	{"loop body in a rule", "BEGIN {\n  while (i < 3) {\n    i++\n    ", "}\n}\n", []string{"return"}},
	{"for-in body in a rule, no braces", "{\n  for (v, k in $)\n    ", "\n}\n", []string{"return"}},
	{"nested loops in END", "END {\n  for (i = 0; i < 2; i++) {\n    for (j = 0; j < 2; j++) {\n      if (i == j) {\n        ", "}\n    }\n  }\n}\n", []string{"return"}},
}

type c12CtxFollow struct {
	name string
	text string
	eof  bool // nothing after it: the text ends here
	only string
}

var c12CtxFollows = []c12CtxFollow{
	{"end of line", "\n  ", false, ""},
	{"end of line, three blank lines", "\n\n\n\n  ", false, ""},
	{"end of line, lines of blanks and tabs", "\n \n\t\n  \t \n", false, ""},
	{"end of line, comment lines", "\n  # comment é\n\n  # another 日本\n  ", false, ""},
	{"trailing blanks, end of line", "  \t\n", false, ""},
	{"trailing comment", " # trailing comment é\n  ", false, ""},
	{"trailing comment without a blank", "# c\n\n", false, ""},
	{"semicolon, same line", "; ", false, ""},
	{"blank, semicolon, end of line", " ;\n  ", false, ""},
	{"blank, next token on the same line", " ", false, ""},
	{"tabs, next token on the same line", "\t\t", false, ""},
	{"closing brace glued on", "}", false, ""},
	{"value on the same line", " x + 1\n  ", false, "return"},
	{"value in parentheses over two lines", " (\n    1)\n  ", false, "return"},
	{"value glued with a semicolon", " 1;", false, "return"},
	{"end of text", "", true, ""},
	{"newline, end of text", "\n", true, ""},
	{"blank lines, end of text", "\n\n  \n", true, ""},
	{"blanks, end of text", "  ", true, ""},
	{"comment, end of text", " # the end", true, ""},
	{"CR LF, end of text", "\r\n", true, ""},
	{"illegal character on the same line", " @ 1\n  ", false, ""},
	{"illegal character two lines down", "\n\n  @\n  ", false, ""},
	{"unterminated string behind", " \"open\n  ", false, ""},
	{"stray arrow behind", " =>\n  ", false, ""},
	{"stray closing bracket on the next line", "\n  ]\n  ", false, ""},
}

var c12CtxPrefix = []string{"# caf\xc3\xa9\n", "\n\n", "#!/usr/bin/env jqawk -f\n", "BEGIN { h = \"first half\nsecond half\" }\n", "function g(a) {\n  return a\n}\n", "BEGIN { u = 'a\r\nb' } # \xe6\x97\xa5\xe6\x9c\xac\n", "  \t\n", "# it's \"quoted\n", "BEGIN { while (0) { break } }\n"}

func c12ContextKeyword(r *rand.Rand, tier string, emit func(Case)) {
	rounds := tierN(tier, 2, 12)
	for round := 0; round < rounds; round++ {
		for _, w := range c12CtxWraps {
			for _, kw := range w.kws {
				for _, f := range c12CtxFollows {
					if f.only != "" && f.only != kw {
						continue
					}
					for _, eol := range []string{"LF", "CRLF", "mixed"} {
						if round == 0 && eol == "mixed" || round > 0 && eol != "LF" && !chance(r, 0.5) {
							continue
						}
						var prefix string
						if round > 0 {
							for k := r.Intn(4); k > 0; k-- {
								prefix += pick(r, c12CtxPrefix)
							}
						}
						pre, follow, post := w.pre, f.text, w.post
						if f.eof {
							post = ""
						}
						if round > 0 && chance(r, 0.3) {
							kwUp := pick(r, []string{"\t", "      ", ""})
							if kwUp != "" || strings.HasSuffix(pre, " ") {
								pre = strings.TrimRight(pre, " \t") + kwUp
								if !strings.HasSuffix(pre, "\n") && !strings.HasSuffix(pre, "{") && kwUp == "" {
									pre += " "
								}
							}
						}
						crlf := func(s string) string { return strings.ReplaceAll(strings.ReplaceAll(s, "\r\n", "\n"), "\n", "\r\n") }
						switch eol {
						case "CRLF":
							prefix, pre, follow, post = crlf(prefix), crlf(pre), crlf(follow), crlf(post)
						case "mixed":
							switch r.Intn(3) {
							case 0:
								prefix, pre = crlf(prefix), crlf(pre)
							case 1:
								follow = crlf(follow)
							default:
								pre, post = crlf(pre), crlf(post)
							}
						}
						off := len(prefix) + len(pre)
						text := prefix + pre + kw + follow + post
						wl, wc, wsrc := c12LineOf(text, off)
						emit(Case{Req: RunReq(text, nil, nil, false), Fields: c12Fields,
							Meta: metaProg(text, "keyword", kw, "place", w.name, "what follows the keyword", f.name, "line endings", eol,
								"expected", fmt.Sprintf("syntax error at line %d col %d, quoting %q", wl, wc, wsrc), "row", kw+" / "+w.name, "col", f.name),
							Oracle: c12At(text, "syntax", off, len(kw)), NonTrivial: c12ErrNT})
					}
				}
			}
		}
	}
}

func init() {
	register(Family{
		Name: "context-keyword", Prop: "C12",
		Rule: "the parser's context errors -- `return` outside a function, `break` / `continue` outside a loop -- with the keyword in 20 kinds of place where it is not allowed (bodies of BEGIN / END / BEGINFILE / pattern / bare rules, one-line bodies, if and else blocks, an if without braces, blocks three deep, after a closed for / while / for-in loop (also one whose body holds a legal break), a match block, a later rule, function bodies and their if blocks for break / continue, loop bodies in rules for return) x 26 things that follow it (the end of its line then nothing / blank lines / lines of blanks / comment lines; trailing blanks; a trailing comment; `;`; another token on the same line after a blank or tabs; a glued `}`; for return a value on the same line, over two lines, glued; the END OF THE TEXT with and without newline / blanks / comment / CR LF; an illegal character on the same line or two lines down, an unterminated string, a stray `=>` or `]` behind it) x LF / CRLF / mixed line endings, from the second round on after 0-3 lines of leading material (comments, shebang, rules with multi-line strings, a function, a legal loop with break) and with other indentation. Oracle: class syntax and line / col / quoted line of the KEYWORD, computed from the generated text; compared with the model. Matrix: keyword and place x what follows.",
		Gen:  c12ContextKeyword,
	})
}
