/-
  jqmodel: the model driver.  One request per line on stdin, one answer per line on stdout
  (protocol: DESIGN.md §5.1).  Only an I/O shell around the definitions of Jqawk/Model.
-/
import Jqawk.Model.Driver
import Jqawk.Model.Dump
import Jqawk.Model.Scope
import Jqawk.Model.Cli

open Jqawk

def hexField (s : String) : Option Bytes :=
  if s == "-" then some [] else Bytes.ofHex (Bytes.ofString s)

def showHex (b : Bytes) : String :=
  if b.isEmpty then "-" else Bytes.toStringLossy (Bytes.toHex b)

def parseFiles (s : String) : Option (List InputFile) :=
  if s == "-" then some [] else
  (s.splitOn ";").mapM fun f =>
    match f.splitOn ":" with
    | [n, d, t] => do
      let name ← hexField n
      let data ← hexField d
      let tail : Json.Tail := if t == "i" then .ioerr else .eof
      pure { name := name, data := data, tail := tail }
    | _ => none

def parseSels (s : String) : Option (List Bytes) :=
  if s == "-" then some [] else (s.splitOn ",").mapM hexField

def posInfo (src : Bytes) (pos : Nat) : String :=
  let lc := getLineAndCol src pos
  s!"line={lc.line} col={lc.col} src={showHex lc.srcLine}"

def tbl : RuleTable := expectedRuleTable

def answerRun (prog : Bytes) (sels : List Bytes) (files : List InputFile) (flags : String) : String :=
  let r := evalProgram tbl prog sels files
  let out := showHex r.out
  let depth := match r.st with | some s => s.frames.length - 1 | none => 0
  let faults := match r.st with | some s => s.faults | none => 0
  let json : String :=
    if flags.contains 'j' then
      match r.outcome, r.st with
      | .ok, some s => (match getRootJson s with | some j => showHex j | none => "ERR")
      | _, _ => "-"
    else "-"
  -- is the parsed program (and every selector that parses) well-scoped? (link to C01's theorem)
  let ws : Bool :=
    (match parseProgramSrc tbl prog with
     | .ok p => p.wellScopedB
     | _ => true) &&
    sels.all (fun sel => match parseExpressionSrc tbl sel with
      | .ok e => e.scopedB
      | _ => true)
  let wsS := if ws then "1" else "0"
  match r.outcome with
  | .ok => s!"R class=ok out={out} json={json} depth={depth} faults={faults} ws={wsS}"
  | .syntaxErr src e => s!"R class=syntax out={out} {posInfo src e.pos} msg={e.msg.replace " " "_"}"
  | .runtimeErr src pos msg => s!"R class=runtime out={out} {posInfo src pos} faults={faults} ws={wsS} msg={msg.replace " " "_"}"
  | .jsonErr file => s!"R class=json out={out} file={showHex file} ws={wsS}"
  | .sentinel _ => s!"R class=sentinel out={out} ws={wsS}"
  | .panic m => s!"R class=panic out={out} msg={m.replace " " "_"}"
  | .unmodelled w => s!"R class=unmodelled why={w.replace " " "_"}"
  | .oof => "R class=oof"

def tokensDump (src : Bytes) : String := Id.run do
  let mut st := LexState.init src
  let mut acc := ""
  let mut fuel := src.length + 2
  while fuel > 0 do
    fuel := fuel - 1
    match Lexer.next st with
    | .error e =>
      let lc := getLineAndCol src e.pos
      acc := acc ++ s!"ERR:{lc.line}:{lc.col}"
      fuel := 0
    | .ok (t, st') =>
      acc := acc ++ s!"{t.tag.ctorIdx}:{t.pos}:{showHex t.text} "
      st := st'
      if t.tag == .eof then fuel := 0
  return acc

def answer (line : String) : String :=
  match (line.trimAscii.toString.splitOn " ") with
  | ["run", p, s, f, flags] =>
    match hexField p, parseSels s, parseFiles f with
    | some prog, some sels, some files => answerRun prog sels files flags
    | _, _, _ => "R class=badrequest"
  | ["cli", a, i, f, flags] =>
    let argv? : Option (List Bytes) :=
      if a == "-" then some [] else (a.splitOn ",").mapM fun x => if x == "e" then some [] else hexField x
    let stdin? : Option Bytes := if i == "-" || i == "e" then some [] else hexField i
    let fs? : Option (List Cli.Entry) :=
      if f == "-" then some [] else
      (f.splitOn ";").mapM fun e =>
        match e.splitOn ":" with
        | [n, d] => do pure { name := (← hexField n), data := (← hexField d) }
        | [n, d, k] => do pure { name := (← hexField n), data := (← hexField d), isDir := k == "d" }
        | _ => none
    match argv?, stdin?, fs? with
    | some argv, some stdin, some fs =>
      match Cli.run tbl argv stdin fs with
      | .unmodelled => "R class=unmodelled why=cli"
      | .done exit out err written =>
        -- `ofile` is what the file named by the o= flag holds after the run: what -o wrote
        -- into it, else what it held before (a regular file of the working directory)
        let oname? : Option Bytes :=
          if flags == "-" then none else
          (flags.splitOn ",").findSome? fun fl =>
            match fl.splitOn "=" with
            | ["o", h] => hexField h
            | _ => none
        let before : String × String := match oname? with
          | some n => (match Cli.lookup fs n with
            | some e => if e.isDir then ("-", "0") else (showHex e.data, "1")
            | none => ("-", "0"))
          | none => ("-", "0")
        let (of, ofe) := match written with
          | some (n, j) => if oname?.isNone || oname? == some n then (showHex j, "1") else before
          | none => before
        s!"R exit={exit} out={showHex out} err={if err then 1 else 0} ofile={of} ofexists={ofe} class=cli{exit}"
    | _, _, _ => "R class=badrequest"
  | ["parse", p] =>
    match hexField p with
    | some src =>
      match parseProgramSrc tbl src with
      | .ok prog => s!"R class=ok dump={showHex (dumpProgram prog)}"
      | .syntaxErr e => s!"R class=syntax {posInfo src e.pos}"
      | .oof => "R class=oof"
    | none => "R class=badrequest"
  | ["pexpr", p] =>
    match hexField p with
    | some src =>
      match parseExpressionSrc tbl src with
      | .ok e => s!"R class=ok dump={showHex (dumpExpr e)}"
      | .syntaxErr e => s!"R class=syntax {posInfo src e.pos}"
      | .oof => "R class=oof"
    | none => "R class=badrequest"
  | ["lex", p] =>
    match hexField p with
    | some src => s!"R toks={showHex (Bytes.ofString (tokensDump src))}"
    | none => "R class=badrequest"
  | ["pos", p, n] =>
    match hexField p, n.toNat? with
    | some src, some k => s!"R {posInfo src k}"
    | _, _ => "R class=badrequest"
  | _ => "R class=badrequest"

partial def loop (h : IO.FS.Stream) (out : IO.FS.Stream) : IO Unit := do
  let line ← h.getLine
  if line.isEmpty then return ()
  out.putStrLn (answer line)
  out.flush
  loop h out

def main : IO Unit := do
  loop (← IO.getStdin) (← IO.getStdout)
