/-
  C13 — a program's meaning depends only on its tokens, not layout, comments or quoting.
  Lexer level: horizontal trivia is invisible, numbers are `digits(.digits)?` and never absorb an
  adjacent byte, keywords are whole words, a string token is the bytes up to the next same
  quote; escape processing of string literals; and the lifting principle (`PM.run_bisim`): the
  parser sees its input only through the token source.  Sections 8 and 9: newlines may be
  inserted between tokens except after `print`/`return`, after a comma of a print list and
  before `;`; a significant newline may be replaced by `;`.
-/
import Jqawk.Lemmas.Lexer
import Jqawk.Lemmas.PM
import Jqawk.Lemmas.Param
import Jqawk.Lemmas.Layout
import Jqawk.Lemmas.NewlineTokens
import Jqawk.Lemmas.NewlineLayout
import Jqawk.Lemmas.NewlineSemiRun
import Jqawk.Lemmas.NewlineTexts
import Jqawk.Lemmas.NewlineBytesRun
import Jqawk.Lemmas.NewlineSemiBytes
import Jqawk.Lemmas.ParserFuel
import Jqawk.Lemmas.ParserMono
import Jqawk.Model.Eval

namespace Jqawk.C13
open Jqawk Lexer

/-! ### 1. horizontal trivia -/

/-- C13: spaces, tabs and CRs are skipped (any number of them, with enough fuel: one unit of
    fuel per byte; `Lexer.next` supplies `length + 1`). -/
theorem skipWs_trivia (t : Bytes) (ht : ∀ c ∈ t, c = 32 ∨ c = 9 ∨ c = 13) (rest : Bytes)
    (fuel p : Nat) :
    Lexer.skipWs (t.length + fuel) (t ++ rest) p = Lexer.skipWs fuel rest (p + t.length) := by
  apply skipWs_blanks
  intro c hc
  rcases ht c hc with rfl | rfl | rfl <;> rfl

example : ∀ c ∈ b!" \t\r ", c = 32 ∨ c = 9 ∨ c = 13 := by decide

/-- C13: a `#` comment is skipped up to, not including, the newline that ends it (or up to the
    end of the text). -/
theorem skipWs_comment (body rest : Bytes) (hb : (10 : UInt8) ∉ body)
    (hr : rest = [] ∨ rest.head? = some 10) (fuel p : Nat) :
    Lexer.skipWs (fuel + 1) (35 :: body ++ rest) p
      = Lexer.skipWs fuel rest (p + (35 :: body).length) :=
  Lexer.skipWs_comment body rest hb hr fuel p

example : (10 : UInt8) ∉ b!" note" ∧ b!"\nx".head? = some 10 := by decide

/-- the fuel `Lexer.next` supplies is enough: any larger amount gives the same result -/
theorem skipWs_fuel_irrelevant (f : Nat) (r : Bytes) (p : Nat) (h : r.length < f) :
    Lexer.skipWs f r p = Lexer.skipWs (r.length + 1) r p :=
  Lexer.skipWs_fuel f _ r p h (Nat.lt_succ_self _)

/-- C13: horizontal trivia (`Lexer.Trivia t rest`: blanks, tabs, CRs, and `#` comments each
    running up to a newline or the end of the text) in front of `rest` is invisible: the same
    token — with the same position, as offsets are absolute — and the same successor state.
    At the end of the text the EOF token's position is `tokenStart`, equal on both sides. -/
theorem next_skips_trivia (t rest : Bytes) (ht : Trivia t rest) (p ts : Nat) :
    Lexer.next ⟨t ++ rest, p, ts⟩ = Lexer.next ⟨rest, p + t.length, ts⟩ := by
  rw [next_eq, next_eq]
  dsimp only
  rw [skipWs_trivia_gen ht _ (rest.length + 1) p (Nat.lt_succ_self _) (Nat.lt_succ_self _)]

/-- … in particular blanks, tabs and CRs -/
theorem next_skips_blanks (t rest : Bytes) (ht : ∀ c ∈ t, c = 32 ∨ c = 9 ∨ c = 13) (p ts : Nat) :
    Lexer.next ⟨t ++ rest, p, ts⟩ = Lexer.next ⟨rest, p + t.length, ts⟩ := by
  apply next_skips_trivia
  induction t with
  | nil => exact .nil _
  | cons c cs ih =>
    refine .blank c cs rest ?_ (ih fun d hd => ht d (List.mem_cons_of_mem _ hd))
    rcases ht c (by simp) with rfl | rfl | rfl <;> rfl

/-- … and a comment before a newline or the end of the text, possibly after blanks -/
theorem next_skips_comment (bl body rest : Bytes) (hbl : ∀ c ∈ bl, c = 32 ∨ c = 9 ∨ c = 13)
    (hb : (10 : UInt8) ∉ body) (hr : rest = [] ∨ rest.head? = some 10) (p ts : Nat) :
    Lexer.next ⟨bl ++ 35 :: body ++ rest, p, ts⟩
      = Lexer.next ⟨rest, p + (bl ++ 35 :: body).length, ts⟩ := by
  rw [show bl ++ 35 :: body ++ rest = (bl ++ 35 :: body) ++ rest by simp]
  apply next_skips_trivia
  have hc : Trivia (35 :: body) rest := by
    have := Trivia.comment body [] rest hb (by simpa using hr) (.nil rest)
    simpa using this
  clear hr
  induction bl with
  | nil => exact hc
  | cons c cs ih =>
    refine .blank c _ rest ?_ (ih fun d hd => hbl d (List.mem_cons_of_mem _ hd))
    rcases hbl c (by simp) with rfl | rfl | rfl <;> rfl

example : Trivia b!" \t # note" b!"\nx" :=
  .blank _ _ _ rfl (.blank _ _ _ rfl (.blank _ _ _ rfl
    (.comment b!" note" [] _ (by decide) (.inr rfl) (.nil _))))

example : Lexer.next ⟨b!" \t # note\nx", 0, 0⟩ = Lexer.next ⟨b!"\nx", 9, 0⟩ := by rfl

/-! ### 2. numeric literals -/

/-- C13: a numeric token is `ds` or `ds.fs` with `ds`, `fs` non-empty digit strings; it starts
    where the trivia ends, the successor state holds exactly the bytes after it, no digit
    follows it, and without a fraction it is not followed by `.digit` (maximal munch, nothing
    else absorbed). -/
theorem number_shape (s : LexState) (t : Token) (s' : LexState)
    (h : Lexer.next s = .ok (t, s')) (ht : t.tag = .num) :
    ∃ ws ds, s.rest = ws ++ t.text ++ s'.rest ∧ t.pos = s.pos + ws.length ∧
      s'.pos = t.pos + t.text.length ∧
      ds ≠ [] ∧ (∀ c ∈ ds, isDigitB c = true) ∧
      (∀ c, s'.rest.head? = some c → isDigitB c = false) ∧
      ((t.text = ds ∧ ∀ d r, s'.rest = 46 :: d :: r → isDigitB d = false) ∨
       ∃ fs, fs ≠ [] ∧ (∀ c ∈ fs, isDigitB c = true) ∧ t.text = ds ++ [46] ++ fs) := by
  obtain ⟨ws, r, h1, _, h3⟩ := next_cases s
  rw [h3] at h
  cases r with
  | nil => cases h; cases ht
  | cons c cs =>
    obtain ⟨hd, hnum⟩ := (lexAt_res c cs _).num_only h ht
    obtain ⟨_, n2, n3, n4, _, n6, n7, n8⟩ := number_spec (s.pos + ws.length) (c :: cs)
    rw [hnum] at n2 n3 n4 n6 n8
    dsimp only at n2 n3 n4 n6 n8
    refine ⟨ws, (spanB isDigitB (c :: cs)).1, ?_, n2, by rw [n4, n2], ?_, n7, n6, n8⟩
    · rw [h1, n3, List.append_assoc]
    · simp [spanB_cons, hd]

/-- C13: in particular a number consists of digits and `.` bytes only, contains no `-`, and
    begins and ends with a digit: a sign, a leading `.` or a trailing `.` is never part of it.
    (That there is at most one `.` is in `number_shape`, not in this statement.) -/
theorem number_no_sign_no_bare_dot (s : LexState) (t : Token) (s' : LexState)
    (h : Lexer.next s = .ok (t, s')) (ht : t.tag = .num) :
    (∀ c ∈ t.text, isDigitB c = true ∨ c = 46) ∧ (45 : UInt8) ∉ t.text ∧
    (∃ d, t.text.head? = some d ∧ isDigitB d = true) ∧
    (∃ d, t.text.getLast? = some d ∧ isDigitB d = true) := by
  obtain ⟨ws, ds, _, _, _, hne, hds, _, hshape⟩ := number_shape s t s' h ht
  obtain ⟨d0, dr, rfl⟩ : ∃ d0 dr, ds = d0 :: dr := by
    cases ds with
    | nil => exact absurd rfl hne
    | cons a b => exact ⟨a, b, rfl⟩
  have hall : ∀ c ∈ t.text, isDigitB c = true ∨ c = 46 := by
    rcases hshape with ⟨e, _⟩ | ⟨fs, _, hfs, e⟩
    · rw [e]; exact fun c hc => .inl (hds c hc)
    · rw [e]; intro c hc
      simp only [List.mem_append, List.mem_singleton] at hc
      rcases hc with (hc | hc) | hc
      · exact .inl (hds c hc)
      · exact .inr hc
      · exact .inl (hfs c hc)
  refine ⟨hall, ?_, ?_, ?_⟩
  · intro hm; rcases hall 45 hm with h | h
    · exact absurd h (by decide)
    · exact absurd h (by decide)
  · rcases hshape with ⟨e, _⟩ | ⟨fs, _, _, e⟩ <;>
      exact ⟨d0, by rw [e]; rfl, hds d0 (by simp)⟩
  · rcases hshape with ⟨e, _⟩ | ⟨fs, hfne, hfs, e⟩
    · rw [e]
      refine ⟨(d0 :: dr).getLast (by simp), List.getLast?_eq_some_getLast _, hds _ (List.getLast_mem _)⟩
    · rw [e, List.getLast?_append, List.getLast?_eq_some_getLast hfne, Option.some_or]
      exact ⟨_, rfl, hfs _ (List.getLast_mem _)⟩

example : Lexer.next ⟨b!" 12.50-3", 0, 0⟩ = .ok (⟨.num, 1, b!"12.50"⟩, ⟨b!"-3", 6, 1⟩) := by rfl
example : Lexer.next ⟨b!"7.x", 0, 0⟩ = .ok (⟨.num, 0, b!"7"⟩, ⟨b!".x", 1, 0⟩) := by rfl
example : Lexer.next ⟨b!"1.2.3", 0, 0⟩ = .ok (⟨.num, 0, b!"1.2"⟩, ⟨b!".3", 3, 0⟩) := by rfl
example : Lexer.next ⟨b!"-1", 0, 0⟩ = .ok (⟨.minus, 0, []⟩, ⟨b!"1", 1, 0⟩) := by rfl
example : Lexer.next ⟨b!".5", 0, 0⟩ = .ok (⟨.dot, 0, []⟩, ⟨b!"5", 1, 0⟩) := by rfl

/-- C13, converse: every spelling `ds` / `ds.fs` followed by anything that cannot extend it is
    scanned as exactly that token. -/
theorem number_complete (ds fs rest : Bytes) (c : UInt8) (hc : isDigitB c = true)
    (hds : ∀ d ∈ ds, isDigitB d = true) (hfs : ∀ d ∈ fs, isDigitB d = true)
    (hrest : ∀ d, rest.head? = some d → isDigitB d = false) (p ts : Nat) :
    (fs ≠ [] → Lexer.next ⟨c :: ds ++ 46 :: fs ++ rest, p, ts⟩
        = .ok (⟨.num, p, c :: ds ++ 46 :: fs⟩, ⟨rest, p + (c :: ds ++ 46 :: fs).length, p⟩)) ∧
    ((∀ d r, rest = 46 :: d :: r → isDigitB d = false) →
      Lexer.next ⟨c :: ds ++ rest, p, ts⟩
        = .ok (⟨.num, p, c :: ds⟩, ⟨rest, p + (c :: ds).length, p⟩)) := by
  have hne : ∀ d : UInt8, isDigitB d = false → (c == d) = false := by
    intro d hd
    cases h : c == d with
    | false => rfl
    | true => simp at h; subst h; rw [hc] at hd; cases hd
  have hcb : isBlankB c = false := by
    simp only [isBlankB, hne 32 (by decide), hne 13 (by decide), hne 9 (by decide)]; rfl
  have hc35 : (c == 35) = false := hne 35 (by decide)
  have hc10 : (c == 10) = false := hne 10 (by decide)
  have hc36 : (c == 36) = false := hne 36 (by decide)
  have hcds : ∀ d ∈ c :: ds, isDigitB d = true := by
    intro d hd; simp only [List.mem_cons] at hd
    rcases hd with rfl | hd
    · exact hc
    · exact hds d hd
  constructor
  · intro hne
    obtain ⟨f0, fr, rfl⟩ : ∃ f0 fr, fs = f0 :: fr := by
      cases fs with
      | nil => exact absurd rfl hne
      | cons a b => exact ⟨a, b, rfl⟩
    rw [next_eq]; dsimp only
    rw [List.cons_append, List.cons_append, skipWs_succ_cons]
    simp only [hcb, hc35, Bool.false_eq_true, ↓reduceIte]
    unfold lexAt; dsimp only
    simp only [hc10, hc36, hc, Bool.false_eq_true, ↓reduceIte]
    have h1 : spanB isDigitB (c :: (ds ++ 46 :: (f0 :: fr) ++ rest)) = (c :: ds, 46 :: f0 :: fr ++ rest) := by
      have := spanB_spec isDigitB (c :: ds) (46 :: f0 :: fr ++ rest) hcds
        (by intro d hd; simp at hd; subst hd; decide)
      simpa using this
    have h2 : spanB isDigitB (f0 :: (fr ++ rest)) = (f0 :: fr, rest) := by
      have := spanB_spec isDigitB (f0 :: fr) rest hfs hrest
      simpa using this
    rw [number_eq, h1]
    simp only [List.cons_append, hfs f0 (by simp), ↓reduceIte, h2]
  · intro hnd
    rw [next_eq]; dsimp only
    rw [List.cons_append, skipWs_succ_cons]
    simp only [hcb, hc35, Bool.false_eq_true, ↓reduceIte]
    unfold lexAt; dsimp only
    simp only [hc10, hc36, hc, Bool.false_eq_true, ↓reduceIte]
    have h1 : spanB isDigitB (c :: (ds ++ rest)) = (c :: ds, rest) := by
      have := spanB_spec isDigitB (c :: ds) rest hcds hrest
      simpa using this
    rw [number_eq, h1]
    dsimp only
    split
    · rename_i d r2
      rw [if_neg (by simp [hnd d r2 rfl])]
    · rfl

example : Lexer.next ⟨b!"12.5)", 0, 0⟩ = .ok (⟨.num, 0, b!"12.5"⟩, ⟨b!")", 4, 0⟩) ∧
    isDigitB 49 = true ∧ (∀ d ∈ b!"2", isDigitB d = true) ∧ (∀ d ∈ b!"5", isDigitB d = true) ∧
    (∀ d, (b!")").head? = some d → isDigitB d = false) := by
  refine ⟨rfl, rfl, by decide, by decide, ?_⟩
  intro d h; cases h; rfl

/-! ### 3. keywords are whole words -/

/-- the spelling of each keyword tag -/
def kwText : Tag → Bytes
  | .begin_ => b!"BEGIN" | .end_ => b!"END" | .beginFile => b!"BEGINFILE" | .endFile => b!"ENDFILE"
  | .print => b!"print" | .dollar => b!"$" | .function => b!"function" | .return_ => b!"return"
  | .if_ => b!"if" | .else_ => b!"else" | .for_ => b!"for" | .while_ => b!"while" | .in_ => b!"in"
  | .match_ => b!"match" | .true_ => b!"true" | .false_ => b!"false" | .break_ => b!"break"
  | .continue_ => b!"continue" | .next => b!"next" | .exit => b!"exit" | .null => b!"null"
  | .is => b!"is"
  | _ => []

theorem ite_some_prop' {P : Tag → Prop} (c : Prop) [Decidable c] (a : Tag) (e : Option Tag)
    (ha : c → P a) (he : ∀ t, e = some t → P t) : ∀ t, (if c then some a else e) = some t → P t := by
  intro t h
  split at h
  · cases h; exact ha ‹_›
  · exact he t h

/-- `keyword` recognises exactly the 22 spellings (the byte string must EQUAL the keyword). -/
theorem keyword_iff (s : Bytes) (tg : Tag) :
    Lexer.keyword s = some tg ↔ isKeywordTag tg = true ∧ s = kwText tg := by
  constructor
  · intro h
    refine ⟨keyword_range s tg h, ?_⟩
    revert tg
    unfold keyword
    iterate 22 refine ite_some_prop' _ _ _ (fun h => by simpa [kwText] using h) ?_
    intro t h; cases h
  · rintro ⟨h, rfl⟩
    revert h
    cases tg <;> decide

/-- C13: `identifier` takes the maximal run `w` of identifier bytes (letters, digits, `_`; what
    is left begins with another byte or is empty) and yields a keyword tag only if the whole
    word `pre ++ w` equals that keyword; otherwise an identifier whose text is the whole word. -/
theorem keyword_whole_word (pre : Bytes) (start : Nat) (r w : Bytes)
    (hw : (Lexer.spanB isIdentB r).1 = w) :
    ∃ rest, r = w ++ rest ∧ (∀ c ∈ w, isIdentB c = true) ∧
      (∀ c, rest.head? = some c → isIdentB c = false) ∧
      (Lexer.identifier pre start r).2 = ⟨rest, start + (pre ++ w).length, start⟩ ∧
      ((∃ tg, isKeywordTag tg = true ∧ pre ++ w = kwText tg ∧
          (Lexer.identifier pre start r).1 = ⟨tg, start, []⟩) ∨
       ((∀ tg, isKeywordTag tg = true → pre ++ w ≠ kwText tg) ∧
          (Lexer.identifier pre start r).1 = ⟨.ident, start, pre ++ w⟩)) := by
  subst hw
  refine ⟨(spanB isIdentB r).2, (spanB_append _ _).symm, spanB_all _ _, spanB_rest _ _, ?_, ?_⟩
  · rw [identifier_eq]
  · rw [identifier_eq]; dsimp only
    cases hk : keyword (pre ++ (spanB isIdentB r).1) with
    | some tg =>
      obtain ⟨h1, h2⟩ := (keyword_iff _ _).mp hk
      exact .inl ⟨tg, h1, h2, rfl⟩
    | none =>
      refine .inr ⟨fun tg h1 h2 => ?_, rfl⟩
      have := (keyword_iff _ tg).mpr ⟨h1, h2⟩
      rw [hk] at this; cases this

example : (Lexer.spanB isIdentB b!"ffy(").1 = b!"ffy" ∧
    (Lexer.identifier b!"i" 0 b!"ffy(").1 = ⟨.ident, 0, b!"iffy"⟩ ∧
    (Lexer.identifier b!"i" 0 b!"f(").1 = ⟨.if_, 0, []⟩ := ⟨by rfl, by rfl, by rfl⟩

example : Lexer.next ⟨b!"iffy(", 0, 0⟩ = .ok (⟨.ident, 0, b!"iffy"⟩, ⟨b!"(", 4, 0⟩) := by rfl
example : Lexer.next ⟨b!"BEGINNER", 0, 0⟩ = .ok (⟨.ident, 0, b!"BEGINNER"⟩, ⟨[], 8, 0⟩) := by rfl
example : Lexer.next ⟨b!"nextval", 0, 0⟩ = .ok (⟨.ident, 0, b!"nextval"⟩, ⟨[], 7, 0⟩) := by rfl
example : Lexer.next ⟨b!"_if", 0, 0⟩ = .ok (⟨.ident, 0, b!"_if"⟩, ⟨[], 3, 0⟩) := by rfl
example : Lexer.next ⟨b!"if2", 0, 0⟩ = .ok (⟨.ident, 0, b!"if2"⟩, ⟨[], 3, 0⟩) := by rfl
example : Lexer.next ⟨b!"if(", 0, 0⟩ = .ok (⟨.if_, 0, []⟩, ⟨b!"(", 2, 0⟩) := by rfl

/-! ### 4. string tokens -/

/-- C13: with either quote character `q`, a string token exists iff the same quote occurs
    again; its text is exactly the bytes up to the next `q` (no escape processing in the lexer),
    and lexing resumes right after that quote. -/
theorem string_token (q : UInt8) (start : Nat) (r : Bytes) (t : Token) (s' : LexState) :
    Lexer.string q start r = .ok (t, s') ↔
      ∃ body rest', r = body ++ q :: rest' ∧ q ∉ body ∧ t = ⟨.str, start + 1, body⟩ ∧
        s' = ⟨rest', start + 1 + body.length + 1, start + 1⟩ :=
  string_ok_iff q start r t s'

/-- C13: … and it is an error iff the quote is never closed. -/
theorem string_unterminated (q : UInt8) (start : Nat) (r : Bytes) :
    (∃ e, Lexer.string q start r = .error e) ↔ q ∉ r := by
  constructor
  · rintro ⟨e, h⟩; exact ((string_error_iff q start r e).mp h).1
  · intro h; exact ⟨_, (string_error_iff q start r _).mpr ⟨h, rfl⟩⟩

example : Lexer.string 34 0 b!"a'b\\\"c" = .ok (⟨.str, 1, b!"a'b\\"⟩, ⟨b!"c", 6, 1⟩) := by rfl

/-- C13: the two quote styles are interchangeable at the lexer level: a body containing
    neither quote character gives the same token and the same successor state. -/
theorem quotes_interchangeable (body rest : Bytes) (h1 : (39 : UInt8) ∉ body)
    (h2 : (34 : UInt8) ∉ body) (p ts : Nat) :
    Lexer.next ⟨39 :: body ++ 39 :: rest, p, ts⟩ = Lexer.next ⟨34 :: body ++ 34 :: rest, p, ts⟩ := by
  have e1 : Lexer.next ⟨39 :: body ++ 39 :: rest, p, ts⟩ = Lexer.string 39 p (body ++ 39 :: rest) := by
    rw [next_eq]; dsimp only; rw [List.cons_append, skipWs_succ_cons]; rfl
  have e2 : Lexer.next ⟨34 :: body ++ 34 :: rest, p, ts⟩ = Lexer.string 34 p (body ++ 34 :: rest) := by
    rw [next_eq]; dsimp only; rw [List.cons_append, skipWs_succ_cons]; rfl
  rw [e1, e2]
  rw [(string_ok_iff 39 p _ _ _).mpr ⟨body, rest, rfl, h1, rfl, rfl⟩,
    (string_ok_iff 34 p _ _ _).mpr ⟨body, rest, rfl, h2, rfl, rfl⟩]

example : (39 : UInt8) ∉ b!"a b" ∧ (34 : UInt8) ∉ b!"a b" := by decide

/-! ### 5. escape processing of string literals -/

/-- `Unesc s r`: `r` is `s` with the escapes `\n`, `\t`, `\\` replaced (left to right) and no
    other backslash in `s`. -/
inductive Unesc : Bytes → Bytes → Prop
  | nil : Unesc [] []
  | plain (c : UInt8) (s r : Bytes) : c ≠ 92 → Unesc s r → Unesc (c :: s) (c :: r)
  | nl (s r : Bytes) : Unesc s r → Unesc (92 :: 110 :: s) (10 :: r)
  | tab (s r : Bytes) : Unesc s r → Unesc (92 :: 116 :: s) (9 :: r)
  | bs (s r : Bytes) : Unesc s r → Unesc (92 :: 92 :: s) (92 :: r)

theorem evalStringLit_plain (c : UInt8) (s : Bytes) (hc : c ≠ 92) :
    evalStringLit (c :: s) = match evalStringLit s with
      | .ok r => .ok (c :: r)
      | .error m => .error m := by
  rw [evalStringLit]
  · cases evalStringLit s <;> rfl
  · intro h; exact absurd h hc
  · intro c' rest h; exact absurd h hc

theorem evalStringLit_esc (c : UInt8) (s : Bytes) :
    evalStringLit (92 :: c :: s) =
      if c = 110 then (match evalStringLit s with | .ok r => .ok (10 :: r) | .error m => .error m)
      else if c = 92 then (match evalStringLit s with | .ok r => .ok (92 :: r) | .error m => .error m)
      else if c = 116 then (match evalStringLit s with | .ok r => .ok (9 :: r) | .error m => .error m)
      else .error "unknown escape char" := by
  rw [evalStringLit]
  by_cases h1 : c = 110
  · simp [h1]; cases evalStringLit s <;> rfl
  · by_cases h2 : c = 92
    · simp [h2]; cases evalStringLit s <;> rfl
    · by_cases h3 : c = 116
      · simp [h3]; cases evalStringLit s <;> rfl
      · simp [h1, h2, h3]

/-- C13: a string literal evaluates to `r` iff `r` is its un-escaping. -/
theorem evalString_ok_iff (s r : Bytes) : evalStringLit s = .ok r ↔ Unesc s r := by
  constructor
  · intro h
    induction s using evalStringLit.induct generalizing r with
    | case1 => rw [evalStringLit] at h; cases h; exact .nil
    | case2 => rw [evalStringLit] at h; cases h
    | case3 c rest out hout =>
      rw [evalStringLit_esc] at h
      have : ¬(c = 110) ∧ ¬(c = 92) ∧ ¬(c = 116) := by
        refine ⟨?_, ?_, ?_⟩ <;> (rintro rfl; simp [out] at hout)
      simp [this] at h
    | case4 c rest out b hout rr hr ih =>
      rw [evalStringLit_esc, hr] at h
      by_cases h1 : c = 110
      · subst h1; simp at h; subst h; exact .nl _ _ (ih _ hr)
      · by_cases h2 : c = 92
        · subst h2; simp at h; subst h; exact .bs _ _ (ih _ hr)
        · by_cases h3 : c = 116
          · subst h3; simp at h; subst h; exact .tab _ _ (ih _ hr)
          · simp [h1, h2, h3] at h
    | case5 c rest out b hout m hr ih =>
      rw [evalStringLit_esc, hr] at h
      by_cases h1 : c = 110
      · simp [h1] at h
      · by_cases h2 : c = 92
        · simp [h2] at h
        · by_cases h3 : c = 116
          · simp [h3] at h
          · simp [h1, h2, h3] at h
    | case6 c rest hne1 hne2 rr hr ih =>
      have hc : c ≠ 92 := by
        intro e; subst e
        cases rest with
        | nil => exact hne1 rfl rfl
        | cons d ds => exact hne2 d ds rfl rfl
      rw [evalStringLit_plain c rest hc, hr] at h
      cases h; exact .plain _ _ _ hc (ih _ hr)
    | case7 c rest hne1 hne2 m hr ih =>
      have hc : c ≠ 92 := by
        intro e; subst e
        cases rest with
        | nil => exact hne1 rfl rfl
        | cons d ds => exact hne2 d ds rfl rfl
      rw [evalStringLit_plain c rest hc, hr] at h
      cases h
  · intro h
    induction h with
    | nil => rfl
    | plain c s r hc _ ih => rw [evalStringLit_plain c s hc, ih]
    | nl s r _ ih => rw [evalStringLit_esc, ih]; simp
    | tab s r _ ih => rw [evalStringLit_esc, ih]; simp
    | bs s r _ ih => rw [evalStringLit_esc, ih]; simp

/-- C13: a string without backslashes denotes exactly its characters. -/
theorem evalString_no_backslash (s : Bytes) (h : (92 : UInt8) ∉ s) : evalStringLit s = .ok s := by
  rw [evalString_ok_iff]
  induction s with
  | nil => exact .nil
  | cons c cs ih =>
    exact .plain c cs cs (fun e => h (by simp [e])) (ih fun m => h (List.mem_cons_of_mem _ m))

example : (92 : UInt8) ∉ b!"it's \"x\"" := by decide

/-- C13: evaluation fails iff, after a well-formed prefix, there is a backslash that ends the
    string or is followed by a byte other than `n`, `t`, `\`.  (`\\x` is fine: the prefix
    condition pairs backslashes left to right.) -/
theorem evalString_spec (s : Bytes) :
    (∃ m, evalStringLit s = .error m) ↔
      ∃ pre pre', Unesc pre pre' ∧
        (s = pre ++ [92] ∨ ∃ c rest, s = pre ++ 92 :: c :: rest ∧ c ≠ 110 ∧ c ≠ 116 ∧ c ≠ 92) := by
  constructor
  · rintro ⟨m, h⟩
    induction s using evalStringLit.induct generalizing m with
    | case1 => rw [evalStringLit] at h; cases h
    | case2 => exact ⟨[], [], .nil, .inl rfl⟩
    | case3 c rest out hout =>
      refine ⟨[], [], .nil, .inr ⟨c, rest, rfl, ?_, ?_, ?_⟩⟩ <;> (rintro rfl; simp [out] at hout)
    | case4 c rest out b hout rr hr ih =>
      rw [evalStringLit_esc, hr] at h
      by_cases h1 : c = 110
      · simp [h1] at h
      · by_cases h2 : c = 92
        · simp [h2] at h
        · by_cases h3 : c = 116
          · simp [h3] at h
          · simp [out, h1, h2, h3] at hout
    | case5 c rest out b hout m' hr ih =>
      obtain ⟨pre, pre', hp, hbad⟩ := ih m' hr
      have hwf : ∃ x, Unesc (92 :: c :: pre) (x :: pre') := by
        by_cases h1 : c = 110
        · subst h1; exact ⟨_, .nl _ _ hp⟩
        · by_cases h2 : c = 92
          · subst h2; exact ⟨_, .bs _ _ hp⟩
          · by_cases h3 : c = 116
            · subst h3; exact ⟨_, .tab _ _ hp⟩
            · simp [out, h1, h2, h3] at hout
      obtain ⟨x, hx⟩ := hwf
      refine ⟨92 :: c :: pre, x :: pre', hx, ?_⟩
      rcases hbad with rfl | ⟨d, rest', rfl, hd⟩
      · exact .inl rfl
      · exact .inr ⟨d, rest', rfl, hd⟩
    | case6 c rest hne1 hne2 rr hr ih =>
      have hc : c ≠ 92 := by
        intro e; subst e
        cases rest with
        | nil => exact hne1 rfl rfl
        | cons d ds => exact hne2 d ds rfl rfl
      rw [evalStringLit_plain c rest hc, hr] at h
      cases h
    | case7 c rest hne1 hne2 m' hr ih =>
      have hc : c ≠ 92 := by
        intro e; subst e
        cases rest with
        | nil => exact hne1 rfl rfl
        | cons d ds => exact hne2 d ds rfl rfl
      obtain ⟨pre, pre', hp, hbad⟩ := ih m' hr
      refine ⟨c :: pre, c :: pre', .plain _ _ _ hc hp, ?_⟩
      rcases hbad with rfl | ⟨d, rest', rfl, hd⟩
      · exact .inl rfl
      · exact .inr ⟨d, rest', rfl, hd⟩
  · rintro ⟨pre, pre', hp, hbad⟩
    have key : ∀ tail, (∃ m, evalStringLit tail = .error m) →
        ∃ m, evalStringLit (pre ++ tail) = .error m := by
      intro tail ⟨m, hm⟩
      clear hbad
      induction hp with
      | nil => exact ⟨m, hm⟩
      | plain c s r hc _ ih =>
        obtain ⟨m', hm'⟩ := ih
        exact ⟨m', by rw [List.cons_append, evalStringLit_plain _ _ hc, hm']⟩
      | nl s r _ ih =>
        obtain ⟨m', hm'⟩ := ih
        exact ⟨m', by rw [List.cons_append, List.cons_append, evalStringLit_esc, hm']; simp⟩
      | tab s r _ ih =>
        obtain ⟨m', hm'⟩ := ih
        exact ⟨m', by rw [List.cons_append, List.cons_append, evalStringLit_esc, hm']; simp⟩
      | bs s r _ ih =>
        obtain ⟨m', hm'⟩ := ih
        exact ⟨m', by rw [List.cons_append, List.cons_append, evalStringLit_esc, hm']; simp⟩
    rcases hbad with rfl | ⟨c, rest, rfl, h1, h2, h3⟩
    · exact key _ ⟨_, rfl⟩
    · exact key _ ⟨"unknown escape char", by rw [evalStringLit_esc]; simp [h1, h2, h3]⟩

example : evalStringLit b!"a\\nb\\\\n\\t" = .ok b!"a\nb\\n\t" := by rfl
example : evalStringLit b!"a\\qb" = .error "unknown escape char" := by rfl
example : evalStringLit b!"ab\\" = .error "unexpected '\\' at end of string" := by rfl
example : evalStringLit b!"ab\\\\" = .ok b!"ab\\" := by rfl

/-! ### 6. the lifting principle: the parser sees its input only through the token source -/

/-- `PM.run` is `PM.runWith` for the real lexer -/
theorem run_eq_runWith {α : Type} (m : PM α) (s : LexState) : m.run s = m.runWith lexerSrc s :=
  PM.run_eq_runWith m s

/-- C13 (lifting): if `R` is a simulation between two token sources (related states answer both
    requests with equal tokens, flags and errors, and move to related states) then every parser
    program gives the same result from related states. -/
theorem run_bisim {σ₁ σ₂ α : Type} {src₁ : TokSrc σ₁} {src₂ : TokSrc σ₂} {R : σ₁ → σ₂ → Prop}
    (hR : PM.IsSim src₁ src₂ R) (m : PM α) (s₁ : σ₁) (s₂ : σ₂) (h : R s₁ s₂) :
    m.runWith src₁ s₁ = m.runWith src₂ s₂ :=
  PM.run_bisim hR m s₁ s₂ h

/-- equality of lexer states is a simulation of the lexer with itself (non-vacuity) -/
example : PM.IsSim lexerSrc lexerSrc (fun s s' => s = s') where
  next := fun s s' h => by
    subst h
    generalize lexerSrc.next s = x
    cases x with
    | error e => exact rfl
    | ok r => obtain ⟨t, nl, s⟩ := r; exact ⟨rfl, rfl, rfl⟩
  regex := fun s s' h => by
    subst h
    generalize lexerSrc.regex s = x
    cases x with
    | error e => exact rfl
    | ok r => obtain ⟨t, s⟩ := r; exact ⟨rfl, rfl⟩

/-! ### 7. layout invariance, up to positions -/

/-- Token-level equivalence of two lexer states: some simulation up to positions relates them,
    i.e. they answer every sequence of `Next`/`Regex` requests with the same tokens (tag and
    text), the same newline flags and errors with the same message — only positions differ. -/
def TokEquiv (s₁ s₂ : LexState) : Prop :=
  ∃ R : LexState → LexState → Prop, PM.IsSimE lexerSrc lexerSrc R ∧ R s₁ s₂

/-- outcomes equal up to positions: same AST after `erase`, or errors with the same message.
    An out-of-fuel outcome (never a real outcome: the model's fuel is an artefact) on either
    side is not compared. -/
def ResEquiv {α : Type} [Erase α] : ParseRes α → ParseRes α → Prop
  | .ok a, .ok b => erase a = erase b
  | .syntaxErr e₁, .syntaxErr e₂ => e₁.msg = e₂.msg
  | .oof, _ => True
  | _, .oof => True
  | _, _ => False

theorem isSimE_symm {σ₁ σ₂ : Type} {src₁ : TokSrc σ₁} {src₂ : TokSrc σ₂} {R : σ₁ → σ₂ → Prop}
    (hR : PM.IsSimE src₁ src₂ R) : PM.IsSimE src₂ src₁ (fun a b => R b a) where
  next := fun s₂ s₁ h => by
    have := hR.next s₁ s₂ h
    revert this
    cases src₁.next s₁ <;> cases src₂.next s₂ <;> simp only [PM.AnsNextE] <;> intro h
    · exact h.symm
    · exact h
    · exact h
    · exact ⟨h.1.symm, h.2.1.symm, h.2.2⟩
  regex := fun s₂ s₁ h => by
    have := hR.regex s₁ s₂ h
    revert this
    cases src₁.regex s₁ <;> cases src₂.regex s₂ <;> simp only [PM.AnsRegexE] <;> intro h
    · exact h.symm
    · exact h
    · exact h
    · exact ⟨h.1.symm, h.2⟩

theorem tokEquiv_symm {s₁ s₂ : LexState} (h : TokEquiv s₁ s₂) : TokEquiv s₂ s₁ := by
  obtain ⟨R, hR, h⟩ := h
  exact ⟨fun a b => R b a, isSimE_symm hR, h⟩

/-- C13 (parametricity of the parser in token positions + lifting): the parser, run with fuel
    `n₁ ≤ n₂` against two token sources related by a simulation up to positions, makes the same
    decisions: the results are equal up to positions (`ParseRes.Sim`: same AST after `erase`
    and parser state up to positions, or errors with the same message; the run with less
    fuel may be out of fuel).  Every parser function only copies token positions into the
    AST or into error positions and never branches on them (Lemmas/Param.lean, `allSim`). -/
theorem parser_parametric (tbl : RuleTable) (n₁ n₂ : Nat) (hn : n₁ ≤ n₂) {σ₁ σ₂ : Type}
    {src₁ : TokSrc σ₁} {src₂ : TokSrc σ₂} {R : σ₁ → σ₂ → Prop} (hR : PM.IsSimE src₁ src₂ R)
    (s₁ : σ₁) (s₂ : σ₂) (hs : R s₁ s₂) :
    ParseRes.Sim ((Parser.parseProgram tbl n₁ PS.init).runWith src₁ s₁)
      ((Parser.parseProgram tbl n₂ PS.init).runWith src₂ s₂) ∧
    ParseRes.Sim ((Parser.parseExpression tbl n₁ PS.init).runWith src₁ s₁)
      ((Parser.parseExpression tbl n₂ PS.init).runWith src₂ s₂) :=
  ⟨PM.run_sim hR (parseProgram_sim tbl n₁ n₂ hn PS.init PS.init rfl) s₁ s₂ hs,
   PM.run_sim hR (parseExpression_sim tbl n₁ n₂ hn PS.init PS.init rfl) s₁ s₂ hs⟩

/-- "same unread text" is a simulation up to positions of the lexer with itself (non-vacuity) -/
example : PM.IsSimE lexerSrc lexerSrc Lexer.SameRest ∧
    Lexer.SameRest ⟨b!"x = 1", 0, 0⟩ ⟨b!"x = 1", 40, 7⟩ := ⟨sameRest_isSimE, rfl⟩

/-- drop the final parser state, as `parseProgramSrc` does -/
def stripPS {α : Type} : ParseRes (α × PS) → ParseRes α
  | .ok (p, _) => .ok p
  | .syntaxErr e => .syntaxErr e
  | .oof => .oof

theorem resEquiv_of_sim {α : Type} [Erase α] {a b : ParseRes (α × PS)} (h : ParseRes.Sim a b) :
    ResEquiv (stripPS a) (stripPS b) ∧ ResEquiv (stripPS b) (stripPS a) := by
  cases h with
  | ok hab =>
    rename_i x y; obtain ⟨x1, x2⟩ := x; obtain ⟨y1, y2⟩ := y
    simp only [erase_pair, Prod.mk.injEq] at hab
    exact ⟨hab.1, hab.1.symm⟩
  | syntaxErr he => exact ⟨he, he.symm⟩
  | oofL => cases b <;> simp [stripPS, ResEquiv]

/-- the program parser from two token-equivalent lexer states, any two amounts of fuel: results
    equal up to positions — as far as `ResEquiv` compares them: nothing is claimed when either
    run is out of fuel (e.g. trivially true for `n₁ = 0`) -/
theorem parse_tokEquiv (tbl : RuleTable) (n₁ n₂ : Nat) (s₁ s₂ : LexState) (h : TokEquiv s₁ s₂) :
    ResEquiv (stripPS ((Parser.parseProgram tbl n₁ PS.init).run s₁))
      (stripPS ((Parser.parseProgram tbl n₂ PS.init).run s₂)) ∧
    ResEquiv (stripPS ((Parser.parseExpression tbl n₁ PS.init).run s₁))
      (stripPS ((Parser.parseExpression tbl n₂ PS.init).run s₂)) := by
  simp only [run_eq_runWith]
  rcases Nat.le_total n₁ n₂ with hn | hn
  · obtain ⟨R, hR, hs⟩ := h
    obtain ⟨h1, h2⟩ := parser_parametric tbl n₁ n₂ hn hR s₁ s₂ hs
    exact ⟨(resEquiv_of_sim h1).1, (resEquiv_of_sim h2).1⟩
  · obtain ⟨R, hR, hs⟩ := tokEquiv_symm h
    obtain ⟨h1, h2⟩ := parser_parametric tbl n₂ n₁ hn hR s₂ s₁ hs
    exact ⟨(resEquiv_of_sim h1).2, (resEquiv_of_sim h2).2⟩

theorem parseProgramSrc_eq (tbl : RuleTable) (src : Bytes) :
    parseProgramSrc tbl src =
      stripPS ((Parser.parseProgram tbl (parserFuel src) PS.init).run (LexState.init src)) := by
  unfold parseProgramSrc stripPS
  split <;> simp_all

theorem parseExpressionSrc_eq (tbl : RuleTable) (src : Bytes) :
    parseExpressionSrc tbl src =
      stripPS ((Parser.parseExpression tbl (parserFuel src) PS.init).run (LexState.init src)) := by
  unfold parseExpressionSrc stripPS
  split <;> simp_all

/-- C13 (the lifting): two program texts whose lexer states are token-equivalent (same tokens
    up to positions for every request sequence — whatever the layout, comments, or offsets)
    parse to the same AST up to positions, or both fail with the same message, with any rule
    table — PROVIDED neither run is out of fuel: `ResEquiv` holds as soon as either side is
    `.oof`.  So this is an agreement statement only; section 10 (`parse_never_oof`) shows that
    `parserFuel` always suffices for tables without EOF rules, and `layout_invariant_total` /
    `layout_invariant_parses` there are this theorem without the out-of-fuel escape.  Only the parse
    is covered, not evaluation.  (Since the fuel depends on the length of the text the two runs
    use different fuel — handled by fuel monotonicity, which is part of `allSim`.) -/
theorem layout_invariant (tbl : RuleTable) (src₁ src₂ : Bytes)
    (h : TokEquiv (LexState.init src₁) (LexState.init src₂)) :
    ResEquiv (parseProgramSrc tbl src₁) (parseProgramSrc tbl src₂) ∧
    ResEquiv (parseExpressionSrc tbl src₁) (parseExpressionSrc tbl src₂) := by
  rw [parseProgramSrc_eq, parseProgramSrc_eq, parseExpressionSrc_eq, parseExpressionSrc_eq]
  exact parse_tokEquiv tbl _ _ _ _ h

/-- non-vacuity of `layout_invariant` with two different texts (` x` and `x`: the relation is
    "same unread text, or this pair of initial states"); both texts parse, so here the
    conclusion does not hold merely by the `oof` clause of `ResEquiv` -/
example : TokEquiv (LexState.init b!" x") (LexState.init b!"x") ∧
    (match parseProgramSrc expectedRuleTable b!" x", parseProgramSrc expectedRuleTable b!"x" with
      | .ok _, .ok _ => true | _, _ => false) = true := by
  refine ⟨⟨fun a b => Lexer.SameRest a b ∨ (a = LexState.init b!" x" ∧ b = LexState.init b!"x"),
    ⟨?_, ?_⟩, .inr ⟨rfl, rfl⟩⟩, by decide +kernel⟩
  · rintro a b (h | ⟨rfl, rfl⟩)
    · have := sameRest_isSimE.next a b h
      revert this
      cases lexerSrc.next a <;> cases lexerSrc.next b <;> simp only [PM.AnsNextE] <;> intro h
      · exact h
      · exact h
      · exact h
      · exact ⟨h.1, h.2.1, .inl h.2.2⟩
    · exact ⟨rfl, rfl, .inl rfl⟩
  · rintro a b (h | ⟨rfl, rfl⟩)
    · have := sameRest_isSimE.regex a b h
      revert this
      cases lexerSrc.regex a <;> cases lexerSrc.regex b <;> simp only [PM.AnsRegexE] <;> intro h
      · exact h
      · exact h
      · exact h
      · exact ⟨h.1, .inl h.2⟩
    · exact rfl

/-- Instance 1: lexer states with the same unread text are token-equivalent — lexing depends on
    absolute offsets (and on Go's `tokenStart`) only through the positions it reports. -/
theorem tokEquiv_of_sameRest (s₁ s₂ : LexState) (h : s₁.rest = s₂.rest) : TokEquiv s₁ s₂ :=
  ⟨Lexer.SameRest, sameRest_isSimE, h⟩

example : TokEquiv ⟨b!"x = 1", 0, 0⟩ ⟨b!"x = 1", 40, 7⟩ := tokEquiv_of_sameRest _ _ rfl

/-- Instance 2: horizontal trivia (blanks, tabs, CRs, comments up to a newline) in front of a
    program does not change its parse (up to positions; `ResEquiv`: nothing is claimed if either
    run is out of fuel — the example below checks that both runs succeed there). -/
theorem leading_trivia_invariant (tbl : RuleTable) (t src : Bytes) (ht : Trivia t src) :
    ResEquiv (parseProgramSrc tbl (t ++ src)) (parseProgramSrc tbl src) ∧
    ResEquiv (parseExpressionSrc tbl (t ++ src)) (parseExpressionSrc tbl src) := by
  rw [parseProgramSrc_eq, parseProgramSrc_eq, parseExpressionSrc_eq, parseExpressionSrc_eq]
  -- the first request of both parsers is `next`, answered alike from `t ++ src` and from `src`
  have hnext : ∀ {α : Type} (k : Token → Bool → PM α),
      (PM.next k).run (LexState.init (t ++ src)) = (PM.next k).run ⟨src, 0 + t.length, 0⟩ := by
    intro α k
    simp only [PM.run, LexState.init]
    rw [nextNN_trivia ht 0 0 false]
  have e1 : ∀ n, (Parser.parseProgram tbl n PS.init).run (LexState.init (t ++ src))
      = (Parser.parseProgram tbl n PS.init).run ⟨src, 0 + t.length, 0⟩ := fun n => hnext _
  have e2 : ∀ n, (Parser.parseExpression tbl n PS.init).run (LexState.init (t ++ src))
      = (Parser.parseExpression tbl n PS.init).run ⟨src, 0 + t.length, 0⟩ := fun n => hnext _
  rw [e1, e2]
  exact parse_tokEquiv tbl _ _ _ _ (tokEquiv_of_sameRest _ _ rfl)

example : ResEquiv (parseProgramSrc expectedRuleTable (b!" \t # note" ++ b!"\n{ print 1 }"))
    (parseProgramSrc expectedRuleTable b!"\n{ print 1 }") :=
  (leading_trivia_invariant expectedRuleTable _ _
    (.blank _ _ _ rfl (.blank _ _ _ rfl (.blank _ _ _ rfl
      (.comment b!" note" [] _ (by decide) (.inr rfl) (.nil _)))))).1

/-- … and in this instance both texts do parse (neither run is out of fuel) -/
example : (match parseProgramSrc expectedRuleTable (b!" \t # note" ++ b!"\n{ print 1 }"),
      parseProgramSrc expectedRuleTable b!"\n{ print 1 }" with
    | .ok _, .ok _ => true | _, _ => false) = true := by decide +kernel

/-- C13, what is proved about trivia between tokens (`layout_invariant` reduces the property
    to token equivalence; this is the token-source half for horizontal trivia): in front of
    ANY token, different amounts of horizontal trivia are invisible to the parser's `advance`
    request — same token up to its position, same newline flag, same error message — and the
    successor states have the same unread text, so they are token-equivalent for good
    (`tokEquiv_of_sameRest`).

    Missing for the full "trivia between any two tokens of any program" statement: a relation
    between whole program texts that contains all such re-layouts and is closed under BOTH
    requests.  No relation on lexer states alone can do this: after a `/` token the parser may
    ask for the raw bytes up to the next `/` (`Regex`), and then blanks are significant (first
    examples below: a regex with and without a leading blank), whereas in `a / b  / c` the same
    bytes are re-lexed as tokens; which of the two happens is decided by the parser (prefix or
    infix position), not by the lexer state.  The missing piece is therefore a simulation
    relative to the requests the parser actually makes (a refinement of `PM.run_sim` indexed by
    the program), instantiated with "trivia inserted where `Next` is requested".  Section 8
    supplies this for ONE insertion point of a text that parses, in the lengthening direction:
    `newline_insertion_bytes` with a newline-free `w` is horizontal-trivia insertion at a token
    boundary of the parser's own run.  Newline insertion and `;`-for-newline (which change the
    newline flags / the token stream) are the subject of sections 8 and 9 below. -/
theorem layout_invariant_partial (t t' x : Bytes) (ht : Trivia t x) (ht' : Trivia t' x)
    (p ts p' ts' : Nat) :
    PM.AnsNextE Lexer.SameRest (lexerSrc.next ⟨t ++ x, p, ts⟩) (lexerSrc.next ⟨t' ++ x, p', ts'⟩) := by
  show PM.AnsNextE _ (Lexer.nextNN ((t ++ x).length + 1) ⟨t ++ x, p, ts⟩ false)
    (Lexer.nextNN ((t' ++ x).length + 1) ⟨t' ++ x, p', ts'⟩ false)
  rw [nextNN_trivia ht, nextNN_trivia ht']
  exact nextNN_shift _ _ _ _ rfl

example : Trivia b!"  " b!"+ 1" ∧ Trivia b!"\t# c" b!"\n+ 1" :=
  ⟨.blank _ _ _ rfl (.blank _ _ _ rfl (.nil _)),
   .blank _ _ _ rfl (.comment b!" c" [] _ (by decide) (.inr rfl) (.nil _))⟩

example : Lexer.regex ⟨b!" x/", 1, 0⟩ = .ok (⟨.regex, 1, b!" x"⟩, ⟨[], 4, 1⟩) := by rfl
example : Lexer.regex ⟨b!"x/", 1, 0⟩ = .ok (⟨.regex, 1, b!"x"⟩, ⟨[], 3, 1⟩) := by rfl

/-! ### 8. newline insertion

The parser sees a newline only as the flag "a newline was skipped before this token" that comes
with every answer to `next` (`Parser.advance` stores it in `didEnd`); the flag is read by
`atStatementEnd` only.  The theorems below say: raising flags — inserting newlines — does not
change the parse of a program that parses, except at the positions the property lists:

* directly after `print` or `return`,
* after a comma of a `print` list — statically over-approximated by "a comma at print level":
  the innermost bracket `(`/`[`/`{` still open at the comma was opened before a `print` that is
  itself not enclosed in a later bracket (`Nl.applyTag` keeps the stack of open brackets with a
  mark "a `print` occurred directly in this bracket"; `Nl.top`).  In a program that parses, the
  commas at print level should be exactly the commas of `print` lists (every other comma is
  directly inside `(…)`, `[…]`, an object literal or a `match` body, which contain no `print`
  directly) — this exactness is an informal argument, NOT a theorem of this file; what is
  proved excludes every print-level comma,
* directly before a `;`.

No other exclusion was needed.  The rule table is arbitrary up to `Nl.TableOK` (no bracket token
is consumed as a literal/operator/regex opener), which holds for the table of the interpreter. -/

open Nl in
/-- C13 (newline insertion, the general form): for any rule table with `TableOK`, any fuel, and
    any two token sources related by a newline-insertion simulation `Rσ` (same tokens; the right
    source may answer with the newline flag set where the left one does not, but only where
    `Nl.Allowed` holds in the ghost state: not after `print`/`return`, not after a print-level
    comma, not before `;`): if the left parse succeeds, the right parse succeeds with the same
    AST.  Both for programs and for expressions. -/
theorem newline_insertion_sources (tbl : RuleTable) (hT : TableOK tbl = true) (n : Nat)
    {σ₁ σ₂ : Type} {src₁ : TokSrc σ₁} {src₂ : TokSrc σ₂} {Rσ : G → σ₁ → σ₂ → Prop}
    (hS : IsNlSim src₁ src₂ Rσ) (s₁ : σ₁) (s₂ : σ₂) (hs : Rσ G.init s₁ s₂) :
    (∀ p st, (Parser.parseProgram tbl n PS.init).runWith src₁ s₁ = .ok (p, st) →
      ∃ st', (Parser.parseProgram tbl n PS.init).runWith src₂ s₂ = .ok (p, st')) ∧
    (∀ e st, (Parser.parseExpression tbl n PS.init).runWith src₁ s₁ = .ok (e, st) →
      ∃ st', (Parser.parseExpression tbl n PS.init).runWith src₂ s₂ = .ok (e, st')) :=
  ⟨fun _ _ hr => parseProgram_run hT n hS hs hr, fun _ _ hr => parseExpression_run hT n hS hs hr⟩

/-- the table of the interpreter satisfies `TableOK`; flagged token lists related by `NlMoreAt`
    form a newline-insertion simulation (non-vacuity of `newline_insertion_sources`) -/
example : Nl.TableOK expectedRuleTable = true ∧ Nl.IsNlSim Nl.flagSrc Nl.flagSrc Nl.NlMoreAt :=
  ⟨by decide, Nl.flagSrc_isNlSim⟩

open Nl in
/-- C13 (newline insertion on token sequences): `ts` and `ts'` are the same tokens, each with
    its flag "a newline precedes me"; `NlMoreAt G.init ts ts'` (decidable: `nlMoreB`) says that
    `ts'` has all newlines of `ts` and possibly more, none of the additional ones directly after
    `print`/`return`, after a print-level comma, or before `;`.  If `ts` parses to `p`, so does
    `ts'` — any `TableOK` rule table, any fuel. -/
theorem newline_insertion_tokens (tbl : RuleTable) (hT : TableOK tbl = true) (n : Nat)
    (ts ts' : List (Token × Bool)) (h : NlMoreAt G.init ts ts') (p : Program)
    (hp : parseFlags tbl n ts = .ok p) : parseFlags tbl n ts' = .ok p :=
  parseFlags_nlMore hT n h hp

open Nl in
/-- C13 (one newline): a newline may be inserted in front of the `i`-th token whenever
    `insertableAt G.init ts i` — see `insertable_spec` for what that means. -/
theorem newline_insertion_single (tbl : RuleTable) (hT : TableOK tbl = true) (n : Nat)
    (ts : List (Token × Bool)) (i : Nat) (h : insertableAt G.init ts i = true) (p : Program)
    (hp : parseFlags tbl n ts = .ok p) : parseFlags tbl n (setNl ts i) = .ok p :=
  parseFlags_nlMore hT n (nlMoreAt_setNl G.init ts i h) hp

open Nl in
/-- C13: where a newline may be inserted, in closed form.  In front of the `i`-th token
    (`0 < i`), with `u` the token before it: `u` is not `print` or `return`; `u` is not a comma
    at print level (the bracket stack `stackOf` of the tokens before `u` has a marked top); and
    the `i`-th token is not `;`. -/
theorem insertable_spec (ts : List (Token × Bool)) (i : Nat) (hi : i < ts.length) (h0 : 0 < i) :
    insertableAt G.init ts i =
      (let u := (ts[i - 1]'(by omega)).1.tag
       u != .print && u != .return_ &&
       !(u == .comma && top (stackOf ((ts.take (i - 1)).map fun x => x.1.tag))) &&
       (ts[i]'hi).1.tag != .semiColon) := by
  unfold insertableAt
  rw [List.getElem?_eq_getElem hi, ghostAt_eq ts i hi h0]
  rfl

/-! examples: the programs are lexed by `lexE` (every token through `Lexer.nextNN`, as
    `Parser.advance` does; positions erased so that the two layouts give the same tokens) -/

/-- the parse (as an S-expression dump) of a program text through its flagged token list -/
def parseText (src : Bytes) : Option Bytes :=
  dumpParse (Nl.parseFlags expectedRuleTable 300 (lexE src))

/-- a newline between (almost) any two tokens — before `(`, `[`, `else`, `{`, after non-print
    commas, inside expressions, before the `,` of a print list …: hypothesis of
    `newline_insertion_tokens` holds, and (as the theorem says) the parses agree -/
example :
    Nl.nlMoreB Nl.G.init
      (lexE b!"BEGIN { x = f(1, 2) + [3, 4][0]; if (x) print x, 1 else print 2 } $1 > 0 { y = {a: 1, b: 2} }")
      (lexE b!"BEGIN\n{\nx\n=\nf\n(\n1\n,\n2\n)\n+\n[\n3\n,\n4\n]\n[\n0\n];\nif\n(\nx\n)\nprint x\n, 1\nelse\nprint 2\n}\n$1\n>\n0\n{\ny\n=\n{\na\n:\n1\n,\nb\n:\n2\n}\n}\n")
      = true ∧
    (parseText b!"BEGIN { x = f(1, 2) + [3, 4][0]; if (x) print x, 1 else print 2 } $1 > 0 { y = {a: 1, b: 2} }").isSome = true ∧
    parseText b!"BEGIN { x = f(1, 2) + [3, 4][0]; if (x) print x, 1 else print 2 } $1 > 0 { y = {a: 1, b: 2} }" =
    parseText b!"BEGIN\n{\nx\n=\nf\n(\n1\n,\n2\n)\n+\n[\n3\n,\n4\n]\n[\n0\n];\nif\n(\nx\n)\nprint x\n, 1\nelse\nprint 2\n}\n$1\n>\n0\n{\ny\n=\n{\na\n:\n1\n,\nb\n:\n2\n}\n}\n" := by
  decide +kernel

/-- F1: a newline before `(`, `[`, `-`, `++` does not end the statement — it is one of the
    newlines that may be inserted, and the parse (a call, an index, a subtraction, a postfix
    increment) is the same as without it -/
example :
    Nl.nlMoreB Nl.G.init (lexE b!"BEGIN { x = f (1); y = a [0]; z = 1 - 2; w ++ }")
      (lexE b!"BEGIN { x = f\n(1); y = a\n[0]; z = 1\n- 2; w\n++ }") = true ∧
    (parseText b!"BEGIN { x = f (1); y = a [0]; z = 1 - 2; w ++ }").isSome = true ∧
    parseText b!"BEGIN { x = f (1); y = a [0]; z = 1 - 2; w ++ }" =
      parseText b!"BEGIN { x = f\n(1); y = a\n[0]; z = 1\n- 2; w\n++ }" := by
  decide +kernel

/-- each exclusion is needed, 1: a newline directly after `print` (`print` alone, then the
    expression statement `1`) — not related by `nlMoreB`, and the parse changes -/
example :
    Nl.nlMoreB Nl.G.init (lexE b!"BEGIN { print 1 }") (lexE b!"BEGIN { print\n1 }") = false ∧
    (parseText b!"BEGIN { print 1 }").isSome = true ∧ (parseText b!"BEGIN { print\n1 }").isSome = true ∧
    parseText b!"BEGIN { print 1 }" ≠ parseText b!"BEGIN { print\n1 }" := by
  decide +kernel

/-- … 2: directly after `return` -/
example :
    Nl.nlMoreB Nl.G.init (lexE b!"function f() { return 1 }") (lexE b!"function f() { return\n1 }") = false ∧
    (parseText b!"function f() { return 1 }").isSome = true ∧
    (parseText b!"function f() { return\n1 }").isSome = true ∧
    parseText b!"function f() { return 1 }" ≠ parseText b!"function f() { return\n1 }" := by
  decide +kernel

/-- … 3: after a comma of a print list (the statement ends after the comma) — whereas after a
    comma inside brackets within the same print statement a newline is fine -/
example :
    Nl.nlMoreB Nl.G.init (lexE b!"BEGIN { print 1, 2 }") (lexE b!"BEGIN { print 1,\n2 }") = false ∧
    (parseText b!"BEGIN { print 1, 2 }").isSome = true ∧ (parseText b!"BEGIN { print 1,\n2 }").isSome = true ∧
    parseText b!"BEGIN { print 1, 2 }" ≠ parseText b!"BEGIN { print 1,\n2 }" ∧
    Nl.nlMoreB Nl.G.init (lexE b!"BEGIN { print f(1, 2), [3, 4] }")
      (lexE b!"BEGIN { print f(1,\n2), [3,\n4] }") = true ∧
    parseText b!"BEGIN { print f(1, 2), [3, 4] }" = parseText b!"BEGIN { print f(1,\n2), [3,\n4] }" := by
  decide +kernel

/-- … 4: directly before `;` (the newline ends the statement, the `;` is then not consumed and
    the next statement starts with it: a syntax error) -/
example :
    Nl.nlMoreB Nl.G.init (lexE b!"BEGIN { x = 1; y = 2 }") (lexE b!"BEGIN { x = 1\n; y = 2 }") = false ∧
    (parseText b!"BEGIN { x = 1; y = 2 }").isSome = true ∧
    parseText b!"BEGIN { x = 1\n; y = 2 }" = none := by
  decide +kernel

/-- the hypothesis of `newline_insertion_single` on a concrete program: in front of token 7
    (the `2` after the comma of `f(1, 2)`) a newline may be inserted; in front of token 3 (after
    `print`) not -/
example : Nl.insertableAt Nl.G.init (lexE b!"BEGIN { print f(1, 2) }") 7 = true ∧
    Nl.insertableAt Nl.G.init (lexE b!"BEGIN { print f(1, 2) }") 3 = false ∧
    (lexE b!"BEGIN { print f(1, 2) }").length = 11 := by
  decide +kernel

/-- … the program parses (hypothesis `hp`, fuel 300), `setNl … 7` is the token list of the text
    with the newline, and (as the theorem says) the parse is unchanged -/
example :
    (parseText b!"BEGIN { print f(1, 2) }").isSome = true ∧
    Nl.setNl (lexE b!"BEGIN { print f(1, 2) }") 7 = lexE b!"BEGIN { print f(1,\n2) }" ∧
    dumpParse (Nl.parseFlags expectedRuleTable 300 (Nl.setNl (lexE b!"BEGIN { print f(1, 2) }") 7)) =
      parseText b!"BEGIN { print f(1, 2) }" := by
  decide +kernel

/-! #### up to positions, and the lexer -/

open Nl in
/-- two lexer states are newline-insertion equivalent: some newline-insertion simulation up to
    positions relates them (the right state answers every request sequence with the same tokens
    up to positions, and newline flags raised only where allowed) -/
def NlTokEquiv (s₁ s₂ : LexState) : Prop :=
  ∃ Rσ : G → LexState → LexState → Prop, IsNlSimE lexerSrc lexerSrc Rσ ∧ Rσ G.init s₁ s₂

/-- C13 (newline insertion, program texts, the lifting): if the lexer state of `src₂` is
    newline-insertion equivalent to that of `src₁` (and `src₂` is not shorter, so that it gets
    at least as much fuel) and `src₁` parses, then `src₂` parses to the same AST up to positions.
    Like `layout_invariant`, this reduces the property to a statement about the two token
    streams; `leading_newlines_invariant` is an instance for real texts, `nextNN_vtrivia_flag`
    the lexer fact for an arbitrary position. -/
theorem newline_layout_invariant (tbl : RuleTable) (hT : Nl.TableOK tbl = true) (src₁ src₂ : Bytes)
    (hlen : src₁.length ≤ src₂.length)
    (h : NlTokEquiv (LexState.init src₁) (LexState.init src₂)) (p : Program)
    (hp : parseProgramSrc tbl src₁ = .ok p) :
    ∃ p', parseProgramSrc tbl src₂ = .ok p' ∧ erase p = erase p' := by
  obtain ⟨Rσ, hS, hs⟩ := h
  rw [parseProgramSrc_eq] at hp ⊢
  rw [run_eq_runWith] at hp ⊢
  cases hr : (Parser.parseProgram tbl (parserFuel src₁) PS.init).runWith lexerSrc (LexState.init src₁) with
  | ok r =>
    obtain ⟨p₀, st⟩ := r
    rw [hr] at hp
    simp only [stripPS, ParseRes.ok.injEq] at hp
    subst hp
    obtain ⟨p', st', h', he⟩ := Nl.parseProgram_runE hT (parserFuel src₁) (parserFuel src₂)
      (by unfold parserFuel; omega) hS hs hr
    exact ⟨p', by rw [h']; rfl, he⟩
  | syntaxErr e => rw [hr] at hp; cases hp
  | oof => rw [hr] at hp; cases hp

/-- "same unread text" is an instance (non-vacuity of `newline_layout_invariant`) -/
example : NlTokEquiv ⟨b!"x = 1", 0, 0⟩ ⟨b!"x = 1", 40, 7⟩ :=
  ⟨fun _ => Lexer.SameRest,
   { next := fun g s₁ s₂ h t nl s₁' h₁ => Nl.sameRest_nlSimE_next g s₁ s₂ h t nl s₁' h₁
     regex := fun _ s₁ s₂ h t s₁' h₁ => Nl.sameRest_nlSimE_regex s₁ s₂ h t s₁' h₁ }, rfl⟩

/-- all hypotheses of `newline_layout_invariant` on two different texts (`x` and `⏎x`; the
    relation is "same unread text, or this pair of initial states in the initial ghost state") -/
example : NlTokEquiv (LexState.init b!"x") (LexState.init b!"\nx") ∧ b!"x".length ≤ b!"\nx".length ∧
    Nl.TableOK expectedRuleTable = true ∧
    (match parseProgramSrc expectedRuleTable b!"x" with | .ok _ => true | _ => false) = true := by
  refine ⟨⟨fun g a b => Lexer.SameRest a b ∨
      (g = Nl.G.init ∧ a = LexState.init b!"x" ∧ b = LexState.init b!"\nx"), ⟨?_, ?_⟩,
      .inr ⟨rfl, rfl, rfl⟩⟩, by decide, by decide, by decide +kernel⟩
  · rintro g a b (h | ⟨rfl, rfl, rfl⟩) t nl a' h₁
    · obtain ⟨t', nl', b', e1, e2, e3, e4⟩ := Nl.sameRest_nlSimE_next g a b h t nl a' h₁
      exact ⟨t', nl', b', e1, e2, e3, .inl e4⟩
    · cases h₁
      exact ⟨_, true, _, rfl, rfl, .inr ⟨rfl, rfl, by decide⟩, .inl rfl⟩
  · rintro g a b (h | ⟨rfl, rfl, rfl⟩) t a' h₁
    · obtain ⟨e0, t', b', e1, e2, e4⟩ := Nl.sameRest_nlSimE_regex a b h t a' h₁
      exact ⟨e0, t', b', e1, e2, .inl e4⟩
    · cases h₁

/-- C13 (the lexer fact behind "a newline, alone or after a comment, between two tokens"):
    vertical trivia `w` — blanks, tabs, CRs, `#` comments running up to a newline, newlines — in
    front of ANY unread text `x` changes what the parser's `advance` receives only in positions
    and in the newline flag, which is set iff it was set or `w` contains a newline: same token up
    to its position, same error message, successor states with the same unread text (hence
    token-equivalent for good, `tokEquiv_of_sameRest`). -/
theorem nextNN_vtrivia_flag (w x : Bytes) (hw : Lexer.VTrivia w x) (p ts p' ts' : Nat) (nl : Bool) :
    PM.AnsNextE Lexer.SameRest (Lexer.nextNN ((w ++ x).length + 1) ⟨w ++ x, p, ts⟩ nl)
      (Lexer.nextNN (x.length + 1) ⟨x, p', ts'⟩ (nl || w.contains 10)) :=
  Lexer.nextNN_vtrivia hw p ts p' ts' nl

example : Lexer.VTrivia b!" # note\n\t\n" b!"x" :=
  .blank _ _ _ rfl (.comment b!" note" _ _ (by decide) (.inr rfl)
    (.newline _ _ (.blank _ _ _ rfl (.newline _ _ (.nil _)))))

example : Lexer.nextNN 20 ⟨b!" # note\n\t\nx", 0, 0⟩ false = .ok (⟨.ident, 10, b!"x"⟩, true, ⟨[], 11, 10⟩) ∧
    Lexer.nextNN 20 ⟨b!"x", 0, 0⟩ false = .ok (⟨.ident, 0, b!"x"⟩, false, ⟨[], 1, 0⟩) := ⟨by rfl, by rfl⟩

/-- C13 (newline insertion, program texts, an instance): vertical trivia — newlines, blank lines,
    comment lines — in front of a program (whose first token is not `;`): if the program parses,
    the longer text parses to the same AST up to positions. -/
theorem leading_newlines_invariant (tbl : RuleTable) (hT : Nl.TableOK tbl = true) (w src : Bytes)
    (hw : Lexer.VTrivia w src)
    (hsemi : ∀ t nl s', Lexer.nextNN (src.length + 1) (LexState.init src) false = .ok (t, nl, s') →
      t.tag ≠ .semiColon)
    (p : Program) (hp : parseProgramSrc tbl src = .ok p) :
    ∃ p', parseProgramSrc tbl (w ++ src) = .ok p' ∧ erase p = erase p' := by
  rw [parseProgramSrc_eq] at hp ⊢
  cases hr : (Parser.parseProgram tbl (parserFuel src) PS.init).run (LexState.init src) with
  | ok r =>
    obtain ⟨p₀, st⟩ := r
    rw [hr] at hp
    simp only [stripPS, ParseRes.ok.injEq] at hp
    subst hp
    obtain ⟨p', st', h', he⟩ := Nl.parseProgram_leading hT hw hsemi (parserFuel src)
      (parserFuel (w ++ src)) (by unfold parserFuel; simp; omega) hr
    exact ⟨p', by rw [h']; rfl, he⟩
  | syntaxErr e => rw [hr] at hp; cases hp
  | oof => rw [hr] at hp; cases hp

example : Lexer.VTrivia b!"# header\n\n" b!"BEGIN { print 1 }" ∧
    (∀ t nl s', Lexer.nextNN (b!"BEGIN { print 1 }".length + 1) (LexState.init b!"BEGIN { print 1 }") false
      = .ok (t, nl, s') → t.tag ≠ .semiColon) := by
  refine ⟨.comment b!" header" _ _ (by decide) (.inr rfl) (.newline _ _ (.newline _ _ (.nil _))), ?_⟩
  intro t nl s' h
  have : Lexer.nextNN (b!"BEGIN { print 1 }".length + 1) (LexState.init b!"BEGIN { print 1 }") false
      = .ok (⟨.begin_, 0, []⟩, false, ⟨b!" { print 1 }", 5, 0⟩) := by rfl
  rw [this] at h; cases h; decide

/-- … and that program parses (hypothesis `hp`), as does the longer text, to the same AST up to
    positions -/
example : Nl.TableOK expectedRuleTable = true ∧
    (match parseProgramSrc expectedRuleTable b!"BEGIN { print 1 }",
        parseProgramSrc expectedRuleTable (b!"# header\n\n" ++ b!"BEGIN { print 1 }") with
      | .ok p, .ok p' => dumpProgram (erase p) == dumpProgram (erase p') | _, _ => false) = true := by
  refine ⟨by decide, by decide +kernel⟩

/-- C13 (newline insertion, program texts — what is proved at the level of bytes): for two
    texts without a `/` byte (then no regex literal can be requested and the token sequence of
    a text does not depend on the parser), whose flagged token sequences `ts₁`, `ts₂` — computed
    by the lexer alone (`lexFlags`: every token through `Lexer.nextNN`, positions erased) — are
    related by `NlMoreAt` (same tokens; `src₂` has the newlines of `src₁` and possibly more, none
    after `print`/`return`/a print-level comma or before `;`): if `src₁` parses, `src₂` parses to
    the same AST up to positions.  The hypothesis on the two texts is decidable (`nlMoreB`).

    (Partial: texts without `/`, and the hypothesis is a computed relation between the two token
    sequences.  The statement for ANY text with the insertion point given as a token boundary of
    the parser's own run is `newline_insertion_bytes` below; it rests on the prefix stability of
    the lexer, Lemmas/NewlineBytes.lean.) -/
theorem newline_insertion_texts_partial (tbl : RuleTable) (hT : Nl.TableOK tbl = true)
    (src₁ src₂ : Bytes) (h₁ : (47 : UInt8) ∉ src₁) (h₂ : (47 : UInt8) ∉ src₂)
    (hlen : src₁.length ≤ src₂.length) (ts₁ ts₂ : List (Token × Bool))
    (hl₁ : lexFlags (src₁.length + 2) (LexState.init src₁) = some ts₁)
    (hl₂ : lexFlags (src₂.length + 2) (LexState.init src₂) = some ts₂)
    (hm : Nl.NlMoreAt Nl.G.init ts₁ ts₂) (p : Program) (hp : parseProgramSrc tbl src₁ = .ok p) :
    ∃ p', parseProgramSrc tbl src₂ = .ok p' ∧ erase p = erase p' := by
  rw [parseProgramSrc_eq, run_eq_runWith] at hp ⊢
  have hn : parserFuel src₁ ≤ parserFuel src₂ := by unfold parserFuel; omega
  cases hr : (Parser.parseProgram tbl (parserFuel src₁) PS.init).runWith lexerSrc (LexState.init src₁) with
  | syntaxErr e => rw [hr] at hp; cases hp
  | oof => rw [hr] at hp; cases hp
  | ok r =>
    obtain ⟨p₀, st⟩ := r
    rw [hr] at hp
    simp only [stripPS, ParseRes.ok.injEq] at hp
    subst hp
    -- the text `src₁` and its token list
    have s1 := PM.run_sim Nl.lexRel_isSimE
      (parseProgram_sim tbl (parserFuel src₁) (parserFuel src₁) (Nat.le_refl _) PS.init PS.init rfl)
      (LexState.init src₁) ts₁ ⟨h₁, .inl ⟨_, hl₁⟩⟩
    rw [hr] at s1
    cases hm₁ : (Parser.parseProgram tbl (parserFuel src₁) PS.init).runWith Nl.flagSrcNR ts₁ with
    | syntaxErr e => rw [hm₁] at s1; cases s1
    | oof => rw [hm₁] at s1; cases s1
    | ok r₁ =>
      obtain ⟨p₁, st₁⟩ := r₁
      rw [hm₁] at s1
      cases s1 with
      | ok e1 =>
        simp only [erase_pair, Prod.mk.injEq] at e1
        -- the newlines
        obtain ⟨st₂, hm₂⟩ := Nl.parseProgram_run hT _ Nl.flagSrcNR_isNlSim hm hm₁
        -- the token list of `src₂` and the text
        have s3 := PM.run_sim (isSimE_symm Nl.lexRel_isSimE)
          (parseProgram_sim tbl (parserFuel src₁) (parserFuel src₂) hn PS.init PS.init rfl)
          ts₂ (LexState.init src₂) ⟨h₂, .inl ⟨_, hl₂⟩⟩
        rw [hm₂] at s3
        cases hm₃ : (Parser.parseProgram tbl (parserFuel src₂) PS.init).runWith lexerSrc
            (LexState.init src₂) with
        | syntaxErr e => rw [hm₃] at s3; cases s3
        | oof => rw [hm₃] at s3; cases s3
        | ok r₃ =>
          obtain ⟨p₃, st₃⟩ := r₃
          rw [hm₃] at s3
          cases s3 with
          | ok e3 =>
            simp only [erase_pair, Prod.mk.injEq] at e3
            exact ⟨p₃, rfl, e1.1.trans e3.1⟩

/-- the hypotheses on two concrete texts (comment line, blank line, newlines inside a call and
    an array, before `else` and `{`), checked by evaluation -/
example :
    (47 : UInt8) ∉ b!"BEGIN { x = f(1, 2); if (x) print [x, 1] else { print 2 } }" ∧
    (47 : UInt8) ∉ b!"# program\n\nBEGIN\n{ x = f(1,\n 2); # call\n if (x)\n print [x,\n 1]\n else\n {\n print 2 } }\n" ∧
    (∃ ts₁ ts₂,
      lexFlags (b!"BEGIN { x = f(1, 2); if (x) print [x, 1] else { print 2 } }".length + 2)
        (LexState.init b!"BEGIN { x = f(1, 2); if (x) print [x, 1] else { print 2 } }") = some ts₁ ∧
      lexFlags (b!"# program\n\nBEGIN\n{ x = f(1,\n 2); # call\n if (x)\n print [x,\n 1]\n else\n {\n print 2 } }\n".length + 2)
        (LexState.init b!"# program\n\nBEGIN\n{ x = f(1,\n 2); # call\n if (x)\n print [x,\n 1]\n else\n {\n print 2 } }\n") = some ts₂ ∧
      Nl.nlMoreB Nl.G.init ts₁ ts₂ = true) := by
  refine ⟨by decide +kernel, by decide +kernel, _, _, rfl, rfl, ?_⟩
  decide +kernel

/-- … `hlen` and `hp` for the same two texts, and (as the theorem says) the parses agree up to
    positions -/
example :
    b!"BEGIN { x = f(1, 2); if (x) print [x, 1] else { print 2 } }".length ≤
      b!"# program\n\nBEGIN\n{ x = f(1,\n 2); # call\n if (x)\n print [x,\n 1]\n else\n {\n print 2 } }\n".length ∧
    (match parseProgramSrc expectedRuleTable b!"BEGIN { x = f(1, 2); if (x) print [x, 1] else { print 2 } }",
        parseProgramSrc expectedRuleTable b!"# program\n\nBEGIN\n{ x = f(1,\n 2); # call\n if (x)\n print [x,\n 1]\n else\n {\n print 2 } }\n" with
      | .ok p, .ok p' => dumpProgram (erase p) == dumpProgram (erase p') | _, _ => false) = true := by
  decide +kernel

/-! #### the level of bytes, any program text -/

/-- C13 (newline insertion, bytes — any program text, also with regex literals and division):
    the text `a ++ v ++ b` parses; `v` is the trivia standing at an insertion point (possibly
    empty), `w` (non-empty, at least as long) is vertical trivia — blanks, `#` comments each
    running up to a newline, newlines — that replaces it.  The insertion point is a token boundary
    of the text *as the parser lexed it*: one of the `next` requests of the run on `a ++ v ++ b`
    found the lexer in a state `sb` with exactly `v ++ b` unread (`Nl.nextStates` records ghost and
    lexer state at every `next` request; which bytes are tokens after a `/` is decided by the
    run).  If `w` brings a newline where there was none, the token `t` then delivered must be
    allowed to carry one: `Nl.Allowed gb t` for the recorded ghost state `gb` — not after
    `print`/`return`, not after a print-level comma, `t` not `;` (see `insertable_spec`).
    Then `a ++ w ++ b` parses to the same AST up to positions.  Any `TableOK` rule table.

    The two side conditions on `w` are needed resp. an artefact: `w ≠ []` — replacing trivia by
    nothing can merge tokens (`x y` / `xy`, examples below); `v.length ≤ w.length` — the model's
    fuel grows with the length of the text (with less fuel the model might answer `oof`). -/
theorem newline_insertion_bytes (tbl : RuleTable) (hT : Nl.TableOK tbl = true) (a v w b : Bytes)
    (gb : Nl.G) (sb : LexState) (I : Nl.Ins v w b gb sb) (hlen : v.length ≤ w.length)
    (hreach : (gb, sb) ∈ Nl.nextStates Nl.G.init
      (Parser.parseProgram tbl (parserFuel (a ++ (v ++ b))) PS.init) (LexState.init (a ++ (v ++ b))))
    (p : Program) (hp : parseProgramSrc tbl (a ++ (v ++ b)) = .ok p) :
    ∃ p', parseProgramSrc tbl (a ++ (w ++ b)) = .ok p' ∧ erase p = erase p' := by
  rw [parseProgramSrc_eq] at hp ⊢
  cases hr : (Parser.parseProgram tbl (parserFuel (a ++ (v ++ b))) PS.init).run
      (LexState.init (a ++ (v ++ b))) with
  | ok r =>
    obtain ⟨p₀, st⟩ := r
    rw [hr] at hp
    simp only [stripPS, ParseRes.ok.injEq] at hp
    subst hp
    obtain ⟨p', st', h', he⟩ := Nl.parseProgram_bytes hT I _ (parserFuel (a ++ (w ++ b)))
      (by unfold parserFuel; simp only [List.length_append]; omega) hreach hr
    exact ⟨p', by rw [h']; rfl, he⟩
  | syntaxErr e => rw [hr] at hp; cases hp
  | oof => rw [hr] at hp; cases hp

/-- … and the same for `ParseExpression` -/
theorem newline_insertion_bytes_expr (tbl : RuleTable) (hT : Nl.TableOK tbl = true) (a v w b : Bytes)
    (gb : Nl.G) (sb : LexState) (I : Nl.Ins v w b gb sb) (hlen : v.length ≤ w.length)
    (hreach : (gb, sb) ∈ Nl.nextStates Nl.G.init
      (Parser.parseExpression tbl (parserFuel (a ++ (v ++ b))) PS.init) (LexState.init (a ++ (v ++ b))))
    (e : Expr) (hp : parseExpressionSrc tbl (a ++ (v ++ b)) = .ok e) :
    ∃ e', parseExpressionSrc tbl (a ++ (w ++ b)) = .ok e' ∧ erase e = erase e' := by
  rw [parseExpressionSrc_eq] at hp ⊢
  cases hr : (Parser.parseExpression tbl (parserFuel (a ++ (v ++ b))) PS.init).run
      (LexState.init (a ++ (v ++ b))) with
  | ok r =>
    obtain ⟨p₀, st⟩ := r
    rw [hr] at hp
    simp only [stripPS, ParseRes.ok.injEq] at hp
    subst hp
    obtain ⟨p', st', h', he⟩ := Nl.parseExpression_bytes hT I _ (parserFuel (a ++ (w ++ b)))
      (by unfold parserFuel; simp only [List.length_append]; omega) hreach hr
    exact ⟨p', by rw [h']; rfl, he⟩
  | syntaxErr e => rw [hr] at hp; cases hp
  | oof => rw [hr] at hp; cases hp

/-- Non-vacuity of `newline_insertion_bytes_expr`: the expression `f(1, 2)`, the blank after the
    comma (not a print-level comma: ghost `⟨,, [false]⟩`, the 5th `next` request, lexer at offset
    4) replaced by a comment and a newline; all hypotheses hold, and the two parses agree. -/
example :
    ∃ gb sb, Nl.Ins b!" " b!" # two\n" b!"2)" gb sb ∧ b!" ".length ≤ b!" # two\n".length ∧
      (gb, sb) ∈ Nl.nextStates Nl.G.init
        (Parser.parseExpression expectedRuleTable
          (parserFuel (b!"f(1," ++ (b!" " ++ b!"2)"))) PS.init)
        (LexState.init (b!"f(1," ++ (b!" " ++ b!"2)"))) ∧
      (match parseExpressionSrc expectedRuleTable b!"f(1, 2)",
          parseExpressionSrc expectedRuleTable b!"f(1, # two\n2)" with
        | .ok e, .ok e' => dumpExpr (erase e) == dumpExpr (erase e') | _, _ => false) = true := by
  refine ⟨⟨.comma, [false]⟩, ⟨b!" 2)", 4, 3⟩, ?_, by decide, by decide +kernel, by decide +kernel⟩
  refine ⟨.blank _ _ _ rfl (.nil _), ?_, by decide, by decide, rfl, ?_⟩
  · exact .blank _ _ _ rfl (.comment b!" two" _ _ (by decide) (.inr rfl) (.newline _ _ (.nil _)))
  · intro _ _ t nl s' h _
    have : Lexer.nextNN (b!" 2)".length + 1) ⟨b!" 2)", 4, 3⟩ false
        = .ok (⟨.num, 5, b!"2"⟩, false, ⟨b!")", 6, 5⟩) := by rfl
    rw [this] at h
    cases h
    decide

/-- the parse of a text as a dump of the position-erased AST -/
def parseSrcE (src : Bytes) : Option Bytes :=
  match parseProgramSrc expectedRuleTable src with
  | .ok p => some (dumpProgram (erase p))
  | _ => none

/-- Non-vacuity on a text with a regex literal (containing a blank) and a division:
    `$1 ~ /a b/ { x = $1 / 2; print x }`, the blank after `;` replaced by a comment and a newline.
    The recorded state (the 11th `next` request: ghost `⟨;, [false]⟩`, lexer at offset 24) is found
    by evaluation; all hypotheses of `newline_insertion_bytes` hold; and the two parses agree. -/
example :
    ∃ gb sb, Nl.Ins b!" " b!" # then\n" b!"print x }" gb sb ∧
      (gb, sb) ∈ Nl.nextStates Nl.G.init
        (Parser.parseProgram expectedRuleTable
          (parserFuel (b!"$1 ~ /a b/ { x = $1 / 2;" ++ (b!" " ++ b!"print x }"))) PS.init)
        (LexState.init (b!"$1 ~ /a b/ { x = $1 / 2;" ++ (b!" " ++ b!"print x }"))) ∧
      (parseSrcE b!"$1 ~ /a b/ { x = $1 / 2; print x }").isSome = true ∧
      parseSrcE b!"$1 ~ /a b/ { x = $1 / 2; print x }" =
        parseSrcE b!"$1 ~ /a b/ { x = $1 / 2; # then\nprint x }" := by
  refine ⟨⟨.semiColon, [false]⟩, ⟨b!" print x }", 24, 23⟩, ?_, by decide +kernel, by decide +kernel,
    by decide +kernel⟩
  refine ⟨.blank _ _ _ rfl (.nil _), ?_, by decide, by decide, rfl, ?_⟩
  · exact .blank _ _ _ rfl (.comment b!" then" _ _ (by decide) (.inr rfl) (.newline _ _ (.nil _)))
  · intro _ _ t nl s' h _
    have : Lexer.nextNN (b!" print x }".length + 1) ⟨b!" print x }", 24, 23⟩ false
        = .ok (⟨.print, 25, []⟩, false, ⟨b!" x }", 30, 25⟩) := by rfl
    rw [this] at h
    cases h
    decide

/-- the insertion point follows the parser's lexing: inside the regex literal `/a b/` there is no
    token boundary (no `next` request finds the lexer at offset 7, in front of `b/`), and a newline
    there changes the program (the regex) — whereas around the division operator there are
    boundaries (offsets 19 and 21) -/
example :
    let sts := Nl.nextStates Nl.G.init
      (Parser.parseProgram expectedRuleTable (parserFuel b!"$1 ~ /a b/ { x = $1 / 2; print x }") PS.init)
      (LexState.init b!"$1 ~ /a b/ { x = $1 / 2; print x }")
    (sts.map fun x => x.2.pos) = [0, 2, 4, 10, 12, 14, 16, 19, 21, 23, 24, 30, 32, 34] ∧
    parseSrcE b!"$1 ~ /a\nb/ { x = $1 / 2; print x }" ≠ parseSrcE b!"$1 ~ /a b/ { x = $1 / 2; print x }" ∧
    parseSrcE b!"$1 ~ /a b/ { x = $1\n/\n2; print x }" = parseSrcE b!"$1 ~ /a b/ { x = $1 / 2; print x }" := by
  decide +kernel

/-- `w ≠ []` is needed: removing the blank between two tokens merges them -/
example : parseSrcE b!"BEGIN { x = a b }" = none ∧ (parseSrcE b!"BEGIN { x = ab }").isSome = true ∧
    parseSrcE b!"BEGIN { x = = 1 }" = none ∧ (parseSrcE b!"BEGIN { x == 1 }").isSome = true ∧
    parseSrcE b!"BEGIN { x = 1 .5 }" = none ∧ (parseSrcE b!"BEGIN { x = 1.5 }").isSome = true := by
  decide +kernel

/-! ### 9. `;` for a newline

Three token sequences are compared: `A ++ (t₀, newline) :: B` (the program, with a newline in
front of the token `t₀`), `A ++ t₀ :: B` (the newline removed) and `A ++ ; :: t₀ :: B` (a `;`
token in its place).  The theorem: if the first parses to `p`, then the second does (the newline
was not significant: it did not separate two statements, or the statement before it ended in
`}` — `block()` and `match` set `didEndStatement` themselves) or the third does.  In other
words a newline that matters can be replaced by `;`.  Assumptions: `t₀` is not `;`, `}`, `)`
or the end of the text (a newline there ends a statement but does not separate two), and the
rule table gives `;` precedence 0 (true for the table of the interpreter: `;` has no rule). -/

open Nl in
/-- C13 (`;` for a newline): if the token sequence with a newline in front of `t₀` parses to
    `p`, then so does the sequence without this newline, or the sequence with a `;` (unflagged;
    `t₀` with any flag `b`, e.g. none) in its place.  Any rule table in which `;` has
    precedence 0, any fuel. -/
theorem semicolon_for_newline (tbl : RuleTable) (hprec : (lookupRule tbl .semiColon).prec = 0)
    (n : Nat) (t₀ semi : Token) (H : Semi.Hyp t₀ semi) (A B : List (Token × Bool)) (b : Bool)
    (p : Program) (hp : parseFlags tbl n (A ++ (t₀, true) :: B) = .ok p) :
    parseFlags tbl n (A ++ (t₀, false) :: B) = .ok p ∨
    parseFlags tbl n (A ++ (semi, false) :: (t₀, b) :: B) = .ok p :=
  Semi.parseFlags_semi H hprec n A B b p hp

open Nl in
/-- C13 (`;` for a newline): a newline that is significant — DEFINED here as: without it the
    token sequence does not parse to the same AST `p` (e.g. is a syntax error) — may be replaced
    by `;`.  That a newline separating two statements the first of which does not end in `}` is
    significant in this sense (the property's wording) is not proved, only shown on the
    examples below. -/
theorem semicolon_for_significant_newline (tbl : RuleTable)
    (hprec : (lookupRule tbl .semiColon).prec = 0) (n : Nat) (t₀ semi : Token)
    (H : Semi.Hyp t₀ semi) (A B : List (Token × Bool)) (b : Bool) (p : Program)
    (hp : parseFlags tbl n (A ++ (t₀, true) :: B) = .ok p)
    (hsig : parseFlags tbl n (A ++ (t₀, false) :: B) ≠ .ok p) :
    parseFlags tbl n (A ++ (semi, false) :: (t₀, b) :: B) = .ok p :=
  (semicolon_for_newline tbl hprec n t₀ semi H A B b p hp).resolve_left hsig

/-- the hypotheses hold for the table of the interpreter and, e.g., an identifier after the
    newline -/
example : (lookupRule expectedRuleTable .semiColon).prec = 0 ∧
    Semi.Hyp ⟨.ident, 0, b!"y"⟩ ⟨.semiColon, 0, []⟩ :=
  ⟨by decide, ⟨rfl, by decide, by decide, by decide, by decide⟩⟩

/-- the three token sequences of the theorem for the newline in front of the token with index `i`
    of a text (`;` token with erased position, as `lexE` produces it) -/
def semiTriple (src : Bytes) (i : Nat) : List (Token × Bool) × List (Token × Bool) × List (Token × Bool) :=
  let ts := lexE src
  let t₀ := (ts.getD i (eofTok, false)).1
  (ts.take i ++ (t₀, true) :: ts.drop (i + 1),
   ts.take i ++ (t₀, false) :: ts.drop (i + 1),
   ts.take i ++ (⟨.semiColon, 0, []⟩, false) :: (t₀, false) :: ts.drop (i + 1))

def parseToks' (ts : List (Token × Bool)) : Option Bytes :=
  dumpParse (Nl.parseFlags expectedRuleTable 300 ts)

/-- a newline that separates two statements: the sequences of the theorem are the token
    sequences of the three texts; without the newline the program is a syntax error; with `;`
    it parses to the same AST -/
example :
    (semiTriple b!"BEGIN { x = 1\ny = 2 }" 5).1 = lexE b!"BEGIN { x = 1\ny = 2 }" ∧
    (semiTriple b!"BEGIN { x = 1\ny = 2 }" 5).2.1 = lexE b!"BEGIN { x = 1 y = 2 }" ∧
    (semiTriple b!"BEGIN { x = 1\ny = 2 }" 5).2.2 = lexE b!"BEGIN { x = 1;y = 2 }" ∧
    (parseText b!"BEGIN { x = 1\ny = 2 }").isSome = true ∧
    parseText b!"BEGIN { x = 1 y = 2 }" = none ∧
    parseText b!"BEGIN { x = 1;y = 2 }" = parseText b!"BEGIN { x = 1\ny = 2 }" := by
  decide +kernel

/-- "unless the first ends in `}`": after `if (x) { }` the newline is not significant (first
    alternative of the theorem), and replacing it by `;` gives a syntax error — the exclusion is
    needed -/
example :
    (parseText b!"BEGIN { if (x) { }\ny = 2 }").isSome = true ∧
    parseText b!"BEGIN { if (x) { } y = 2 }" = parseText b!"BEGIN { if (x) { }\ny = 2 }" ∧
    parseText b!"BEGIN { if (x) { };y = 2 }" = none := by
  decide +kernel

/-- F1 again: a newline in front of `-` does not separate two statements (first alternative),
    and a `;` there changes the program -/
example :
    (parseText b!"BEGIN { x = 1\n- 2 }").isSome = true ∧
    parseText b!"BEGIN { x = 1 - 2 }" = parseText b!"BEGIN { x = 1\n- 2 }" ∧
    (parseText b!"BEGIN { x = 1;- 2 }").isSome = true ∧
    parseText b!"BEGIN { x = 1;- 2 }" ≠ parseText b!"BEGIN { x = 1\n- 2 }" := by
  decide +kernel

/-- after `print` and after `return` a newline is significant, and `;` does the same -/
example :
    parseText b!"BEGIN { print;1 }" = parseText b!"BEGIN { print\n1 }" ∧
    parseText b!"BEGIN { print 1 }" ≠ parseText b!"BEGIN { print\n1 }" ∧
    (parseText b!"BEGIN { print\n1 }").isSome = true ∧
    parseText b!"function f() { return;1 }" = parseText b!"function f() { return\n1 }" ∧
    (parseText b!"function f() { return\n1 }").isSome = true := by
  decide +kernel

/-- C13 (`;` for a newline, bytes — any program text): the three texts `a ++ "\n" ++ b`,
    `a ++ " " ++ b`, `a ++ ";" ++ b` differ in one byte.  The newline byte stands at a token
    boundary of the first text as the parser lexed it (a `next` request of its run found the
    lexer with exactly `"\n" ++ b` unread: `Nl.nextStates`); `t₀` is the token after it, not `;`,
    `}`, `)` or the end of the text (`Semi.Hyp`); `;` has precedence 0 in the rule table.  If the
    first text parses to `p`, then the second does (the newline was not significant) or the
    third does — to the very same AST, positions included, since no offset changes. -/
theorem semicolon_for_newline_bytes (tbl : RuleTable) (hprec : (lookupRule tbl .semiColon).prec = 0)
    (a b : Bytes) (pb tsb : Nat) (gb : Nl.G) (t₀ : Token) (nl₀ : Bool) (s' : LexState)
    (ht₀ : Lexer.nextNN (b.length + 1) ⟨b, pb + 1, pb⟩ false = .ok (t₀, nl₀, s'))
    (H : Semi.Hyp t₀ ⟨.semiColon, pb, []⟩)
    (hreach : (gb, (⟨10 :: b, pb, tsb⟩ : LexState)) ∈ Nl.nextStates Nl.G.init
      (Parser.parseProgram tbl (parserFuel (a ++ 10 :: b)) PS.init) (LexState.init (a ++ 10 :: b)))
    (p : Program) (hp : parseProgramSrc tbl (a ++ 10 :: b) = .ok p) :
    parseProgramSrc tbl (a ++ 32 :: b) = .ok p ∨ parseProgramSrc tbl (a ++ 59 :: b) = .ok p := by
  have hf : ∀ c : UInt8, parserFuel (a ++ c :: b) = parserFuel (a ++ 10 :: b) := by
    intro c; simp [parserFuel]
  rw [parseProgramSrc_eq] at hp
  rw [parseProgramSrc_eq, parseProgramSrc_eq, hf 32, hf 59]
  cases hr : (Parser.parseProgram tbl (parserFuel (a ++ 10 :: b)) PS.init).run
      (LexState.init (a ++ 10 :: b)) with
  | ok r =>
    obtain ⟨p₀, st⟩ := r
    rw [hr] at hp
    simp only [stripPS, ParseRes.ok.injEq] at hp
    subst hp
    rcases Semi.parseProgram_semi_bytes hprec a b pb tsb gb t₀ nl₀ s' ht₀ H _ hreach hr with
      ⟨st', h⟩ | ⟨st', h⟩
    · left; rw [h]; rfl
    · right; rw [h]; rfl
  | syntaxErr e => rw [hr] at hp; cases hp
  | oof => rw [hr] at hp; cases hp

/-- the parse of a text as a dump of the AST with positions -/
def parseSrcD (src : Bytes) : Option Bytes := dumpParse (parseProgramSrc expectedRuleTable src)

/-- Non-vacuity on a text with a regex literal and a division:
    `$1 ~ /a b/ { x = $1 / 2⏎print x }`.  The hypotheses hold for the newline at offset 23 (the
    10th `next` request); without the newline the text is a syntax error; with `;` it parses to
    the same AST (positions included). -/
example :
    (∃ gb tsb t₀ nl₀ s',
      Lexer.nextNN (b!"print x }".length + 1) ⟨b!"print x }", 23 + 1, 23⟩ false = .ok (t₀, nl₀, s') ∧
      Semi.Hyp t₀ ⟨.semiColon, 23, []⟩ ∧
      (gb, (⟨10 :: b!"print x }", 23, tsb⟩ : LexState)) ∈ Nl.nextStates Nl.G.init
        (Parser.parseProgram expectedRuleTable
          (parserFuel (b!"$1 ~ /a b/ { x = $1 / 2" ++ 10 :: b!"print x }")) PS.init)
        (LexState.init (b!"$1 ~ /a b/ { x = $1 / 2" ++ 10 :: b!"print x }"))) ∧
    (lookupRule expectedRuleTable .semiColon).prec = 0 ∧
    (parseSrcD b!"$1 ~ /a b/ { x = $1 / 2\nprint x }").isSome = true ∧
    parseSrcD b!"$1 ~ /a b/ { x = $1 / 2 print x }" = none ∧
    parseSrcD b!"$1 ~ /a b/ { x = $1 / 2;print x }" = parseSrcD b!"$1 ~ /a b/ { x = $1 / 2\nprint x }" := by
  refine ⟨⟨⟨.num, [false]⟩, 22, ⟨.print, 24, []⟩, false, ⟨b!" x }", 29, 24⟩, by rfl,
    ⟨rfl, by decide, by decide, by decide, by decide⟩, by decide +kernel⟩,
    by decide, by decide +kernel, by decide +kernel, by decide +kernel⟩

/-! ### 10. the parser's fuel always suffices

The model's parser functions take a fuel argument that bounds the DEPTH of the call stack (loop
iterations are recursive calls, so they count too); out of fuel is the distinct outcome `.oof`,
which `ResEquiv` (section 7) does not compare.  This section shows that `.oof` never happens
with the fuel the model supplies, and removes the escape clause from the theorems of section 7.
Proof (Lemmas/ParserFuel.lean): the measure "unread bytes + 1 if the current token is not EOF"
never grows, every consumed non-EOF token shrinks it, and any three nested calls consume a
token; so fuel `3 * measure + c_f` suffices for each of the 14 functions `f`. -/

/-- C13 (lexer level, progress): what the parser's `advance` receives (`Lexer.nextNN`: `Next()`
    repeated over newline tokens) never lengthens the unread text, and a token other than EOF
    costs at least one byte.  Says nothing about which bytes. -/
theorem nextNN_consumes (f : Nat) (s : LexState) (nl₀ : Bool) (t : Token) (nl : Bool) (s' : LexState)
    (h : Lexer.nextNN f s nl₀ = .ok (t, nl, s')) :
    s'.rest.length ≤ s.rest.length ∧ (t.tag ≠ .eof → s'.rest.length < s.rest.length) :=
  ParserFuel.nextNN_progress f s nl₀ t nl s' h

example : Lexer.nextNN 20 ⟨b!" # note\n\t\nx y", 0, 0⟩ false
    = .ok (⟨.ident, 10, b!"x"⟩, true, ⟨b!" y", 11, 10⟩) := by rfl

/-- C13 (lexer level): `Lexer.Regex()` consumes at least the closing `/`, and its token has tag
    `regex` (never EOF). -/
theorem regex_consumes (s : LexState) (t : Token) (s' : LexState) (h : Lexer.regex s = .ok (t, s')) :
    s'.rest.length < s.rest.length ∧ t.tag = .regex :=
  ParserFuel.regex_progress s t s' h

example : Lexer.regex ⟨b!"/ x", 1, 0⟩ = .ok (⟨.regex, 1, []⟩, ⟨b!" x", 2, 1⟩) := by rfl

/-- C13 (lexer level): newline skipping has its own fuel, `unread bytes + 1` in `PM.run`; that
    (or any larger) amount suffices: an error it reports is never the model's own out-of-fuel
    error `⟨0, "fuel"⟩` of `nextNN` — it does not even carry that message (every real lexer
    error has another one). -/
theorem nextNN_fuel_suffices (f : Nat) (s : LexState) (nl : Bool) (hf : s.rest.length < f)
    (e : SynErr) (h : Lexer.nextNN f s nl = .error e) : e.msg ≠ "fuel" :=
  ParserFuel.nextNN_error_msg f s nl e hf h

/-- with too little fuel the artefact does show; with `length + 1` it does not; and a real error -/
example : Lexer.nextNN 3 ⟨b!"\n\n\nx", 0, 0⟩ false = .error ⟨0, "fuel"⟩ ∧
    Lexer.nextNN 5 ⟨b!"\n\n\nx", 0, 0⟩ false = .ok (⟨.ident, 3, b!"x"⟩, true, ⟨[], 4, 3⟩) ∧
    Lexer.nextNN 5 ⟨b!"\n\n\n^", 0, 0⟩ false = .error ⟨3, "unexpected character"⟩ :=
  ⟨by rfl, by rfl, by rfl⟩

/-- The requirement on the rule table: the EOF token has neither a prefix nor an infix rule
    (`ParserFuel.EofRule`, decidable).  It holds for the table of src/parser.go. -/
theorem expectedRuleTable_eofRule : ParserFuel.EofRule expectedRuleTable :=
  ParserFuel.expectedRuleTable_eofRule

/-- C13 (the parser's fuel suffices, any fuel, any lexer state): with a rule table without rules
    for EOF, the program parser and the expression parser, started in ANY lexer state `s` with
    fuel `n ≥ 3 * (unread bytes of s) + 3`, do not run out of fuel: the outcome is a parse or a
    syntax error.  Says nothing about which of the two. -/
theorem parser_fuel_suffices (tbl : RuleTable) (hT : ParserFuel.EofRule tbl) (n : Nat) (s : LexState)
    (hn : 3 * s.rest.length + 3 ≤ n) :
    (Parser.parseProgram tbl n PS.init).run s ≠ .oof ∧
    (Parser.parseExpression tbl n PS.init).run s ≠ .oof :=
  ⟨(ParserFuel.parseProgram_tot hT n s hn).run_ne_oof,
   (ParserFuel.parseExpression_tot hT n s (by omega)).run_ne_oof⟩

example : ParserFuel.EofRule expectedRuleTable ∧
    3 * (LexState.init b!"{ print [1, [2]] }").rest.length + 3 ≤ 57 := by decide

theorem stripPS_ne_oof {α : Type} {r : ParseRes (α × PS)} (h : r ≠ .oof) : stripPS r ≠ .oof := by
  cases r with
  | ok a => intro e; cases e
  | syntaxErr e => intro e; cases e
  | oof => exact absurd rfl h

example : (ParseRes.syntaxErr ⟨3, "x"⟩ : ParseRes (Expr × PS)) ≠ .oof := fun e => (by cases e)

/-- C13 (the parser's fuel always suffices): for every rule table without rules for EOF and
    EVERY program text, neither top-level parse function of the model (`parseProgramSrc`, used
    for programs; `parseExpressionSrc`, used for `-r` selectors) is ever out of fuel:
    `parserFuel src = 8 * length + 64` is enough (`3 * length + 3` would do). -/
theorem parse_never_oof (tbl : RuleTable) (hT : ParserFuel.EofRule tbl) (src : Bytes) :
    parseProgramSrc tbl src ≠ .oof ∧ parseExpressionSrc tbl src ≠ .oof := by
  rw [parseProgramSrc_eq, parseExpressionSrc_eq]
  have h := parser_fuel_suffices tbl hT (parserFuel src) (LexState.init src)
    (by show 3 * src.length + 3 ≤ 8 * src.length + 64; omega)
  exact ⟨stripPS_ne_oof h.1, stripPS_ne_oof h.2⟩

example : ParserFuel.EofRule expectedRuleTable := by decide

/-- … in particular with the rule table of src/parser.go: every text either parses or is a
    syntax error -/
theorem parse_total (src : Bytes) :
    ((∃ p, parseProgramSrc expectedRuleTable src = .ok p) ∨
      ∃ e, parseProgramSrc expectedRuleTable src = .syntaxErr e) ∧
    ((∃ x, parseExpressionSrc expectedRuleTable src = .ok x) ∨
      ∃ e, parseExpressionSrc expectedRuleTable src = .syntaxErr e) := by
  obtain ⟨h1, h2⟩ := parse_never_oof expectedRuleTable expectedRuleTable_eofRule src
  constructor
  · cases h : parseProgramSrc expectedRuleTable src with
    | ok p => exact .inl ⟨p, rfl⟩
    | syntaxErr e => exact .inr ⟨e, rfl⟩
    | oof => exact absurd h h1
  · cases h : parseExpressionSrc expectedRuleTable src with
    | ok p => exact .inl ⟨p, rfl⟩
    | syntaxErr e => exact .inr ⟨e, rfl⟩
    | oof => exact absurd h h2

theorem stripPS_syntaxErr {α : Type} {r : ParseRes (α × PS)} {e : SynErr}
    (h : stripPS r = .syntaxErr e) : r = .syntaxErr e := by
  cases r with
  | ok a => cases h
  | syntaxErr e' => simpa [stripPS] using h
  | oof => cases h

example : stripPS (.syntaxErr ⟨3, "x"⟩ : ParseRes (Expr × PS)) = .syntaxErr ⟨3, "x"⟩ := rfl

/-- C13 (the other fuel artefact never shows either): `PM.run` reports an exhausted
    newline-skipping fuel (`Lexer.nextNN`) as the syntax error `⟨0, "fuel"⟩`.  With any fuel of
    at least `3 * (unread bytes) + 3`, from any lexer state, a syntax error reported by the
    program parser or by the expression parser never has the message `"fuel"`: every reported
    error is a real one (a lexer error or a parser error of src/parser.go, whose messages are
    different).  Says nothing else about which error is reported.  Rule table without EOF rules. -/
theorem parser_errors_real (tbl : RuleTable) (hT : ParserFuel.EofRule tbl) (n : Nat) (s : LexState)
    (hn : 3 * s.rest.length + 3 ≤ n) (e : SynErr) :
    ((Parser.parseProgram tbl n PS.init).run s = .syntaxErr e → e.msg ≠ "fuel") ∧
    ((Parser.parseExpression tbl n PS.init).run s = .syntaxErr e → e.msg ≠ "fuel") :=
  ⟨fun h => (ParserFuel.parseProgram_tot hT n s hn).run_err h,
   fun h => (ParserFuel.parseExpression_tot hT n s (by omega)).run_err h⟩

/-- an instance of the hypotheses, with a run that does report a syntax error -/
example : ParserFuel.EofRule expectedRuleTable ∧ 3 * (LexState.init b!"{ print").rest.length + 3 ≤ 30 ∧
    (match (Parser.parseProgram expectedRuleTable 30 PS.init).run (LexState.init b!"{ print") with
      | .syntaxErr e => e.msg != "fuel" | _ => false) = true :=
  ⟨by decide, by decide, by decide +kernel⟩

/-- … in particular for the model's top-level parse functions, on every text -/
theorem parse_errors_real (tbl : RuleTable) (hT : ParserFuel.EofRule tbl) (src : Bytes) (e : SynErr) :
    (parseProgramSrc tbl src = .syntaxErr e → e.msg ≠ "fuel") ∧
    (parseExpressionSrc tbl src = .syntaxErr e → e.msg ≠ "fuel") := by
  rw [parseProgramSrc_eq, parseExpressionSrc_eq]
  have h := parser_errors_real tbl hT (parserFuel src) (LexState.init src)
    (by show 3 * src.length + 3 ≤ 8 * src.length + 64; omega) e
  exact ⟨fun h1 => h.1 (stripPS_syntaxErr h1), fun h2 => h.2 (stripPS_syntaxErr h2)⟩

example : ParserFuel.EofRule expectedRuleTable := by decide

/-- the table hypothesis cannot be dropped: with a (hypothetical) table that gives EOF a prefix
    and an infix rule the parser loops at the end of the text — `advance` at EOF yields EOF
    again — and the model is out of fuel (checked here with the model's fuel, 64, on the empty
    text; the loop consumes nothing, so more fuel would not help, but only this instance is
    checked).  The Go parser with such a table would presumably not terminate. -/
example : (match parseExpressionSrc [(.eof, ⟨1, some .literal, some .binary⟩)] [] with
    | .oof => true | _ => false) = true := by decide +kernel

/-- the slope 3 is exact: `k` opening brackets need fuel `3 * k` (the call chain
    `expressionWithPrec → prefixFn → exprList` is repeated once per bracket) -/
example : (match (Parser.parseExpression expectedRuleTable 11 PS.init).run (LexState.init b!"[[[[") with
      | .oof => true | _ => false) = true ∧
    (match (Parser.parseExpression expectedRuleTable 12 PS.init).run (LexState.init b!"[[[[") with
      | .syntaxErr _ => true | _ => false) = true := by
  refine ⟨by decide +kernel, by decide +kernel⟩

/-! #### section 7 without the out-of-fuel escape -/

/-- outcomes equal up to positions, WITHOUT an out-of-fuel clause: both are parses with the same
    AST after `erase`, or both are syntax errors with the same message; anything else — in
    particular an `.oof` on either side — is not related. -/
def ResEquivT {α : Type} [Erase α] : ParseRes α → ParseRes α → Prop
  | .ok a, .ok b => erase a = erase b
  | .syntaxErr e₁, .syntaxErr e₂ => e₁.msg = e₂.msg
  | _, _ => False

/-- `ResEquiv` between two outcomes that are not out of fuel is `ResEquivT` -/
theorem resEquivT_of {α : Type} [Erase α] {a b : ParseRes α} (h : ResEquiv a b)
    (ha : a ≠ .oof) (hb : b ≠ .oof) : ResEquivT a b := by
  cases a <;> cases b <;> first
    | exact h
    | exact absurd rfl ha
    | exact absurd rfl hb

/-- the hypotheses on an instance (two errors with the same message at different positions);
    and the difference between the two relations on an out-of-fuel outcome -/
example : ResEquiv (.syntaxErr ⟨0, "x"⟩ : ParseRes Expr) (.syntaxErr ⟨7, "x"⟩) ∧
    (.syntaxErr ⟨0, "x"⟩ : ParseRes Expr) ≠ .oof ∧ (.syntaxErr ⟨7, "x"⟩ : ParseRes Expr) ≠ .oof :=
  ⟨rfl, fun e => (by cases e), fun e => (by cases e)⟩

example : ResEquiv (.oof : ParseRes Expr) (.syntaxErr ⟨0, "x"⟩) ∧
    ¬ ResEquivT (.oof : ParseRes Expr) (.syntaxErr ⟨0, "x"⟩) := ⟨trivial, fun h => h⟩

/-- what `ResEquivT a b` says, spelled out: if `a` is a parse then `b` is a parse of the same AST
    up to positions, if `a` is a syntax error then `b` is one with the same message, the same
    from `b` to `a`, and neither is out of fuel. -/
theorem resEquivT_iff {α : Type} [Erase α] (a b : ParseRes α) :
    ResEquivT a b ↔
      ((∀ p, a = .ok p → ∃ p', b = .ok p' ∧ erase p = erase p') ∧
       (∀ e, a = .syntaxErr e → ∃ e', b = .syntaxErr e' ∧ e.msg = e'.msg) ∧
       (∀ p', b = .ok p' → ∃ p, a = .ok p ∧ erase p = erase p') ∧
       (∀ e', b = .syntaxErr e' → ∃ e, a = .syntaxErr e ∧ e.msg = e'.msg) ∧
       a ≠ .oof ∧ b ≠ .oof) := by
  constructor
  · intro h
    cases a with
    | ok p =>
      cases b with
      | ok p' =>
        exact ⟨fun _ hx => (by cases hx; exact ⟨_, rfl, h⟩), fun _ hx => (by cases hx),
          fun _ hx => (by cases hx; exact ⟨_, rfl, h⟩), fun _ hx => (by cases hx),
          fun hx => (by cases hx), fun hx => (by cases hx)⟩
      | syntaxErr e => exact absurd h id
      | oof => exact absurd h id
    | syntaxErr e =>
      cases b with
      | ok p' => exact absurd h id
      | syntaxErr e' =>
        exact ⟨fun _ hx => (by cases hx), fun _ hx => (by cases hx; exact ⟨_, rfl, h⟩),
          fun _ hx => (by cases hx), fun _ hx => (by cases hx; exact ⟨_, rfl, h⟩),
          fun hx => (by cases hx), fun hx => (by cases hx)⟩
      | oof => exact absurd h id
    | oof => cases b <;> exact absurd h id
  · rintro ⟨h1, h2, h3, h4, h5, h6⟩
    cases a with
    | ok p => obtain ⟨p', rfl, he⟩ := h1 p rfl; exact he
    | syntaxErr e => obtain ⟨e', rfl, he⟩ := h2 e rfl; exact he
    | oof => exact absurd rfl h5

/-- C13 (`parse_tokEquiv` without the escape): from two token-equivalent lexer states, each run
    with fuel at least `3 * (its unread bytes) + 3`, the program parser gives the same AST up to
    positions or fails with the same message on both sides — and likewise the expression
    parser.  In particular one side parses iff the other does.  (Rule table without EOF rules.) -/
theorem parse_tokEquiv_total (tbl : RuleTable) (hT : ParserFuel.EofRule tbl) (n₁ n₂ : Nat)
    (s₁ s₂ : LexState) (h : TokEquiv s₁ s₂)
    (h₁ : 3 * s₁.rest.length + 3 ≤ n₁) (h₂ : 3 * s₂.rest.length + 3 ≤ n₂) :
    ResEquivT (stripPS ((Parser.parseProgram tbl n₁ PS.init).run s₁))
      (stripPS ((Parser.parseProgram tbl n₂ PS.init).run s₂)) ∧
    ResEquivT (stripPS ((Parser.parseExpression tbl n₁ PS.init).run s₁))
      (stripPS ((Parser.parseExpression tbl n₂ PS.init).run s₂)) := by
  obtain ⟨e1, e2⟩ := parse_tokEquiv tbl n₁ n₂ s₁ s₂ h
  obtain ⟨a1, a2⟩ := parser_fuel_suffices tbl hT n₁ s₁ h₁
  obtain ⟨b1, b2⟩ := parser_fuel_suffices tbl hT n₂ s₂ h₂
  exact ⟨resEquivT_of e1 (stripPS_ne_oof a1) (stripPS_ne_oof b1),
    resEquivT_of e2 (stripPS_ne_oof a2) (stripPS_ne_oof b2)⟩

example : ParserFuel.EofRule expectedRuleTable ∧ TokEquiv ⟨b!"x = 1", 0, 0⟩ ⟨b!"x = 1", 40, 7⟩ ∧
    3 * (⟨b!"x = 1", 0, 0⟩ : LexState).rest.length + 3 ≤ 18 ∧
    3 * (⟨b!"x = 1", 40, 7⟩ : LexState).rest.length + 3 ≤ 1000 :=
  ⟨by decide, tokEquiv_of_sameRest _ _ rfl, by decide, by decide⟩

/-- C13 (exact fuel monotonicity, any rule table, any lexer state, any parser state): a run of
    the program parser or of the expression parser that is not out of fuel gives exactly the
    same result — same AST with the same positions, same error with the same position, same
    final parser state — with any larger fuel (Lemmas/ParserMono.lean: with less fuel a parser
    function is the same program cut off by `.oof` at some leaves). -/
theorem parser_fuel_monotone (tbl : RuleTable) (n₁ n₂ : Nat) (h : n₁ ≤ n₂) (ps : PS) (s : LexState) :
    ((Parser.parseProgram tbl n₁ ps).run s ≠ .oof →
      (Parser.parseProgram tbl n₁ ps).run s = (Parser.parseProgram tbl n₂ ps).run s) ∧
    ((Parser.parseExpression tbl n₁ ps).run s ≠ .oof →
      (Parser.parseExpression tbl n₁ ps).run s = (Parser.parseExpression tbl n₂ ps).run s) :=
  ⟨ParserMono.parseProgram_run_mono tbl n₁ n₂ h ps s,
   ParserMono.parseExpression_run_mono tbl n₁ n₂ h ps s⟩

/-- an instance where the premise holds (fuel 12 is enough for `x = 1`) and one where it does
    not (fuel 3 is not) -/
example : (match (Parser.parseProgram expectedRuleTable 12 PS.init).run (LexState.init b!"x = 1") with
      | .ok _ => true | _ => false) = true ∧
    (match (Parser.parseProgram expectedRuleTable 3 PS.init).run (LexState.init b!"x = 1") with
      | .oof => true | _ => false) = true := ⟨by decide +kernel, by decide +kernel⟩

/-- C13 (the fuel is irrelevant above the bound): from any lexer state `s`, any two amounts of
    fuel of at least `3 * (unread bytes) + 3` give EQUAL results (AST with positions, or error
    with position, and final parser state), for the program parser and the expression parser;
    none of them is out of fuel (`parser_fuel_suffices`).  Rule table without EOF rules. -/
theorem parser_fuel_irrelevant (tbl : RuleTable) (hT : ParserFuel.EofRule tbl) (s : LexState)
    (n₁ n₂ : Nat) (h₁ : 3 * s.rest.length + 3 ≤ n₁) (h₂ : 3 * s.rest.length + 3 ≤ n₂) :
    (Parser.parseProgram tbl n₁ PS.init).run s = (Parser.parseProgram tbl n₂ PS.init).run s ∧
    (Parser.parseExpression tbl n₁ PS.init).run s = (Parser.parseExpression tbl n₂ PS.init).run s := by
  obtain ⟨a1, a2⟩ := parser_fuel_suffices tbl hT n₁ s h₁
  obtain ⟨b1, b2⟩ := parser_fuel_suffices tbl hT n₂ s h₂
  rcases Nat.le_total n₁ n₂ with h | h
  · obtain ⟨m1, m2⟩ := parser_fuel_monotone tbl n₁ n₂ h PS.init s
    exact ⟨m1 a1, m2 a2⟩
  · obtain ⟨m1, m2⟩ := parser_fuel_monotone tbl n₂ n₁ h PS.init s
    exact ⟨(m1 b1).symm, (m2 b2).symm⟩

example : ParserFuel.EofRule expectedRuleTable ∧ 3 * (LexState.init b!"x = 1").rest.length + 3 ≤ 18 ∧
    3 * (LexState.init b!"x = 1").rest.length + 3 ≤ 104 := by decide

/-- C13 (the model's answer does not depend on its choice of fuel): every fuel `n` of at least
    `3 * length + 3` gives exactly the outcome of `parseProgramSrc` / `parseExpressionSrc`
    (which use `8 * length + 64`): the fuel is an artefact of the model, not part of what is
    modelled.  Rule table without EOF rules. -/
theorem parse_fuel_stable (tbl : RuleTable) (hT : ParserFuel.EofRule tbl) (src : Bytes) (n : Nat)
    (hn : 3 * src.length + 3 ≤ n) :
    stripPS ((Parser.parseProgram tbl n PS.init).run (LexState.init src)) = parseProgramSrc tbl src ∧
    stripPS ((Parser.parseExpression tbl n PS.init).run (LexState.init src))
      = parseExpressionSrc tbl src := by
  rw [parseProgramSrc_eq, parseExpressionSrc_eq]
  obtain ⟨h1, h2⟩ := parser_fuel_irrelevant tbl hT (LexState.init src) n (parserFuel src) hn
    (by show 3 * src.length + 3 ≤ 8 * src.length + 64; omega)
  rw [h1, h2]; exact ⟨rfl, rfl⟩

example : ParserFuel.EofRule expectedRuleTable ∧ 3 * b!"{ print 1 }".length + 3 ≤ 36 := by decide

/-- C13 (`newline_layout_invariant` without its length hypothesis): if the lexer state of
    `src₂` is newline-insertion equivalent to that of `src₁` and `src₁` parses, then `src₂`
    parses to the same AST up to positions — whether or not `src₂` is the longer text (the
    hypothesis `src₁.length ≤ src₂.length` of `newline_layout_invariant` only served to give the
    second run at least as much fuel).  Rule table without EOF rules. -/
theorem newline_layout_invariant_total (tbl : RuleTable) (hT : Nl.TableOK tbl = true)
    (hE : ParserFuel.EofRule tbl) (src₁ src₂ : Bytes)
    (h : NlTokEquiv (LexState.init src₁) (LexState.init src₂)) (p : Program)
    (hp : parseProgramSrc tbl src₁ = .ok p) :
    ∃ p', parseProgramSrc tbl src₂ = .ok p' ∧ erase p = erase p' := by
  obtain ⟨Rσ, hS, hs⟩ := h
  rw [parseProgramSrc_eq] at hp ⊢
  cases hr : (Parser.parseProgram tbl (parserFuel src₁) PS.init).run (LexState.init src₁) with
  | ok r =>
    obtain ⟨p₀, st⟩ := r
    rw [hr] at hp
    simp only [stripPS, ParseRes.ok.injEq] at hp
    subst hp
    rw [run_eq_runWith] at hr
    obtain ⟨p', st', h', he⟩ := Nl.parseProgram_runE hT (parserFuel src₁)
      (max (parserFuel src₁) (parserFuel src₂)) (Nat.le_max_left _ _) hS hs hr
    rw [← run_eq_runWith] at h'
    have hne := (parser_fuel_suffices tbl hE (parserFuel src₂) (LexState.init src₂)
      (by show 3 * src₂.length + 3 ≤ 8 * src₂.length + 64; omega)).1
    have hm := (parser_fuel_monotone tbl (parserFuel src₂) (max (parserFuel src₁) (parserFuel src₂))
      (Nat.le_max_right _ _) PS.init (LexState.init src₂)).1 hne
    exact ⟨p', by rw [hm, h']; rfl, he⟩
  | syntaxErr e => rw [hr] at hp; cases hp
  | oof => rw [hr] at hp; cases hp

/-- all hypotheses of `newline_layout_invariant_total` with `src₂` the SHORTER text (`  x` and
    `⏎x`; the relation is "same unread text, or this pair of initial states in the initial ghost
    state"), where `newline_layout_invariant` does not apply -/
example : NlTokEquiv (LexState.init b!"  x") (LexState.init b!"\nx") ∧
    ¬ (b!"  x".length ≤ b!"\nx".length) ∧
    Nl.TableOK expectedRuleTable = true ∧ ParserFuel.EofRule expectedRuleTable ∧
    (match parseProgramSrc expectedRuleTable b!"  x" with | .ok _ => true | _ => false) = true := by
  refine ⟨⟨fun g a b => Lexer.SameRest a b ∨
      (g = Nl.G.init ∧ a = LexState.init b!"  x" ∧ b = LexState.init b!"\nx"), ⟨?_, ?_⟩,
      .inr ⟨rfl, rfl, rfl⟩⟩, by decide, by decide, by decide, by decide +kernel⟩
  · rintro g a b (h | ⟨rfl, rfl, rfl⟩) t nl a' h₁
    · obtain ⟨t', nl', b', e1, e2, e3, e4⟩ := Nl.sameRest_nlSimE_next g a b h t nl a' h₁
      exact ⟨t', nl', b', e1, e2, e3, .inl e4⟩
    · cases h₁
      exact ⟨_, true, _, rfl, rfl, .inr ⟨rfl, rfl, by decide⟩, .inl rfl⟩
  · rintro g a b (h | ⟨rfl, rfl, rfl⟩) t a' h₁
    · obtain ⟨e0, t', b', e1, e2, e4⟩ := Nl.sameRest_nlSimE_regex a b h t a' h₁
      exact ⟨e0, t', b', e1, e2, .inl e4⟩
    · cases h₁

/-- C13 (`newline_insertion_texts_partial` without its length hypothesis): for two texts without
    a `/` byte whose flagged token sequences (computed by the lexer alone) are related by
    `NlMoreAt`: if `src₁` parses, `src₂` parses to the same AST up to positions, whichever of the
    two is longer.  (Still partial in the same sense as `newline_insertion_texts_partial`: texts
    without `/`, and the hypothesis is a computed relation between the token sequences.)
    Rule table without EOF rules. -/
theorem newline_insertion_texts_total_partial (tbl : RuleTable) (hT : Nl.TableOK tbl = true)
    (hE : ParserFuel.EofRule tbl)
    (src₁ src₂ : Bytes) (h₁ : (47 : UInt8) ∉ src₁) (h₂ : (47 : UInt8) ∉ src₂)
    (ts₁ ts₂ : List (Token × Bool))
    (hl₁ : lexFlags (src₁.length + 2) (LexState.init src₁) = some ts₁)
    (hl₂ : lexFlags (src₂.length + 2) (LexState.init src₂) = some ts₂)
    (hm : Nl.NlMoreAt Nl.G.init ts₁ ts₂) (p : Program) (hp : parseProgramSrc tbl src₁ = .ok p) :
    ∃ p', parseProgramSrc tbl src₂ = .ok p' ∧ erase p = erase p' := by
  rw [parseProgramSrc_eq, run_eq_runWith] at hp ⊢
  have hn : parserFuel src₁ ≤ max (parserFuel src₁) (parserFuel src₂) := Nat.le_max_left _ _
  -- the run on `src₂` with the model's fuel equals the run with the larger fuel
  have hne := (parser_fuel_suffices tbl hE (parserFuel src₂) (LexState.init src₂)
    (by show 3 * src₂.length + 3 ≤ 8 * src₂.length + 64; omega)).1
  have hmono := (parser_fuel_monotone tbl (parserFuel src₂) (max (parserFuel src₁) (parserFuel src₂))
    (Nat.le_max_right _ _) PS.init (LexState.init src₂)).1 hne
  rw [run_eq_runWith, run_eq_runWith] at hmono
  rw [hmono]
  cases hr : (Parser.parseProgram tbl (parserFuel src₁) PS.init).runWith lexerSrc (LexState.init src₁) with
  | syntaxErr e => rw [hr] at hp; cases hp
  | oof => rw [hr] at hp; cases hp
  | ok r =>
    obtain ⟨p₀, st⟩ := r
    rw [hr] at hp
    simp only [stripPS, ParseRes.ok.injEq] at hp
    subst hp
    have s1 := PM.run_sim Nl.lexRel_isSimE
      (parseProgram_sim tbl (parserFuel src₁) (parserFuel src₁) (Nat.le_refl _) PS.init PS.init rfl)
      (LexState.init src₁) ts₁ ⟨h₁, .inl ⟨_, hl₁⟩⟩
    rw [hr] at s1
    cases hm₁ : (Parser.parseProgram tbl (parserFuel src₁) PS.init).runWith Nl.flagSrcNR ts₁ with
    | syntaxErr e => rw [hm₁] at s1; cases s1
    | oof => rw [hm₁] at s1; cases s1
    | ok r₁ =>
      obtain ⟨p₁, st₁⟩ := r₁
      rw [hm₁] at s1
      cases s1 with
      | ok e1 =>
        simp only [erase_pair, Prod.mk.injEq] at e1
        obtain ⟨st₂, hm₂⟩ := Nl.parseProgram_run hT _ Nl.flagSrcNR_isNlSim hm hm₁
        have s3 := PM.run_sim (isSimE_symm Nl.lexRel_isSimE)
          (parseProgram_sim tbl (parserFuel src₁) (max (parserFuel src₁) (parserFuel src₂)) hn
            PS.init PS.init rfl)
          ts₂ (LexState.init src₂) ⟨h₂, .inl ⟨_, hl₂⟩⟩
        rw [hm₂] at s3
        cases hm₃ : (Parser.parseProgram tbl (max (parserFuel src₁) (parserFuel src₂)) PS.init).runWith
            lexerSrc (LexState.init src₂) with
        | syntaxErr e => rw [hm₃] at s3; cases s3
        | oof => rw [hm₃] at s3; cases s3
        | ok r₃ =>
          obtain ⟨p₃, st₃⟩ := r₃
          rw [hm₃] at s3
          cases s3 with
          | ok e3 =>
            simp only [erase_pair, Prod.mk.injEq] at e3
            exact ⟨p₃, rfl, e1.1.trans e3.1⟩

/-- the hypotheses on two concrete texts, the second one SHORTER (blanks removed, one newline
    added inside the call), checked by evaluation; and, as the theorem says, both parse, to the
    same AST up to positions -/
example :
    (47 : UInt8) ∉ b!"BEGIN   {   x = f(1,   2) }" ∧ (47 : UInt8) ∉ b!"BEGIN{x=f(1,\n2)}" ∧
    ¬ (b!"BEGIN   {   x = f(1,   2) }".length ≤ b!"BEGIN{x=f(1,\n2)}".length) ∧
    (∃ ts₁ ts₂,
      lexFlags (b!"BEGIN   {   x = f(1,   2) }".length + 2)
        (LexState.init b!"BEGIN   {   x = f(1,   2) }") = some ts₁ ∧
      lexFlags (b!"BEGIN{x=f(1,\n2)}".length + 2) (LexState.init b!"BEGIN{x=f(1,\n2)}") = some ts₂ ∧
      Nl.nlMoreB Nl.G.init ts₁ ts₂ = true) ∧
    (match parseProgramSrc expectedRuleTable b!"BEGIN   {   x = f(1,   2) }",
        parseProgramSrc expectedRuleTable b!"BEGIN{x=f(1,\n2)}" with
      | .ok p, .ok p' => dumpProgram (erase p) == dumpProgram (erase p') | _, _ => false) = true := by
  refine ⟨by decide +kernel, by decide +kernel, by decide, ⟨_, _, rfl, rfl, ?_⟩, by decide +kernel⟩
  decide +kernel

/-- C13 (`layout_invariant` without the escape): two program texts whose lexer states are
    token-equivalent have the same outcome up to positions — both parse, to the same AST after
    `erase`, or both are syntax errors with the same message; for the program parser and for
    the expression parser, with any rule table without EOF rules.  `resEquivT_iff` spells the
    relation out; `layout_invariant_parses` is the reading "src₂ parses whenever src₁ does".
    Only the parse is covered, not evaluation. -/
theorem layout_invariant_total (tbl : RuleTable) (hT : ParserFuel.EofRule tbl) (src₁ src₂ : Bytes)
    (h : TokEquiv (LexState.init src₁) (LexState.init src₂)) :
    ResEquivT (parseProgramSrc tbl src₁) (parseProgramSrc tbl src₂) ∧
    ResEquivT (parseExpressionSrc tbl src₁) (parseExpressionSrc tbl src₂) := by
  obtain ⟨e1, e2⟩ := layout_invariant tbl src₁ src₂ h
  obtain ⟨a1, a2⟩ := parse_never_oof tbl hT src₁
  obtain ⟨b1, b2⟩ := parse_never_oof tbl hT src₂
  exact ⟨resEquivT_of e1 a1 b1, resEquivT_of e2 a2 b2⟩

/-- the token equivalence of ` x` and `x` used in the examples (the relation is "same unread
    text, or this pair of initial states") -/
theorem tokEquiv_blank_x : TokEquiv (LexState.init b!" x") (LexState.init b!"x") := by
  refine ⟨fun a b => Lexer.SameRest a b ∨ (a = LexState.init b!" x" ∧ b = LexState.init b!"x"),
    ⟨?_, ?_⟩, .inr ⟨rfl, rfl⟩⟩
  · rintro a b (h | ⟨rfl, rfl⟩)
    · have := sameRest_isSimE.next a b h
      revert this
      cases lexerSrc.next a <;> cases lexerSrc.next b <;> simp only [PM.AnsNextE] <;> intro h
      · exact h
      · exact h
      · exact h
      · exact ⟨h.1, h.2.1, .inl h.2.2⟩
    · exact ⟨rfl, rfl, .inl rfl⟩
  · rintro a b (h | ⟨rfl, rfl⟩)
    · have := sameRest_isSimE.regex a b h
      revert this
      cases lexerSrc.regex a <;> cases lexerSrc.regex b <;> simp only [PM.AnsRegexE] <;> intro h
      · exact h
      · exact h
      · exact h
      · exact ⟨h.1, .inl h.2⟩
    · exact rfl

example : ParserFuel.EofRule expectedRuleTable ∧
    TokEquiv (LexState.init b!" x") (LexState.init b!"x") :=
  ⟨expectedRuleTable_eofRule, tokEquiv_blank_x⟩

/-- C13 (`layout_invariant`, the one-directional reading the review asked for): if `src₁`
    parses to `p` then the token-equivalent `src₂` parses, to a program equal to `p` up to
    positions; if `src₁` is a syntax error then so is `src₂`, with the same message.  Likewise
    for the expression parser.  (By symmetry of `TokEquiv` also from `src₂` to `src₁`.) -/
theorem layout_invariant_parses (tbl : RuleTable) (hT : ParserFuel.EofRule tbl) (src₁ src₂ : Bytes)
    (h : TokEquiv (LexState.init src₁) (LexState.init src₂)) :
    (∀ p, parseProgramSrc tbl src₁ = .ok p →
      ∃ p', parseProgramSrc tbl src₂ = .ok p' ∧ erase p = erase p') ∧
    (∀ e, parseProgramSrc tbl src₁ = .syntaxErr e →
      ∃ e', parseProgramSrc tbl src₂ = .syntaxErr e' ∧ e.msg = e'.msg) ∧
    (∀ x, parseExpressionSrc tbl src₁ = .ok x →
      ∃ x', parseExpressionSrc tbl src₂ = .ok x' ∧ erase x = erase x') ∧
    (∀ e, parseExpressionSrc tbl src₁ = .syntaxErr e →
      ∃ e', parseExpressionSrc tbl src₂ = .syntaxErr e' ∧ e.msg = e'.msg) := by
  obtain ⟨h1, h2⟩ := layout_invariant_total tbl hT src₁ src₂ h
  obtain ⟨a1, a2, _⟩ := (resEquivT_iff _ _).mp h1
  obtain ⟨b1, b2, _⟩ := (resEquivT_iff _ _).mp h2
  exact ⟨a1, a2, b1, b2⟩

/-- an instance where the premise of the first clause holds (` x` parses) -/
example : (match parseProgramSrc expectedRuleTable b!" x" with | .ok _ => true | _ => false) = true := by
  decide +kernel

/-- C13 (`leading_trivia_invariant` without the escape): horizontal trivia (blanks, tabs, CRs,
    comments up to a newline) in front of a program text does not change its outcome up to
    positions: `t ++ src` parses iff `src` does, to the same AST after `erase`, and is a syntax
    error iff `src` is, with the same message (`resEquivT_iff`); for both parsers, any rule
    table without EOF rules. -/
theorem leading_trivia_invariant_total (tbl : RuleTable) (hT : ParserFuel.EofRule tbl)
    (t src : Bytes) (ht : Trivia t src) :
    ResEquivT (parseProgramSrc tbl (t ++ src)) (parseProgramSrc tbl src) ∧
    ResEquivT (parseExpressionSrc tbl (t ++ src)) (parseExpressionSrc tbl src) := by
  obtain ⟨e1, e2⟩ := leading_trivia_invariant tbl t src ht
  obtain ⟨a1, a2⟩ := parse_never_oof tbl hT (t ++ src)
  obtain ⟨b1, b2⟩ := parse_never_oof tbl hT src
  exact ⟨resEquivT_of e1 a1 b1, resEquivT_of e2 a2 b2⟩

example : Trivia b!" \t # note" b!"\n{ print 1 }" :=
  .blank _ _ _ rfl (.blank _ _ _ rfl (.blank _ _ _ rfl
    (.comment b!" note" [] _ (by decide) (.inr rfl) (.nil _))))

/-- C13 (leading trivia, spelled out in the direction "the text with trivia parses whenever the
    text without does", and the same for syntax errors) -/
theorem leading_trivia_parses (tbl : RuleTable) (hT : ParserFuel.EofRule tbl)
    (t src : Bytes) (ht : Trivia t src) :
    (∀ p, parseProgramSrc tbl src = .ok p →
      ∃ p', parseProgramSrc tbl (t ++ src) = .ok p' ∧ erase p' = erase p) ∧
    (∀ e, parseProgramSrc tbl src = .syntaxErr e →
      ∃ e', parseProgramSrc tbl (t ++ src) = .syntaxErr e' ∧ e'.msg = e.msg) ∧
    (∀ x, parseExpressionSrc tbl src = .ok x →
      ∃ x', parseExpressionSrc tbl (t ++ src) = .ok x' ∧ erase x' = erase x) ∧
    (∀ e, parseExpressionSrc tbl src = .syntaxErr e →
      ∃ e', parseExpressionSrc tbl (t ++ src) = .syntaxErr e' ∧ e'.msg = e.msg) := by
  obtain ⟨h1, h2⟩ := leading_trivia_invariant_total tbl hT t src ht
  obtain ⟨_, _, a3, a4, _⟩ := (resEquivT_iff _ _).mp h1
  obtain ⟨_, _, b3, b4, _⟩ := (resEquivT_iff _ _).mp h2
  exact ⟨a3, a4, b3, b4⟩

/-- an instance where the premise of the second clause holds (`{ print` is a syntax error, and
    so it is after a comment) -/
example : Trivia b!"# c" b!"\n{ print" ∧
    (match parseProgramSrc expectedRuleTable b!"\n{ print",
        parseProgramSrc expectedRuleTable (b!"# c" ++ b!"\n{ print") with
      | .syntaxErr e, .syntaxErr e' => e.msg == e'.msg | _, _ => false) = true :=
  ⟨.comment b!" c" [] _ (by decide) (.inr rfl) (.nil _), by decide +kernel⟩

end Jqawk.C13
