/-
  C03 — input is a JSON value stream: incremental, chunking-independent, faults reported.
  * The decoder model (`Json.decodeOne`, a byte-exact port of encoding/json's Decoder.Decode,
    differentially tested) is prefix-stable: once the bytes read so far determine a value, no
    later byte and no chunking can change it (`Lemmas/JsonPrefix.lean`).  The value's own bytes
    suffice for arrays and objects, and ONE following byte (any byte) for numbers, strings and
    true/false/null — exactly encoding/json's behaviour (section OneByte:
    `value_and_at_most_one_byte`, `available_exactly_when`, `k_values_and_one_byte_suffice`).
  * The driver processes each value completely before looking at the rest of the stream, stops
    at the first fault with a JSON error naming the file without running any rule on the partial
    value, and ends a file normally ONLY when the decoder reported a clean end of input.
-/
import Jqawk.Model.Driver
import Jqawk.Lemmas.JsonPrefix
import Jqawk.Lemmas.StreamPrefix
import Jqawk.Lemmas.OneByteRun

namespace Jqawk.C03
open Jqawk

/-- chunking independence / incrementality: if the bytes delivered so far (`pre`, with more
    possibly to come) already yield a value, then whatever arrives later (`more`) and however the
    stream ends, the decoder yields the same value and leaves exactly the later bytes unread -/
theorem value_determined_by_prefix (numOk : Bytes → Bool) (pre more : Bytes) (v : JVal) (rest : Bytes)
    (t : Json.Tail) (h : Json.decodeOne numOk pre .more = .value v rest) :
    Json.decodeOne numOk (pre ++ more) t = .value v (rest ++ more) :=
  Json.decodeOne_prefix_value more t h

/-- non-vacuity: `[1]` is a value as soon as its closing bracket is read; a number needs one
    following byte (`12` alone could still grow) -/
example : (match Json.decodeOne numOk b!"[1] {" .more with
    | .value (.arr [.num n]) rest => n == b!"1" && rest == b!" {"
    | _ => false) = true := by decide +kernel
example : (match Json.decodeOne numOk b!"12" .more, Json.decodeOne numOk b!"12 " .more with
    | .needMore, .value (.num n) rest => n == b!"12" && rest == b!" "
    | _, _ => false) = true := by decide +kernel

/-- likewise a fault inside the bytes read so far is a fault whatever follows -/
theorem fault_determined_by_prefix (numOk : Bytes → Bool) (pre more : Bytes) (t : Json.Tail)
    (h : Json.decodeOne numOk pre .more = .error) :
    Json.decodeOne numOk (pre ++ more) t = .error :=
  Json.decodeOne_prefix_error more t h

example : (match Json.decodeOne numOk b!"[1 }" .more with | .error => true | _ => false) = true := by
  decide +kernel

/-- how a byte stream decodes: the values in order and how it ends -/
inductive StreamEnd | clean | fault | fuel
  deriving DecidableEq, Repr

def decodeAll (numOk : Bytes → Bool) (tail : Json.Tail) : Nat → Bytes → List JVal × StreamEnd
  | 0, _ => ([], .fuel)
  | n + 1, data =>
    match Json.decodeOne numOk data tail with
    | .eof => ([], .clean)
    | .error | .needMore => ([], .fault)
    | .value v rest =>
      let r := decodeAll numOk tail n rest
      (v :: r.1, r.2)

variable (prog : Program)

/-- **never silently treated as end of input**: a file's processing ends normally only if the
    decoder reported a clean end of the stream after the last value -/
theorem never_silent (src : Bytes) (tbl : RuleTable) (sels : List Bytes) (file : InputFile) :
    ∀ (fuel : Nat) (data : Bytes) (s s' : St),
      processFile prog src tbl sels file fuel data s = .done s' →
      (decodeAll numOk file.tail fuel data).2 = .clean := by
  intro fuel
  induction fuel with
  | zero => intro data s s' h; cases h
  | succ fuel ih =>
    intro data s s' h
    unfold processFile at h
    unfold decodeAll
    split at h
    · rename_i hd; simp [hd]
    · cases h
    · cases h
    · rename_i v rest hd
      simp only [hd]
      dsimp only at h
      split at h
      · cases h
      · cases h
      · split at h
        · cases h
        · cases h
        · split at h
          · cases h
          · exact ih _ _ _ h
          · cases h
          · cases h

/-- a fault (malformed, truncated or unreadable value, stray text) at the front of the unread
    input is reported as a JSON error naming the file, and NO rule runs: the state is untouched -/
theorem fault_reported_no_rule (src : Bytes) (tbl : RuleTable) (sels : List Bytes) (file : InputFile)
    (fuel : Nat) (data : Bytes) (s : St)
    (h : Json.decodeOne numOk data file.tail = .error ∨ Json.decodeOne numOk data file.tail = .needMore) :
    processFile prog src tbl sels file (fuel + 1) data s = .finished (.jsonErr file.name) s := by
  unfold processFile
  rcases h with h | h <;> simp [h]

/-- non-vacuity: stray text and a truncated value at the end of the stream are `.error`, an
    incomplete value with bytes still to come is `.needMore` -/
example : (match Json.decodeOne numOk b!" ] [2]" .eof, Json.decodeOne numOk b!"[1, " .eof,
      Json.decodeOne numOk b!"[1, " .ioerr, Json.decodeOne numOk b!"[1, " .more with
    | .error, .error, .error, .needMore => true
    | _, _, _, _ => false) = true := by decide +kernel

/-- a JSON error names the file being read — proved here only for runs WITHOUT root selectors
    (`sels = []`) -/
theorem json_error_names_file (src : Bytes) (tbl : RuleTable) (sels : List Bytes) (file : InputFile)
    (hsel : sels = []) :
    ∀ (fuel : Nat) (data : Bytes) (s s' : St) (name : Bytes),
      processFile prog src tbl sels file fuel data s = .finished (.jsonErr name) s' →
      name = file.name := by
  intro fuel
  induction fuel with
  | zero => intro data s s' name h; cases h
  | succ fuel ih =>
    intro data s s' name h
    unfold processFile at h
    split at h
    · cases h
    · simp only [StepRes.finished.injEq, Outcome.jsonErr.injEq] at h; exact h.1.symm
    · simp only [StepRes.finished.injEq, Outcome.jsonErr.injEq] at h; exact h.1.symm
    · dsimp only at h
      split at h
      · rename_i e _ _
        simp only [StepRes.finished.injEq] at h
        cases e <;> simp [errOutcome] at h
      · cases h
      · subst hsel
        simp only [List.isEmpty_nil, ↓reduceIte] at h
        split at h
        · rename_i o s2 hroots
          split at hroots
          · cases hroots
          · rename_i e _ _
            simp only [Roots.stop.injEq] at hroots
            simp only [StepRes.finished.injEq] at h
            rw [h.1] at hroots
            cases e <;> simp [errOutcome] at hroots
          · simp only [Roots.stop.injEq] at hroots
            simp only [StepRes.finished.injEq] at h
            rw [h.1] at hroots
            cases hroots.1
        · cases h
        · split at h
          · cases h
          · exact ih _ _ _ _ h
          · rename_i e _ _
            simp only [StepRes.finished.injEq] at h
            cases e <;> simp [errOutcome] at h
          · cases h

/-- a clean end of the stream ends the file normally, with nothing more processed -/
theorem clean_end (src : Bytes) (tbl : RuleTable) (sels : List Bytes) (file : InputFile)
    (fuel : Nat) (data : Bytes) (s : St) (h : Json.decodeOne numOk data file.tail = .eof) :
    processFile prog src tbl sels file (fuel + 1) data s = .done s := by
  unfold processFile; simp [h]

/-- non-vacuity of `clean_end` (and, through it, of the hypothesis `… = .done s'` of
    `never_silent`): only white space left at a clean end of the stream -/
example : (match Json.decodeOne numOk b!" \n" .eof with | .eof => true | _ => false) = true := by
  decide +kernel

/-- non-vacuity: `[1] ] [2]` — one value, then a fault (never a silent end) -/
example : (decodeAll (fun _ => true) .eof 10 b!"[1] ] [2]").2 = .fault := by decide +kernel
example : (decodeAll (fun _ => true) .eof 10 b!"[1] [2] ").2 = .clean := by decide +kernel

/-- **A stream is processed value by value; for any prefix the output is the output of the
    complete values in that prefix.**  Take any split `pre ++ more` of a file's bytes (however
    the stream ends: clean EOF or a read error).  Process `pre` alone as a stream that may still
    deliver bytes, and process the whole file, from the same state:
    * if the prefix already ends the run (`exit`, a runtime error, …) the whole file ends the run
      in the very same state — no later byte is ever looked at;
    * otherwise (the prefix is used up: the decoder wants more bytes, or found a fault) the
      output of the whole file EXTENDS the output written for the complete values of the prefix
      (`OutExt`: nothing of it is lost or reordered; only the output is compared, not the rest
      of the state);
    * if the evaluator runs out of fuel on the prefix, nothing is claimed (`PrefixRel`).
    No hypothesis on the program, the selectors, the bytes or the state. -/
theorem prefix_processed_first (src : Bytes) (tbl : RuleTable) (sels : List Bytes) (name pre more : Bytes)
    (t : Json.Tail) (s : St) :
    PrefixRel
      (processFile prog src tbl sels ⟨name, pre, .more⟩ (pre.length + 2) pre s)
      (processFile prog src tbl sels ⟨name, pre ++ more, t⟩ ((pre ++ more).length + 2) (pre ++ more) s) :=
  processFile_prefix prog src tbl sels ⟨name, pre, .more⟩ ⟨name, pre ++ more, t⟩ rfl rfl more _ pre s _
    (by simp)

/-- the same for the decoded values alone: the values of a prefix are an initial segment of the
    values of the whole stream -/
theorem prefix_values (numOk : Bytes → Bool) (more : Bytes) (t : Json.Tail) :
    ∀ (n : Nat) (pre : Bytes) (m : Nat), n ≤ m → (decodeAll numOk .more n pre).2 ≠ .fuel →
      (decodeAll numOk .more n pre).1 <+: (decodeAll numOk t m (pre ++ more)).1 := by
  intro n
  induction n with
  | zero => intro pre m _ h; simp [decodeAll] at h
  | succ n ih =>
    intro pre m hm hf
    obtain ⟨m', rfl⟩ : ∃ m', m = m' + 1 := ⟨m - 1, by omega⟩
    unfold decodeAll at hf ⊢
    cases hd : Json.decodeOne numOk pre .more with
    | eof => simp
    | error => simp
    | needMore => simp
    | value v rest =>
      rw [Json.decodeOne_prefix_value more t hd]
      rw [hd] at hf
      simp only [List.cons_prefix_cons, true_and]
      exact ih rest m' (by omega) hf

example : (decodeAll (fun _ => true) .more 10 b!"[1] {\"a\":2} [3").1.length = 2 := by decide +kernel
/-- … and the hypothesis `≠ .fuel` of `prefix_values` holds there -/
example : (decodeAll (fun _ => true) .more 10 b!"[1] {\"a\":2} [3").2 = .fault := by decide +kernel

/-! ## "Once a value and at most one following byte have been read" — as theorems

  Everything below is about `Json.decodeOne … .more`: the bytes read so far, with the reader still
  open.  A byte string `v` is ONE COMPLETE VALUE for the decoder in one of two ways:
  * self-delimited: `decodeOne f v .more = .value j []` — `v` alone yields `j`, nothing unread;
  * delimited by the byte `d`: `decodeOne f (v ++ [d]) .more = .value j [d]` — `v` and one further
    byte yield `j`, and exactly that byte is left unread.
  FINDING (model = Go): the self-delimited values are exactly the arrays and objects.  Numbers,
  `true` / `false` / `null` AND STRINGS need the following byte: encoding/json's scanner reports the
  end of a top-level scalar one byte late (`stateEndTop`), and stream.go `readValue` only
  short-cuts the wait after `scanEndObject` / `scanEndArray`, not after a closing quote.  So
  `jqawk` fed `"x"` from an open pipe processes the string only when one more byte (or the end
  of the stream) arrives.  This is within the property's "at most one following byte". -/
section OneByte
open Jqawk.OneByte

/-- **a self-delimited value does not depend on anything after it**: if `v` alone (reader still
    open) decodes to `j` with nothing unread, then `v` followed by ANY bytes, however the stream
    ends, decodes to the same `j`, consuming exactly the bytes of `v`.
    Does not say which `v` are self-delimited — see `selfDelimited_iff_composite`. -/
theorem selfDelimited_any_continuation (f : Bytes → Bool) (v : Bytes) (j : JVal)
    (h : Json.decodeOne f v .more = .value j []) (rest : Bytes) (t : Json.Tail) :
    Json.decodeOne f (v ++ rest) t = .value j rest := by
  simpa using Json.decodeOne_prefix_value rest t h

/-- non-vacuity: `[1]` and `{"a":2}` are self-delimited; in the stream `[1]{"a":2}` the first
    value is available with its closing bracket -/
example : (match Json.decodeOne (fun _ => true) b!"[1]" .more, Json.decodeOne (fun _ => true) b!"{\"a\":2}" .more,
      Json.decodeOne (fun _ => true) b!"[1]{\"a\":2}" .more with
    | .value (.arr [.num n]) [], .value (.obj [(k, .num m)]) [], .value (.arr [.num n']) rest =>
      n == b!"1" && k == b!"a" && m == b!"2" && n' == b!"1" && rest == b!"{\"a\":2}"
    | _, _, _ => false) = true := by decide +kernel

/-- **a value and ONE following byte do not depend on anything after that byte**: if `v`
    followed by the single byte `d` decodes to `j` leaving exactly `d` unread, then `v ++ d :: rest`
    decodes to the same `j`, consuming exactly the bytes of `v`, for every `rest` and every way
    the stream ends.  Does not say which bytes `d` delimit `v` — see `any_delimiter`. -/
theorem delimited_any_continuation (f : Bytes → Bool) (v : Bytes) (d : UInt8) (j : JVal)
    (h : Json.decodeOne f (v ++ [d]) .more = .value j [d]) (rest : Bytes) (t : Json.Tail) :
    Json.decodeOne f (v ++ d :: rest) t = .value j (d :: rest) := by
  simpa using Json.decodeOne_prefix_value rest t h

/-- non-vacuity, on the streams `1 2`, `"x""y"` and `truefalse`: the first value is delimited by
    the byte after it (a space, the next opening quote, the `f` of `false`) -/
example : (match Json.decodeOne (fun _ => true) b!"1 " .more, Json.decodeOne (fun _ => true) b!"\"x\"\"" .more,
      Json.decodeOne (fun _ => true) b!"truef" .more with
    | .value (.num n) r1, .value (.str x) r2, .value (.bool true) r3 =>
      n == b!"1" && r1 == b!" " && x == b!"x" && r2 == b!"\"" && r3 == b!"f"
    | _, _, _ => false) = true := by decide +kernel
/-- … and the whole streams: `"x""y"` is the string x, then `"y"` unread; `truefalse` is `true`,
    then `false` unread (no separator needed: the model and Go accept both) -/
example : (match Json.decodeOne (fun _ => true) b!"1 2" .eof, Json.decodeOne (fun _ => true) b!"\"x\"\"y\"" .eof,
      Json.decodeOne (fun _ => true) b!"truefalse" .eof with
    | .value (.num n) r1, .value (.str x) r2, .value (.bool true) r3 =>
      n == b!"1" && r1 == b!" 2" && x == b!"x" && r2 == b!"\"y\"" && r3 == b!"false"
    | _, _, _ => false) = true := by decide +kernel
example : (decodeAll (fun _ => true) .eof 10 b!"truefalse").1.length = 2
    ∧ (decodeAll (fun _ => true) .eof 10 b!"\"x\"\"y\"").1.length = 2
    ∧ (decodeAll (fun _ => true) .eof 10 b!"truefalse").2 = .clean := by decide +kernel

/-- **every successful decode has one of these two forms** (so "a value and at most one following
    byte" is all the decoder ever uses): if on the bytes `inp` (reader still open) the decoder
    answers `j` leaving `rest` unread, then `inp = v ++ rest` with `v` not empty (the value's text
    with its leading white space) and
    * `j` is an array or object and `v` ALONE decodes to `j` with nothing unread; or
    * `j` is null / a boolean / a number / a string, `v` alone is NOT enough (the decoder asks for
      more bytes), `rest` is not empty, and `v` with just the first byte `d` of `rest` decodes to
      `j` leaving `d`.
    Does not describe `v` syntactically (no grammar of JSON texts here). -/
theorem value_and_at_most_one_byte (f : Bytes → Bool) (inp rest : Bytes) (j : JVal)
    (h : Json.decodeOne f inp .more = .value j rest) :
    ∃ v, inp = v ++ rest ∧ v ≠ [] ∧
      ((composite j = true ∧ Json.decodeOne f v .more = .value j []) ∨
       (composite j = false ∧ Json.decodeOne f v .more = .needMore ∧
        ∃ d r, rest = d :: r ∧ Json.decodeOne f (v ++ [d]) .more = .value j [d])) := by
  obtain ⟨v, h1, h2, h3 | ⟨h3, h4, h5, _⟩⟩ := decode_split h
  · exact ⟨v, h1, h2, .inl h3⟩
  · exact ⟨v, h1, h2, .inr ⟨h3, h4, h5⟩⟩

/-- **exactly the arrays and objects need no following byte**: a decode that leaves NOTHING
    unread returned an array or an object … -/
theorem selfDelimited_is_composite (f : Bytes → Bool) (v : Bytes) (j : JVal)
    (h : Json.decodeOne f v .more = .value j []) : composite j = true :=
  composite_of_rest_nil h

/-- … and conversely whenever an array or object is decoded, the bytes consumed decode to it on
    their own; whenever a scalar (null, boolean, number, STRING) is decoded, the bytes consumed
    are not enough on their own: the decoder has looked at one further byte. -/
theorem selfDelimited_iff_composite (f : Bytes → Bool) (v rest : Bytes) (j : JVal)
    (h : Json.decodeOne f (v ++ rest) .more = .value j rest) :
    (composite j = true → Json.decodeOne f v .more = .value j []) ∧
    (composite j = false → Json.decodeOne f v .more = .needMore ∧ rest ≠ []) := by
  obtain ⟨v0, h0, _, hcase⟩ := decode_split h
  have hv : v0 = v := (List.append_cancel_right h0).symm
  subst hv
  rcases hcase with ⟨hj, h1⟩ | ⟨hj, h1, ⟨d, r, hr, _⟩, _⟩
  · exact ⟨fun _ => h1, fun hc => (by rw [hj] at hc; cases hc)⟩
  · exact ⟨fun hc => (by rw [hj] at hc; cases hc), fun _ => ⟨h1, (by rw [hr]; simp)⟩⟩

/-- non-vacuity and the FINDING about strings: `"x"`, `true`, `null`, `12` alone (reader open) make
    the decoder wait; `"x" `, `true,`, `nullx`, `12]` yield the value and leave the extra byte -/
example : (match Json.decodeOne (fun _ => true) b!"\"x\"" .more, Json.decodeOne (fun _ => true) b!"true" .more,
      Json.decodeOne (fun _ => true) b!"null" .more, Json.decodeOne (fun _ => true) b!"12" .more with
    | .needMore, .needMore, .needMore, .needMore => true
    | _, _, _, _ => false) = true := by decide +kernel
example : (match Json.decodeOne (fun _ => true) b!"\"x\" " .more, Json.decodeOne (fun _ => true) b!"true," .more,
      Json.decodeOne (fun _ => true) b!"nullx" .more, Json.decodeOne (fun _ => true) b!"12]" .more with
    | .value (.str x) r1, .value (.bool true) r2, .value .null r3, .value (.num n) r4 =>
      x == b!"x" && r1 == b!" " && r2 == b!"," && r3 == b!"x" && n == b!"12" && r4 == b!"]"
    | _, _, _, _ => false) = true := by decide +kernel

/-- **which following byte will do**: if `v` is delimited by SOME byte `d`, then it is delimited,
    with the same value, by every byte `d'` that `delimits j`: ANY byte at all when `j` is a
    string, `true`, `false` or `null` (or an array / object, which need none); for a number every
    byte except a digit, `.`, `e`, `E` (white space "suffices", but so do `,` `]` `"` `-` `x` …).
    Whether the NEXT value then decodes is another matter (`12x`: 12, then a JSON error).
    Not claimed for a number followed by a digit / `.` / `e` / `E`: see the examples below. -/
theorem any_delimiter (f : Bytes → Bool) (v : Bytes) (d d' : UInt8) (j : JVal)
    (h : Json.decodeOne f (v ++ [d]) .more = .value j [d]) (hd : delimits j d' = true)
    (rest : Bytes) (t : Json.Tail) :
    Json.decodeOne f (v ++ d' :: rest) t = .value j (d' :: rest) := by
  obtain ⟨v0, h0, _, hcase⟩ := decode_split h
  have hv : v0 = v := (List.append_cancel_right h0).symm
  subst hv
  rcases hcase with ⟨_, h1⟩ | ⟨_, _, _, h2⟩
  · simpa using Json.decodeOne_prefix_value (d' :: rest) t h1
  · simpa using Json.decodeOne_prefix_value rest t (h2 d' hd)

example : delimits (.str b!"x") 0x31 = true ∧ delimits (.bool true) 0x66 = true ∧ delimits .null 0x00 = true
    ∧ delimits (.num b!"12") 0x20 = true ∧ delimits (.num b!"12") 0x2D = true
    ∧ delimits (.num b!"12") 0x33 = false ∧ delimits (.num b!"12") 0x2E = false
    ∧ delimits (.num b!"12") 0x65 = false := by decide
/-- why the exception for numbers is needed: after `12` the bytes `3`, `.`, `e` continue the literal
    (the decoder waits), and what follows may even turn the input into an error (`12.x`); yet a
    digit DOES delimit after a leading `0` (`01` is 0, then 1 — as in Go's stream decoder), so
    `delimits` is sufficient, not necessary -/
example : (match Json.decodeOne (fun _ => true) b!"123" .more, Json.decodeOne (fun _ => true) b!"12." .more,
      Json.decodeOne (fun _ => true) b!"12e" .more, Json.decodeOne (fun _ => true) b!"12.x" .more,
      Json.decodeOne (fun _ => true) b!"01" .more with
    | .needMore, .needMore, .needMore, .error, .value (.num z) r => z == b!"0" && r == b!"1"
    | _, _, _, _, _ => false) = true := by decide +kernel

/-- **not before its last byte**: while the decoder still asks for more on some bytes it asks for
    more on every shorter prefix; so a self-delimited value is not available on any proper prefix
    of its text, and a delimited one on no prefix of `v` -/
theorem not_before_last_byte (f : Bytes → Bool) (p q : Bytes)
    (h : Json.decodeOne f (p ++ q) .more = .needMore) : Json.decodeOne f p .more = .needMore :=
  needMore_of_prefix h

example : (match Json.decodeOne (fun _ => true) b!"[1, 2" .more, Json.decodeOne (fun _ => true) b!"[1," .more with
    | .needMore, .needMore => true
    | _, _ => false) = true := by decide +kernel

/-- a self-delimited value is not available before its last byte -/
theorem selfDelimited_minimal (f : Bytes → Bool) (p q : Bytes) (j : JVal) (hq : q ≠ [])
    (h : Json.decodeOne f (p ++ q) .more = .value j []) : Json.decodeOne f p .more = .needMore := by
  cases hp : Json.decodeOne f p .more with
  | needMore => rfl
  | eof => exact absurd hp (decodeOne_more_ne_eof f p)
  | error => rw [Json.decodeOne_prefix_error q .more hp] at h; cases h
  | value v r =>
    rw [Json.decodeOne_prefix_value q .more hp] at h
    simp only [Json.DecodeRes.value.injEq, List.append_eq_nil_iff] at h
    exact absurd h.2.2 hq

example : (match Json.decodeOne (fun _ => true) b!"[1" .more, Json.decodeOne (fun _ => true) b!"[1]" .more with
    | .needMore, .value _ [] => true
    | _, _ => false) = true := by decide +kernel

/-- **exactly when the answer becomes available**, as the bytes of a stream `v ++ rest` arrive
    (`v` = the first value's text, decoded to `j` with `rest` unread): on an initial part `q` of
    the stream the decoder answers `j` (leaving what `q` has beyond `v`) as soon as `q` contains
    `v` — plus ONE more byte unless `j` is an array or object — and until then it asks for more
    bytes; it never answers anything else.  So one following byte is sufficient for every value
    and necessary for exactly the scalars (null, booleans, numbers, strings). -/
theorem available_exactly_when (f : Bytes → Bool) (v rest : Bytes) (j : JVal)
    (h : Json.decodeOne f (v ++ rest) .more = .value j rest) (q : Bytes) (hq : q <+: v ++ rest) :
    Json.decodeOne f q .more =
      if v.length + (if composite j = true then 0 else 1) ≤ q.length then .value j (q.drop v.length)
      else .needMore := by
  obtain ⟨v0, h0, _, hcase⟩ := decode_split h
  have hv : v0 = v := (List.append_cancel_right h0).symm
  subst hv
  have hvp : v0 <+: v0 ++ rest := List.prefix_append v0 rest
  -- the answer on an initial part that contains `v0` and, for scalars, one more byte
  have long : ∀ r', r' <+: rest → (r' ≠ [] ∨ composite j = true) →
      Json.decodeOne f (v0 ++ r') .more = .value j ((v0 ++ r').drop v0.length) := by
    intro r' hr' hr
    rw [decode_shorter_rest h hr' hr]; simp
  rcases hcase with ⟨hj, h1⟩ | ⟨hj, h1, _, _⟩
  · simp only [hj, ↓reduceIte, Nat.add_zero]
    by_cases hlen : v0.length ≤ q.length
    · rw [if_pos hlen]
      obtain ⟨r', rfl⟩ := List.prefix_of_prefix_length_le hvp hq hlen
      exact long r' ((List.prefix_append_right_inj v0).mp hq) (.inr hj)
    · rw [if_neg hlen]
      obtain ⟨q', rfl⟩ := List.prefix_of_prefix_length_le hq hvp (by omega)
      refine selfDelimited_minimal f q q' j ?_ h1
      rintro rfl
      simp at hlen
  · simp only [hj, Bool.false_eq_true, ↓reduceIte]
    by_cases hlen : v0.length + 1 ≤ q.length
    · rw [if_pos hlen]
      obtain ⟨r', rfl⟩ := List.prefix_of_prefix_length_le hvp hq (by omega)
      refine long r' ((List.prefix_append_right_inj v0).mp hq) (.inl ?_)
      rintro rfl
      simp only [List.append_nil] at hlen
      omega
    · rw [if_neg hlen]
      obtain ⟨q', rfl⟩ := List.prefix_of_prefix_length_le hq hvp (by omega)
      exact needMore_of_prefix h1

/-- non-vacuity: the stream ` "x""y"` (`v` = ` "x"`, 4 bytes, a scalar): 4 bytes are not enough, 5 are;
    the stream `[1]{"a":2}` (`v` = `[1]`, 3 bytes, an array): 2 bytes are not enough, 3 are -/
example : (match Json.decodeOne (fun _ => true) b!" \"x\"\"y\"" .more,
      Json.decodeOne (fun _ => true) (b!" \"x\"\"y\"".take 4) .more,
      Json.decodeOne (fun _ => true) (b!" \"x\"\"y\"".take 5) .more with
    | .value (.str x) r, .needMore, .value (.str x') r' => x == b!"x" && r == b!"\"y\"" && x' == b!"x" && r' == b!"\""
    | _, _, _ => false) = true := by decide +kernel
example : (match Json.decodeOne (fun _ => true) (b!"[1]{\"a\":2}".take 2) .more,
      Json.decodeOne (fun _ => true) (b!"[1]{\"a\":2}".take 3) .more with
    | .needMore, .value (.arr [_]) [] => true
    | _, _ => false) = true := by decide +kernel

/-! ### run level -/

/-- **The first `k` values and at most one following byte fix the state the run reaches.**
    `processK … k data s = some (vals, sk, rest)` says: the first `k` values `vals` of `data` are
    complete (as seen with the reader still open) and have been processed one after the other —
    all rules run, none ended the run —, reaching state `sk` (whose `output` is what has been
    written so far), with `rest` not yet looked at.  Then `data = p ++ rest`, `p` being the bytes
    up to the end of the k-th value, and `p` plus ONE byte of `rest` (nothing, if nothing follows)
    already gets these `k` values processed, to the very same state `sk`.
    Does not say anything when a rule ends the run (`exit`, runtime error) within the first `k`
    values, nor when the evaluator runs out of fuel there: `processK` is `none` then. -/
theorem k_values_and_one_byte_suffice (src : Bytes) (tbl : RuleTable) (sels : List Bytes) (name : Bytes)
    (k : Nat) (data : Bytes) (s sk : St) (vals : List JVal) (rest : Bytes)
    (h : processK prog src tbl sels name k data s = some (vals, sk, rest)) :
    ∃ p, data = p ++ rest ∧
      processK prog src tbl sels name k (p ++ rest.take 1) s = some (vals, sk, rest.take 1) := by
  obtain ⟨p, hp, hall⟩ := processK_extent prog k data s sk vals rest h
  refine ⟨p, hp, hall _ (List.take_prefix 1 rest) ?_⟩
  cases rest with
  | nil => exact .inr (.inl rfl)
  | cons d r => exact .inl (by simp)

/-- non-vacuity of the hypothesis `processK … = some …` (program `{ print $ }`, stream `1 2`, k = 1):
    the first value is processed, `1\n` is written, ` 2` is unread — and, as the theorem says, the
    three bytes are not needed: `1` and the following space give the same output -/
example : (match parseProgramSrc expectedRuleTable b!"{ print $ }" with
  | .ok prog =>
    (match processK prog b!"{ print $ }" expectedRuleTable [] b!"f" 1 b!"1 2" (newEvaluator prog Heap.empty [] 0),
           processK prog b!"{ print $ }" expectedRuleTable [] b!"f" 1 b!"1 " (newEvaluator prog Heap.empty [] 0),
           processK prog b!"{ print $ }" expectedRuleTable [] b!"f" 1 b!"1" (newEvaluator prog Heap.empty [] 0) with
      | some (vals, sk, rest), some (_, sk', rest'), none =>
        sk.output == b!"1\n" && rest == b!" 2" && vals.length == 1 && sk'.output == b!"1\n" && rest' == b!" "
      | _, _, _ => false)
  | _ => false) = true := by decide +kernel

/-- … and no byte at all after the k-th value when that value is an array or object -/
theorem k_values_suffice_when_last_composite (src : Bytes) (tbl : RuleTable) (sels : List Bytes) (name : Bytes)
    (k : Nat) (data : Bytes) (s sk : St) (vals : List JVal) (rest : Bytes)
    (h : processK prog src tbl sels name k data s = some (vals, sk, rest)) (hl : lastComposite vals) :
    ∃ p, data = p ++ rest ∧ processK prog src tbl sels name k p s = some (vals, sk, []) := by
  obtain ⟨p, hp, hall⟩ := processK_extent prog k data s sk vals rest h
  refine ⟨p, hp, ?_⟩
  simpa using hall [] List.nil_prefix (.inr (.inr (.inr hl)))

/-- non-vacuity (stream `1 [2]{"a":3}`, k = 2: the second value is an array, the object is unread) -/
example : (match parseProgramSrc expectedRuleTable b!"{ print $ }" with
  | .ok prog =>
    (match processK prog b!"{ print $ }" expectedRuleTable [] b!"f" 2 b!"1 [2]{\"a\":3}" (newEvaluator prog Heap.empty [] 0),
           processK prog b!"{ print $ }" expectedRuleTable [] b!"f" 2 b!"1 [2]" (newEvaluator prog Heap.empty [] 0) with
      | some (vals, sk, rest), some (_, sk', rest') =>
        sk.output == b!"1\n2\n" && rest == b!"{\"a\":3}" && sk'.output == b!"1\n2\n" && rest' == b!"" &&
        (match vals.getLast? with | some j => composite j | none => false)
      | _, _ => false)
  | _ => false) = true := by decide +kernel

/-- **…and for a scalar the byte is needed**: if the k-th value is null, a boolean, a number or a
    string (not an array / object), the bytes `p` up to its end alone do NOT get `k` values
    processed — with the reader still open, the k-th value's rules have not run and its output is
    not written before one more byte arrives (Go: `Decode` is still blocked in `Read`). -/
theorem k_values_not_before_the_byte (src : Bytes) (tbl : RuleTable) (sels : List Bytes) (name : Bytes)
    (k : Nat) (p rest : Bytes) (s sk : St) (vals : List JVal) (hk : 0 < k)
    (h : processK prog src tbl sels name k (p ++ rest) s = some (vals, sk, rest))
    (hl : ¬ lastComposite vals) :
    processK prog src tbl sels name k p s = none := by
  cases hp : processK prog src tbl sels name k p s with
  | none => rfl
  | some res =>
    obtain ⟨vals', sk', r'⟩ := res
    have hm := processK_mono prog rest k p s sk' vals' r' hp
    rw [h] at hm
    simp only [Option.some.injEq, Prod.mk.injEq] at hm
    obtain ⟨rfl, rfl, hr⟩ := hm
    have hr' : r' = [] := by
      have := congrArg List.length hr
      simp only [List.length_append] at this
      exact List.eq_nil_of_length_eq_zero (by omega)
    subst hr'
    obtain ⟨k', rfl⟩ : ∃ n, k = n + 1 := ⟨k - 1, by omega⟩
    exact absurd (processK_rest_nil prog k' p s _ _ hp) hl

/-- non-vacuity: in the example above (`1 2`, k = 1, `p` = `1`, `rest` = ` 2`) the value is a number;
    there `processK … 1 b!"1" …` is indeed `none` (third component of that example) -/
example : ¬ lastComposite [JVal.num b!"1"] := by
  rintro ⟨j, hj, hc⟩
  simp only [List.getLast?_singleton, Option.some.injEq] at hj
  subst hj; cases hc

/-- the values listed by `processK` are the first `k` values of the stream as `decodeAll` (above)
    lists them -/
theorem processK_values (src : Bytes) (tbl : RuleTable) (sels : List Bytes) (name : Bytes) :
    ∀ (k : Nat) (data : Bytes) (s sk : St) (vals : List JVal) (rest : Bytes),
      processK prog src tbl sels name k data s = some (vals, sk, rest) →
      (decodeAll numOk .more k data).1 = vals := by
  intro k
  induction k with
  | zero =>
    intro data s sk vals rest h
    simp only [processK, Option.some.injEq, Prod.mk.injEq] at h
    obtain ⟨rfl, _, _⟩ := h
    rfl
  | succ k ih =>
    intro data s sk vals rest h
    obtain ⟨v, rest1, s', vs, hd, _, hk, rfl⟩ := processK_succ_inv prog h
    unfold decodeAll
    rw [hd]
    simp only [ih rest1 s' sk vs rest hk]

/-- **whatever follows, the run passes through that state**: if the bytes `p` get `k` values
    processed to state `sk` (leaving `r` of `p` unread), then the processing of ANY file of that
    name whose bytes start with `p` — whatever follows, however the stream ends — is the processing
    that continues from `sk` on the unread bytes: nothing after `p` influences `sk`, and the
    file's final output begins with the output written in `sk`.  The fuel is the driver's own
    (`length + 2`, see `processFiles`).  Holds for every end of the run, including errors and
    out-of-fuel after `sk`. -/
theorem run_passes_through (src : Bytes) (tbl : RuleTable) (sels : List Bytes) (name : Bytes)
    (k : Nat) (p : Bytes) (s sk : St) (vals : List JVal) (r : Bytes)
    (h : processK prog src tbl sels name k p s = some (vals, sk, r)) (more : Bytes) (t : Json.Tail) :
    processFile prog src tbl sels ⟨name, p ++ more, t⟩ ((p ++ more).length + 2) (p ++ more) s =
      processFile prog src tbl sels ⟨name, p ++ more, t⟩ ((p ++ more).length + 2 - k) (r ++ more) sk
    ∧ sk.output <+:
        (processFile prog src tbl sels ⟨name, p ++ more, t⟩ ((p ++ more).length + 2) (p ++ more) s).state.output := by
  have hk := (processK_length prog k p s sk vals r h).1
  have hrun := processK_run prog (src := src) (tbl := tbl) (sels := sels) ⟨name, p ++ more, t⟩ more
    k p s sk vals r ((p ++ more).length + 2) h (by simp only [List.length_append]; omega)
  refine ⟨hrun, ?_⟩
  rw [hrun]
  exact outExt_output_prefix (goodStep_outExt (processFile_good prog src tbl sels _ _ _ sk))

/-- **Two inputs that agree up to the end of the k-th value plus one byte have written the same
    output when the k-th value has been processed.**  Let the first `k` values of `data` be
    processed to state `sk`, `rest` unread (`processK`, as above), and let `p` be the bytes up to
    the end of the k-th value.  Any two files of the same name whose bytes start with `p` and
    the first byte of `rest` (if there is one) — `data` itself is one — both pass through `sk`:
    the output of each begins with `sk.output`, the output of processing those `k` values.
    The files may differ in everything after that byte and in how they end. -/
theorem agreeing_inputs_common_output (src : Bytes) (tbl : RuleTable) (sels : List Bytes) (name : Bytes)
    (k : Nat) (data : Bytes) (s sk : St) (vals : List JVal) (rest : Bytes)
    (h : processK prog src tbl sels name k data s = some (vals, sk, rest)) :
    ∃ p, data = p ++ rest ∧ ∀ (m1 m2 : Bytes) (t1 t2 : Json.Tail),
      let d1 := p ++ rest.take 1 ++ m1
      let d2 := p ++ rest.take 1 ++ m2
      sk.output <+: (processFile prog src tbl sels ⟨name, d1, t1⟩ (d1.length + 2) d1 s).state.output ∧
      sk.output <+: (processFile prog src tbl sels ⟨name, d2, t2⟩ (d2.length + 2) d2 s).state.output := by
  obtain ⟨p, hp, hk⟩ := k_values_and_one_byte_suffice prog src tbl sels name k data s sk vals rest h
  exact ⟨p, hp, fun m1 m2 t1 t2 =>
    ⟨(run_passes_through prog src tbl sels name k _ s sk vals _ hk m1 t1).2,
     (run_passes_through prog src tbl sels name k _ s sk vals _ hk m2 t2).2⟩⟩

/-- **the whole run**: the same through later input files and the END rules.  If, from the state
    `s1` in which the BEGIN rules left the evaluator, the bytes `p` get `k` values of the first
    file processed to state `sk`, then the output of the WHOLE run on any first file starting
    with `p` (any continuation, any end of stream, any further files) begins with `sk.output` —
    unless the run as a whole is out of fuel (the model's artefact; its output is then empty). -/
theorem whole_run_passes_through (src : Bytes) (tbl : RuleTable) (sels : List Bytes) (name : Bytes)
    (k : Nat) (p : Bytes) (s1 sk : St) (vals : List JVal) (r : Bytes)
    (hbegin : evalSpecialRules prog (newCell (.nil none)) (rulesOf prog .begin_)
      (newEvaluator prog Heap.empty [] 0) = .ok .continue_ s1)
    (h : processK prog src tbl sels name k p s1 = some (vals, sk, r))
    (more : Bytes) (t : Json.Tail) (others : List InputFile)
    (hfuel : (runProgram prog src tbl sels (⟨name, p ++ more, t⟩ :: others)).outcome ≠ .oof) :
    sk.output <+: (runProgram prog src tbl sels (⟨name, p ++ more, t⟩ :: others)).out := by
  unfold runProgram at hfuel ⊢
  rw [hbegin] at hfuel ⊢
  dsimp only at hfuel ⊢
  refine runFiles_out_of_first prog ⟨name, p ++ more, t⟩ others s1 sk ?_ hfuel
  have hk := (processK_length prog k p s1 sk vals r h).1
  have hrun := processK_run prog (src := src) (tbl := tbl) (sels := sels) ⟨name, p ++ more, t⟩ more
    k p s1 sk vals r ((p ++ more).length + 2) h (by simp only [List.length_append]; omega)
  show OutExt sk (processFile prog src tbl sels ⟨name, p ++ more, t⟩ ((p ++ more).length + 2) (p ++ more) s1).state
  rw [hrun]
  exact goodStep_outExt (processFile_good prog src tbl sels _ _ _ sk)

/-- **Runs on inputs that agree up to the end of the k-th value plus one byte have a common
    output prefix: the output of processing those k values.**  With `p` the bytes of `data` up to
    the end of its k-th value and `rest` the bytes after it: EVERY run whose first file starts
    with `p` and the first byte of `rest` (none if `rest` is empty) — whatever comes after that
    byte, however that file ends, whatever files follow — writes `sk.output` first.  (Two such
    runs: both outputs begin with `sk.output`.)  Out-of-fuel runs excepted, as above. -/
theorem agreeing_runs_common_output (src : Bytes) (tbl : RuleTable) (sels : List Bytes) (name : Bytes)
    (k : Nat) (data : Bytes) (s1 sk : St) (vals : List JVal) (rest : Bytes)
    (hbegin : evalSpecialRules prog (newCell (.nil none)) (rulesOf prog .begin_)
      (newEvaluator prog Heap.empty [] 0) = .ok .continue_ s1)
    (h : processK prog src tbl sels name k data s1 = some (vals, sk, rest)) :
    ∃ p, data = p ++ rest ∧ ∀ (m : Bytes) (t : Json.Tail) (others : List InputFile),
      (runProgram prog src tbl sels (⟨name, p ++ rest.take 1 ++ m, t⟩ :: others)).outcome ≠ .oof →
      sk.output <+: (runProgram prog src tbl sels (⟨name, p ++ rest.take 1 ++ m, t⟩ :: others)).out := by
  obtain ⟨p, hp, hk⟩ := k_values_and_one_byte_suffice prog src tbl sels name k data s1 sk vals rest h
  exact ⟨p, hp, fun m t others hf =>
    whole_run_passes_through prog src tbl sels name k _ s1 sk vals _ hbegin hk m t others hf⟩

/-- non-vacuity of both hypotheses together (program `{ print $ }`: no BEGIN rule, so the BEGIN
    phase continues; then `1 2`, k = 1 as before), and two whole runs that agree on `1 ` only:
    `1 2` ends normally after writing `1\n2\n`, `1 ]` ends with a JSON error after writing `1\n` -/
example : (match parseProgramSrc expectedRuleTable b!"{ print $ }" with
  | .ok prog =>
    (match evalSpecialRules prog (newCell (.nil none)) (rulesOf prog .begin_) (newEvaluator prog Heap.empty [] 0) with
     | .ok .continue_ s1 =>
       (match processK prog b!"{ print $ }" expectedRuleTable [] b!"f" 1 b!"1 2" s1 with
        | some (_, sk, rest) => sk.output == b!"1\n" && rest == b!" 2"
        | none => false)
     | _ => false)
  | _ => false) = true := by decide +kernel
example : (match evalProgram expectedRuleTable b!"{ print $ }" [] [⟨b!"f", b!"1 2", .eof⟩],
      evalProgram expectedRuleTable b!"{ print $ }" [] [⟨b!"f", b!"1 ]", .eof⟩] with
    | ⟨.ok, o1, _⟩, ⟨.jsonErr n, o2, _⟩ => o1 == b!"1\n2\n" && o2 == b!"1\n" && n == b!"f"
    | _, _ => false) = true := by decide +kernel

end OneByte

end Jqawk.C03
