/-
  C03 — input is a JSON value stream: incremental, chunking-independent, faults reported.
  * The decoder model (`Json.decodeOne`, a byte-exact port of encoding/json's Decoder.Decode,
    differentially tested) is prefix-stable: once the bytes read so far determine a value, no
    later byte and no chunking can change it (`Lemmas/JsonPrefix.lean`).  That the value's own
    bytes and at most ONE following byte suffice is shown on examples only (no theorem).
  * The driver processes each value completely before looking at the rest of the stream, stops
    at the first fault with a JSON error naming the file without running any rule on the partial
    value, and ends a file normally ONLY when the decoder reported a clean end of input.
-/
import Jqawk.Model.Driver
import Jqawk.Lemmas.JsonPrefix
import Jqawk.Lemmas.StreamPrefix

namespace Jqawk.C03
open Jqawk

/-- chunking independence / incrementality: if the bytes delivered so far (`pre`, with more
    possibly to come) already yield a value, then whatever arrives later (`more`) and however the
    stream ends, the decoder yields the same value and leaves exactly the later bytes unread -/
theorem value_determined_by_prefix (numOk : Bytes → Bool) (pre more : Bytes) (v : JVal) (rest : Bytes)
    (t : Json.Tail) (h : Json.decodeOne numOk pre .more = .value v rest) :
    Json.decodeOne numOk (pre ++ more) t = .value v (rest ++ more) :=
  Json.decodeOne_prefix_value more t h

/-- non-vacuity: `[1]` is a value as soon as its closing bracket is read; a number needs one
    following byte (`12` alone could still grow) -/
example : (match Json.decodeOne numOk b!"[1] {" .more with
    | .value (.arr [.num n]) rest => n == b!"1" && rest == b!" {"
    | _ => false) = true := by decide +kernel
example : (match Json.decodeOne numOk b!"12" .more, Json.decodeOne numOk b!"12 " .more with
    | .needMore, .value (.num n) rest => n == b!"12" && rest == b!" "
    | _, _ => false) = true := by decide +kernel

/-- likewise a fault inside the bytes read so far is a fault whatever follows -/
theorem fault_determined_by_prefix (numOk : Bytes → Bool) (pre more : Bytes) (t : Json.Tail)
    (h : Json.decodeOne numOk pre .more = .error) :
    Json.decodeOne numOk (pre ++ more) t = .error :=
  Json.decodeOne_prefix_error more t h

example : (match Json.decodeOne numOk b!"[1 }" .more with | .error => true | _ => false) = true := by
  decide +kernel

/-- how a byte stream decodes: the values in order and how it ends -/
inductive StreamEnd | clean | fault | fuel
  deriving DecidableEq, Repr

def decodeAll (numOk : Bytes → Bool) (tail : Json.Tail) : Nat → Bytes → List JVal × StreamEnd
  | 0, _ => ([], .fuel)
  | n + 1, data =>
    match Json.decodeOne numOk data tail with
    | .eof => ([], .clean)
    | .error | .needMore => ([], .fault)
    | .value v rest =>
      let r := decodeAll numOk tail n rest
      (v :: r.1, r.2)

variable (prog : Program)

/-- **never silently treated as end of input**: a file's processing ends normally only if the
    decoder reported a clean end of the stream after the last value -/
theorem never_silent (src : Bytes) (tbl : RuleTable) (sels : List Bytes) (file : InputFile) :
    ∀ (fuel : Nat) (data : Bytes) (s s' : St),
      processFile prog src tbl sels file fuel data s = .done s' →
      (decodeAll numOk file.tail fuel data).2 = .clean := by
  intro fuel
  induction fuel with
  | zero => intro data s s' h; cases h
  | succ fuel ih =>
    intro data s s' h
    unfold processFile at h
    unfold decodeAll
    split at h
    · rename_i hd; simp [hd]
    · cases h
    · cases h
    · rename_i v rest hd
      simp only [hd]
      dsimp only at h
      split at h
      · cases h
      · cases h
      · split at h
        · cases h
        · cases h
        · split at h
          · cases h
          · exact ih _ _ _ h
          · cases h
          · cases h

/-- a fault (malformed, truncated or unreadable value, stray text) at the front of the unread
    input is reported as a JSON error naming the file, and NO rule runs: the state is untouched -/
theorem fault_reported_no_rule (src : Bytes) (tbl : RuleTable) (sels : List Bytes) (file : InputFile)
    (fuel : Nat) (data : Bytes) (s : St)
    (h : Json.decodeOne numOk data file.tail = .error ∨ Json.decodeOne numOk data file.tail = .needMore) :
    processFile prog src tbl sels file (fuel + 1) data s = .finished (.jsonErr file.name) s := by
  unfold processFile
  rcases h with h | h <;> simp [h]

/-- non-vacuity: stray text and a truncated value at the end of the stream are `.error`, an
    incomplete value with bytes still to come is `.needMore` -/
example : (match Json.decodeOne numOk b!" ] [2]" .eof, Json.decodeOne numOk b!"[1, " .eof,
      Json.decodeOne numOk b!"[1, " .ioerr, Json.decodeOne numOk b!"[1, " .more with
    | .error, .error, .error, .needMore => true
    | _, _, _, _ => false) = true := by decide +kernel

/-- a JSON error names the file being read — proved here only for runs WITHOUT root selectors
    (`sels = []`) -/
theorem json_error_names_file (src : Bytes) (tbl : RuleTable) (sels : List Bytes) (file : InputFile)
    (hsel : sels = []) :
    ∀ (fuel : Nat) (data : Bytes) (s s' : St) (name : Bytes),
      processFile prog src tbl sels file fuel data s = .finished (.jsonErr name) s' →
      name = file.name := by
  intro fuel
  induction fuel with
  | zero => intro data s s' name h; cases h
  | succ fuel ih =>
    intro data s s' name h
    unfold processFile at h
    split at h
    · cases h
    · simp only [StepRes.finished.injEq, Outcome.jsonErr.injEq] at h; exact h.1.symm
    · simp only [StepRes.finished.injEq, Outcome.jsonErr.injEq] at h; exact h.1.symm
    · dsimp only at h
      split at h
      · rename_i e _ _
        simp only [StepRes.finished.injEq] at h
        cases e <;> simp [errOutcome] at h
      · cases h
      · subst hsel
        simp only [List.isEmpty_nil, ↓reduceIte] at h
        split at h
        · rename_i o s2 hroots
          split at hroots
          · cases hroots
          · rename_i e _ _
            simp only [Roots.stop.injEq] at hroots
            simp only [StepRes.finished.injEq] at h
            rw [h.1] at hroots
            cases e <;> simp [errOutcome] at hroots
          · simp only [Roots.stop.injEq] at hroots
            simp only [StepRes.finished.injEq] at h
            rw [h.1] at hroots
            cases hroots.1
        · cases h
        · split at h
          · cases h
          · exact ih _ _ _ _ h
          · rename_i e _ _
            simp only [StepRes.finished.injEq] at h
            cases e <;> simp [errOutcome] at h
          · cases h

/-- a clean end of the stream ends the file normally, with nothing more processed -/
theorem clean_end (src : Bytes) (tbl : RuleTable) (sels : List Bytes) (file : InputFile)
    (fuel : Nat) (data : Bytes) (s : St) (h : Json.decodeOne numOk data file.tail = .eof) :
    processFile prog src tbl sels file (fuel + 1) data s = .done s := by
  unfold processFile; simp [h]

/-- non-vacuity of `clean_end` (and, through it, of the hypothesis `… = .done s'` of
    `never_silent`): only white space left at a clean end of the stream -/
example : (match Json.decodeOne numOk b!" \n" .eof with | .eof => true | _ => false) = true := by
  decide +kernel

/-- non-vacuity: `[1] ] [2]` — one value, then a fault (never a silent end) -/
example : (decodeAll (fun _ => true) .eof 10 b!"[1] ] [2]").2 = .fault := by decide +kernel
example : (decodeAll (fun _ => true) .eof 10 b!"[1] [2] ").2 = .clean := by decide +kernel

/-- **A stream is processed value by value; for any prefix the output is the output of the
    complete values in that prefix.**  Take any split `pre ++ more` of a file's bytes (however
    the stream ends: clean EOF or a read error).  Process `pre` alone as a stream that may still
    deliver bytes, and process the whole file, from the same state:
    * if the prefix already ends the run (`exit`, a runtime error, …) the whole file ends the run
      in the very same state — no later byte is ever looked at;
    * otherwise (the prefix is used up: the decoder wants more bytes, or found a fault) the
      output of the whole file EXTENDS the output written for the complete values of the prefix
      (`OutExt`: nothing of it is lost or reordered; only the output is compared, not the rest
      of the state);
    * if the evaluator runs out of fuel on the prefix, nothing is claimed (`PrefixRel`).
    No hypothesis on the program, the selectors, the bytes or the state. -/
theorem prefix_processed_first (src : Bytes) (tbl : RuleTable) (sels : List Bytes) (name pre more : Bytes)
    (t : Json.Tail) (s : St) :
    PrefixRel
      (processFile prog src tbl sels ⟨name, pre, .more⟩ (pre.length + 2) pre s)
      (processFile prog src tbl sels ⟨name, pre ++ more, t⟩ ((pre ++ more).length + 2) (pre ++ more) s) :=
  processFile_prefix prog src tbl sels ⟨name, pre, .more⟩ ⟨name, pre ++ more, t⟩ rfl rfl more _ pre s _
    (by simp)

/-- the same for the decoded values alone: the values of a prefix are an initial segment of the
    values of the whole stream -/
theorem prefix_values (numOk : Bytes → Bool) (more : Bytes) (t : Json.Tail) :
    ∀ (n : Nat) (pre : Bytes) (m : Nat), n ≤ m → (decodeAll numOk .more n pre).2 ≠ .fuel →
      (decodeAll numOk .more n pre).1 <+: (decodeAll numOk t m (pre ++ more)).1 := by
  intro n
  induction n with
  | zero => intro pre m _ h; simp [decodeAll] at h
  | succ n ih =>
    intro pre m hm hf
    obtain ⟨m', rfl⟩ : ∃ m', m = m' + 1 := ⟨m - 1, by omega⟩
    unfold decodeAll at hf ⊢
    cases hd : Json.decodeOne numOk pre .more with
    | eof => simp
    | error => simp
    | needMore => simp
    | value v rest =>
      rw [Json.decodeOne_prefix_value more t hd]
      rw [hd] at hf
      simp only [List.cons_prefix_cons, true_and]
      exact ih rest m' (by omega) hf

example : (decodeAll (fun _ => true) .more 10 b!"[1] {\"a\":2} [3").1.length = 2 := by decide +kernel
/-- … and the hypothesis `≠ .fuel` of `prefix_values` holds there -/
example : (decodeAll (fun _ => true) .more 10 b!"[1] {\"a\":2} [3").2 = .fault := by decide +kernel

end Jqawk.C03
