/-
  C06 — Precedence and associativity: an expression means its fully parenthesised form.

  All theorems are about the Pratt parser of the model (`Parser.parseExpression`, driven by
  `expectedRuleTable`) run on token LISTS (`parseToks`, Lemmas/PrattSrc.lean): the token source
  answers `next` with the head of the list and an EOF token when it is empty.  The step from
  program text to tokens is the lexer's (C13) and is not part of these statements.

  1. `table_ok`, `table_matches_spec`: the rule table has the documented levels.
  2. `pairs`, `triples`, `is_pairs`, `assign_*`: the explicit finite clause of the property
     ("every ordered pair and triple of binary operators"), by complete enumeration.
  3. `parse_render`, `parse_render_full`, `parse_render_redundant`, `minimal_means_full`,
     `parse_render_anypos`: the any-depth statement for the expression grammar `Grammar.PE`.
  4. `left_assoc`, `pairs_exact`, `right_assoc_assign`, `parens_pairs_*`: associativity and the
     overriding effect of parentheses as explicit corollaries.
-/
import Jqawk.Spec.Grammar
import Jqawk.Lemmas.PrattFinite
import Jqawk.Lemmas.PrattTriplesA
import Jqawk.Lemmas.PrattTriplesB
import Jqawk.Lemmas.PrattTriplesC
import Jqawk.Lemmas.PrattMain
import Jqawk.Lemmas.PrattPos

namespace Jqawk.C06
open Jqawk Jqawk.Grammar

/-! ### 1. the rule table -/

/-- The documented precedence table (DESIGN §3.8, levels numbered as the parser's `Precedence`
    constants: 1 assignment … 5 `* / %`, 6 postfix, 7 prefix operand, 8 member/index, 9 call). -/
structure TableOK (tbl : RuleTable) : Prop where
  /-- `* / %`: level 5, binary -/
  level5 : ∀ t ∈ [Tag.multiply, .divide, .percent],
    (lookupRule tbl t).prec = 5 ∧ (lookupRule tbl t).inf = some .binary
  /-- `+ -`: level 4, binary -/
  level4 : ∀ t ∈ [Tag.plus, .minus],
    (lookupRule tbl t).prec = 4 ∧ (lookupRule tbl t).inf = some .binary
  /-- `== != < <= > >= ~ !~`: level 3, binary -/
  level3 : ∀ t ∈ [Tag.equalEqual, .bangEqual, .lessThan, .lessEqual, .greaterThan, .greaterEqual,
      .tilde, .bangTilde],
    (lookupRule tbl t).prec = 3 ∧ (lookupRule tbl t).inf = some .binary
  /-- `is`: level 3, with its own infix parser (the right operand is a type name) -/
  levelIs : (lookupRule tbl .is).prec = 3 ∧ (lookupRule tbl .is).inf = some .is
  /-- `&& ||`: one level, 2, binary -/
  level2 : ∀ t ∈ [Tag.ampAmp, .pipePipe],
    (lookupRule tbl t).prec = 2 ∧ (lookupRule tbl t).inf = some .binary
  /-- `= += -= *= /=`: level 1, infix kind `assign` (right operand parsed at the same level) -/
  level1 : ∀ t ∈ assignOps,
    (lookupRule tbl t).prec = 1 ∧ (lookupRule tbl t).inf = some .assign
  /-- call `(`: level 9; `(` in prefix position is grouping -/
  call : (lookupRule tbl .lparen).prec = 9 ∧ (lookupRule tbl .lparen).inf = some .call ∧
    (lookupRule tbl .lparen).pre = some .group
  /-- member `.`: level 8 -/
  member : (lookupRule tbl .dot).prec = 8 ∧ (lookupRule tbl .dot).inf = some .member
  /-- index `[`: level 8 -/
  index : (lookupRule tbl .lsquare).prec = 8 ∧ (lookupRule tbl .lsquare).inf = some .computedMember
  /-- prefix `! - + ++ --` use the prefix parser `unary`, which parses its operand at
      `Prec.unary` -/
  prefixOps : ∀ t ∈ [Tag.bang, .minus, .plus, .plusPlus, .minusMinus],
    (lookupRule tbl t).pre = some .unary
  unaryLevel : Prec.unary = 7
  /-- postfix `++ --`: level 6 -/
  postfixOps : ∀ t ∈ [Tag.plusPlus, .minusMinus],
    (lookupRule tbl t).prec = 6 ∧ (lookupRule tbl t).inf = some .postfixOp
  /-- the tokens with infix kind `binary` are exactly the 15 binary operators -/
  binaryOnly : ∀ t, (lookupRule tbl t).inf = some .binary ↔ t ∈ ops
  /-- no other token has a positive precedence — except `!`, which carries 7 with no infix parser
      (so `a ! b` is the error "unknown operator" instead of ending the expression at `a`) -/
  noOther : ∀ t, 0 < (lookupRule tbl t).prec →
    t ∈ ops ∨ t ∈ assignOps ∨ t ∈ [Tag.is, .lparen, .dot, .lsquare, .plusPlus, .minusMinus] ∨
      (t = .bang ∧ (lookupRule tbl t).inf = none)

/-- C06 (table): the parser's rule table has the documented levels. -/
theorem table_ok : TableOK expectedRuleTable where
  level5 := by decide
  level4 := by decide
  level3 := by decide
  levelIs := by decide
  level2 := by decide
  level1 := by decide
  call := by decide
  member := by decide
  index := by decide
  prefixOps := by decide
  unaryLevel := rfl
  postfixOps := by decide
  binaryOnly := forall_tag (by decide)
  noOther := forall_tag (by decide)

/-- C06 (table): the levels used by the specification `Spec/Grammar.lean` are those of the table,
    and the operators of the specification are the 15 binary operators of the table. -/
theorem table_matches_spec :
    (∀ o : BinOp, (lookupRule expectedRuleTable o.tag).prec = o.level ∧
      (lookupRule expectedRuleTable o.tag).inf = some .binary) ∧
    BinOp.all.map BinOp.tag = ops ∧
    (∀ o : AsgOp, (lookupRule expectedRuleTable o.tag).prec = 1 ∧
      (lookupRule expectedRuleTable o.tag).inf = some .assign) ∧
    (∀ o : UnOp, (lookupRule expectedRuleTable o.tag).pre = some .unary) ∧
    (∀ o : IncOp, (lookupRule expectedRuleTable o.tag).prec = 6 ∧
      (lookupRule expectedRuleTable o.tag).inf = some .postfixOp ∧
      (lookupRule expectedRuleTable o.tag).pre = some .unary) := by
  refine ⟨fun o => by cases o <;> decide, by decide, fun o => by cases o <;> decide,
    fun o => by cases o <;> decide, fun o => by cases o <;> decide⟩

/-! ### 2. every ordered pair and triple of binary operators (finite clause)

Atoms `a b c d` are the distinct identifier tokens `ta tb tc td` (positions 0 2 4 6); operator
tokens carry positions 1 3 5, so that two occurrences of the same operator are told apart.
Parse results are compared through the S-expression dump (`Expr` has no decidable equality);
the dump is injective on the trees involved (it prints tags, positions and texts). -/

/-- C06 (pairs): for all 225 ordered pairs of binary operators, `a o₁ b o₂ c` parses to the
    documented grouping: `(a o₁ b) o₂ c` if `o₁` binds at least as tightly as `o₂` (equal levels
    group left to right), else `a o₁ (b o₂ c)`. -/
theorem pairs : ∀ o₁ ∈ ops, ∀ o₂ ∈ ops,
    parseDump [ta, op o₁ 1, tb, op o₂ 3, tc]
      = some (dumpExpr (group2 ea eb ec (op o₁ 1) (op o₂ 3))) := by
  decide +kernel

/-- C06 (triples): for all 3375 ordered triples of binary operators, `a o₁ b o₂ c o₃ d` parses
    to the documented grouping `group3` (root = rightmost operator of the lowest level,
    recursively).  Enumerated per first operator in Lemmas/PrattTriples{A,B,C}.lean. -/
theorem triples : ∀ o₁ ∈ ops, ∀ o₂ ∈ ops, ∀ o₃ ∈ ops,
    parseDump [ta, op o₁ 1, tb, op o₂ 3, tc, op o₃ 5, td]
      = some (dumpExpr (group3 (op o₁ 1) (op o₂ 3) (op o₃ 5))) := by
  intro o₁ h₁
  simp only [ops, List.mem_cons, List.mem_nil_iff, or_false] at h₁
  rcases h₁ with rfl | rfl | rfl | rfl | rfl | rfl | rfl | rfl | rfl | rfl | rfl | rfl | rfl | rfl | rfl
  · exact triples_multiply
  · exact triples_divide
  · exact triples_percent
  · exact triples_plus
  · exact triples_minus
  · exact triples_equalEqual
  · exact triples_bangEqual
  · exact triples_lessThan
  · exact triples_lessEqual
  · exact triples_greaterThan
  · exact triples_greaterEqual
  · exact triples_tilde
  · exact triples_bangTilde
  · exact triples_ampAmp
  · exact triples_pipePipe

/-- the reference grouping is what the documentation says on the standard examples:
    `a + b * c` is `a + (b * c)`, `a * b + c` is `(a * b) + c`, `a - b - c` is `(a - b) - c`,
    `a || b && c` is `(a || b) && c` (one level), `a < b == c` is `(a < b) == c` -/
example : group2 ea eb ec (op .plus 1) (op .multiply 3) = bin (op .plus 1) ea (bin (op .multiply 3) eb ec)
    ∧ group2 ea eb ec (op .multiply 1) (op .plus 3) = bin (op .plus 3) (bin (op .multiply 1) ea eb) ec
    ∧ group2 ea eb ec (op .minus 1) (op .minus 3) = bin (op .minus 3) (bin (op .minus 1) ea eb) ec
    ∧ group2 ea eb ec (op .pipePipe 1) (op .ampAmp 3) = bin (op .ampAmp 3) (bin (op .pipePipe 1) ea eb) ec
    ∧ group2 ea eb ec (op .lessThan 1) (op .equalEqual 3) = bin (op .equalEqual 3) (bin (op .lessThan 1) ea eb) ec
    ∧ group3 (op .plus 1) (op .multiply 3) (op .minus 5)
        = bin (op .minus 5) (bin (op .plus 1) ea (bin (op .multiply 3) eb ec)) ed := by
  refine ⟨rfl, rfl, rfl, rfl, rfl, rfl⟩

/-- a type name for the right side of `is` -/
def tT : Token := idTok b!"number" 4

/-- C06 (`is`): `is` sits at the comparison level.  `a o b is T` is `(a o b) is T` when `o` binds
    at least as tightly as a comparison, else `a o (b is T)`; `a is T o c` is `(a is T) o c`
    for every binary operator (the right side of `is` is a single token). -/
theorem is_pairs : ∀ o ∈ ops,
    parseDump [ta, op o 1, tb, op .is 3, tT]
      = some (dumpExpr (if prec o ≥ 3 then bin (op .is 3) (bin (op o 1) ea eb) (.ident tT)
                         else bin (op o 1) ea (bin (op .is 3) eb (.ident tT))))
    ∧ parseDump [ta, op .is 1, idTok b!"number" 2, op o 3, tc]
      = some (dumpExpr (bin (op o 3) (bin (op .is 1) ea (.ident (idTok b!"number" 2))) ec)) := by
  decide +kernel

/-- `a op= b` as the parser rewrites it: `a = a op b` (both new operator tokens take the position
    of `op=`) -/
def compound (x y : Expr) (asg : Token) : Expr :=
  match asg.tag with
  | .plusEqual => bin ⟨.equal, asg.pos, []⟩ x (bin ⟨.plus, asg.pos, []⟩ x y)
  | .minusEqual => bin ⟨.equal, asg.pos, []⟩ x (bin ⟨.minus, asg.pos, []⟩ x y)
  | .multiplyEqual => bin ⟨.equal, asg.pos, []⟩ x (bin ⟨.multiply, asg.pos, []⟩ x y)
  | .divideEqual => bin ⟨.equal, asg.pos, []⟩ x (bin ⟨.divide, asg.pos, []⟩ x y)
  | _ => bin asg x y

/-- C06 (assignment groups right to left): for all 25 ordered pairs of assignment operators,
    `a op₁ b op₂ c` is `a op₁ (b op₂ c)` (compound operators rewritten to `x = x op y`). -/
theorem assign_pairs : ∀ o₁ ∈ assignOps, ∀ o₂ ∈ assignOps,
    parseDump [ta, op o₁ 1, tb, op o₂ 3, tc]
      = some (dumpExpr (compound ea (compound eb ec (op o₂ 3)) (op o₁ 1))) := by
  decide +kernel

/-- C06 (assignment binds loosest): for every assignment operator and every binary operator,
    `a op= b o c` is `a op= (b o c)`, and `a o b op= c` is a syntax error (the left side
    `a o b` is not assignable) — it is NOT `a o (b op= c)`. -/
theorem assign_binary : ∀ asg ∈ assignOps, ∀ o ∈ ops,
    parseDump [ta, op asg 1, tb, op o 3, tc]
      = some (dumpExpr (compound ea (bin (op o 3) eb ec) (op asg 1)))
    ∧ (parseToks [ta, op o 1, tb, op asg 3, tc]).isSyntaxErr = true := by
  decide +kernel

/-- the instances named in the property brief: `a = b = c`, `a = b + c`, `a += b * c`, and
    `a + b = c` (a syntax error) -/
theorem assign_examples :
    parseDump [ta, op .equal 1, tb, op .equal 3, tc]
      = some (dumpExpr (bin (op .equal 1) ea (bin (op .equal 3) eb ec)))
    ∧ parseDump [ta, op .equal 1, tb, op .plus 3, tc]
      = some (dumpExpr (bin (op .equal 1) ea (bin (op .plus 3) eb ec)))
    ∧ parseDump [ta, op .plusEqual 1, tb, op .multiply 3, tc]
      = some (dumpExpr (bin ⟨.equal, 1, []⟩ ea (bin ⟨.plus, 1, []⟩ ea (bin (op .multiply 3) eb ec))))
    ∧ (parseToks [ta, op .plus 1, tb, op .equal 3, tc]).isSyntaxErr = true := by
  decide +kernel

/-! ### 3. any depth -/

/-
  The full statement (property C06, QUANTIFIER "all expressions built from the binary and unary
  operators, literals, variables, member/index/call suffixes and parentheses, to any depth"):

    ∀ e : PE, e.wf → parseToks (renderMin 1 e) = .ok (toExpr e) ∧
                      parseToks (renderFull e) = .ok (toExpr e)

  where `PE` (Spec/Grammar.lean) has: identifiers, `$`, number / string / `true false null`
  literals, array literals `[…]`, object literals `{k: v, …}`, the 15 binary operators, prefix
  `! - +`, prefix and postfix `++ --`, `e is T`, member `e.name`, index `e[i]`, call `f(args…)`
  with any number of arguments, and assignment `= += -= *= /=`; parentheses exist only in
  renderings.  This is proved below for ALL of `PE` (theorems `parse_render`,
  `parse_render_full`; `parse_render_redundant` for any set of redundant parentheses).

  NOT in `PE`, hence not covered: regex literals `/re/` (they need the lexer's regex mode, which a
  token-list source does not have) and `match` expressions (their cases contain statements).
  Neither is an operator form; both are outside the list of the property's quantifier.
-/

/-- C06 (any depth, minimal parentheses): for every well-formed expression `e` (targets of
    assignment and `++`/`--` are identifiers, `$`, member or index expressions), the parser maps the
    rendering of `e` with parentheses only where DESIGN §3.8 requires them — a construct of
    level `l` in a position of level `q > l`: the left operand position of a binary operator
    has the operator's level, the right operand position one more (left associativity), a
    prefix operand position has level 7, the target of call/member/index/postfix level 8, the
    right side of an assignment level 1 (right associativity), arguments and indices level 1
    — to exactly the tree `toExpr e`.  Never out of fuel, never an error. -/
theorem parse_render (e : PE) (hwf : e.wf = true) :
    parseToks (renderMin 1 e) = .ok (toExpr e) :=
  Pratt.parseToks_render e hwf _ 1 (Nat.le_refl 1)

/-- … and in any context level `q ≥ 1` (the rendering gets outer parentheses iff `e.level < q`) -/
theorem parse_render_level (e : PE) (hwf : e.wf = true) (q : Nat) (hq : 1 ≤ q) :
    parseToks (renderMin q e) = .ok (toExpr e) :=
  Pratt.parseToks_render e hwf _ q hq

/-- C06 (any depth, full parentheses): the rendering with every compound subexpression in
    parentheses parses to the same tree (parentheses leave no trace in the AST and override
    every level). -/
theorem parse_render_full (e : PE) (hwf : e.wf = true) :
    parseToks (renderFull e) = .ok (toExpr e) :=
  Pratt.parseToks_render e hwf _ topLevel (by decide)

/-- C06 (redundant parentheses are harmless): whichever set `pol` of subexpressions is written
    with parentheses that are not needed, the parse is the same tree.  (`renderMin` is the empty
    set, `renderFull` the set of all subexpressions.) -/
theorem parse_render_redundant (e : PE) (hwf : e.wf = true) (pol : PE → Bool) (q : Nat)
    (hq : 1 ≤ q) : parseToks (render pol q e) = .ok (toExpr e) :=
  Pratt.parseToks_render e hwf pol q hq

/-- C06: an expression written without redundant parentheses parses to the same AST as its
    fully parenthesised form (so it evaluates identically: evaluation is a function of the AST). -/
theorem minimal_means_full (e : PE) (hwf : e.wf = true) :
    parseToks (renderMin 1 e) = parseToks (renderFull e) := by
  rw [parse_render e hwf, parse_render_full e hwf]

/-- C06, for tokens at arbitrary positions: a token list that agrees with a rendering of `e`
    (minimal, full, or with any redundant parentheses) up to token positions parses — never out
    of fuel, never an error — to a tree equal to `toExpr e` up to token positions. -/
theorem parse_render_anypos (e : PE) (hwf : e.wf = true) (pol : PE → Bool) (q : Nat) (hq : 1 ≤ q)
    (ts : List Token) (hts : ts.map Token.erase = render pol q e) :
    ∃ e', parseToks ts = .ok e' ∧ e'.erase = toExpr e := by
  have h : erase ts = erase (render pol q e) := by
    show ts.map Token.erase = (render pol q e).map Token.erase
    rw [← hts, List.map_map]
    exact List.map_congr_left fun t _ => (Token.erase_erase t).symm
  obtain ⟨e', h1, h2⟩ := parseToks_ok_of_erase ts _ _ h (Pratt.parseToks_render e hwf pol q hq)
  exact ⟨e', h1, by rw [h2, toExpr_erase]⟩

/-- non-vacuity of the well-formedness hypothesis, and a concrete instance:
    `a = b.c[1](x, -y, [{k: u + v}]) * 2 - (3 - 4)` — the only grouping parentheses the minimal
    rendering keeps are those of the right operand of `-`; the full rendering has nine pairs. -/
def sample : PE :=
  .assign .set (.ident b!"a")
    (.bin .sub
      (.bin .mul
        (.call (.index (.member (.ident b!"b") b!"c") (.lit (.num b!"1")))
          [.ident b!"x", .un .neg (.ident b!"y"),
           .arr [.obj [(.name b!"k", .bin .add (.ident b!"u") (.ident b!"v"))]]])
        (.lit (.num b!"2")))
      (.bin .sub (.lit (.num b!"3")) (.lit (.num b!"4"))))

example : sample.wf = true := by decide
example : (renderMin 1 sample).length = 32 ∧ (renderFull sample).length = 48 := by decide
example : (parseToks (renderMin 1 sample)).dump = some (dumpExpr (toExpr sample)) := by decide +kernel

/-- non-vacuity of the hypothesis `hts` of `parse_render_anypos`: the tokens of the minimal
    rendering moved to other positions still agree with it up to positions -/
example : ((renderMin 1 sample).map fun t => ({ t with pos := t.pos + 5 } : Token)).map Token.erase
    = render (fun _ => false) 1 sample := by decide +kernel

/-- the same instance from program TEXT, through the real lexer (positions erased): the minimal
    and the fully parenthesised spelling give the tree `toExpr sample` -/
def dumpSrc (src : Bytes) : Option Bytes :=
  match parseExpressionSrc expectedRuleTable src with
  | .ok e => some (dumpExpr e.erase)
  | _ => none

example :
    dumpSrc b!"a = b.c[1](x, -y, [{k: u + v}]) * 2 - (3 - 4)"
      = some (dumpExpr (toExpr sample))
    ∧ dumpSrc b!"(a = (((((b.c)[1])(x, (-y), [{k: (u + v)}])) * 2) - (3 - 4)))"
      = some (dumpExpr (toExpr sample)) := by
  decide +kernel

/-- DESIGN §3.8 "postfix binds looser than a prefix operator: `-x++` is `(-x)++`" — which is
    rejected (`-x` is not an increment target); `-(x++)` needs its parentheses. -/
example : (parseToks [opTok .minus, identTok b!"x", opTok .plusPlus]).isSyntaxErr = true
    ∧ renderMin 1 (.un .neg (.postfix .inc (.ident b!"x")))
      = [opTok .minus, opTok .lparen, identTok b!"x", opTok .plusPlus, opTok .rparen] := by
  decide +kernel

/-! ### 4. associativity, as explicit corollaries -/

/-- C06 (binary operators of equal precedence group left to right, any operands): for operators
    `o₁ o₂` of the same level, the token sequence `x o₁ y o₂ z` — `x` rendered for the left operand
    position, `y` and `z` for right operand positions — parses to `(x o₁ y) o₂ z`. -/
theorem left_assoc (o₁ o₂ : BinOp) (h : o₁.level = o₂.level) (x y z : PE)
    (hx : x.wf = true) (hy : y.wf = true) (hz : z.wf = true) :
    parseToks (renderMin o₁.level x ++ [opTok o₁.tag] ++ renderMin (o₁.level + 1) y
        ++ [opTok o₂.tag] ++ renderMin (o₂.level + 1) z)
      = .ok (toExpr (.bin o₂ (.bin o₁ x y) z)) := by
  have hr : renderMin 1 (.bin o₂ (.bin o₁ x y) z)
      = renderMin o₁.level x ++ [opTok o₁.tag] ++ renderMin (o₁.level + 1) y
        ++ [opTok o₂.tag] ++ renderMin (o₂.level + 1) z := by
    have h1 := (Pratt.BinOp.level_range o₂).1
    rw [Pratt.renderMin_bin, Pratt.renderMin_bin, Pratt.wrapAt_ge _ _ _ (by omega),
      Pratt.wrapAt_ge _ _ _ (by omega), h]
  rw [← hr]
  exact parse_render _ (by simp [PE.wf, hx, hy, hz])

/-- (hypothesis `h` of `left_assoc`: e.g. `+` and `-` share a level; `left_assoc_atoms` below is
    the instance `o₁ = o₂`) -/
example : BinOp.add.level = BinOp.sub.level := by decide

/-- C06 (left to right), the plain instance: `a o b o c` is `(a o b) o c` for every binary
    operator `o` -/
theorem left_assoc_atoms (o : BinOp) (a b c : Bytes) :
    parseToks [identTok a, opTok o.tag, identTok b, opTok o.tag, identTok c]
      = .ok (.binary (.binary (.ident (identTok a)) (.ident (identTok b)) (opTok o.tag))
          (.ident (identTok c)) (opTok o.tag)) := by
  have := left_assoc o o rfl (.ident a) (.ident b) (.ident c) rfl rfl rfl
  have h2 := (Pratt.BinOp.level_range o).2
  rw [Pratt.renderMin_ident _ _ (by omega), Pratt.renderMin_ident _ _ (by omega),
    Pratt.renderMin_ident _ _ (by omega)] at this
  simpa [toExpr] using this

/-- C06 (pairs, as exact trees rather than dumps; tokens at position 0): for ALL binary operators
    `o₁ o₂` and identifiers, `a o₁ b o₂ c` is `(a o₁ b) o₂ c` if `o₁`'s documented level is at
    least `o₂`'s, else `a o₁ (b o₂ c)` — derived from `parse_render`, not by enumeration. -/
theorem pairs_exact (o₁ o₂ : BinOp) (a b c : Bytes) :
    parseToks [identTok a, opTok o₁.tag, identTok b, opTok o₂.tag, identTok c]
      = .ok (if o₁.level ≥ o₂.level then
          .binary (.binary (.ident (identTok a)) (.ident (identTok b)) (opTok o₁.tag))
            (.ident (identTok c)) (opTok o₂.tag)
        else
          .binary (.ident (identTok a))
            (.binary (.ident (identTok b)) (.ident (identTok c)) (opTok o₂.tag)) (opTok o₁.tag)) := by
  have r1 := Pratt.BinOp.level_range o₁
  have r2 := Pratt.BinOp.level_range o₂
  split
  · have := parse_render (.bin o₂ (.bin o₁ (.ident a) (.ident b)) (.ident c)) rfl
    rw [Pratt.renderMin_bin, Pratt.renderMin_bin, Pratt.wrapAt_ge _ _ _ (by omega),
      Pratt.wrapAt_ge _ _ _ (by omega), Pratt.renderMin_ident _ _ (by omega),
      Pratt.renderMin_ident _ _ (by omega), Pratt.renderMin_ident _ _ (by omega)] at this
    simpa [toExpr] using this
  · have := parse_render (.bin o₁ (.ident a) (.bin o₂ (.ident b) (.ident c))) rfl
    rw [Pratt.renderMin_bin, Pratt.renderMin_bin, Pratt.wrapAt_ge _ _ _ (by omega),
      Pratt.wrapAt_ge _ _ _ (by omega), Pratt.renderMin_ident _ _ (by omega),
      Pratt.renderMin_ident _ _ (by omega), Pratt.renderMin_ident _ _ (by omega)] at this
    simpa [toExpr] using this

/-- C06 (assignment groups right to left, any operands): `t₁ op₁ t₂ op₂ v` parses to
    `t₁ op₁ (t₂ op₂ v)` for all assignment operators and targets. -/
theorem right_assoc_assign (a₁ a₂ : AsgOp) (t₁ t₂ v : PE)
    (h₁ : t₁.isTarget = true) (h₂ : t₂.isTarget = true)
    (hw₁ : t₁.wf = true) (hw₂ : t₂.wf = true) (hv : v.wf = true) :
    parseToks (renderMin 8 t₁ ++ [opTok a₁.tag] ++ renderMin 8 t₂ ++ [opTok a₂.tag]
        ++ renderMin 1 v)
      = .ok (toExpr (.assign a₁ t₁ (.assign a₂ t₂ v))) := by
  have hr : renderMin 1 (.assign a₁ t₁ (.assign a₂ t₂ v))
      = renderMin 8 t₁ ++ [opTok a₁.tag] ++ renderMin 8 t₂ ++ [opTok a₂.tag] ++ renderMin 1 v := by
    rw [Pratt.renderMin_assign, Pratt.renderMin_assign, Pratt.wrapAt_ge _ _ _ (by omega),
      Pratt.wrapAt_ge _ _ _ (by omega)]
    simp only [List.append_assoc]
  rw [← hr]
  exact parse_render _ (by simp [PE.wf, h₁, h₂, hw₁, hw₂, hv])

example : (PE.ident b!"a").isTarget = true ∧ (PE.member (.ident b!"a") b!"f").wf = true := by decide

/-- C06 (right to left), the plain instance: `a = b = c` is `a = (b = c)` -/
theorem right_assoc_assign_atoms (a b c : Bytes) :
    parseToks [identTok a, opTok .equal, identTok b, opTok .equal, identTok c]
      = .ok (.binary (.ident (identTok a))
          (.binary (.ident (identTok b)) (.ident (identTok c)) (opTok .equal)) (opTok .equal)) := by
  have := right_assoc_assign .set .set (.ident a) (.ident b) (.ident c) rfl rfl rfl rfl rfl
  rw [Pratt.renderMin_ident _ _ (by omega), Pratt.renderMin_ident _ _ (by omega),
    Pratt.renderMin_ident _ _ (by omega)] at this
  simpa [toExpr, AsgOp.tag, AsgOp.binTag] using this

/-- C06 (parentheses override everything), the pair table: for all 225 ordered pairs of binary
    operators, `a o₁ ( b o₂ c )` parses to the right-nested tree and `( a o₁ b ) o₂ c` to the
    left-nested one, whatever the levels.  (Any depth: `parse_render_full`,
    `parse_render_redundant`.) -/
theorem parens_pairs_right : ∀ o₁ ∈ ops, ∀ o₂ ∈ ops,
    parseDump [ta, op o₁ 1, op .lparen 1, tb, op o₂ 3, tc, op .rparen 5]
      = some (dumpExpr (bin (op o₁ 1) ea (bin (op o₂ 3) eb ec))) := by
  decide +kernel

/-- … and `( a o₁ b ) o₂ c` -/
theorem parens_pairs_left : ∀ o₁ ∈ ops, ∀ o₂ ∈ ops,
    parseDump [op .lparen 0, ta, op o₁ 1, tb, op .rparen 3, op o₂ 3, tc]
      = some (dumpExpr (bin (op o₂ 3) (bin (op o₁ 1) ea eb) ec)) := by
  decide +kernel

end Jqawk.C06
