/-
  C05 — operators compute the documented result for every combination of operand kinds.
  The code-shaped value-level functions (`binaryOp`, `Val.compare`, `Val.asNum`, `Val.truthy`)
  are proved equal to the tables of DESIGN.md section 3 (Spec/Ops.lean), for every BINARY
  operator and all operand values; the error conditions and the short-circuit behaviour are
  stated outright.
  The last two sections (added later) state that the evaluator applies these tables: `evalBinary`
  hands the values of its two operands to `binaryOp` (every operator tag is covered by exactly one
  of the evaluator-level theorems, `binary_tag_exhaustive`), and the unary operators (`!`, prefix
  `-` `+`, `++` `--`) with their value-level table and the evaluator-level statement.
-/
import Jqawk.Spec.Ops
import Jqawk.Lemmas.BlameSites
import Jqawk.Lemmas.ParserOps

namespace Jqawk.C05
open Jqawk

/-! ### coercions (§3.1) -/

theorem asNum_eq_spec (v : Val) : v.asNum = Spec.num v := by
  cases v <;> try rfl
  rename_i b; cases b <;> rfl

theorem str_eq_spec (v : Val) : v.str! = Spec.str v := by
  cases v <;> rfl

theorem truthy_eq_spec (v : Val) : v.truthy = Spec.truthy v := by
  cases v <;> try rfl
  rename_i s _; cases s <;> rfl

/-- falsy values are exactly: false, 0 (either sign), "", null, unset, regex -/
theorem falsy_iff (v : Val) :
    v.truthy = false ↔
      (v = .bool false ∨ (∃ x, v = .num x ∧ x.isZero = true) ∨ (∃ sp, v = .str [] sp) ∨
       v.kind = .nil ∨ v.kind = .unknown ∨ v.kind = .regex) := by
  cases v <;> simp [Val.truthy, Val.kind]

/-! ### comparison (§3.5) -/

theorem compare_eq_spec (a b : Val) :
    a.compare b = (match Spec.cmp a b with | some c => .ok c | none => .error "cannot compare") := by
  cases a <;> cases b <;>
    simp [Val.compare, Spec.cmp, Val.kind, ← asNum_eq_spec, Spec.str, Val.asNum] <;>
    rfl

/-! ### the binary operators on values -/

def toBinOut (_op : Tag) : Spec.Result → BinOut
  | .value v => .val v
  | .divideByZero => .err false "divide by zero"
  | .cannotCompare => .err false "cannot compare"
  | .notAPattern => .err true "a regex or a string must appear on the right hand side of ~"
  | .invalidPattern => .err true "invalid regex"
  | .unmodelled => .unmodelled "regex outside the modelled subset"

/-- §3.5: the six comparison operators -/
theorem binaryOp_compare (op : Tag) (h : isCompareOp op = true) (a b : Val) :
    binaryOp op a b = toBinOut op (Spec.compareOp op a b) := by
  simp only [binaryOp, h, ↓reduceIte, Spec.compareOp]
  split
  · rfl
  · rw [compare_eq_spec]
    cases hc : Spec.cmp a b with
    | none => rfl
    | some c =>
      simp only [toBinOut, isCompareOp] at *
      cases op <;> simp_all [cmpResult, Spec.relHolds]

/-- §3.6: `+ - * / %` -/
theorem binaryOp_arith (op : Tag) (h : isArithOp op = true) (a b : Val) :
    binaryOp op a b = toBinOut op (Spec.arithOp op a b) := by
  have hn : isCompareOp op = false := by
    simp only [isArithOp] at h; cases op <;> simp_all [isCompareOp]
  simp only [binaryOp, hn, h, ↓reduceIte, Spec.arithOp, ← asNum_eq_spec, ← str_eq_spec]
  simp only [isArithOp] at h
  cases op <;> simp_all [toBinOut, goRem] <;> (try (split <;> rfl))

/-- §3.6: `~` and `!~` -/
theorem binaryOp_match (op : Tag) (h : op = .tilde ∨ op = .bangTilde) (a b : Val) :
    binaryOp op a b = toBinOut op (Spec.matchOp op a b) := by
  rcases h with rfl | rfl <;>
    (simp only [binaryOp, isCompareOp, isArithOp, Spec.matchOp, ← str_eq_spec]
     cases b <;> simp [toBinOut] <;> (split <;> simp_all))

/-! ### the conditions the property states outright -/

/-- `/` is a runtime error exactly when the divisor coerces to zero (either sign) -/
theorem divide_error_iff (a b : Val) :
    (∃ r m, binaryOp .divide a b = .err r m) ↔ b.asNum.isZero = true := by
  simp [binaryOp, isCompareOp, isArithOp]
  split <;> simp_all

/-- `%` is a runtime error exactly when the integer-truncated divisor is zero -/
theorem percent_error_iff (a b : Val) :
    (∃ r m, binaryOp .percent a b = .err r m) ↔ b.asNum.toGoInt = 0 := by
  simp [binaryOp, isCompareOp, isArithOp]
  split <;> simp_all

/-- `+` concatenates string forms as soon as one operand is a string … -/
theorem plus_concat (a b : Val) (h : a.kind = .str ∨ b.kind = .str) :
    binaryOp .plus a b = .val (.str (a.str! ++ b.str!) none) := by
  rcases h with h | h <;> simp [binaryOp, isCompareOp, isArithOp, h]

/-- … and adds numeric coercions otherwise -/
theorem plus_add (a b : Val) (ha : a.kind ≠ .str) (hb : b.kind ≠ .str) :
    binaryOp .plus a b = .val (.num (F64.add a.asNum b.asNum)) := by
  simp [binaryOp, isCompareOp, isArithOp, ha, hb]

/-- an unset operand: `<` and `>` are true, the other four comparisons false -/
theorem compare_unset (op : Tag) (hop : isCompareOp op = true) (a b : Val)
    (h : a.kind = .unknown ∨ b.kind = .unknown) :
    binaryOp op a b = .val (.bool (op == .lessThan || op == .greaterThan)) := by
  rcases h with h | h <;> simp [binaryOp, hop, h]

/-- comparing an array or object with anything but null/unset is a runtime error -/
theorem compare_container_error (op : Tag) (hop : isCompareOp op = true) (a b : Val)
    (hc : a.kind = .arr ∨ a.kind = .obj ∨ b.kind = .arr ∨ b.kind = .obj)
    (hn : a.kind ≠ .nil ∧ b.kind ≠ .nil ∧ a.kind ≠ .unknown ∧ b.kind ≠ .unknown) :
    ∃ m, binaryOp op a b = .err false m := by
  rw [binaryOp_compare op hop]
  obtain ⟨h1, h2, h3, h4⟩ := hn
  have : Spec.cmp a b = none := by
    cases a <;> cases b <;> simp_all [Spec.cmp, Val.kind]
  simp [Spec.compareOp, h3, h4, this, toBinOut]

/-- null ranks below everything except null (and unset, which is special) -/
theorem null_below (b : Val) (sp : Option SpecRef) (h1 : b.kind ≠ .nil) (h2 : b.kind ≠ .unknown) :
    binaryOp .lessThan (.nil sp) b = .val (.bool true) ∧
    binaryOp .equalEqual (.nil sp) b = .val (.bool false) := by
  cases b <;> simp_all [binaryOp, isCompareOp, Val.compare, Val.kind, cmpResult]

/-- two strings compare bytewise -/
theorem strings_bytewise (x y : Bytes) (s1 s2 : Option SpecRef) :
    binaryOp .lessThan (.str x s1) (.str y s2) = .val (.bool (Bytes.lt x y)) := by
  simp [binaryOp, isCompareOp, Val.compare, Val.kind, cmpResult, Bytes.lt]
  cases Bytes.cmp x y <;> simp

/-! ### short-circuit evaluation: the right operand contributes nothing when not needed -/

variable (prog : Program)

theorem and_shortcircuit (n : Nat) (l r : Expr) (op : Token) (hop : op.tag = .ampAmp)
    (s s1 : St) (c : CellId) (hl : evalExpr prog n l s = .ok c s1)
    (hf : (s1.heap.get c).truthy = false) :
    evalBinary prog (n + 1) l r op s = newCell (.bool false) s1 := by
  simp [evalBinary, bind, EM.bind, hl, hop, readCell, hf]

theorem or_shortcircuit (n : Nat) (l r : Expr) (op : Token) (hop : op.tag = .pipePipe)
    (s s1 : St) (c : CellId) (hl : evalExpr prog n l s = .ok c s1)
    (ht : (s1.heap.get c).truthy = true) :
    evalBinary prog (n + 1) l r op s = newCell (.bool true) s1 := by
  simp [evalBinary, bind, EM.bind, hl, hop, readCell, ht]

/-- `is` never evaluates its right operand (a type name) -/
theorem is_spec (n : Nat) (l : Expr) (t : Token) (op : Token) (hop : op.tag = .is)
    (s s1 : St) (c : CellId) (hl : evalExpr prog n l s = .ok c s1) :
    evalBinary prog (n + 1) l (.ident t) op s = newCell (.bool (isType (s1.heap.get c) t)) s1 := by
  simp [evalBinary, bind, EM.bind, hl, hop, readCell]

/-- non-vacuity: concrete operands meeting the hypotheses -/
example : binaryOp .divide (.num F64.one) (.str b!"abc" none) = .err false "divide by zero" := by decide
example : binaryOp .plus (.num F64.one) (.str b!"1" none) = .val (.str b!"11" none) := by decide +kernel
/-- `binaryOp_compare`, `binaryOp_arith`: the operator classes are inhabited -/
example : isCompareOp .lessEqual = true ∧ isArithOp .percent = true := by decide
/-- `plus_add` (neither operand a string), `percent_error_iff` (0.9 truncates to 0) -/
example : binaryOp .plus (.bool true) (.nil none) = .val (.num F64.one) := by decide +kernel
example : binaryOp .percent (.num F64.one) (.str b!"0.9" none) = .err false "divide by zero" := by
  decide +kernel
/-- `compare_unset`, `compare_container_error`, `null_below` -/
example : binaryOp .lessThan .unknown (.num F64.one) = .val (.bool true)
    ∧ binaryOp .equalEqual .unknown .unknown = .val (.bool false) := by decide +kernel
example : binaryOp .lessThan (.arr 0) (.num F64.one) = .err false "cannot compare" := by decide +kernel
example : binaryOp .lessThan (.nil none) (.bool false) = .val (.bool true) := by decide +kernel
/-- `and_shortcircuit`, `or_shortcircuit`, `is_spec`: a left operand that evaluates to a falsy /
    truthy value -/
example : (match evalExpr Program.empty 1 (.lit ⟨.false_, 0, []⟩) default,
      evalExpr Program.empty 1 (.lit ⟨.true_, 0, []⟩) default with
    | .ok c1 s1, .ok c2 s2 => !(s1.heap.get c1).truthy && (s2.heap.get c2).truthy
    | _, _ => false) = true := by decide +kernel


/-! ### the evaluator applies the binary operator table (§3.3)

  For a node `l op r` evaluated by `evalBinary prog (n + 1) l r op` from state `s`: the left
  operand is evaluated first (from `s`, giving cell `cl` and state `s1`), the right operand next
  (from `s1`, giving `cr` and `s2`), and the operator is applied to the VALUES the two cells hold
  in `s2` (so a left operand that is a variable sees side effects of the right operand).
  `evalExpr prog (n + 2) (.binary l r op) = evalBinary prog (n + 1) l r op`
  (`BlameSites.evalExpr_binary`), so all statements are statements about the node. -/

open BlameSites

/-- what `newCell` does: the new cell's id is the old number of cells, it holds `v`, and nothing
    else in the state changes (one value pushed to `heap.cells`) -/
theorem newCell_spec (v : Val) (s : St) :
    newCell v s =
      .ok s.heap.cells.size { s with heap := { s.heap with cells := s.heap.cells.push v } } := rfl

/-- … read back: the new cell holds `v`, every old cell keeps its value -/
theorem newCell_get (v : Val) (s : St) :
    ∃ s', newCell v s = .ok s.heap.cells.size s' ∧ s'.heap.get s.heap.cells.size = v ∧
      (∀ c, c < s.heap.cells.size → s'.heap.get c = s.heap.get c) ∧
      s'.heap.arrs = s.heap.arrs ∧ s'.heap.objs = s.heap.objs ∧ s'.frames = s.frames ∧
      s'.out = s.out ∧ s'.faults = s.faults :=
  ⟨_, rfl, Heap.get_push_new _ _, fun c hc => Heap.get_push_old _ _ c hc, rfl, rfl, rfl, rfl, rfl⟩

/-- what raising a runtime error does: the outcome is `Err.runtime pos msg`, and the state is
    unchanged except for the two ghost fields -/
theorem throwRt_spec (pos : Nat) (msg : String) (s : St) :
    (throwRt pos msg s : Res CellId) =
      .err (.runtime pos msg) { s with faults := s.faults + 1, faultOut := s.out.length } := rfl

/-- C05, §3.3 + §3.5/3.6, code-shaped: **for each of the 13 operators `== != < <= > >=`,
    `+ - * / %`, `~ !~`, `evalBinary` returns exactly what `binaryOp` prescribes for the values
    of the two operand cells**: a fresh cell holding the value (the only state change,
    `newCell_spec`), or a runtime error raised in `s2` — at the right operand's token for the two
    regex errors, at the LEFT operand's token for "cannot compare", at the operator token for
    "divide by zero" (`binErrPos`) — or the model declines (regex outside the modelled subset).
    The state threading `s → s1 → s2` shows the left operand is evaluated before the right. -/
theorem evalBinary_applies_binaryOp (n : Nat) (l r : Expr) (op : Token)
    (hop : isCompareOp op.tag = true ∨ isArithOp op.tag = true ∨ op.tag = .tilde ∨ op.tag = .bangTilde)
    (s s1 s2 : St) (cl cr : CellId)
    (hl : evalExpr prog n l s = .ok cl s1) (hr : evalExpr prog n r s1 = .ok cr s2) :
    evalBinary prog (n + 1) l r op s =
      (match binaryOp op.tag (s2.heap.get cl) (s2.heap.get cr) with
       | .val v => newCell v s2
       | .err atRight m =>
         throwRt (if atRight then r.token.pos
                  else if isCompareOp op.tag then l.token.pos else op.pos) m s2
       | .unmodelled why => throwUnmodelled why s2) := by
  refine evalBinary_table prog n l r op ?_ s s1 s2 cl cr hl hr
  rcases hop with h | h | h | h <;> simp [isTableOp, h]

/-- the outcome of a table operator in terms of the documented result (Spec/Ops.lean) -/
def applyResult (l r : Expr) (op : Token) (s2 : St) : Spec.Result → Res CellId
  | .value v => newCell v s2
  | .divideByZero => throwRt op.pos "divide by zero" s2
  | .cannotCompare => throwRt l.token.pos "cannot compare" s2
  | .notAPattern =>
    throwRt r.token.pos "a regex or a string must appear on the right hand side of ~" s2
  | .invalidPattern => throwRt r.token.pos "invalid regex" s2
  | .unmodelled => throwUnmodelled "regex outside the modelled subset" s2

theorem compareOp_range (op : Tag) (a b : Val) :
    (∃ v, Spec.compareOp op a b = .value v) ∨ Spec.compareOp op a b = .cannotCompare := by
  unfold Spec.compareOp
  split
  · exact .inl ⟨_, rfl⟩
  · split
    · exact .inr rfl
    · exact .inl ⟨_, rfl⟩

theorem arithOp_range (op : Tag) (a b : Val) :
    (∃ v, Spec.arithOp op a b = .value v) ∨ Spec.arithOp op a b = .divideByZero := by
  unfold Spec.arithOp
  split
  · split <;> exact .inl ⟨_, rfl⟩
  · exact .inl ⟨_, rfl⟩
  · exact .inl ⟨_, rfl⟩
  · split
    · exact .inr rfl
    · exact .inl ⟨_, rfl⟩
  · dsimp only
    split
    · exact .inr rfl
    · exact .inl ⟨_, rfl⟩

theorem matchOp_range (op : Tag) (a b : Val) :
    (∃ v, Spec.matchOp op a b = .value v) ∨ Spec.matchOp op a b = .notAPattern ∨
    Spec.matchOp op a b = .invalidPattern ∨ Spec.matchOp op a b = .unmodelled := by
  unfold Spec.matchOp
  split
  · split
    · exact .inr (.inr (.inl rfl))
    · exact .inr (.inr (.inr rfl))
    · exact .inl ⟨_, rfl⟩
  · split
    · exact .inr (.inr (.inl rfl))
    · exact .inr (.inr (.inr rfl))
    · exact .inl ⟨_, rfl⟩
  · exact .inr (.inl rfl)

/-- C05, §3.5 at evaluator level: the six comparisons yield the documented boolean in a fresh
    cell, or "cannot compare" at the left operand's token -/
theorem evalBinary_compare (n : Nat) (l r : Expr) (op : Token) (hop : isCompareOp op.tag = true)
    (s s1 s2 : St) (cl cr : CellId)
    (hl : evalExpr prog n l s = .ok cl s1) (hr : evalExpr prog n r s1 = .ok cr s2) :
    evalBinary prog (n + 1) l r op s =
      applyResult l r op s2 (Spec.compareOp op.tag (s2.heap.get cl) (s2.heap.get cr)) := by
  rw [evalBinary_applies_binaryOp prog n l r op (.inl hop) s s1 s2 cl cr hl hr,
    binaryOp_compare op.tag hop]
  rcases compareOp_range op.tag (s2.heap.get cl) (s2.heap.get cr) with ⟨v, h⟩ | h <;>
    simp [h, toBinOut, applyResult, hop]

/-- C05, §3.6 at evaluator level: `+ - * / %` yield the documented value in a fresh cell, or
    "divide by zero" at the operator token -/
theorem evalBinary_arith (n : Nat) (l r : Expr) (op : Token) (hop : isArithOp op.tag = true)
    (s s1 s2 : St) (cl cr : CellId)
    (hl : evalExpr prog n l s = .ok cl s1) (hr : evalExpr prog n r s1 = .ok cr s2) :
    evalBinary prog (n + 1) l r op s =
      applyResult l r op s2 (Spec.arithOp op.tag (s2.heap.get cl) (s2.heap.get cr)) := by
  have hn : isCompareOp op.tag = false := by
    simp only [isArithOp] at hop; cases h : op.tag <;> simp_all [isCompareOp]
  rw [evalBinary_applies_binaryOp prog n l r op (.inr (.inl hop)) s s1 s2 cl cr hl hr,
    binaryOp_arith op.tag hop]
  rcases arithOp_range op.tag (s2.heap.get cl) (s2.heap.get cr) with ⟨v, h⟩ | h <;>
    simp [h, toBinOut, applyResult, hn]

/-- C05, §3.6 at evaluator level: `~` and `!~` yield the documented boolean in a fresh cell, or
    one of the two pattern errors at the RIGHT operand's token, or the model declines -/
theorem evalBinary_regex (n : Nat) (l r : Expr) (op : Token)
    (hop : op.tag = .tilde ∨ op.tag = .bangTilde)
    (s s1 s2 : St) (cl cr : CellId)
    (hl : evalExpr prog n l s = .ok cl s1) (hr : evalExpr prog n r s1 = .ok cr s2) :
    evalBinary prog (n + 1) l r op s =
      applyResult l r op s2 (Spec.matchOp op.tag (s2.heap.get cl) (s2.heap.get cr)) := by
  rw [evalBinary_applies_binaryOp prog n l r op (.inr (.inr hop)) s s1 s2 cl cr hl hr,
    binaryOp_match op.tag hop]
  rcases matchOp_range op.tag (s2.heap.get cl) (s2.heap.get cr) with ⟨v, h⟩ | h | h | h <;>
    simp [h, toBinOut, applyResult]

/-- C05, §3.4: `a && b` with `a` truthy evaluates `b` (after `a`) and yields `truthy(b)` as a
    boolean in a fresh cell -/
theorem and_rhs_evaluated (n : Nat) (l r : Expr) (op : Token) (hop : op.tag = .ampAmp)
    (s s1 s2 : St) (cl cr : CellId)
    (hl : evalExpr prog n l s = .ok cl s1) (ht : (s1.heap.get cl).truthy = true)
    (hr : evalExpr prog n r s1 = .ok cr s2) :
    evalBinary prog (n + 1) l r op s = newCell (.bool (s2.heap.get cr).truthy) s2 :=
  evalBinary_and_rhs prog n l r op hop s s1 s2 cl cr hl ht hr

/-- C05, §3.4: `a || b` with `a` falsy evaluates `b` (after `a`) and yields `truthy(b)` -/
theorem or_rhs_evaluated (n : Nat) (l r : Expr) (op : Token) (hop : op.tag = .pipePipe)
    (s s1 s2 : St) (cl cr : CellId)
    (hl : evalExpr prog n l s = .ok cl s1) (ht : (s1.heap.get cl).truthy = false)
    (hr : evalExpr prog n r s1 = .ok cr s2) :
    evalBinary prog (n + 1) l r op s = newCell (.bool (s2.heap.get cr).truthy) s2 :=
  evalBinary_or_rhs prog n l r op hop s s1 s2 cl cr hl ht hr

/-- `is` with anything but an identifier node on the right (the parser never builds this:
    `Expr.nodeOK` / `parse_wf` of Lemmas/ParserWF.lean) is a
    runtime error at the right operand's token; the right operand is not evaluated -/
theorem is_not_type_name (n : Nat) (l r : Expr) (op : Token) (hop : op.tag = .is)
    (hr : ∀ t, r ≠ .ident t) (s s1 : St) (cl : CellId) (hl : evalExpr prog n l s = .ok cl s1) :
    evalBinary prog (n + 1) l r op s = throwRt r.token.pos "expected a type name" s1 :=
  evalBinary_is_other prog n l r op hop hr s s1 cl hl

/-- §3.7: `a.b` and `a[b]` evaluate both operands in order and take the member step on the two
    cells (what that yields is C09's subject) -/
theorem member_applies (n : Nat) (l r : Expr) (op : Token)
    (hop : op.tag = .dot ∨ op.tag = .lsquare) (s s1 s2 : St) (cl cr : CellId)
    (hl : evalExpr prog n l s = .ok cl s1) (hr : evalExpr prog n r s1 = .ok cr s2) :
    evalBinary prog (n + 1) l r op s = memberStep l.token.pos cl cr s2 :=
  evalBinary_member prog n l r op hop s s1 s2 cl cr hl hr

/-- `a = b` evaluates both operands in order (left first!) and assigns the right cell's value
    to the left cell (C09's subject) -/
theorem assign_applies (n : Nat) (l r : Expr) (op : Token) (hop : op.tag = .equal)
    (s s1 s2 : St) (cl cr : CellId)
    (hl : evalExpr prog n l s = .ok cl s1) (hr : evalExpr prog n r s1 = .ok cr s2) :
    evalBinary prog (n + 1) l r op s = evalAssignment l.token.pos cl cr s2 :=
  evalBinary_assign prog n l r op hop s s1 s2 cl cr hl hr

/-- any other operator token in a binary node: both operands are evaluated, then "unknown
    operator" at the operator token (the parser never builds such a node, see
    `table_binary_tags_covered`) -/
theorem unknown_binary_operator (n : Nat) (l r : Expr) (op : Token)
    (hop : isBinaryTag op.tag = false) (s s1 s2 : St) (cl cr : CellId)
    (hl : evalExpr prog n l s = .ok cl s1) (hr : evalExpr prog n r s1 = .ok cr s2) :
    evalBinary prog (n + 1) l r op s = throwRt op.pos "unknown operator" s2 :=
  evalBinary_unknown prog n l r op hop s s1 s2 cl cr hl hr

/-- §3.3: a runtime error (or any other abnormal end) of the left operand is the result, whatever
    the operator; the right operand is not evaluated -/
theorem left_operand_error (n : Nat) (l r : Expr) (op : Token) (s s1 : St) (e : Err)
    (hl : evalExpr prog n l s = .err e s1) : evalBinary prog (n + 1) l r op s = .err e s1 :=
  evalBinary_left_err prog n l r op s s1 e hl

/-- §3.3: … and so is an abnormal end of the right operand, for every operator that evaluates
    it unconditionally (all but `&&`, `||`, `is`); the operator is not applied -/
theorem right_operand_error (n : Nat) (l r : Expr) (op : Token)
    (hop : op.tag ≠ .ampAmp ∧ op.tag ≠ .pipePipe ∧ op.tag ≠ .is) (s s1 s2 : St) (cl : CellId)
    (e : Err) (hl : evalExpr prog n l s = .ok cl s1) (hr : evalExpr prog n r s1 = .err e s2) :
    evalBinary prog (n + 1) l r op s = .err e s2 :=
  evalBinary_right_err prog n l r op hop s s1 s2 cl e hl hr

/-- the node dispatch: a binary / unary node is evaluated by `evalBinary` / `evalUnary` with one
    unit of fuel less -/
theorem node_dispatch (n : Nat) (l r e : Expr) (op : Token) (p : Bool) :
    evalExpr prog (n + 1) (.binary l r op) = evalBinary prog n l r op ∧
    evalExpr prog (n + 1) (.unary e op p) = evalUnary prog n e op p :=
  ⟨evalExpr_binary prog n l r op, evalExpr_unary prog n e op p⟩

/-- **the case split is exhaustive**: every `Tag` falls under exactly the hypotheses of one of
    `and_shortcircuit`/`and_rhs_evaluated`, `or_shortcircuit`/`or_rhs_evaluated`,
    `is_spec`/`is_not_type_name`, `member_applies`, `assign_applies`, `evalBinary_compare`,
    `evalBinary_arith`, `evalBinary_regex`, `unknown_binary_operator` -/
theorem binary_tag_exhaustive (t : Tag) :
    t = .ampAmp ∨ t = .pipePipe ∨ t = .is ∨ (t = .dot ∨ t = .lsquare) ∨ t = .equal ∨
    isCompareOp t = true ∨ isArithOp t = true ∨ (t = .tilde ∨ t = .bangTilde) ∨
    isBinaryTag t = false := by
  cases t <;> decide

/-- … and the classes are disjoint -/
theorem binary_tag_disjoint (t : Tag) :
    ((t == .ampAmp).toNat + (t == .pipePipe).toNat + (t == .is).toNat +
      (t == .dot || t == .lsquare).toNat + (t == .equal).toNat + (isCompareOp t).toNat +
      (isArithOp t).toNat + (t == .tilde || t == .bangTilde).toNat + (!isBinaryTag t).toNat) = 1 := by
  cases t <;> decide

/-- the operators the rule table of src/parser.go parses as infix `binary` are the 13 table
    operators and `&&`, `||`; `member`, `computedMember`, `is`, `assign` nodes get `.`, `[`, `is`
    and `=` (compound assignments are rewritten to `=` and an arithmetic node).  So no node built
    by the parser reaches `unknown_binary_operator`. -/
theorem table_binary_tags_covered :
    ∀ p ∈ expectedRuleTable, p.2.inf = some .binary →
      isTableOp p.1 = true ∨ p.1 = .ampAmp ∨ p.1 = .pipePipe := by
  decide

/-- **the parser only builds operator nodes the evaluator knows**: in a program parsed with the
    rule table of src/parser.go, every binary node (at any depth: rule patterns, rule bodies,
    function bodies, match arms) carries an operator of `isBinaryTag` — so one of the eight
    non-error classes of `binary_tag_exhaustive` — and every unary node one of `! + - ++ --`
    (compound assignments are rewritten to `=` and an arithmetic node).  Hence
    `unknown_binary_operator` / `unknown_unary_operator` never apply to parsed text.
    (Proved for every rule table satisfying `TblOps`: `parseProgramSrc_ops`.) -/
theorem parsed_operators_known (src : Bytes) (p : Program)
    (h : parseProgramSrc expectedRuleTable src = .ok p) :
    ∀ x ∈ p.subExprs,
      (∀ l r op, x = .binary l r op → isBinaryTag op.tag = true) ∧
      (∀ e op q, x = .unary e op q → isUnaryTag op.tag = true) := by
  intro x hx
  have := Program.opKnown_of_opsB p (parse_ops src p h) x hx
  exact ⟨fun l r op he => by subst he; exact this, fun e op q he => by subst he; exact this⟩

/-- … and so does a parsed `-r` selector expression -/
theorem parsed_selector_operators_known (sel : Bytes) (e : Expr)
    (h : parseExpressionSrc expectedRuleTable sel = .ok e) :
    ∀ x ∈ e.subs,
      (∀ l r op, x = .binary l r op → isBinaryTag op.tag = true) ∧
      (∀ e' op q, x = .unary e' op q → isUnaryTag op.tag = true) := by
  intro x hx
  have := Expr.opKnown_of_opsB e (parseExpr_ops sel e h) x hx
  exact ⟨fun l r op he => by subst he; exact this, fun e' op q he => by subst he; exact this⟩

/-- non-vacuity: a program that parses, with a compound assignment, a postfix and a prefix
    operator, `is`, member access and a regex match among its 21 expression nodes -/
example : (match parseProgramSrc expectedRuleTable b!"$.a ~ /x/ { n += -$.b[0]; n++; print !(n is number) }" with
    | .ok p => p.subExprs.length == 21 | _ => false) = true := by decide +kernel

/-- non-vacuity of `evalBinary_applies_binaryOp` and its three readings: `1 / 0` (error at the
    operator token, offset 7), `[] < 1` (error at the left operand's token, offset 3), `1 ~ 2`
    (error at the right operand's token, offset 9), `1 + 2` (a fresh cell holding 3); both operand
    evaluations succeed in each -/
example : (match evalExpr Program.empty 1 (.lit ⟨.num, 5, b!"1"⟩) default with
    | .ok cl s1 => (match evalExpr Program.empty 1 (.lit ⟨.num, 9, b!"0"⟩) s1 with
      | .ok cr s2 => cl == 0 && cr == 1 && s2.heap.get cr == .num F64.zero | _ => false)
    | _ => false) = true := by decide +kernel
example : (match evalExpr Program.empty 5
      (.binary (.lit ⟨.num, 5, b!"1"⟩) (.lit ⟨.num, 9, b!"0"⟩) ⟨.divide, 7, []⟩) default with
    | .err (.runtime pos msg) _ => pos == 7 && msg == "divide by zero" | _ => false) = true := by
  decide +kernel
example : (match evalExpr Program.empty 5
      (.binary (.arr ⟨.lsquare, 3, []⟩ []) (.lit ⟨.num, 9, b!"1"⟩) ⟨.lessThan, 7, []⟩) default with
    | .err (.runtime pos msg) _ => pos == 3 && msg == "cannot compare" | _ => false) = true := by
  decide +kernel
example : (match evalExpr Program.empty 5
      (.binary (.lit ⟨.num, 5, b!"1"⟩) (.lit ⟨.num, 9, b!"2"⟩) ⟨.tilde, 7, []⟩) default with
    | .err (.runtime pos _) _ => pos == 9 | _ => false) = true := by
  decide +kernel
example : (match evalExpr Program.empty 5
      (.binary (.lit ⟨.num, 5, b!"1"⟩) (.lit ⟨.num, 9, b!"2"⟩) ⟨.plus, 7, []⟩) default with
    | .ok c s => c == 2 && s.heap.cells.size == 3 &&
        s.heap.get c == .num (F64.add F64.one (F64.add F64.one F64.one))
    | _ => false) = true := by
  decide +kernel
/-- the right operand's side effect is seen by the left operand's VALUE: with `x` unset,
    `x + (x = 5)` is 10, not 5 (Go prints 10) -/
example : (match (evalProgram expectedRuleTable b!"BEGIN { print x + (x = 5) }" [] []).outcome,
      (evalProgram expectedRuleTable b!"BEGIN { print x + (x = 5) }" [] []).out with
    | .ok, out => out == b!"10\n" | _, _ => false) = true := by decide +kernel
/-- `and_rhs_evaluated`, `or_rhs_evaluated`: `1 && 2` is `true`, `0 || ""` is `false` -/
example : (match evalExpr Program.empty 5
      (.binary (.lit ⟨.num, 0, b!"1"⟩) (.lit ⟨.num, 5, b!"2"⟩) ⟨.ampAmp, 2, []⟩) default,
      evalExpr Program.empty 5
      (.binary (.lit ⟨.num, 0, b!"0"⟩) (.lit ⟨.str, 6, b!""⟩) ⟨.pipePipe, 2, []⟩) default with
    | .ok c1 s1, .ok c2 s2 => s1.heap.get c1 == .bool true && s2.heap.get c2 == .bool false
    | _, _ => false) = true := by decide +kernel
/-- `right_operand_error`: `1 + 2x` fails at the right operand (offset 5) -/
example : (match evalExpr Program.empty 5
      (.binary (.lit ⟨.num, 0, b!"1"⟩) (.lit ⟨.num, 5, b!"2x"⟩) ⟨.plus, 3, []⟩) default with
    | .err (.runtime p _) _ => p == 5 | _ => false) = true := by decide +kernel
/-- `is_not_type_name`, `unknown_binary_operator`, `left_operand_error`: hand-built nodes -/
example : (match evalExpr Program.empty 5
      (.binary (.lit ⟨.num, 0, b!"1"⟩) (.lit ⟨.num, 5, b!"2"⟩) ⟨.is, 2, []⟩) default,
      evalExpr Program.empty 5
      (.binary (.lit ⟨.num, 0, b!"1"⟩) (.lit ⟨.num, 5, b!"2"⟩) ⟨.comma, 2, []⟩) default,
      evalExpr Program.empty 5
      (.binary (.lit ⟨.num, 0, b!"1x"⟩) (.lit ⟨.num, 5, b!"2"⟩) ⟨.plus, 3, []⟩) default with
    | .err (.runtime p1 m1) _, .err (.runtime p2 m2) _, .err (.runtime p3 _) _ =>
      p1 == 5 && m1 == "expected a type name" && p2 == 2 && m2 == "unknown operator" && p3 == 0
    | _, _, _ => false) = true := by decide +kernel

/-! ### the unary operators (§3.2) -/

/-- the documented result of `!v`, `+v`, `-v` (DESIGN §3.2) -/
def specUnary (op : Tag) (v : Val) : Val :=
  match op with
  | .bang => .bool (!Spec.truthy v)
  | .plus => .num (Spec.num v)
  | _ => .num (F64.neg (Spec.num v))

/-- C05, §3.2, value level: the code-shaped `unaryOp` (what `evalUnary` computes for `!`, prefix
    `+`, prefix `-`) is the documented table, for every operand value -/
theorem unaryOp_eq_spec (op : Tag) (v : Val) : unaryOp op v = specUnary op v := by
  cases op <;> simp [unaryOp, specUnary, asNum_eq_spec, truthy_eq_spec]

/-- C05, §3.2 row by row, for every operand KIND: `!v` -/
theorem not_table (v : Val) :
    unaryOp .bang v = .bool (match v with
      | .nil _ | .unknown | .regex _ => true            -- null, unset, regex: falsy
      | .arr _ | .obj _ | .fn _ | .native .. => false   -- array, object, function: truthy
      | .bool b => !b
      | .num x => x.isZero                              -- 0 and -0 (NaN is truthy)
      | .str s _ => s.isEmpty) := by
  cases v <;> simp [unaryOp, Val.truthy]

/-- C05, §3.2 row by row, for every operand KIND: `+v` is `num(v)` -/
theorem plus_table (v : Val) :
    unaryOp .plus v = .num (match v with
      | .num x => x
      | .bool b => if b then F64.one else F64.zero
      | .str s _ => (F64.parse s).getD F64.zero          -- numeric strings; 0 otherwise
      | _ => F64.zero) := by                             -- null, unset, regex, array, object, function
  cases v <;> simp [unaryOp, Val.asNum]
  split <;> simp_all

/-- C05, §3.2: `-v` is the negation of `+v` (sign bit flipped: `-null` is `-0`) -/
theorem minus_table (v : Val) :
    unaryOp .minus v = .num (F64.neg (match unaryOp .plus v with | .num x => x | _ => F64.zero)) := by
  simp [unaryOp]

/-- C05, §3.2 at evaluator level: **`!e`, `+e`, `-e` evaluate the operand and return a fresh cell
    holding `unaryOp` of the operand cell's value; nothing else changes** (`newCell_spec`) -/
theorem evalUnary_applies_unaryOp (n : Nat) (e : Expr) (op : Token) (p : Bool)
    (hop : op.tag = .bang ∨ op.tag = .plus ∨ op.tag = .minus) (s s1 : St) (c : CellId)
    (he : evalExpr prog n e s = .ok c s1) :
    evalUnary prog (n + 1) e op p s = newCell (specUnary op.tag (s1.heap.get c)) s1 := by
  rw [← unaryOp_eq_spec]; exact evalUnary_pure prog n e op p hop s s1 c he

/-- C05, §3.2, `++` / `--` (prefix when `p = false`, postfix when `p = true`), in general: with
    `x = num(v)` of the operand cell's value, a fresh cell holding `x ± 1` is ASSIGNED to the
    operand's cell (`evalAssignment`, at the operator token's position: creation of missing
    members and the errors of assignment are C09's subject); the result is a fresh cell holding
    `x` (postfix) or the value of the cell assigned to (prefix) -/
theorem evalUnary_incdec (n : Nat) (e : Expr) (op : Token) (p : Bool)
    (hop : op.tag = .plusPlus ∨ op.tag = .minusMinus) (s s1 : St) (c : CellId)
    (he : evalExpr prog n e s = .ok c s1) :
    evalUnary prog (n + 1) e op p s =
      (do let nc ← newCell (.num (stepOp op.tag (s1.heap.get c)))
          let assigned ← evalAssignment op.pos c nc
          if p then newCell (.num (s1.heap.get c).asNum)
          else newCell (← readCell assigned) : EM CellId) s1 :=
  evalUnary_step prog n e op p hop s s1 c he

/-- `stepOp`: `num(v) + 1` for `++`, `num(v) - 1` for `--` -/
theorem stepOp_spec (v : Val) :
    stepOp .plusPlus v = F64.add (Spec.num v) F64.one ∧
    stepOp .minusMinus v = F64.sub (Spec.num v) F64.one := by
  simp [stepOp, asNum_eq_spec]

/-- C05, §3.2, `++` / `--` on an operand that denotes an EXISTING location (a variable, or a
    member that exists: its cell is allocated and carries no speculative reference): the
    operand's cell is set to the number `num(v) ± 1`, the result is a fresh cell holding
    `num(v)` (postfix) or `num(v) ± 1` (prefix); the only other change is one scratch cell. -/
theorem evalUnary_incdec_existing (n : Nat) (e : Expr) (op : Token) (p : Bool)
    (hop : op.tag = .plusPlus ∨ op.tag = .minusMinus) (s s1 : St) (c : CellId)
    (he : evalExpr prog n e s = .ok c s1) (hlt : c < s1.heap.cells.size)
    (hn : needsCreate (s1.heap.get c) = false) :
    ∃ s', evalUnary prog (n + 1) e op p s = .ok (s1.heap.cells.size + 1) s' ∧
      s'.heap.get c = .num (stepOp op.tag (s1.heap.get c)) ∧
      s'.heap.get (s1.heap.cells.size + 1) =
        .num (if p then (s1.heap.get c).asNum else stepOp op.tag (s1.heap.get c)) ∧
      (∀ c', c' < s1.heap.cells.size → c' ≠ c → s'.heap.get c' = s1.heap.get c') ∧
      s'.heap.cells.size = s1.heap.cells.size + 2 ∧
      s'.heap.arrs = s1.heap.arrs ∧ s'.heap.objs = s1.heap.objs ∧ s'.frames = s1.frames ∧
      s'.out = s1.out ∧ s'.faults = s1.faults := by
  refine ⟨_, evalUnary_step_plain prog n e op p hop s s1 c he hlt hn, ?_, ?_, ?_, ?_, rfl, rfl, rfl,
    rfl, rfl⟩
  · have h0 : c < s1.heap.cells.size + 1 := Nat.lt_succ_of_lt hlt
    have h2 : c ≠ s1.heap.cells.size + 1 := by
      intro h; rw [h] at hlt; exact absurd hlt (by simp)
    simp [Heap.alloc, Heap.set, Heap.get, Array.getD_eq_getD_getElem?, Array.getElem?_push, h0, h2]
  · have hsz : (((s1.heap.alloc (.num (stepOp op.tag (s1.heap.get c)))).2).set c
        (.num (stepOp op.tag (s1.heap.get c)))).cells.size = s1.heap.cells.size + 1 := by
      simp [Heap.alloc, Heap.set]
    have := Heap.get_push_new (((s1.heap.alloc (.num (stepOp op.tag (s1.heap.get c)))).2).set c
        (.num (stepOp op.tag (s1.heap.get c))))
        (.num (if p then (s1.heap.get c).asNum else stepOp op.tag (s1.heap.get c)))
    rw [hsz] at this; exact this
  · intro c' hc' hne
    have h1 : c' ≠ s1.heap.cells.size + 1 := by
      intro h; rw [h] at hc'; exact absurd hc' (by simp)
    have h2 : c' ≠ s1.heap.cells.size := Nat.ne_of_lt hc'
    have h3 : ¬ c = c' := fun h => hne h.symm
    simp [Heap.alloc, Heap.set, Heap.get, Array.getD_eq_getD_getElem?, Array.getElem?_push, h1, h2, h3]
  · simp [Heap.alloc, Heap.set]

/-- any other operator token in a unary node: the operand is evaluated, then "unknown operator"
    at the operator token (the parser never builds such a node: `parsed_operators_known`) -/
theorem unknown_unary_operator (n : Nat) (e : Expr) (op : Token) (p : Bool)
    (hop : isUnaryTag op.tag = false) (s s1 : St) (c : CellId)
    (he : evalExpr prog n e s = .ok c s1) :
    evalUnary prog (n + 1) e op p s = throwRt op.pos "unknown operator" s1 :=
  evalUnary_unknown prog n e op p hop s s1 c he

/-- the case split over unary operator tags is exhaustive -/
theorem unary_tag_exhaustive (t : Tag) :
    (t = .bang ∨ t = .plus ∨ t = .minus) ∨ (t = .plusPlus ∨ t = .minusMinus) ∨
      isUnaryTag t = false := by
  cases t <;> decide

/-- the tags the rule table of src/parser.go parses as prefix `unary` or as `postfixOp` -/
theorem table_unary_tags_covered :
    ∀ p ∈ expectedRuleTable, (p.2.pre = some .unary ∨ p.2.inf = some .postfixOp) →
      isUnaryTag p.1 = true := by
  decide

/-- non-vacuity / instances of the unary tables: every kind -/
example : unaryOp .bang (.nil none) = .bool true ∧ unaryOp .bang .unknown = .bool true ∧
    unaryOp .bang (.regex b!"a") = .bool true ∧ unaryOp .bang (.arr 0) = .bool false ∧
    unaryOp .bang (.obj 0) = .bool false ∧ unaryOp .bang (.fn 0) = .bool false ∧
    unaryOp .bang (.native .json none none) = .bool false ∧
    unaryOp .bang (.str b!"0" none) = .bool false ∧ unaryOp .bang (.str [] none) = .bool true ∧
    unaryOp .bang (.num F64.zero) = .bool true ∧ unaryOp .bang (.bool false) = .bool true := by
  decide +kernel
example : unaryOp .plus (.str b!"1" none) = .num F64.one ∧ unaryOp .plus (.str b!"x" none) = .num F64.zero ∧
    unaryOp .plus (.bool true) = .num F64.one ∧ unaryOp .plus (.arr 3) = .num F64.zero ∧
    unaryOp .minus (.nil none) = .num (F64.neg F64.zero) ∧ F64.neg F64.zero ≠ F64.zero ∧
    (F64.neg F64.zero).format = b!"-0" := by
  decide +kernel
/-- `-"1"` is -1; `!-"1"` is false; an unknown unary operator token -/
example : (match evalExpr Program.empty 5 (.unary (.lit ⟨.str, 2, b!"1"⟩) ⟨.minus, 0, []⟩ false) default with
    | .ok c s => c == 1 && s.heap.get c == .num (F64.neg F64.one) | _ => false) = true := by
  decide +kernel
example : (match evalExpr Program.empty 5 (.unary (.lit ⟨.str, 2, b!"1"⟩) ⟨.comma, 7, []⟩ false) default with
    | .err (.runtime pos msg) _ => pos == 7 && msg == "unknown operator" | _ => false) = true := by
  decide +kernel
/-- `x = 5; y = x++` leaves x = 6, y = 5; `y = ++x` gives 6; `--x` on an unset variable is -1; the
    operand of the first is an existing location (`evalUnary_incdec_existing`) -/
example : (match (evalProgram expectedRuleTable
      b!"BEGIN { x = 5; y = x++; print x, y; z = ++x; print x, z; print --u, u }" [] []).outcome,
      (evalProgram expectedRuleTable
      b!"BEGIN { x = 5; y = x++; print x, y; z = ++x; print x, z; print --u, u }" [] []).out with
    | .ok, out => out == b!"6 5\n7 7\n-1 -1\n" | _, _ => false) = true := by decide +kernel
example : (match getVariable b!"x" { (default : St) with frames := [⟨b!"<root>", []⟩] } with
    | .ok (.ok c) s1 => c < s1.heap.cells.size && !needsCreate (s1.heap.get c) | _ => false) = true := by
  decide +kernel

end Jqawk.C05
