/-
  C05 — operators compute the documented result for every combination of operand kinds.
  The code-shaped value-level functions (`binaryOp`, `Val.compare`, `Val.asNum`, `Val.truthy`)
  are proved equal to the tables of DESIGN.md section 3 (Spec/Ops.lean), for every BINARY
  operator and all operand values; the error conditions and the short-circuit behaviour are
  stated outright.
  Not covered by a theorem here: the unary operators (`!`, prefix `-` `+`, `++` `--`); `&&` / `||`
  when the right operand IS evaluated (result `truthy` of it as a boolean); and that `evalBinary`
  applies `binaryOp` to the values of its two operands (only `&&`, `||`, `is` are stated at the
  level of `evalBinary`).
-/
import Jqawk.Spec.Ops

namespace Jqawk.C05
open Jqawk

/-! ### coercions (§3.1) -/

theorem asNum_eq_spec (v : Val) : v.asNum = Spec.num v := by
  cases v <;> try rfl
  rename_i b; cases b <;> rfl

theorem str_eq_spec (v : Val) : v.str! = Spec.str v := by
  cases v <;> rfl

theorem truthy_eq_spec (v : Val) : v.truthy = Spec.truthy v := by
  cases v <;> try rfl
  rename_i s _; cases s <;> rfl

/-- falsy values are exactly: false, 0 (either sign), "", null, unset, regex -/
theorem falsy_iff (v : Val) :
    v.truthy = false ↔
      (v = .bool false ∨ (∃ x, v = .num x ∧ x.isZero = true) ∨ (∃ sp, v = .str [] sp) ∨
       v.kind = .nil ∨ v.kind = .unknown ∨ v.kind = .regex) := by
  cases v <;> simp [Val.truthy, Val.kind]

/-! ### comparison (§3.5) -/

theorem compare_eq_spec (a b : Val) :
    a.compare b = (match Spec.cmp a b with | some c => .ok c | none => .error "cannot compare") := by
  cases a <;> cases b <;>
    simp [Val.compare, Spec.cmp, Val.kind, ← asNum_eq_spec, Spec.str, Val.asNum] <;>
    rfl

/-! ### the binary operators on values -/

def toBinOut (_op : Tag) : Spec.Result → BinOut
  | .value v => .val v
  | .divideByZero => .err false "divide by zero"
  | .cannotCompare => .err false "cannot compare"
  | .notAPattern => .err true "a regex or a string must appear on the right hand side of ~"
  | .invalidPattern => .err true "invalid regex"
  | .unmodelled => .unmodelled "regex outside the modelled subset"

/-- §3.5: the six comparison operators -/
theorem binaryOp_compare (op : Tag) (h : isCompareOp op = true) (a b : Val) :
    binaryOp op a b = toBinOut op (Spec.compareOp op a b) := by
  simp only [binaryOp, h, ↓reduceIte, Spec.compareOp]
  split
  · rfl
  · rw [compare_eq_spec]
    cases hc : Spec.cmp a b with
    | none => rfl
    | some c =>
      simp only [toBinOut, isCompareOp] at *
      cases op <;> simp_all [cmpResult, Spec.relHolds]

/-- §3.6: `+ - * / %` -/
theorem binaryOp_arith (op : Tag) (h : isArithOp op = true) (a b : Val) :
    binaryOp op a b = toBinOut op (Spec.arithOp op a b) := by
  have hn : isCompareOp op = false := by
    simp only [isArithOp] at h; cases op <;> simp_all [isCompareOp]
  simp only [binaryOp, hn, h, ↓reduceIte, Spec.arithOp, ← asNum_eq_spec, ← str_eq_spec]
  simp only [isArithOp] at h
  cases op <;> simp_all [toBinOut, goRem] <;> (try (split <;> rfl))

/-- §3.6: `~` and `!~` -/
theorem binaryOp_match (op : Tag) (h : op = .tilde ∨ op = .bangTilde) (a b : Val) :
    binaryOp op a b = toBinOut op (Spec.matchOp op a b) := by
  rcases h with rfl | rfl <;>
    (simp only [binaryOp, isCompareOp, isArithOp, Spec.matchOp, ← str_eq_spec]
     cases b <;> simp [toBinOut] <;> (split <;> simp_all))

/-! ### the conditions the property states outright -/

/-- `/` is a runtime error exactly when the divisor coerces to zero (either sign) -/
theorem divide_error_iff (a b : Val) :
    (∃ r m, binaryOp .divide a b = .err r m) ↔ b.asNum.isZero = true := by
  simp [binaryOp, isCompareOp, isArithOp]
  split <;> simp_all

/-- `%` is a runtime error exactly when the integer-truncated divisor is zero -/
theorem percent_error_iff (a b : Val) :
    (∃ r m, binaryOp .percent a b = .err r m) ↔ b.asNum.toGoInt = 0 := by
  simp [binaryOp, isCompareOp, isArithOp]
  split <;> simp_all

/-- `+` concatenates string forms as soon as one operand is a string … -/
theorem plus_concat (a b : Val) (h : a.kind = .str ∨ b.kind = .str) :
    binaryOp .plus a b = .val (.str (a.str! ++ b.str!) none) := by
  rcases h with h | h <;> simp [binaryOp, isCompareOp, isArithOp, h]

/-- … and adds numeric coercions otherwise -/
theorem plus_add (a b : Val) (ha : a.kind ≠ .str) (hb : b.kind ≠ .str) :
    binaryOp .plus a b = .val (.num (F64.add a.asNum b.asNum)) := by
  simp [binaryOp, isCompareOp, isArithOp, ha, hb]

/-- an unset operand: `<` and `>` are true, the other four comparisons false -/
theorem compare_unset (op : Tag) (hop : isCompareOp op = true) (a b : Val)
    (h : a.kind = .unknown ∨ b.kind = .unknown) :
    binaryOp op a b = .val (.bool (op == .lessThan || op == .greaterThan)) := by
  rcases h with h | h <;> simp [binaryOp, hop, h]

/-- comparing an array or object with anything but null/unset is a runtime error -/
theorem compare_container_error (op : Tag) (hop : isCompareOp op = true) (a b : Val)
    (hc : a.kind = .arr ∨ a.kind = .obj ∨ b.kind = .arr ∨ b.kind = .obj)
    (hn : a.kind ≠ .nil ∧ b.kind ≠ .nil ∧ a.kind ≠ .unknown ∧ b.kind ≠ .unknown) :
    ∃ m, binaryOp op a b = .err false m := by
  rw [binaryOp_compare op hop]
  obtain ⟨h1, h2, h3, h4⟩ := hn
  have : Spec.cmp a b = none := by
    cases a <;> cases b <;> simp_all [Spec.cmp, Val.kind]
  simp [Spec.compareOp, h3, h4, this, toBinOut]

/-- null ranks below everything except null (and unset, which is special) -/
theorem null_below (b : Val) (sp : Option SpecRef) (h1 : b.kind ≠ .nil) (h2 : b.kind ≠ .unknown) :
    binaryOp .lessThan (.nil sp) b = .val (.bool true) ∧
    binaryOp .equalEqual (.nil sp) b = .val (.bool false) := by
  cases b <;> simp_all [binaryOp, isCompareOp, Val.compare, Val.kind, cmpResult]

/-- two strings compare bytewise -/
theorem strings_bytewise (x y : Bytes) (s1 s2 : Option SpecRef) :
    binaryOp .lessThan (.str x s1) (.str y s2) = .val (.bool (Bytes.lt x y)) := by
  simp [binaryOp, isCompareOp, Val.compare, Val.kind, cmpResult, Bytes.lt]
  cases Bytes.cmp x y <;> simp

/-! ### short-circuit evaluation: the right operand contributes nothing when not needed -/

variable (prog : Program)

theorem and_shortcircuit (n : Nat) (l r : Expr) (op : Token) (hop : op.tag = .ampAmp)
    (s s1 : St) (c : CellId) (hl : evalExpr prog n l s = .ok c s1)
    (hf : (s1.heap.get c).truthy = false) :
    evalBinary prog (n + 1) l r op s = newCell (.bool false) s1 := by
  simp [evalBinary, bind, EM.bind, hl, hop, readCell, hf]

theorem or_shortcircuit (n : Nat) (l r : Expr) (op : Token) (hop : op.tag = .pipePipe)
    (s s1 : St) (c : CellId) (hl : evalExpr prog n l s = .ok c s1)
    (ht : (s1.heap.get c).truthy = true) :
    evalBinary prog (n + 1) l r op s = newCell (.bool true) s1 := by
  simp [evalBinary, bind, EM.bind, hl, hop, readCell, ht]

/-- `is` never evaluates its right operand (a type name) -/
theorem is_spec (n : Nat) (l : Expr) (t : Token) (op : Token) (hop : op.tag = .is)
    (s s1 : St) (c : CellId) (hl : evalExpr prog n l s = .ok c s1) :
    evalBinary prog (n + 1) l (.ident t) op s = newCell (.bool (isType (s1.heap.get c) t)) s1 := by
  simp [evalBinary, bind, EM.bind, hl, hop, readCell]

/-- non-vacuity: concrete operands meeting the hypotheses -/
example : binaryOp .divide (.num F64.one) (.str b!"abc" none) = .err false "divide by zero" := by decide
example : binaryOp .plus (.num F64.one) (.str b!"1" none) = .val (.str b!"11" none) := by decide +kernel
/-- `binaryOp_compare`, `binaryOp_arith`: the operator classes are inhabited -/
example : isCompareOp .lessEqual = true ∧ isArithOp .percent = true := by decide
/-- `plus_add` (neither operand a string), `percent_error_iff` (0.9 truncates to 0) -/
example : binaryOp .plus (.bool true) (.nil none) = .val (.num F64.one) := by decide +kernel
example : binaryOp .percent (.num F64.one) (.str b!"0.9" none) = .err false "divide by zero" := by
  decide +kernel
/-- `compare_unset`, `compare_container_error`, `null_below` -/
example : binaryOp .lessThan .unknown (.num F64.one) = .val (.bool true)
    ∧ binaryOp .equalEqual .unknown .unknown = .val (.bool false) := by decide +kernel
example : binaryOp .lessThan (.arr 0) (.num F64.one) = .err false "cannot compare" := by decide +kernel
example : binaryOp .lessThan (.nil none) (.bool false) = .val (.bool true) := by decide +kernel
/-- `and_shortcircuit`, `or_shortcircuit`, `is_spec`: a left operand that evaluates to a falsy /
    truthy value -/
example : (match evalExpr Program.empty 1 (.lit ⟨.false_, 0, []⟩) default,
      evalExpr Program.empty 1 (.lit ⟨.true_, 0, []⟩) default with
    | .ok c1 s1, .ok c2 s2 => !(s1.heap.get c1).truthy && (s2.heap.get c2).truthy
    | _, _ => false) = true := by decide +kernel

end Jqawk.C05
