/-
  C01 — every run ends in success or one of three reported error kinds, never a crash; an
  internal control-flow signal (next, exit, break, continue, return) never surfaces.

  Proved here, for every program, every selector list, every input and every fuel:
  * signal discipline: break / continue / return never leave a construct that syntactically
    confines them (loops absorb break/continue, calls absorb return) — `Lemmas/Signals.lean`;
  * the rule driver consumes `next` and `exit` in every rule kind, in patterns, in functions
    called from anywhere and in selectors — `Lemmas/DriverSignals.lean`;
  * hence the outcome of a run is never an internal signal (`run_never_sentinel`), for
    well-scoped programs; well-scopedness is what the parser's `inLoop`/`inFunction` flags
    enforce (it is checked on every parsed program of the correspondence run: field `ws`);
  * and the parser does enforce it (`parse_wellScoped`, `parseExpr_scoped`, proved over all
    parser functions in `Lemmas/ParserScope.lean`), so `run_never_sentinel_src` holds for every
    program text with no hypothesis at all;
  * **no panic**: a state invariant (`Lemmas/NoPanic*.lean`: the frame stack is never empty, `$`
    is bound whenever rule or selector code runs, every function value stored in the part of the
    heap an evaluator can reach has an index below the number of functions of *that* evaluator's
    program, every speculative member has a parent) is established by `NewEvaluator`, preserved
    by every evaluator function (one mutual induction, third instance of the architecture of
    `Lemmas/Invariant.lean`) and by the rule driver, and makes each of the five `panic` sites of
    the model unreachable — for every program text that parses, all selector texts and all
    input files: `run_never_panics`.  Together with the signal half: `run_outcome_classified`.
  What the model does not mark as a panic site (a Go runtime crash the model has no `throwPanic`
  for) is covered by the correspondence check (class `panic`), not by these theorems.
  `run_outcome_classified` is exactly the conjunction of the two exclusions: besides success and
  the three error kinds it accepts the model outcomes `.oof` and `.unmodelled`.  The command-line
  clause of the property (exit status, stderr) has no theorem here.
-/
import Jqawk.Lemmas.DriverSignals
import Jqawk.Lemmas.ParserScope
import Jqawk.Lemmas.ParserWF
import Jqawk.Lemmas.NoPanicRun

namespace Jqawk.C01
open Jqawk

/-- selectors that parse are free of escaping break / continue / return -/
def SelsScoped (tbl : RuleTable) (sels : List Bytes) : Prop :=
  ∀ sel ∈ sels, ∀ e, parseExpressionSrc tbl sel = .ok e →
    ∀ g : Sig, g.confined = true → canE g e = false

theorem empty_fnScoped : Program.empty.FnScoped := by
  intro f hf; cases hf

/-- break / continue / return never leave a statement that syntactically confines them -/
theorem confined_signals_stmt (prog : Program) (hfs : prog.FnScoped) (g : Sig) (hg : g.confined = true)
    (n : Nat) (st : Stmt) (hst : canS g st = false) (s s' : St) :
    evalStmt prog n st s ≠ .err (.sig g) s' :=
  (allNoSig prog g hg hfs n).stmt st hst s s'

/-- every loop statement absorbs the break and continue of its body -/
theorem loops_absorb (prog : Program) (hfs : prog.FnScoped) (n : Nat) (c : Expr) (b : Stmt)
    (hc : canE .brk c = false ∧ canE .cont c = false) (s s' : St) :
    evalStmt prog n (.while_ c b) s ≠ .err (.sig .brk) s' ∧
    evalStmt prog n (.while_ c b) s ≠ .err (.sig .cont) s' := by
  constructor
  · exact confined_signals_stmt prog hfs .brk rfl n _ (by simp [canS, hc.1, Sig.loopSig]) s s'
  · exact confined_signals_stmt prog hfs .cont rfl n _ (by simp [canS, hc.2, Sig.loopSig]) s s'

/-- a call never yields break, continue or return, whatever the callee does -/
theorem call_absorbs (prog : Program) (hfs : prog.FnScoped) (g : Sig) (hg : g.confined = true)
    (n pos : Nat) (f : CellId) (args : List CellId) (s s' : St) :
    callFunction prog n pos f args s ≠ .err (.sig g) s' :=
  (allNoSig prog g hg hfs n).call pos f args s s'

/-- non-vacuity of the hypotheses of the three theorems above: a parsed program with a function
    and loops passes the decidable scope check (hence is `FnScoped`: `wellScoped_of_B`); a `while`
    whose body contains a `break` does not let it out syntactically (`canS`), a bare `break` would,
    and a literal loop header raises neither `break` nor `continue` (`canE`) -/
example : (match parseProgramSrc expectedRuleTable
      b!"function f(x) { while (x) { if (x > 3) break; x++ } return x } $ > 1 { print f($) }" with
    | .ok p => p.wellScopedB
    | _ => false) = true := by decide +kernel
example : canS .brk (.while_ (.lit ⟨.true_, 0, []⟩) (.block ⟨.lcurly, 0, []⟩ [.brk ⟨.break_, 0, []⟩])) = false
    ∧ canS .brk (.brk ⟨.break_, 0, []⟩) = true
    ∧ canE .brk (.lit ⟨.true_, 0, []⟩) = false ∧ canE .cont (.lit ⟨.true_, 0, []⟩) = false := by decide

/-- the selector evaluation of the driver reports no signal other than as `exit`/`next` -/
theorem selector_not_sentinel (tbl : RuleTable) (sel : Bytes) (rootValue : JVal) (s : St)
    (hsel : ∀ e, parseExpressionSrc tbl sel = .ok e → ∀ g : Sig, g.confined = true → canE g e = false)
    (g : Sig) (s' : St) : evalSelector tbl sel rootValue s ≠ .inl (.sentinel g, s') := by
  unfold evalSelector
  split
  · intro h; cases h
  · intro h; cases h
  · rename_i expr hp
    have hns : ∀ g : Sig, g.confined = true → NoSig g (selectorRun rootValue expr) := by
      intro g hg
      unfold selectorRun
      refine NoSig.bind (NoSig.newValueJson g _) (fun v => NoSig.bind (NoSig.newCell g _) (fun rc =>
        NoSig.bind (NoSig.modifySt g _) (fun _ => NoSig.bind
          ((allNoSig Program.empty g hg empty_fnScoped evalFuel).expr _ (hsel expr hp g hg))
          (fun cell => NoSig.bind (NoSig.newCell g _) (fun root => NoSig.bind (NoSig.copyValue g _ _)
            (fun r => ?_))))))
      split
      · exact NoSig.throwRt g _ _
      · exact NoSig.pure g _
    dsimp only
    split <;> intro h <;> (try cases h)
    rename_i s1 hne1 hne2 hrun
    cases g with
    | brk => exact hns .brk rfl _ _ hrun
    | cont => exact hns .cont rfl _ _ hrun
    | ret => exact hns .ret rfl _ _ hrun
    | next => exact hne2 rfl
    | exit => exact hne1 rfl

theorem selectors_not_sentinel (tbl : RuleTable) (rootValue : JVal) (sels : List Bytes)
    (hsel : SelsScoped tbl sels) (acc : List CellId) (s s' : St) (g : Sig) :
    evalSelectors tbl rootValue sels acc s ≠ .stop (.sentinel g) s' := by
  induction sels generalizing acc s with
  | nil => intro h; cases h
  | cons sel rest ih =>
    have hrest : SelsScoped tbl rest := fun x hx => hsel x (List.mem_cons_of_mem _ hx)
    unfold evalSelectors
    split
    · rename_i o s1 he
      intro h
      simp only [Roots.stop.injEq] at h
      exact selector_not_sentinel tbl sel rootValue s (hsel sel (List.mem_cons_self ..)) g s1
        (by rw [he, h.1])
    · exact ih hrest _ _
    · intro h; cases h
    · exact ih hrest _ _

theorem errOutcome_sentinel (src : Bytes) (e : Err) (g : Sig) :
    errOutcome src e = .sentinel g ↔ e = .sig g := by
  cases e <;> simp [errOutcome]

variable (prog : Program)

theorem processFile_not_sentinel (hws : prog.WellScoped) (src : Bytes) (tbl : RuleTable)
    (sels : List Bytes) (hsel : SelsScoped tbl sels) (file : InputFile) (g : Sig) :
    ∀ (fuel : Nat) (data : Bytes) (s s' : St),
      processFile prog src tbl sels file fuel data s ≠ .finished (.sentinel g) s' := by
  intro fuel
  induction fuel with
  | zero => intro data s s' h; cases h
  | succ fuel ih =>
    intro data s s'
    unfold processFile
    split
    · intro h; cases h
    · intro h; cases h
    · intro h; cases h
    · rename_i v rest hdec
      dsimp only
      split
      · -- setFile failed
        rename_i e s1 hset
        intro h
        simp only [StepRes.finished.injEq] at h
        have hn : NoSig g (do
            let c ← newCell (.str file.name none)
            setGlobal b!"$file" c : EM Unit) := by
          refine NoSig.bind (NoSig.newCell g _) (fun c => ?_)
          intro t t' ht; cases ht
        exact hn _ _ (by rw [hset, (errOutcome_sentinel src e g).mp h.1])
      · intro h; cases h
      · rename_i s1 hset
        split
        · -- roots = .stop
          rename_i o s2 hroots
          intro h
          simp only [StepRes.finished.injEq] at h
          rw [h.1] at hroots
          split at hroots
          · split at hroots
            · cases hroots
            · rename_i e s3 hnv
              simp only [Roots.stop.injEq] at hroots
              have hn : NoSig g (do let val ← newValueJson v; newCell val : EM CellId) :=
                NoSig.bind (NoSig.newValueJson g v) (fun val => NoSig.newCell g val)
              exact hn _ _ (by rw [hnv, (errOutcome_sentinel src e g).mp hroots.1])
            · cases hroots
          · exact selectors_not_sentinel tbl v sels hsel [] s1 s2 g hroots
        · intro h; cases h
        · rename_i cs s2 hroots
          split
          · intro h; cases h
          · exact ih _ _ _
          · rename_i e s3 hpr
            intro h
            simp only [StepRes.finished.injEq] at h
            exact NoSig.processRoots prog hws g cs _ _ (by rw [hpr, (errOutcome_sentinel src e g).mp h.1])
          · intro h; cases h

theorem processFiles_not_sentinel (hws : prog.WellScoped) (src : Bytes) (tbl : RuleTable)
    (sels : List Bytes) (hsel : SelsScoped tbl sels) (g : Sig) :
    ∀ (files : List InputFile) (s s' : St),
      processFiles prog src tbl sels files s ≠ .finished (.sentinel g) s' := by
  intro files
  induction files with
  | nil => intro s s' h; cases h
  | cons f rest ih =>
    intro s s'
    unfold processFiles
    split
    · exact ih _ _
    · rename_i o s1 hpf
      intro h
      simp only [StepRes.finished.injEq] at h
      exact processFile_not_sentinel prog hws src tbl sels hsel f g _ _ _ _ (by rw [hpf, h.1])

theorem runEnd_not_sentinel (hws : prog.WellScoped) (src : Bytes) (g : Sig) (s2 : St) :
    (runEnd prog src s2).outcome ≠ .sentinel g := by
  unfold runEnd
  have hend := NoSig.evalSpecialRules prog hws g (newCell (.nil none)) (NoSig.newCell g _)
    (rulesOf prog .end_) (rulesOf_sub prog _)
  split
  · rename_i e s3 hee
    intro h
    exact hend _ _ (by rw [hee, (errOutcome_sentinel src e g).mp h])
  · intro h; cases h
  · intro h; cases h

theorem runFiles_not_sentinel (hws : prog.WellScoped) (src : Bytes) (tbl : RuleTable)
    (sels : List Bytes) (hsel : SelsScoped tbl sels) (files : List InputFile) (g : Sig) (s1 : St) :
    (runFiles prog src tbl sels files s1).outcome ≠ .sentinel g := by
  unfold runFiles
  split
  · rename_i o s2 hpf
    intro h
    have h' : o = Outcome.sentinel g := h
    exact processFiles_not_sentinel prog hws src tbl sels hsel g files _ _ (by rw [hpf, h'])
  · exact runEnd_not_sentinel prog hws src g _

/-- **No internal signal ever surfaces**: for a well-scoped program and well-scoped selectors,
    whatever the input files contain and however the run ends, its outcome is not one of
    next / exit / break / continue / return. -/
theorem run_never_sentinel (hws : prog.WellScoped) (src : Bytes) (tbl : RuleTable)
    (sels : List Bytes) (hsel : SelsScoped tbl sels) (files : List InputFile) (g : Sig) :
    (runProgram prog src tbl sels files).outcome ≠ .sentinel g := by
  unfold runProgram
  have hbegin := NoSig.evalSpecialRules prog hws g (newCell (.nil none)) (NoSig.newCell g _)
    (rulesOf prog .begin_) (rulesOf_sub prog _)
  split
  · rename_i e s1 he
    intro h
    exact hbegin _ _ (by rw [he, (errOutcome_sentinel src e g).mp h])
  · intro h; cases h
  · intro h; cases h
  · exact runFiles_not_sentinel prog hws src tbl sels hsel files g _

/-! ### the parser establishes well-scopedness (no hypothesis left) -/

/-- **Every program that parses is well-scoped**, for every rule table and every source text:
    `break`/`continue` occur only inside loop bodies, `return` only inside function bodies
    (the parser's `inLoop`/`inFunction` flags, `Lemmas/ParserScope.lean`). -/
theorem parse_wellScoped (tbl : RuleTable) (src : Bytes) (p : Program)
    (h : parseProgramSrc tbl src = .ok p) : p.wellScopedB = true :=
  parseProgramSrc_wellScopedB tbl src p h

/-- non-vacuity: a program with a function, a loop with `break` and a `return` parses -/
example : (match parseProgramSrc expectedRuleTable
      b!"function f(x) { while (x) { if (x > 3) break; x++ } return x } $ > 1 { print f($) }" with
    | .ok p => p.functions.length == 1 && p.rules.length == 1
    | _ => false) = true := by decide +kernel

/-- the same, in the form consumed by `run_never_sentinel` -/
theorem parse_WellScoped (tbl : RuleTable) (src : Bytes) (p : Program)
    (h : parseProgramSrc tbl src = .ok p) : p.WellScoped :=
  wellScoped_of_B p (parse_wellScoped tbl src p h)

/-- **Every selector expression that parses confines break / continue / return.** -/
theorem parseExpr_scoped (tbl : RuleTable) (sel : Bytes) (e : Expr)
    (h : parseExpressionSrc tbl sel = .ok e) : e.scopedB = true :=
  parseExpressionSrc_scopedB tbl sel e h

example : (match parseExpressionSrc expectedRuleTable b!"$.items[0]" with
    | .ok _ => true | _ => false) = true := by decide +kernel

/-- hence the selector hypothesis of `run_never_sentinel` always holds -/
theorem selsScoped (tbl : RuleTable) (sels : List Bytes) : SelsScoped tbl sels := by
  intro sel _ e he g hg
  have h := parseExpr_scoped tbl sel e he
  simp only [Expr.scopedB, confinedSigs, List.all_cons, List.all_nil, Bool.and_true,
    Bool.and_eq_true, Bool.not_eq_true'] at h
  cases g <;> simp_all [Sig.confined]

/-- **No internal signal ever surfaces — unconditionally.**  For every rule table, program text,
    selector list and input, the outcome of `evalProgram` (parse, then run) is never one of
    next / exit / break / continue / return: either the text does not parse (syntax error), or
    it parses to a well-scoped program (`parse_wellScoped`) and `run_never_sentinel` applies. -/
theorem run_never_sentinel_src (tbl : RuleTable) (src : Bytes) (sels : List Bytes)
    (files : List InputFile) (g : Sig) :
    (evalProgram tbl src sels files).outcome ≠ .sentinel g := by
  unfold evalProgram
  split
  · intro h; cases h
  · intro h; cases h
  · rename_i p hp
    exact run_never_sentinel p (parse_WellScoped tbl src p hp) src tbl sels
      (selsScoped tbl sels) files g

/-! ### the `panic("unhandled literal type")` site of `evalExpr` is unreachable -/

/-- evaluating a literal node whose token is a literal token (`Expr.nodeOK`) never takes the
    `throwPanic "unhandled literal type"` branch — nor any other panic — of `evalExpr` -/
theorem lit_never_panics (p : Program) (n : Nat) (t : Token) (h : (Expr.lit t).nodeOK = true)
    (s s' : St) (m : String) : evalExpr p (n + 1) (.lit t) s ≠ .err (.panic m) s' := by
  simp only [Expr.nodeOK] at h
  unfold evalExpr
  cases ht : t.tag <;> simp [litTag, ht] at h <;> dsimp only <;> rw [ht] <;> dsimp only
  all_goals first
    | (intro hc; cases hc; done)
    | (cases evalStringLit t.text <;> dsimp only <;> intro hc <;> cases hc)
    | (cases F64.parse t.text <;> dsimp only <;> intro hc <;> cases hc)

/-- the hypothesis is needed: a literal node with a non-literal token does panic -/
example : (match evalExpr Program.empty 1 (.lit ⟨.plus, 0, []⟩)
      (newEvaluator Program.empty Heap.empty [] 0) with
    | .err (.panic _) _ => true | _ => false) = true := by decide +kernel

/-- **No unhandled literal**: every literal node anywhere in a program that parses (rule
    patterns, rule bodies, function bodies, at any depth) carries a literal token
    (`Lemmas/ParserWF.lean`: `parse_wf`), so evaluating it — in any state, with any fuel, in the
    context of any program — never reaches `panic("unhandled literal type")`. -/
theorem no_unhandled_literal (src : Bytes) (prog : Program)
    (h : parseProgramSrc expectedRuleTable src = .ok prog) (t : Token)
    (ht : Expr.lit t ∈ prog.subExprs) (p : Program) (n : Nat) (s s' : St) (m : String) :
    evalExpr p (n + 1) (.lit t) s ≠ .err (.panic m) s' :=
  lit_never_panics p n t (Program.nodeOK_of_wfB prog (parse_wf src prog h) _ ht) s s' m

/-- non-vacuity: a parsed program with literal nodes of several kinds (string, number, regex,
    field name after `.`, `true`, `null`) -/
example : (match parseProgramSrc expectedRuleTable b!"$.name ~ /x/ { print \"a\", 1, true, null }" with
    | .ok p => (p.subExprs.filter (fun e => match e with | .lit _ => true | _ => false)).length == 6
    | _ => false) = true := by decide +kernel

/-- the same for selector expressions -/
theorem no_unhandled_literal_selector (sel : Bytes) (e : Expr)
    (h : parseExpressionSrc expectedRuleTable sel = .ok e) (t : Token)
    (ht : Expr.lit t ∈ e.subs) (p : Program) (n : Nat) (s s' : St) (m : String) :
    evalExpr p (n + 1) (.lit t) s ≠ .err (.panic m) s' :=
  lit_never_panics p n t (Expr.nodeOK_of_wfB e (parseExpr_wf sel e h) _ ht) s s' m

example : (match parseExpressionSrc expectedRuleTable b!"$.items[0]" with
    | .ok e => (e.subs.filter (fun e => match e with | .lit _ => true | _ => false)).length == 2
    | _ => false) = true := by decide +kernel

/-! ### no panic: the five `panic` sites of the model are unreachable -/

/-- the state invariant while rule or selector code runs (`Lemmas/NoPanicHeap.lean`,
    `Lemmas/NoPanicLogic.lean`), for the main evaluator of `prog`: heap, frames and return slot
    well-formed, every function value in range, the frame stack non-empty, `$` bound -/
abbrev RunInv (prog : Program) (s : St) : Prop := InvK (Pm prog) (KSet (Pm prog)) s

/-- the invariant between rule executions (`$` need not be bound) -/
abbrev DriverInv (prog : Program) (s : St) : Prop := InvK (Pm prog) KAny s

/-- **`NewEvaluator` establishes the invariant** (clause "never ends in an internal panic", site
    "dangling function" and "no frame"): the root frame exists and every function value it stores
    has an index below `prog.functions.length`. -/
theorem newEvaluator_establishes (prog : Program) : DriverInv prog (newEvaluator prog Heap.empty [] 0) :=
  newEvaluator_inv prog (Nat.le_refl _) (Nat.le_refl _) (HeapOK.empty _ rfl rfl rfl) _ _

/-- … and once `$` is bound (what every rule loop does first) the evaluator's invariant holds -/
theorem newEvaluator_bound (prog : Program) (c : CellId) :
    RunInv prog { newEvaluator prog Heap.empty [] 0 with ruleRoot := some c } :=
  have h := newEvaluator_establishes prog
  ⟨⟨h.heap, h.frames, h.ret⟩, ⟨c, rfl, Nat.zero_le c⟩⟩

/-- **No statement panics** (all five sites at once): in a well-formed program, a well-formed
    statement evaluated with any fuel from any state satisfying the invariant does not end in a
    panic — it neither finds the frame stack empty, nor `$` unbound in `print`, nor a literal node
    without a literal token, nor a function value out of range, nor a speculative member without
    parent — and the invariant holds again however it ends. -/
theorem stmt_never_panics (prog : Program) (hwf : prog.wfB = true) (n : Nat) (st : Stmt)
    (hst : st.wfB = true) (s : St) (hs : RunInv prog s) :
    (∀ m s', evalStmt prog n st s ≠ .err (.panic m) s') ∧
    (∀ s', evalStmt prog n st s = .ok () s' → RunInv prog s') := by
  have h := (allNP (Pm prog) prog (Nat.le_refl _) (Program.wfB_functions hwf) n).stmt st hst s hs
  unfold NPat at h
  constructor
  · intro m s' he; rw [he] at h; exact h
  · intro s' he; rw [he] at h; exact h.1

/-- the same for expressions (no panic; the invariant after the expression, and which heap region
    the result cell lies in, are in `allNP` but not part of this statement) -/
theorem expr_never_panics (prog : Program) (hwf : prog.wfB = true) (n : Nat) (e : Expr)
    (he : e.wfB = true) (s : St) (hs : RunInv prog s) (m : String) (s' : St) :
    evalExpr prog n e s ≠ .err (.panic m) s' := by
  have h := (allNP (Pm prog) prog (Nat.le_refl _) (Program.wfB_functions hwf) n).expr e he s hs
  unfold NPat at h
  intro hc; rw [hc] at h; exact h

/-- non-vacuity: a parsed program is well-formed, and `newEvaluator_bound` provides a state that
    satisfies the invariant -/
example : (match parseProgramSrc expectedRuleTable
      b!"function f(x) { return x + 1 } BEGIN { n = 0 } $.a > 0 { n++; print f($.a), $.b[0] } END { print }" with
    | .ok p => p.wfB && p.functions.length == 1 && p.rules.length == 3
    | _ => false) = true := by decide +kernel

/-! the hypotheses are needed — each panic site is reachable from a state outside the invariant: -/

/-- a function value out of range ("dangling function") -/
example : (match callFunction Program.empty 1 0 0 []
      { heap := ⟨#[.fn 0], #[], #[]⟩, frames := [⟨[], []⟩], out := [], root := none, ruleRoot := none,
        returnVal := none, faults := 0 } with
    | .err (.panic _) _ => true | _ => false) = true := by decide +kernel

/-- `print` without arguments while `$` is unbound ("print without a rule root") -/
example : (match evalStmt Program.empty 2 (.print ⟨.print, 0, []⟩ [])
      (newEvaluator Program.empty Heap.empty [] 0) with
    | .err (.panic _) _ => true | _ => false) = true := by decide +kernel

/-- an empty frame stack ("no frame") -/
example : (match setLocal b!"x" 0
      { heap := Heap.empty, frames := [], out := [], root := none, ruleRoot := none,
        returnVal := none, faults := 0 } with
    | .err (.panic _) _ => true | _ => false) = true := by decide +kernel

/-- materialising a cell that is not speculative ("speculative object has no parent");
    `evalAssignment` only calls `createSpeculative` on cells that are -/
example : (match createSpeculative 1 0
      { heap := ⟨#[.nil none], #[], #[]⟩, frames := [⟨[], []⟩], out := [], root := none, ruleRoot := none,
        returnVal := none, faults := 0 } with
    | .err (.panic _) _ => true | _ => false) = true := by decide +kernel

/-- **A selector never panics** (the `EvalExpression` entry point): evaluated from any state of
    the main evaluator that satisfies the driver invariant — the nested evaluator runs with
    `Program.empty` on the shared heap, but everything it can reach (its fresh builtins, the fresh
    conversion of the JSON value, what it allocates) contains no function value. -/
theorem selector_never_panics (tbl : RuleTable) (htbl : TblOK tbl) (prog : Program) (sel : Bytes)
    (rootValue : JVal) (s : St) (hs : DriverInv prog s) (m : String) (s' : St) :
    evalSelector tbl sel rootValue s ≠ .inl (.panic m, s') :=
  fun h => (evalSelector_np htbl prog sel rootValue s hs).1 _ _ h m rfl

/-- … in particular as the first thing after `NewEvaluator` -/
theorem selector_never_panics_initial (prog : Program) (sel : Bytes) (rootValue : JVal) (m : String)
    (s' : St) :
    evalSelector expectedRuleTable sel rootValue (newEvaluator prog Heap.empty [] 0) ≠ .inl (.panic m, s') :=
  selector_never_panics _ expectedRuleTable_ok prog sel rootValue _ (newEvaluator_establishes prog) m s'

/-- non-vacuity: a selector that parses and calls a builtin -/
example : (match evalSelector expectedRuleTable b!"$.items[0].name.upper()" (.obj [(b!"items",
      .arr [.obj [(b!"name", .str b!"x")]])]) (newEvaluator Program.empty Heap.empty [] 0) with
    | .inr (.ok _, _) => true | _ => false) = true := by decide +kernel

/-- **A run of a well-formed program never panics**, for every rule table satisfying `TblOK`
    (needed for the selectors), all selector texts and all input files. -/
theorem run_wf_never_panics (tbl : RuleTable) (htbl : TblOK tbl) (prog : Program)
    (hwf : prog.wfB = true) (src : Bytes) (sels : List Bytes) (files : List InputFile) (m : String) :
    (runProgram prog src tbl sels files).outcome ≠ .panic m :=
  runProgram_np htbl prog hwf src sels files m

/-- **No run ever panics** (clause "it never ends in an internal panic", for the panic sites of
    the model): for every rule table whose `literal`/`assign`/`binary` rules sit on the tokens
    they are written for (`TblOK`), every program text, all selector texts and all input files,
    the outcome of `evalProgram` (parse, then run) is not a panic: either the text does not parse,
    or it parses to a well-formed program (`parseProgramSrc_wf`) and `run_wf_never_panics` applies. -/
theorem run_never_panics (tbl : RuleTable) (htbl : TblOK tbl) (src : Bytes) (sels : List Bytes)
    (files : List InputFile) (m : String) :
    (evalProgram tbl src sels files).outcome ≠ .panic m := by
  unfold evalProgram
  split
  · intro h; cases h
  · intro h; cases h
  · rename_i p hp
    exact run_wf_never_panics tbl htbl p (parseProgramSrc_wf htbl src p hp) src sels files m

/-- the hypothesis on the table is needed: with a `literal` rule on a non-literal token the
    parser builds a literal node the evaluator has no case for -/
example : (match (evalProgram ((.rparen, ⟨0, some .literal, none⟩) :: expectedRuleTable)
      b!"BEGIN { ) }" [] []).outcome with
    | .panic _ => true | _ => false) = true := by decide +kernel

/-- **No run ever panics — for the rule table of src/parser.go, unconditionally.** -/
theorem run_never_panics_src (src : Bytes) (sels : List Bytes) (files : List InputFile) (m : String) :
    (evalProgram expectedRuleTable src sels files).outcome ≠ .panic m :=
  run_never_panics expectedRuleTable expectedRuleTable_ok src sels files m

/-- non-vacuity: a run with a function, a selector, member access and output ends normally -/
example : (match (evalProgram expectedRuleTable
      b!"function f(x) { return x + 1 } { print f($.a), $.b[0] }" [b!"$.items"]
      [⟨b!"f", b!"{\"items\": [{\"a\": 1, \"b\": [2]}]}", .eof⟩]).outcome with
    | .ok => true | _ => false) = true := by decide +kernel

/-- **C01, both halves**: the outcome of a run is success, one of the three reported error kinds
    (syntax error, runtime error, JSON input error), or the model declining (`unmodelled`, out of
    fuel) — never an internal signal and never a panic. -/
theorem run_outcome_classified (src : Bytes) (sels : List Bytes) (files : List InputFile) :
    match (evalProgram expectedRuleTable src sels files).outcome with
    | .ok | .syntaxErr _ _ | .runtimeErr _ _ _ | .jsonErr _ | .unmodelled _ | .oof => True
    | .sentinel _ | .panic _ => False := by
  have h1 := run_never_sentinel_src expectedRuleTable src sels files
  have h2 := run_never_panics_src src sels files
  cases ho : (evalProgram expectedRuleTable src sels files).outcome with
  | sentinel g => exact h1 g ho
  | panic m => exact h2 m ho
  | _ => trivial

end Jqawk.C01
