/-
  C14 — the command line is a faithful wrapper.  Theorems about `Cli.run`, the model of
  cli/cli.go `Run` (compared with the real binary on every correspondence run): exit status and
  diagnostics, -o FILE versus -o -, stdin as a file named <stdin>, -f versus the inline
  program, argument order.  `-r E` ≡ `BEGINFILE { $ = E }` is covered by the correspondence
  run (metamorphic relation on the binary), not by a theorem.
-/
import Jqawk.Model.Cli

namespace Jqawk.C14
open Jqawk Cli

/-- an argument that `flag.Parse` takes for a flag: starts with '-' and has at least two bytes -/
def flagLike : Bytes → Bool
  | 45 :: _ :: _ => true
  | _ => false

/-- after the interpreter ran: status 0 without a diagnostic, or status 1 with one and nothing written -/
theorem finish_status (fs : List Entry) (o : Opts) (n : Nat) (r : RunResult)
    (exit : Nat) (out : Bytes) (err : Bool) (w : Option (Bytes × Bytes))
    (h : finish fs o n r = .done exit out err w) :
    (exit = 0 ∧ err = false) ∨ (exit = 1 ∧ err = true ∧ w = none) := by
  unfold finish at h
  repeat' (first
    | (simp only [Result.done.injEq, reduceCtorEq] at h
       obtain ⟨rfl, rfl, rfl, rfl⟩ := h
       simp)
    | (split at h))
  all_goals (first | cases h | skip)

/-- exit status: 0, 1 or 2; a non-zero status always comes with a diagnostic on stderr and no
    output file; no diagnostic means status 0 -/
theorem exit_status (tbl : RuleTable) (argv : List Bytes) (stdin : Bytes) (fs : List Entry)
    (exit : Nat) (out : Bytes) (err : Bool) (w : Option (Bytes × Bytes))
    (h : run tbl argv stdin fs = .done exit out err w) :
    (exit = 0 ∨ exit = 1 ∨ exit = 2) ∧
    (exit ≠ 0 → err = true ∧ w = none) ∧
    (err = false → exit = 0) := by
  unfold run at h
  split at h
  · cases h
  · simp only [Result.done.injEq] at h; obtain ⟨rfl, rfl, rfl, rfl⟩ := h; simp
  · simp only [Result.done.injEq] at h; obtain ⟨rfl, rfl, rfl, rfl⟩ := h; simp
  · split at h
    · simp only [Result.done.injEq] at h; obtain ⟨rfl, rfl, rfl, rfl⟩ := h; simp
    · split at h
      · simp only [Result.done.injEq] at h; obtain ⟨rfl, rfl, rfl, rfl⟩ := h; simp
      · rcases finish_status _ _ _ _ _ _ _ _ h with ⟨rfl, rfl⟩ | ⟨rfl, rfl, rfl⟩ <;> simp

/-- `-o FILE` writes exactly the bytes that `-o -` prints after the program's own output, with
    the same status (for a FILE that can be created) -/
theorem o_file_equals_o_dash (fs : List Entry) (o : Opts) (n : Nat) (r : RunResult) (file : Bytes)
    (hf : file ≠ b!"-") (hne : file ≠ [])
    (hcreate : lookup fs file = none ∧ dirExists fs (dirPart file) = true)
    (out : Bytes) (j : Bytes)
    (h : finish fs { o with outfile := file } n r = .done 0 out false (some (file, j))) :
    finish fs { o with outfile := b!"-" } n r = .done 0 (out ++ j) false none := by
  unfold finish at h ⊢
  have hne' : file.isEmpty = false := by cases file <;> simp_all
  have hd : (b!"-" : Bytes).isEmpty = false := rfl
  have hfd : (file == b!"-") = false := by simpa using hf
  simp only [hne', hd, hfd, hcreate.1, hcreate.2] at h ⊢
  repeat' (first
    | (simp only [Result.done.injEq, reduceCtorEq, Bool.false_eq_true, ↓reduceIte] at h)
    | (split at h))
  all_goals (first | cases h | skip)
  all_goals simp_all

/-- the first non-flag argument ends flag parsing: everything after it is left alone -/
theorem parseFlags_stops (fuel : Nat) (a : Bytes) (rest : List Bytes) (o : Opts)
    (ha : flagLike a = false) : parseFlags (fuel + 1) (a :: rest) o = .ok (o, a :: rest) := by
  cases a with
  | nil => simp [parseFlags]
  | cons c r1 =>
    cases r1 with
    | nil => simp [parseFlags]
    | cons d more =>
      have hc : c ≠ 45 := by
        intro hc; subst hc; simp [flagLike] at ha
      unfold parseFlags
      split
      · rename_i heq
        simp only [List.cons.injEq] at heq
        exact absurd heq.1 hc
      · rfl

theorem parseFlags_f (fuel : Nat) (pf : Bytes) (rest : List Bytes) (o : Opts) :
    parseFlags (fuel + 1) (b!"-f" :: pf :: rest) o = parseFlags fuel rest { o with progFile := pf } := by
  conv => lhs; unfold parseFlags
  simp [splitEq]

/-- `-f FILE` takes the program from the file and ALL remaining arguments as input files;
    the inline form takes the first argument as the program: same program, same files -/
theorem dash_f_equals_inline (tbl : RuleTable) (pf prog : Bytes) (files : List Bytes)
    (stdin : Bytes) (fs : List Entry)
    (hpf : pf ≠ []) (hfile : lookup fs pf = some { name := pf, data := prog })
    (hprog : flagLike prog = false) (hfiles : ∀ f ∈ files.head?, flagLike f = false) :
    run tbl (b!"-f" :: pf :: files) stdin fs = run tbl (prog :: files) stdin fs := by
  have h1 : parseFlags ((prog :: files).length + 1) (prog :: files) {} = .ok ({}, prog :: files) :=
    parseFlags_stops _ _ _ _ hprog
  have h2 : parseFlags ((b!"-f" :: pf :: files).length + 1) (b!"-f" :: pf :: files) {} =
      .ok ({ progFile := pf }, files) := by
    rw [parseFlags_f]
    cases files with
    | nil => simp [parseFlags]
    | cons f rest =>
      have hf : flagLike f = false := hfiles f (by simp)
      exact parseFlags_stops _ f rest _ hf
  unfold run
  rw [h1, h2]
  have hpf' : pf.isEmpty = false := by cases pf <;> simp_all
  have hfin : ∀ n r, finish fs { progFile := pf } n r = finish fs {} n r := by
    intro n r; simp [finish]
  simp [source, hpf', hfile, hfin]

/-- stdin is treated exactly as a file named `<stdin>`: with no file argument the interpreter
    gets one input `<stdin>` with the bytes of standard input -/
theorem stdin_is_a_file (tbl : RuleTable) (prog : Bytes) (stdin : Bytes) (fs : List Entry)
    (hprog : flagLike prog = false) :
    run tbl [prog] stdin fs =
      finish fs {} 1 (evalProgram tbl prog [] [{ name := b!"<stdin>", data := stdin }]) := by
  have h1 : parseFlags 2 [prog] {} = .ok ({}, [prog]) := parseFlags_stops _ _ _ _ hprog
  unfold run
  simp only [List.length_cons, List.length_nil, Nat.zero_add, Nat.reduceAdd, h1]
  simp [source, inputsOf]

/-- … and a named file gives the same run with the file's name and bytes -/
theorem named_file_run (tbl : RuleTable) (prog name data : Bytes) (stdin : Bytes) (fs : List Entry)
    (hprog : flagLike prog = false)
    (hfile : lookup fs name = some { name := name, data := data }) :
    run tbl [prog, name] stdin fs =
      finish fs {} 1 (evalProgram tbl prog [] [{ name := name, data := data }]) := by
  have h1 : parseFlags 3 [prog, name] {} = .ok ({}, [prog, name]) := parseFlags_stops _ _ _ _ hprog
  unfold run
  simp only [List.length_cons, List.length_nil, Nat.zero_add, Nat.reduceAdd, h1]
  simp [source, inputsOf, openFiles, hfile]

/-- a missing input file: non-zero exit, a diagnostic, and the program does not run at all -/
theorem missing_file (tbl : RuleTable) (prog name : Bytes) (stdin : Bytes) (fs : List Entry)
    (hprog : flagLike prog = false) (hfile : lookup fs name = none) :
    run tbl [prog, name] stdin fs = .done 1 [] true none := by
  have h1 : parseFlags 3 [prog, name] {} = .ok ({}, [prog, name]) := parseFlags_stops _ _ _ _ hprog
  unfold run
  simp only [List.length_cons, List.length_nil, Nat.zero_add, Nat.reduceAdd, h1]
  simp [source, inputsOf, openFiles, hfile]

/-- files are handed to the interpreter in the order given -/
theorem files_order (fs : List Entry) (paths : List Bytes) (inputs : List InputFile)
    (h : openFiles fs paths = some inputs) : inputs.map (·.name) = paths := by
  induction paths generalizing inputs with
  | nil => simp [openFiles] at h; subst h; rfl
  | cons p ps ih =>
    simp only [openFiles] at h
    split at h
    · cases h
    · split at h
      · cases h
      · rename_i rest hrest
        simp only [Option.some.injEq] at h
        subst h
        simp only [List.map_cons, ih rest hrest]
        split <;> rfl

theorem parseFlags_r (fuel : Nat) (v : Bytes) (rest : List Bytes) (o : Opts) :
    parseFlags (fuel + 1) (b!"-r" :: v :: rest) o = parseFlags fuel rest { o with sels := o.sels ++ [v] } := by
  conv => lhs; unfold parseFlags
  simp [splitEq]

/-- -r selectors are collected in the order given -/
theorem selectors_order (a b : Bytes) (prog : Bytes) (hprog : flagLike prog = false) :
    parseFlags 6 [b!"-r", a, b!"-r", b, prog] {} = .ok ({ sels := [a, b] }, [prog]) := by
  rw [parseFlags_r, parseFlags_r]
  exact parseFlags_stops _ prog [] _ hprog

end Jqawk.C14
