/-
  C14 — the command line is a faithful wrapper.  Theorems about `Cli.run`, the model of
  cli/cli.go `Run` (compared with the real binary on every correspondence run): exit status and
  diagnostics, -o FILE versus -o -, stdin as a file named <stdin>, -f versus the inline
  program, argument order; and `-r E` ≡ `BEGINFILE { $ = E }` (sections "-r E …" below; proofs
  in Lemmas/Selector*.lean): for selectors built from `$`, literals, member / index steps,
  array and object literals, method calls, operators and `match` (`r_behaves_as_beginfile_rule`),
  and also calls of the builtins for programs that never rebind a builtin name
  (`r_behaves_as_beginfile_rule_builtins`, with `builtins_stay_intact`).
-/
import Jqawk.Model.Cli
import Jqawk.Lemmas.SelectorRun
import Jqawk.Lemmas.ParserWF

namespace Jqawk.C14
open Jqawk Cli

/-- an argument that `flag.Parse` takes for a flag: starts with '-' and has at least two bytes -/
def flagLike : Bytes → Bool
  | 45 :: _ :: _ => true
  | _ => false

/-- after the interpreter ran: status 0 without a diagnostic, or status 1 with one and nothing written -/
theorem finish_status (fs : List Entry) (o : Opts) (n : Nat) (r : RunResult)
    (exit : Nat) (out : Bytes) (err : Bool) (w : Option (Bytes × Bytes))
    (h : finish fs o n r = .done exit out err w) :
    (exit = 0 ∧ err = false) ∨ (exit = 1 ∧ err = true ∧ w = none) := by
  unfold finish at h
  repeat' (first
    | (simp only [Result.done.injEq, reduceCtorEq] at h
       obtain ⟨rfl, rfl, rfl, rfl⟩ := h
       simp)
    | (split at h))
  all_goals (first | cases h | skip)

/-- exit status: 0, 1 or 2; a non-zero status always comes with a diagnostic on stderr and no
    output file; no diagnostic means status 0 — whenever the model gives a result at all
    (`.done`; it gives `.unmodelled` for the flags version, profile, dbg-ast, dbg-lex, for an "unmodelled" or an
    out-of-fuel interpreter outcome, and no claim is made then) -/
theorem exit_status (tbl : RuleTable) (argv : List Bytes) (stdin : Bytes) (fs : List Entry)
    (exit : Nat) (out : Bytes) (err : Bool) (w : Option (Bytes × Bytes))
    (h : run tbl argv stdin fs = .done exit out err w) :
    (exit = 0 ∨ exit = 1 ∨ exit = 2) ∧
    (exit ≠ 0 → err = true ∧ w = none) ∧
    (err = false → exit = 0) := by
  unfold run at h
  split at h
  · cases h
  · simp only [Result.done.injEq] at h; obtain ⟨rfl, rfl, rfl, rfl⟩ := h; simp
  · simp only [Result.done.injEq] at h; obtain ⟨rfl, rfl, rfl, rfl⟩ := h; simp
  · split at h
    · simp only [Result.done.injEq] at h; obtain ⟨rfl, rfl, rfl, rfl⟩ := h; simp
    · split at h
      · simp only [Result.done.injEq] at h; obtain ⟨rfl, rfl, rfl, rfl⟩ := h; simp
      · rcases finish_status _ _ _ _ _ _ _ _ h with ⟨rfl, rfl⟩ | ⟨rfl, rfl, rfl⟩ <;> simp

/-- non-vacuity of `exit_status` / `finish_status`: a successful run, a usage error (status 2)
    and a missing input file (status 1) -/
example : (match run expectedRuleTable [b!"BEGIN { print 1 }"] [] [] with
      | .done e o er w => some (e, o, er, w.isSome) | _ => none) = some (0, b!"1\n", false, false) ∧
    (match run expectedRuleTable [b!"-x"] [] [] with
      | .done e o er w => some (e, o, er, w.isSome) | _ => none) = some (2, [], true, false) ∧
    (match run expectedRuleTable [b!"{ print $ }", b!"nofile"] [] [] with
      | .done e o er w => some (e, o, er, w.isSome) | _ => none) = some (1, [], true, false) := by
  decide +kernel

/-- in the SUCCESSFUL case (status 0, document written) `-o FILE` writes exactly the bytes that
    `-o -` prints after the program's own output, and `-o -` succeeds too — stated for a FILE
    that does not exist yet in an existing directory (`hcreate`; overwriting an existing file and
    the failing cases are not covered by this statement) -/
theorem o_file_equals_o_dash (fs : List Entry) (o : Opts) (n : Nat) (r : RunResult) (file : Bytes)
    (hf : file ≠ b!"-") (hne : file ≠ [])
    (hcreate : lookup fs file = none ∧ dirExists fs (dirPart file) = true)
    (out : Bytes) (j : Bytes)
    (h : finish fs { o with outfile := file } n r = .done 0 out false (some (file, j))) :
    finish fs { o with outfile := b!"-" } n r = .done 0 (out ++ j) false none := by
  unfold finish at h ⊢
  have hne' : file.isEmpty = false := by cases file <;> simp_all
  have hd : (b!"-" : Bytes).isEmpty = false := rfl
  have hfd : (file == b!"-") = false := by simpa using hf
  simp only [hne', hd, hfd, hcreate.1, hcreate.2] at h ⊢
  repeat' (first
    | (simp only [Result.done.injEq, reduceCtorEq, Bool.false_eq_true, ↓reduceIte] at h)
    | (split at h))
  all_goals (first | cases h | skip)
  all_goals simp_all

/-- non-vacuity of `o_file_equals_o_dash`: `-o out.json '{ $.x = 1 }'` on `{"a":2}` in an empty
    working directory -/
example : (match finish [] { outfile := b!"out.json" } 1
        (evalProgram expectedRuleTable b!"{ $.x = 1 }" [] [⟨b!"<stdin>", b!"{\"a\":2}", .eof⟩]) with
      | .done e o er _ => some (e, o, er) | _ => none) = some (0, [], false) ∧
    (match finish [] { outfile := b!"out.json" } 1
        (evalProgram expectedRuleTable b!"{ $.x = 1 }" [] [⟨b!"<stdin>", b!"{\"a\":2}", .eof⟩]) with
      | .done _ _ _ w => w | _ => none)
      = some (b!"out.json", b!"{\n  \"a\": 2,\n  \"x\": 1\n}") ∧
    (lookup [] b!"out.json").isNone = true ∧ dirExists [] (dirPart b!"out.json") = true := by
  decide +kernel

/-- the first non-flag argument ends flag parsing: everything after it is left alone -/
theorem parseFlags_stops (fuel : Nat) (a : Bytes) (rest : List Bytes) (o : Opts)
    (ha : flagLike a = false) : parseFlags (fuel + 1) (a :: rest) o = .ok (o, a :: rest) := by
  cases a with
  | nil => simp [parseFlags]
  | cons c r1 =>
    cases r1 with
    | nil => simp [parseFlags]
    | cons d more =>
      have hc : c ≠ 45 := by
        intro hc; subst hc; simp [flagLike] at ha
      unfold parseFlags
      split
      · rename_i heq
        simp only [List.cons.injEq] at heq
        exact absurd heq.1 hc
      · rfl

theorem parseFlags_f (fuel : Nat) (pf : Bytes) (rest : List Bytes) (o : Opts) :
    parseFlags (fuel + 1) (b!"-f" :: pf :: rest) o = parseFlags fuel rest { o with progFile := pf } := by
  conv => lhs; unfold parseFlags
  simp [splitEq]

/-- `-f FILE` takes the program from the file and ALL remaining arguments as input files;
    the inline form takes the first argument as the program: same program, same files —
    for a program text and a first file name that `flag.Parse` does not take for flags
    (`hprog`, `hfiles`: not `-` followed by at least one more byte) -/
theorem dash_f_equals_inline (tbl : RuleTable) (pf prog : Bytes) (files : List Bytes)
    (stdin : Bytes) (fs : List Entry)
    (hpf : pf ≠ []) (hfile : lookup fs pf = some { name := pf, data := prog })
    (hprog : flagLike prog = false) (hfiles : ∀ f ∈ files.head?, flagLike f = false) :
    run tbl (b!"-f" :: pf :: files) stdin fs = run tbl (prog :: files) stdin fs := by
  have h1 : parseFlags ((prog :: files).length + 1) (prog :: files) {} = .ok ({}, prog :: files) :=
    parseFlags_stops _ _ _ _ hprog
  have h2 : parseFlags ((b!"-f" :: pf :: files).length + 1) (b!"-f" :: pf :: files) {} =
      .ok ({ progFile := pf }, files) := by
    rw [parseFlags_f]
    cases files with
    | nil => simp [parseFlags]
    | cons f rest =>
      have hf : flagLike f = false := hfiles f (by simp)
      exact parseFlags_stops _ f rest _ hf
  unfold run
  rw [h1, h2]
  have hpf' : pf.isEmpty = false := by cases pf <;> simp_all
  have hfin : ∀ n r, finish fs { progFile := pf } n r = finish fs {} n r := by
    intro n r; simp [finish]
  simp [source, hpf', hfile, hfin]

/-- non-vacuity of `dash_f_equals_inline` (and `named_file_run`): the program file and an input
    file in the working directory; the command line with `-f` runs -/
example : ((lookup [⟨b!"p.jq", b!"{ print $.a }", false⟩, ⟨b!"in.json", b!"{\"a\":2}", false⟩] b!"p.jq").map
        fun e => (e.name, e.data, e.isDir)) = some (b!"p.jq", b!"{ print $.a }", false) ∧
    flagLike b!"{ print $.a }" = false ∧ (∀ f ∈ [b!"in.json"].head?, flagLike f = false) ∧
    (match run expectedRuleTable [b!"-f", b!"p.jq", b!"in.json"] []
        [⟨b!"p.jq", b!"{ print $.a }", false⟩, ⟨b!"in.json", b!"{\"a\":2}", false⟩] with
      | .done e o er w => some (e, o, er, w.isSome) | _ => none) = some (0, b!"2\n", false, false) := by
  refine ⟨by decide, by decide, ?_, by decide +kernel⟩
  intro f hf; simp at hf; subst hf; decide

/-- stdin is treated exactly as a file named `<stdin>`: with no file argument the interpreter
    gets one input `<stdin>` with the bytes of standard input -/
theorem stdin_is_a_file (tbl : RuleTable) (prog : Bytes) (stdin : Bytes) (fs : List Entry)
    (hprog : flagLike prog = false) :
    run tbl [prog] stdin fs =
      finish fs {} 1 (evalProgram tbl prog [] [{ name := b!"<stdin>", data := stdin }]) := by
  have h1 : parseFlags 2 [prog] {} = .ok ({}, [prog]) := parseFlags_stops _ _ _ _ hprog
  unfold run
  simp only [List.length_cons, List.length_nil, Nat.zero_add, Nat.reduceAdd, h1]
  simp [source, inputsOf]

/-- … and a named file gives the same run with the file's name and bytes -/
theorem named_file_run (tbl : RuleTable) (prog name data : Bytes) (stdin : Bytes) (fs : List Entry)
    (hprog : flagLike prog = false)
    (hfile : lookup fs name = some { name := name, data := data }) :
    run tbl [prog, name] stdin fs =
      finish fs {} 1 (evalProgram tbl prog [] [{ name := name, data := data }]) := by
  have h1 : parseFlags 3 [prog, name] {} = .ok ({}, [prog, name]) := parseFlags_stops _ _ _ _ hprog
  unfold run
  simp only [List.length_cons, List.length_nil, Nat.zero_add, Nat.reduceAdd, h1]
  simp [source, inputsOf, openFiles, hfile]

/-- a missing input file: non-zero exit, a diagnostic, and the program does not run at all -/
theorem missing_file (tbl : RuleTable) (prog name : Bytes) (stdin : Bytes) (fs : List Entry)
    (hprog : flagLike prog = false) (hfile : lookup fs name = none) :
    run tbl [prog, name] stdin fs = .done 1 [] true none := by
  have h1 : parseFlags 3 [prog, name] {} = .ok ({}, [prog, name]) := parseFlags_stops _ _ _ _ hprog
  unfold run
  simp only [List.length_cons, List.length_nil, Nat.zero_add, Nat.reduceAdd, h1]
  simp [source, inputsOf, openFiles, hfile]

/-- files are handed to the interpreter in the order given -/
theorem files_order (fs : List Entry) (paths : List Bytes) (inputs : List InputFile)
    (h : openFiles fs paths = some inputs) : inputs.map (·.name) = paths := by
  induction paths generalizing inputs with
  | nil => simp [openFiles] at h; subst h; rfl
  | cons p ps ih =>
    simp only [openFiles] at h
    split at h
    · cases h
    · split at h
      · cases h
      · rename_i rest hrest
        simp only [Option.some.injEq] at h
        subst h
        simp only [List.map_cons, ih rest hrest]
        split <;> rfl

/-- non-vacuity of `files_order`: two files opened in the order given -/
example : ((openFiles [⟨b!"b", b!"2", false⟩, ⟨b!"a", b!"1", false⟩] [b!"a", b!"b"]).map
    fun l => l.map (·.data)) = some [b!"1", b!"2"] := by decide

theorem parseFlags_r (fuel : Nat) (v : Bytes) (rest : List Bytes) (o : Opts) :
    parseFlags (fuel + 1) (b!"-r" :: v :: rest) o = parseFlags fuel rest { o with sels := o.sels ++ [v] } := by
  conv => lhs; unfold parseFlags
  simp [splitEq]

/-- -r selectors are collected in the order given (stated for the command line
    `-r a -r b prog` only; the general step is `parseFlags_r`) -/
theorem selectors_order (a b : Bytes) (prog : Bytes) (hprog : flagLike prog = false) :
    parseFlags 6 [b!"-r", a, b!"-r", b, prog] {} = .ok ({ sels := [a, b] }, [prog]) := by
  rw [parseFlags_r, parseFlags_r]
  exact parseFlags_stops _ prog [] _ hprog


/-! ## `-r E` behaves as `BEGINFILE { $ = E }`

The selector is evaluated by a nested evaluator (`evalSelector`) on its own conversion of the
decoded value, and its result is copied into a fresh root cell; the rule is evaluated by the main
evaluator and assigns to the existing `$` cell.  The two runs therefore differ in the ids of their
cells (run A has the builtins of the nested evaluator, a root cell and the selector's temporaries
in addition).  The comparison is a simulation up to an injective renaming of cell ids
(`Sel.allSim`: no evaluator function sees cell ids), re-established after every decoded value
(`Sel.junction`) and carried through the whole run (`Sel.runProgram_rel`).

Statements are about ASTs: run A is `runProgram prog src tbl [sel] files`, run B is
`runProgram (withSel prog T E) src tbl [] files` where `E` is what `sel` parses to and `withSel`
puts the rule `BEGINFILE { $ = E }` (tokens `T`) in front of the rules of `prog`.  In a program
*text* the tokens of `E` have other positions than in the selector text; positions only occur in
reported runtime errors, which the relation below compares by class and message anyway. -/

open Sel in
/-- **Core lemma (every evaluator function, any program, any fuel on either side).**  Two runs
    from states related by a renaming of cell ids (`SR`: heaps, frames, `$`, output) give related
    results: both out of fuel (no claim), or both the same error / signal, or both a value, related
    again — provided the code only looks up identifiers the context allows (`idsE`/`idsS`: all
    of them for two main evaluators; `$` and allowed names when a nested selector evaluator, whose
    frames hold the builtins only, is compared with the main evaluator; everything but `$` in
    ENDFILE rules).  Settles: "a closed expression evaluates to the same value, with the same
    output and the same error, in the nested evaluator of `-r` and in a rule of the program". -/
theorem evaluator_ignores_cell_ids (nA nB : Nat) : Sel.AllSim nA nB := Sel.allSim nA nB

open Sel in
/-- **Expression level, observably**: in related states (e.g. the selector's nested evaluator
    and the main evaluator in a rule, both with `$` bound to a fresh conversion of the same
    value) an expression whose identifiers are allowed gives the same JSON rendering, the same
    printed form, the same output and the same error — when BOTH evaluations end; if either is
    out of fuel (at the given `nA`, `nB`) the statement claims nothing.  `E` may call methods and
    builtins, contain array / object literals, `match`, even assignments. -/
theorem selector_expression_same_value {X : XCtx} (g : GoodX X) (E : Expr)
    (hE : idsE X.allowD X.allow E = true) {sA sB : St} (hs : SR X sA sB) (nA nB : Nat) :
    match evalExpr X.progA nA E sA, evalExpr X.progB nB E sB with
    | .oof, _ => True
    | .ok _ _, .oof => True
    | .err _ _, .oof => True
    | .ok a sA', .ok b sB' =>
      toJValTop sA'.heap (sA'.heap.get a) = toJValTop sB'.heap (sB'.heap.get b) ∧
      prettyTop sA'.heap (sA'.heap.get a) = prettyTop sB'.heap (sB'.heap.get b) ∧
      sA'.output = sB'.output
    | .err eA sA', .err eB sB' => eA = eB ∧ sA'.output = sB'.output
    | .ok _ _, .err _ _ => False
    | .err _ _, .ok _ _ => False := by
  have h := (allSim nA nB).expr g sB.heap.cells.size E hE sA sB hs (Nat.le_refl _)
  revert h
  generalize evalExpr X.progA nA E sA = ra
  generalize evalExpr X.progB nB E sB = rb
  intro h
  cases ra with
  | oof => trivial
  | ok a sA' =>
    cases rb with
    | oof => trivial
    | err _ _ => exact h.elim
    | ok b sB' =>
      obtain ⟨_, hc, hs'⟩ := h
      have hv := hs'.heap.get hc (Nat.le_refl _)
      exact ⟨toJValTop_rel hs'.heap hv (Nat.le_refl _), prettyTop_rel hs'.heap hv (Nat.le_refl _), hs'.output⟩
  | err eA sA' =>
    cases rb with
    | oof => trivial
    | ok _ _ => exact h.elim
    | err eB sB' => exact ⟨h.2.1, h.2.2.1.output⟩

open Sel in
/-- **One decoded value.**  From related main evaluators (`hs`), the selector (`evalSelector`)
    and the conversion of the value followed by the rule `$ = E` (`ruleStep`) end alike
    (`JRel`): the same error (class and message; position and text differ by construction), or
    both succeed and the main evaluators are related again by a new renaming under which the
    root cell of run A corresponds to the `$` cell of run B — so that everything the program does
    afterwards with `$`, its members (sharing included) and `-o` is the same.

    `E` is a selector of the class `selX (fun _ => false)`: `$` (the only identifier), literals,
    member / index steps, array and object literals (`[$.a, $.b]`, `{k: $.x}`), method calls
    (`$.pluck("a")`, `$.result.sort()`, `.length()`, `.upper()`, `.split(..)`, … — every native
    method, `push`/`pop` on arrays of the document included), operators other than assignment
    and `++`/`--`, `match` with expression bodies; `E` comes from the parser (`TblOK tbl`, used
    for `E.wfB`).

    What makes the containers created by `E` harmless (`Sel.allPl`, `Sel.junction_heap`): in run
    B their member cells live in the main heap next to the `$` cell, which the rule then
    overwrites; the proof shows that member cells of containers created by `E` are never the `$`
    cell and hold plain values or containers only (`Sel.MPH`), and that everything that existed
    before `E` ran — cells, arrays and objects of the document — is untouched or changed alike
    (`Sel.Froz`). -/
theorem selector_step (prog : Program) (T : SelTok) (E : Expr) (hE : selX (fun _ => false) E = true)
    (tbl : RuleTable) (htbl : TblOK tbl)
    (sel : Bytes) (hparse : parseExpressionSrc tbl sel = .ok E) (v : JVal) {K : Ctx} (wf : K.WF)
    (h0 : K.a0 = 0) (h0' : K.o0 = 0) (hKA : K.progA = prog) (hKB : K.progB = withSel prog T E)
    {sA sB : St} (hs : SR (mainX K) sA sB) (hlen : sB.frames.length = 1) :
    JRel prog (withSel prog T E) sel (evalSelector tbl sel v sA) (ruleStep (withSel prog T E) T E v sB) :=
  junction prog T E false hE (parseExpressionSrc_wf htbl sel E hparse) tbl sel hparse v wf h0 h0' hKA hKB hs hlen
    (fun h => by cases h)

open Sel in
/-- **Whole runs: (a single) `-r E` behaves as `BEGINFILE { $ = E }`.**  For every program `prog` whose
    ENDFILE rules (and, if it has any, the functions they might call) do not read `$`
    (`EndOK`; BEGINFILE rules and pattern rules are unrestricted — they see the selected value in
    both runs), every selector `E` of the class described at `selector_step` (container-creating
    selectors and method calls included; identifiers other than `$` excluded — for calls of the
    builtins `num`, `json`, `printf` see `r_behaves_as_beginfile_rule_builtins` below), all input
    files: unless one of the runs is out of fuel,
    * the outcome is of the same class with the same message (`OutcomeRel`: a runtime error in
      the selector is reported against the selector text by run A, against the program text by
      run B);
    * the output is the same;
    * on success `GetRootJson`, i.e. what `-o` writes, is the same.

    Observed on the binary, outside the model (which abstracts messages): when the selected value
    cannot be copied (`-r '$.s.length'`), Go's message ends in the tag of the *target* cell —
    "cannot copy a nativefunction to a unknown" with `-r` (a fresh root cell), "… to a object"
    with the rule (the `$` cell still holds the document); class, exit status and output agree. -/
theorem r_behaves_as_beginfile_rule (tbl : RuleTable) (htbl : TblOK tbl) (prog : Program) (T : SelTok)
    (E : Expr) (sel src : Bytes)
    (files : List InputFile) (hparse : parseExpressionSrc tbl sel = .ok E)
    (hE : selX (fun _ => false) E = true) (hend : EndOK prog) :
    let rA := runProgram prog src tbl [sel] files
    let rB := runProgram (withSel prog T E) src tbl [] files
    rA.outcome = .oof ∨ rB.outcome = .oof ∨
      (OutcomeRel sel src rA.outcome rB.outcome ∧ rA.out = rB.out ∧
        (rA.outcome = .ok → rA.st.bind getRootJson = rB.st.bind getRootJson)) :=
  runProgram_rel prog T E false hE (parseExpressionSrc_wf htbl sel E hparse) (fun h => by cases h) tbl sel hparse
    src hend files

open Sel in
/-- the container-free selectors (`selE`: `$`, literals, member / index steps, operators,
    `match`) of the first version of this theorem are a special case -/
theorem r_behaves_as_beginfile_rule_path (tbl : RuleTable) (htbl : TblOK tbl) (prog : Program) (T : SelTok)
    (E : Expr) (sel src : Bytes)
    (files : List InputFile) (hparse : parseExpressionSrc tbl sel = .ok E) (hE : selE E = true)
    (hend : EndOK prog) :
    let rA := runProgram prog src tbl [sel] files
    let rB := runProgram (withSel prog T E) src tbl [] files
    rA.outcome = .oof ∨ rB.outcome = .oof ∨
      (OutcomeRel sel src rA.outcome rB.outcome ∧ rA.out = rB.out ∧
        (rA.outcome = .ok → rA.st.bind getRootJson = rB.st.bind getRootJson)) :=
  r_behaves_as_beginfile_rule tbl htbl prog T E sel src files hparse (selE_selX _ E hE) hend

open Sel in
/-- … and therefore the command line ends alike: same exit status, same standard output, a
    diagnostic in the same cases, and `-o` writes the same bytes to the same file (or after the
    output for `-o -`). -/
theorem r_behaves_as_beginfile_rule_cli (tbl : RuleTable) (htbl : TblOK tbl) (prog : Program) (T : SelTok)
    (E : Expr)
    (sel src : Bytes) (files : List InputFile) (hparse : parseExpressionSrc tbl sel = .ok E)
    (hE : selX (fun _ => false) E = true) (hend : EndOK prog) (fs : List Entry) (o : Opts) (n : Nat)
    (hA : (runProgram prog src tbl [sel] files).outcome ≠ .oof)
    (hB : (runProgram (withSel prog T E) src tbl [] files).outcome ≠ .oof) :
    finish fs o n (runProgram prog src tbl [sel] files) =
      finish fs o n (runProgram (withSel prog T E) src tbl [] files) := by
  have h := r_behaves_as_beginfile_rule tbl htbl prog T E sel src files hparse hE hend
  rcases h with h | h | ⟨h1, h2, h3⟩
  · exact absurd h hA
  · exact absurd h hB
  · revert h1 h2 h3 hA hB
    generalize runProgram prog src tbl [sel] files = rA
    generalize runProgram (withSel prog T E) src tbl [] files = rB
    intro hA hB h1 h2 h3
    unfold finish
    cases hoA : rA.outcome <;> cases hoB : rB.outcome <;> rw [hoA, hoB] at h1 <;>
      first
        | exact h1.elim
        | (simp only [h2]; done)
        | (simp only [h2, h3 hoA]; done)
        | rfl

/-! ### selectors that call the builtins `num`, `json`, `printf`

In run A the selector's nested evaluator has builtins of its own; in run B the rule looks the names
up in the main evaluator, where the program may have put something else.  The two runs agree for
programs that never rebind a builtin name — `Sel.okProg`: the names `printf`, `json`, `num` occur
in the program only as the callee of a call, and no function, parameter, pattern binding or loop
variable has such a name.  That this *syntactic* condition keeps the root frame's bindings of the
three names and the cells they are bound to intact at every point of the run is proved by a
separate invariant of the whole evaluator (`Sel.InvB`, `Sel.allBP`: every cell an expression hands
out, every member of every array and object, every binding other than those three lies outside
the builtin cells, and every write goes to such a cell). -/

open Sel in
/-- **The program leaves the builtins alone**: for a program satisfying `okProg` (and well
    formed, as the parser guarantees), every evaluator function, at every fuel, from every state
    satisfying the invariant `InvB` — the root frame binds `printf`, `json`, `num` to the cells
    `b0` says, the cells outside the region (0, 1, 2 in the main evaluator) hold what they held
    in `h0`, nothing else refers to them — ends in a state satisfying it again, and
    `NewEvaluator` establishes it with the natives in the cells 0, 1, 2. -/
theorem builtins_stay_intact (prog : Program) (hwf : prog.wfB = true) (hok : okProg prog = true) :
    (∀ (h0 : Heap) (b0 : Bytes → Option CellId) (n : Nat), AllBP (P3 prog) h0 b0 prog n) ∧
    InvB (P3 prog) (newEvaluator prog Heap.empty [] 0).heap b0m KAny (newEvaluator prog Heap.empty [] 0) ∧
    (newEvaluator prog Heap.empty [] 0).heap.get 0 = .native .printf none none ∧
    (newEvaluator prog Heap.empty [] 0).heap.get 1 = .native .json none none ∧
    (newEvaluator prog Heap.empty [] 0).heap.get 2 = .native .num none none :=
  ⟨fun h0 b0 n => allBP (P3 prog) h0 b0 prog (Nat.le_refl _) (Program.wfB_functions hwf) (okProg_functions hok) n,
   newEvaluator_invB prog hok⟩

open Sel in
/-- **One decoded value, builtins allowed**: as `selector_step`, for selectors of the class
    `selX isB` (calls of `num(..)`, `json(..)`, `printf(..)` in addition) in which the builtin
    names occur as callees only (`okE`), from main evaluators related as there where that of run B
    satisfies the builtin invariant (`BInv`). -/
theorem selector_step_builtins (prog : Program) (T : SelTok) (E : Expr) (hE : selX isB E = true)
    (hEok : okE E = true) (tbl : RuleTable) (htbl : TblOK tbl)
    (sel : Bytes) (hparse : parseExpressionSrc tbl sel = .ok E) (v : JVal) {K : Ctx} (wf : K.WF)
    (h0 : K.a0 = 0) (h0' : K.o0 = 0) (hKA : K.progA = prog) (hKB : K.progB = withSel prog T E)
    {sA sB : St} (hs : SR (mainX K) sA sB) (hlen : sB.frames.length = 1)
    (hinv : BInv (withSel prog T E) sB) (hwfB : (withSel prog T E).wfB = true)
    (hokB : okProg (withSel prog T E) = true) :
    JRel prog (withSel prog T E) sel (evalSelector tbl sel v sA) (ruleStep (withSel prog T E) T E v sB) :=
  junction prog T E true hE (parseExpressionSrc_wf htbl sel E hparse) tbl sel hparse v wf h0 h0' hKA hKB hs hlen
    (fun _ => ⟨hinv, hwfB, hokB, hEok⟩)

open Sel in
/-- **Whole runs, selectors that call builtins.**  As `r_behaves_as_beginfile_rule`, with
    selectors that may also call `num(..)`, `json(..)` and `printf(..)` (class `selX isB`, the
    builtin names as callees only: `okE`), for programs that never rebind a builtin name
    (`okProg`, a syntactic condition) and whose ENDFILE rules do not read `$`: unless one of the
    runs is out of fuel, same outcome class and message, same output (what `printf` in the
    selector prints included), same `-o` document.  (`hT`: the `$` token of the rule is not
    spelled like a builtin.) -/
theorem r_behaves_as_beginfile_rule_builtins (tbl : RuleTable) (htbl : TblOK tbl) (prog : Program)
    (T : SelTok) (E : Expr) (sel src : Bytes) (files : List InputFile)
    (hparse : parseExpressionSrc tbl sel = .ok E) (hprog : parseProgramSrc tbl src = .ok prog)
    (hE : selX isB E = true) (hEok : okE E = true) (hok : okProg prog = true)
    (hT : isB T.dtok.text = false) (hend : EndOK prog) :
    let rA := runProgram prog src tbl [sel] files
    let rB := runProgram (withSel prog T E) src tbl [] files
    rA.outcome = .oof ∨ rB.outcome = .oof ∨
      (OutcomeRel sel src rA.outcome rB.outcome ∧ rA.out = rB.out ∧
        (rA.outcome = .ok → rA.st.bind getRootJson = rB.st.bind getRootJson)) :=
  runProgram_rel prog T E true hE (parseExpressionSrc_wf htbl sel E hparse)
    (fun _ => ⟨parseProgramSrc_wf htbl src prog hprog, hok, hEok, hT⟩) tbl sel hparse src hend files

open Sel in
/-- … and the command line ends alike -/
theorem r_behaves_as_beginfile_rule_builtins_cli (tbl : RuleTable) (htbl : TblOK tbl) (prog : Program)
    (T : SelTok) (E : Expr) (sel src : Bytes) (files : List InputFile)
    (hparse : parseExpressionSrc tbl sel = .ok E) (hprog : parseProgramSrc tbl src = .ok prog)
    (hE : selX isB E = true) (hEok : okE E = true) (hok : okProg prog = true)
    (hT : isB T.dtok.text = false) (hend : EndOK prog) (fs : List Entry) (o : Opts) (n : Nat)
    (hA : (runProgram prog src tbl [sel] files).outcome ≠ .oof)
    (hB : (runProgram (withSel prog T E) src tbl [] files).outcome ≠ .oof) :
    finish fs o n (runProgram prog src tbl [sel] files) =
      finish fs o n (runProgram (withSel prog T E) src tbl [] files) := by
  have h := r_behaves_as_beginfile_rule_builtins tbl htbl prog T E sel src files hparse hprog hE hEok hok hT hend
  rcases h with h | h | ⟨h1, h2, h3⟩
  · exact absurd h hA
  · exact absurd h hB
  · revert h1 h2 h3 hA hB
    generalize runProgram prog src tbl [sel] files = rA
    generalize runProgram (withSel prog T E) src tbl [] files = rB
    intro hA hB h1 h2 h3
    unfold finish
    cases hoA : rA.outcome <;> cases hoB : rB.outcome <;> rw [hoA, hoB] at h1 <;>
      first
        | exact h1.elim
        | (simp only [h2]; done)
        | (simp only [h2, h3 hoA]; done)
        | rfl

/-! ### non-vacuity, and what delimits the claim (all checked on the model; the same command
lines were run on the binary) -/

/-- the hypothesis `TblOK tbl` of the theorems above holds for the rule table of the parser -/
example : TblOK expectedRuleTable := expectedRuleTable_ok

/-- decidable form of `Sel.EndOK` -/
def endOKB (prog : Program) : Bool :=
  (rulesOf prog .endFile).all (fun r => Sel.idsS false (fun _ => true) r.body) &&
  ((rulesOf prog .endFile).isEmpty || prog.functions.all (fun f => Sel.idsS false (fun _ => true) f.body))

theorem endOK_of_B (prog : Program) (h : endOKB prog = true) : Sel.EndOK prog := by
  simp only [endOKB, Bool.and_eq_true, Bool.or_eq_true, List.all_eq_true, List.isEmpty_iff] at h
  refine ⟨h.1, fun hne => ?_⟩
  rcases h.2 with h2 | h2
  · exact absurd h2 hne
  · exact h2

/-- what a user can observe of a run: class of the outcome and message, output, what `-o` writes -/
def obs (r : RunResult) : (Nat × String) × Bytes × Option Bytes :=
  ((match r.outcome with
    | .ok => (0, "")
    | .syntaxErr _ e => (1, e.msg)
    | .runtimeErr _ _ m => (2, m)
    | .jsonErr _ => (3, "")
    | .sentinel _ => (4, "")
    | .panic m => (5, m)
    | .unmodelled w => (6, w)
    | .oof => (7, "")), r.out, r.st.bind getRootJson)

def doc1 : InputFile :=
  ⟨b!"f", b!"{\"status\":\"ok\",\"result\":[{\"name\":\"a\"},{\"name\":\"b\"}],\"a\":{\"k\":1},\"s\":\"hello\",\"n\":3.7}", .eof⟩

/-- the hypotheses of `r_behaves_as_beginfile_rule` hold for the README's example: the selector
    `$.result` parses to a (container-free) selector of the class, the program has no ENDFILE rule -/
example : (match parseExpressionSrc expectedRuleTable b!"$.result" with
      | .ok e => Sel.selE e && Sel.selX (fun _ => false) e | _ => false) = true ∧
    (match parseProgramSrc expectedRuleTable b!"{ print $.name }" with
      | .ok p => endOKB p | _ => false) = true := by decide +kernel

/-- the hypotheses `hA`, `hB` of `r_behaves_as_beginfile_rule_cli`: the README's run ends
    normally (not out of fuel), with output -/
example : (obs (evalProgram expectedRuleTable b!"{ print $.name }" [b!"$.result"] [doc1])).1 = (0, "") ∧
    (obs (evalProgram expectedRuleTable b!"{ print $.name }" [b!"$.result"] [doc1])).2.1 = b!"a\nb\n" := by
  decide +kernel

/-- … also with operators, index steps, `match`, and an ENDFILE rule that does not read `$` -/
example : (match parseExpressionSrc expectedRuleTable b!"match ($.n) { 3.7 => $.result[0].name + \"x\", y => $.a.k * 2 }" with
      | .ok e => Sel.selE e && Sel.selX (fun _ => false) e | _ => false) = true ∧
    (match parseProgramSrc expectedRuleTable b!"function f(x) { return x + 1 } { print f($) } ENDFILE { print \"end\" }" with
      | .ok p => endOKB p | _ => false) = true := by decide +kernel

/-- the README's pair of command lines, as texts: same outcome, output and `-o` document -/
example : obs (evalProgram expectedRuleTable b!"{ print $.name }" [b!"$.result"] [doc1]) =
    obs (evalProgram expectedRuleTable b!"BEGINFILE { $ = $.result } { print $.name }" [] [doc1]) := by
  decide +kernel

/-- container-creating selectors and method calls are in the class … -/
example : ([b!"[$.a, $.s]", b!"{k: $.n, \"r\": $.result}", b!"$.pluck(\"s\", \"a\")", b!"$.result.sort()",
      b!"$.s.length()", b!"$.s.upper()", b!"$.s.split(\"l\")", b!"[$.result.length(), {x: [$.a]}]",
      b!"$.a.keys()", b!"match ($.s.upper()) { \"HELLO\" => [$.n], y => $ }"].all (fun sel =>
    match parseExpressionSrc expectedRuleTable sel with
    | .ok e => Sel.selX (fun _ => false) e | _ => false)) = true := by decide +kernel

/-- … and the two command lines agree on them (outcome, output, `-o` document): an array
    literal whose members share containers of the document (each member is a record; the
    object `$.a` occurs twice, so the change made at the first record shows at the third) -/
example : obs (evalProgram expectedRuleTable b!"{ print $; $.x = 1 }" [b!"[$.a, $.result[0], $.a]"] [doc1]) =
    obs (evalProgram expectedRuleTable b!"BEGINFILE { $ = [$.a, $.result[0], $.a] } { print $; $.x = 1 }" [] [doc1]) ∧
    (obs (evalProgram expectedRuleTable b!"{ print $; $.x = 1 }" [b!"[$.a, $.result[0], $.a]"] [doc1])).2.1 =
      b!"{\"k\": 1}\n{\"name\": \"a\"}\n{\"k\": 1, \"x\": 1}\n" := by
  decide +kernel

/-- … an object literal and `pluck` (for `sort` the model uses `List.mergeSort`, which the kernel
    does not evaluate; the pair `-r '[$.s, "b", $.status].sort()'` / `BEGINFILE { $ = … }` was
    compared on the binary and with `jqmodel`: `b`, `hello`, `ok` on three lines, both) -/
example : obs (evalProgram expectedRuleTable b!"{ print $ }" [b!"{k: $.a.k, \"r\": $.pluck(\"s\", \"a\")}"] [doc1]) =
    obs (evalProgram expectedRuleTable b!"BEGINFILE { $ = {k: $.a.k, \"r\": $.pluck(\"s\", \"a\")} } { print $ }" [] [doc1]) ∧
    (obs (evalProgram expectedRuleTable b!"{ print $ }" [b!"{k: $.a.k, \"r\": $.pluck(\"s\", \"a\")}"] [doc1])).2.1 =
      b!"{\"k\": 1, \"r\": {\"a\": {\"k\": 1}, \"s\": \"hello\"}}\n" := by
  decide +kernel

/-- … non-mutating methods of strings -/
example : obs (evalProgram expectedRuleTable b!"{ print $ }" [b!"[$.s.length(), $.s.upper(), $.s.split(\"l\")]"] [doc1]) =
    obs (evalProgram expectedRuleTable b!"BEGINFILE { $ = [$.s.length(), $.s.upper(), $.s.split(\"l\")] } { print $ }" [] [doc1]) ∧
    (obs (evalProgram expectedRuleTable b!"{ print $ }" [b!"[$.s.length(), $.s.upper(), $.s.split(\"l\")]"] [doc1])).2.1 =
      b!"5\nHELLO\n[\"he\", \"\", \"o\"]\n" := by
  decide +kernel

/-- sharing (clause c): the root selected by `-r '$.a'` and the `$` assigned by the rule are
    both cells of their own sharing the object with the original document; a later `$.x = 1`
    shows in what `-o` writes in the same way -/
example : obs (evalProgram expectedRuleTable b!"{ $.x = 1 }" [b!"$.a"] [doc1]) =
    obs (evalProgram expectedRuleTable b!"BEGINFILE { $ = $.a } { $.x = 1 }" [] [doc1]) ∧
    (obs (evalProgram expectedRuleTable b!"{ $.x = 1 }" [b!"$.a"] [doc1])).2.2 =
      some b!"{\n  \"k\": 1,\n  \"x\": 1\n}" := by
  decide +kernel

/-- a missing member (the repaired defect D45): the selected root is `null` in both runs and a
    member cannot be created in it — the same runtime error -/
example : obs (evalProgram expectedRuleTable b!"{ $.x = 1 }" [b!"$.missing"] [doc1]) =
    obs (evalProgram expectedRuleTable b!"BEGINFILE { $ = $.missing } { $.x = 1 }" [] [doc1]) ∧
    (obs (evalProgram expectedRuleTable b!"{ $.x = 1 }" [b!"$.missing"] [doc1])).1 =
      (2, "could not create this object") := by
  decide +kernel

/-- a runtime error in the selector itself: same class and message (run A reports it against the
    selector text, run B against the program text) -/
example : obs (evalProgram expectedRuleTable b!"{ print $ }" [b!"$.n / 0"] [doc1]) =
    obs (evalProgram expectedRuleTable b!"BEGINFILE { $ = $.n / 0 } { print $ }" [] [doc1]) ∧
    (match (evalProgram expectedRuleTable b!"{ print $ }" [b!"$.n / 0"] [doc1]).outcome,
           (evalProgram expectedRuleTable b!"BEGINFILE { $ = $.n / 0 } { print $ }" [] [doc1]).outcome with
     | .runtimeErr sA pA _, .runtimeErr sB pB _ => sA == b!"$.n / 0" && pA == 4 && sB != sA && pB == 20
     | _, _ => false) = true := by
  decide +kernel

def doc2 : InputFile := ⟨b!"f", b!"{\"payload\":\"{\\\"x\\\":[1,2]}\",\"count\":\"12\",\"a\":{\"k\":1}}", .eof⟩

/-- selectors that call builtins: they are in the class of `r_behaves_as_beginfile_rule_builtins`,
    and programs that call `printf` / `num` (as everyday programs do) satisfy `okProg` -/
example : ([b!"num($.count) + 1", b!"json($.a)", b!"[num($.count) + 1, $.count.length()]",
      b!"printf(\"sel %s\\n\", $.count)"].all (fun sel =>
    match parseExpressionSrc expectedRuleTable sel with
    | .ok e => Sel.selX Sel.isB e && Sel.okE e | _ => false)) = true ∧
    ([b!"{ printf(\"%s\\n\", $) }", b!"function f(x) { return num(x) + 1 } { print f($) } ENDFILE { printf(\"end\\n\") }"].all
      (fun src => match parseProgramSrc expectedRuleTable src with
        | .ok p => Sel.okProg p && endOKB p | _ => false)) = true := by decide +kernel

/-- … the two command lines agree: `num`, `json` and a method call -/
example : obs (evalProgram expectedRuleTable b!"{ print $ }" [b!"[num($.count) + 1, $.count.length(), json($.a)]"] [doc2]) =
    obs (evalProgram expectedRuleTable b!"BEGINFILE { $ = [num($.count) + 1, $.count.length(), json($.a)] } { print $ }" [] [doc2]) ∧
    (obs (evalProgram expectedRuleTable b!"{ print $ }" [b!"[num($.count) + 1, $.count.length(), json($.a)]"] [doc2])).2.1 =
      b!"13\n2\n{\n  \"k\": 1\n}\n" := by
  decide +kernel

/-- … `printf` in the selector prints in both runs (and the selected value is `null`) -/
example : obs (evalProgram expectedRuleTable b!"{ print $ }" [b!"printf(\"sel %s\\n\", $.count)"] [doc2]) =
    obs (evalProgram expectedRuleTable b!"BEGINFILE { $ = printf(\"sel %s\\n\", $.count) } { print $ }" [] [doc2]) ∧
    (obs (evalProgram expectedRuleTable b!"{ print $ }" [b!"printf(\"sel %s\\n\", $.count)"] [doc2])).2.1 =
      b!"sel 12\nnull\n" := by
  decide +kernel

/-- **delimits the claim (`okProg`)**: a function named like a builtin replaces it in the main
    evaluator, not in the selector's — `okProg` fails, and the two command lines differ -/
example : (match parseProgramSrc expectedRuleTable b!"function num(x) { return 99 } { print $ }" with
      | .ok p => Sel.okProg p | _ => true) = false ∧
    (obs (evalProgram expectedRuleTable b!"function num(x) { return 99 } { print $ }" [b!"num($.count)"] [doc2])).2.1 = b!"12\n" ∧
    (obs (evalProgram expectedRuleTable b!"BEGINFILE { $ = num($.count) } function num(x) { return 99 } { print $ }" [] [doc2])).2.1 =
      b!"99\n" := by
  decide +kernel

/-- **several `-r` flags** are outside these theorems: all selectors of a decoded value are
    evaluated before any rule runs for it (C02 `selectors_in_order_per_value`), so a run with
    `-r E1 -r E2` is not the single-selector processing of `E1` followed by that of `E2` — an
    error in `E2` comes before the output for the first root — and no rule runs once per selector.
    Two roots in order; and nothing printed when the second selector fails (same on the binary). -/
example : (obs (evalProgram expectedRuleTable b!"{ print $ }" [b!"$.a", b!"$.s"] [doc1])).2.1 = b!"{\"k\": 1}\nhello\n" ∧
    (obs (evalProgram expectedRuleTable b!"{ print $ }" [b!"$.a", b!"$.s / 0"] [doc1])).2.1 = b!"" ∧
    (obs (evalProgram expectedRuleTable b!"{ print $ }" [b!"$.a", b!"$.s / 0"] [doc1])).1 = (2, "divide by zero") ∧
    (obs (evalProgram expectedRuleTable b!"{ print $ }" [b!"$.a"] [doc1])).2.1 = b!"{\"k\": 1}\n" := by
  decide +kernel

/-- **delimits the claim (a)**: an identifier other than `$` is the program's global in the rule
    and an unset local of the nested evaluator in the selector -/
example : (obs (evalProgram expectedRuleTable b!"BEGIN { x = 5 } { print $ }" [b!"x"] [doc1])).2.1 = b!"<unknown>\n" ∧
    (obs (evalProgram expectedRuleTable b!"BEGINFILE { $ = x } BEGIN { x = 5 } { print $ }" [] [doc1])).2.1 = b!"5\n" := by
  decide +kernel

/-- … `$file` exists in the main evaluator only -/
example : (obs (evalProgram expectedRuleTable b!"{ print $ }" [b!"$file"] [doc1])).1 = (2, "unknown variable") ∧
    (obs (evalProgram expectedRuleTable b!"BEGINFILE { $ = $file } { print $ }" [] [doc1])).2.1 = b!"f\n" := by
  decide +kernel

/-- … a builtin the program has rebound is the original builtin in the selector -/
example : (obs (evalProgram expectedRuleTable b!"BEGIN { num = 5 } { print $ }" [b!"num(\"12\")"] [doc1])).2.1 = b!"12\n" ∧
    (obs (evalProgram expectedRuleTable b!"BEGINFILE { $ = num(\"12\") } BEGIN { num = 5 } { print $ }" [] [doc1])).1 =
      (2, "attempted to call a non-function") := by
  decide +kernel

/-- **delimits the claim**: `next` raised inside a selector (a `match` case with a statement
    body) skips the root — no rule runs for it —, in the rule it just ends the rule, with `$`
    unchanged -/
example : (obs (evalProgram expectedRuleTable b!"{ print \"rule\" }" [b!"match ($) { x => { next } }"] [doc1])).2.1 = b!"" ∧
    (obs (evalProgram expectedRuleTable b!"BEGINFILE { $ = match ($) { x => { next } } } { print \"rule\" }" [] [doc1])).2.1 =
      b!"rule\n" := by
  decide +kernel

/-- **delimits the claim (the property's proviso)**: an ENDFILE rule that reads `$` sees the
    document as it was before the BEGINFILE rules — the selected value with `-r`, the whole
    document with the rule -/
example : (obs (evalProgram expectedRuleTable b!"ENDFILE { print $ }" [b!"$.a"] [doc1])).2.1 = b!"{\"k\": 1}\n" ∧
    (obs (evalProgram expectedRuleTable b!"BEGINFILE { $ = $.a } ENDFILE { print $ }" [] [doc1])).2.1 ≠ b!"{\"k\": 1}\n" := by
  decide +kernel
/-! ## `-o` and the number of inputs (added after the statement review: REVIEW.md, C14)

cli/cli.go runs the whole program first (`lang.EvalProgram`, writing to stdout) and looks at `-o`
only afterwards: with more than one input path it prints "error writing JSON: can't write JSON with
more than one input file" on stderr and returns 1 without opening the `-o` target.  The model's
`Result.done exit out errNonEmpty written` records the exit status, the bytes on stdout, WHETHER
anything was written to stderr (not the text) and the file written, if any. -/

/-- is the program's run one the model gives a result for (`finish` answers `.unmodelled` for an
    interpreter outcome "unmodelled" or "out of fuel") -/
def modelled (r : RunResult) : Bool :=
  match r.outcome with
  | .unmodelled _ | .oof => false
  | _ => true

/-- can `os.Create(file)` succeed: an existing entry that is not a directory, or a new name in an
    existing directory -/
def creatable (fs : List Entry) (file : Bytes) : Bool :=
  match lookup fs file with
  | some e => !e.isDir
  | none => dirExists fs (dirPart file)

/-- **`-o` with several inputs is an error** (after the interpreter ran): whatever the program did
    — success or failure —, with a non-empty `-o` value (a file name or `-`) and two or more input
    paths the result is exit status 1, a diagnostic on stderr, NOTHING written to the `-o` target
    (and nothing appended to stdout for `-o -`): stdout holds exactly the program's own output
    `r.out`, all of it, since the program ran to its end before `-o` was looked at. -/
theorem o_several_inputs_finish (fs : List Entry) (o : Opts) (n : Nat) (r : RunResult)
    (ho : o.outfile ≠ []) (hn : 2 ≤ n) (hm : modelled r = true) :
    finish fs o n r = .done 1 r.out true none := by
  have ho' : o.outfile.isEmpty = false := by cases h : o.outfile <;> simp_all
  have hn' : n > 1 := hn
  unfold finish
  unfold modelled at hm
  cases hr : r.outcome <;> simp_all

/-- … and for an interpreter outcome the model declines, `finish` declines too (no claim) -/
theorem finish_unmodelled (fs : List Entry) (o : Opts) (n : Nat) (r : RunResult)
    (hm : modelled r = false) : finish fs o n r = .unmodelled := by
  unfold finish
  unfold modelled at hm
  cases hr : r.outcome <;> simp_all

/-- **with one input (a single file, or stdin) `-o` writes the JSON of the root** after a successful
    run: `-o -` appends it to the program's output on stdout; `-o FILE` writes exactly it to FILE
    when FILE can be created (stdout = the program's output, status 0, no diagnostic), and is an
    error with nothing written when it cannot (FILE is a directory or its directory is missing).
    `j` is `GetRootJson()` of the final state; when there is none (no value was read, or the root
    cannot be serialised) the result is the error, see `o_single_input_no_json`. -/
theorem o_single_input_finish (fs : List Entry) (o : Opts) (n : Nat) (r : RunResult) (j : Bytes)
    (ho : o.outfile ≠ []) (hn : n ≤ 1) (hok : r.outcome = .ok) (hj : r.st.bind getRootJson = some j) :
    finish fs o n r =
      if o.outfile = b!"-" then .done 0 (r.out ++ j) false none
      else if creatable fs o.outfile = true then .done 0 r.out false (some (o.outfile, j))
      else .done 1 r.out true none := by
  have ho' : o.outfile.isEmpty = false := by cases h : o.outfile <;> simp_all
  have hn' : ¬ n > 1 := by omega
  unfold finish creatable
  simp only [hok, ho', hn', hj, Bool.false_eq_true, ↓reduceIte, beq_iff_eq]
  by_cases hd : o.outfile = b!"-"
  · simp only [hd, ↓reduceIte]
  · simp only [hd, ↓reduceIte]
    cases hl : lookup fs o.outfile with
    | none => simp
    | some e => by_cases h : e.isDir = true <;> simp [h]

/-- one input, successful run, but no JSON to write: status 1, a diagnostic, nothing written -/
theorem o_single_input_no_json (fs : List Entry) (o : Opts) (n : Nat) (r : RunResult)
    (ho : o.outfile ≠ []) (hok : r.outcome = .ok) (hj : r.st.bind getRootJson = none) :
    finish fs o n r = .done 1 r.out true none := by
  have ho' : o.outfile.isEmpty = false := by cases h : o.outfile <;> simp_all
  unfold finish
  simp only [hok, ho', hj, Bool.false_eq_true, ↓reduceIte]
  split <;> rfl

/-- a failed run (syntax / runtime / JSON error …) with `-o`: the program's error is the result and
    `-o` is not looked at, whatever the number of inputs -/
theorem o_after_failed_run (fs : List Entry) (o : Opts) (n : Nat) (r : RunResult)
    (hm : modelled r = true) (hok : r.outcome ≠ .ok) :
    finish fs o n r = .done 1 r.out true none := by
  unfold finish
  unfold modelled at hm
  cases hr : r.outcome <;> simp_all

theorem parseFlags_o (fuel : Nat) (v : Bytes) (rest : List Bytes) (o : Opts) :
    parseFlags (fuel + 1) (b!"-o" :: v :: rest) o = parseFlags fuel rest { o with outfile := v } := by
  conv => lhs; unfold parseFlags
  simp [splitEq]

/-- the command line `-o FILE PROGRAM [INPUT…]` (FILE may be `-`; PROGRAM not flag-like): the inputs
    are opened in order (a missing one: status 1 before anything runs), the program runs on them,
    and `finish` decides about `-o` with the number of input PATHS (1 for stdin) -/
theorem run_dash_o (tbl : RuleTable) (file prog : Bytes) (files : List Bytes) (stdin : Bytes)
    (fs : List Entry) (hprog : flagLike prog = false) :
    run tbl (b!"-o" :: file :: prog :: files) stdin fs =
      match inputsOf fs stdin files with
      | (none, _) => .done 1 [] true none
      | (some inputs, n) => finish fs { outfile := file } n (evalProgram tbl prog [] inputs) := by
  have h2 : parseFlags ((b!"-o" :: file :: prog :: files).length + 1) (b!"-o" :: file :: prog :: files) {} =
      .ok ({ outfile := file }, prog :: files) := by
    rw [parseFlags_o]
    exact parseFlags_stops _ prog files _ hprog
  unfold run
  rw [h2]
  simp only [source, List.isEmpty_nil, Bool.not_true, Bool.false_eq_true, ↓reduceIte]
  rfl

/-- **every command line `-o FILE PROGRAM IN₁ IN₂ …` (two or more inputs, FILE a name or `-`) is an
    error**: if an input cannot be opened the program does not run (status 1, nothing on stdout);
    otherwise the program runs on all inputs and then the result is status 1, a diagnostic,
    stdout = the program's complete output, and nothing is written to FILE. -/
theorem o_several_inputs (tbl : RuleTable) (file prog f1 f2 : Bytes) (more : List Bytes) (stdin : Bytes)
    (fs : List Entry) (hfile : file ≠ []) (hprog : flagLike prog = false) :
    run tbl (b!"-o" :: file :: prog :: f1 :: f2 :: more) stdin fs =
      match openFiles fs (f1 :: f2 :: more) with
      | none => .done 1 [] true none
      | some inputs =>
        if modelled (evalProgram tbl prog [] inputs) = true then
          .done 1 (evalProgram tbl prog [] inputs).out true none
        else .unmodelled := by
  rw [run_dash_o tbl file prog _ stdin fs hprog]
  simp only [inputsOf, List.isEmpty_cons, Bool.false_eq_true, ↓reduceIte]
  cases openFiles fs (f1 :: f2 :: more) with
  | none => rfl
  | some inputs =>
    simp only
    by_cases hm : modelled (evalProgram tbl prog [] inputs) = true
    · rw [if_pos hm]
      exact o_several_inputs_finish fs _ _ _ hfile (by simp) hm
    · rw [if_neg hm]
      exact finish_unmodelled fs _ _ _ (by simpa using hm)

/-- `-o FILE PROGRAM` reading stdin and `-o FILE PROGRAM IN` reading one file: after a successful
    run the JSON of the root goes to stdout (`-o -`, after the program's output) or to FILE -/
theorem o_single_input (tbl : RuleTable) (file prog : Bytes) (files : List Bytes) (stdin : Bytes)
    (fs : List Entry) (inputs : List InputFile) (j : Bytes)
    (hfile : file ≠ []) (hprog : flagLike prog = false) (hfiles : files.length ≤ 1)
    (hopen : (inputsOf fs stdin files).1 = some inputs)
    (hok : (evalProgram tbl prog [] inputs).outcome = .ok)
    (hj : (evalProgram tbl prog [] inputs).st.bind getRootJson = some j) :
    run tbl (b!"-o" :: file :: prog :: files) stdin fs =
      if file = b!"-" then .done 0 ((evalProgram tbl prog [] inputs).out ++ j) false none
      else if creatable fs file = true then .done 0 (evalProgram tbl prog [] inputs).out false (some (file, j))
      else .done 1 (evalProgram tbl prog [] inputs).out true none := by
  rw [run_dash_o tbl file prog _ stdin fs hprog]
  have hn : (inputsOf fs stdin files).2 ≤ 1 := by
    unfold inputsOf; split <;> simp_all
  rcases hio : inputsOf fs stdin files with ⟨oi, n⟩
  rw [hio] at hopen hn
  simp only at hopen hn
  subst hopen
  simp only
  exact o_single_input_finish fs { outfile := file } n _ j hfile hn hok hj

/-- non-vacuity and the observable behaviour on concrete command lines: two inputs with `-o out.json`
    and with `-o -` (the program's output for BOTH files is printed, status 1, nothing written);
    one input with `-o -` and `-o out.json`; stdin with `-o -` -/
def exFs : List Entry := [⟨b!"a.json", b!"{\"a\":1}", false⟩, ⟨b!"b.json", b!"{\"a\":2}", false⟩]

/-- exit status, stdout, "stderr is not empty" -/
def showR : Result → Option (Nat × Bytes × Bool)
  | .done e o er _ => some (e, o, er)
  | .unmodelled => none

/-- the file written -/
def writtenR : Result → Option (Bytes × Bytes)
  | .done _ _ _ w => w
  | .unmodelled => none

/-- non-vacuity and the observable behaviour on concrete command lines: two inputs with `-o out.json`
    and with `-o -` (the program's output for BOTH files is printed, status 1, nothing written);
    one input with `-o -` and `-o out.json`; stdin with `-o -`; a target that cannot be created -/
example :
    showR (run expectedRuleTable [b!"-o", b!"out.json", b!"{ print $.a }", b!"a.json", b!"b.json"] [] exFs)
        = some (1, b!"1\n2\n", true) ∧
    writtenR (run expectedRuleTable [b!"-o", b!"out.json", b!"{ print $.a }", b!"a.json", b!"b.json"] [] exFs)
        = none ∧
    showR (run expectedRuleTable [b!"-o", b!"-", b!"{ print $.a }", b!"a.json", b!"b.json"] [] exFs)
        = some (1, b!"1\n2\n", true) ∧
    showR (run expectedRuleTable [b!"-o", b!"-", b!"{ print $.a }", b!"b.json"] [] exFs)
        = some (0, b!"2\n{\n  \"a\": 2\n}", false) ∧
    showR (run expectedRuleTable [b!"-o", b!"out.json", b!"{ print $.a }", b!"b.json"] [] exFs)
        = some (0, b!"2\n", false) ∧
    writtenR (run expectedRuleTable [b!"-o", b!"out.json", b!"{ print $.a }", b!"b.json"] [] exFs)
        = some (b!"out.json", b!"{\n  \"a\": 2\n}") ∧
    showR (run expectedRuleTable [b!"-o", b!"-", b!"{ print $.a }"] b!"{\"a\":3}" exFs)
        = some (0, b!"3\n{\n  \"a\": 3\n}", false) ∧
    showR (run expectedRuleTable [b!"-o", b!"a.json/x", b!"{ print $.a }", b!"b.json"] [] exFs)
        = some (1, b!"2\n", true) ∧
    writtenR (run expectedRuleTable [b!"-o", b!"a.json/x", b!"{ print $.a }", b!"b.json"] [] exFs)
        = none := by
  refine ⟨?_, ?_, ?_, ?_, ?_, ?_, ?_, ?_, ?_⟩ <;> decide +kernel

/-- the hypotheses of `o_single_input` hold for `-o - '{ print $.a }' b.json` -/
example : flagLike b!"{ print $.a }" = false ∧
    ((inputsOf exFs [] [b!"b.json"]).1.map (fun l => l.map (fun i => (i.name, i.data))))
      = some [(b!"b.json", b!"{\"a\":2}")] ∧
    (match (evalProgram expectedRuleTable b!"{ print $.a }" [] [⟨b!"b.json", b!"{\"a\":2}", .eof⟩]).outcome with
      | .ok => true | _ => false) = true ∧
    (evalProgram expectedRuleTable b!"{ print $.a }" [] [⟨b!"b.json", b!"{\"a\":2}", .eof⟩]).st.bind getRootJson
      = some b!"{\n  \"a\": 2\n}" := by
  decide +kernel

/-- **for every command line**: whatever the flags and their order, if `flag.Parse` yields a
    non-empty `-o` value and the program source resolves (inline or `-f`) with two or more input
    paths left, then — unless an input cannot be opened (status 1, program not run) — the program
    runs on all inputs and the result is status 1 with a diagnostic, stdout = the program's complete
    output, nothing written; the model declines only where the interpreter's outcome is
    "unmodelled" / out of fuel -/
theorem o_several_inputs_any_argv (tbl : RuleTable) (argv : List Bytes) (stdin : Bytes) (fs : List Entry)
    (o : Opts) (args : List Bytes) (progSrc : Bytes) (paths : List Bytes)
    (hp : parseFlags (argv.length + 1) argv {} = .ok (o, args)) (ho : o.outfile ≠ [])
    (hs : source fs o args = some (progSrc, paths)) (hn : 2 ≤ paths.length) :
    run tbl argv stdin fs =
      match openFiles fs paths with
      | none => .done 1 [] true none
      | some inputs =>
        if modelled (evalProgram tbl progSrc o.sels inputs) = true then
          .done 1 (evalProgram tbl progSrc o.sels inputs).out true none
        else .unmodelled := by
  unfold run
  rw [hp]
  simp only [hs]
  have hne : paths.isEmpty = false := by cases paths <;> simp_all
  simp only [inputsOf, hne, Bool.false_eq_true, ↓reduceIte]
  cases openFiles fs paths with
  | none => rfl
  | some inputs =>
    simp only
    by_cases hm : modelled (evalProgram tbl progSrc o.sels inputs) = true
    · rw [if_pos hm]
      exact o_several_inputs_finish fs _ _ _ ho hn hm
    · rw [if_neg hm]
      exact finish_unmodelled fs _ _ _ (by simpa using hm)

/-- non-vacuity of `o_several_inputs_any_argv`: `-r '$.a' -o=out.json -f p.jq a.json b.json` -/
example :
    (match parseFlags 8 [b!"-r", b!"$.a", b!"-o=out.json", b!"-f", b!"p.jq", b!"a.json", b!"b.json"] {} with
      | .ok (o, args) => some (o.outfile, o.progFile, o.sels, args) | _ => none)
      = some (b!"out.json", b!"p.jq", [b!"$.a"], [b!"a.json", b!"b.json"]) ∧
    showR (run expectedRuleTable [b!"-r", b!"$.a", b!"-o=out.json", b!"-f", b!"p.jq", b!"a.json", b!"b.json"] []
        (⟨b!"p.jq", b!"{ print $ }", false⟩ :: exFs)) = some (1, b!"1\n2\n", true) := by
  refine ⟨?_, ?_⟩ <;> decide +kernel


end Jqawk.C14
