/-
  C15 — array methods behave like an ideal list.
  `absArr h a` is the list of values the array `a` denotes in the heap `h`; each native is shown
  to commute with it and to return what `Spec.ListArr` returns.  The SEQUENCE theorems
  (`ops_refine_list`, `ops_refine_lists`) range over push / pop / popfirst only; length, contains,
  sort and index reads have one-step theorems; index WRITES (`a[i] = v`) and calls nested in
  each other's arguments have no theorem in this file.  Heaps are assumed well-formed
  (`Heap.WF`: cell ids stored in containers are allocated), which the natives preserve, and the
  receiver must be an allocated array (`a < h.arrs.size`).
-/
import Jqawk.Lemmas.Arr

namespace Jqawk.C15
open Jqawk Spec

/-- `s'` differs from `s` only in the heap; there the array `a` now denotes `l'`, every other
    array denotes what it did, objects are untouched, and the heap stays well-formed -/
structure ArrStep (a : ArrId) (s s' : St) (l' : List Val) : Prop where
  this : absArr s'.heap a = l'
  others : ∀ b, b ≠ a → absArr s'.heap b = absArr s.heap b
  wf : s'.heap.WF
  arrs : s'.heap.arrs.size = s.heap.arrs.size
  objs : s'.heap.objs = s.heap.objs
  rest : s' = { s with heap := s'.heap }

/-! ### 1. push -/

/-- `a.push(v)` appends `v`, returns the array itself, and touches no other array: the fresh
    cell aliases no existing one -/
theorem push_refines (a : ArrId) (v : Val) (s : St) (wf : s.heap.WF) (ha : a < s.heap.arrs.size) :
    ∃ s', callNative .arrPush [v] (some (.arr a)) s = .ok (.ok (some (.arr a))) s' ∧
      ArrStep a s s' (ListArr.push (absArr s.heap a) v) := by
  refine ⟨_, callNative_arrPush a v s, ?_⟩
  exact {
    this := absArr_pushHeap_same s.heap wf a v ha
    others := fun b hb => absArr_pushHeap_other s.heap wf a b v hb
    wf := wf.pushHeap a v
    arrs := pushHeap_arrs_size _ _ _
    objs := rfl
    rest := rfl }

/-- `push` with another number of arguments is an error and changes nothing -/
theorem push_arity (a : ArrId) (args : List Val) (s : St) (h : args.length ≠ 1) :
    ∃ m, callNative .arrPush args (some (.arr a)) s = .ok (.error m) s := by
  simp [callNative, bind, EM.bind, getHeap, checkArgCount, h, pure, EM.pure]

/-! ### 2. pop, popfirst, length -/

/-- `a.pop()` returns the last element (null when empty) and removes it -/
theorem pop_refines (a : ArrId) (s : St) (wf : s.heap.WF) (ha : a < s.heap.arrs.size) :
    ∃ s', callNative .arrPop [] (some (.arr a)) s
        = .ok (.ok (some (ListArr.pop (absArr s.heap a)).1)) s' ∧
      ArrStep a s s' (ListArr.pop (absArr s.heap a)).2 := by
  rw [callNative_arrPop]
  by_cases he : (s.heap.arr a).size = 0
  · have hnil := absArr_eq_nil s.heap a he
    refine ⟨s, by simp [he, hnil, ListArr.pop], ?_⟩
    exact { this := by simp [hnil, ListArr.pop], others := fun _ _ => rfl, wf := wf, arrs := rfl,
            objs := rfl, rest := rfl }
  · have hl := absArr_last s.heap a he
    refine ⟨{ s with heap := s.heap.setArr a (s.heap.arr a).pop }, by simp only [he, ↓reduceIte, ListArr.pop, hl], ?_⟩
    exact {
      this := by simp only [ListArr.pop, hl]; exact absArr_pop s.heap a ha
      others := fun b hb => absArr_setArr_other _ _ _ _ hb
      wf := wf.pop a
      arrs := by simp [Heap.setArr]
      objs := rfl
      rest := rfl }

/-- `a.popfirst()` returns the first element (null when empty) and removes it -/
theorem popfirst_refines (a : ArrId) (s : St) (wf : s.heap.WF) (ha : a < s.heap.arrs.size) :
    ∃ s', callNative .arrPopfirst [] (some (.arr a)) s
        = .ok (.ok (some (ListArr.popfirst (absArr s.heap a)).1)) s' ∧
      ArrStep a s s' (ListArr.popfirst (absArr s.heap a)).2 := by
  rw [callNative_arrPopfirst]
  by_cases he : (s.heap.arr a).size = 0
  · have hnil := absArr_eq_nil s.heap a he
    refine ⟨s, by simp [he, hnil, ListArr.popfirst], ?_⟩
    exact { this := by simp [hnil, ListArr.popfirst], others := fun _ _ => rfl, wf := wf, arrs := rfl,
            objs := rfl, rest := rfl }
  · have hh := absArr_head s.heap a he
    have hpf : ListArr.popfirst (absArr s.heap a)
        = (s.heap.get ((s.heap.arr a).getD 0 0), (absArr s.heap a).drop 1) := by
      cases hl : absArr s.heap a with
      | nil => rw [hl] at hh; simp at hh
      | cons x xs => rw [hl] at hh; simp at hh; simp [ListArr.popfirst, hh]
    refine ⟨{ s with heap := s.heap.setArr a ((s.heap.arr a).extract 1 (s.heap.arr a).size) },
      by simp only [he, ↓reduceIte, hpf], ?_⟩
    exact {
      this := by rw [hpf]; exact absArr_popfirst s.heap a ha
      others := fun b hb => absArr_setArr_other _ _ _ _ hb
      wf := wf.popfirst a
      arrs := by simp [Heap.setArr]
      objs := rfl
      rest := rfl }

/-- `pop` / `popfirst` with arguments are errors and change nothing -/
theorem pop_arity (a : ArrId) (args : List Val) (s : St) (h : args.length ≠ 0) :
    (∃ m, callNative .arrPop args (some (.arr a)) s = .ok (.error m) s) ∧
    (∃ m, callNative .arrPopfirst args (some (.arr a)) s = .ok (.error m) s) := by
  constructor <;> simp [callNative, bind, EM.bind, getHeap, checkArgCount, h, pure, EM.pure]

/-- `a.length` counts the elements and changes nothing (arguments are not looked at) -/
theorem length_refines (a : ArrId) (args : List Val) (s : St) :
    callNative .arrLength args (some (.arr a)) s
      = .ok (.ok (some (.num (F64.ofNat (ListArr.length (absArr s.heap a)))))) s := by
  simp [callNative, bind, EM.bind, getHeap, pure, EM.pure, ListArr.length, absArr]

/-! ### 5. every sequence of push / pop / popfirst -/

/-- one operation through the array id `a` -/
def callOp (a : ArrId) : ListArr.Op → EM NativeRes
  | .push v => callNative .arrPush [v] (some (.arr a))
  | .pop => callNative .arrPop [] (some (.arr a))
  | .popfirst => callNative .arrPopfirst [] (some (.arr a))

/-- a sequence of operations, collecting the results -/
def runOps (a : ArrId) : List ListArr.Op → EM (List NativeRes)
  | [] => pure []
  | op :: ops => do
    let r ← callOp a op
    let rs ← runOps a ops
    return r :: rs

/-- the implementation's result for an ideal result (`none` = the array itself) -/
def resOf (a : ArrId) : Option Val → NativeRes
  | none => .ok (some (.arr a))
  | some v => .ok (some v)

theorem op_refines (a : ArrId) (op : ListArr.Op) (s : St) (wf : s.heap.WF) (ha : a < s.heap.arrs.size) :
    ∃ s', callOp a op s = .ok (resOf a (ListArr.step (absArr s.heap a) op).1) s' ∧
      ArrStep a s s' (ListArr.step (absArr s.heap a) op).2 := by
  cases op with
  | push v => exact push_refines a v s wf ha
  | pop => exact pop_refines a s wf ha
  | popfirst => exact popfirst_refines a s wf ha

/-- for any sequence of push/pop/popfirst through the same array id, every result and the final
    contents are those of the ideal list, and no other array changes -/
theorem ops_refine_list (a : ArrId) (ops : List ListArr.Op) (s : St) (wf : s.heap.WF)
    (ha : a < s.heap.arrs.size) :
    ∃ s', runOps a ops s = .ok ((ListArr.results (absArr s.heap a) ops).map (resOf a)) s' ∧
      ArrStep a s s' (ListArr.run (absArr s.heap a) ops) := by
  induction ops generalizing s with
  | nil =>
    exact ⟨s, rfl, { this := rfl, others := fun _ _ => rfl, wf := wf, arrs := rfl, objs := rfl, rest := rfl }⟩
  | cons op ops ih =>
    obtain ⟨s1, h1, st1⟩ := op_refines a op s wf ha
    obtain ⟨s2, h2, st2⟩ := ih s1 st1.wf (by rw [st1.arrs]; exact ha)
    refine ⟨s2, ?_, ?_⟩
    · simp only [runOps, bind, EM.bind, h1, h2, pure, EM.pure, ListArr.results, List.map_cons, st1.this]
    · exact {
        this := by rw [st2.this, st1.this]; rfl
        others := fun b hb => by rw [st2.others b hb, st1.others b hb]
        wf := st2.wf
        arrs := by rw [st2.arrs, st1.arrs]
        objs := by rw [st2.objs, st1.objs]
        rest := by
          have e1 := st1.rest; have e2 := st2.rest
          rw [e2]; rw [e1] }

/-! ### several arrays, interleaved -/

/-- one operation on array `aop.1` in a family of ideal lists -/
def stepAll (m : ArrId → List Val) (aop : ArrId × ListArr.Op) : ArrId → List Val :=
  fun b => if b = aop.1 then (ListArr.step (m aop.1) aop.2).2 else m b

/-- the results of interleaved operations on a family of ideal lists -/
def resultsAll : (ArrId → List Val) → List (ArrId × ListArr.Op) → List NativeRes
  | _, [] => []
  | m, aop :: ops => resOf aop.1 (ListArr.step (m aop.1) aop.2).1 :: resultsAll (stepAll m aop) ops

def runOpsOn : List (ArrId × ListArr.Op) → EM (List NativeRes)
  | [] => pure []
  | aop :: ops => do
    let r ← callOp aop.1 aop.2
    let rs ← runOpsOn ops
    return r :: rs

/-- operations interleaved on several arrays: every array denotes what its ideal list holds after
    the operations addressed to it, and every result is the ideal one -/
theorem ops_refine_lists (ops : List (ArrId × ListArr.Op)) (s : St) (wf : s.heap.WF)
    (hids : ∀ aop ∈ ops, aop.1 < s.heap.arrs.size) :
    ∃ s', runOpsOn ops s = .ok (resultsAll (absArr s.heap) ops) s' ∧
      (∀ b, absArr s'.heap b = ops.foldl stepAll (absArr s.heap) b) ∧
      s'.heap.WF ∧ s'.heap.arrs.size = s.heap.arrs.size ∧ s' = { s with heap := s'.heap } := by
  induction ops generalizing s with
  | nil => exact ⟨s, rfl, fun _ => rfl, wf, rfl, rfl⟩
  | cons aop ops ih =>
    obtain ⟨s1, h1, st1⟩ := op_refines aop.1 aop.2 s wf (hids aop List.mem_cons_self)
    have habs : absArr s1.heap = stepAll (absArr s.heap) aop := by
      funext b
      unfold stepAll
      by_cases hb : b = aop.1
      · subst hb; simp [st1.this]
      · simp [hb, st1.others b hb]
    obtain ⟨s2, h2, hall, wf2, hsz, hrest⟩ := ih s1 st1.wf (fun x hx => by
      rw [st1.arrs]; exact hids x (List.mem_cons_of_mem _ hx))
    refine ⟨s2, ?_, ?_, wf2, by rw [hsz, st1.arrs], ?_⟩
    · simp only [runOpsOn, bind, EM.bind, h1, h2, pure, EM.pure, resultsAll, habs]
    · intro b; rw [hall b, habs]; rfl
    · have e1 := st1.rest
      rw [hrest]; rw [e1]

/-! ### 3. contains agrees with `==` element by element, in order -/

/-- the scan of `contains` is the scan with `binaryOp .equalEqual v item` (`Spec.ListArr.contains`):
    same answer, same error (an unset value equals nothing) -/
theorem contains_eq (h : Heap) (v : Val) (cells : List CellId) :
    containsLoop h v cells =
      match ListArr.contains v (cells.map h.get) with
      | .ok b => .ok (some (.bool b))
      | .error m => .error m :=
  containsLoop_eq h v cells

/-- `a.contains(v)` on the array: the ideal list's answer, state unchanged -/
theorem contains_refines (a : ArrId) (v : Val) (s : St) :
    callNative .arrContains [v] (some (.arr a)) s =
      .ok (match ListArr.contains v (absArr s.heap a) with
        | .ok b => .ok (some (.bool b))
        | .error m => .error m) s := by
  simp only [callNative, bind, EM.bind, getHeap, checkArgCount, List.length_cons, List.length_nil,
    Nat.zero_add, beq_self_eq_true, ↓reduceIte, pure, EM.pure, List.getD_cons_zero, contains_eq]
  rfl

/-- when the scan answers, the answer is `true` exactly if some element is equal to `v` under
    `Value.Compare` (neither side unset) -/
theorem contains_iff (h : Heap) (v : Val) (cells : List CellId) (b : Bool)
    (hres : containsLoop h v cells = .ok (some (.bool b))) :
    b = true ↔ ∃ c ∈ cells, v.kind ≠ .unknown ∧ (h.get c).kind ≠ .unknown ∧
      v.compare (h.get c) = .ok 0 := by
  induction cells with
  | nil => simp [containsLoop] at hres; simp [← hres]
  | cons c cs ih =>
    simp only [containsLoop] at hres
    split at hres
    · rename_i hu
      rw [ih hres]
      simp only [Bool.or_eq_true, beq_iff_eq] at hu
      constructor
      · rintro ⟨c', hc', h1, h2, h3⟩; exact ⟨c', List.mem_cons_of_mem _ hc', h1, h2, h3⟩
      · rintro ⟨c', hc', h1, h2, h3⟩
        rcases List.mem_cons.mp hc' with rfl | hc'
        · rcases hu with hu | hu
          · exact absurd hu h1
          · exact absurd hu h2
        · exact ⟨c', hc', h1, h2, h3⟩
    · rename_i hu
      simp only [Bool.or_eq_true, beq_iff_eq, not_or] at hu
      split at hres
      · cases hres
      · rename_i r hcmp
        split at hres
        · rename_i hr
          simp only [beq_iff_eq] at hr
          cases hres
          simp only [true_iff]
          exact ⟨c, List.mem_cons_self, hu.1, hu.2, by rw [hcmp, hr]⟩
        · rename_i hr
          simp only [beq_iff_eq] at hr
          rw [ih hres]
          constructor
          · rintro ⟨c', hc', h1, h2, h3⟩; exact ⟨c', List.mem_cons_of_mem _ hc', h1, h2, h3⟩
          · rintro ⟨c', hc', h1, h2, h3⟩
            rcases List.mem_cons.mp hc' with rfl | hc'
            · rw [hcmp] at h3; cases h3; exact absurd rfl hr
            · exact ⟨c', hc', h1, h2, h3⟩

/-- the scan errs exactly when the ideal scan with `==` errs: a container comparison reached
    before any match -/
theorem contains_error_iff (h : Heap) (v : Val) (cells : List CellId) (m : String) :
    containsLoop h v cells = .error m ↔ ListArr.contains v (cells.map h.get) = .error m := by
  rw [contains_eq]
  cases ListArr.contains v (cells.map h.get) <;> simp

example : (containsLoop ⟨#[.num F64.one, .arr 0], #[], #[]⟩ (.num F64.one) [0, 1]).toOption = some (some (.bool true))
    ∧ (containsLoop ⟨#[.num F64.one, .arr 0], #[], #[]⟩ (.num F64.one) [1, 0]).toOption = none := by
  decide +kernel

/-! ### 4. sort -/

/-- the copies `sort` orders keep the string form, and a number stays the same number -/
theorem sortCopy_str (v : Val) : (ListArr.sortCopy v).str! = v.str! := by
  cases v <;> rfl

theorem sortCopy_num (x : F64) : ListArr.sortCopy (.num x) = .num x := rfl

/-- on an all-numbers list the copies are the elements themselves -/
theorem sortCopy_all_num (l : List Val) (h : l.all (fun v => v.kind == .num) = true) :
    l.map ListArr.sortCopy = l := by
  induction l with
  | nil => rfl
  | cons v l ih =>
    simp only [List.all_cons, Bool.and_eq_true] at h
    cases v <;> simp_all [Val.kind, ListArr.sortCopy, copyVal]

/-- the two orders are total preorders (what a stable sort needs to be meaningful) -/
theorem sortLe_total_preorder (l : List Val) :
    (∀ x y, (ListArr.sortLe l x y || ListArr.sortLe l y x) = true) ∧
    (∀ x y z, ListArr.sortLe l x y = true → ListArr.sortLe l y z = true → ListArr.sortLe l x z = true) :=
  ⟨sortLe_total l, sortLe_trans l⟩

/-- `a.sort()`: the receiver and every other allocated array are unchanged; the result is a NEW
    array (id = the old number of arrays) denoting a stably sorted permutation of the copied
    elements — numerically (`f64Le`) if all elements are numbers, otherwise by `Bytes.le` on the
    string forms (`ListArr.sortLe`).  Arguments are ignored. -/
theorem sort_spec (a : ArrId) (args : List Val) (s : St) (wf : s.heap.WF) :
    ∃ s' r, callNative .arrSort args (some (.arr a)) s = .ok (.ok (some (.arr s.heap.arrs.size))) s' ∧
      (∀ b, b < s.heap.arrs.size → absArr s'.heap b = absArr s.heap b) ∧
      absArr s'.heap s.heap.arrs.size = r ∧
      ListArr.IsStableSort (ListArr.sortLe (absArr s.heap a)) ((absArr s.heap a).map ListArr.sortCopy) r ∧
      s'.heap.WF ∧ s'.heap.objs = s.heap.objs ∧ s' = { s with heap := s'.heap } := by
  refine ⟨_, _, callNative_arrSort a args s, ?_, absArr_sortHeap_new _ _, ?_, wf.sortHeap _, rfl, rfl⟩
  · intro b hb; exact absArr_sortHeap_old s.heap wf _ b hb
  · exact mergeSort_isStableSort _ _

/-- numeric instance: an all-numbers array is sorted by `f64Le`, and stays a permutation of itself -/
theorem sort_numbers (a : ArrId) (args : List Val) (s : St) (wf : s.heap.WF)
    (hn : (absArr s.heap a).all (fun v => v.kind == .num) = true) :
    ∃ s', callNative .arrSort args (some (.arr a)) s = .ok (.ok (some (.arr s.heap.arrs.size))) s' ∧
      (absArr s'.heap s.heap.arrs.size).Perm (absArr s.heap a) ∧
      (absArr s'.heap s.heap.arrs.size).Pairwise (fun x y => f64Le x.asNum y.asNum = true) := by
  obtain ⟨s', r, h1, -, h3, h4, -⟩ := sort_spec a args s wf
  refine ⟨s', h1, ?_, ?_⟩
  · rw [h3]; have := h4.perm; rwa [sortCopy_all_num _ hn] at this
  · rw [h3]; have := h4.sorted; simpa [ListArr.sortLe, hn] using this

/-! ### index reads: `a[-k]` is the k-th element from the end -/

/-- `a[x]` resolves like the ideal list: before the start is an error, past the end is absent,
    otherwise the member cell holds the list element -/
theorem get_refines (h : Heap) (a : ArrId) (x : F64) :
    match ListArr.get (absArr h a) x.toGoInt with
    | none => getMember h (.arr a) (.num x) = .error "index out of range"
    | some none => getMember h (.arr a) (.num x) = .ok .missing
    | some (some v) => ∃ c, getMember h (.arr a) (.num x) = .ok (.cell c) ∧ h.get c = v :=
  getMember_arr_num h a x

example : ListArr.get [.bool true, .bool false] (-1) = some (some (.bool false))
    ∧ ListArr.get [.bool true, .bool false] (-3) = none
    ∧ ListArr.get [.bool true, .bool false] 2 = some none := by decide

/-- non-vacuity: a well-formed heap with an allocated array -/
example : (⟨#[], #[#[]], #[]⟩ : Heap).WF ∧ 0 < (⟨#[], #[#[]], #[]⟩ : Heap).arrs.size := by
  refine ⟨⟨?_, ?_⟩, by simp⟩
  · intro a c hc
    rcases a with _ | a <;> simp [Heap.arr] at hc
  · intro o k c hc
    simp [Heap.obj] at hc

/-- non-vacuity with contents (for `sort_numbers`, `pop_refines`, …): a well-formed heap whose
    allocated array 0 holds the numbers 1, 0 -/
example : (⟨#[.num F64.one, .num F64.zero], #[#[0, 1]], #[]⟩ : Heap).WF ∧
    0 < (⟨#[.num F64.one, .num F64.zero], #[#[0, 1]], #[]⟩ : Heap).arrs.size ∧
    (absArr ⟨#[.num F64.one, .num F64.zero], #[#[0, 1]], #[]⟩ 0).all (fun v => v.kind == .num) = true ∧
    absArr ⟨#[.num F64.one, .num F64.zero], #[#[0, 1]], #[]⟩ 0 ≠ [] := by
  refine ⟨⟨?_, ?_⟩, by decide, by decide, by decide⟩
  · intro a c hc
    rcases a with _ | a
    · have : c = 0 ∨ c = 1 := by simpa [Heap.arr] using hc
      rcases this with rfl | rfl <;> decide
    · simp [Heap.arr] at hc
  · intro o k c hc
    simp [Heap.obj] at hc

end Jqawk.C15
