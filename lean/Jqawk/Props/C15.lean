/-
  C15 — array methods behave like an ideal list.
  `absArr h a` is the list of values the array `a` denotes in the heap `h`; each native is shown
  to commute with it and to return what `Spec.ListArr` returns.  The SEQUENCE theorems
  (`ops_refine_list`, `ops_refine_lists`) range over push / pop / popfirst only; length, contains,
  sort and index reads have one-step theorems; index WRITES (`a[i] = v`) are in sections 6
  to 9 at the end (`index_write_refines`, `index_assign_refines`, `ops_refine_list_w`,
  `ops_refine_lists_w`: sequences of push / pop / popfirst / length / index write); calls nested
  in each other's arguments have no theorem in this file.  Sections 1-9 assume well-formed heaps
  (`Heap.WF`: cell ids stored in containers are allocated) and, for index writes, unshared element
  cells holding plain values; section 10 proves these are invariants of the whole evaluator and
  of every run (`evaluator_keeps_inv`, `run_end_unshared_plain`, `reachable_inv`) and restates the
  index-write theorems for every reachable state (`…_reachable`).  The receiver must be an
  allocated array (`a < h.arrs.size`).
-/
import Jqawk.Lemmas.Arr
import Jqawk.Lemmas.IndexWrite
import Jqawk.Lemmas.HeapInvDriver
import Jqawk.Lemmas.HeapInvNest

namespace Jqawk.C15
open Jqawk Spec

/-- `s'` differs from `s` only in the heap; there the array `a` now denotes `l'`, every other
    array denotes what it did, objects are untouched, and the heap stays well-formed -/
structure ArrStep (a : ArrId) (s s' : St) (l' : List Val) : Prop where
  this : absArr s'.heap a = l'
  others : ∀ b, b ≠ a → absArr s'.heap b = absArr s.heap b
  wf : s'.heap.WF
  arrs : s'.heap.arrs.size = s.heap.arrs.size
  objs : s'.heap.objs = s.heap.objs
  rest : s' = { s with heap := s'.heap }

/-! ### 1. push -/

/-- `a.push(v)` appends `v`, returns the array itself, and touches no other array: the fresh
    cell aliases no existing one -/
theorem push_refines (a : ArrId) (v : Val) (s : St) (wf : s.heap.WF) (ha : a < s.heap.arrs.size) :
    ∃ s', callNative .arrPush [v] (some (.arr a)) s = .ok (.ok (some (.arr a))) s' ∧
      ArrStep a s s' (ListArr.push (absArr s.heap a) v) := by
  refine ⟨_, callNative_arrPush a v s, ?_⟩
  exact {
    this := absArr_pushHeap_same s.heap wf a v ha
    others := fun b hb => absArr_pushHeap_other s.heap wf a b v hb
    wf := wf.pushHeap a v
    arrs := pushHeap_arrs_size _ _ _
    objs := rfl
    rest := rfl }

/-- `push` with another number of arguments is an error and changes nothing -/
theorem push_arity (a : ArrId) (args : List Val) (s : St) (h : args.length ≠ 1) :
    ∃ m, callNative .arrPush args (some (.arr a)) s = .ok (.error m) s := by
  simp [callNative, bind, EM.bind, getHeap, checkArgCount, h, pure, EM.pure]

/-! ### 2. pop, popfirst, length -/

/-- `a.pop()` returns the last element (null when empty) and removes it -/
theorem pop_refines (a : ArrId) (s : St) (wf : s.heap.WF) (ha : a < s.heap.arrs.size) :
    ∃ s', callNative .arrPop [] (some (.arr a)) s
        = .ok (.ok (some (ListArr.pop (absArr s.heap a)).1)) s' ∧
      ArrStep a s s' (ListArr.pop (absArr s.heap a)).2 := by
  rw [callNative_arrPop]
  by_cases he : (s.heap.arr a).size = 0
  · have hnil := absArr_eq_nil s.heap a he
    refine ⟨s, by simp [he, hnil, ListArr.pop], ?_⟩
    exact { this := by simp [hnil, ListArr.pop], others := fun _ _ => rfl, wf := wf, arrs := rfl,
            objs := rfl, rest := rfl }
  · have hl := absArr_last s.heap a he
    refine ⟨{ s with heap := s.heap.setArr a (s.heap.arr a).pop }, by simp only [he, ↓reduceIte, ListArr.pop, hl], ?_⟩
    exact {
      this := by simp only [ListArr.pop, hl]; exact absArr_pop s.heap a ha
      others := fun b hb => absArr_setArr_other _ _ _ _ hb
      wf := wf.pop a
      arrs := by simp [Heap.setArr]
      objs := rfl
      rest := rfl }

/-- `a.popfirst()` returns the first element (null when empty) and removes it -/
theorem popfirst_refines (a : ArrId) (s : St) (wf : s.heap.WF) (ha : a < s.heap.arrs.size) :
    ∃ s', callNative .arrPopfirst [] (some (.arr a)) s
        = .ok (.ok (some (ListArr.popfirst (absArr s.heap a)).1)) s' ∧
      ArrStep a s s' (ListArr.popfirst (absArr s.heap a)).2 := by
  rw [callNative_arrPopfirst]
  by_cases he : (s.heap.arr a).size = 0
  · have hnil := absArr_eq_nil s.heap a he
    refine ⟨s, by simp [he, hnil, ListArr.popfirst], ?_⟩
    exact { this := by simp [hnil, ListArr.popfirst], others := fun _ _ => rfl, wf := wf, arrs := rfl,
            objs := rfl, rest := rfl }
  · have hh := absArr_head s.heap a he
    have hpf : ListArr.popfirst (absArr s.heap a)
        = (s.heap.get ((s.heap.arr a).getD 0 0), (absArr s.heap a).drop 1) := by
      cases hl : absArr s.heap a with
      | nil => rw [hl] at hh; simp at hh
      | cons x xs => rw [hl] at hh; simp at hh; simp [ListArr.popfirst, hh]
    refine ⟨{ s with heap := s.heap.setArr a ((s.heap.arr a).extract 1 (s.heap.arr a).size) },
      by simp only [he, ↓reduceIte, hpf], ?_⟩
    exact {
      this := by rw [hpf]; exact absArr_popfirst s.heap a ha
      others := fun b hb => absArr_setArr_other _ _ _ _ hb
      wf := wf.popfirst a
      arrs := by simp [Heap.setArr]
      objs := rfl
      rest := rfl }

/-- `pop` / `popfirst` with arguments are errors and change nothing -/
theorem pop_arity (a : ArrId) (args : List Val) (s : St) (h : args.length ≠ 0) :
    (∃ m, callNative .arrPop args (some (.arr a)) s = .ok (.error m) s) ∧
    (∃ m, callNative .arrPopfirst args (some (.arr a)) s = .ok (.error m) s) := by
  constructor <;> simp [callNative, bind, EM.bind, getHeap, checkArgCount, h, pure, EM.pure]

/-- `a.length` counts the elements and changes nothing (arguments are not looked at) -/
theorem length_refines (a : ArrId) (args : List Val) (s : St) :
    callNative .arrLength args (some (.arr a)) s
      = .ok (.ok (some (.num (F64.ofNat (ListArr.length (absArr s.heap a)))))) s := by
  simp [callNative, bind, EM.bind, getHeap, pure, EM.pure, ListArr.length, absArr]

/-! ### 5. every sequence of push / pop / popfirst -/

/-- one operation through the array id `a` -/
def callOp (a : ArrId) : ListArr.Op → EM NativeRes
  | .push v => callNative .arrPush [v] (some (.arr a))
  | .pop => callNative .arrPop [] (some (.arr a))
  | .popfirst => callNative .arrPopfirst [] (some (.arr a))

/-- a sequence of operations, collecting the results -/
def runOps (a : ArrId) : List ListArr.Op → EM (List NativeRes)
  | [] => pure []
  | op :: ops => do
    let r ← callOp a op
    let rs ← runOps a ops
    return r :: rs

/-- the implementation's result for an ideal result (`none` = the array itself) -/
def resOf (a : ArrId) : Option Val → NativeRes
  | none => .ok (some (.arr a))
  | some v => .ok (some v)

theorem op_refines (a : ArrId) (op : ListArr.Op) (s : St) (wf : s.heap.WF) (ha : a < s.heap.arrs.size) :
    ∃ s', callOp a op s = .ok (resOf a (ListArr.step (absArr s.heap a) op).1) s' ∧
      ArrStep a s s' (ListArr.step (absArr s.heap a) op).2 := by
  cases op with
  | push v => exact push_refines a v s wf ha
  | pop => exact pop_refines a s wf ha
  | popfirst => exact popfirst_refines a s wf ha

/-- for any sequence of push/pop/popfirst through the same array id, every result and the final
    contents are those of the ideal list, and no other array changes -/
theorem ops_refine_list (a : ArrId) (ops : List ListArr.Op) (s : St) (wf : s.heap.WF)
    (ha : a < s.heap.arrs.size) :
    ∃ s', runOps a ops s = .ok ((ListArr.results (absArr s.heap a) ops).map (resOf a)) s' ∧
      ArrStep a s s' (ListArr.run (absArr s.heap a) ops) := by
  induction ops generalizing s with
  | nil =>
    exact ⟨s, rfl, { this := rfl, others := fun _ _ => rfl, wf := wf, arrs := rfl, objs := rfl, rest := rfl }⟩
  | cons op ops ih =>
    obtain ⟨s1, h1, st1⟩ := op_refines a op s wf ha
    obtain ⟨s2, h2, st2⟩ := ih s1 st1.wf (by rw [st1.arrs]; exact ha)
    refine ⟨s2, ?_, ?_⟩
    · simp only [runOps, bind, EM.bind, h1, h2, pure, EM.pure, ListArr.results, List.map_cons, st1.this]
    · exact {
        this := by rw [st2.this, st1.this]; rfl
        others := fun b hb => by rw [st2.others b hb, st1.others b hb]
        wf := st2.wf
        arrs := by rw [st2.arrs, st1.arrs]
        objs := by rw [st2.objs, st1.objs]
        rest := by
          have e1 := st1.rest; have e2 := st2.rest
          rw [e2]; rw [e1] }

/-! ### several arrays, interleaved -/

/-- one operation on array `aop.1` in a family of ideal lists -/
def stepAll (m : ArrId → List Val) (aop : ArrId × ListArr.Op) : ArrId → List Val :=
  fun b => if b = aop.1 then (ListArr.step (m aop.1) aop.2).2 else m b

/-- the results of interleaved operations on a family of ideal lists -/
def resultsAll : (ArrId → List Val) → List (ArrId × ListArr.Op) → List NativeRes
  | _, [] => []
  | m, aop :: ops => resOf aop.1 (ListArr.step (m aop.1) aop.2).1 :: resultsAll (stepAll m aop) ops

def runOpsOn : List (ArrId × ListArr.Op) → EM (List NativeRes)
  | [] => pure []
  | aop :: ops => do
    let r ← callOp aop.1 aop.2
    let rs ← runOpsOn ops
    return r :: rs

/-- operations interleaved on several arrays: every array denotes what its ideal list holds after
    the operations addressed to it, and every result is the ideal one -/
theorem ops_refine_lists (ops : List (ArrId × ListArr.Op)) (s : St) (wf : s.heap.WF)
    (hids : ∀ aop ∈ ops, aop.1 < s.heap.arrs.size) :
    ∃ s', runOpsOn ops s = .ok (resultsAll (absArr s.heap) ops) s' ∧
      (∀ b, absArr s'.heap b = ops.foldl stepAll (absArr s.heap) b) ∧
      s'.heap.WF ∧ s'.heap.arrs.size = s.heap.arrs.size ∧ s' = { s with heap := s'.heap } := by
  induction ops generalizing s with
  | nil => exact ⟨s, rfl, fun _ => rfl, wf, rfl, rfl⟩
  | cons aop ops ih =>
    obtain ⟨s1, h1, st1⟩ := op_refines aop.1 aop.2 s wf (hids aop List.mem_cons_self)
    have habs : absArr s1.heap = stepAll (absArr s.heap) aop := by
      funext b
      unfold stepAll
      by_cases hb : b = aop.1
      · subst hb; simp [st1.this]
      · simp [hb, st1.others b hb]
    obtain ⟨s2, h2, hall, wf2, hsz, hrest⟩ := ih s1 st1.wf (fun x hx => by
      rw [st1.arrs]; exact hids x (List.mem_cons_of_mem _ hx))
    refine ⟨s2, ?_, ?_, wf2, by rw [hsz, st1.arrs], ?_⟩
    · simp only [runOpsOn, bind, EM.bind, h1, h2, pure, EM.pure, resultsAll, habs]
    · intro b; rw [hall b, habs]; rfl
    · have e1 := st1.rest
      rw [hrest]; rw [e1]

/-! ### 3. contains agrees with `==` element by element, in order -/

/-- the scan of `contains` is the scan with `binaryOp .equalEqual v item` (`Spec.ListArr.contains`):
    same answer, same error (an unset value equals nothing) -/
theorem contains_eq (h : Heap) (v : Val) (cells : List CellId) :
    containsLoop h v cells =
      match ListArr.contains v (cells.map h.get) with
      | .ok b => .ok (some (.bool b))
      | .error m => .error m :=
  containsLoop_eq h v cells

/-- `a.contains(v)` on the array: the ideal list's answer, state unchanged -/
theorem contains_refines (a : ArrId) (v : Val) (s : St) :
    callNative .arrContains [v] (some (.arr a)) s =
      .ok (match ListArr.contains v (absArr s.heap a) with
        | .ok b => .ok (some (.bool b))
        | .error m => .error m) s := by
  simp only [callNative, bind, EM.bind, getHeap, checkArgCount, List.length_cons, List.length_nil,
    Nat.zero_add, beq_self_eq_true, ↓reduceIte, pure, EM.pure, List.getD_cons_zero, contains_eq]
  rfl

/-- when the scan answers, the answer is `true` exactly if some element is equal to `v` under
    `Value.Compare` (neither side unset) -/
theorem contains_iff (h : Heap) (v : Val) (cells : List CellId) (b : Bool)
    (hres : containsLoop h v cells = .ok (some (.bool b))) :
    b = true ↔ ∃ c ∈ cells, v.kind ≠ .unknown ∧ (h.get c).kind ≠ .unknown ∧
      v.compare (h.get c) = .ok 0 := by
  induction cells with
  | nil => simp [containsLoop] at hres; simp [← hres]
  | cons c cs ih =>
    simp only [containsLoop] at hres
    split at hres
    · rename_i hu
      rw [ih hres]
      simp only [Bool.or_eq_true, beq_iff_eq] at hu
      constructor
      · rintro ⟨c', hc', h1, h2, h3⟩; exact ⟨c', List.mem_cons_of_mem _ hc', h1, h2, h3⟩
      · rintro ⟨c', hc', h1, h2, h3⟩
        rcases List.mem_cons.mp hc' with rfl | hc'
        · rcases hu with hu | hu
          · exact absurd hu h1
          · exact absurd hu h2
        · exact ⟨c', hc', h1, h2, h3⟩
    · rename_i hu
      simp only [Bool.or_eq_true, beq_iff_eq, not_or] at hu
      split at hres
      · cases hres
      · rename_i r hcmp
        split at hres
        · rename_i hr
          simp only [beq_iff_eq] at hr
          cases hres
          simp only [true_iff]
          exact ⟨c, List.mem_cons_self, hu.1, hu.2, by rw [hcmp, hr]⟩
        · rename_i hr
          simp only [beq_iff_eq] at hr
          rw [ih hres]
          constructor
          · rintro ⟨c', hc', h1, h2, h3⟩; exact ⟨c', List.mem_cons_of_mem _ hc', h1, h2, h3⟩
          · rintro ⟨c', hc', h1, h2, h3⟩
            rcases List.mem_cons.mp hc' with rfl | hc'
            · rw [hcmp] at h3; cases h3; exact absurd rfl hr
            · exact ⟨c', hc', h1, h2, h3⟩

/-- the scan errs exactly when the ideal scan with `==` errs: a container comparison reached
    before any match -/
theorem contains_error_iff (h : Heap) (v : Val) (cells : List CellId) (m : String) :
    containsLoop h v cells = .error m ↔ ListArr.contains v (cells.map h.get) = .error m := by
  rw [contains_eq]
  cases ListArr.contains v (cells.map h.get) <;> simp

example : (containsLoop ⟨#[.num F64.one, .arr 0], #[], #[]⟩ (.num F64.one) [0, 1]).toOption = some (some (.bool true))
    ∧ (containsLoop ⟨#[.num F64.one, .arr 0], #[], #[]⟩ (.num F64.one) [1, 0]).toOption = none := by
  decide +kernel

/-! ### 4. sort -/

/-- the copies `sort` orders keep the string form, and a number stays the same number -/
theorem sortCopy_str (v : Val) : (ListArr.sortCopy v).str! = v.str! := by
  cases v <;> rfl

theorem sortCopy_num (x : F64) : ListArr.sortCopy (.num x) = .num x := rfl

/-- on an all-numbers list the copies are the elements themselves -/
theorem sortCopy_all_num (l : List Val) (h : l.all (fun v => v.kind == .num) = true) :
    l.map ListArr.sortCopy = l := by
  induction l with
  | nil => rfl
  | cons v l ih =>
    simp only [List.all_cons, Bool.and_eq_true] at h
    cases v <;> simp_all [Val.kind, ListArr.sortCopy, copyVal]

/-- the two orders are total preorders (what a stable sort needs to be meaningful) -/
theorem sortLe_total_preorder (l : List Val) :
    (∀ x y, (ListArr.sortLe l x y || ListArr.sortLe l y x) = true) ∧
    (∀ x y z, ListArr.sortLe l x y = true → ListArr.sortLe l y z = true → ListArr.sortLe l x z = true) :=
  ⟨sortLe_total l, sortLe_trans l⟩

/-- `a.sort()`: the receiver and every other allocated array are unchanged; the result is a NEW
    array (id = the old number of arrays) denoting a stably sorted permutation of the copied
    elements — numerically (`f64Le`) if all elements are numbers, otherwise by `Bytes.le` on the
    string forms (`ListArr.sortLe`).  Arguments are ignored. -/
theorem sort_spec (a : ArrId) (args : List Val) (s : St) (wf : s.heap.WF) :
    ∃ s' r, callNative .arrSort args (some (.arr a)) s = .ok (.ok (some (.arr s.heap.arrs.size))) s' ∧
      (∀ b, b < s.heap.arrs.size → absArr s'.heap b = absArr s.heap b) ∧
      absArr s'.heap s.heap.arrs.size = r ∧
      ListArr.IsStableSort (ListArr.sortLe (absArr s.heap a)) ((absArr s.heap a).map ListArr.sortCopy) r ∧
      s'.heap.WF ∧ s'.heap.objs = s.heap.objs ∧ s' = { s with heap := s'.heap } := by
  refine ⟨_, _, callNative_arrSort a args s, ?_, absArr_sortHeap_new _ _, ?_, wf.sortHeap _, rfl, rfl⟩
  · intro b hb; exact absArr_sortHeap_old s.heap wf _ b hb
  · exact mergeSort_isStableSort _ _

/-- numeric instance: an all-numbers array is sorted by `f64Le`, and stays a permutation of itself -/
theorem sort_numbers (a : ArrId) (args : List Val) (s : St) (wf : s.heap.WF)
    (hn : (absArr s.heap a).all (fun v => v.kind == .num) = true) :
    ∃ s', callNative .arrSort args (some (.arr a)) s = .ok (.ok (some (.arr s.heap.arrs.size))) s' ∧
      (absArr s'.heap s.heap.arrs.size).Perm (absArr s.heap a) ∧
      (absArr s'.heap s.heap.arrs.size).Pairwise (fun x y => f64Le x.asNum y.asNum = true) := by
  obtain ⟨s', r, h1, -, h3, h4, -⟩ := sort_spec a args s wf
  refine ⟨s', h1, ?_, ?_⟩
  · rw [h3]; have := h4.perm; rwa [sortCopy_all_num _ hn] at this
  · rw [h3]; have := h4.sorted; simpa [ListArr.sortLe, hn] using this

/-! ### index reads: `a[-k]` is the k-th element from the end -/

/-- `a[x]` resolves like the ideal list: before the start is an error, past the end is absent,
    otherwise the member cell holds the list element -/
theorem get_refines (h : Heap) (a : ArrId) (x : F64) :
    match ListArr.get (absArr h a) x.toGoInt with
    | none => getMember h (.arr a) (.num x) = .error "index out of range"
    | some none => getMember h (.arr a) (.num x) = .ok .missing
    | some (some v) => ∃ c, getMember h (.arr a) (.num x) = .ok (.cell c) ∧ h.get c = v :=
  getMember_arr_num h a x

example : ListArr.get [.bool true, .bool false] (-1) = some (some (.bool false))
    ∧ ListArr.get [.bool true, .bool false] (-3) = none
    ∧ ListArr.get [.bool true, .bool false] 2 = some none := by decide

/-- non-vacuity: a well-formed heap with an allocated array -/
example : (⟨#[], #[#[]], #[]⟩ : Heap).WF ∧ 0 < (⟨#[], #[#[]], #[]⟩ : Heap).arrs.size := by
  refine ⟨⟨?_, ?_⟩, by simp⟩
  · intro a c hc
    rcases a with _ | a <;> simp [Heap.arr] at hc
  · intro o k c hc
    simp [Heap.obj] at hc

/-- non-vacuity with contents (for `sort_numbers`, `pop_refines`, …): a well-formed heap whose
    allocated array 0 holds the numbers 1, 0 -/
example : (⟨#[.num F64.one, .num F64.zero], #[#[0, 1]], #[]⟩ : Heap).WF ∧
    0 < (⟨#[.num F64.one, .num F64.zero], #[#[0, 1]], #[]⟩ : Heap).arrs.size ∧
    (absArr ⟨#[.num F64.one, .num F64.zero], #[#[0, 1]], #[]⟩ 0).all (fun v => v.kind == .num) = true ∧
    absArr ⟨#[.num F64.one, .num F64.zero], #[#[0, 1]], #[]⟩ 0 ≠ [] := by
  refine ⟨⟨?_, ?_⟩, by decide, by decide, by decide⟩
  · intro a c hc
    rcases a with _ | a
    · have : c = 0 ∨ c = 1 := by simpa [Heap.arr] using hc
      rcases this with rfl | rfl <;> decide
    · simp [Heap.arr] at hc
  · intro o k c hc
    simp [Heap.obj] at hc

/-! ### 6. index writes `a[i] = v` (added after the statement review: REVIEW.md, C15)

The ideal operation is `IndexWrite.setIdx l i w` on `List Val` (`i` = the index truncated to an
integer the way Go's `int(x)` does, `F64.toGoInt`; `w` = the copy of the value that is stored).
The clauses of the property are first proved about `setIdx` (what the ideal list does for each
class of index), then the model is shown to refine `setIdx`: at the level of the primitives the
evaluator runs for `a[i] = e` (`index_write_refines`), at the level of `evalExpr` when `e` is a
variable (`index_assign_var_refines`) or any expression whose evaluation only allocates cells
(section 8: `index_assign_refines`, `index_assign_fresh_refines` for literals), and inside
arbitrary sequences of operations on one array (`ops_refine_list_w`) or several (section 9:
`ops_refine_lists_w`).

Besides `Heap.WF` the index-write theorems assume `Unshared` (no cell is an element of two arrays or
twice of one array) and `ElemsPlain` (no element is a stand-in for a missing member or a method
value).  Both are kept by push / pop / popfirst / index write (shown here); that every store of the
evaluator keeps them is NOT proved here. -/

open IndexWrite

/-- an index inside the list overwrites exactly that element: same length, element `i` is the new
    value, every other position is unchanged -/
theorem index_inside (l : List Val) (i : Int) (w : Val) (h0 : 0 ≤ i) (hlt : i.toNat < l.length) :
    ∃ l', setIdx l i w = .ok l' ∧ l'.length = l.length ∧ l'[i.toNat]? = some w ∧
      ∀ j, j ≠ i.toNat → l'[j]? = l[j]? := by
  refine ⟨l.set i.toNat w, by simp [setIdx, h0, hlt], by simp, by simp [hlt], fun j hj => ?_⟩
  simp [Ne.symm hj]

/-- an index at or past the end (up to the padding limit `fillLimit` = 1024·1024) pads with nulls
    and appends: the length becomes `i + 1`, the old elements are unchanged, the positions between
    the old end and `i` hold null, position `i` holds the new value -/
theorem index_past_end (l : List Val) (i : Int) (w : Val) (h0 : 0 ≤ i) (hge : l.length ≤ i.toNat)
    (hlim : i.toNat ≤ fillLimit) :
    ∃ l', setIdx l i w = .ok l' ∧ l'.length = i.toNat + 1 ∧
      (∀ j, j < l.length → l'[j]? = l[j]?) ∧
      (∀ j, l.length ≤ j → j < i.toNat → l'[j]? = some (.nil none)) ∧
      l'[i.toNat]? = some w := by
  have h1 : ¬ i.toNat < l.length := Nat.not_lt.mpr hge
  have h2 : ¬ fillLimit < i.toNat := Nat.not_lt.mpr hlim
  refine ⟨l ++ List.replicate (i.toNat - l.length) (.nil none) ++ [w], by simp [setIdx, h0, h1, h2],
    by simp; omega, fun j hj => ?_, fun j hj1 hj2 => ?_, ?_⟩
  · rw [List.append_assoc, List.getElem?_append_left hj]
  · rw [List.append_assoc, List.getElem?_append_right hj1,
      List.getElem?_append_left (by simp; omega), List.getElem?_replicate]
    simp; omega
  · rw [List.getElem?_append_right (by simp; omega)]
    have : i.toNat - (l ++ List.replicate (i.toNat - l.length) (Val.nil none)).length = 0 := by
      simp; omega
    rw [this]; rfl

/-- a padding beyond the limit is refused (src/value.go SetMember: "index too large to auto-fill
    array"); there is no new list -/
theorem index_too_large (l : List Val) (i : Int) (w : Val) (h0 : 0 ≤ i) (hge : l.length ≤ i.toNat)
    (hlim : fillLimit < i.toNat) :
    setIdx l i w = .error "index too large to auto-fill array" := by
  have h1 : ¬ i.toNat < l.length := Nat.not_lt.mpr hge
  simp [setIdx, h0, h1, hlim]

/-- a negative index `-k` with `k ≤ length` counts from the end: it overwrites exactly element
    `length - k` (never pads), everything else and the length unchanged -/
theorem index_negative (l : List Val) (i : Int) (w : Val) (hneg : i < 0) (hk : (-i).toNat ≤ l.length) :
    ∃ l', setIdx l i w = .ok l' ∧ l'.length = l.length ∧ l'[l.length - (-i).toNat]? = some w ∧
      ∀ j, j ≠ l.length - (-i).toNat → l'[j]? = l[j]? := by
  have h0 : ¬ 0 ≤ i := by omega
  have hlt : l.length - (-i).toNat < l.length := by omega
  refine ⟨l.set (l.length - (-i).toNat) w, by simp [setIdx, h0, hk], by simp, by simp [hlt],
    fun j hj => ?_⟩
  simp [Ne.symm hj]

/-- a negative index before the start (`-k` with `k > length`) is an error, as for reads
    (src/value.go GetMember, which SetMember calls first: "index out of range") -/
theorem index_before_start (l : List Val) (i : Int) (w : Val) (hneg : i < 0) (hk : l.length < (-i).toNat) :
    setIdx l i w = .error "index out of range" := by
  have h0 : ¬ 0 ≤ i := by omega
  have h1 : ¬ (-i).toNat ≤ l.length := by omega
  simp [setIdx, h0, h1]

/-- whenever the ideal write succeeds, the ideal read `ListArr.get` at the same index returns the
    written value -/
theorem get_after_setIdx (l l' : List Val) (i : Int) (w : Val) (h : setIdx l i w = .ok l') :
    ListArr.get l' i = some (some w) := by
  unfold setIdx at h
  unfold ListArr.get
  by_cases h0 : 0 ≤ i
  · simp only [h0, ↓reduceIte] at h ⊢
    by_cases hlt : i.toNat < l.length
    · simp only [hlt, ↓reduceIte, Except.ok.injEq] at h
      subst h; simp [hlt]
    · simp only [hlt, ↓reduceIte] at h
      split at h
      · cases h
      · simp only [Except.ok.injEq] at h
        subst h
        rw [List.getElem?_append_right (by simp; omega)]
        have : i.toNat - (l ++ List.replicate (i.toNat - l.length) (Val.nil none)).length = 0 := by
          simp; omega
        rw [this]; rfl
  · simp only [h0, ↓reduceIte] at h ⊢
    split at h
    · rename_i hk
      simp only [Except.ok.injEq] at h
      subst h
      have hlt : l.length - (-i).toNat < l.length := by omega
      simp [hk, hlt]
    · cases h

/-- fractional indices are truncated toward zero before anything else (Go `int(x)`), and NaN is
    an index before the start -/
example : (F64.parse b!"1.5").map F64.toGoInt = some 1
    ∧ (F64.parse b!"0.9").map F64.toGoInt = some 0
    ∧ (F64.parse b!"1.5").map (fun x => (F64.neg x).toGoInt) = some (-1)
    ∧ (F64.parse b!"0.9").map (fun x => (F64.neg x).toGoInt) = some 0 := by decide +kernel

example : setIdx [.bool true, .bool false] 1 (.nil none) = .ok [.bool true, .nil none]
    ∧ setIdx [.bool true, .bool false] (-2) (.nil none) = .ok [.nil none, .bool false]
    ∧ setIdx [.bool true] 3 (.bool false) = .ok [.bool true, .nil none, .nil none, .bool false]
    ∧ setIdx [.bool true] (-2) (.bool false) = .error "index out of range" := by
  refine ⟨?_, ?_, ?_, ?_⟩ <;> rfl

/-- **the index write refines the ideal list**, at the level of the primitives the evaluator runs
    for `a[i] = e`: `writeAt pos ac ic rc` = `memberStep pos ac ic` then `evalAssignment pos · rc`,
    where the cell `ac` holds the array `a`, `ic` holds the number `x` and `rc` the value whose copy
    is `w`.  If the ideal `setIdx` on the list `a` denotes gives a list, the write succeeds, the
    cell it returns holds `w`, `a` denotes that list and no other array changes (`ArrStep`); if the
    ideal operation is an error, the write raises the runtime error with that message and no
    array changes.  All index classes are covered by `x.toGoInt` being arbitrary (inside, past the
    end, negative in range, before the start, fractional, NaN/±Inf = -2^63). -/
theorem index_write_refines (pos : Nat) (ac ic rc : CellId) (s : St) (a : ArrId) (x : F64) (w : Val)
    (wf : s.heap.WF) (un : Unshared s.heap) (pl : ElemsPlain s.heap) (ha : a < s.heap.arrs.size)
    (hac : s.heap.get ac = .arr a) (hic : s.heap.get ic = .num x) (hrc : rc < s.heap.cells.size)
    (hw : copyVal (s.heap.get rc) = .ok w) :
    match setIdx (absArr s.heap a) x.toGoInt w with
    | .ok l' => ∃ c s', writeAt pos ac ic rc s = .ok c s' ∧ s'.heap.get c = w ∧ ArrStep a s s' l' ∧
        Unshared s'.heap ∧ ElemsPlain s'.heap
    | .error m => ∃ s', writeAt pos ac ic rc s = .err (.runtime pos m) s' ∧
        ∀ b, absArr s'.heap b = absArr s.heap b := by
  have h := writeAt_refines pos ac ic rc s a x w wf un pl ha hac hic hrc hw
  cases hs : setIdx (absArr s.heap a) x.toGoInt w with
  | ok l' =>
    rw [hs] at h
    obtain ⟨c, h', e, g, st⟩ := h
    exact ⟨c, _, e, g, ⟨st.this, st.others, st.wf, st.arrs, st.objs, rfl⟩, st.unshared, st.plain⟩
  | error m =>
    rw [hs] at h
    obtain ⟨h', e, g⟩ := h
    exact ⟨_, e, g⟩

/-- the same at the level of the evaluator, for `ea[ei] = v` where `v` is a variable (or `$`):
    `ea` evaluates to a cell holding the array `a` (e.g. `ea` is the variable that holds it), then
    `ei` to a cell holding the number `x`; in the state `s2` reached then, the assignment expression
    behaves like `setIdx` on the list `a` denotes.  (For a right-hand side that is not a variable
    the evaluator runs it BETWEEN the member step and the store — `a[5] = a.pop()` — which this
    theorem does not cover; `index_write_refines` is the step the evaluator performs around it.) -/
theorem index_assign_var_refines (prog : Program) (n : Nat) (ea ei : Expr) (lsq eq tv : Token)
    (s s1 s2 : St) (ac ic rc : CellId) (a : ArrId) (x : F64) (w : Val)
    (hl : lsq.tag = .lsquare) (he : eq.tag = .equal)
    (h1 : evalExpr prog n ea s = .ok ac s1) (h2 : evalExpr prog n ei s1 = .ok ic s2)
    (h3 : ∀ h', getIdentifier prog tv { s2 with heap := h' } = .ok rc { s2 with heap := h' })
    (wf : s2.heap.WF) (un : Unshared s2.heap) (pl : ElemsPlain s2.heap) (ha : a < s2.heap.arrs.size)
    (hac : s2.heap.get ac = .arr a) (hic : s2.heap.get ic = .num x) (hrc : rc < s2.heap.cells.size)
    (hw : copyVal (s2.heap.get rc) = .ok w) :
    match setIdx (absArr s2.heap a) x.toGoInt w with
    | .ok l' => ∃ c s', evalExpr prog (n + 4) (.binary (.binary ea ei lsq) (.ident tv) eq) s = .ok c s' ∧
        s'.heap.get c = w ∧ ArrStep a s2 s' l' ∧ Unshared s'.heap ∧ ElemsPlain s'.heap
    | .error m => ∃ s', evalExpr prog (n + 4) (.binary (.binary ea ei lsq) (.ident tv) eq) s
          = .err (.runtime ea.token.pos m) s' ∧
        ∀ b, absArr s'.heap b = absArr s2.heap b := by
  rw [evalExpr_index_assign prog n ea ei lsq eq tv s s1 s2 ac ic rc hl he h1 h2 h3]
  exact index_write_refines ea.token.pos ac ic rc s2 a x w wf un pl ha hac hic hrc hw


/-! ### 7. every sequence of push / pop / popfirst / length / index write -/

/-- the operations of the extended sequence theorem: those of `ListArr.Op`, `length`, and the
    index write `a[x] = v` -/
inductive OpW
  | op (o : ListArr.Op)
  | length
  | set (x : F64) (v : Val)

/-- what may be pushed / stored for the sequence theorem: a pushed value is as array elements are
    (`Plain`; the evaluator only ever pushes copies), a stored value can be copied (is not a
    function) -/
def OpW.valid : OpW → Prop
  | .op (.push v) => Plain v
  | .op _ => True
  | .length => True
  | .set _ v => ∃ w, copyVal v = .ok w

/-- one operation on the ideal list: result and new list, or the error message.  An index write
    stores (and returns) the copy of the value, `ListArr.sortCopy v` = `copyVal v` -/
def stepW (l : List Val) : OpW → Except String (Option Val × List Val)
  | .op o => .ok (ListArr.step l o)
  | .length => .ok (some (.num (F64.ofNat (ListArr.length l))), l)
  | .set x v =>
    match setIdx l x.toGoInt (ListArr.sortCopy v) with
    | .ok l' => .ok (some (ListArr.sortCopy v), l')
    | .error m => .error m

/-- a sequence on the ideal list, stopping at the first error -/
def runW : List Val → List OpW → Except String (List (Option Val) × List Val)
  | l, [] => .ok ([], l)
  | l, op :: ops =>
    match stepW l op with
    | .error m => .error m
    | .ok (r, l1) =>
      match runW l1 ops with
      | .error m => .error m
      | .ok (rs, l2) => .ok (r :: rs, l2)

/-- one operation of the model through the array id `a`.  The index write is `writeAt` (the member
    step and the assignment the evaluator runs for `a[i] = e`) on three fresh cells holding the
    array reference, the index and the value — what evaluating the operands yields; its result is
    the value of the cell the assignment returns -/
def callOpW (a : ArrId) : OpW → EM NativeRes
  | .op o => callOp a o
  | .length => callNative .arrLength [] (some (.arr a))
  | .set x v => do
    let ac ← newCell (.arr a)
    let ic ← newCell (.num x)
    let rc ← newCell v
    let c ← writeAt 0 ac ic rc
    return .ok (some (← readCell c))

def runOpsW (a : ArrId) : List OpW → EM (List NativeRes)
  | [] => pure []
  | op :: ops => do
    let r ← callOpW a op
    let rs ← runOpsW a ops
    return r :: rs

/-- push / pop / popfirst keep `Unshared` and `ElemsPlain` -/
theorem op_keeps (a : ArrId) (o : ListArr.Op) (s s' : St) (r : NativeRes) (wf : s.heap.WF)
    (un : Unshared s.heap) (pl : ElemsPlain s.heap) (ha : a < s.heap.arrs.size)
    (hv : (OpW.op o).valid) (h : callOp a o s = .ok r s') :
    Unshared s'.heap ∧ ElemsPlain s'.heap := by
  cases o with
  | push v =>
    simp only [callOp, callNative_arrPush] at h
    cases h
    exact ⟨unshared_pushHeap s.heap wf un a ha v, elemsPlain_pushHeap s.heap wf pl a ha v hv⟩
  | pop =>
    simp only [callOp, callNative_arrPop] at h
    split at h
    · cases h; exact ⟨un, pl⟩
    · cases h; exact ⟨unshared_pop s.heap un a ha, elemsPlain_pop s.heap pl a ha⟩
  | popfirst =>
    simp only [callOp, callNative_arrPopfirst] at h
    split at h
    · cases h; exact ⟨un, pl⟩
    · cases h; exact ⟨unshared_popfirst s.heap un a ha, elemsPlain_popfirst s.heap pl a ha⟩

/-- one operation of the extended set refines the ideal step, and keeps the invariants -/
theorem opW_refines (a : ArrId) (op : OpW) (s : St) (wf : s.heap.WF) (un : Unshared s.heap)
    (pl : ElemsPlain s.heap) (ha : a < s.heap.arrs.size) (hv : op.valid) :
    match stepW (absArr s.heap a) op with
    | .ok (r, l') => ∃ s', callOpW a op s = .ok (resOf a r) s' ∧ ArrStep a s s' l' ∧
        Unshared s'.heap ∧ ElemsPlain s'.heap
    | .error m => ∃ s', callOpW a op s = .err (.runtime 0 m) s' := by
  cases op with
  | op o =>
    obtain ⟨s', e, st⟩ := op_refines a o s wf ha
    exact ⟨s', e, st, op_keeps a o s s' _ wf un pl ha hv e⟩
  | length =>
    exact ⟨s, length_refines a [] s,
      ⟨rfl, fun _ _ => rfl, wf, rfl, rfl, rfl⟩, un, pl⟩
  | set x v =>
    obtain ⟨w, hw⟩ := hv
    have hsc : ListArr.sortCopy v = w := by simp [ListArr.sortCopy, hw]
    -- the three operand cells
    let h1 := (s.heap.alloc (.arr a)).2
    let h2 := (h1.alloc (.num x)).2
    let h3 := (h2.alloc v).2
    have wf1 : h1.WF := wf_alloc _ wf _
    have wf2 : h2.WF := wf_alloc _ wf1 _
    have wf3 : h3.WF := wf_alloc _ wf2 _
    have pl3 : ElemsPlain h3 :=
      elemsPlain_alloc _ wf2 (elemsPlain_alloc _ wf1 (elemsPlain_alloc _ wf pl _) _) _
    have habs : ∀ b, absArr h3 b = absArr s.heap b := fun b => by
      rw [absArr_alloc h2 wf2, absArr_alloc h1 wf1, absArr_alloc s.heap wf]
    have hsz1 : h1.cells.size = s.heap.cells.size + 1 := by simp [h1, Heap.alloc]
    have hsz2 : h2.cells.size = s.heap.cells.size + 2 := by simp [h2, Heap.alloc, hsz1]
    have hsz3 : h3.cells.size = s.heap.cells.size + 3 := by simp [h3, Heap.alloc, hsz2]
    have g3 : h3.get h2.cells.size = v := Heap.get_push_new h2 v
    have g2 : h3.get h1.cells.size = .num x := by
      rw [show h3.get h1.cells.size = h2.get h1.cells.size from
        Heap.get_push_old h2 v _ (by rw [hsz2, hsz1]; nomega)]
      exact Heap.get_push_new h1 _
    have g1 : h3.get s.heap.cells.size = .arr a := by
      rw [show h3.get s.heap.cells.size = h2.get s.heap.cells.size from
        Heap.get_push_old h2 v _ (by rw [hsz2]; nomega)]
      rw [show h2.get s.heap.cells.size = h1.get s.heap.cells.size from
        Heap.get_push_old h1 _ _ (by rw [hsz1]; nomega)]
      exact Heap.get_push_new s.heap _
    have hrun : callOpW a (.set x v) s =
        (match writeAt 0 s.heap.cells.size h1.cells.size h2.cells.size { s with heap := h3 } with
         | .ok c s' => .ok (.ok (some (s'.heap.get c))) s'
         | .err e s' => .err e s'
         | .oof => .oof) := by
      simp only [callOpW, bind, EM.bind, newCell_eq]
      cases writeAt 0 s.heap.cells.size h1.cells.size h2.cells.size { s with heap := h3 } <;> rfl
    have hr := index_write_refines 0 s.heap.cells.size h1.cells.size h2.cells.size
      { s with heap := h3 } a x w wf3 (un : Unshared h3) pl3 ha g1 g2
      (by show @LT.lt Nat _ h2.cells.size h3.cells.size; rw [hsz3, hsz2]; omega)
      (by show copyVal (h3.get h2.cells.size) = _; rw [g3]; exact hw)
    simp only [stepW, hsc]
    rw [show absArr ({ s with heap := h3 } : St).heap a = absArr s.heap a from habs a] at hr
    cases hs : setIdx (absArr s.heap a) x.toGoInt w with
    | ok l' =>
      rw [hs] at hr
      obtain ⟨c, s', e, g, st, un', pl'⟩ := hr
      refine ⟨s', ?_, ?_, un', pl'⟩
      · rw [hrun, e]; simp only [g, resOf]
      · exact {
          this := st.this
          others := fun b hb => by rw [st.others b hb]; exact habs b
          wf := st.wf
          arrs := st.arrs
          objs := st.objs
          rest := by have := st.rest; rw [this] }
    | error m =>
      rw [hs] at hr
      obtain ⟨s', e, -⟩ := hr
      exact ⟨s', by rw [hrun, e]⟩

/-- **for any sequence of push / pop / popfirst / length / index write through the same array id,
    every result and the final contents are those of the ideal list, and no other array changes**;
    if the ideal sequence stops with an error (an index before the start, a padding beyond the
    limit), the model's run stops with the runtime error carrying the same message -/
theorem ops_refine_list_w (a : ArrId) (ops : List OpW) (s : St) (wf : s.heap.WF) (un : Unshared s.heap)
    (pl : ElemsPlain s.heap) (ha : a < s.heap.arrs.size) (hv : ∀ op ∈ ops, op.valid) :
    match runW (absArr s.heap a) ops with
    | .ok (rs, l') => ∃ s', runOpsW a ops s = .ok (rs.map (resOf a)) s' ∧ ArrStep a s s' l'
    | .error m => ∃ s', runOpsW a ops s = .err (.runtime 0 m) s' := by
  induction ops generalizing s with
  | nil =>
    exact ⟨s, rfl, { this := rfl, others := fun _ _ => rfl, wf := wf, arrs := rfl, objs := rfl, rest := rfl }⟩
  | cons op ops ih =>
    have h1 := opW_refines a op s wf un pl ha (hv op List.mem_cons_self)
    simp only [runW]
    cases hs : stepW (absArr s.heap a) op with
    | error m =>
      rw [hs] at h1
      obtain ⟨s', e⟩ := h1
      exact ⟨s', by simp only [runOpsW, bind, EM.bind, e]⟩
    | ok rl =>
      obtain ⟨r, l1⟩ := rl
      rw [hs] at h1
      obtain ⟨s1, e1, st1, un1, pl1⟩ := h1
      have h2 := ih s1 st1.wf un1 pl1 (by rw [st1.arrs]; exact ha)
        (fun o ho => hv o (List.mem_cons_of_mem _ ho))
      rw [st1.this] at h2
      simp only
      cases hr : runW l1 ops with
      | error m =>
        rw [hr] at h2
        obtain ⟨s', e⟩ := h2
        exact ⟨s', by simp only [runOpsW, bind, EM.bind, e1, e]⟩
      | ok rsl =>
        obtain ⟨rs, l2⟩ := rsl
        rw [hr] at h2
        obtain ⟨s2, e2, st2⟩ := h2
        refine ⟨s2, by simp only [runOpsW, bind, EM.bind, e1, e2, pure, EM.pure, List.map_cons], ?_⟩
        exact {
          this := st2.this
          others := fun b hb => by rw [st2.others b hb, st1.others b hb]
          wf := st2.wf
          arrs := by rw [st2.arrs, st1.arrs]
          objs := by rw [st2.objs, st1.objs]
          rest := by
            have e1 := st1.rest; have e2 := st2.rest
            rw [e2]; rw [e1] }


/-! #### non-vacuity: a concrete state meeting the hypotheses of the index-write theorems -/

/-- cells 0, 1, 2 hold the array reference, the index `1` and the value `true`; the array 0 is
    `[true, false]` (cells 3, 4); the variables `a`, `i`, `v` name cells 0, 1, 2 -/
def exW : St :=
  { heap := ⟨#[.arr 0, .num F64.one, .bool true, .bool true, .bool false], #[#[3, 4]], #[]⟩,
    frames := [⟨b!"<root>", [(b!"a", 0), (b!"i", 1), (b!"v", 2)]⟩], out := [], root := none,
    ruleRoot := none, returnVal := none, faults := 0 }

theorem exW_arr (a : ArrId) : exW.heap.arr (a + 1) = #[] := by
  simp [exW, Heap.arr]

theorem exW_wf : exW.heap.WF := by
  refine ⟨?_, ?_⟩
  · intro a c hc
    rcases a with _ | a
    · have : c = 3 ∨ c = 4 := by simpa [exW, Heap.arr] using hc
      rcases this with rfl | rfl <;> decide
    · rw [exW_arr] at hc; simp at hc
  · intro o k c hc
    simp [exW, Heap.obj] at hc

theorem exW_unshared : Unshared exW.heap := by
  intro a b i j hi hj e
  rcases a with _ | a
  · rcases b with _ | b
    · have hi' : i < 2 := hi
      have hj' : j < 2 := hj
      refine ⟨rfl, ?_⟩
      rcases i with _ | _ | i <;> rcases j with _ | _ | j <;> first | rfl | omega | (revert e; decide)
    · rw [exW_arr] at hj; simp at hj
  · rw [exW_arr] at hi; simp at hi

theorem exW_plain : ElemsPlain exW.heap := by
  intro a c hc
  rcases a with _ | a
  · have : c = 3 ∨ c = 4 := by simpa [exW, Heap.arr] using hc
    rcases this with rfl | rfl <;> exact ⟨rfl, fun _ _ _ e => by cases e⟩
  · rw [exW_arr] at hc; simp at hc

/-- `a[i] = v` -/
def exWAssign : Expr :=
  .binary (.binary (.ident ⟨.ident, 0, b!"a"⟩) (.ident ⟨.ident, 2, b!"i"⟩) ⟨.lsquare, 1, b!"["⟩)
    (.ident ⟨.ident, 7, b!"v"⟩) ⟨.equal, 5, b!"="⟩

/-- the hypotheses of `index_write_refines` and of `index_assign_var_refines` hold in `exW` for
    `a[i] = v`, and the conclusion gives: the assignment succeeds and `a` denotes `[true, true]` -/
example : ∃ c s', evalExpr Program.empty 5 exWAssign exW = .ok c s' ∧
    absArr s'.heap 0 = [.bool true, .bool true] ∧ s'.heap.get c = .bool true := by
  have h := index_assign_var_refines Program.empty 1 (.ident ⟨.ident, 0, b!"a"⟩) (.ident ⟨.ident, 2, b!"i"⟩)
    ⟨.lsquare, 1, b!"["⟩ ⟨.equal, 5, b!"="⟩ ⟨.ident, 7, b!"v"⟩ exW exW exW 0 1 2 0 F64.one (.bool true)
    rfl rfl (by with_unfolding_all rfl) (by with_unfolding_all rfl)
    (fun _ => by with_unfolding_all rfl) exW_wf exW_unshared exW_plain (by decide) rfl rfl (by decide) rfl
  have hs : setIdx (absArr exW.heap 0) F64.one.toGoInt (.bool true) = .ok [.bool true, .bool true] := by
    rfl
  rw [hs] at h
  obtain ⟨c, s', e, g, st, -⟩ := h
  exact ⟨c, s', e, st.this, g⟩

/-- a sequence mixing all five operations on `exW`'s array `[true, false]`:
    `a[3] = 1; a.pop(); a[-1] = 0; a.popfirst(); a.length; a.push(1)` -/
example : runW [.bool true, .bool false]
      [.set (F64.ofNat 3) (.num F64.one), .op .pop, .set (F64.neg F64.one) (.num F64.zero),
       .op .popfirst, .length, .op (.push (.num F64.one))]
    = .ok ([some (.num F64.one), some (.num F64.one), some (.num F64.zero), some (.bool true),
            some (.num (F64.ofNat 2)), none],
           [.bool false, .num F64.zero, .num F64.one]) := by
  rfl


/-! ### 8. `ea[ei] = er` with a right-hand side that is not a variable -/

/-- **the assignment expression `ea[ei] = er` refines the ideal list, for every right-hand side whose
    evaluation only allocates cells** (`RhsYields`: run in the state after the member step it
    yields a cell whose value copies to `w`, keeping every existing cell, array and object —
    literals, variables, arithmetic on them, reads of existing members; NOT method calls that
    change an array, `a[5] = a.pop()`, nor array / object literals, which allocate containers).
    `ea` evaluates to a cell holding the array `a`, then `ei` to a cell holding the number `x`;
    `s2` is the state reached then. -/
theorem index_assign_refines (prog : Program) (n : Nat) (ea ei er : Expr) (lsq eq : Token)
    (s s1 s2 : St) (ac ic : CellId) (a : ArrId) (x : F64) (w : Val)
    (hl : lsq.tag = .lsquare) (he : eq.tag = .equal)
    (h1 : evalExpr prog n ea s = .ok ac s1) (h2 : evalExpr prog n ei s1 = .ok ic s2)
    (wf : s2.heap.WF) (un : Unshared s2.heap) (pl : ElemsPlain s2.heap) (ha : a < s2.heap.arrs.size)
    (hac : s2.heap.get ac = .arr a) (hic : s2.heap.get ic = .num x)
    (hr : ∀ m sm, memberStep ea.token.pos ac ic s2 = .ok m sm →
      RhsYields (evalExpr prog (n + 2) er) w sm) :
    match setIdx (absArr s2.heap a) x.toGoInt w with
    | .ok l' => ∃ c s', evalExpr prog (n + 4) (.binary (.binary ea ei lsq) er eq) s = .ok c s' ∧
        s'.heap.get c = w ∧ ArrStep a s2 s' l' ∧ Unshared s'.heap ∧ ElemsPlain s'.heap
    | .error m => ∃ s', evalExpr prog (n + 4) (.binary (.binary ea ei lsq) er eq) s
          = .err (.runtime ea.token.pos m) s' ∧
        ∀ b, absArr s'.heap b = absArr s2.heap b := by
  rw [evalExpr_index_assign_any prog n ea ei er lsq eq s s1 s2 ac ic hl he h1 h2]
  have h := writeAtVia_refines ea.token.pos ac ic (evalExpr prog (n + 2) er) s2 a x w wf un pl ha hac hic hr
  cases hs : setIdx (absArr s2.heap a) x.toGoInt w with
  | ok l' =>
    rw [hs] at h
    obtain ⟨c, h', e, g, st⟩ := h
    exact ⟨c, _, e, g, ⟨st.this, st.others, st.wf, st.arrs, st.objs, rfl⟩, st.unshared, st.plain⟩
  | error m =>
    rw [hs] at h
    obtain ⟨h', e, g⟩ := h
    exact ⟨_, e, g⟩

/-- instance: the right-hand side is a literal (or anything else that evaluates, in every state,
    to a fresh cell holding the value `v`), `w` the copy of `v` -/
theorem index_assign_fresh_refines (prog : Program) (n : Nat) (ea ei er : Expr) (lsq eq : Token)
    (s s1 s2 : St) (ac ic : CellId) (a : ArrId) (x : F64) (v w : Val)
    (hl : lsq.tag = .lsquare) (he : eq.tag = .equal)
    (h1 : evalExpr prog n ea s = .ok ac s1) (h2 : evalExpr prog n ei s1 = .ok ic s2)
    (wf : s2.heap.WF) (un : Unshared s2.heap) (pl : ElemsPlain s2.heap) (ha : a < s2.heap.arrs.size)
    (hac : s2.heap.get ac = .arr a) (hic : s2.heap.get ic = .num x)
    (hv : ∀ s', evalExpr prog (n + 2) er s' = newCell v s') (hw : copyVal v = .ok w) :
    match setIdx (absArr s2.heap a) x.toGoInt w with
    | .ok l' => ∃ c s', evalExpr prog (n + 4) (.binary (.binary ea ei lsq) er eq) s = .ok c s' ∧
        s'.heap.get c = w ∧ ArrStep a s2 s' l' ∧ Unshared s'.heap ∧ ElemsPlain s'.heap
    | .error m => ∃ s', evalExpr prog (n + 4) (.binary (.binary ea ei lsq) er eq) s
          = .err (.runtime ea.token.pos m) s' ∧
        ∀ b, absArr s'.heap b = absArr s2.heap b := by
  apply index_assign_refines prog n ea ei er lsq eq s s1 s2 ac ic a x w hl he h1 h2 wf un pl ha hac hic
  intro m sm _
  refine ⟨sm.heap.cells.size, (sm.heap.alloc v).2, ?_, Ext.alloc sm.heap v, ?_, ?_⟩
  · rw [hv, newCell_eq]
  · show @LT.lt Nat _ sm.heap.cells.size (sm.heap.cells.push v).size
    simp
  · rw [show (sm.heap.alloc v).2.get sm.heap.cells.size = v from Heap.get_push_new sm.heap v]
    exact hw

/-- the number the literal `3` denotes -/
def three : F64 := (F64.parse b!"3").getD F64.zero

/-- `a[3] = null` on `exW` (`a` = `[true, false]`, the index and the value are literals): the
    hypotheses of `index_assign_fresh_refines` hold and it gives `[true, false, null, null]` -/
example : ∃ c s', evalExpr Program.empty 5
      (.binary (.binary (.ident ⟨.ident, 0, b!"a"⟩) (.lit ⟨.num, 2, b!"3"⟩) ⟨.lsquare, 1, b!"["⟩)
        (.lit ⟨.null, 7, b!"null"⟩) ⟨.equal, 5, b!"="⟩) exW = .ok c s' ∧
    absArr s'.heap 0 = [.bool true, .bool false, .nil none, .nil none] := by
  have hp : F64.parse b!"3" = some three := by decide +kernel
  have h3 : three.toGoInt = 3 := by decide +kernel
  have ext : Ext exW.heap (exW.heap.alloc (.num three)).2 := Ext.alloc _ _
  have h2 : evalExpr Program.empty 1 (.lit ⟨.num, 2, b!"3"⟩) exW
      = .ok 5 { exW with heap := (exW.heap.alloc (.num three)).2 } := by
    unfold evalExpr
    simp only [hp]
    rfl
  have h := index_assign_fresh_refines Program.empty 1 (.ident ⟨.ident, 0, b!"a"⟩) (.lit ⟨.num, 2, b!"3"⟩)
    (.lit ⟨.null, 7, b!"null"⟩) ⟨.lsquare, 1, b!"["⟩ ⟨.equal, 5, b!"="⟩ exW exW
    { exW with heap := (exW.heap.alloc (.num three)).2 } 0 5 0 three (.nil none) (.nil none)
    rfl rfl (by with_unfolding_all rfl) h2
    (ext.wf exW_wf) (ext.unshared exW_unshared) (ext.plain exW_wf exW_plain) (by decide)
    (Heap.get_push_old exW.heap _ 0 (by decide)) (Heap.get_push_new exW.heap _)
    (fun _ => by with_unfolding_all rfl) rfl
  rw [h3, ext.absArr exW_wf 0] at h
  have hs : setIdx (absArr exW.heap 0) 3 (.nil none) = .ok [.bool true, .bool false, .nil none, .nil none] := by
    rfl
  rw [hs] at h
  obtain ⟨c, s', e, g, st, -⟩ := h
  exact ⟨c, s', e, st.this⟩

/-! ### 9. several arrays, interleaved, with index writes -/

/-- interleaved operations on a family of ideal lists, stopping at the first error -/
def runAllW : (ArrId → List Val) → List (ArrId × OpW) → Except String (List NativeRes × (ArrId → List Val))
  | m, [] => .ok ([], m)
  | m, aop :: ops =>
    match stepW (m aop.1) aop.2 with
    | .error e => .error e
    | .ok (r, l') =>
      match runAllW (fun b => if b = aop.1 then l' else m b) ops with
      | .error e => .error e
      | .ok (rs, m') => .ok (resOf aop.1 r :: rs, m')

def runOpsOnW : List (ArrId × OpW) → EM (List NativeRes)
  | [] => pure []
  | aop :: ops => do
    let r ← callOpW aop.1 aop.2
    let rs ← runOpsOnW ops
    return r :: rs

/-- **operations — index writes included — interleaved on several arrays**: every result is the
    ideal one and every array denotes what its ideal list holds after the operations addressed to
    it; an error of the ideal run is the runtime error of the model's run -/
theorem ops_refine_lists_w (ops : List (ArrId × OpW)) (s : St) (wf : s.heap.WF) (un : Unshared s.heap)
    (pl : ElemsPlain s.heap) (hids : ∀ aop ∈ ops, aop.1 < s.heap.arrs.size)
    (hv : ∀ aop ∈ ops, aop.2.valid) :
    match runAllW (absArr s.heap) ops with
    | .ok (rs, m') => ∃ s', runOpsOnW ops s = .ok rs s' ∧ (∀ b, absArr s'.heap b = m' b) ∧
        s'.heap.WF ∧ s'.heap.arrs.size = s.heap.arrs.size ∧ s' = { s with heap := s'.heap }
    | .error e => ∃ s', runOpsOnW ops s = .err (.runtime 0 e) s' := by
  induction ops generalizing s with
  | nil => exact ⟨s, rfl, fun _ => rfl, wf, rfl, rfl⟩
  | cons aop ops ih =>
    have h1 := opW_refines aop.1 aop.2 s wf un pl (hids aop List.mem_cons_self) (hv aop List.mem_cons_self)
    simp only [runAllW]
    cases hs : stepW (absArr s.heap aop.1) aop.2 with
    | error e =>
      rw [hs] at h1
      obtain ⟨s', e'⟩ := h1
      exact ⟨s', by simp only [runOpsOnW, bind, EM.bind, e']⟩
    | ok rl =>
      obtain ⟨r, l1⟩ := rl
      rw [hs] at h1
      obtain ⟨s1, e1, st1, un1, pl1⟩ := h1
      have habs : absArr s1.heap = fun b => if b = aop.1 then l1 else absArr s.heap b := by
        funext b
        by_cases hb : b = aop.1
        · subst hb; simp [st1.this]
        · simp [hb, st1.others b hb]
      have h2 := ih s1 st1.wf un1 pl1
        (fun x hx => by rw [st1.arrs]; exact hids x (List.mem_cons_of_mem _ hx))
        (fun x hx => hv x (List.mem_cons_of_mem _ hx))
      rw [habs] at h2
      simp only
      cases hr : runAllW (fun b => if b = aop.1 then l1 else absArr s.heap b) ops with
      | error e =>
        rw [hr] at h2
        obtain ⟨s', e'⟩ := h2
        exact ⟨s', by simp only [runOpsOnW, bind, EM.bind, e1, e']⟩
      | ok rsm =>
        obtain ⟨rs, m'⟩ := rsm
        rw [hr] at h2
        obtain ⟨s2, e2, hall, wf2, hsz, hrest⟩ := h2
        refine ⟨s2, by simp only [runOpsOnW, bind, EM.bind, e1, e2, pure, EM.pure], hall, wf2,
          by rw [hsz, st1.arrs], ?_⟩
        have e1' := st1.rest
        rw [hrest]; rw [e1']


/-- non-vacuity of `ops_refine_list_w` / `ops_refine_lists_w`: the sequence
    `a[3] = 1; a.pop(); a[-1] = 0; a.popfirst(); a.length; a.push(1)` is valid, `exW` meets the
    hypotheses, and the theorem gives the results and the final contents `[false, 0, 1]` -/
def exOps : List OpW :=
  [.set (F64.ofNat 3) (.num F64.one), .op .pop, .set (F64.neg F64.one) (.num F64.zero),
   .op .popfirst, .length, .op (.push (.num F64.one))]

theorem exOps_valid : ∀ op ∈ exOps, op.valid := by
  intro op hop
  simp only [exOps, List.mem_cons, List.not_mem_nil, or_false] at hop
  rcases hop with rfl | rfl | rfl | rfl | rfl | rfl
  · exact ⟨_, rfl⟩
  · trivial
  · exact ⟨_, rfl⟩
  · trivial
  · trivial
  · exact ⟨rfl, fun _ _ _ e => by cases e⟩

example : ∃ s', runOpsW 0 exOps exW =
      .ok ([some (.num F64.one), some (.num F64.one), some (.num F64.zero), some (.bool true),
            some (.num (F64.ofNat 2)), none].map (resOf 0)) s' ∧
    absArr s'.heap 0 = [.bool false, .num F64.zero, .num F64.one] := by
  have h := ops_refine_list_w 0 exOps exW exW_wf exW_unshared exW_plain (by decide) exOps_valid
  have hr : runW (absArr exW.heap 0) exOps
      = .ok ([some (.num F64.one), some (.num F64.one), some (.num F64.zero), some (.bool true),
            some (.num (F64.ofNat 2)), none], [.bool false, .num F64.zero, .num F64.one]) := rfl
  rw [hr] at h
  obtain ⟨s', e, st⟩ := h
  exact ⟨s', e, st.this⟩


/-- why `Unshared` is assumed: in a heap (not reachable by the evaluator, as far as we know: every
    store into an array goes through a fresh cell) where one cell is an element twice, `a[1] = false`
    on `[true, true]` changes BOTH elements, where the ideal list gives `[true, false]` -/
example : (match writeAt 0 0 1 2
      { exW with heap := ⟨#[.arr 0, .num F64.one, .bool false, .bool true], #[#[3, 3]], #[]⟩ } with
    | .ok _ s' => absArr s'.heap 0
    | _ => []) = [.bool false, .bool false]
    ∧ setIdx [.bool true, .bool true] F64.one.toGoInt (.bool false) = .ok [.bool true, .bool false] := by
  constructor <;> with_unfolding_all rfl



/-! ### 10. `Unshared` and `ElemsPlain` are invariants of evaluation (added after REVIEW.md, C15)

  Sections 6 to 9 take `Heap.WF`, `Unshared` and `ElemsPlain` as hypotheses on the start state.  Here
  they are shown to hold in every state evaluation goes on from.  The invariant that is actually
  inductive is `HeapInv.Inv h` = `h.WF ∧ Unshared h ∧ ElemsPlain h ∧ MembersPlain h` (object members
  are plain too: `for (v, k in obj)` copies a member's raw value into the index variable, whose cell
  may be an array element through a match binding), together with the two-state relation
  `HeapInv.Trans h h'` (the heap only grows; a cell holding a plain value keeps holding plain values;
  no cell existing in `h` becomes an array element unless it was one).

  What is claimed (`HeapInv.Post`): when an evaluation started in a state satisfying `Inv` ends
  NORMALLY or with a CONTROL SIGNAL (break / continue / return / next / exit — the cases after which
  evaluation goes on), the end state satisfies `Inv` and is `Trans`-related to the start.  For the
  end state of an evaluation that stops with a runtime error (or panic / unmodelled construct) only
  the weak invariant `HeapInv.Weak h` = `h.WF ∧ Unshared h` is claimed
  (`evalExpr_error_keeps_unshared`, `evalStmt_error_keeps_unshared`, `run_end_unshared` at the end of
  this section), and no more can be: FINDING `elemsPlain_fails_after_runtime_error` below —
  `a[5] = printf` stores the stand-in value into the padded array and only then fails to copy the
  function (the Go code does the same: `SetMember` runs `item.Value = cell.Value` before `copyValue`
  fails), so `ElemsPlain` is false in that final state; no evaluation goes on from it.  An
  evaluation that runs out of fuel has no end state; a run that does reports no state or an earlier
  one satisfying `Inv`. -/

open HeapInv

/-- the three hypotheses of the index-write theorems are part of the invariant -/
theorem inv_gives {h : Heap} (i : HeapInv.Inv h) : h.WF ∧ Unshared h ∧ ElemsPlain h := ⟨i.wf, i.un, i.ep⟩

/-- **the invariant is kept by every one of the 15 mutually recursive evaluator functions, at every
    fuel** (`AllGood`: `evalExpr`, `evalUnary`, `evalBinary`, `evalMatchCases`, `evalCaseMatch`,
    `evalArrayCaseMatch`, `matchElems`, `evalStmt`, `evalBlock`, `whileLoop`, `forLoop` from any state
    satisfying `Inv`; `evalExprList … true` moreover returns pairwise different fresh plain cells that
    are nobody's elements; `evalObjItems` plain allocated member cells if it was given such;
    `callFunction` needs argument cells holding plain values (what `evalExprList … true` yields);
    `forInLoop` needs an item list whose cells hold plain values (what the `for … in` statement builds
    from an array, an object or a string)), including the natives they call (`Good.callNative`),
    `evalAssignment` / `createSpeculative` / `setMember` (`Good.evalAssignment`), `memberStep`,
    `copyValue` and array / object literals -/
theorem evaluator_keeps_inv (prog : Program) (n : Nat) : AllGood prog n := allGood prog n

/-- an expression evaluated from a state satisfying the invariant: if it yields a value, the end state
    satisfies the invariant (in particular `Heap.WF`, `Unshared`, `ElemsPlain`) -/
theorem evalExpr_keeps_inv (prog : Program) (n : Nat) (e : Expr) (s s' : St) (c : CellId)
    (i : HeapInv.Inv s.heap) (h : evalExpr prog n e s = .ok c s') : HeapInv.Inv s'.heap ∧ HeapInv.Trans s.heap s'.heap := by
  have := (allGood prog n).expr e s i trivial
  rw [h] at this; exact ⟨this.1, this.2.1⟩

/-- … and if it ends with a control signal (a `return`/`break`/… inside a match body) -/
theorem evalExpr_signal_keeps_inv (prog : Program) (n : Nat) (e : Expr) (s s' : St) (g : Sig)
    (i : HeapInv.Inv s.heap) (h : evalExpr prog n e s = .err (.sig g) s') :
    HeapInv.Inv s'.heap ∧ HeapInv.Trans s.heap s'.heap := by
  have := (allGood prog n).expr e s i trivial
  rw [h] at this; exact this

/-- a statement run from a state satisfying the invariant: if it completes, the end state satisfies
    the invariant -/
theorem evalStmt_keeps_inv (prog : Program) (n : Nat) (st : Stmt) (s s' : St)
    (i : HeapInv.Inv s.heap) (h : evalStmt prog n st s = .ok () s') : HeapInv.Inv s'.heap ∧ HeapInv.Trans s.heap s'.heap := by
  have := (allGood prog n).stmt st s i trivial
  rw [h] at this; exact ⟨this.1, this.2.1⟩

/-- … and if it ends with a control signal (break / continue / return / next / exit) -/
theorem evalStmt_signal_keeps_inv (prog : Program) (n : Nat) (st : Stmt) (s s' : St) (g : Sig)
    (i : HeapInv.Inv s.heap) (h : evalStmt prog n st s = .err (.sig g) s') :
    HeapInv.Inv s'.heap ∧ HeapInv.Trans s.heap s'.heap := by
  have := (allGood prog n).stmt st s i trivial
  rw [h] at this; exact this

/-- every native, called with plain argument values (what `callFunction` passes: the values of the
    copied argument cells), keeps the invariant: `push` stores a fresh cell, `pop`/`popfirst` shrink,
    `sort`/`split` build an array of fresh cells holding copies, `pluck` an object of fresh cells -/
theorem native_keeps_inv (f : Native) (args : List Val) (this : Option Val) (s s' : St) (r : NativeRes)
    (hargs : ∀ v ∈ args, Plain v) (i : HeapInv.Inv s.heap) (h : callNative f args this s = .ok r s') :
    HeapInv.Inv s'.heap ∧ HeapInv.Trans s.heap s'.heap := by
  have := Good.callNative f args this hargs s i trivial
  rw [h] at this; exact ⟨this.1, this.2.1⟩

/-- the store `evalAssignment` (with `createSpeculative` and `setMember`: padding, materialising
    parents, object members) keeps the invariant whenever it succeeds -/
theorem evalAssignment_keeps_inv (pos : Nat) (l r : CellId) (s s' : St) (c : CellId)
    (i : HeapInv.Inv s.heap) (h : evalAssignment pos l r s = .ok c s') : HeapInv.Inv s'.heap ∧ HeapInv.Trans s.heap s'.heap := by
  have := Good.evalAssignment pos l r s i trivial
  rw [h] at this; exact ⟨this.1, this.2.1⟩

/-- the heap the driver builds from decoded JSON input satisfies the invariant, and the value it
    returns is plain -/
theorem newValueJson_keeps_inv (j : JVal) (s s' : St) (v : Val) (i : HeapInv.Inv s.heap)
    (h : newValueJson j s = .ok v s') : HeapInv.Inv s'.heap ∧ HeapInv.Trans s.heap s'.heap ∧ Plain v := by
  have := ht_newValueJson j s i trivial
  rw [h] at this; exact this

/-- the start state of a run (empty heap plus the builtins' and functions' cells) satisfies the
    invariant -/
theorem initial_state_inv (prog : Program) : HeapInv.Inv (newEvaluator prog Heap.empty [] 0).heap :=
  newEvaluator_empty_inv prog

/-- **a whole run** (`EvalProgram`: BEGIN rules, every input file — decoding, selectors with their
    nested evaluators, BEGINFILE / pattern / ENDFILE rules per root —, END rules): the state a
    successful run ends in has a well-formed heap in which no cell is an element twice and every
    array element is plain.  (`HeapInv.evalProgram_invRun` says the same for runs that end with a
    surfaced signal, a JSON error or a syntax error; runs stopped by a runtime error are excluded,
    see the finding below.) -/
theorem run_end_unshared_plain (tbl : RuleTable) (src : Bytes) (sels : List Bytes) (files : List InputFile)
    (st : St) (hst : (evalProgram tbl src sels files).st = some st)
    (ho : (evalProgram tbl src sels files).outcome = .ok) :
    st.heap.WF ∧ Unshared st.heap ∧ ElemsPlain st.heap :=
  inv_gives (evalProgram_inv tbl src sels files st hst ho)

/-- the states a run goes through, as a closure: the start state of an evaluator (on the empty heap,
    or nested on a reached heap, as selectors do), closed under what the driver and the evaluator do
    between two evaluations — converting decoded JSON, allocating a cell, changing frames / roots /
    output / counters — and under every evaluation of an expression or a statement (of any program,
    at any fuel) that ends normally or with a control signal, every successful store
    (`evalAssignment`), member step and native call with plain arguments -/
inductive Reachable : St → Prop
  | init (prog : Program) : Reachable (newEvaluator prog Heap.empty [] 0)
  | nested (prog : Program) (s : St) (out : List Bytes) (faults : Nat) :
      Reachable s → Reachable (newEvaluator prog s.heap out faults)
  | sameHeap (s s' : St) : Reachable s → s'.heap = s.heap → Reachable s'
  | alloc (s : St) (v : Val) : Reachable s → Reachable { s with heap := (s.heap.alloc v).2 }
  | json (j : JVal) (s s' : St) (v : Val) : Reachable s → newValueJson j s = .ok v s' → Reachable s'
  | expr (prog : Program) (n : Nat) (e : Expr) (s s' : St) (c : CellId) :
      Reachable s → evalExpr prog n e s = .ok c s' → Reachable s'
  | exprSig (prog : Program) (n : Nat) (e : Expr) (s s' : St) (g : Sig) :
      Reachable s → evalExpr prog n e s = .err (.sig g) s' → Reachable s'
  | stmt (prog : Program) (n : Nat) (st : Stmt) (s s' : St) :
      Reachable s → evalStmt prog n st s = .ok () s' → Reachable s'
  | stmtSig (prog : Program) (n : Nat) (st : Stmt) (s s' : St) (g : Sig) :
      Reachable s → evalStmt prog n st s = .err (.sig g) s' → Reachable s'
  | assign (pos : Nat) (l r : CellId) (s s' : St) (c : CellId) :
      Reachable s → evalAssignment pos l r s = .ok c s' → Reachable s'
  | member (pos : Nat) (l r : CellId) (s s' : St) (c : CellId) :
      Reachable s → memberStep pos l r s = .ok c s' → Reachable s'
  | native (f : Native) (args : List Val) (this : Option Val) (s s' : St) (r : NativeRes) :
      Reachable s → (∀ v ∈ args, Plain v) → callNative f args this s = .ok r s' → Reachable s'

/-- **every reachable state satisfies the invariant** -/
theorem reachable_inv {s : St} (h : Reachable s) : HeapInv.Inv s.heap := by
  induction h with
  | init prog => exact newEvaluator_empty_inv prog
  | nested prog s out faults _ ih => exact newEvaluator_inv prog s.heap out faults ih
  | sameHeap s s' _ e ih => rw [e]; exact ih
  | alloc s v _ ih => exact inv_alloc ih v
  | json j s s' v _ e ih => exact (newValueJson_keeps_inv j s s' v ih e).1
  | expr prog n e s s' c _ he ih => exact (evalExpr_keeps_inv prog n e s s' c ih he).1
  | exprSig prog n e s s' g _ he ih => exact (evalExpr_signal_keeps_inv prog n e s s' g ih he).1
  | stmt prog n st s s' _ he ih => exact (evalStmt_keeps_inv prog n st s s' ih he).1
  | stmtSig prog n st s s' g _ he ih => exact (evalStmt_signal_keeps_inv prog n st s s' g ih he).1
  | assign pos l r s s' c _ he ih => exact (evalAssignment_keeps_inv pos l r s s' c ih he).1
  | member pos l r s s' c _ he ih =>
    have := Good.memberStep pos l r s ih trivial
    rw [he] at this; exact this.1
  | native f args this s s' r _ ha he ih => exact (native_keeps_inv f args this s s' r ha ih he).1

/-- … so in every reachable state no cell is an element of two arrays or twice of one, and no array
    element is a stand-in or a method value: the hypotheses of sections 6 to 9 -/
theorem reachable_unshared_plain {s : St} (h : Reachable s) :
    s.heap.WF ∧ Unshared s.heap ∧ ElemsPlain s.heap := inv_gives (reachable_inv h)

/-- `index_write_refines` in a reachable state, without the hypotheses `Heap.WF`, `Unshared`,
    `ElemsPlain`: the primitive index write refines `setIdx` on the list the array denotes -/
theorem index_write_refines_reachable (pos : Nat) (ac ic rc : CellId) (s : St) (a : ArrId) (x : F64)
    (w : Val) (hs : Reachable s) (ha : a < s.heap.arrs.size)
    (hac : s.heap.get ac = .arr a) (hic : s.heap.get ic = .num x) (hrc : rc < s.heap.cells.size)
    (hw : copyVal (s.heap.get rc) = .ok w) :
    match setIdx (absArr s.heap a) x.toGoInt w with
    | .ok l' => ∃ c s', writeAt pos ac ic rc s = .ok c s' ∧ s'.heap.get c = w ∧ ArrStep a s s' l' ∧
        Unshared s'.heap ∧ ElemsPlain s'.heap
    | .error m => ∃ s', writeAt pos ac ic rc s = .err (.runtime pos m) s' ∧
        ∀ b, absArr s'.heap b = absArr s.heap b :=
  have i := reachable_inv hs
  index_write_refines pos ac ic rc s a x w i.wf i.un i.ep ha hac hic hrc hw

/-- `index_assign_refines` for an assignment expression `ea[ei] = er` evaluated in a reachable state
    `s`, without the three hypotheses (the state `s2` after `ea` and `ei` is reachable too) -/
theorem index_assign_refines_reachable (prog : Program) (n : Nat) (ea ei er : Expr) (lsq eq : Token)
    (s s1 s2 : St) (ac ic : CellId) (a : ArrId) (x : F64) (w : Val) (hs : Reachable s)
    (hl : lsq.tag = .lsquare) (he : eq.tag = .equal)
    (h1 : evalExpr prog n ea s = .ok ac s1) (h2 : evalExpr prog n ei s1 = .ok ic s2)
    (ha : a < s2.heap.arrs.size)
    (hac : s2.heap.get ac = .arr a) (hic : s2.heap.get ic = .num x)
    (hr : ∀ m sm, memberStep ea.token.pos ac ic s2 = .ok m sm →
      RhsYields (evalExpr prog (n + 2) er) w sm) :
    match setIdx (absArr s2.heap a) x.toGoInt w with
    | .ok l' => ∃ c s', evalExpr prog (n + 4) (.binary (.binary ea ei lsq) er eq) s = .ok c s' ∧
        s'.heap.get c = w ∧ ArrStep a s2 s' l' ∧ Unshared s'.heap ∧ ElemsPlain s'.heap
    | .error m => ∃ s', evalExpr prog (n + 4) (.binary (.binary ea ei lsq) er eq) s
          = .err (.runtime ea.token.pos m) s' ∧
        ∀ b, absArr s'.heap b = absArr s2.heap b :=
  have i := reachable_inv (.expr prog n ei s1 s2 ic (.expr prog n ea s s1 ac hs h1) h2)
  index_assign_refines prog n ea ei er lsq eq s s1 s2 ac ic a x w hl he h1 h2 i.wf i.un i.ep ha hac hic hr

/-- `ops_refine_list_w` from a reachable state: every sequence of push / pop / popfirst / length /
    index write through one array id behaves like the ideal list, with no hypothesis on the heap
    but the receiver being allocated -/
theorem ops_refine_list_w_reachable (a : ArrId) (ops : List OpW) (s : St) (hs : Reachable s)
    (ha : a < s.heap.arrs.size) (hv : ∀ op ∈ ops, op.valid) :
    match runW (absArr s.heap a) ops with
    | .ok (rs, l') => ∃ s', runOpsW a ops s = .ok (rs.map (resOf a)) s' ∧ ArrStep a s s' l'
    | .error m => ∃ s', runOpsW a ops s = .err (.runtime 0 m) s' :=
  have i := reachable_inv hs
  ops_refine_list_w a ops s i.wf i.un i.ep ha hv

/-- `ops_refine_lists_w` (several arrays, interleaved) from a reachable state -/
theorem ops_refine_lists_w_reachable (ops : List (ArrId × OpW)) (s : St) (hs : Reachable s)
    (hids : ∀ aop ∈ ops, aop.1 < s.heap.arrs.size) (hv : ∀ aop ∈ ops, aop.2.valid) :
    match runAllW (absArr s.heap) ops with
    | .ok (rs, m') => ∃ s', runOpsOnW ops s = .ok rs s' ∧ (∀ b, absArr s'.heap b = m' b) ∧
        s'.heap.WF ∧ s'.heap.arrs.size = s.heap.arrs.size ∧ s' = { s with heap := s'.heap }
    | .error e => ∃ s', runOpsOnW ops s = .err (.runtime 0 e) s' :=
  have i := reachable_inv hs
  ops_refine_lists_w ops s i.wf i.un i.ep hids hv

/-- `index_assign_fresh_refines` (the right-hand side evaluates to a fresh cell holding `v`: every
    literal) for an assignment evaluated in a reachable state, without the three hypotheses -/
theorem index_assign_fresh_refines_reachable (prog : Program) (n : Nat) (ea ei er : Expr) (lsq eq : Token)
    (s s1 s2 : St) (ac ic : CellId) (a : ArrId) (x : F64) (v w : Val) (hs : Reachable s)
    (hl : lsq.tag = .lsquare) (he : eq.tag = .equal)
    (h1 : evalExpr prog n ea s = .ok ac s1) (h2 : evalExpr prog n ei s1 = .ok ic s2)
    (ha : a < s2.heap.arrs.size)
    (hac : s2.heap.get ac = .arr a) (hic : s2.heap.get ic = .num x)
    (hv : ∀ s', evalExpr prog (n + 2) er s' = newCell v s') (hw : copyVal v = .ok w) :
    match setIdx (absArr s2.heap a) x.toGoInt w with
    | .ok l' => ∃ c s', evalExpr prog (n + 4) (.binary (.binary ea ei lsq) er eq) s = .ok c s' ∧
        s'.heap.get c = w ∧ ArrStep a s2 s' l' ∧ Unshared s'.heap ∧ ElemsPlain s'.heap
    | .error m => ∃ s', evalExpr prog (n + 4) (.binary (.binary ea ei lsq) er eq) s
          = .err (.runtime ea.token.pos m) s' ∧
        ∀ b, absArr s'.heap b = absArr s2.heap b :=
  have i := reachable_inv (.expr prog n ei s1 s2 ic (.expr prog n ea s s1 ac hs h1) h2)
  index_assign_fresh_refines prog n ea ei er lsq eq s s1 s2 ac ic a x v w hl he h1 h2 i.wf i.un i.ep ha
    hac hic hv hw

/-! #### non-vacuity of section 10, and the finding -/

/-- the example state of section 7 satisfies the invariant -/
theorem exW_inv : HeapInv.Inv exW.heap :=
  ⟨exW_wf, exW_unshared, exW_plain, fun o k c hc => by simp [exW, Heap.obj] at hc⟩

example : exW.heap.WF ∧ Unshared exW.heap ∧ ElemsPlain exW.heap := inv_gives exW_inv

/-- did the computation end normally? -/
def isOkR {α : Type} : Res α → Bool
  | .ok _ _ => true
  | _ => false

/-- did it end with a control signal? -/
def isSigR {α : Type} : Res α → Bool
  | .err (.sig _) _ => true
  | _ => false

/-- the state a computation ended in -/
def stOf {α : Type} : Res α → St
  | .ok _ s => s
  | .err _ s => s
  | .oof => default

theorem exists_of_isOkR {α : Type} {r : Res α} (h : isOkR r = true) : ∃ a s', r = .ok a s' := by
  cases r with
  | ok a s' => exact ⟨a, s', rfl⟩
  | err e s' => cases h
  | oof => cases h

theorem exists_of_isSigR {α : Type} {r : Res α} (h : isSigR r = true) : ∃ g s', r = .err (.sig g) s' := by
  cases r with
  | ok a s' => cases h
  | err e s' =>
    cases e with
    | sig g => exact ⟨g, s', rfl⟩
    | runtime p m => cases h
    | panic m => cases h
    | unmodelled w => cases h
  | oof => cases h

/-- `a[i] = v` on `exW`: `evalExpr_keeps_inv` applies -/
example : ∃ c s', evalExpr Program.empty 5 exWAssign exW = .ok c s' ∧ HeapInv.Inv s'.heap := by
  obtain ⟨c, s', e⟩ := exists_of_isOkR (r := evalExpr Program.empty 5 exWAssign exW) (by decide +kernel)
  exact ⟨c, s', e, (evalExpr_keeps_inv _ _ _ _ _ _ exW_inv e).1⟩

/-- the statement `a[i] = v` on `exW`: `evalStmt_keeps_inv` applies -/
example : ∃ s', evalStmt Program.empty 6 (.expr exWAssign) exW = .ok () s' ∧ HeapInv.Inv s'.heap := by
  obtain ⟨u, s', e⟩ := exists_of_isOkR (r := evalStmt Program.empty 6 (.expr exWAssign) exW)
    (by decide +kernel)
  exact ⟨s', e, (evalStmt_keeps_inv _ _ _ _ _ exW_inv e).1⟩

/-- `{ a[i] = v; break }` ends with the signal `break`: `evalStmt_signal_keeps_inv` applies -/
example : ∃ g s', evalStmt Program.empty 8
      (.block ⟨.lcurly, 0, b!"{"⟩ [.expr exWAssign, .brk ⟨.break_, 9, b!"break"⟩]) exW = .err (.sig g) s' ∧
    HeapInv.Inv s'.heap := by
  obtain ⟨g, s', e⟩ := exists_of_isSigR (r := evalStmt Program.empty 8
      (.block ⟨.lcurly, 0, b!"{"⟩ [.expr exWAssign, .brk ⟨.break_, 9, b!"break"⟩]) exW) (by decide +kernel)
  exact ⟨g, s', e, (evalStmt_signal_keeps_inv _ _ _ _ _ _ exW_inv e).1⟩

/-- `match a { x => { a[i] = v; break } }` (an expression) ends with the signal `break`:
    `evalExpr_signal_keeps_inv` applies -/
example : ∃ g s', evalExpr Program.empty 10
      (.match_ ⟨.match_, 0, b!"match"⟩ (.ident ⟨.ident, 6, b!"a"⟩)
        [.mk [.ident ⟨.ident, 10, b!"x"⟩]
          (.block ⟨.lcurly, 0, b!"{"⟩ [.expr exWAssign, .brk ⟨.break_, 9, b!"break"⟩])]) exW
        = .err (.sig g) s' ∧ HeapInv.Inv s'.heap := by
  obtain ⟨g, s', e⟩ := exists_of_isSigR (r := evalExpr Program.empty 10
      (.match_ ⟨.match_, 0, b!"match"⟩ (.ident ⟨.ident, 6, b!"a"⟩)
        [.mk [.ident ⟨.ident, 10, b!"x"⟩]
          (.block ⟨.lcurly, 0, b!"{"⟩ [.expr exWAssign, .brk ⟨.break_, 9, b!"break"⟩])]) exW)
    (by decide +kernel)
  exact ⟨g, s', e, (evalExpr_signal_keeps_inv _ _ _ _ _ _ exW_inv e).1⟩

/-- `a.push(true)` on `exW`: `native_keeps_inv` applies -/
example : ∃ r s', callNative .arrPush [.bool true] (some (.arr 0)) exW = .ok r s' ∧ HeapInv.Inv s'.heap := by
  obtain ⟨r, s', e⟩ := exists_of_isOkR (r := callNative .arrPush [.bool true] (some (.arr 0)) exW)
    (by decide +kernel)
  exact ⟨r, s', e, (native_keeps_inv _ _ _ _ _ _
    (fun v hv => by simp at hv; subst hv; exact ⟨rfl, fun _ _ _ e => by cases e⟩) exW_inv e).1⟩

/-- storing the value of cell 2 into the element cell 3: `evalAssignment_keeps_inv` applies -/
example : ∃ c s', evalAssignment 0 3 2 exW = .ok c s' ∧ HeapInv.Inv s'.heap := by
  obtain ⟨c, s', e⟩ := exists_of_isOkR (r := evalAssignment 0 3 2 exW) (by decide +kernel)
  exact ⟨c, s', e, (evalAssignment_keeps_inv _ _ _ _ _ _ exW_inv e).1⟩

/-- converting `[null, {"k": true}]` on `exW`: `newValueJson_keeps_inv` applies -/
example : ∃ v s', newValueJson (.arr [.null, .obj [(b!"k", .bool true)]]) exW = .ok v s' ∧
    HeapInv.Inv s'.heap ∧ Plain v := by
  obtain ⟨v, s', e⟩ := exists_of_isOkR (r := newValueJson (.arr [.null, .obj [(b!"k", .bool true)]]) exW)
    (by decide +kernel)
  have h := newValueJson_keeps_inv _ _ _ _ exW_inv e
  exact ⟨v, s', e, h.1, h.2.2⟩

theorem outcome_ok_of {o : Outcome} (h : (match o with | .ok => true | _ => false) = true) : o = .ok := by
  cases o <;> first | rfl | cases h

/-- a whole run with padding writes, push, pop, popfirst, an array literal holding an element's value and
    input converted from JSON: `run_end_unshared_plain` applies -/
example : ∃ st, (evalProgram expectedRuleTable
      b!"BEGIN { a[2] = 1; a.push(a.pop()); b = [a[0], a] } { $.x[3] = $.y; b.push($); b[5] = b.popfirst() }" []
      [⟨b!"in", b!"{\"y\": [1, 2]}", .eof⟩]).st = some st ∧
    st.heap.WF ∧ Unshared st.heap ∧ ElemsPlain st.heap := by
  have ho := outcome_ok_of (o := (evalProgram expectedRuleTable
      b!"BEGIN { a[2] = 1; a.push(a.pop()); b = [a[0], a] } { $.x[3] = $.y; b.push($); b[5] = b.popfirst() }" []
      [⟨b!"in", b!"{\"y\": [1, 2]}", .eof⟩]).outcome) (by decide +kernel)
  cases hst : (evalProgram expectedRuleTable
      b!"BEGIN { a[2] = 1; a.push(a.pop()); b = [a[0], a] } { $.x[3] = $.y; b.push($); b[5] = b.popfirst() }" []
      [⟨b!"in", b!"{\"y\": [1, 2]}", .eof⟩]).st with
  | none =>
    have : ((evalProgram expectedRuleTable
      b!"BEGIN { a[2] = 1; a.push(a.pop()); b = [a[0], a] } { $.x[3] = $.y; b.push($); b[5] = b.popfirst() }" []
      [⟨b!"in", b!"{\"y\": [1, 2]}", .eof⟩]).st).isSome = true := by decide +kernel
    rw [hst] at this; cases this
  | some st => exact ⟨st, rfl, run_end_unshared_plain _ _ _ _ st hst ho⟩

/-- a reachable state: the start state of the empty program, the input `[true, false]` converted,
    three cells allocated (the array reference, the index 1, the value `true`), and the variables
    `a`, `i`, `v` naming them -/
def sR0 : St := newEvaluator Program.empty Heap.empty [] 0
def sR1 : St := stOf (newValueJson (.arr [.bool true, .bool false]) sR0)
def sR2 : St := { sR1 with heap := (sR1.heap.alloc (.arr 0)).2 }
def sR3 : St := { sR2 with heap := (sR2.heap.alloc (.num F64.one)).2 }
def sR4 : St := { sR3 with heap := (sR3.heap.alloc (.bool true)).2 }
def sR : St := { sR4 with frames := [⟨b!"<root>", [(b!"a", 5), (b!"i", 6), (b!"v", 7)]⟩] }

theorem sR_reachable : Reachable sR := by
  have h1 : Reachable sR1 :=
    .json (.arr [.bool true, .bool false]) sR0 sR1 (.arr 0) (.init _) (by with_unfolding_all rfl)
  exact .sameHeap sR4 sR (.alloc sR3 _ (.alloc sR2 _ (.alloc sR1 _ h1))) rfl

example : sR.heap.WF ∧ Unshared sR.heap ∧ ElemsPlain sR.heap := reachable_unshared_plain sR_reachable

/-- `index_write_refines_reachable` on `sR`: the write `a[1] = true` gives `[true, true]` -/
example : ∃ c s', writeAt 0 5 6 7 sR = .ok c s' ∧ absArr s'.heap 0 = [.bool true, .bool true] := by
  have h := index_write_refines_reachable 0 5 6 7 sR 0 F64.one (.bool true) sR_reachable
    (by decide +kernel) (by with_unfolding_all rfl) (by with_unfolding_all rfl) (by decide +kernel)
    (by with_unfolding_all rfl)
  have hs : setIdx (absArr sR.heap 0) F64.one.toGoInt (.bool true) = .ok [.bool true, .bool true] := by
    with_unfolding_all rfl
  rw [hs] at h
  obtain ⟨c, s', e, g, st, -⟩ := h
  exact ⟨c, s', e, st.this⟩

example : HeapInv.Inv sR.heap := reachable_inv sR_reachable

/-- `a[3] = null` evaluated in the reachable state `sR` (`a` = `[true, false]`): the hypotheses of
    `index_assign_fresh_refines_reachable` hold — none about sharing or plainness is left — and it
    gives `[true, false, null, null]` -/
example : ∃ c s', evalExpr Program.empty 5
      (.binary (.binary (.ident ⟨.ident, 0, b!"a"⟩) (.lit ⟨.num, 2, b!"3"⟩) ⟨.lsquare, 1, b!"["⟩)
        (.lit ⟨.null, 7, b!"null"⟩) ⟨.equal, 5, b!"="⟩) sR = .ok c s' ∧
    absArr s'.heap 0 = [.bool true, .bool false, .nil none, .nil none] := by
  have hp : F64.parse b!"3" = some three := by decide +kernel
  have h3 : three.toGoInt = 3 := by decide +kernel
  have ext : Ext sR.heap (sR.heap.alloc (.num three)).2 := Ext.alloc _ _
  have h2 : evalExpr Program.empty 1 (.lit ⟨.num, 2, b!"3"⟩) sR
      = .ok 8 { sR with heap := (sR.heap.alloc (.num three)).2 } := by
    unfold evalExpr
    simp only [hp]
    rfl
  have h := index_assign_fresh_refines_reachable Program.empty 1 (.ident ⟨.ident, 0, b!"a"⟩)
    (.lit ⟨.num, 2, b!"3"⟩) (.lit ⟨.null, 7, b!"null"⟩) ⟨.lsquare, 1, b!"["⟩ ⟨.equal, 5, b!"="⟩ sR sR
    { sR with heap := (sR.heap.alloc (.num three)).2 } 5 8 0 three (.nil none) (.nil none) sR_reachable
    rfl rfl (by with_unfolding_all rfl) h2 (by decide +kernel)
    ((Heap.get_push_old sR.heap _ 5 (by decide +kernel)).trans (by with_unfolding_all rfl))
    (Heap.get_push_new sR.heap _)
    (fun _ => by with_unfolding_all rfl) rfl
  rw [h3, ext.absArr (reachable_inv sR_reachable).wf 0] at h
  have hs : setIdx (absArr sR.heap 0) 3 (.nil none) = .ok [.bool true, .bool false, .nil none, .nil none] := by
    with_unfolding_all rfl
  rw [hs] at h
  obtain ⟨c, s', e, g, st, -⟩ := h
  exact ⟨c, s', e, st.this⟩

/-- the same through `index_assign_refines_reachable`: its hypothesis `RhsYields` holds for the
    literal `null` -/
example : ∃ c s', evalExpr Program.empty 5
      (.binary (.binary (.ident ⟨.ident, 0, b!"a"⟩) (.lit ⟨.num, 2, b!"3"⟩) ⟨.lsquare, 1, b!"["⟩)
        (.lit ⟨.null, 7, b!"null"⟩) ⟨.equal, 5, b!"="⟩) sR = .ok c s' ∧
    absArr s'.heap 0 = [.bool true, .bool false, .nil none, .nil none] := by
  have hp : F64.parse b!"3" = some three := by decide +kernel
  have h3 : three.toGoInt = 3 := by decide +kernel
  have ext : Ext sR.heap (sR.heap.alloc (.num three)).2 := Ext.alloc _ _
  have h2 : evalExpr Program.empty 1 (.lit ⟨.num, 2, b!"3"⟩) sR
      = .ok 8 { sR with heap := (sR.heap.alloc (.num three)).2 } := by
    unfold evalExpr
    simp only [hp]
    rfl
  have h := index_assign_refines_reachable Program.empty 1 (.ident ⟨.ident, 0, b!"a"⟩)
    (.lit ⟨.num, 2, b!"3"⟩) (.lit ⟨.null, 7, b!"null"⟩) ⟨.lsquare, 1, b!"["⟩ ⟨.equal, 5, b!"="⟩ sR sR
    { sR with heap := (sR.heap.alloc (.num three)).2 } 5 8 0 three (.nil none) sR_reachable
    rfl rfl (by with_unfolding_all rfl) h2 (by decide +kernel)
    ((Heap.get_push_old sR.heap _ 5 (by decide +kernel)).trans (by with_unfolding_all rfl))
    (Heap.get_push_new sR.heap _)
    (fun m sm _ => ⟨sm.heap.cells.size, (sm.heap.alloc (.nil none)).2, by with_unfolding_all rfl,
      Ext.alloc sm.heap _, by
        show @LT.lt Nat _ sm.heap.cells.size (sm.heap.cells.push (.nil none)).size
        simp, by
        rw [show (sm.heap.alloc (.nil none)).2.get sm.heap.cells.size = .nil none from
          Heap.get_push_new sm.heap _]
        rfl⟩)
  rw [h3, ext.absArr (reachable_inv sR_reachable).wf 0] at h
  have hs : setIdx (absArr sR.heap 0) 3 (.nil none) = .ok [.bool true, .bool false, .nil none, .nil none] := by
    with_unfolding_all rfl
  rw [hs] at h
  obtain ⟨c, s', e, g, st, -⟩ := h
  exact ⟨c, s', e, st.this⟩

/-- `ops_refine_list_w_reachable` on `sR` with the six-operation sequence of section 7 -/
example : ∃ s', runOpsW 0 exOps sR =
      .ok ([some (.num F64.one), some (.num F64.one), some (.num F64.zero), some (.bool true),
            some (.num (F64.ofNat 2)), none].map (resOf 0)) s' ∧
    absArr s'.heap 0 = [.bool false, .num F64.zero, .num F64.one] := by
  have h := ops_refine_list_w_reachable 0 exOps sR sR_reachable (by decide +kernel) exOps_valid
  have hr : runW (absArr sR.heap 0) exOps
      = .ok ([some (.num F64.one), some (.num F64.one), some (.num F64.zero), some (.bool true),
            some (.num (F64.ofNat 2)), none], [.bool false, .num F64.zero, .num F64.one]) := by
    with_unfolding_all rfl
  rw [hr] at h
  obtain ⟨s', e, st⟩ := h
  exact ⟨s', e, st.this⟩

/-- `ops_refine_lists_w_reachable` on `sR`: its hypotheses hold for `a.length` on array 0 -/
example := ops_refine_lists_w_reachable [(0, .length)] sR sR_reachable
  (fun aop h => by simp at h; subst h; decide +kernel) (fun aop h => by simp at h; subst h; trivial)

/-- **FINDING: `ElemsPlain` does not hold in the final state of an evaluation stopped by a runtime
    error.**  `a[i] = v` with `a = [true, false]`, `i = 5` and `v` the builtin `printf`: the member
    step yields a stand-in for the missing element, `createSpeculative` / `setMember` pad the array
    to six elements and copy the stand-in VALUE into the last one, and only then `copyValue` refuses
    the function ("cannot copy a nativefunction"): the runtime error leaves an array whose element 5
    is a stand-in.  The Go code does the same (`SetMember`: `item.Value = cell.Value`, then
    `copyValue` fails in `evalAssignment`); the program ends there, so nothing ever reads the
    element.  This is why section 10 claims the full invariant for normal ends and control signals
    only, and `Heap.WF ∧ Unshared` after errors. -/
theorem elemsPlain_fails_after_runtime_error :
    ∃ p m s', evalExpr Program.empty 5 exWAssign
        { exW with heap := ⟨#[.arr 0, .num (F64.ofNat 5), .native .printf none none, .bool true, .bool false],
                             #[#[3, 4]], #[]⟩ } = .err (.runtime p m) s' ∧
      m = "cannot copy a nativefunction" ∧ (absArr s'.heap 0).length = 6 ∧ ¬ ElemsPlain s'.heap := by
  have ob : (match evalExpr Program.empty 5 exWAssign
        { exW with heap := ⟨#[.arr 0, .num (F64.ofNat 5), .native .printf none none, .bool true, .bool false],
                             #[#[3, 4]], #[]⟩ } with
      | .err (.runtime _ m) s' => m == "cannot copy a nativefunction" && (s'.heap.arr 0).size == 6 &&
          (s'.heap.get ((s'.heap.arr 0).getD 5 0)).speculative
      | _ => false) = true := by decide +kernel
  cases hr : evalExpr Program.empty 5 exWAssign
        { exW with heap := ⟨#[.arr 0, .num (F64.ofNat 5), .native .printf none none, .bool true, .bool false],
                             #[#[3, 4]], #[]⟩ } with
  | ok c s' => rw [hr] at ob; cases ob
  | oof => rw [hr] at ob; cases ob
  | err e s' =>
    rw [hr] at ob
    cases e with
    | sig g => cases ob
    | panic m => cases ob
    | unmodelled w => cases ob
    | runtime p m =>
      simp only [Bool.and_eq_true, beq_iff_eq] at ob
      obtain ⟨⟨hm, hsz⟩, hsp⟩ := ob
      refine ⟨p, m, s', rfl, hm, by rw [absArr_length]; exact hsz, fun pl => ?_⟩
      have := (pl 0 _ (mem_arr_getD s'.heap 0 5 (by rw [hsz]; decide))).1
      rw [hsp] at this; cases this

/-- **what does survive a runtime error: `Heap.WF` and `Unshared`.**  An expression evaluated from a
    state satisfying the invariant that stops with a runtime error leaves a well-formed heap in which
    no cell is an element of two arrays or twice of one (`HeapInv.Weak`; the same holds after a
    panic or an unmodelled construct, see `HeapInv.Post`).  Only `ElemsPlain` can be lost
    (`elemsPlain_fails_after_runtime_error`): every store into an array is of fresh cells, and
    writing a value into a cell changes neither the arrays nor the number of cells. -/
theorem evalExpr_error_keeps_unshared (prog : Program) (n : Nat) (e : Expr) (s s' : St) (p : Nat)
    (m : String) (i : HeapInv.Inv s.heap) (h : evalExpr prog n e s = .err (.runtime p m) s') :
    s'.heap.WF ∧ Unshared s'.heap := by
  have := (allGood prog n).expr e s i trivial
  rw [h] at this; exact this

/-- … and a statement that stops with a runtime error -/
theorem evalStmt_error_keeps_unshared (prog : Program) (n : Nat) (st : Stmt) (s s' : St) (p : Nat)
    (m : String) (i : HeapInv.Inv s.heap) (h : evalStmt prog n st s = .err (.runtime p m) s') :
    s'.heap.WF ∧ Unshared s'.heap := by
  have := (allGood prog n).stmt st s i trivial
  rw [h] at this; exact this

/-- **a whole run, whatever its outcome** (success, runtime error, panic, unmodelled construct,
    surfaced signal, JSON error, syntax error in a selector, out of fuel): the state it reports has a
    well-formed heap in which no cell is an element twice.  (For the outcomes other than runtime
    error / panic / unmodelled the full invariant holds, `HeapInv.evalProgram_invRun`.) -/
theorem run_end_unshared (tbl : RuleTable) (src : Bytes) (sels : List Bytes) (files : List InputFile)
    (st : St) (hst : (evalProgram tbl src sels files).st = some st) :
    st.heap.WF ∧ Unshared st.heap :=
  evalProgram_weak tbl src sels files st hst

/-- the state of `elemsPlain_fails_after_runtime_error` -/
def exF : St :=
  { exW with heap := ⟨#[.arr 0, .num (F64.ofNat 5), .native .printf none none, .bool true, .bool false],
                       #[#[3, 4]], #[]⟩ }

/-- `evalExpr_error_keeps_unshared` on the evaluation of `elemsPlain_fails_after_runtime_error`
    (`a[5] = printf` with `a = [true, false]`): the start state satisfies the invariant (the cell
    holding the function is no array element), the evaluation stops with a runtime error, and the
    end state — in which `ElemsPlain` fails — is well-formed and unshared -/
example : ∃ p m s', evalExpr Program.empty 5 exWAssign exF = .err (.runtime p m) s' ∧
    s'.heap.WF ∧ Unshared s'.heap ∧ ¬ ElemsPlain s'.heap := by
  have hi : HeapInv.Inv exF.heap := by
    have e : exF.heap = (exW.heap.set 1 (.num (F64.ofNat 5))).set 2 (.native .printf none none) := by
      with_unfolding_all rfl
    rw [e]
    refine inv_set_notElem (inv_set exW_inv 1 (plain_num _)) 2 _ ?_ ?_
    · intro b hb
      rcases b with _ | b
      · revert hb; decide
      · have hb' : 2 ∈ (exW.heap.arr (b + 1)).toList := hb
        rw [exW_arr] at hb'; simp at hb'
    · intro o k hk
      have hk' : (k, 2) ∈ exW.heap.obj o := hk
      simp [exW, Heap.obj] at hk'
  obtain ⟨p, m, s', hr, -, -, hne⟩ := elemsPlain_fails_after_runtime_error
  exact ⟨p, m, s', hr, (evalExpr_error_keeps_unshared _ _ _ _ _ _ _ hi hr).1,
    (evalExpr_error_keeps_unshared _ _ _ _ _ _ _ hi hr).2, hne⟩

/-- a whole run that ends with a runtime error: `a[5] = printf` in a `BEGIN` rule -/
def exRunErr : RunResult := evalProgram expectedRuleTable b!"BEGIN { a[2] = 1; a[5] = printf }" [] []

/-- `run_end_unshared` on a whole run that ends with the runtime error of the finding: the state the
    run reports is well-formed and unshared, and `ElemsPlain` fails in it (element 5 of the padded
    array is a stand-in) -/
example : ∃ st src pos, exRunErr.st = some st ∧
    exRunErr.outcome = .runtimeErr src pos "cannot copy a nativefunction" ∧
    st.heap.WF ∧ Unshared st.heap ∧ ¬ ElemsPlain st.heap := by
  have ob : (match exRunErr with
      | ⟨.runtimeErr _ _ m, _, some st⟩ => m == "cannot copy a nativefunction" &&
          (st.heap.arr 0).size == 6 && (st.heap.get ((st.heap.arr 0).getD 5 0)).speculative
      | _ => false) = true := by decide +kernel
  have hw := run_end_unshared expectedRuleTable b!"BEGIN { a[2] = 1; a[5] = printf }" [] []
  change ∀ st, exRunErr.st = some st → _ at hw
  generalize exRunErr = r at ob hw ⊢
  obtain ⟨o, out, st?⟩ := r
  cases o <;> cases st? <;> try (cases ob; done)
  rename_i src pos m st
  simp only [Bool.and_eq_true, beq_iff_eq] at ob
  obtain ⟨⟨hm, hsz⟩, hsp⟩ := ob
  subst hm
  refine ⟨st, src, pos, rfl, rfl, (hw st rfl).1, (hw st rfl).2, fun pl => ?_⟩
  have := (pl 0 _ (mem_arr_getD st.heap 0 5 (by rw [hsz]; decide))).1
  rw [hsp] at this; cases this


/-- **a whole run that does not end with a runtime error, a panic or an unmodelled construct**
    (success, surfaced signal, JSON error, syntax error in a selector, out of fuel with a reported
    state): the state it reports satisfies the full invariant, in particular `ElemsPlain`
    (`run_end_unshared_plain` is the case `outcome = .ok`) -/
theorem run_end_unshared_plain_unless_error (tbl : RuleTable) (src : Bytes) (sels : List Bytes)
    (files : List InputFile) (st : St) (hst : (evalProgram tbl src sels files).st = some st)
    (h1 : ∀ s p m, (evalProgram tbl src sels files).outcome ≠ .runtimeErr s p m)
    (h2 : ∀ m, (evalProgram tbl src sels files).outcome ≠ .panic m)
    (h3 : ∀ w, (evalProgram tbl src sels files).outcome ≠ .unmodelled w) :
    st.heap.WF ∧ Unshared st.heap ∧ ElemsPlain st.heap := by
  have h := evalProgram_invRun tbl src sels files st hst
  revert h h1 h2 h3
  generalize (evalProgram tbl src sels files).outcome = o
  intro h1 h2 h3 h
  cases o with
  | runtimeErr s p m => exact absurd rfl (h1 s p m)
  | panic m => exact absurd rfl (h2 m)
  | unmodelled w => exact absurd rfl (h3 w)
  | _ => exact inv_gives h

/-- its hypotheses hold for a run stopped by malformed JSON input after one good value (outcome
    `jsonErr`): the reported state satisfies the invariant -/
example : ∃ st, (evalProgram expectedRuleTable b!"{ $.x[3] = $.y }" []
      [⟨b!"in", b!"{\"y\": [1, 2]} {", .eof⟩]).st = some st ∧
    st.heap.WF ∧ Unshared st.heap ∧ ElemsPlain st.heap := by
  have ob : (match (evalProgram expectedRuleTable b!"{ $.x[3] = $.y }" []
      [⟨b!"in", b!"{\"y\": [1, 2]} {", .eof⟩]) with
      | ⟨.jsonErr _, _, some _⟩ => true
      | _ => false) = true := by decide +kernel
  have hw := run_end_unshared_plain_unless_error expectedRuleTable b!"{ $.x[3] = $.y }" []
      [⟨b!"in", b!"{\"y\": [1, 2]} {", .eof⟩]
  revert ob hw
  generalize (evalProgram expectedRuleTable b!"{ $.x[3] = $.y }" []
      [⟨b!"in", b!"{\"y\": [1, 2]} {", .eof⟩]) = r
  intro ob hw
  obtain ⟨o, out, st?⟩ := r
  cases o <;> cases st? <;> try (cases ob; done)
  rename_i f st
  exact ⟨st, rfl, hw st rfl (fun _ _ _ h => by cases h) (fun _ h => by cases h) (fun _ h => by cases h)⟩


/-! #### intermediate states: the start of every nested statement

  `Spec.Leads prog l n (.stmt outer) s m inner s0` (`Lemmas/LoopsNest.lean`, C07) says that running
  the statement `outer` from `s` arrives at the sub-statement `inner`, to be run at fuel `m` from
  state `s0` — through the statements of blocks that completed before it, taken `if`/`else`
  branches, rounds of `while` / `for` / `for … in` loops, and bodies of `match` statements. -/

/-- **every nested statement is started in a state satisfying the invariant**: if a statement (a
    rule body, a function body) is started in a state satisfying `Inv` and leads to a sub-statement,
    that sub-statement is started in a state satisfying `Inv` -/
theorem nested_stmt_starts_inv (prog : Program) {l : Bool} {n m : Nat} {outer inner : Stmt} {s s0 : St}
    (h : Leads prog l n (.stmt outer) s m inner s0) (i : HeapInv.Inv s.heap) : HeapInv.Inv s0.heap :=
  leads_inv prog h i trivial

/-- … so there no cell is an element twice and every array element is plain -/
theorem nested_stmt_starts_unshared_plain (prog : Program) {l : Bool} {n m : Nat} {outer inner : Stmt}
    {s s0 : St} (h : Leads prog l n (.stmt outer) s m inner s0) (i : HeapInv.Inv s.heap) :
    s0.heap.WF ∧ Unshared s0.heap ∧ ElemsPlain s0.heap := inv_gives (nested_stmt_starts_inv prog h i)

/-- **an index assignment statement `ea[ei] = v;` anywhere inside a statement started in a state
    satisfying the invariant refines the ideal list** (`index_assign_var_refines` at the nested
    statement, with no hypothesis about sharing or plainness; `s0` is the state the assignment
    statement is started in, `s2` the state after `ea` and `ei`) -/
theorem nested_index_assign_var_refines (prog : Program) {l : Bool} {k : Nat} {outer : Stmt} {s s0 : St}
    (n : Nat) (ea ei : Expr) (lsq eq tv : Token)
    (h : Leads prog l k (.stmt outer) s (n + 5) (.expr (.binary (.binary ea ei lsq) (.ident tv) eq)) s0)
    (i : HeapInv.Inv s.heap) (s1 s2 : St) (ac ic rc : CellId) (a : ArrId) (x : F64) (w : Val)
    (hl : lsq.tag = .lsquare) (he : eq.tag = .equal)
    (h1 : evalExpr prog n ea s0 = .ok ac s1) (h2 : evalExpr prog n ei s1 = .ok ic s2)
    (h3 : ∀ h', getIdentifier prog tv { s2 with heap := h' } = .ok rc { s2 with heap := h' })
    (ha : a < s2.heap.arrs.size)
    (hac : s2.heap.get ac = .arr a) (hic : s2.heap.get ic = .num x) (hrc : rc < s2.heap.cells.size)
    (hw : copyVal (s2.heap.get rc) = .ok w) :
    match setIdx (absArr s2.heap a) x.toGoInt w with
    | .ok l' => ∃ c s', evalExpr prog (n + 4) (.binary (.binary ea ei lsq) (.ident tv) eq) s0 = .ok c s' ∧
        s'.heap.get c = w ∧ ArrStep a s2 s' l' ∧ Unshared s'.heap ∧ ElemsPlain s'.heap
    | .error m => ∃ s', evalExpr prog (n + 4) (.binary (.binary ea ei lsq) (.ident tv) eq) s0
          = .err (.runtime ea.token.pos m) s' ∧
        ∀ b, absArr s'.heap b = absArr s2.heap b :=
  have i0 := nested_stmt_starts_inv prog h i
  have i1 := (evalExpr_keeps_inv prog n ea s0 s1 ac i0 h1).1
  have i2 := (evalExpr_keeps_inv prog n ei s1 s2 ic i1 h2).1
  index_assign_var_refines prog n ea ei lsq eq tv s0 s1 s2 ac ic rc a x w hl he h1 h2 h3 i2.wf i2.un i2.ep
    ha hac hic hrc hw

/-- the state after `a[i] = v` on `exW` -/
def exW1 : St := stOf (evalStmt Program.empty 7 (.expr exWAssign) exW)

/-- `{ a[i] = v; a[i] = v }` started in `exW` leads to its second statement, started in `exW1` -/
theorem exW_leads : Leads Program.empty false 9
    (.stmt (.block ⟨.lcurly, 0, b!"{"⟩ [.expr exWAssign, .expr exWAssign])) exW 6 (.expr exWAssign) exW1 :=
  .block (.blockTail (by with_unfolding_all rfl) (.blockHead .here))

example : exW1.heap.WF ∧ Unshared exW1.heap ∧ ElemsPlain exW1.heap :=
  nested_stmt_starts_unshared_plain Program.empty exW_leads exW_inv

/-- the hypotheses of `nested_index_assign_var_refines` hold for that second statement: it
    succeeds and `a` denotes `[true, true]` -/
example : ∃ c s', evalExpr Program.empty 5 exWAssign exW1 = .ok c s' ∧
    absArr s'.heap 0 = [.bool true, .bool true] := by
  have h := nested_index_assign_var_refines Program.empty 1 (.ident ⟨.ident, 0, b!"a"⟩)
    (.ident ⟨.ident, 2, b!"i"⟩) ⟨.lsquare, 1, b!"["⟩ ⟨.equal, 5, b!"="⟩ ⟨.ident, 7, b!"v"⟩
    exW_leads exW_inv exW1 exW1 0 1 2 0 F64.one (.bool true)
    rfl rfl (by with_unfolding_all rfl) (by with_unfolding_all rfl)
    (fun _ => by with_unfolding_all rfl) (by decide +kernel) (by with_unfolding_all rfl)
    (by with_unfolding_all rfl) (by decide +kernel) (by with_unfolding_all rfl)
  have hs : setIdx (absArr exW1.heap 0) F64.one.toGoInt (.bool true) = .ok [.bool true, .bool true] := by
    with_unfolding_all rfl
  rw [hs] at h
  obtain ⟨c, s', e, g, st, -⟩ := h
  exact ⟨c, s', e, st.this⟩

end Jqawk.C15
