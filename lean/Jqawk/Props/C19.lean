/-
  C19 — match selects the first matching case, binds pattern names, and yields its value.
  Equations on `evalMatchCases` / `evalCaseMatch` (for every program, state and fuel): cases are
  tried in source order, the first whose pattern list matches is the only one whose body runs,
  nothing of a later case is evaluated, literal patterns agree with `==`.
-/
import Jqawk.Props.C08
import Jqawk.Props.C05

namespace Jqawk.C19
open Jqawk

variable (prog : Program)

/-- no case at all (or none left): the value is null -/
theorem match_no_case (n pos : Nat) (v : CellId) :
    evalMatchCases prog (n + 1) pos v [] = newCell (.nil none) := by
  simp [evalMatchCases]

/-- a case whose patterns do not match is skipped, and only its PATTERNS were evaluated -/
theorem case_skipped (n pos : Nat) (v : CellId) (pats : List Expr) (body : Stmt)
    (rest : List MatchCase) (s s1 : St)
    (h : evalCaseMatch prog n v pats s = .ok none s1) :
    evalMatchCases prog (n + 1) pos v (.mk pats body :: rest) s =
      evalMatchCases prog n pos v rest s1 := by
  conv => lhs; unfold evalMatchCases
  simp [bind, EM.bind, h]

/-- **first match wins**: when the patterns of a case match, the result of the whole `match`
    is what the BODY of that case yields in a fresh frame holding the bindings; the remaining
    cases (`rest`) do not occur on the right-hand side: none of their patterns or bodies is
    evaluated, so they contribute neither effects nor faults. -/
theorem first_match_wins (n pos : Nat) (v : CellId) (pats : List Expr) (body : Stmt)
    (rest : List MatchCase) (s s1 : St) (bindings : List (Bytes × CellId))
    (h : evalCaseMatch prog n v pats s = .ok (some bindings) s1)
    (hd : s1.frames.length ≤ callDepthLimit) :
    evalMatchCases prog (n + 1) pos v (.mk pats body :: rest) s =
      withFrames s1.frames (do
        bindAll bindings
        match body with
        | .expr be => evalExpr prog n be
        | _ => do evalStmt prog n body; newCell (.nil none))
        { s1 with frames := ⟨b!"<match>", []⟩ :: s1.frames,
                  maxDepth := max s1.maxDepth (s1.frames.length + 1) } := by
  have hd' : ¬ s1.frames.length > callDepthLimit := by omega
  conv => lhs; unfold evalMatchCases
  simp only [bind, EM.bind, h, getSt, pushFrame, hd', ↓reduceIte]
  rfl

/-- an error while matching the patterns of a case is the result (later cases untouched) -/
theorem case_pattern_error (n pos : Nat) (v : CellId) (pats : List Expr) (body : Stmt)
    (rest : List MatchCase) (s s1 : St) (e : Err)
    (h : evalCaseMatch prog n v pats s = .err e s1) :
    evalMatchCases prog (n + 1) pos v (.mk pats body :: rest) s = .err e s1 := by
  conv => lhs; unfold evalMatchCases
  simp [bind, EM.bind, h]

/-! ### patterns -/

/-- no alternative left: no match -/
theorem alternatives_exhausted (n : Nat) (v : CellId) :
    evalCaseMatch prog (n + 1) v [] = pure none := by simp [evalCaseMatch]

/-- an identifier matches anything and binds the subject's own cell to the name -/
theorem ident_pattern (n : Nat) (v : CellId) (t : Token) (rest : List Expr) :
    evalCaseMatch prog (n + 1) v (.ident t :: rest) = pure (some [(t.text, v)]) := by
  simp [evalCaseMatch]

/-- a literal pattern matches exactly when `subject == literal` is true (the `==` of C05:
    an unset subject equals nothing; comparing with a container is an error) -/
theorem literal_pattern (n : Nat) (v : CellId) (t : Token) (rest : List Expr) (s s1 : St)
    (lc : CellId) (hl : evalExpr prog n (.lit t) s = .ok lc s1)
    (hlit : (s1.heap.get lc).kind ≠ .unknown) :
    evalCaseMatch prog (n + 1) v (.lit t :: rest) s =
      (match binaryOp .equalEqual (s1.heap.get v) (s1.heap.get lc) with
       | .val (.bool true) => .ok (some []) s1
       | .val _ => evalCaseMatch prog n v rest s1
       | .err _ m => throwRt t.pos m s1
       | .unmodelled w => throwUnmodelled w s1) := by
  simp only [evalCaseMatch, bind, EM.bind, hl, readCell, binaryOp, isCompareOp, beq_self_eq_true,
    Bool.or_true, Bool.true_or, ↓reduceIte, Expr.token]
  by_cases hu : (s1.heap.get v).kind == .unknown
  · simp [hu]
  · simp only [hu, Bool.false_eq_true, ↓reduceIte, Bool.false_or]
    have hu2 : ((s1.heap.get lc).kind == Kind.unknown) = false := by
      simpa using hlit
    simp only [hu2, Bool.false_eq_true, ↓reduceIte]
    cases hc : (s1.heap.get v).compare (s1.heap.get lc) with
    | error m => rfl
    | ok c =>
      by_cases h0 : c = 0
      · simp [h0, cmpResult, pure, EM.pure]
      · simp [h0, cmpResult]

/-- an array pattern against a subject that is not an array: no match, next alternative -/
theorem array_pattern_non_array (n : Nat) (v : CellId) (t : Token) (items rest : List Expr)
    (s : St) (hv : ∀ a, s.heap.get v ≠ .arr a) :
    evalCaseMatch prog (n + 2) v (.arr t items :: rest) s = evalCaseMatch prog (n + 1) v rest s := by
  simp only [evalCaseMatch, evalArrayCaseMatch, bind, EM.bind, readCell]
  cases hg : s.heap.get v <;> simp_all [pure, EM.pure]

/-- … and against an array of a different length likewise -/
theorem array_pattern_length (n : Nat) (v : CellId) (t : Token) (items rest : List Expr)
    (s : St) (a : ArrId) (hv : s.heap.get v = .arr a)
    (hl : (s.heap.arr a).toList.length ≠ items.length) :
    evalCaseMatch prog (n + 2) v (.arr t items :: rest) s = evalCaseMatch prog (n + 1) v rest s := by
  have hl' : ¬ (s.heap.arr a).size = items.length := by simpa using hl
  simp [evalCaseMatch, evalArrayCaseMatch, bind, EM.bind, readCell, hv, getHeap, hl', pure, EM.pure]

/-- the bindings are visible in the body: after `bindAll`, looking a bound name up finds the
    bound cell (the subject's own cell — assigning to the name assigns to the subject) -/
theorem binding_visible (name : Bytes) (c : CellId) (s : St) (f : Frame) (fs : List Frame)
    (hf : s.frames = f :: fs) :
    ∃ s', bindAll [(name, c)] s = .ok () s' ∧ lookupFrames s'.frames name = some c ∧
      s'.heap = s.heap := by
  simp only [bindAll, bind, EM.bind, setLocal, hf, pure, EM.pure]
  exact ⟨_, rfl, by simp [lookupFrames, C08.objLookup_objInsert_same], rfl⟩

/-- … and gone afterwards: a whole `match` leaves the frame stack as it found it (C08) -/
theorem bindings_scoped (n pos : Nat) (v : CellId) (cases : List MatchCase) (s s' : St)
    (h : C08.finalState (evalMatchCases prog n pos v cases s) = some s') :
    FramesKeep s.frames s'.frames :=
  C08.frames_restored_match prog n pos v cases s s' h

end Jqawk.C19
