/-
  C19 — match selects the first matching case, binds pattern names, and yields its value.
  Equations on `evalMatchCases` / `evalCaseMatch` (for every program, state and fuel): cases are
  tried in source order, the first whose pattern list matches is the only one whose body runs,
  nothing of a later case is evaluated, literal patterns agree with `==`.

  Part 2 (below the one-step equations): the WHOLE `match` against the specification
  `Spec/Match.lean` — a reference matcher by structural recursion on the pattern (`patMatches`),
  first matching alternative (`firstAlt`), first matching case (`firstMatch`), the body in a
  frame of its own (`runCase`) — for the real evaluator at ANY fuel: `evalMatch_eq_spec`
  (soundness, exact: value / error / signal AND final state), `evalMatch_eq_spec_complete`
  (all sufficiently large fuels, explicit bound), and the clauses of the property as
  corollaries about the specification.  "Out of fuel" is a separate outcome and never counts
  as a result.
-/
import Jqawk.Props.C08
import Jqawk.Props.C05
import Jqawk.Lemmas.MatchSpecPure
import Jqawk.Model.Driver

namespace Jqawk.C19
open Jqawk

variable (prog : Program)

/-- no case at all (or none left): the value is null -/
theorem match_no_case (n pos : Nat) (v : CellId) :
    evalMatchCases prog (n + 1) pos v [] = newCell (.nil none) := by
  simp [evalMatchCases]

/-- a case whose patterns do not match is skipped, and only its PATTERNS were evaluated -/
theorem case_skipped (n pos : Nat) (v : CellId) (pats : List Expr) (body : Stmt)
    (rest : List MatchCase) (s s1 : St)
    (h : evalCaseMatch prog n v pats s = .ok none s1) :
    evalMatchCases prog (n + 1) pos v (.mk pats body :: rest) s =
      evalMatchCases prog n pos v rest s1 := by
  conv => lhs; unfold evalMatchCases
  simp [bind, EM.bind, h]

/-- **first match wins**: when the patterns of a case match (and the frame stack is within the
    call-depth limit, `hd`), the result of the whole `match`
    is what the BODY of that case yields in a fresh frame holding the bindings; the remaining
    cases (`rest`) do not occur on the right-hand side: none of their patterns or bodies is
    evaluated, so they contribute neither effects nor faults. -/
theorem first_match_wins (n pos : Nat) (v : CellId) (pats : List Expr) (body : Stmt)
    (rest : List MatchCase) (s s1 : St) (bindings : List (Bytes × CellId))
    (h : evalCaseMatch prog n v pats s = .ok (some bindings) s1)
    (hd : s1.frames.length ≤ callDepthLimit) :
    evalMatchCases prog (n + 1) pos v (.mk pats body :: rest) s =
      withFrames s1.frames (do
        bindAll bindings
        match body with
        | .expr be => evalExpr prog n be
        | _ => do evalStmt prog n body; newCell (.nil none))
        { s1 with frames := ⟨b!"<match>", []⟩ :: s1.frames,
                  maxDepth := max s1.maxDepth (s1.frames.length + 1) } := by
  have hd' : ¬ s1.frames.length > callDepthLimit := by omega
  conv => lhs; unfold evalMatchCases
  simp only [bind, EM.bind, h, getSt, pushFrame, hd', ↓reduceIte]
  rfl

/-- an error while matching the patterns of a case is the result (later cases untouched) -/
theorem case_pattern_error (n pos : Nat) (v : CellId) (pats : List Expr) (body : Stmt)
    (rest : List MatchCase) (s s1 : St) (e : Err)
    (h : evalCaseMatch prog n v pats s = .err e s1) :
    evalMatchCases prog (n + 1) pos v (.mk pats body :: rest) s = .err e s1 := by
  conv => lhs; unfold evalMatchCases
  simp [bind, EM.bind, h]

/-! ### patterns -/

/-- no alternative left: no match -/
theorem alternatives_exhausted (n : Nat) (v : CellId) :
    evalCaseMatch prog (n + 1) v [] = pure none := by simp [evalCaseMatch]

/-- an identifier matches anything and binds the subject's own cell to the name -/
theorem ident_pattern (n : Nat) (v : CellId) (t : Token) (rest : List Expr) :
    evalCaseMatch prog (n + 1) v (.ident t :: rest) = pure (some [(t.text, v)]) := by
  simp [evalCaseMatch]

/-- a literal pattern matches exactly when `subject == literal` is true (the `==` of C05:
    an unset subject equals nothing; comparing with a container is an error) -/
theorem literal_pattern (n : Nat) (v : CellId) (t : Token) (rest : List Expr) (s s1 : St)
    (lc : CellId) (hl : evalExpr prog n (.lit t) s = .ok lc s1)
    (hlit : (s1.heap.get lc).kind ≠ .unknown) :
    evalCaseMatch prog (n + 1) v (.lit t :: rest) s =
      (match binaryOp .equalEqual (s1.heap.get v) (s1.heap.get lc) with
       | .val (.bool true) => .ok (some []) s1
       | .val _ => evalCaseMatch prog n v rest s1
       | .err _ m => throwRt t.pos m s1
       | .unmodelled w => throwUnmodelled w s1) := by
  simp only [evalCaseMatch, bind, EM.bind, hl, readCell, binaryOp, isCompareOp, beq_self_eq_true,
    Bool.or_true, Bool.true_or, ↓reduceIte, Expr.token]
  by_cases hu : (s1.heap.get v).kind == .unknown
  · simp [hu]
  · simp only [hu, Bool.false_eq_true, ↓reduceIte, Bool.false_or]
    have hu2 : ((s1.heap.get lc).kind == Kind.unknown) = false := by
      simpa using hlit
    simp only [hu2, Bool.false_eq_true, ↓reduceIte]
    cases hc : (s1.heap.get v).compare (s1.heap.get lc) with
    | error m => rfl
    | ok c =>
      by_cases h0 : c = 0
      · simp [h0, cmpResult, pure, EM.pure]
      · simp [h0, cmpResult]

/-- an array pattern against a subject that is not an array: no match, next alternative -/
theorem array_pattern_non_array (n : Nat) (v : CellId) (t : Token) (items rest : List Expr)
    (s : St) (hv : ∀ a, s.heap.get v ≠ .arr a) :
    evalCaseMatch prog (n + 2) v (.arr t items :: rest) s = evalCaseMatch prog (n + 1) v rest s := by
  simp only [evalCaseMatch, evalArrayCaseMatch, bind, EM.bind, readCell]
  cases hg : s.heap.get v <;> simp_all [pure, EM.pure]

/-- … and against an array of a different length likewise -/
theorem array_pattern_length (n : Nat) (v : CellId) (t : Token) (items rest : List Expr)
    (s : St) (a : ArrId) (hv : s.heap.get v = .arr a)
    (hl : (s.heap.arr a).toList.length ≠ items.length) :
    evalCaseMatch prog (n + 2) v (.arr t items :: rest) s = evalCaseMatch prog (n + 1) v rest s := by
  have hl' : ¬ (s.heap.arr a).size = items.length := by simpa using hl
  simp [evalCaseMatch, evalArrayCaseMatch, bind, EM.bind, readCell, hv, getHeap, hl', pure, EM.pure]

/-- the bindings are visible in the body: after `bindAll`, looking a bound name up finds the
    bound cell (the subject's own cell — assigning to the name assigns to the subject) -/
theorem binding_visible (name : Bytes) (c : CellId) (s : St) (f : Frame) (fs : List Frame)
    (hf : s.frames = f :: fs) :
    ∃ s', bindAll [(name, c)] s = .ok () s' ∧ lookupFrames s'.frames name = some c ∧
      s'.heap = s.heap := by
  simp only [bindAll, bind, EM.bind, setLocal, hf, pure, EM.pure]
  exact ⟨_, rfl, by simp [lookupFrames, C08.objLookup_objInsert_same], rfl⟩

/-- … and gone afterwards: a whole `match` leaves the frame stack as it found it (C08) -/
theorem bindings_scoped (n pos : Nat) (v : CellId) (cases : List MatchCase) (s s' : St)
    (h : C08.finalState (evalMatchCases prog n pos v cases s) = some s') :
    FramesKeep s.frames s'.frames :=
  C08.frames_restored_match prog n pos v cases s s' h


/-! # Part 2: the whole `match` against its specification -/

/-! ### helpers for the concrete instances below (non-vacuity, `decide +kernel`) -/

section helpers
open Jqawk.Spec Jqawk.MatchSpec

/-- the output of a whole program run by the model driver (no input); `none` unless it ends
    normally -/
def runOut (src : Bytes) : Option Bytes :=
  let r := evalProgram expectedRuleTable src [] []
  match r.outcome with
  | .ok => some r.out
  | _ => none

/-- the runtime error (token offset, message) a whole program ends with, and what it had
    printed before -/
def runErr (src : Bytes) : Option (Nat × String × Bytes) :=
  let r := evalProgram expectedRuleTable src [] []
  match r.outcome with
  | .runtimeErr _ pos msg => some (pos, msg, r.out)
  | _ => none

/-- the program a source text parses to and its initial state -/
def demoProg (src : Bytes) : Program :=
  match parseProgramSrc expectedRuleTable src with
  | .ok p => p
  | _ => Program.empty
def demoStart (src : Bytes) : St := newEvaluator (demoProg src) Heap.empty [] 0

/-- the parts of the `match` expression in `BEGIN { print match (v) { cases } … }` -/
def demoMatch (src : Bytes) : Token × Expr × List MatchCase :=
  match (demoProg src).rules with
  | r :: _ =>
    match r.body with
    | .block _ (.print _ (.match_ t v cs :: _) :: _) => (t, v, cs)
    | _ => (Token.zero, .lit Token.zero, [])
  | [] => (Token.zero, .lit Token.zero, [])
def demoCases (src : Bytes) : List MatchCase := (demoMatch src).2.2
/-- the alternatives and the body of case `i` -/
def demoAlts (src : Bytes) (i : Nat) : List Expr :=
  match (demoCases src)[i]? with
  | some (.mk pats _) => pats
  | none => []
def demoBody (src : Bytes) (i : Nat) : Stmt :=
  match (demoCases src)[i]? with
  | some (.mk _ body) => body
  | none => .block Token.zero []

/-- the state a result carries (default: out of fuel) -/
def stateOf {α : Type} : Res α → St
  | .ok _ s => s
  | .err _ s => s
  | .oof => default

/-- the subject of that `match`, evaluated: its cell and the state after -/
def demoSubject (src : Bytes) : CellId × St :=
  match evalExpr (demoProg src) 50 (demoMatch src).2.1 (demoStart src) with
  | .ok c s => (c, s)
  | _ => (0, default)

def isDone {α : Type} : Res α → Bool
  | .oof => false
  | _ => true
def isNoMatch : Res (Option Bindings) → Bool
  | .ok none _ => true
  | _ => false
def isNoSel : Res (Option (Stmt × Bindings)) → Bool
  | .ok none _ => true
  | _ => false
/-- the names a successful pattern test bound, with the values of the bound cells -/
def boundVals : Res (Option Bindings) → Option (List (Bytes × Val))
  | .ok (some b) s => some (b.map fun kv => (kv.1, s.heap.get kv.2))
  | _ => none
/-- the value a successful evaluation yields -/
def valueOf : Res CellId → Option Val
  | .ok c s => some (s.heap.get c)
  | _ => none
def errOf {α : Type} : Res α → Option Err
  | .err e _ => some e
  | _ => none
def outputOf {α : Type} (r : Res α) : Bytes := (stateOf r).output

theorem ne_oof_of_isDone {α : Type} {r : Res α} (h : isDone r = true) : r ≠ .oof := by
  intro h'; rw [h'] at h; cases h
theorem eq_noMatch_of {r : Res (Option Bindings)} (h : isNoMatch r = true) :
    r = .ok none (stateOf r) := by
  cases r with
  | ok a s => cases a <;> first | rfl | cases h
  | err e s => cases h
  | oof => cases h
theorem eq_noSel_of {r : Res (Option (Stmt × Bindings))} (h : isNoSel r = true) :
    r = .ok none (stateOf r) := by
  cases r with
  | ok a s => cases a <;> first | rfl | cases h
  | err e s => cases h
  | oof => cases h
theorem eq_match_of {r : Res (Option Bindings)} (h : (boundVals r).isSome = true) :
    ∃ b, r = .ok (some b) (stateOf r) := by
  cases r with
  | ok a s => cases a <;> first | exact ⟨_, rfl⟩ | cases h
  | err e s => cases h
  | oof => cases h
theorem eq_ok_of {r : Res CellId} (h : (valueOf r).isSome = true) : ∃ c, r = .ok c (stateOf r) := by
  cases r with
  | ok a s => exact ⟨_, rfl⟩
  | err e s => cases h
  | oof => cases h
theorem eq_err_of {α : Type} {r : Res α} {e : Err} (h : errOf r = some e) : r = .err e (stateOf r) := by
  cases r with
  | ok a s => cases h
  | err e' s => simp only [errOf, Option.some.injEq] at h; subst h; rfl
  | oof => cases h

/-- the record's example; nested patterns; a failed array alternative that had bound `x` -/
def srcRecord : Bytes := b!"BEGIN { print match ([2,5]) { [1,x], [2,x] => x } }"
def srcFailed : Bytes := b!"BEGIN { print match ([7,2]) { [x,1], [y,2] => x }\nprint \"end\" }"
def srcCases : Bytes :=
  b!"BEGIN { print match (3) { 1, 2 => \"a\", 3, 4 => \"b\", f(1) => \"c\", x => 1/0 }\nprint \"end\" }"
def srcBlock : Bytes := b!"BEGIN { print match (2) { 1 => \"one\", 2 => { print \"side\" }, 3 => \"three\" } }"
def srcNone : Bytes := b!"BEGIN { print match (9) { 1 => \"one\", [a] => a } }"

/-- the evaluator at fuel 40 on a demo program, as the primitive of the specification -/
abbrev evE (src : Bytes) : Expr → EM CellId := evalExpr (demoProg src) 40
abbrev evS (src : Bytes) : Stmt → EM Unit := evalStmt (demoProg src) 40
/-- the subject's cell, the state after evaluating the subject -/
abbrev subjCell (src : Bytes) : CellId := (demoSubject src).1
abbrev subjState (src : Bytes) : St := (demoSubject src).2

end helpers

/-! ### non-vacuity of the one-step equations of Part 1 (their hypotheses, on the demo programs;
the evaluator itself at fuel 40, not the specification) -/

section part1
/-- `case_skipped`: case 0 (`1`) of `match (9) { 1 => "one", [a] => a }` does not match -/
example : ∃ s1, evalCaseMatch (demoProg srcNone) 40 (subjCell srcNone) (demoAlts srcNone 0)
    (subjState srcNone) = .ok none s1 := ⟨_, eq_noMatch_of (by decide +kernel)⟩
/-- `first_match_wins`: the alternatives `[1,x], [2,x]` match `[2,5]`, at frame depth ≤ limit -/
example : ∃ b, evalCaseMatch (demoProg srcRecord) 40 (subjCell srcRecord) (demoAlts srcRecord 0)
      (subjState srcRecord) = .ok (some b) (stateOf (evalCaseMatch (demoProg srcRecord) 40
        (subjCell srcRecord) (demoAlts srcRecord 0) (subjState srcRecord))) ∧
    (stateOf (evalCaseMatch (demoProg srcRecord) 40 (subjCell srcRecord) (demoAlts srcRecord 0)
      (subjState srcRecord))).frames.length ≤ callDepthLimit := by
  obtain ⟨b, h⟩ := eq_match_of (r := evalCaseMatch (demoProg srcRecord) 40 (subjCell srcRecord)
    (demoAlts srcRecord 0) (subjState srcRecord)) (by decide +kernel)
  exact ⟨b, h, by decide +kernel⟩
/-- `case_pattern_error`: the unsupported pattern `f(1)` of `srcCases`, tested directly -/
example : ∃ s1, evalCaseMatch (demoProg srcCases) 40 (subjCell srcCases) (demoAlts srcCases 2)
    (subjState srcCases) = .err (.runtime 52 "not supported in match expressions") s1 :=
  ⟨_, eq_err_of (by decide +kernel)⟩
/-- `literal_pattern`: the literal `2` of `srcBlock` evaluates to a cell holding a number -/
example : (∃ lc, evalExpr (demoProg srcBlock) 39 (.lit ⟨.num, 38, b!"2"⟩) (subjState srcBlock)
      = .ok lc (stateOf (evalExpr (demoProg srcBlock) 39 (.lit ⟨.num, 38, b!"2"⟩) (subjState srcBlock)))) ∧
    (valueOf (evalExpr (demoProg srcBlock) 39 (.lit ⟨.num, 38, b!"2"⟩) (subjState srcBlock))).map Val.kind
      = some .num :=
  ⟨eq_ok_of (by decide +kernel), by decide +kernel⟩
/-- `array_pattern_non_array`: the subject `9` of `srcNone` is not an array -/
example : ∀ a, (subjState srcNone).heap.get (subjCell srcNone) ≠ .arr a := by
  intro a h
  have : (match (subjState srcNone).heap.get (subjCell srcNone) with | .arr _ => true | _ => false)
      = false := by decide +kernel
  rw [h] at this; cases this
/-- `array_pattern_length`: `[1,2,3]` against the two-element pattern `[a,b]` -/
def srcLen : Bytes := b!"BEGIN { print match ([1,2,3]) { [a,b] => \"two\", z => \"other\" } }"
example : (subjState srcLen).heap.get (subjCell srcLen) = .arr 0 ∧
    ((subjState srcLen).heap.arr 0).toList.length = 3 ∧
    (match (demoAlts srcLen 0)[0]! with | .arr _ items => items.length | _ => 0) = 2 := by
  decide +kernel
/-- `binding_visible`: the start state has a frame; `bindings_scoped`: the case loop ends -/
example : (demoStart srcRecord).frames.length = 1 ∧
    (C08.finalState (evalMatchCases (demoProg srcRecord) 40 0 (subjCell srcRecord)
      (demoCases srcRecord) (subjState srcRecord))).isSome = true := by decide +kernel
end part1

section whole
open Jqawk.Spec Jqawk.MatchSpec

/-- `e`, started in `s`, ends with `r` (a value / error / signal — never "out of fuel") -/
def Yields (e : Expr) (s : St) (r : Res CellId) : Prop := ∃ n, evalExpr prog n e s = r ∧ r ≠ .oof

/-! ## 0. the headline: the evaluator's `match` IS the specification -/

/-- **Soundness, exact** (all clauses at once): whenever the evaluator does not run out of fuel
    on `match (v) { cases }`, its result — value, runtime error or signal, AND final state — is
    exactly that of `matchSpec`: the subject once; the cases in source order; in each case the
    alternatives left to right; the first that matches selects the case; its body in a fresh
    frame holding the bindings; `Spec/Match.lean`.  The evaluator at any fuel `m ≥ n` is the
    primitive that evaluates the subject, the literals and the bodies.
    (`a ⊑ b`, `EMLe a b`: from every state, `a` is out of fuel or ends exactly like `b`.) -/
theorem evalMatch_eq_spec {n m : Nat} (h : n ≤ m) (t : Token) (v : Expr) (cases : List MatchCase) :
    EMLe (evalExpr prog (n + 1) (.match_ t v cases))
      (matchSpec (evalExpr prog m) (evalStmt prog m) t v cases) :=
  evalMatch_sound prog h t v cases

/-- … in equation form -/
theorem evalMatch_eq_spec_sound {n m : Nat} (h : n ≤ m) (t : Token) (v : Expr)
    (cases : List MatchCase) (s : St) (r : Res CellId)
    (he : evalExpr prog (n + 1) (.match_ t v cases) s = r) (hr : r ≠ .oof) :
    matchSpec (evalExpr prog m) (evalStmt prog m) t v cases s = r :=
  evalMatch_sound_eq prog h t v cases s r he hr

/-- **Completeness**: conversely a result of the specification (evaluator at fuel `m` as
    primitive) that is not "out of fuel" is the evaluator's result at EVERY fuel
    `N ≥ m + matchFuel cases + 1`, where `matchFuel cases` = number of cases + total size of
    their patterns (`Lemmas/MatchSpec.lean`).  So evaluator and specification define the same
    function wherever either is defined; fuel is irrelevant. -/
theorem evalMatch_eq_spec_complete (m : Nat) (t : Token) (v : Expr) (cases : List MatchCase)
    (s : St) (r : Res CellId)
    (h : matchSpec (evalExpr prog m) (evalStmt prog m) t v cases s = r) (hr : r ≠ .oof)
    {N : Nat} (hN : m + matchFuel cases + 1 ≤ N) :
    evalExpr prog N (.match_ t v cases) s = r :=
  evalMatch_complete prog m t v cases s r h hr hN

/-- the two together, fuel-free -/
theorem evalMatch_iff_spec (t : Token) (v : Expr) (cases : List MatchCase) (s : St)
    (r : Res CellId) :
    Yields prog (.match_ t v cases) s r ↔
      ∃ m, matchSpec (evalExpr prog m) (evalStmt prog m) t v cases s = r ∧ r ≠ .oof := by
  constructor
  · rintro ⟨n, h, hr⟩
    cases n with
    | zero => rw [evalExpr_zero] at h; exact absurd h.symm hr
    | succ n => exact ⟨n, evalMatch_sound_eq prog (Nat.le_refl n) t v cases s r h hr, hr⟩
  · rintro ⟨m, h, hr⟩
    exact ⟨_, evalMatch_complete prog m t v cases s r h hr (Nat.le_refl _), hr⟩

/-- `evalMatch_eq_spec_sound`: the record's example `match ([2,5]) { [1,x], [2,x] => x }`: the
    evaluator (fuel 41) does not run out of fuel and yields 5 (the defect mentioned in the
    record — a failing array alternative made the remaining alternatives unreachable — is fixed
    in the Go source the model follows) … -/
example : valueOf (evalExpr (demoProg srcRecord) 41
      (.match_ (demoMatch srcRecord).1 (demoMatch srcRecord).2.1 (demoCases srcRecord))
      (demoStart srcRecord)) = some (.num (F64.ofNat 5)) := by decide +kernel
/-- `evalMatch_eq_spec_complete`: … and so does the SPECIFICATION, run directly (primitives at
    fuel 40); the bound `m + matchFuel cases + 1` is 64 here -/
example : valueOf (matchSpec (evE srcRecord) (evS srcRecord)
      (demoMatch srcRecord).1 (demoMatch srcRecord).2.1 (demoCases srcRecord)
      (demoStart srcRecord)) = some (.num (F64.ofNat 5)) := by decide +kernel
example : 40 + matchFuel (demoCases srcRecord) + 1 = 64 := by decide +kernel
/-- `evalMatch_iff_spec`: hence the expression `Yields` a result -/
example : ∃ r, Yields (demoProg srcRecord)
    (.match_ (demoMatch srcRecord).1 (demoMatch srcRecord).2.1 (demoCases srcRecord))
    (demoStart srcRecord) r :=
  ⟨_, 41, rfl, ne_oof_of_isDone (by decide +kernel)⟩

/-- more fuel never changes a result of a `match` that is not "out of fuel" -/
theorem match_fuel_irrelevant {n m : Nat} (hnm : n ≤ m) (t : Token) (v : Expr)
    (cases : List MatchCase) (s : St) (r : Res CellId)
    (h : evalExpr prog n (.match_ t v cases) s = r) (hr : r ≠ .oof) :
    evalExpr prog m (.match_ t v cases) s = r := by
  rw [(evalExpr_le prog _ hnm).eq_of_ne_oof (by rw [h]; exact hr), h]

/-- … nor does the fuel of the primitives change a result of the specification -/
theorem matchSpec_fuel_irrelevant {m m' : Nat} (hm : m ≤ m') (t : Token) (v : Expr)
    (cases : List MatchCase) (s : St) (r : Res CellId)
    (h : matchSpec (evalExpr prog m) (evalStmt prog m) t v cases s = r) (hr : r ≠ .oof) :
    matchSpec (evalExpr prog m') (evalStmt prog m') t v cases s = r := by
  rw [(MatchSpec.matchSpec_fuel_irrelevant prog hm t v cases).eq_of_ne_oof (by rw [h]; exact hr), h]

/-! ### the layers -/

/-- the alternatives of one case: `evalCaseMatch` at fuel `k` is below `firstAlt` (literals
    evaluated at any fuel `m ≥ k`) … -/
theorem evalCaseMatch_eq_spec {k m : Nat} (hk : k ≤ m) (c : CellId) (pats : List Expr) :
    EMLe (evalCaseMatch prog k c pats) (firstAlt (evalExpr prog m) c pats) :=
  evalCaseMatch_le_spec prog hk c pats

/-- … and `firstAlt` is below `evalCaseMatch` at every fuel `≥ altsFuel pats` (the total size
    of the patterns) -/
theorem evalCaseMatch_eq_spec_complete (m : Nat) {k : Nat} (c : CellId) (pats : List Expr)
    (hk : altsFuel pats ≤ k) :
    EMLe (firstAlt (evalExpr prog m) c pats) (evalCaseMatch prog k c pats) :=
  spec_le_evalCaseMatch prog m c pats hk

/-- an array pattern: `evalArrayCaseMatch` vs the array clause of `patMatches`, both ways -/
theorem evalArrayCaseMatch_eq_spec {k m : Nat} (hk : k ≤ m) (c : CellId) (t : Token)
    (items : List Expr) :
    EMLe (evalArrayCaseMatch prog k c items) (patMatches (evalExpr prog m) (.arr t items) c) :=
  evalArrayCaseMatch_le_spec prog hk c t items

theorem evalArrayCaseMatch_eq_spec_complete (m : Nat) {k : Nat} (c : CellId) (t : Token)
    (items : List Expr) (hk : elemsFuel items + 1 ≤ k) :
    EMLe (patMatches (evalExpr prog m) (.arr t items) c) (evalArrayCaseMatch prog k c items) :=
  spec_le_evalArrayCaseMatch prog m c t items hk

/-- the element loop: `matchElems` vs `elemsMatch`, both ways -/
theorem matchElems_eq_spec {k m : Nat} (hk : k ≤ m) (cs : List CellId) (ps : List Expr)
    (acc : Bindings) :
    EMLe (matchElems prog k cs ps acc) (elemsMatch (evalExpr prog m) ps cs acc) :=
  matchElems_le_spec prog hk cs ps acc

theorem matchElems_eq_spec_complete (m : Nat) {k : Nat} (cs : List CellId) (ps : List Expr)
    (acc : Bindings) (hk : elemsFuel ps ≤ k) :
    EMLe (elemsMatch (evalExpr prog m) ps cs acc) (matchElems prog k cs ps acc) :=
  spec_le_matchElems prog m cs ps acc hk

/-- the case loop: `evalMatchCases` vs `selectAndRun`, both ways -/
theorem evalMatchCases_eq_spec {k m : Nat} (hk : k ≤ m) (pos : Nat) (c : CellId)
    (cases : List MatchCase) :
    EMLe (evalMatchCases prog k pos c cases)
      (selectAndRun (evalExpr prog m) (evalStmt prog m) pos c cases) :=
  evalMatchCases_le_spec prog pos c k cases hk

theorem evalMatchCases_eq_spec_complete (m pos : Nat) (c : CellId) (cases : List MatchCase)
    {k : Nat} (hk : m + matchFuel cases ≤ k) :
    EMLe (selectAndRun (evalExpr prog m) (evalStmt prog m) pos c cases)
      (evalMatchCases prog k pos c cases) :=
  spec_le_evalMatchCases prog m pos c cases k hk

/-! ## 1. the subject is evaluated once -/

/-- the subject expression `v` is evaluated exactly once, first; everything after refers to
    the resulting CELL only (`evalMatchCases` has no access to `v`) -/
theorem subject_evaluated_once (n : Nat) (t : Token) (v : Expr) (cases : List MatchCase) :
    evalExpr prog (n + 1) (.match_ t v cases) = (do
      let c ← evalExpr prog n v
      evalMatchCases prog n t.pos c cases) :=
  evalExpr_match prog n t v cases

/-- the same on the specification: `v` occurs once, `selectAndRun` does not mention it -/
theorem subject_evaluated_once_spec (evE : Expr → EM CellId) (evS : Stmt → EM Unit) (t : Token)
    (v : Expr) (cases : List MatchCase) :
    matchSpec evE evS t v cases = (do
      let c ← evE v
      selectAndRun evE evS t.pos c cases) := rfl

/-- an error or signal while evaluating the subject is the result; no case is looked at -/
theorem subject_error (evE : Expr → EM CellId) (evS : Stmt → EM Unit) (t : Token)
    (v : Expr) (cases : List MatchCase) (s s1 : St) (e : Err) (h : evE v s = .err e s1) :
    matchSpec evE evS t v cases s = .err e s1 := by
  simp only [matchSpec, bind, EM.bind, h]

/-- `subject_error`: a failing subject (`1/0`): the error is the result -/
example : ∃ e s1, evalExpr (demoProg b!"BEGIN { print match (1/0) { x => x } }") 40
    (demoMatch b!"BEGIN { print match (1/0) { x => x } }").2.1
    (demoStart b!"BEGIN { print match (1/0) { x => x } }") = .err e s1 :=
  ⟨_, _, eq_err_of (e := .runtime 22 "divide by zero") (by decide +kernel)⟩
example : runErr b!"BEGIN { print match (1/0) { x => x } }" = some (22, "divide by zero", []) := by
  decide +kernel
/-- the subject is evaluated once: its side effect happens once, whatever the number of cases
    and alternatives tested against it -/
example : runOut b!"BEGIN { i = 0\nprint match (i++) { 5, 6 => \"a\", [x] => \"b\", 0 => \"zero\" }\nprint i }"
    = some b!"zero\n1\n" := by decide +kernel

/-! ## 2. first match wins: alternatives left to right, cases in source order -/

/-- the alternatives `pre ++ post` of one case: `post` is consulted only if no alternative of
    `pre` matched (and none failed); otherwise the answer of `pre` stands -/
theorem alternatives_in_order (ev : Expr → EM CellId) (c : CellId) (pre post : List Expr) (s : St) :
    firstAlt ev c (pre ++ post) s =
      (match firstAlt ev c pre s with
       | .ok none s1 => firstAlt ev c post s1
       | .ok (some b) s1 => .ok (some b) s1
       | .err e s1 => .err e s1
       | .oof => .oof) :=
  firstAlt_append ev c pre post s

/-- **the first matching alternative wins**: if no alternative before `p` matches (or fails)
    and `p` matches with bindings `b`, the case matches with exactly the bindings `b` — whatever
    the later alternatives `post` are (they do not occur on the right-hand side: they are not
    evaluated, be they unsupported pattern forms or malformed literals) -/
theorem first_alternative_wins (ev : Expr → EM CellId) (c : CellId) (pre : List Expr) (p : Expr)
    (post : List Expr) (s s1 s2 : St) (b : Bindings)
    (hpre : firstAlt ev c pre s = .ok none s1) (hp : patMatches ev p c s1 = .ok (some b) s2) :
    firstAlt ev c (pre ++ p :: post) s = .ok (some b) s2 := by
  rw [firstAlt_append, hpre]
  simp only [firstAlt_cons, bind, EM.bind, hp]
  rfl

/-- `first_alternative_wins`, `alternatives_in_order`: the record's example: against `[2,5]` the
    alternative `[1,x]` does not match, then `[2,x]` matches and binds `x` to the cell holding 5 -/
example : ∃ s1 s2 b,
    firstAlt (evE srcRecord) (subjCell srcRecord) ((demoAlts srcRecord 0).take 1) (subjState srcRecord)
      = .ok none s1 ∧
    patMatches (evE srcRecord) (demoAlts srcRecord 0)[1]! (subjCell srcRecord) s1 = .ok (some b) s2 := by
  have h1 := eq_noMatch_of (r := firstAlt (evE srcRecord) (subjCell srcRecord)
    ((demoAlts srcRecord 0).take 1) (subjState srcRecord)) (by decide +kernel)
  obtain ⟨b, h2⟩ := eq_match_of (r := patMatches (evE srcRecord) (demoAlts srcRecord 0)[1]!
    (subjCell srcRecord) (stateOf (firstAlt (evE srcRecord) (subjCell srcRecord)
      ((demoAlts srcRecord 0).take 1) (subjState srcRecord)))) (by decide +kernel)
  exact ⟨_, _, b, h1, h2⟩
example : boundVals (firstAlt (evE srcRecord) (subjCell srcRecord) (demoAlts srcRecord 0)
    (subjState srcRecord)) = some [(b!"x", .num (F64.ofNat 5))] := by decide +kernel
/-- both orders of the alternatives, a catch-all identifier first / in the middle / last -/
example : runOut b!"BEGIN { print match ([2,5]) { [2,x], [1,x] => x }\nprint match (7) { 1, 7, x => \"lit\" }\nprint match (7) { x, 7 => x }\nprint match (7) { 1, x, 7 => x + 1 } }"
    = some b!"5\nlit\n7\n8\n" := by decide +kernel

/-- the cases `pre ++ post`: `post` is consulted only if no case of `pre` was selected -/
theorem cases_in_order (evE : Expr → EM CellId) (evS : Stmt → EM Unit) (pos : Nat) (c : CellId)
    (pre post : List MatchCase) (s : St) :
    selectAndRun evE evS pos c (pre ++ post) s =
      (match firstMatch evE c pre s with
       | .ok none s1 => selectAndRun evE evS pos c post s1
       | .ok (some sel) s1 => runCase evE evS pos sel.1 sel.2 s1
       | .err e s1 => .err e s1
       | .oof => .oof) :=
  selectAndRun_append evE evS pos c pre post s

/-- **the first matching case wins**: if no case before `pats => body` is selected and one of
    `pats` matches with bindings `b`, the result of the whole selection is `runCase` of THIS
    body with THESE bindings.  The later cases `post` — patterns and bodies — do not occur on
    the right-hand side: arbitrary later cases (matching ones, ones with unsupported patterns,
    ones whose bodies would fail) contribute neither value nor effect nor error. -/
theorem first_case_wins (evE : Expr → EM CellId) (evS : Stmt → EM Unit) (pos : Nat) (c : CellId)
    (pre : List MatchCase) (pats : List Expr) (body : Stmt) (post : List MatchCase)
    (s s1 s2 : St) (b : Bindings)
    (hpre : firstMatch evE c pre s = .ok none s1) (hp : firstAlt evE c pats s1 = .ok (some b) s2) :
    selectAndRun evE evS pos c (pre ++ .mk pats body :: post) s = runCase evE evS pos body b s2 := by
  rw [selectAndRun_append, hpre]
  simp only [selectAndRun_cons, bind, EM.bind, hp]

/-- the same on the evaluator: with the subject evaluated to cell `c`, no earlier case
    selected, and alternative `pats` of case `k` matching with `b`, the `match` expression ends
    as `runCase` of that case does — at every sufficiently large fuel -/
theorem first_case_wins_eval (m : Nat) (t : Token) (v : Expr) (pre : List MatchCase)
    (pats : List Expr) (body : Stmt) (post : List MatchCase) (s0 s s1 s2 : St) (c : CellId)
    (b : Bindings) (r : Res CellId)
    (hv : evalExpr prog m v s0 = .ok c s)
    (hpre : firstMatch (evalExpr prog m) c pre s = .ok none s1)
    (hp : firstAlt (evalExpr prog m) c pats s1 = .ok (some b) s2)
    (hb : runCase (evalExpr prog m) (evalStmt prog m) t.pos body b s2 = r) (hr : r ≠ .oof)
    {N : Nat} (hN : m + matchFuel (pre ++ .mk pats body :: post) + 1 ≤ N) :
    evalExpr prog N (.match_ t v (pre ++ .mk pats body :: post)) s0 = r := by
  refine evalMatch_complete prog m t v _ s0 r ?_ hr hN
  simp only [matchSpec, bind, EM.bind, hv]
  rw [first_case_wins _ _ _ _ pre pats body post s s1 s2 b hpre hp, hb]

/-- `first_case_wins`, `cases_in_order`, `first_case_wins_eval`: `match (3) { 1, 2 => "a",
    3, 4 => "b", f(1) => "c", x => 1/0 }`: case 0 is not selected, alternative `3` of case 1
    matches (no bindings): the result is `"b"` — although case 2 has an unsupported pattern and
    the body of case 3 (a catch-all) would fail -/
example : ∃ s1 s2 b,
    firstMatch (evE srcCases) (subjCell srcCases) ((demoCases srcCases).take 1) (subjState srcCases)
      = .ok none s1 ∧
    firstAlt (evE srcCases) (subjCell srcCases) (demoAlts srcCases 1) s1 = .ok (some b) s2 := by
  have h1 := eq_noSel_of (r := firstMatch (evE srcCases) (subjCell srcCases)
    ((demoCases srcCases).take 1) (subjState srcCases)) (by decide +kernel)
  obtain ⟨b, h2⟩ := eq_match_of (r := firstAlt (evE srcCases) (subjCell srcCases) (demoAlts srcCases 1)
    (stateOf (firstMatch (evE srcCases) (subjCell srcCases) ((demoCases srcCases).take 1)
      (subjState srcCases)))) (by decide +kernel)
  exact ⟨_, _, b, h1, h2⟩
example : runOut srcCases = some b!"b\nend\n" := by decide +kernel
/-- … and with the two middle cases swapped the unsupported pattern `f(1)` is reached first:
    runtime error at its token, nothing printed -/
example : runErr b!"BEGIN { print match (3) { 1, 2 => \"a\", f(1) => \"c\", 3, 4 => \"b\" }\nprint \"end\" }"
    = some (39, "not supported in match expressions", []) := by decide +kernel
/-- the first of two matching cases wins; catch-all identifier first / middle / last case; the
    body of the selected case only is run (the others would print) -/
example : runOut b!"BEGIN { print match (2) { 2 => \"first\", 2 => \"second\", x => \"third\" }\nprint match (2) { x => \"any\", 2 => { print \"never\" } }\nprint match (2) { 1 => { print \"never\" }, x => x * 10, 2 => { print \"never\" } }\nprint match (2) { 1 => \"one\", 3 => \"three\", other => \"other\" } }"
    = some b!"first\nany\n20\nother\n" := by decide +kernel

/-! ## 3. the result value -/

/-- an expression body: the value of the `match` is the body's value (the very cell), in the
    frame that holds the bindings -/
theorem expr_body_yields_value (evE : Expr → EM CellId) (evS : Stmt → EM Unit) (pos : Nat)
    (be : Expr) (b : Bindings) (s : St) (hd : s.frames.length ≤ callDepthLimit) :
    runCase evE evS pos (.expr be) b s =
      withFrames s.frames (do bindAll b; evE be)
        { s with frames := ⟨b!"<match>", []⟩ :: s.frames,
                 maxDepth := max s.maxDepth (s.frames.length + 1) } :=
  runCase_apply evE evS pos (.expr be) b s hd

/-- **the bindings are visible in the body**: the body of the selected case starts in a state
    whose innermost frame is `<match>` with EXACTLY the selected bindings as locals
    (`mergeBindings [] b`: in order, a name bound twice keeps the later cell), on top of the
    unchanged frame stack — so in the body a bound name denotes the bound cell of the subject
    (next theorem), and every other name what it denoted outside -/
theorem body_sees_bindings (evE : Expr → EM CellId) (evS : Stmt → EM Unit) (pos : Nat) (body : Stmt)
    (b : Bindings) (s : St) (hd : s.frames.length ≤ callDepthLimit) :
    runCase evE evS pos body b s =
      withFrames s.frames
        (match body with
         | .expr be => evE be
         | _ => do evS body; newCell (.nil none))
        { s with frames := ⟨b!"<match>", mergeBindings [] b⟩ :: s.frames,
                 maxDepth := max s.maxDepth (s.frames.length + 1) } :=
  runCase_body_state evE evS pos body b s hd

/-- name lookup in that state: a bound name finds its cell, any other name is looked up in the
    frames outside -/
theorem lookup_in_body (b : Bindings) (fs : List Frame) (name : Bytes) :
    lookupFrames (⟨b!"<match>", mergeBindings [] b⟩ :: fs) name =
      (match objLookup (mergeBindings [] b) name with
       | some c => some c
       | none => lookupFrames fs name) := rfl

/-- `lookup_in_body` for the bindings `[x ↦ c]` of an identifier pattern -/
example (x : Bytes) (c : CellId) (fs : List Frame) :
    lookupFrames (⟨b!"<match>", mergeBindings [] [(x, c)]⟩ :: fs) x = some c := by
  simp [lookupFrames, mergeBindings, objInsert, objLookup]

/-- any other body (a block, `print`, `if`, …) is RUN as a statement … -/
theorem block_body_runs_stmt (evE : Expr → EM CellId) (evS : Stmt → EM Unit) (pos : Nat)
    (body : Stmt) (b : Bindings) (s : St) (hb : ∀ be, body ≠ .expr be)
    (hd : s.frames.length ≤ callDepthLimit) :
    runCase evE evS pos body b s =
      withFrames s.frames (do bindAll b; evS body; newCell (.nil none))
        { s with frames := ⟨b!"<match>", []⟩ :: s.frames,
                 maxDepth := max s.maxDepth (s.frames.length + 1) } := by
  rw [runCase_apply evE evS pos body b s hd]
  cases body <;> first | rfl | exact absurd rfl (hb _)

/-- … and the `match` **yields null for a block body**: when such a case completes, the value
    is a fresh cell holding null -/
theorem block_body_yields_null (evE : Expr → EM CellId) (evS : Stmt → EM Unit) (pos : Nat)
    (body : Stmt) (b : Bindings) (s s' : St) (c : CellId) (hb : ∀ be, body ≠ .expr be)
    (h : runCase evE evS pos body b s = .ok c s') : s'.heap.get c = .nil none := by
  by_cases hd : s.frames.length > callDepthLimit
  · rw [runCase_too_deep _ _ _ _ _ _ hd] at h; cases h
  · rw [block_body_runs_stmt evE evS pos body b s hb (by omega)] at h
    simp only [withFrames, bind, EM.bind] at h
    split at h
    · rename_i a s1 heq
      split at heq
      · rename_i u s2 _
        split at heq
        · rename_i u' s3 _
          simp only [newCell, Heap.alloc, Res.ok.injEq] at heq
          obtain ⟨rfl, rfl⟩ := heq
          simp only [Res.ok.injEq] at h
          obtain ⟨rfl, rfl⟩ := h
          exact Heap.get_push_new _ _
        · cases heq
        · cases heq
      · cases heq
      · cases heq
    · cases h
    · cases h

/-- `block_body_runs_stmt`, `block_body_yields_null`: `2 => { print "side" }` is selected: the
    block runs (prints), the value of the `match` is null -/
example : ∀ be, demoBody srcBlock 1 ≠ .expr be := by
  intro be h
  have : (match demoBody srcBlock 1 with | .expr _ => true | _ => false) = false := by decide +kernel
  rw [h] at this; cases this
example : (subjState srcBlock).frames.length ≤ callDepthLimit := by decide +kernel
example : valueOf (runCase (evE srcBlock) (evS srcBlock) 0 (demoBody srcBlock 1) [] (subjState srcBlock))
    = some (.nil none) := by decide +kernel
example : outputOf (runCase (evE srcBlock) (evS srcBlock) 0 (demoBody srcBlock 1) [] (subjState srcBlock))
    = b!"side\n" := by decide +kernel
example : runOut srcBlock = some b!"side\nnull\n" := by decide +kernel

/-- **no case matches: null** — if the selection runs through all cases without a match, the
    value is a fresh cell holding null (and no body was run: the state is the one the pattern
    tests left, plus that cell) -/
theorem no_case_yields_null (evE : Expr → EM CellId) (evS : Stmt → EM Unit) (pos : Nat) (c : CellId)
    (cases : List MatchCase) (s s1 : St) (h : firstMatch evE c cases s = .ok none s1) :
    selectAndRun evE evS pos c cases s =
      .ok s1.heap.cells.size { s1 with heap := { s1.heap with cells := s1.heap.cells.push (.nil none) } } ∧
    ({ s1.heap with cells := s1.heap.cells.push (.nil none) } : Heap).get s1.heap.cells.size = .nil none := by
  refine ⟨?_, Heap.get_push_new _ _⟩
  rw [selectAndRun_apply, h]
  rfl

/-- `no_case_yields_null`: `match (9) { 1 => "one", [a] => a }`: no case is selected -/
example : ∃ s1, firstMatch (evE srcNone) (subjCell srcNone) (demoCases srcNone) (subjState srcNone)
    = .ok none s1 := ⟨_, eq_noSel_of (by decide +kernel)⟩
example : runOut srcNone = some b!"null\n" := by decide +kernel

end whole

section clauses
open Jqawk.Spec Jqawk.MatchSpec

/-! ## 4. unsupported pattern forms: an error only when reached -/

/-- a pattern that is neither a literal, nor an identifier, nor an array pattern (an object, a
    call, an operator expression, a nested `match`) -/
def Unsupported (p : Expr) : Prop :=
  (∀ t, p ≠ .lit t) ∧ (∀ t, p ≠ .ident t) ∧ (∀ t items, p ≠ .arr t items)

/-- reaching such a pattern is the runtime error "not supported in match expressions" at the
    pattern's token; nothing else happens -/
theorem bad_pattern_error (ev : Expr → EM CellId) (p : Expr) (c : CellId) (hp : Unsupported p) :
    patMatches ev p c = throwRt p.token.pos "not supported in match expressions" :=
  patMatches_unsupported ev p c hp.1 hp.2.1 hp.2.2

/-- `Unsupported`: objects, calls, operator expressions and nested `match`es are such patterns
    (`f(1)` in `srcCases` is one) -/
example (t : Token) (items : List (Bytes × Expr)) : Unsupported (.obj t items) := by
  simp [Unsupported]
example (f : Expr) (args : List Expr) : Unsupported (.call f args) := by simp [Unsupported]
example : (match (demoAlts srcCases 2)[0]! with | .call _ _ => true | _ => false) = true := by
  decide +kernel

/-- **the error is raised iff the pattern is reached**: with an unsupported pattern `p` after the
    alternatives `pre`, the case raises the error at `p` exactly when every alternative of `pre`
    failed to match without fault (first line); if one of them matches, the case matches and
    there is NO error (second line); an error of an earlier alternative stands (third line).
    The alternatives `post` after `p` never matter. -/
theorem bad_pattern_error_only_when_reached (ev : Expr → EM CellId) (c : CellId)
    (pre : List Expr) (p : Expr) (post : List Expr) (s : St) (hp : Unsupported p) :
    firstAlt ev c (pre ++ p :: post) s =
      (match firstAlt ev c pre s with
       | .ok none s1 => throwRt p.token.pos "not supported in match expressions" s1
       | .ok (some b) s1 => .ok (some b) s1
       | .err e s1 => .err e s1
       | .oof => .oof) := by
  rw [firstAlt_append]
  cases firstAlt ev c pre s with
  | ok a s1 =>
    cases a with
    | none =>
      simp only [firstAlt_cons, bind, EM.bind, bad_pattern_error ev p c hp]
      rfl
    | some b => rfl
  | err e s1 => rfl
  | oof => rfl

/-- the same one level up: a case whose first alternative is unsupported, after the cases
    `pre`: the error iff no case of `pre` was selected; if one was, its body runs and the bad
    pattern is never looked at -/
theorem bad_pattern_case_only_when_reached (evE : Expr → EM CellId) (evS : Stmt → EM Unit)
    (pos : Nat) (c : CellId) (pre : List MatchCase) (p : Expr) (ps : List Expr) (body : Stmt)
    (post : List MatchCase) (s : St) (hp : Unsupported p) :
    selectAndRun evE evS pos c (pre ++ .mk (p :: ps) body :: post) s =
      (match firstMatch evE c pre s with
       | .ok none s1 => throwRt p.token.pos "not supported in match expressions" s1
       | .ok (some sel) s1 => runCase evE evS pos sel.1 sel.2 s1
       | .err e s1 => .err e s1
       | .oof => .oof) := by
  rw [selectAndRun_append]
  cases firstMatch evE c pre s with
  | ok a s1 =>
    cases a with
    | none =>
      simp only [selectAndRun_cons, firstAlt_cons, bind, EM.bind, bad_pattern_error evE p c hp]
      rfl
    | some sel => rfl
  | err e s1 => rfl
  | oof => rfl

/-- an object pattern AFTER a matching alternative / case is never looked at; BEFORE it, it is
    the error (at the token of the pattern); likewise an operator expression `-3` -/
example : runOut b!"BEGIN { print match (3) { 3, {a: 1} => \"first\", {b: 2} => \"second\" } }"
    = some b!"first\n" := by decide +kernel
example : runErr b!"BEGIN { print match (3) { {a: 1}, 3 => \"first\" } }"
    = some (26, "not supported in match expressions", []) := by decide +kernel
example : runErr b!"BEGIN { print match (3) { 1 => \"no\", 2, -3 => \"bad\", 3 => \"late\" } }"
    = some (40, "not supported in match expressions", []) := by decide +kernel

/-! ## 5. bindings: only those of the alternative that matched, only in the body -/

/-- literal evaluation by the evaluator only allocates (at every fuel) -/
theorem literals_only_allocate (m : Nat) (t : Token) : GrowsOnly (evalExpr prog m (.lit t)) :=
  evalExpr_lit_grows prog m t

/-- **testing a pattern binds nothing**: however `patMatches` ends — match, no match, error —
    the state differs from the one before only by freshly allocated cells (the literals'
    values): the frame stack (all locals), the output, `$`, the return slot, every existing
    cell, array and object are as before (`Grows`).  Bindings are DATA returned by a successful
    match; only `runCase` makes the selected ones visible. -/
theorem pattern_test_binds_nothing (m : Nat) (p : Expr) (c : CellId) (s s' : St)
    (h : endState (patMatches (evalExpr prog m) p c s) = some s') : Grows s s' :=
  patMatches_grows (evalExpr_lit_grows prog m) p c s s' h

/-- … and so do all alternatives of a case and the whole selection `firstMatch` -/
theorem selection_binds_nothing (m : Nat) (c : CellId) (cases : List MatchCase) (s s' : St)
    (h : endState (firstMatch (evalExpr prog m) c cases s) = some s') : Grows s s' :=
  firstMatch_grows (evalExpr_lit_grows prog m) c cases s s' h

/-- **the bindings of a failed alternative are invisible**: an alternative `p` that does not
    match — even an array pattern that bound some names before an element failed — contributes
    nothing: the case goes on with the remaining alternatives from a state `s1` that differs
    from `s` only by fresh cells, and the bindings finally selected are exactly those the
    remaining alternatives produce (what `p` bound on the way occurs nowhere) -/
theorem failed_alternative_bindings_invisible (m : Nat) (c : CellId) (p : Expr) (rest : List Expr)
    (s s1 : St) (hp : patMatches (evalExpr prog m) p c s = .ok none s1) :
    firstAlt (evalExpr prog m) c (p :: rest) s = firstAlt (evalExpr prog m) c rest s1 ∧
      Grows s s1 := by
  refine ⟨?_, pattern_test_binds_nothing prog m p c s s1 (by rw [hp]; rfl)⟩
  simp only [firstAlt_cons, bind, EM.bind, hp]

/-- on the state-free matcher: an alternative that does not match is simply skipped -/
theorem failed_alternative_skipped_pure (h : Heap) (lit : Token → Except Err Val) (c : CellId)
    (p : Expr) (rest : List Expr) (hp : patMatchesPure h lit p c = .noMatch) :
    firstAltPure h lit c (p :: rest) = firstAltPure h lit c rest := by
  simp only [firstAltPure, hp]

/-- an element that fails inside an array pattern discards what earlier elements bound -/
theorem failed_element_discards_bindings (h : Heap) (lit : Token → Except Err Val) (p : Expr)
    (ps : List Expr) (c : CellId) (cs : List CellId) (acc : Bindings)
    (hp : patMatchesPure h lit p c = .noMatch) :
    elemsMatchPure h lit (p :: ps) (c :: cs) acc = .noMatch := by
  simp only [elemsMatchPure, hp]

/-- `pattern_test_binds_nothing`, `failed_alternative_bindings_invisible`: `[x, 1]` against
    `[7, 2]` binds `x` to the first element, then fails on the second: no match … -/
example : ∃ s1, patMatches (evE srcFailed) (demoAlts srcFailed 0)[0]! (subjCell srcFailed)
    (subjState srcFailed) = .ok none s1 := ⟨_, eq_noMatch_of (by decide +kernel)⟩
/-- … the case then matches through `[y, 2]` and the selected bindings are exactly `y ↦ 7`
    (no `x`) … -/
example : boundVals (firstAlt (evE srcFailed) (subjCell srcFailed) (demoAlts srcFailed 0)
    (subjState srcFailed)) = some [(b!"y", .num (F64.ofNat 7))] := by decide +kernel
/-- … and in the body `x` is an unset variable (Go prints `<unknown>` too) -/
example : runOut srcFailed = some b!"<unknown>\nend\n" := by decide +kernel
/-- on the state-free matcher: `failed_alternative_skipped_pure`, `failed_element_discards_bindings` -/
example : patMatchesPure (subjState srcFailed).heap litValue (demoAlts srcFailed 0)[0]!
    (subjCell srcFailed) = .noMatch := by decide +kernel
example : firstAltPure (subjState srcFailed).heap litValue (subjCell srcFailed) (demoAlts srcFailed 0)
    = .binds [(b!"y", 4)] := by decide +kernel

/-- **the bindings are dropped after the match** (frame theorem, specification): however the
    selection and the selected body end, the frame stack afterwards is EXACTLY the one before
    `selectAndRun` — the frame `<match>` with the bindings is gone, no other frame changed -/
theorem bindings_dropped_after (m : Nat) (evS : Stmt → EM Unit) (pos : Nat) (c : CellId)
    (cases : List MatchCase) (s s' : St)
    (h : endState (selectAndRun (evalExpr prog m) evS pos c cases s) = some s') :
    s'.frames = s.frames := by
  rw [selectAndRun_apply] at h
  cases hf : firstMatch (evalExpr prog m) c cases s with
  | ok a s1 =>
    have hg : Grows s s1 := selection_binds_nothing prog m c cases s s1 (by rw [hf]; rfl)
    rw [hf] at h
    cases a with
    | none =>
      simp only [newCell, Heap.alloc, endState, Option.some.injEq] at h
      subst h
      exact hg.frames
    | some sel => exact (runCase_frames _ _ _ _ _ _ _ h).trans hg.frames
  | err e s1 =>
    have hg : Grows s s1 := selection_binds_nothing prog m c cases s s1 (by rw [hf]; rfl)
    rw [hf] at h
    simp only [endState, Option.some.injEq] at h
    subst h
    exact hg.frames
  | oof => rw [hf] at h; simp [endState] at h

/-- … and on the evaluator, for the whole expression including the subject (which may create
    locals in the CURRENT frame): same depth, deeper frames identical (C08) -/
theorem bindings_dropped_after_eval (n : Nat) (t : Token) (v : Expr) (cases : List MatchCase)
    (s s' : St) (h : C08.finalState (evalExpr prog n (.match_ t v cases) s) = some s') :
    FramesKeep s.frames s'.frames :=
  C08.frames_restored_expr prog n _ s s' h

/-- `bindings_dropped_after`: the selection and the body of `srcFailed` end (in a value) -/
example : isDone (selectAndRun (evE srcFailed) (evS srcFailed) 0 (subjCell srcFailed)
    (demoCases srcFailed) (subjState srcFailed)) = true := by decide +kernel
/-- after a completed `match` the bound name is gone (a global of the same name shows again,
    untouched) -/
example : runOut b!"BEGIN { y = \"global\"\nprint match ([7,2]) { [y,2] => y }\nprint y }"
    = some b!"7\nglobal\n" := by decide +kernel

/-! ## 6. literal patterns are `==` -/

/-- **a literal pattern matches exactly when `subject == literal`**: the primitive test
    `litMatches` of the specification is the operator `==` on the two values — `true`/`false`
    as `==` answers (an unset subject equals nothing), an error exactly when `==` raises one
    (comparing with a container), with the same message -/
theorem literal_pattern_is_equality (v l : Val) (hl : l.kind ≠ .unknown) :
    binaryOp .equalEqual v l =
      (match litMatches v l with
       | .ok b => .val (.bool b)
       | .error m => .err false m) :=
  equalEqual_eq_litMatches v l hl

/-- no literal evaluates to an unset value (so the hypothesis above always holds) -/
theorem literal_never_unset (t : Token) (v : Val) (h : litValue t = .ok v) : v.kind ≠ .unknown :=
  litValue_kind t v h

/-- the literal clause of the evaluator is `litValue` -/
theorem literal_value (k : Nat) (t : Token) :
    evalExpr prog (k + 1) (.lit t) = litAction (litValue t) :=
  evalExpr_lit_eq prog k t

/-- the literal pattern on the state-free matcher, in terms of `==` -/
theorem literal_pattern_pure (h : Heap) (t : Token) (c : CellId) :
    patMatchesPure h litValue (.lit t) c =
      (match litValue t with
       | .error e => .fault e
       | .ok lv =>
         match binaryOp .equalEqual (h.get c) lv with
         | .val (.bool true) => .binds []
         | .val _ => .noMatch
         | .err _ m => .fault (.runtime t.pos m)
         | .unmodelled w => .fault (.unmodelled w)) := by
  simp only [patMatchesPure]
  cases hv : litValue t with
  | error e => rfl
  | ok lv =>
    dsimp only
    rw [equalEqual_eq_litMatches _ _ (litValue_kind t lv hv)]
    cases litMatches (h.get c) lv with
    | error m => rfl
    | ok b => cases b <;> rfl

/-- `literal_pattern_is_equality` / `literal_never_unset`: the literal `2` is the number 2 -/
example : (match litValue (match (demoAlts srcBlock 1)[0]! with | .lit t => t | _ => Token.zero) with
    | .ok v => some v | .error _ => none) = some (.num (F64.ofNat 2)) := by decide +kernel
/-- literal patterns of every kind; an unset subject equals no literal; comparing a container
    with a literal is the error `==` raises (Go's message names the two kinds as well) -/
example : runOut b!"BEGIN { print match (\"s\") { 1 => \"num\", true => \"bool\", null => \"null\", \"s\" => \"str\" }\nprint match (u) { 1 => \"one\", null => \"null\", x => \"unset\" } }"
    = some b!"str\nunset\n" := by decide +kernel
example : runErr b!"BEGIN { print match ({}) { x => 1 } == 1, match ({}) { 1 => 1 } }"
    = some (55, "cannot compare", []) := by decide +kernel

/-! ## 7. identifier and array patterns -/

/-- an identifier matches anything and binds the name to the subject's own cell -/
theorem ident_pattern_binds (ev : Expr → EM CellId) (t : Token) (c : CellId) :
    patMatches ev (.ident t) c = pure (some [(t.text, c)]) :=
  patMatches_ident ev t c

/-- **array patterns**: the subject must be an array of EXACTLY the pattern's length; then the
    elements are matched against the sub-patterns position by position (`elemsMatch`) -/
theorem array_pattern_elementwise (ev : Expr → EM CellId) (t : Token) (items : List Expr)
    (c : CellId) (s : St) :
    patMatches ev (.arr t items) c s =
      (match s.heap.get c with
       | .arr a =>
         if (s.heap.arr a).toList.length = items.length then
           elemsMatch ev items (s.heap.arr a).toList [] s
         else .ok none s
       | _ => .ok none s) := by
  rw [patMatches_arr]
  simp only [bind, EM.bind, readCell]
  cases s.heap.get c <;> try rfl
  rename_i a
  simp only [EM.bind, getHeap]
  by_cases hl : (s.heap.arr a).toList.length = items.length
  · simp only [hl, bne_self_eq_false, Bool.false_eq_true, ↓reduceIte]
  · have hne : ((s.heap.arr a).toList.length != items.length) = true := by simpa using hl
    simp only [hl, hne, ↓reduceIte]
    rfl

/-- position by position, left to right, recursively (the sub-pattern is any pattern), the
    bindings merged, later ones winning; the first element that does not match ends it -/
theorem array_elements_in_order (ev : Expr → EM CellId) (p : Expr) (ps : List Expr) (c : CellId)
    (cs : List CellId) (acc : Bindings) :
    elemsMatch ev (p :: ps) (c :: cs) acc = (do
      match (← patMatches ev p c) with
      | none => pure none
      | some nb => elemsMatch ev ps cs (mergeBindings acc nb)) :=
  elemsMatch_cons ev p ps c cs acc

/-- the state-free reading: an array pattern matches iff the subject is an array of the same
    length … -/
theorem array_pattern_pure (h : Heap) (lit : Token → Except Err Val) (t : Token)
    (items : List Expr) (c : CellId) :
    patMatchesPure h lit (.arr t items) c =
      (match h.get c with
       | .arr a =>
         if (h.arr a).toList.length = items.length then
           elemsMatchPure h lit items (h.arr a).toList []
         else .noMatch
       | _ => .noMatch) := by
  simp only [patMatchesPure]
  cases h.get c <;> try rfl
  rename_i a
  dsimp only
  by_cases hl : (h.arr a).toList.length = items.length <;> simp [hl]

/-- … and **every element matches its sub-pattern**, position by position (the pairs of
    `ps.zip cs`) — provided no sub-pattern faults before a mismatch is found -/
theorem array_elements_all_match (h : Heap) (lit : Token → Except Err Val) :
    ∀ (ps : List Expr) (cs : List CellId) (acc : Bindings), ps.length = cs.length →
      ((∃ b, elemsMatchPure h lit ps cs acc = .binds b) ↔
        ∀ pc ∈ ps.zip cs, ∃ nb, patMatchesPure h lit pc.1 pc.2 = .binds nb)
  | [], [], acc, _ => by
    constructor
    · intro _ pc hpc; simp at hpc
    · intro _; exact ⟨acc, by simp [elemsMatchPure]⟩
  | p :: ps, c :: cs, acc, hl => by
    have hl' : ps.length = cs.length := by simpa using hl
    simp only [elemsMatchPure, List.zip_cons_cons, List.mem_cons, forall_eq_or_imp]
    constructor
    · rintro ⟨b, hb⟩
      cases hp : patMatchesPure h lit p c with
      | binds nb =>
        rw [hp] at hb
        exact ⟨⟨nb, rfl⟩, (array_elements_all_match h lit ps cs _ hl').mp ⟨b, hb⟩⟩
      | noMatch => rw [hp] at hb; cases hb
      | fault e => rw [hp] at hb; cases hb
    · rintro ⟨⟨nb, hnb⟩, h2⟩
      rw [hnb]
      exact (array_elements_all_match h lit ps cs _ hl').mpr h2
  | [], _ :: _, _, hl => by simp at hl
  | _ :: _, [], _, hl => by simp at hl

/-- `array_pattern_elementwise`, `array_elements_all_match`: nested array patterns; exactly the
    same length; a scalar or an empty array against array patterns -/
example : runOut b!"BEGIN { print match ([1,[2,3]]) { [a,[b,4]], [a,[2,c]] => a + c, z => \"no\" }\nprint match ([1,2,3]) { [a,b] => \"two\", [a,b,c,d] => \"four\", [a,b,c] => a + b + c }\nprint match (5) { [] => \"empty\", [x] => \"one\", _ => \"scalar\" }\nprint match ([]) { [x] => \"one\", [] => \"empty\" } }"
    = some b!"4\n6\nscalar\nempty\n" := by decide +kernel
/-- a name bound twice keeps the later element (`mergeBindings`: later wins) -/
example : runOut b!"BEGIN { print match ([1,2]) { [x,x] => x } }" = some b!"2\n" := by decide +kernel
/-- the name is bound to the element's OWN cell: assigning to it in the body writes the array -/
example : runOut b!"BEGIN { a = [1,2]\nmatch (a) { [x,y] => { x = 9 } }\nprint a }"
    = some b!"[9, 2]\n" := by decide +kernel

/-! ## 8. the matcher is a function of the heap -/

/-- **the answer of `patMatches` is `patMatchesPure` of the heap it starts from**: from a state
    whose heap is well formed (arrays hold allocated cells) and contains the subject cell, the
    evaluator-backed matcher answers exactly what the state-free matcher computes — bindings,
    no match, or the error —, and ends in a state that differs only by freshly allocated cells -/
theorem patMatches_is_pure (k : Nat) (p : Expr) (c : CellId) (s : St) (wf : s.heap.WF)
    (hc : c < s.heap.cells.size) :
    ∃ s', patMatches (evalExpr prog (k + 1)) p c s = answerRes (patMatchesPure s.heap litValue p c) s' ∧
      Grows s s' :=
  patMatches_eq_pure (fun t => evalExpr_lit_eq prog k t) p c s wf hc

/-- the same for the alternatives of a case -/
theorem firstAlt_is_pure (k : Nat) (pats : List Expr) (c : CellId) (s : St) (wf : s.heap.WF)
    (hc : c < s.heap.cells.size) :
    ∃ s', firstAlt (evalExpr prog (k + 1)) c pats s = answerRes (firstAltPure s.heap litValue c pats) s' ∧
      Grows s s' :=
  firstAlt_eq_pure (fun t => evalExpr_lit_eq prog k t) c s.heap wf hc pats s (HeapExt.refl _)

/-- `patMatches_is_pure`: the heap after evaluating the subject `[2,5]` is well formed and
    contains the subject cell; the state-free matcher answers `x ↦ cell 6` for `[2,x]` -/
example : (subjState srcRecord).heap.WF := wf_of_wfCheck _ (by decide +kernel)
example : subjCell srcRecord < (subjState srcRecord).heap.cells.size := by decide +kernel
example : patMatchesPure (subjState srcRecord).heap litValue (demoAlts srcRecord 0)[1]!
    (subjCell srcRecord) = .binds [(b!"x", 6)] := by decide +kernel
example : firstAltPure (subjState srcRecord).heap litValue (subjCell srcRecord) (demoAlts srcRecord 0)
    = .binds [(b!"x", 6)] := by decide +kernel

end clauses
end Jqawk.C19
