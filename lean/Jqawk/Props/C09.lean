/-
  C09 — assignment changes exactly the addressed location; reads never change the input.
  Frame rules on the heap: what `SetMember`, `copyValue` and the member step touch, and what
  they provably leave alone.
-/
import Jqawk.Model.Eval
import Jqawk.Model.Parser

namespace Jqawk.C09
open Jqawk

theorem get_set_ne (h : Heap) (c d : CellId) (v : Val) (hne : c ≠ d) :
    (h.set d v).get c = h.get c := by
  simp only [Heap.set, Heap.get, Array.getD_eq_getD_getElem?]
  rw [Array.getElem?_setIfInBounds_ne (Ne.symm hne)]

theorem get_set_same (h : Heap) (d : CellId) (v : Val) (hd : d < h.cells.size) :
    (h.set d v).get d = v := by
  simp [Heap.set, Heap.get, Array.getD_eq_getD_getElem?, hd]

/-! ### copy versus share -/

/-- scalars are copied (a fresh payload, without any remembered parent), arrays, objects and
    unset values are shared by reference, functions cannot be copied -/
theorem copyVal_spec (v : Val) :
    (∀ x, v = .num x → copyVal v = .ok (.num x)) ∧
    (∀ b, v = .bool b → copyVal v = .ok (.bool b)) ∧
    (∀ s sp, v = .str s sp → copyVal v = .ok (.str s none)) ∧
    (∀ s, v = .regex s → copyVal v = .ok (.regex s)) ∧
    (∀ sp, v = .nil sp → copyVal v = .ok (.nil none)) ∧
    (∀ a, v = .arr a → copyVal v = .ok (.arr a)) ∧
    (∀ o, v = .obj o → copyVal v = .ok (.obj o)) ∧
    (v = .unknown → copyVal v = .ok .unknown) ∧
    (v.kind = .fn ∨ v.kind = .native → ∃ m, copyVal v = .error m) := by
  cases v <;> simp [copyVal, Val.kind]

/-- `copyValue` writes exactly one cell — the target — and nothing else -/
theorem copyValue_local (src dst : CellId) (s s' : St) (r : Except String CellId)
    (h : copyValue src dst s = .ok r s') :
    s'.heap.arrs = s.heap.arrs ∧ s'.heap.objs = s.heap.objs ∧
    ∀ c, c ≠ dst → s'.heap.get c = s.heap.get c := by
  unfold copyValue at h
  simp only [bind, EM.bind, readCell] at h
  cases hc : copyVal (s.heap.get src) with
  | ok w =>
    rw [hc] at h
    simp only [writeCell, pure, EM.pure, Res.ok.injEq] at h
    obtain ⟨_, rfl⟩ := h
    exact ⟨rfl, rfl, fun c hcd => get_set_ne _ _ _ _ hcd⟩
  | error m =>
    rw [hc] at h
    simp only [pure, EM.pure, Res.ok.injEq] at h
    obtain ⟨_, rfl⟩ := h
    exact ⟨rfl, rfl, fun _ _ => rfl⟩

/-! ### reading never changes anything -/

/-- `GetMember` is a function of the heap: it cannot change it (by construction — it returns no
    heap).  In particular reading an index past the end of an array does not pad the array: -/
theorem read_past_end_is_missing (h : Heap) (a : ArrId) (x : F64)
    (hi : (h.arr a).size ≤ x.toGoInt.toNat) (hpos : 0 ≤ x.toGoInt) :
    getMember h (.arr a) (.num x) = .ok .missing := by
  have h0 : ¬ x.toGoInt < 0 := by omega
  have h1 : ¬ x.toGoInt.toNat < (h.arr a).size := by omega
  simp [getMember, resolveIndex, h0, h1]

/-- the member/index step on a base that is already a value (not unset) leaves every existing
    cell, array and object as it was: at most one fresh cell is allocated -/
theorem memberStep_readonly (pos : Nat) (left right : CellId) (s s' : St) (c : CellId)
    (hk : (s.heap.get left).kind ≠ .unknown)
    (h : memberStep pos left right s = .ok c s') :
    s'.heap.arrs = s.heap.arrs ∧ s'.heap.objs = s.heap.objs ∧
    (∀ i, i < s.heap.cells.size → s'.heap.get i = s.heap.get i) ∧
    s'.frames = s.frames ∧ s'.out = s.out := by
  unfold memberStep at h
  have hk' : ((s.heap.get left).kind == Kind.unknown) = false := by simpa using hk
  simp only [bind, EM.bind, readCell, hk', Bool.false_eq_true, ↓reduceIte, getHeap, pure, EM.pure] at h
  have fresh : ∀ v : Val, ∀ c s', newCell v s = .ok c s' →
      s'.heap.arrs = s.heap.arrs ∧ s'.heap.objs = s.heap.objs ∧
      (∀ i, i < s.heap.cells.size → s'.heap.get i = s.heap.get i) ∧
      s'.frames = s.frames ∧ s'.out = s.out := by
    intro v c s' hn
    simp only [newCell, Heap.alloc, Res.ok.injEq] at hn
    obtain ⟨_, rfl⟩ := hn
    refine ⟨rfl, rfl, fun i hi => ?_, rfl, rfl⟩
    simp [Heap.get, Array.getD_eq_getD_getElem?, Array.getElem?_push, Nat.ne_of_lt hi]
  cases hg : getMember s.heap (s.heap.get left) (s.heap.get right) with
  | error m => rw [hg] at h; simp [throwRt] at h
  | ok mem =>
    rw [hg] at h
    cases mem with
    | missing => exact fresh _ _ _ h
    | method f => exact fresh _ _ _ h
    | char ch x => cases ch <;> exact fresh _ _ _ h
    | cell c0 =>
      dsimp only at h
      cases hv : s.heap.get c0 <;> rw [hv] at h <;>
        first
          | exact fresh _ _ _ h
          | (simp only [Res.ok.injEq] at h
             obtain ⟨_, rfl⟩ := h
             exact ⟨rfl, rfl, fun _ _ => rfl, rfl, rfl⟩)

/-! ### storing a member -/

theorem objLookup_objInsert_same (m : List (Bytes × CellId)) (k : Bytes) (c : CellId) :
    objLookup (objInsert m k c) k = some c := by
  induction m with
  | nil => simp [objInsert, objLookup]
  | cons kv rest ih =>
    obtain ⟨k0, c0⟩ := kv
    by_cases h : k0 = k
    · simp [objInsert, objLookup, h]
    · simp [objInsert, objLookup, h, ih]

theorem objLookup_objInsert_other (m : List (Bytes × CellId)) (k k' : Bytes) (c : CellId) (hne : k' ≠ k) :
    objLookup (objInsert m k c) k' = objLookup m k' := by
  induction m with
  | nil => simp [objInsert, objLookup, Ne.symm hne]
  | cons kv rest ih =>
    obtain ⟨k0, c0⟩ := kv
    by_cases h : k0 = k
    · subst h; simp [objInsert, objLookup, Ne.symm hne]
    · by_cases h2 : k0 = k'
      · subst h2; simp [objInsert, objLookup, h]
      · simp [objInsert, objLookup, h, h2, ih]

/-- storing a member on an object: that key is bound to the given cell, every other key keeps
    its cell, and no cell value, no array and no other object changes -/
theorem setMember_object_local (h : Heap) (o : ObjId) (key : Val) (cell : CellId) (ho : o < h.objs.size) :
    ∃ h', setMember h (.obj o) key cell = .ok (cell, h') ∧
      objLookup (h'.obj o) key.str! = some cell ∧
      (∀ k', k' ≠ key.str! → objLookup (h'.obj o) k' = objLookup (h.obj o) k') ∧
      (∀ o', o' ≠ o → h'.obj o' = h.obj o') ∧
      h'.cells = h.cells ∧ h'.arrs = h.arrs := by
  refine ⟨_, rfl, ?_, ?_, ?_, rfl, rfl⟩
  · simp [Heap.obj, Heap.setObj, Array.setIfInBounds, ho, Array.getD_eq_getD_getElem?,
      objLookup_objInsert_same]
  · intro k' hk
    simp [Heap.obj, Heap.setObj, Array.setIfInBounds, ho, Array.getD_eq_getD_getElem?,
      objLookup_objInsert_other _ _ _ _ hk]
  · intro o' ho'
    simp only [Heap.obj, Heap.setObj, Array.setIfInBounds, ho, ↓reduceDIte,
      Array.getD_eq_getD_getElem?, Array.getElem?_set, Ne.symm ho', ↓reduceIte]

/-- storing at an index inside the array: only that element's cell gets a new value; the array
    keeps the same cells, every other cell keeps its value -/
theorem setMember_array_in_range (h : Heap) (a : ArrId) (x : F64) (cell : CellId) (i : Nat)
    (hi : resolveIndex (h.arr a).size x.toGoInt = some i) (hlt : i < (h.arr a).size) :
    ∃ h', setMember h (.arr a) (.num x) cell = .ok ((h.arr a).getD i 0, h') ∧
      h'.arrs = h.arrs ∧ h'.objs = h.objs ∧
      (∀ c, c ≠ (h.arr a).getD i 0 → h'.get c = h.get c) := by
  refine ⟨h.set ((h.arr a).getD i 0) (h.get cell), by simp [setMember, hi, hlt], rfl, rfl,
    fun c hc => get_set_ne _ _ _ _ hc⟩

/-- negative indices count from the end; an index before the start is an error -/
theorem negative_index (len k : Nat) (hk : 0 < k) :
    resolveIndex len (-(k : Int)) = if k ≤ len then some (len - k) else none := by
  have h1 : (-(k : Int)) < 0 := by omega
  simp only [resolveIndex, h1, ↓reduceIte]
  split
  · rename_i h; have : ¬ k ≤ len := by omega
    simp [this]
  · rename_i h; have : k ≤ len := by omega
    simp only [this, ↓reduceIte, Option.some.injEq]
    omega

theorem index_before_start_errors (h : Heap) (a : ArrId) (x : F64) (c : CellId)
    (hx : x.toGoInt < 0) (hlen : ((h.arr a).size : Int) + x.toGoInt < 0) :
    getMember h (.arr a) (.num x) = .error "index out of range" ∧
    setMember h (.arr a) (.num x) c = .error "index out of range" := by
  simp [getMember, setMember, resolveIndex, hx, hlen]

/-- a non-numeric key on an array and any member store on a scalar are refused -/
theorem setMember_refusals (h : Heap) (c : CellId) :
    (∀ a k, (∀ x, k ≠ .num x) → ∃ m, setMember h (.arr a) k c = .error m) ∧
    (∀ v k, (∀ a, v ≠ .arr a) → (∀ o, v ≠ .obj o) → ∃ m, setMember h v k c = .error m) := by
  constructor
  · intro a k hk
    cases k <;> simp_all [setMember]
  · intro v k ha ho
    cases v <;> simp_all [setMember]

/-! ### compound assignment -/

/-- `a op= b` is parsed as `a = a op b` -/
theorem compound_desugars (l r : Expr) (op : Token) (t : Tag)
    (ht : (op.tag, t) ∈ [(Tag.plusEqual, Tag.plus), (Tag.minusEqual, Tag.minus),
                          (Tag.multiplyEqual, Tag.multiply), (Tag.divideEqual, Tag.divide)]) :
    Parser.rewriteCompound l r op = .binary l (.binary l r ⟨t, op.pos, op.text⟩) ⟨.equal, op.pos, []⟩ := by
  simp only [List.mem_cons, Prod.mk.injEq, List.mem_nil_iff, or_false] at ht
  rcases ht with ⟨h1, h2⟩ | ⟨h1, h2⟩ | ⟨h1, h2⟩ | ⟨h1, h2⟩ <;> simp [Parser.rewriteCompound, h1, h2]

end Jqawk.C09
