/-
  C09 — assignment changes exactly the addressed location; reads never change the input.
  Frame rules on the heap: what `SetMember`, `copyValue` and the member step touch, and what
  they provably leave alone.
-/
import Jqawk.Model.Eval
import Jqawk.Model.Parser
import Jqawk.Lemmas.ReadOnlyDoc
import Jqawk.Lemmas.AssignFrame
import Jqawk.Lemmas.AssignCreate
import Jqawk.Lemmas.AssignChain
import Jqawk.Lemmas.ReadBack
import Jqawk.Lemmas.CopyShare

namespace Jqawk.C09
open Jqawk

theorem get_set_ne (h : Heap) (c d : CellId) (v : Val) (hne : c ≠ d) :
    (h.set d v).get c = h.get c := by
  simp only [Heap.set, Heap.get, Array.getD_eq_getD_getElem?]
  rw [Array.getElem?_setIfInBounds_ne (Ne.symm hne)]

theorem get_set_same (h : Heap) (d : CellId) (v : Val) (hd : d < h.cells.size) :
    (h.set d v).get d = v := by
  simp [Heap.set, Heap.get, Array.getD_eq_getD_getElem?, hd]

/-! ### copy versus share -/

/-- scalars are copied (a fresh payload, without any remembered parent), arrays, objects and
    unset values are shared by reference, functions cannot be copied -/
theorem copyVal_spec (v : Val) :
    (∀ x, v = .num x → copyVal v = .ok (.num x)) ∧
    (∀ b, v = .bool b → copyVal v = .ok (.bool b)) ∧
    (∀ s sp, v = .str s sp → copyVal v = .ok (.str s none)) ∧
    (∀ s, v = .regex s → copyVal v = .ok (.regex s)) ∧
    (∀ sp, v = .nil sp → copyVal v = .ok (.nil none)) ∧
    (∀ a, v = .arr a → copyVal v = .ok (.arr a)) ∧
    (∀ o, v = .obj o → copyVal v = .ok (.obj o)) ∧
    (v = .unknown → copyVal v = .ok .unknown) ∧
    (v.kind = .fn ∨ v.kind = .native → ∃ m, copyVal v = .error m) := by
  cases v <;> simp [copyVal, Val.kind]

/-- `copyValue` writes exactly one cell — the target — and nothing else -/
theorem copyValue_local (src dst : CellId) (s s' : St) (r : Except String CellId)
    (h : copyValue src dst s = .ok r s') :
    s'.heap.arrs = s.heap.arrs ∧ s'.heap.objs = s.heap.objs ∧
    ∀ c, c ≠ dst → s'.heap.get c = s.heap.get c := by
  unfold copyValue at h
  simp only [bind, EM.bind, readCell] at h
  cases hc : copyVal (s.heap.get src) with
  | ok w =>
    rw [hc] at h
    simp only [writeCell, pure, EM.pure, Res.ok.injEq] at h
    obtain ⟨_, rfl⟩ := h
    exact ⟨rfl, rfl, fun c hcd => get_set_ne _ _ _ _ hcd⟩
  | error m =>
    rw [hc] at h
    simp only [pure, EM.pure, Res.ok.injEq] at h
    obtain ⟨_, rfl⟩ := h
    exact ⟨rfl, rfl, fun _ _ => rfl⟩

/-! ### reading never changes anything -/

/-- `GetMember` is a function of the heap: it cannot change it (by construction — it returns no
    heap).  In particular reading an index past the end of an array does not pad the array: -/
theorem read_past_end_is_missing (h : Heap) (a : ArrId) (x : F64)
    (hi : (h.arr a).size ≤ x.toGoInt.toNat) (hpos : 0 ≤ x.toGoInt) :
    getMember h (.arr a) (.num x) = .ok .missing := by
  have h0 : ¬ x.toGoInt < 0 := by omega
  have h1 : ¬ x.toGoInt.toNat < (h.arr a).size := by omega
  simp [getMember, resolveIndex, h0, h1]

/-- the member/index step on a base that is already a value (not unset) leaves every existing
    cell, array and object as it was: at most one fresh cell is allocated -/
theorem memberStep_readonly (pos : Nat) (left right : CellId) (s s' : St) (c : CellId)
    (hk : (s.heap.get left).kind ≠ .unknown)
    (h : memberStep pos left right s = .ok c s') :
    s'.heap.arrs = s.heap.arrs ∧ s'.heap.objs = s.heap.objs ∧
    (∀ i, i < s.heap.cells.size → s'.heap.get i = s.heap.get i) ∧
    s'.frames = s.frames ∧ s'.out = s.out := by
  unfold memberStep at h
  have hk' : ((s.heap.get left).kind == Kind.unknown) = false := by simpa using hk
  simp only [bind, EM.bind, readCell, hk', Bool.false_eq_true, ↓reduceIte, getHeap, pure, EM.pure] at h
  have fresh : ∀ v : Val, ∀ c s', newCell v s = .ok c s' →
      s'.heap.arrs = s.heap.arrs ∧ s'.heap.objs = s.heap.objs ∧
      (∀ i, i < s.heap.cells.size → s'.heap.get i = s.heap.get i) ∧
      s'.frames = s.frames ∧ s'.out = s.out := by
    intro v c s' hn
    simp only [newCell, Heap.alloc, Res.ok.injEq] at hn
    obtain ⟨_, rfl⟩ := hn
    refine ⟨rfl, rfl, fun i hi => ?_, rfl, rfl⟩
    simp [Heap.get, Array.getD_eq_getD_getElem?, Array.getElem?_push, Nat.ne_of_lt hi]
  cases hg : getMember s.heap (s.heap.get left) (s.heap.get right) with
  | error m => rw [hg] at h; simp [throwRt] at h
  | ok mem =>
    rw [hg] at h
    cases mem with
    | missing => exact fresh _ _ _ h
    | method f => exact fresh _ _ _ h
    | char ch x => cases ch <;> exact fresh _ _ _ h
    | cell c0 =>
      dsimp only at h
      cases hv : s.heap.get c0 <;> rw [hv] at h <;>
        first
          | exact fresh _ _ _ h
          | (simp only [Res.ok.injEq] at h
             obtain ⟨_, rfl⟩ := h
             exact ⟨rfl, rfl, fun _ _ => rfl, rfl, rfl⟩)

/-! ### storing a member -/

theorem objLookup_objInsert_same (m : List (Bytes × CellId)) (k : Bytes) (c : CellId) :
    objLookup (objInsert m k c) k = some c := by
  induction m with
  | nil => simp [objInsert, objLookup]
  | cons kv rest ih =>
    obtain ⟨k0, c0⟩ := kv
    by_cases h : k0 = k
    · simp [objInsert, objLookup, h]
    · simp [objInsert, objLookup, h, ih]

theorem objLookup_objInsert_other (m : List (Bytes × CellId)) (k k' : Bytes) (c : CellId) (hne : k' ≠ k) :
    objLookup (objInsert m k c) k' = objLookup m k' := by
  induction m with
  | nil => simp [objInsert, objLookup, Ne.symm hne]
  | cons kv rest ih =>
    obtain ⟨k0, c0⟩ := kv
    by_cases h : k0 = k
    · subst h; simp [objInsert, objLookup, Ne.symm hne]
    · by_cases h2 : k0 = k'
      · subst h2; simp [objInsert, objLookup, h]
      · simp [objInsert, objLookup, h, h2, ih]

/-- storing a member on an object: that key is bound to the given cell, every other key keeps
    its cell, and no cell value, no array and no other object changes -/
theorem setMember_object_local (h : Heap) (o : ObjId) (key : Val) (cell : CellId) (ho : o < h.objs.size) :
    ∃ h', setMember h (.obj o) key cell = .ok (cell, h') ∧
      objLookup (h'.obj o) key.str! = some cell ∧
      (∀ k', k' ≠ key.str! → objLookup (h'.obj o) k' = objLookup (h.obj o) k') ∧
      (∀ o', o' ≠ o → h'.obj o' = h.obj o') ∧
      h'.cells = h.cells ∧ h'.arrs = h.arrs := by
  refine ⟨_, rfl, ?_, ?_, ?_, rfl, rfl⟩
  · simp [Heap.obj, Heap.setObj, Array.setIfInBounds, ho, Array.getD_eq_getD_getElem?,
      objLookup_objInsert_same]
  · intro k' hk
    simp [Heap.obj, Heap.setObj, Array.setIfInBounds, ho, Array.getD_eq_getD_getElem?,
      objLookup_objInsert_other _ _ _ _ hk]
  · intro o' ho'
    simp only [Heap.obj, Heap.setObj, Array.setIfInBounds, ho, ↓reduceDIte,
      Array.getD_eq_getD_getElem?, Array.getElem?_set, Ne.symm ho', ↓reduceIte]

/-- storing at an index inside the array: only that element's cell gets a new value; the array
    keeps the same cells, every other cell keeps its value -/
theorem setMember_array_in_range (h : Heap) (a : ArrId) (x : F64) (cell : CellId) (i : Nat)
    (hi : resolveIndex (h.arr a).size x.toGoInt = some i) (hlt : i < (h.arr a).size) :
    ∃ h', setMember h (.arr a) (.num x) cell = .ok ((h.arr a).getD i 0, h') ∧
      h'.arrs = h.arrs ∧ h'.objs = h.objs ∧
      (∀ c, c ≠ (h.arr a).getD i 0 → h'.get c = h.get c) := by
  refine ⟨h.set ((h.arr a).getD i 0) (h.get cell), by simp [setMember, hi, hlt], rfl, rfl,
    fun c hc => get_set_ne _ _ _ _ hc⟩

/-- negative indices count from the end; an index before the start is an error -/
theorem negative_index (len k : Nat) (hk : 0 < k) :
    resolveIndex len (-(k : Int)) = if k ≤ len then some (len - k) else none := by
  have h1 : (-(k : Int)) < 0 := by omega
  simp only [resolveIndex, h1, ↓reduceIte]
  split
  · rename_i h; have : ¬ k ≤ len := by omega
    simp [this]
  · rename_i h; have : k ≤ len := by omega
    simp only [this, ↓reduceIte, Option.some.injEq]
    omega

theorem index_before_start_errors (h : Heap) (a : ArrId) (x : F64) (c : CellId)
    (hx : x.toGoInt < 0) (hlen : ((h.arr a).size : Int) + x.toGoInt < 0) :
    getMember h (.arr a) (.num x) = .error "index out of range" ∧
    setMember h (.arr a) (.num x) c = .error "index out of range" := by
  simp [getMember, setMember, resolveIndex, hx, hlen]

/-- a non-numeric key on an array and any member store on a scalar are refused -/
theorem setMember_refusals (h : Heap) (c : CellId) :
    (∀ a k, (∀ x, k ≠ .num x) → ∃ m, setMember h (.arr a) k c = .error m) ∧
    (∀ v k, (∀ a, v ≠ .arr a) → (∀ o, v ≠ .obj o) → ∃ m, setMember h v k c = .error m) := by
  constructor
  · intro a k hk
    cases k <;> simp_all [setMember]
  · intro v k ha ho
    cases v <;> simp_all [setMember]

/-! ### compound assignment -/

/-- `a op= b` is parsed as `a = a op b` -/
theorem compound_desugars (l r : Expr) (op : Token) (t : Tag)
    (ht : (op.tag, t) ∈ [(Tag.plusEqual, Tag.plus), (Tag.minusEqual, Tag.minus),
                          (Tag.multiplyEqual, Tag.multiply), (Tag.divideEqual, Tag.divide)]) :
    Parser.rewriteCompound l r op = .binary l (.binary l r ⟨t, op.pos, op.text⟩) ⟨.equal, op.pos, []⟩ := by
  simp only [List.mem_cons, Prod.mk.injEq, List.mem_nil_iff, or_false] at ht
  rcases ht with ⟨h1, h2⟩ | ⟨h1, h2⟩ | ⟨h1, h2⟩ | ⟨h1, h2⟩ <;> simp [Parser.rewriteCompound, h1, h2]


/-! ### reading never changes the input document (any expression, any depth)

  Clause: "Evaluating an expression that contains no assignment and no mutating method call
  never changes the input document."  Proved over the real evaluator by one mutual induction
  (Lemmas/ReadOnly.lean, `allRO`): whatever way the evaluation ends, every cell that existed
  keeps its value (an unset cell stays unset), every array keeps its cells and every object its
  members; everything else is allocation (`HeapPreserved`).  Hence the rendering of every
  document that lies in the old heap is unchanged (`readonly_document_unchanged`).

  History: the first version of these theorems was `…_partial` — the member/index step used to
  turn an *unset* base into a fresh empty array/object, so `{ $.u = x; y = $.u.x }` changed
  `"u": null` into `"u": {}`.  The step was repaired (Go and model): an unset base now yields a
  stand-in for a missing member, and becomes a container only when that member is assigned to
  (`createSpeculative`).  See the `example` with `exFill` below. -/

/-- what a read-only evaluation leaves unchanged, read off a result -/
def Unchanged {α : Type} (s : St) : Res α → Prop
  | .ok _ s' => HeapPreserved s.heap s'.heap ∧ FramesPreserved s.frames s'.frames ∧
      s'.root = s.root ∧ s'.ruleRoot = s.ruleRoot
  | .err _ s' => HeapPreserved s.heap s'.heap ∧ FramesPreserved s.frames s'.frames ∧
      s'.root = s.root ∧ s'.ruleRoot = s.ruleRoot
  | .oof => True

/-- a property of the state an evaluation ends in (nothing is claimed when fuel runs out) -/
def After {α : Type} (P : St → Prop) : Res α → Prop
  | .ok _ s' => P s'
  | .err _ s' => P s'
  | .oof => True

/-- reading the invariant of Lemmas/ReadOnly.lean (`QR`, with frames) as `Unchanged` -/
theorem Unchanged.of_QR {α : Type} {k : Bool} {s : St} {r : Res α} (h : QR k true s r) (i : Inv k s.heap) :
    Unchanged s r ∧ After (fun s' => Inv k s'.heap) r := by
  cases r with
  | ok a s' => obtain ⟨r, i'⟩ := h i; exact ⟨⟨r.heap, r.frames rfl, r.root, r.ruleRoot⟩, i'⟩
  | err e s' => obtain ⟨r, i'⟩ := h i; exact ⟨⟨r.heap, r.frames rfl, r.root, r.ruleRoot⟩, i'⟩
  | oof => exact ⟨trivial, trivial⟩

/-- Clause "evaluating an expression that contains no assignment and no mutating method call
    never changes the input document" — for ANY program, fuel and state, and an expression
    without assignment, `++`/`--` and without any call (`Expr.readOnly false`): whatever way the
    evaluation ends, every cell that existed holds the same value, every array has the same
    cells, every object the same members; every variable binding and `$` denote the same cells.
    Member and index chains, reads of missing members (`$.a.b.c`: nothing is created), literals,
    operators, `is`, `match` expressions with such bodies are all covered. -/
theorem readonly_expr (prog : Program) (n : Nat) (e : Expr) (s : St)
    (he : Expr.readOnly false e = true) : Unchanged s (evalExpr prog n e s) :=
  (Unchanged.of_QR ((allRO prog false (fun h => by cases h) n).expr true e he s) (fun h => by cases h)).1

/-- the same for statements (match bodies, rule bodies): blocks, `print`, `if`, `while`, `for`,
    `return`, `break`/`continue`/`next`/`exit` over read-only expressions; `for … in` is excluded
    (it assigns its loop variables) -/
theorem readonly_stmt (prog : Program) (n : Nat) (st : Stmt) (s : St)
    (he : Stmt.readOnly false st = true) : Unchanged s (evalStmt prog n st s) :=
  (Unchanged.of_QR ((allRO prog false (fun h => by cases h) n).stmt true st he s) (fun h => by cases h)).1

/-- … and with method calls: `recv.name(args)` / `recv["name"](args)` with a literal name other
    than `push`, `pop`, `popfirst` (`Expr.readOnly true`; `sort` returns a new array, `printf`
    is not a method).  Two hypotheses exclude what no run of the interpreter produces but an
    arbitrary state could contain: every function body of the program is itself read-only
    (`FnsRO`: an object member holding a function value would be *called* by `o.name()`), and
    object members are allocated cells (`ObjsInRange`, the `objs` half of `Heap.WF`; it is
    preserved).  Calls of user functions by name and of `printf`/`json`/`num` are NOT covered:
    the callee would be an arbitrary variable, which in an arbitrary state may hold `push`
    bound to any array. -/
theorem readonly_methods (prog : Program) (hfn : prog.FnsRO) (n : Nat) (e : Expr) (s : St)
    (hwf : ObjsInRange s.heap) (he : Expr.readOnly true e = true) :
    Unchanged s (evalExpr prog n e s) ∧ After (fun s' => ObjsInRange s'.heap) (evalExpr prog n e s) := by
  have h := Unchanged.of_QR ((allRO prog true (fun _ => hfn) n).expr true e he s) (fun _ => hwf)
  refine ⟨h.1, ?_⟩
  have h2 := h.2
  cases hr : evalExpr prog n e s with
  | ok a s' => rw [hr] at h2; exact h2 rfl
  | err e s' => rw [hr] at h2; exact h2 rfl
  | oof => trivial

/-- statements with method calls -/
theorem readonly_methods_stmt (prog : Program) (hfn : prog.FnsRO) (n : Nat) (st : Stmt) (s : St)
    (hwf : ObjsInRange s.heap) (he : Stmt.readOnly true st = true) :
    Unchanged s (evalStmt prog n st s) :=
  (Unchanged.of_QR ((allRO prog true (fun _ => hfn) n).stmt true st he s) (fun _ => hwf)).1

/-- in particular: every allocated cell keeps its value -/
theorem readonly_cells_unchanged {α : Type} {s : St} {r : Res α} (h : Unchanged s r) (c : CellId)
    (hc : c < s.heap.cells.size) : After (fun s' => s'.heap.get c = s.heap.get c) r := by
  cases r with
  | ok a s' => exact h.1.get c hc
  | err e s' => exact h.1.get c hc
  | oof => trivial

/-- Clause "… never changes the input document": the cell keeps its value and that value has
    the same JSON form (`ToGoValue`, what `-o` and `json()` produce) in the new heap; `$` still
    denotes the same cell.  The only hypothesis is that the document lies in the heap
    (`DocAllocated`: no dangling array/object/cell ids in it — true for anything loaded from
    JSON, `newValueJson_docAllocated`); with a dangling id the "document" would include
    whatever is allocated there later.  Holds for the result of any evaluation that is
    `Unchanged`, i.e. by `readonly_expr` … `readonly_methods_stmt` for every read-only
    expression or statement. -/
theorem readonly_document_unchanged {α : Type} {s : St} {r : Res α} (h : Unchanged s r) (c : CellId)
    (hc : c < s.heap.cells.size) (hdoc : DocAllocated s.heap (s.heap.get c)) :
    After (fun s' => s'.ruleRoot = s.ruleRoot ∧ s'.heap.get c = s.heap.get c ∧
      toJValTop s'.heap (s'.heap.get c) = toJValTop s.heap (s.heap.get c)) r := by
  cases r with
  | ok a s' => exact ⟨h.2.2.2, toJValTop_cell_preserved h.1 c hc hdoc⟩
  | err e s' => exact ⟨h.2.2.2, toJValTop_cell_preserved h.1 c hc hdoc⟩
  | oof => trivial

/-! #### examples: the hypotheses are satisfiable, and needed -/

def tk (t : Tag) (s : Bytes) : Token := ⟨t, 0, s⟩
def dollar : Expr := .ident (tk .dollar b!"$")
def dot (e : Expr) (name : Bytes) : Expr := .binary e (.lit (tk .ident name)) (tk .dot b!".")
def idx (e i : Expr) : Expr := .binary e i (tk .lsquare b!"[")
def numL (s : Bytes) : Expr := .lit (tk .num s)
def mcall (e : Expr) (name : Bytes) (args : List Expr) : Expr := .call (dot e name) args

/-- `[$.a[-1] + $.s.length(), $.nope.deeper, $.s.upper()]` -/
def exRead : Expr :=
  .arr (tk .lsquare b!"[")
    [ .binary (idx (dot dollar b!"a") (.unary (numL b!"1") (tk .minus b!"-") false))
        (mcall (dot dollar b!"s") b!"length" []) (tk .plus b!"+"),
      dot (dot dollar b!"nope") b!"deeper",
      mcall (dot dollar b!"s") b!"upper" [] ]

/-- `$ = {"a": [1, 2], "s": "hi", "u": <unset>}` -/
def exHeap : Heap :=
  ⟨#[.obj 0, .arr 0, .num F64.one, .num (F64.add F64.one F64.one), .str b!"hi" none, .unknown],
   #[#[2, 3]], #[[(b!"a", 1), (b!"s", 4), (b!"u", 5)]]⟩

def exSt : St :=
  { heap := exHeap, frames := [⟨b!"<root>", []⟩], out := [], root := some 0, ruleRoot := some 0,
    returnVal := none, faults := 0 }

def sameOld (h h' : Heap) : Bool :=
  (List.range h.cells.size).all (fun c => h'.get c == h.get c) &&
  (List.range h.arrs.size).all (fun a => h'.arr a == h.arr a) &&
  (List.range h.objs.size).all (fun o => h'.obj o == h.obj o)

/-! non-vacuity of the heap-level lemmas at the top of this file (`copyValue_local`,
    `read_past_end_is_missing`, `memberStep_readonly`, `setMember_object_local`,
    `setMember_array_in_range`, `negative_index`, `index_before_start_errors`), on the example heap -/

/-- `copyValue_local`: copying cell 2 (the number 1) into cell 5 succeeds -/
example : (match copyValue 2 5 exSt with
    | .ok (.ok c) s' => c == 5 && s'.heap.get 5 == .num F64.one | _ => false) = true := by
  decide +kernel
/-- `read_past_end_is_missing`: index 1 on an empty array -/
example : ((⟨#[.arr 0], #[#[]], #[]⟩ : Heap).arr 0).size ≤ F64.one.toGoInt.toNat ∧
    0 ≤ F64.one.toGoInt := by decide +kernel
/-- `memberStep_readonly`: `$["hi"]` (base cell 0 holds the root object, key cell 4 the string
    `"hi"`): the base is not unset and the step succeeds with a fresh cell (6) -/
example : (exSt.heap.get 0).kind ≠ .unknown ∧
    (match memberStep 0 0 4 exSt with
     | .ok c s' => c == 6 && s'.heap.cells.size == 7 | _ => false) = true := by decide +kernel
/-- `setMember_object_local` (`ho`), `setMember_array_in_range` (`hi`, `hlt`: index 1 of `$.a`) -/
example : 0 < exHeap.objs.size ∧
    resolveIndex (exHeap.arr 0).size F64.one.toGoInt = some 1 ∧ 1 < (exHeap.arr 0).size := by
  decide +kernel
/-- `negative_index`: `[-1]` on a two-element array is element 1, `[-3]` is out of range -/
example : resolveIndex 2 (-((1 : Nat) : Int)) = some 1 ∧ resolveIndex 2 (-((3 : Nat) : Int)) = none := by
  decide
/-- `index_before_start_errors`: `$.a[-3]` (two elements) -/
example : (F64.neg (F64.add F64.one (F64.add F64.one F64.one))).toGoInt < 0 ∧
    ((exHeap.arr 0).size : Int) + (F64.neg (F64.add F64.one (F64.add F64.one F64.one))).toGoInt < 0 := by
  decide +kernel

example : Expr.readOnly true exRead = true := by decide +kernel

/-- `$.a[-1] + 1 < 3 && !($.nope.deeper is null)`: read-only without calls -/
def exRead0 : Expr :=
  .binary
    (.binary (.binary (idx (dot dollar b!"a") (.unary (numL b!"1") (tk .minus b!"-") false)) (numL b!"1")
      (tk .plus b!"+")) (numL b!"3") (tk .lessThan b!"<"))
    (.unary (.binary (dot (dot dollar b!"nope") b!"deeper") (.ident (tk .null b!"null")) (tk .is b!"is"))
      (tk .bang b!"!") false)
    (tk .ampAmp b!"&&")

example : Expr.readOnly false exRead0 = true := by decide +kernel

/-- `if ($.a[0] < 3) { print $.s } else { return $.a }` -/
def exStmt : Stmt :=
  .if_ (.binary (idx (dot dollar b!"a") (numL b!"0")) (numL b!"3") (tk .lessThan b!"<"))
    (.block (tk .lcurly b!"{") [.print (tk .print b!"print") [dot dollar b!"s"]])
    (some (.ret (some (dot dollar b!"a"))))

example : Stmt.readOnly false exStmt = true := by decide +kernel

/-- a program with a (read-only) function: `function f(x) { return x.length() }` -/
example : Program.FnsRO ⟨[], [⟨tk .ident b!"f", [b!"x"],
    .ret (some (mcall (.ident (tk .ident b!"x")) b!"length" []))⟩]⟩ := by
  intro f hf
  simp only [List.mem_singleton] at hf
  subst hf
  decide +kernel

example : (match evalExpr Program.empty 12 exRead exSt with
    | .ok c s' => sameOld exHeap s'.heap && (s'.heap.get c == .arr 1) && (s'.heap.arr 1).size == 3
    | _ => false) = true := by decide +kernel


/-- `$.u.x` where `$.u` is unset — a pure read … -/
def exFill : Expr := dot (dot dollar b!"u") b!"x"

example : Expr.readOnly false exFill = true := by decide +kernel

/-- … which (since the repair of the member step) leaves `$.u` unset, every old cell, array and
    object as it was, and the document rendering the same (`"u": null`) -/
example : (match evalExpr Program.empty 12 exFill exSt with
    | .ok _ s' =>
      (exHeap.get 5 == .unknown) && (s'.heap.get 5 == .unknown) && sameOld exHeap s'.heap &&
      (match toJValTop exHeap (exHeap.get 0), toJValTop s'.heap (s'.heap.get 0) with
       | .ok a, .ok b => Json.marshalIndent a == b!"{\n  \"a\": [\n    1,\n    2\n  ],\n  \"s\": \"hi\",\n  \"u\": null\n}" &&
                         Json.marshalIndent b == Json.marshalIndent a
       | _, _ => false)
    | _ => false) = true := by decide +kernel

/-- `$.a[0] = 7` -/
def exAssign : Expr := .binary (idx (dot dollar b!"a") (numL b!"0")) (numL b!"7") (tk .equal b!"=")

example : Expr.readOnly true exAssign = false ∧
    (match evalExpr Program.empty 12 exAssign exSt with
     | .ok _ s' => (s'.heap.get 2 != exHeap.get 2) && (exHeap.get 2 != .unknown)
     | _ => false) = true := by decide +kernel

/-- `$.a.push(3)` -/
def exPush : Expr := mcall (dot dollar b!"a") b!"push" [numL b!"3"]

example : Expr.readOnly true exPush = false ∧
    (match evalExpr Program.empty 12 exPush exSt with
     | .ok _ s' => (s'.heap.arr 0 != exHeap.arr 0)
     | _ => false) = true := by decide +kernel


/-- the sub-document `$.a = [1, 2]` of the example heap lies in the heap -/
theorem exHeap_a_allocated : DocAllocated exHeap (exHeap.get 1) := by
  apply DocAllocated.of_closed exHeap _ (fun v => v = exHeap.get 1 ∨ v = exHeap.get 2 ∨ v = exHeap.get 3)
    (.inl rfl)
  · intro v d w hs hd hw
    rcases hs with rfl | rfl | rfl
    · have : d = .a 0 := by
        have : (exHeap.get 1).cont? = some (.a 0) := by decide +kernel
        rw [this] at hd; cases hd; rfl
      subst this
      cases hw with
      | arr a c hc =>
        have : c = 2 ∨ c = 3 := by
          have : (exHeap.arr 0).toList = [2, 3] := by decide +kernel
          rw [this] at hc; simpa using hc
        rcases this with rfl | rfl
        · exact .inr (.inl rfl)
        · exact .inr (.inr rfl)
    · have : (exHeap.get 2).cont? = none := by decide +kernel
      rw [this] at hd; cases hd
    · have : (exHeap.get 3).cont? = none := by decide +kernel
      rw [this] at hd; cases hd
  · intro a hs
    have : a = 0 := by
      rcases hs with h | h | h
      · have : exHeap.get 1 = .arr 0 := by decide +kernel
        rw [this] at h; cases h; rfl
      · have : exHeap.get 2 = .num F64.one := by decide +kernel
        rw [this] at h; cases h
      · have : exHeap.get 3 = .num (F64.add F64.one F64.one) := by decide +kernel
        rw [this] at h; cases h
    subst this
    refine ⟨by decide +kernel, ?_⟩
    have : (exHeap.arr 0).toList = [2, 3] := by decide +kernel
    rw [this]
    intro c hc
    have hsz : exHeap.cells.size = 6 := by decide +kernel
    rw [hsz]
    simp only [List.mem_cons, List.not_mem_nil, or_false] at hc
    rcases hc with rfl | rfl <;> decide
  · intro o hs
    rcases hs with h | h | h
    · have : exHeap.get 1 = .arr 0 := by decide +kernel
      rw [this] at h; cases h
    · have : exHeap.get 2 = .num F64.one := by decide +kernel
      rw [this] at h; cases h
    · have : exHeap.get 3 = .num (F64.add F64.one F64.one) := by decide +kernel
      rw [this] at h; cases h



theorem exHeap_objsInRange : ObjsInRange exHeap := by
  intro o key c hl
  by_cases ho : o < exHeap.objs.size
  · have ho' : o = 0 := by
      have : exHeap.objs.size = 1 := by decide +kernel
      rw [this] at ho; exact Nat.lt_one_iff.mp ho
    subst ho'
    have : exHeap.obj 0 = [(b!"a", 1), (b!"s", 4), (b!"u", 5)] := by decide +kernel
    rw [this] at hl
    have hsz : exHeap.cells.size = 6 := by decide +kernel
    rw [hsz]
    simp only [objLookup] at hl
    repeat' split at hl
    all_goals first | (cases hl; done) | (cases hl; decide)
  · rw [Heap.obj_of_not_valid exHeap o ho] at hl
    simp [objLookup] at hl

/-- all hypotheses of `readonly_methods` and `readonly_document_unchanged` hold for the
    example (`exRead` contains member and index chains, operators, a read of a missing member
    and two method calls), so: the sub-document `$.a` renders as before -/
example : After (fun s' => s'.ruleRoot = exSt.ruleRoot ∧ s'.heap.get 1 = exHeap.get 1 ∧
      toJValTop s'.heap (s'.heap.get 1) = toJValTop exHeap (exHeap.get 1))
    (evalExpr Program.empty 12 exRead exSt) :=
  readonly_document_unchanged
    (readonly_methods Program.empty (fun f hf => by simp [Program.empty] at hf) 12 exRead exSt
      exHeap_objsInRange (by decide +kernel)).1 1 (by decide +kernel) exHeap_a_allocated

/-- `ObjsInRange` is needed: in an ill-formed heap where the member `foo` of `$` refers to a cell
    that is not allocated yet (id 5), the read-only call `$.foo($.a.push is null)` finds nothing
    callable when it evaluates the callee, but by the time of the call cell 5 has been allocated
    — for the bound method value `$.a.push` of the argument — and the call pushes onto `$.a`.
    (No run of the interpreter produces such a heap.) -/
example :
    let e := Expr.call (dot dollar b!"foo")
      [.binary (dot (dot dollar b!"a") b!"push") (.ident (tk .null b!"null")) (tk .is b!"is")]
    let h : Heap := ⟨#[.obj 0, .arr 0], #[#[]], #[[(b!"a", 1), (b!"foo", 5)]]⟩
    Expr.readOnly true e = true ∧
    (match evalExpr Program.empty 12 e { exSt with heap := h } with
     | .ok _ s' => (h.arr 0).size == 0 && (s'.heap.arr 0).size == 1
     | _ => false) = true := by decide +kernel

/-- `FnsRO` is needed (for arbitrary states): if the member `f` of `$` holds a function value,
    `$.f()` runs that function, here `function g() { $.k = 7 }`.  (In the interpreter a function
    value can never be stored in a member: `copyValue` refuses it.) -/
example :
    let e := mcall dollar b!"f" []
    let prog : Program := ⟨[], [⟨tk .ident b!"g", [],
      .expr (.binary (dot dollar b!"k") (numL b!"7") (tk .equal b!"="))⟩]⟩
    let h : Heap := ⟨#[.obj 0, .fn 0, .num F64.one], #[], #[[(b!"f", 1), (b!"k", 2)]]⟩
    Expr.readOnly true e = true ∧
    (match evalExpr prog 12 e { exSt with heap := h } with
     | .ok _ s' => h.get 2 == .num F64.one && s'.heap.get 2 != .num F64.one
     | _ => false) = true := by decide +kernel

/-! ### the frame rule for an assignment to an existing location -/

theorem speculative_preserved {h h' : Heap} (p : HeapPreserved h h') (c : CellId)
    (hc : c < h.cells.size) (hns : (h.get c).speculative = false) :
    (h'.get c).speculative = false := by
  rw [p.get c hc]; exact hns

/-- Clause "assigning … changes exactly the addressed location … and leaves every other part of
    every value unchanged", for a target that exists: `l = r` with read-only `l`, `r` (method
    calls allowed under the hypotheses of `readonly_methods`: take `k = true`), where
    `l` evaluates to the cell `lc` and `lc` does not stand for a missing member when the store
    happens.  The whole assignment is: evaluate `l`, evaluate `r` (both read-only), then write
    the copy of `r`'s value into `lc` — no other cell that held a value, no array and no object
    changes (`HeapPreservedExcept lc`).  A value that cannot be copied (a function) is a runtime
    error and nothing is written. -/
theorem assign_existing_frame (prog : Program) (k : Bool) (n : Nat) (l r : Expr) (op : Token)
    (s s1 s2 : St) (lc rc : CellId)
    (hk : k = true → prog.FnsRO ∧ ObjsInRange s.heap)
    (hl : Expr.readOnly k l = true) (hr : Expr.readOnly k r = true) (hop : op.tag = .equal)
    (h1 : evalExpr prog n l s = .ok lc s1) (h2 : evalExpr prog n r s1 = .ok rc s2)
    (hns : (s2.heap.get lc).speculative = false) :
    HeapPreserved s.heap s2.heap ∧
    match copyVal (s2.heap.get rc) with
    | .ok w =>
      evalExpr prog (n + 2) (.binary l r op) s = .ok lc { s2 with heap := s2.heap.set lc w } ∧
      HeapPreservedExcept lc s.heap (s2.heap.set lc w) ∧
      (lc < s2.heap.cells.size → (s2.heap.set lc w).get lc = w)
    | .error m => evalExpr prog (n + 2) (.binary l r op) s = Jqawk.throwRt l.token.pos m s2 := by
  have all := allRO prog k (fun e => (hk e).1) n
  have q1 := all.expr true l hl s
  rw [h1] at q1
  obtain ⟨r1, i1⟩ := q1 (fun e => (hk e).2)
  have q2 := all.expr true r hr s1
  rw [h2] at q2
  obtain ⟨r2, _⟩ := q2 i1
  have hp : HeapPreserved s.heap s2.heap := r1.heap.trans r2.heap
  refine ⟨hp, ?_⟩
  have e := assign_existing_eq prog n l r op s s1 s2 lc rc hop h1 h2 hns
  cases hc : copyVal (s2.heap.get rc) with
  | ok w =>
    rw [hc] at e
    exact ⟨e, hp.set_except lc w, fun hlt => Heap.get_set_same' _ _ _ hlt⟩
  | error m => rw [hc] at e; exact e

/-- `x = r` for a variable `x` that is bound to an allocated cell `c` which does not stand for a
    missing member: exactly `c` is written. -/
theorem assign_var_frame (prog : Program) (k : Bool) (n : Nat) (t : Token) (r : Expr) (op : Token)
    (s s2 : St) (c rc : CellId)
    (hk : k = true → prog.FnsRO ∧ ObjsInRange s.heap)
    (hr : Expr.readOnly k r = true) (hop : op.tag = .equal)
    (ht : (t.tag == Tag.dollar) = false) (hb : lookupFrames s.frames t.text = some c)
    (hc : c < s.heap.cells.size) (hns : (s.heap.get c).speculative = false)
    (h2 : evalExpr prog (n + 1) r s = .ok rc s2) :
    match copyVal (s2.heap.get rc) with
    | .ok w =>
      evalExpr prog (n + 3) (.binary (.ident t) r op) s = .ok c { s2 with heap := s2.heap.set c w } ∧
      HeapPreservedExcept c s.heap (s2.heap.set c w) ∧ (s2.heap.set c w).get c = w
    | .error m => evalExpr prog (n + 3) (.binary (.ident t) r op) s = Jqawk.throwRt t.pos m s2 := by
  have h1 := evalExpr_ident_bound prog n t s c ht hb
  have all := allRO prog k (fun e => (hk e).1) (n + 1)
  have q2 := all.expr true r hr s
  rw [h2] at q2
  obtain ⟨r2, _⟩ := q2 (fun e => (hk e).2)
  have hns2 := speculative_preserved r2.heap c hc hns
  have h := (assign_existing_frame prog k (n + 1) (.ident t) r op s s s2 c rc hk
    (readOnly_ident k t) hr hop h1 h2 hns2).2
  cases hcv : copyVal (s2.heap.get rc) with
  | ok w =>
    rw [hcv] at h
    exact ⟨h.1, h.2.1, h.2.2 (Nat.lt_of_lt_of_le hc r2.heap.cells)⟩
  | error m => rw [hcv] at h; exact h

/-- the final state / the value of a result (for stating concrete instances) -/
def resState {α : Type} : Res α → St
  | .ok _ s => s
  | .err _ s => s
  | .oof => default

def resVal? {α : Type} : Res α → Option α
  | .ok a _ => some a
  | _ => none

theorem eq_ok_of_resVal {α : Type} {r : Res α} {a : α} (h : resVal? r = some a) :
    r = .ok a (resState r) := by
  cases r <;> simp_all [resVal?, resState]

/-- `$.a[0] = 7` on the example state: the hypotheses of `assign_existing_frame` hold with
    `lc = 2` (the cell of the first element), and so does its conclusion: cell 2 is written,
    every other old cell, the array and the object are as before -/
example :
    let r1 := evalExpr Program.empty 10 (idx (dot dollar b!"a") (numL b!"0")) exSt
    let r2 := evalExpr Program.empty 10 (numL b!"7") (resState r1)
    r1 = .ok 2 (resState r1) ∧ r2 = .ok 8 (resState r2) ∧
    ((resState r2).heap.get 2).speculative = false := by
  refine ⟨eq_ok_of_resVal (by decide +kernel), eq_ok_of_resVal (by decide +kernel), by decide +kernel⟩

/-- `y = 7` where the variable `y` is bound to cell 2: the hypotheses of `assign_var_frame` hold
    (`n + 1 = 10`) -/
example :
    let s : St := { exSt with frames := [⟨b!"<root>", [(b!"y", 2)]⟩] }
    let r2 := evalExpr Program.empty 10 (numL b!"7") s
    ((tk .ident b!"y").tag == Tag.dollar) = false ∧
    lookupFrames s.frames (tk .ident b!"y").text = some 2 ∧ 2 < s.heap.cells.size ∧
    (s.heap.get 2).speculative = false ∧ r2 = .ok 6 (resState r2) := by
  refine ⟨by decide +kernel, by decide +kernel, by decide +kernel, by decide +kernel,
    eq_ok_of_resVal (by decide +kernel)⟩


/-! ### the frame rule for an assignment that creates its target

  `o.new = e`, `a[len+k] = e`, and `u.k = e` / `u[i] = e` for an unset `u`: the target expression
  evaluates to a stand-in cell `sc` (value `nil` remembering the base cell `b` and the key), and
  the store goes through one level of `createSpeculativeObjects`.  (Two or more missing levels,
  `o.x.y = e` with `o.x` missing, are not covered here.) -/

/-- target and source of an assignment are read-only: evaluating both changes nothing -/
theorem readonly_pair_preserved (prog : Program) (k : Bool) (n : Nat) (l r : Expr) (s s1 s2 : St)
    (lc rc : CellId) (hk : k = true → prog.FnsRO ∧ ObjsInRange s.heap)
    (hl : Expr.readOnly k l = true) (hr : Expr.readOnly k r = true)
    (h1 : evalExpr prog n l s = .ok lc s1) (h2 : evalExpr prog n r s1 = .ok rc s2) :
    HeapPreserved s.heap s2.heap := by
  have all := allRO prog k (fun e => (hk e).1) n
  have q1 := all.expr true l hl s
  rw [h1] at q1
  obtain ⟨r1, i1⟩ := q1 (fun e => (hk e).2)
  have q2 := all.expr true r hr s1
  rw [h2] at q2
  obtain ⟨r2, _⟩ := q2 i1
  exact r1.heap.trans r2.heap

/-- Clause "assigning to a … member, index … changes exactly the addressed location — creating
    missing intermediate objects (for string keys) or arrays (for numeric indices) … — and leaves
    every other part of every value … unchanged", frame part, for every creating assignment with
    one missing level: evaluating target and source changes nothing (`HeapPreserved s s2`), and
    the store itself leaves every cell that existed unchanged except the stand-in cell `sc`
    (which becomes the new member) and the base cell `b` if it was unset (it receives the new
    container); every array other than the one `b` holds and every object other than the one `b`
    holds keep their contents (`HeapFrame`).  `hidx` says that for an array base the index is at
    or past the end — which is why the member was missing. -/
theorem assign_create_frame (prog : Program) (k : Bool) (n : Nat) (l r : Expr) (op : Token)
    (s s1 s2 : St) (sc rc b : CellId) (key : Key)
    (hk : k = true → prog.FnsRO ∧ ObjsInRange s.heap)
    (hl : Expr.readOnly k l = true) (hr : Expr.readOnly k r = true) (hop : op.tag = .equal)
    (h1 : evalExpr prog n l s = .ok sc s1) (h2 : evalExpr prog n r s1 = .ok rc s2)
    (hsv : s2.heap.get sc = .nil (some ⟨b, key⟩)) (hpv : ∀ sp, s2.heap.get b ≠ .nil sp)
    (hidx : ∀ a x i, s2.heap.get b = .arr a → key = .num x →
      resolveIndex (s2.heap.arr a).size x.toGoInt = some i → (s2.heap.arr a).size ≤ i) :
    HeapPreserved s.heap s2.heap ∧
    After (fun s' => HeapFrame (fun d => d = sc ∨ (d = b ∧ s2.heap.get b = .unknown))
        (fun a => s2.heap.get b = .arr a) (fun o => s2.heap.get b = .obj o) s2.heap s'.heap)
      (evalExpr prog (n + 2) (.binary l r op) s) := by
  refine ⟨readonly_pair_preserved prog k n l r s s1 s2 sc rc hk hl hr h1 h2, ?_⟩
  have h := assign_create_heapFrame prog n l r op s s1 s2 sc rc b key hop h1 h2 hsv hpv hidx
  cases hr' : evalExpr prog (n + 2) (.binary l r op) s with
  | ok a s' => rw [hr'] at h; exact h
  | err e s' => rw [hr'] at h; exact h
  | oof => trivial

/-- "creating missing intermediate objects (for string keys)": `o.new = e` where `o` holds an
    object.  Exactly: the object gets the member `new ↦ sc` (`objInsert`: an existing key keeps
    its position, a new one is appended; every other key keeps its cell,
    `objLookup_objInsert_other`), and `sc` receives the copy of the value. -/
theorem assign_new_member (prog : Program) (n : Nat) (l r : Expr) (op : Token) (s s1 s2 : St)
    (sc rc b : CellId) (key : Key) (o : ObjId) (hop : op.tag = .equal)
    (h1 : evalExpr prog n l s = .ok sc s1) (h2 : evalExpr prog n r s1 = .ok rc s2)
    (hsv : s2.heap.get sc = .nil (some ⟨b, key⟩)) (hb : s2.heap.get b = .obj o) :
    evalExpr prog (n + 2) (.binary l r op) s =
      match copyVal (s2.heap.get rc) with
      | .ok w => .ok sc { s2 with heap :=
          ((s2.heap.setObj o (objInsert (s2.heap.obj o) key.val.str! sc)).set sc w) }
      | .error m => Jqawk.throwRt l.token.pos m { s2 with heap :=
          (s2.heap.setObj o (objInsert (s2.heap.obj o) key.val.str! sc)) } := by
  rw [assign_create_eq prog n l r op s s1 s2 sc rc b key hop h1 h2 hsv (by rw [hb]; simp)]
  have : createTarget s2.heap b key = (s2.heap, .obj o) := by unfold createTarget; rw [hb]
  rw [this]
  rfl

/-- "padding arrays with null up to a new index": `a[i] = e` with `i ≥ a.length()` (`i` already
    resolved: a negative index counts from the end, `negative_index`).  The result heap is
    `padHeap` (described by `padHeap_spec`: the array keeps its old cells, then `i - len` fresh
    cells holding null, then one more fresh cell; nothing else changes) with that last cell
    holding the copy of the value. -/
theorem assign_array_pad (prog : Program) (n : Nat) (l r : Expr) (op : Token) (s s1 s2 : St)
    (sc rc b : CellId) (key : Key) (a : ArrId) (x : F64) (i : Nat) (hop : op.tag = .equal)
    (h1 : evalExpr prog n l s = .ok sc s1) (h2 : evalExpr prog n r s1 = .ok rc s2)
    (hsv : s2.heap.get sc = .nil (some ⟨b, key⟩)) (hb : s2.heap.get b = .arr a)
    (hkey : key = .num x) (hri : resolveIndex (s2.heap.arr a).size x.toGoInt = some i)
    (hge : (s2.heap.arr a).size ≤ i) (hlim : i ≤ fillLimit) :
    evalExpr prog (n + 2) (.binary l r op) s =
      match copyVal ((padHeap s2.heap a i (s2.heap.get sc)).get rc) with
      | .ok w => .ok (s2.heap.cells.size + (i - (s2.heap.arr a).size)) { s2 with heap :=
          ((padHeap s2.heap a i (s2.heap.get sc)).set (s2.heap.cells.size + (i - (s2.heap.arr a).size)) w) }
      | .error m => Jqawk.throwRt l.token.pos m { s2 with heap := (padHeap s2.heap a i (s2.heap.get sc)) } := by
  rw [assign_create_eq prog n l r op s s1 s2 sc rc b key hop h1 h2 hsv (by rw [hb]; simp)]
  have : createTarget s2.heap b key = (s2.heap, .arr a) := by unfold createTarget; rw [hb]
  rw [this]
  subst hkey
  have hsc : sc < s2.heap.cells.size := Heap.lt_of_get_ne_unknown _ _ (by rw [hsv]; simp)
  simp only [Key.val]
  rw [setMember_arr_fill s2.heap a x sc i hri hge hlim hsc]
  rfl

/-- `u.k = e` for an unset `u`: `u` becomes a fresh object whose only member is `k`
    (`unsetObjHeap`, described by `unsetObjHeap_spec`), holding the copy of the value -/
theorem assign_unset_base_object (prog : Program) (n : Nat) (l r : Expr) (op : Token) (s s1 s2 : St)
    (sc rc b : CellId) (key : Key) (kname : Bytes) (hop : op.tag = .equal)
    (h1 : evalExpr prog n l s = .ok sc s1) (h2 : evalExpr prog n r s1 = .ok rc s2)
    (hsv : s2.heap.get sc = .nil (some ⟨b, key⟩)) (hb : s2.heap.get b = .unknown)
    (hkey : key = .str kname) :
    evalExpr prog (n + 2) (.binary l r op) s =
      match copyVal ((unsetObjHeap s2.heap b kname sc).get rc) with
      | .ok w => .ok sc { s2 with heap := (unsetObjHeap s2.heap b kname sc).set sc w }
      | .error m => Jqawk.throwRt l.token.pos m { s2 with heap := unsetObjHeap s2.heap b kname sc } := by
  rw [assign_create_eq prog n l r op s s1 s2 sc rc b key hop h1 h2 hsv (by rw [hb]; simp)]
  subst hkey
  have : createTarget s2.heap b (.str kname) =
      ((s2.heap.allocObj []).2.set b (.obj s2.heap.objs.size), .obj s2.heap.objs.size) := by
    unfold createTarget; rw [hb]
  rw [this]
  have hobj : ((s2.heap.allocObj []).2.set b (.obj s2.heap.objs.size)).obj s2.heap.objs.size = [] := by
    simp [Heap.set, Heap.allocObj, Heap.obj, Array.getD_eq_getD_getElem?]
  simp only [setMember, Key.val, Val.str!, hobj, objInsert, unsetObjHeap]
  rfl

/-- `u[i] = e` for an unset `u` and `i ≥ 0`: `u` becomes a fresh array of length `i + 1`: nulls,
    then the copy of the value (`padHeap` on the fresh empty array; a negative `i` is the error
    "index out of range", `index_before_start_errors`) -/
theorem assign_unset_base_array (prog : Program) (n : Nat) (l r : Expr) (op : Token) (s s1 s2 : St)
    (sc rc b : CellId) (key : Key) (x : F64) (i : Nat) (hop : op.tag = .equal)
    (h1 : evalExpr prog n l s = .ok sc s1) (h2 : evalExpr prog n r s1 = .ok rc s2)
    (hsv : s2.heap.get sc = .nil (some ⟨b, key⟩)) (hb : s2.heap.get b = .unknown)
    (hkey : key = .num x) (hri : resolveIndex 0 x.toGoInt = some i) (hlim : i ≤ fillLimit) :
    evalExpr prog (n + 2) (.binary l r op) s =
      match copyVal ((padHeap ((s2.heap.allocArr #[]).2.set b (.arr s2.heap.arrs.size))
          s2.heap.arrs.size i (s2.heap.get sc)).get rc) with
      | .ok w => .ok (s2.heap.cells.size + i) { s2 with heap :=
          ((padHeap ((s2.heap.allocArr #[]).2.set b (.arr s2.heap.arrs.size))
            s2.heap.arrs.size i (s2.heap.get sc)).set (s2.heap.cells.size + i) w) }
      | .error m => Jqawk.throwRt l.token.pos m { s2 with heap :=
          (padHeap ((s2.heap.allocArr #[]).2.set b (.arr s2.heap.arrs.size))
            s2.heap.arrs.size i (s2.heap.get sc)) } := by
  rw [assign_create_eq prog n l r op s s1 s2 sc rc b key hop h1 h2 hsv (by rw [hb]; simp)]
  subst hkey
  have : createTarget s2.heap b (.num x) =
      ((s2.heap.allocArr #[]).2.set b (.arr s2.heap.arrs.size), .arr s2.heap.arrs.size) := by
    unfold createTarget; rw [hb]
  rw [this]
  have harr : ((s2.heap.allocArr #[]).2.set b (.arr s2.heap.arrs.size)).arr s2.heap.arrs.size = #[] := by
    simp [Heap.set, Heap.allocArr, Heap.arr, Array.getD_eq_getD_getElem?]
  have hsc : sc < s2.heap.cells.size := Heap.lt_of_get_ne_unknown _ _ (by rw [hsv]; simp)
  have hne : sc ≠ b := by intro e; rw [e, hb] at hsv; cases hsv
  have hsz : ((s2.heap.allocArr #[]).2.set b (.arr s2.heap.arrs.size)).cells.size = s2.heap.cells.size := by
    rw [Heap.size_set]; rfl
  have hget : ((s2.heap.allocArr #[]).2.set b (.arr s2.heap.arrs.size)).get sc = s2.heap.get sc := by
    rw [Heap.get_set_ne' _ _ _ _ hne]; rfl
  simp only [Key.val]
  rw [setMember_arr_fill _ s2.heap.arrs.size x sc i (by rw [harr]; exact hri)
    (by rw [harr]; exact Nat.zero_le _) hlim (by rw [hsz]; exact hsc)]
  simp only [harr, hsz, hget, Array.size_empty, Nat.sub_zero]
  rfl

/-! #### concrete instances on the example state `$ = {"a": [1, 2], "s": "hi", "u": <unset>}` -/

def assign (l r : Expr) : Expr := .binary l r (tk .equal b!"=")
def oldCellsSame (h h' : Heap) (except : List CellId) : Bool :=
  (List.range h.cells.size).all (fun c => except.contains c || h'.get c == h.get c)

/-- `$.u.k = 7`: the hypotheses of `assign_create_frame` / `assign_unset_base_object` hold (the
    target is the stand-in cell 8 for member `k` of the unset cell 5) … -/
example :
    let r1 := evalExpr Program.empty 10 (dot (dot dollar b!"u") b!"k") exSt
    let r2 := evalExpr Program.empty 10 (numL b!"7") (resState r1)
    r1 = .ok 8 (resState r1) ∧ r2 = .ok 9 (resState r2) ∧
    (resState r2).heap.get 8 = .nil (some ⟨5, .str b!"k"⟩) ∧ (resState r2).heap.get 5 = .unknown := by
  refine ⟨eq_ok_of_resVal (by decide +kernel), eq_ok_of_resVal (by decide +kernel),
    by decide +kernel, by decide +kernel⟩

/-- `$.new = 7`: the hypotheses of `assign_new_member` hold (stand-in cell 7 for the member `new`
    of cell 0, which holds the root object) -/
example :
    let r1 := evalExpr Program.empty 10 (dot dollar b!"new") exSt
    let r2 := evalExpr Program.empty 10 (numL b!"7") (resState r1)
    r1 = .ok 7 (resState r1) ∧ r2 = .ok 8 (resState r2) ∧
    (resState r2).heap.get 7 = .nil (some ⟨0, .str b!"new"⟩) ∧ (resState r2).heap.get 0 = .obj 0 := by
  refine ⟨eq_ok_of_resVal (by decide +kernel), eq_ok_of_resVal (by decide +kernel),
    by decide +kernel, by decide +kernel⟩

/-- `$.a[4] = 7`: the hypotheses of `assign_array_pad` hold (stand-in cell 8 for index 4 of cell 1,
    which holds the two-element array 0) -/
example :
    let r1 := evalExpr Program.empty 10 (idx (dot dollar b!"a") (numL b!"4")) exSt
    let r2 := evalExpr Program.empty 10 (numL b!"7") (resState r1)
    r1 = .ok 8 (resState r1) ∧ r2 = .ok 9 (resState r2) ∧
    (∃ x, (resState r2).heap.get 8 = .nil (some ⟨1, .num x⟩) ∧
      resolveIndex ((resState r2).heap.arr 0).size x.toGoInt = some 4) ∧
    (resState r2).heap.get 1 = .arr 0 ∧ ((resState r2).heap.arr 0).size ≤ 4 ∧ 4 ≤ fillLimit := by
  refine ⟨eq_ok_of_resVal (by decide +kernel), eq_ok_of_resVal (by decide +kernel),
    ⟨(F64.parse b!"4").getD F64.one, by decide +kernel, by decide +kernel⟩,
    by decide +kernel, by decide +kernel, by decide +kernel⟩

/-- `$.u[2] = 7`: the hypotheses of `assign_unset_base_array` hold (stand-in cell 8 for index 2 of
    the unset cell 5) -/
example :
    let r1 := evalExpr Program.empty 10 (idx (dot dollar b!"u") (numL b!"2")) exSt
    let r2 := evalExpr Program.empty 10 (numL b!"7") (resState r1)
    r1 = .ok 8 (resState r1) ∧ r2 = .ok 9 (resState r2) ∧
    (∃ x, (resState r2).heap.get 8 = .nil (some ⟨5, .num x⟩) ∧ resolveIndex 0 x.toGoInt = some 2) ∧
    (resState r2).heap.get 5 = .unknown ∧ 2 ≤ fillLimit := by
  refine ⟨eq_ok_of_resVal (by decide +kernel), eq_ok_of_resVal (by decide +kernel),
    ⟨(F64.parse b!"2").getD F64.one, by decide +kernel, by decide +kernel⟩,
    by decide +kernel, by decide +kernel⟩

/-- … and its effect: `$.u` is now the fresh object `{k: 7}`, every other old cell, the array and
    the root object are unchanged -/
example : (match evalExpr Program.empty 12 (assign (dot (dot dollar b!"u") b!"k") (numL b!"7")) exSt with
    | .ok c s' =>
      s'.heap.get 5 == .obj 1 && s'.heap.obj 1 == [(b!"k", c)] &&
      (F64.parse b!"7").map Val.num == some (s'.heap.get c) &&
      oldCellsSame exHeap s'.heap [5] && s'.heap.arr 0 == exHeap.arr 0 && s'.heap.obj 0 == exHeap.obj 0
    | _ => false) = true := by decide +kernel

/-- `$.u[2] = 7`: `$.u` becomes `[null, null, 7]` -/
example : (match evalExpr Program.empty 12 (assign (idx (dot dollar b!"u") (numL b!"2")) (numL b!"7")) exSt with
    | .ok c s' =>
      s'.heap.get 5 == .arr 1 && (s'.heap.arr 1).size == 3 &&
      s'.heap.get ((s'.heap.arr 1).getD 0 0) == .nil none &&
      s'.heap.get ((s'.heap.arr 1).getD 1 0) == .nil none && (s'.heap.arr 1).getD 2 0 == c &&
      (F64.parse b!"7").map Val.num == some (s'.heap.get c) &&
      oldCellsSame exHeap s'.heap [5] && s'.heap.arr 0 == exHeap.arr 0 && s'.heap.obj 0 == exHeap.obj 0
    | _ => false) = true := by decide +kernel

/-- `$.a[4] = 7`: `$.a` becomes `[1, 2, null, null, 7]`, with its first two cells as before -/
example : (match evalExpr Program.empty 12 (assign (idx (dot dollar b!"a") (numL b!"4")) (numL b!"7")) exSt with
    | .ok c s' =>
      (s'.heap.arr 0).size == 5 && (s'.heap.arr 0).getD 0 0 == 2 && (s'.heap.arr 0).getD 1 0 == 3 &&
      s'.heap.get ((s'.heap.arr 0).getD 2 0) == .nil none &&
      s'.heap.get ((s'.heap.arr 0).getD 3 0) == .nil none && (s'.heap.arr 0).getD 4 0 == c &&
      (F64.parse b!"7").map Val.num == some (s'.heap.get c) &&
      oldCellsSame exHeap s'.heap [] && s'.heap.obj 0 == exHeap.obj 0
    | _ => false) = true := by decide +kernel

/-- `$.new = 7`: the root object gains the member `new`; every old cell and the array are unchanged -/
example : (match evalExpr Program.empty 12 (assign (dot dollar b!"new") (numL b!"7")) exSt with
    | .ok c s' =>
      objLookup (s'.heap.obj 0) b!"new" == some c && objLookup (s'.heap.obj 0) b!"a" == some 1 &&
      objLookup (s'.heap.obj 0) b!"s" == some 4 && objLookup (s'.heap.obj 0) b!"u" == some 5 &&
      (F64.parse b!"7").map Val.num == some (s'.heap.get c) &&
      oldCellsSame exHeap s'.heap [] && s'.heap.arr 0 == exHeap.arr 0
    | _ => false) = true := by decide +kernel


/-! ### creating assignments through any number of missing levels -/

/-- Clause "assigning … changes exactly the addressed location — creating missing intermediate
    objects (for string keys) or arrays (for numeric indices) … — and leaves every other part of
    every value … unchanged", frame part, for ANY number of missing levels (`o.x.y.z = e`,
    `a[3][1].k = e`, `u.a[2] = e` with `u` unset; the recursive branch of
    `createSpeculativeObjects`).  The target evaluates to a stand-in cell `sc` whose chain of
    missing parents is `cs`, ending at the base cell `b` (`ChainV`; the stand-in may also be of
    the method kind, `o.length = 5`).  With read-only target and source: evaluating both changes
    nothing (`HeapPreserved s s2`), and the store leaves every cell that existed unchanged except
    `sc`, the stand-in cells `cs`, and `b` if it was unset; every array other than the one `b`
    holds and every object other than the one `b` holds keeps its contents. -/
theorem assign_chain_frame (prog : Program) (k : Bool) (n : Nat) (l r : Expr) (op : Token)
    (s s1 s2 : St) (sc rc b : CellId) (cs : List CellId)
    (hk : k = true → prog.FnsRO ∧ ObjsInRange s.heap)
    (hl : Expr.readOnly k l = true) (hr : Expr.readOnly k r = true) (hop : op.tag = .equal)
    (h1 : evalExpr prog n l s = .ok sc s1) (h2 : evalExpr prog n r s1 = .ok rc s2)
    (hc : ChainV s2.heap b (s2.heap.get sc) cs) :
    HeapPreserved s.heap s2.heap ∧
    SpecAfter s2.heap sc b cs (evalExpr prog (n + 2) (.binary l r op) s) :=
  ⟨readonly_pair_preserved prog k n l r s s1 s2 sc rc hk hl hr h1 h2,
   assign_chain_heapFrame prog n l r op s s1 s2 sc rc b cs hop h1 h2 hc⟩

/-- a store into a member or index of a scalar — `s[0] = x` on a string, `n.k = x` on a number —
    is the runtime error "cannot set member on a scalar" (at the target's position) and changes
    nothing at all -/
theorem assign_scalar_member_errors (prog : Program) (n : Nat) (l r : Expr) (op : Token)
    (s s1 s2 : St) (sc rc b : CellId) (key : Key) (hop : op.tag = .equal)
    (h1 : evalExpr prog n l s = .ok sc s1) (h2 : evalExpr prog n r s1 = .ok rc s2)
    (hsp : (s2.heap.get sc).spec? = some ⟨b, key⟩)
    (hb1 : ∀ a, s2.heap.get b ≠ .arr a) (hb2 : ∀ o, s2.heap.get b ≠ .obj o)
    (hb3 : s2.heap.get b ≠ .unknown) (hb4 : ∀ sp, s2.heap.get b ≠ .nil sp) :
    evalExpr prog (n + 2) (.binary l r op) s =
      Jqawk.throwRt l.token.pos "cannot set member on a scalar" s2 := by
  have e : evalExpr prog (n + 2) (.binary l r op) s = evalAssignment l.token.pos sc rc s2 := by
    unfold evalExpr
    dsimp only
    unfold evalBinary
    simp only [bind, EM.bind, h1, hop, h2]
  rw [e]
  exact evalAssignment_scalar_base _ _ _ _ _ _ hsp hb1 hb2 hb3 hb4

/-- `$.x.y.z` -/
def exDeep : Expr := dot (dot (dot dollar b!"x") b!"y") b!"z"

/-- `$.x.y.z = 7` on the example state: the target is the stand-in cell 11 for `z`, whose missing
    parents are the stand-ins 9 (`y`) and 7 (`x`), ending at the root cell 0 — the hypothesis
    `ChainV` of `assign_chain_frame` holds -/
example :
    let r1 := evalExpr Program.empty 10 exDeep exSt
    let r2 := evalExpr Program.empty 10 (numL b!"7") (resState r1)
    r1 = .ok 11 (resState r1) ∧ r2 = .ok 12 (resState r2) ∧
    ChainV (resState r2).heap 0 ((resState r2).heap.get 11) [9, 7] := by
  refine ⟨eq_ok_of_resVal (by decide +kernel), eq_ok_of_resVal (by decide +kernel), ?_⟩
  refine .step (key := .str b!"z") (sp := ⟨7, .str b!"y"⟩) (by decide +kernel) (by decide +kernel) ?_
  refine .step (key := .str b!"y") (sp := ⟨0, .str b!"x"⟩) (by decide +kernel) (by decide +kernel) ?_
  refine .base (key := .str b!"x") (by decide +kernel) (by decide +kernel) ?_ ?_
  · intro sp
    have e : (resState (evalExpr Program.empty 10 (numL b!"7")
        (resState (evalExpr Program.empty 10 exDeep exSt)))).heap.get 0 = .obj 0 := by decide +kernel
    rw [e]; simp
  · intro a ha
    have e : (resState (evalExpr Program.empty 10 (numL b!"7")
        (resState (evalExpr Program.empty 10 exDeep exSt)))).heap.get 0 = .obj 0 := by decide +kernel
    rw [e] at ha; cases ha

/-- … and its effect, including read-after-write: afterwards `$.x.y.z` reads 7, the old cells,
    the array and every old member of the root are as before -/
example :
    (match evalExpr Program.empty 14 (assign exDeep (numL b!"7")) exSt with
     | .ok _ s' =>
       (match evalExpr Program.empty 14 exDeep s' with
        | .ok c s'' => (F64.parse b!"7").map Val.num == some (s''.heap.get c)
        | _ => false) &&
       oldCellsSame exHeap s'.heap [] && s'.heap.arr 0 == exHeap.arr 0 &&
       objLookup (s'.heap.obj 0) b!"a" == some 1 && objLookup (s'.heap.obj 0) b!"s" == some 4 &&
       objLookup (s'.heap.obj 0) b!"u" == some 5
     | _ => false) = true := by decide +kernel

/-- `$.u.a[2] = 7` with `$.u` unset: `$.u` becomes `{"a": [null, null, 7]}`; read-after-write -/
example :
    (match evalExpr Program.empty 14 (assign (idx (dot (dot dollar b!"u") b!"a") (numL b!"2")) (numL b!"7")) exSt with
     | .ok _ s' =>
       (match evalExpr Program.empty 14 (idx (dot (dot dollar b!"u") b!"a") (numL b!"2")) s' with
        | .ok c s'' => (F64.parse b!"7").map Val.num == some (s''.heap.get c)
        | _ => false) &&
       (match evalExpr Program.empty 14 (mcall (dot (dot dollar b!"u") b!"a") b!"length" []) s' with
        | .ok c s'' => (F64.parse b!"3").map Val.num == some (s''.heap.get c)
        | _ => false) &&
       oldCellsSame exHeap s'.heap [5] && s'.heap.arr 0 == exHeap.arr 0 && s'.heap.obj 0 == exHeap.obj 0
     | _ => false) = true := by decide +kernel

/-- `$.s[0] = 7` on the string `$.s`: a runtime error, nothing changes -/
example : (match evalExpr Program.empty 14 (assign (idx (dot dollar b!"s") (numL b!"0")) (numL b!"7")) exSt with
    | .err (.runtime _ m) s' => m == "cannot set member on a scalar" && sameOld exHeap s'.heap
    | _ => false) = true := by decide +kernel

/-- `$.a.length = 5`: the stand-in is of the method kind; the store fails ("array indices must be
    numbers") and nothing changes; on the object `$` it sets an own key `length` -/
example :
    (match evalExpr Program.empty 14 (assign (dot (dot dollar b!"a") b!"length") (numL b!"5")) exSt with
     | .err (.runtime _ _) s' => sameOld exHeap s'.heap
     | _ => false) = true ∧
    (match evalExpr Program.empty 14 (assign (dot dollar b!"length") (numL b!"5")) exSt with
     | .ok c s' => objLookup (s'.heap.obj 0) b!"length" == some c &&
         (F64.parse b!"5").map Val.num == some (s'.heap.get c) && oldCellsSame exHeap s'.heap []
     | _ => false) = true := by decide +kernel


/-! ### read-after-write

  A *path* (`Expr.isPath`) is an identifier or `$` followed by literal member names (`.name`),
  literal string indices (`["name"]`) and literal non-negative number indices (`[2]`).  NOT a
  path: a negative index `a[-1]` (a unary minus applied to a literal; after padding an array a
  negative index denotes another element) and computed keys (`a[i]`, `o[k]`): not covered.

  `PathOK s` (Lemmas/ReadBack.lean) is the well-formedness of the start state the proof needs:
  cells refer to allocated arrays / objects; every array element, object member, variable binding
  and `$` is an allocated cell that is not a stand-in for a missing member.  It is decidable
  (all quantifiers bounded), see the examples; it cannot be dropped (`exStale` below). -/

/-- Clause "creating missing intermediate objects (for string keys) or arrays (for numeric
    indices), padding arrays with null up to a new index" — what `createSpeculativeObjects` has
    built when it succeeds, for ANY number of missing levels (`LinkRes`/`Linked`, by induction
    on the fuel along the chain `cs` of stand-in cells, base cell `b`): the cell `c` it returns is
    the member `key` of the value the parent cell holds now (`self`); every stand-in parent `z`
    of the chain (standing for the member `key'` of `p'`) now holds a fresh container, and the
    value `p'` holds now has a fresh member cell `np` under `key'` that refers to the same
    container (`chain`); `c` holds what the stand-in held (`val`); no member or element that
    existed has been replaced (`ext`); the base held a container or was unset and holds a
    container now (`base`, `baseCont`); besides: the frame (`SpecFrame`, as
    `createSpeculative_frame`) and nothing but the heap changes. -/
theorem createSpeculative_links (n : Nat) (sc : CellId) (s : St) (b : CellId) (cs : List CellId)
    (hc : ChainW s.heap b (s.heap.get sc) cs) : LinkRes s sc b cs (createSpeculative n sc s) :=
  createSpeculative_linked n sc s b cs hc

/-- the example state is well-formed in the sense of `PathOK` (decidable) -/
example : PathOK exSt := by decide +kernel

/-- the states of `$.x.y.z = 7` on the example state: after the target, after the source, after
    the store -/
def rbDeep1 : St := resState (evalExpr Program.empty 10 exDeep exSt)
def rbDeep2 : St := resState (evalExpr Program.empty 10 (numL b!"7") rbDeep1)
def rbDeep3 : St := resState (evalExpr Program.empty 12 (assign exDeep (numL b!"7")) exSt)

/-- `createSpeculative_links` applies to the store of `$.x.y.z = 7`: the stand-in cell 11 (`z`)
    with the chain of stand-ins 9 (`y`), 7 (`x`) below the root cell 0 (an object without the key
    `x`) — and the run does succeed, returning cell 11 -/
example : LinkRes rbDeep2 11 0 [9, 7] (createSpeculative 20 11 rbDeep2) ∧
    (match createSpeculative 20 11 rbDeep2 with | .ok (.ok c) _ => c == 11 | _ => false) = true := by
  refine ⟨createSpeculative_links 20 11 rbDeep2 0 [9, 7] ?_, by decide +kernel⟩
  refine .step (key := .str b!"z") (sp := ⟨7, .str b!"y"⟩) (by decide +kernel) (by decide +kernel) ?_
  refine .step (key := .str b!"y") (sp := ⟨0, .str b!"x"⟩) (by decide +kernel) (by decide +kernel) ?_
  have e : rbDeep2.heap.get 0 = .obj 0 := by decide +kernel
  refine .base (key := .str b!"x") (by decide +kernel) (by decide +kernel) ?_ ?_ ?_
  · intro sp; rw [e]; simp
  · intro a ha; rw [e] at ha; cases ha
  · intro o ho; rw [e] at ho; cases ho
    exact ⟨by decide +kernel, by decide +kernel⟩

/-- the shape of the statements below is no restriction: a successful assignment has evaluated
    its target to a cell and then its source to a cell -/
theorem assign_decomposes (prog : Program) (n : Nat) (l r : Expr) (op : Token) (s s' : St) (c : CellId)
    (hop : op.tag = .equal) (hev : evalExpr prog (n + 2) (.binary l r op) s = .ok c s') :
    ∃ lc s1 rc s2, evalExpr prog n l s = .ok lc s1 ∧ evalExpr prog n r s1 = .ok rc s2 :=
  assign_ok_decompose prog n l r op s s' c hop hev

example : ∃ lc s1 rc s2, evalExpr Program.empty 10 exDeep exSt = .ok lc s1 ∧
    evalExpr Program.empty 10 (numL b!"7") s1 = .ok rc s2 :=
  assign_decomposes Program.empty 10 exDeep (numL b!"7") (tk .equal b!"=") exSt rbDeep3 11 rfl
    (eq_ok_of_resVal (by decide +kernel))

/-- a path is read-only: the frame theorems above (`assign_existing_frame`, `assign_chain_frame`,
    …) apply to assignments to paths -/
theorem path_readOnly (k : Bool) (l : Expr) (hl : l.isPath = true) : Expr.readOnly k l = true :=
  isPath_readOnly k l hl

example : exDeep.isPath = true ∧ (idx (dot (dot dollar b!"u") b!"a") (numL b!"2")).isPath = true ∧
    (idx (dot dollar b!"a") (.unary (numL b!"1") (tk .minus b!"-") false)).isPath = false := by
  decide +kernel

/-- Clause "assigning to a variable, member, index or `$`-path changes exactly the addressed
    location — creating missing intermediate objects … or arrays …, padding arrays with null up
    to a new index": the positive part, READ-AFTER-WRITE, for paths of any depth and any mix of
    existing and missing levels.  `l` a path, `r` read-only (method calls allowed with
    `k = true` if the program's functions are read-only), the start state well-formed
    (`PathOK`), and `l = r` succeeded returning the cell `c` in the state `s'`
    (`h1`, `h2`: its decomposition, `assign_decomposes`).  Then evaluating `l` again in `s'` with
    the same fuel yields THE SAME CELL `c` and changes nothing (`HeapPreserved`, same bindings,
    same `$`); `c` never holds a method; and `c` holds the copy of the value `r` evaluated to
    — if the target existed, or that value is neither unset nor a stand-in, or `r`'s result
    cell was allocated by evaluating `r` (a literal, an operator, a read of a missing member);
    for the remaining case see `exSelf` below.
    Excluded (`hkind`): the target is a method name (`o.length = …`: sets an own key on an
    object, fails otherwise) or a character of a string (`s[0] = …`: always fails,
    `assign_scalar_member_errors`).
    Needed (`hna`): if the target cell exists already, it is not the cell of a proper prefix of
    the path (`pathCells`) — in a cyclic structure the statement is false, see `exCyc`. -/
theorem read_after_write (prog : Program) (k : Bool) (n : Nat) (l r : Expr) (op : Token)
    (s s1 s2 s' : St) (lc rc c : CellId)
    (hk : k = true → prog.FnsRO) (hl : l.isPath = true) (hr : Expr.readOnly k r = true)
    (hop : op.tag = .equal) (hok : PathOK s)
    (h1 : evalExpr prog n l s = .ok lc s1) (h2 : evalExpr prog n r s1 = .ok rc s2)
    (hev : evalExpr prog (n + 2) (.binary l r op) s = .ok c s')
    (hkind : (s2.heap.get lc).methodOrChar = false)
    (hna : (s2.heap.get lc).spec? = none → lc ∉ pathCells prog n l s) :
    ∃ s'', evalExpr prog n l s' = .ok c s'' ∧ HeapPreserved s'.heap s''.heap ∧
      s''.frames = s'.frames ∧ s''.ruleRoot = s'.ruleRoot ∧
      (∀ f b sp, s'.heap.get c ≠ .native f b sp) ∧
      (((s2.heap.get lc).spec? = none ∨
          (s2.heap.get rc ≠ .unknown ∧ ∀ sp, s2.heap.get rc ≠ .nil (some sp)) ∨
          (s1.heap.cells.size ≤ rc ∧ rc < s2.heap.cells.size)) →
        copyVal (s2.heap.get rc) = .ok (s'.heap.get c)) :=
  assign_path_readback prog k n l r op s s1 s2 s' lc rc c hk hl hr hop hok h1 h2 hev
    (methodOrChar_false hkind) hna

/-- `$.u.a[2] = $.s` on the example state (`$.u` unset: it becomes `{"a": [null, null, "hi"]}`):
    all hypotheses of `read_after_write` hold — target cell 10 is a stand-in, its source cell 4
    holds a string — hence `$.u.a[2]` evaluates to the returned cell 15 again, which holds the
    copy of `"hi"` -/
def rbArrL : Expr := idx (dot (dot dollar b!"u") b!"a") (numL b!"2")
def rbArr1 : St := resState (evalExpr Program.empty 10 rbArrL exSt)
def rbArr2 : St := resState (evalExpr Program.empty 10 (dot dollar b!"s") rbArr1)
def rbArr3 : St := resState (evalExpr Program.empty 12 (assign rbArrL (dot dollar b!"s")) exSt)

example : ∃ s'', evalExpr Program.empty 10 rbArrL rbArr3 = .ok 15 s'' ∧ HeapPreserved rbArr3.heap s''.heap ∧
    rbArr3.heap.get 15 = .str b!"hi" none := by
  obtain ⟨s'', e1, e2, _, _, _, e3⟩ := read_after_write Program.empty false 10 rbArrL (dot dollar b!"s")
    (tk .equal b!"=") exSt rbArr1 rbArr2 rbArr3 10 4 15 (fun h => by cases h) (by decide +kernel)
    (by decide +kernel) rfl (by decide +kernel) (eq_ok_of_resVal (by decide +kernel))
    (eq_ok_of_resVal (by decide +kernel)) (eq_ok_of_resVal (by decide +kernel)) (by decide +kernel)
    (by decide +kernel)
  have hv : rbArr2.heap.get 4 = .str b!"hi" none := by decide +kernel
  have := e3 (.inr (.inl ⟨by rw [hv]; simp, by rw [hv]; simp⟩))
  rw [hv] at this
  simp only [copyVal, Except.ok.injEq] at this
  exact ⟨s'', e1, e2, this.symm⟩

/-- read-after-write when the target is MISSING (the path evaluates to a stand-in for a missing
    member, any number of missing levels below an existing one or an unset one): no aliasing
    hypothesis is needed — `o.x.y.z = e`, `a[7] = e`, `u.a[2] = e`. -/
theorem read_after_write_created (prog : Program) (k : Bool) (n : Nat) (l r : Expr) (op : Token)
    (s s1 s2 s' : St) (lc rc c : CellId) (sp : SpecRef)
    (hk : k = true → prog.FnsRO) (hl : l.isPath = true) (hr : Expr.readOnly k r = true)
    (hop : op.tag = .equal) (hok : PathOK s)
    (h1 : evalExpr prog n l s = .ok lc s1) (h2 : evalExpr prog n r s1 = .ok rc s2)
    (hev : evalExpr prog (n + 2) (.binary l r op) s = .ok c s')
    (hsp : s2.heap.get lc = .nil (some sp)) :
    ∃ s'', evalExpr prog n l s' = .ok c s'' ∧ HeapPreserved s'.heap s''.heap ∧
      (((s2.heap.get rc ≠ .unknown ∧ ∀ sp, s2.heap.get rc ≠ .nil (some sp)) ∨
          (s1.heap.cells.size ≤ rc ∧ rc < s2.heap.cells.size)) →
        copyVal (s2.heap.get rc) = .ok (s'.heap.get c)) := by
  obtain ⟨s'', e1, e2, _, _, _, e3⟩ := read_after_write prog k n l r op s s1 s2 s' lc rc c hk hl hr hop hok
    h1 h2 hev (by rw [hsp]; rfl) (by rw [hsp]; intro e; cases e)
  exact ⟨s'', e1, e2, fun h => e3 (.inr h)⟩

/-- `$.x.y.z = 7` on the example state (three missing levels): `$.x.y.z` evaluates to the returned
    cell 11 again, which holds the copy of the value of the literal (cell 12, allocated by the
    evaluation of the source) -/
example : ∃ s'', evalExpr Program.empty 10 exDeep rbDeep3 = .ok 11 s'' ∧
    HeapPreserved rbDeep3.heap s''.heap ∧ copyVal (rbDeep2.heap.get 12) = .ok (rbDeep3.heap.get 11) := by
  obtain ⟨s'', e1, e2, e3⟩ := read_after_write_created Program.empty false 10 exDeep (numL b!"7")
    (tk .equal b!"=") exSt rbDeep1 rbDeep2 rbDeep3 11 12 11 ⟨9, .str b!"z"⟩ (fun h => by cases h)
    (by decide +kernel) (by decide +kernel) rfl (by decide +kernel) (eq_ok_of_resVal (by decide +kernel))
    (eq_ok_of_resVal (by decide +kernel)) (eq_ok_of_resVal (by decide +kernel)) (by decide +kernel)
  exact ⟨s'', e1, e2, e3 (.inr (by decide +kernel))⟩

/-- with a method call on the right (`k = true`; the empty program has no functions):
    `$.x.y = $.s.upper()` — two missing levels; `$.x.y` evaluates to the returned cell 9 again -/
def rbCallL : Expr := dot (dot dollar b!"x") b!"y"
def rbCallR : Expr := mcall (dot dollar b!"s") b!"upper" []
def rbCall1 : St := resState (evalExpr Program.empty 10 rbCallL exSt)
def rbCall2 : St := resState (evalExpr Program.empty 10 rbCallR rbCall1)
def rbCall3 : St := resState (evalExpr Program.empty 12 (assign rbCallL rbCallR) exSt)

example : ∃ s'', evalExpr Program.empty 10 rbCallL rbCall3 = .ok 9 s'' ∧
    HeapPreserved rbCall3.heap s''.heap ∧ rbCall3.heap.get 9 = .str b!"HI" none := by
  obtain ⟨s'', e1, e2, e3⟩ := read_after_write_created Program.empty true 10 rbCallL rbCallR
    (tk .equal b!"=") exSt rbCall1 rbCall2 rbCall3 9 13 9 ⟨7, .str b!"y"⟩
    (fun _ f hf => by simp [Program.empty] at hf)
    (by decide +kernel) (by decide +kernel) rfl (by decide +kernel) (eq_ok_of_resVal (by decide +kernel))
    (eq_ok_of_resVal (by decide +kernel)) (eq_ok_of_resVal (by decide +kernel)) (by decide +kernel)
  exact ⟨s'', e1, e2, by decide +kernel⟩

/-- read-after-write when the target EXISTS (every level of the path is there): `c` is the cell
    the path evaluated to, and it holds the copy of the value of `r` — provided the target cell is
    not also the cell of a proper prefix of the path. -/
theorem read_after_write_existing (prog : Program) (k : Bool) (n : Nat) (l r : Expr) (op : Token)
    (s s1 s2 s' : St) (lc rc c : CellId)
    (hk : k = true → prog.FnsRO) (hl : l.isPath = true) (hr : Expr.readOnly k r = true)
    (hop : op.tag = .equal) (hok : PathOK s)
    (h1 : evalExpr prog n l s = .ok lc s1) (h2 : evalExpr prog n r s1 = .ok rc s2)
    (hev : evalExpr prog (n + 2) (.binary l r op) s = .ok c s')
    (hsn : (s2.heap.get lc).spec? = none) (hna : lc ∉ pathCells prog n l s) :
    c = lc ∧ ∃ s'', evalExpr prog n l s' = .ok lc s'' ∧ HeapPreserved s'.heap s''.heap ∧
      copyVal (s2.heap.get rc) = .ok (s'.heap.get lc) := by
  have hmc : (s2.heap.get lc).methodOrChar = false := by
    cases hv : s2.heap.get lc <;> rw [hv] at hsn <;> simp only [Val.spec?] at hsn <;>
      first | rfl | (subst hsn; rfl)
  obtain ⟨s'', e1, e2, _, _, _, e3⟩ := read_after_write prog k n l r op s s1 s2 s' lc rc c hk hl hr hop hok
    h1 h2 hev hmc (fun _ => hna)
  have hc : c = lc := by
    have e := assign_existing_eq prog n l r op s s1 s2 lc rc hop h1 h2 (spec_none_speculative hsn)
    rw [e] at hev
    cases hw : copyVal (s2.heap.get rc) with
    | error m => rw [hw] at hev; simp [Jqawk.throwRt] at hev
    | ok w => rw [hw] at hev; simp only [Res.ok.injEq] at hev; exact hev.1.symm
  subst hc
  exact ⟨rfl, s'', e1, e2, e3 (.inl hsn)⟩

/-- `$.a[0] = $.s` on the example state: the target exists (cell 2), it is not the cell of `$`
    (cell 0) or `$.a` (cell 1); afterwards `$.a[0]` is cell 2 again and holds the copy of `"hi"` -/
def rbExL : Expr := idx (dot dollar b!"a") (numL b!"0")
def rbEx1 : St := resState (evalExpr Program.empty 10 rbExL exSt)
def rbEx2 : St := resState (evalExpr Program.empty 10 (dot dollar b!"s") rbEx1)
def rbEx3 : St := resState (evalExpr Program.empty 12 (assign rbExL (dot dollar b!"s")) exSt)

example : ∃ s'', evalExpr Program.empty 10 rbExL rbEx3 = .ok 2 s'' ∧ HeapPreserved rbEx3.heap s''.heap ∧
    copyVal (rbEx2.heap.get 4) = .ok (rbEx3.heap.get 2) ∧ pathCells Program.empty 10 rbExL exSt = [1, 0] := by
  obtain ⟨_, s'', e1, e2, e3⟩ := read_after_write_existing Program.empty false 10 rbExL (dot dollar b!"s")
    (tk .equal b!"=") exSt rbEx1 rbEx2 rbEx3 2 4 2 (fun h => by cases h) (by decide +kernel)
    (by decide +kernel) rfl (by decide +kernel) (eq_ok_of_resVal (by decide +kernel))
    (eq_ok_of_resVal (by decide +kernel)) (eq_ok_of_resVal (by decide +kernel)) (by decide +kernel)
    (by decide +kernel)
  exact ⟨s'', e1, e2, e3, by decide +kernel⟩

/-- read-after-write for a variable or `$`: after `x = e` succeeded, `x` evaluates to the cell
    the assignment returned, and that cell holds the copy of the value of `e` — no side
    conditions beyond the well-formed start state. -/
theorem read_after_write_var (prog : Program) (k : Bool) (n : Nat) (t : Token) (r : Expr) (op : Token)
    (s s' : St) (c : CellId)
    (hk : k = true → prog.FnsRO) (hr : Expr.readOnly k r = true) (hop : op.tag = .equal) (hok : PathOK s)
    (hev : evalExpr prog (n + 2) (.binary (.ident t) r op) s = .ok c s') :
    ∃ s1 rc s2 s'', evalExpr prog n (.ident t) s = .ok c s1 ∧ evalExpr prog n r s1 = .ok rc s2 ∧
      evalExpr prog n (.ident t) s' = .ok c s'' ∧ HeapPreserved s'.heap s''.heap ∧
      copyVal (s2.heap.get rc) = .ok (s'.heap.get c) := by
  obtain ⟨lc, s1, rc, s2, h1, h2⟩ := assign_ok_decompose prog n (.ident t) r op s s' c hop hev
  obtain ⟨_, _, pa1, _⟩ := evalPath_trace prog none n (.ident t) s lc s1 rfl h1 hok (fun _ h => by cases h)
  have hfine : CellFine s1.heap lc := by
    cases pa1 with
    | dollar _ _ hq => exact hq
    | var _ _ hq => exact hq
  have q2 := (allRO prog k hk n).expr true r hr s1
  rw [h2] at q2
  have ok1 : PathOK s1 := (evalPath_trace prog none n (.ident t) s lc s1 rfl h1 hok (fun _ h => by cases h)).2.1
  obtain ⟨rel2, _⟩ := q2 (fun _ => ok1.objsInRange)
  have hsn : (s2.heap.get lc).spec? = none := by rw [rel2.heap.get lc hfine.1]; exact hfine.2
  have hna : lc ∉ pathCells prog n (.ident t) s := by
    cases n with
    | zero => simp [pathCells]
    | succ n => cases n <;> simp [pathCells]
  obtain ⟨rfl, s'', e1, e2, e3⟩ := read_after_write_existing prog k n (.ident t) r op s s1 s2 s' lc rc c hk rfl
    hr hop hok h1 h2 hev hsn hna
  exact ⟨s1, rc, s2, s'', h1, h2, e1, e2, e3⟩

/-- `x = $.a` for a new variable `x` on the example state: `x` is bound to a fresh cell (6), which
    afterwards holds the (shared) array of `$.a` -/
def rbVarE : Expr := assign (.ident (tk .ident b!"x")) (dot dollar b!"a")
def rbVar3 : St := resState (evalExpr Program.empty 12 rbVarE exSt)

example : ∃ s1 rc s2 s'', evalExpr Program.empty 10 (.ident (tk .ident b!"x")) exSt = .ok 6 s1 ∧
    evalExpr Program.empty 10 (dot dollar b!"a") s1 = .ok rc s2 ∧
    evalExpr Program.empty 10 (.ident (tk .ident b!"x")) rbVar3 = .ok 6 s'' ∧
    HeapPreserved rbVar3.heap s''.heap ∧ copyVal (s2.heap.get rc) = .ok (rbVar3.heap.get 6) :=
  read_after_write_var Program.empty false 10 (tk .ident b!"x") (dot dollar b!"a") (tk .equal b!"=") exSt
    rbVar3 6 (fun h => by cases h) (by decide +kernel) rfl (by decide +kernel)
    (eq_ok_of_resVal (by decide +kernel))

/-! #### what the hypotheses exclude, and why -/

/-- `$ = {"self": <the same object>}`: cell 0 (`$`) and cell 1 (its member `self`) hold the same
    object -/
def exCycHeap : Heap := ⟨#[.obj 0, .obj 0], #[], #[[(b!"self", 1)]]⟩
def exCycSt : St := { exSt with heap := exCycHeap }
def exCyc : Expr := dot (dot dollar b!"self") b!"self"

/-- `hna` is needed: in the cyclic structure, `$.self.self = 5` overwrites cell 1, which is also the
    cell of the prefix `$.self`; afterwards `$.self` is the number 5 and `$.self.self` a missing
    member of a number — the path no longer leads to the cell that was written.  (Every language
    with references behaves like this; the state is well-formed, all other hypotheses hold.) -/
example : PathOK exCycSt ∧ pathCells Program.empty 10 exCyc exCycSt = [1, 0] ∧
    (match evalExpr Program.empty 12 (assign exCyc (numL b!"5")) exCycSt with
     | .ok c s' =>
       c == 1 && (match evalExpr Program.empty 10 exCyc s' with
         | .ok c' s'' => c' != c && s''.heap.get c' == .nil (some ⟨1, .str b!"self"⟩)
         | _ => false)
     | _ => false) = true := by decide +kernel

/-- a state that is NOT `PathOK`: the member `y` of `$.m` (cell 2) holds a stale stand-in that claims
    to stand for the member `m` of `$` -/
def exStaleHeap : Heap :=
  ⟨#[.obj 0, .obj 1, .nil (some ⟨0, .str b!"m"⟩)], #[], #[[(b!"m", 1)], [(b!"y", 2)]]⟩
def exStaleSt : St := { exSt with heap := exStaleHeap }
def exStale : Expr := dot (dot (dot dollar b!"m") b!"y") b!"k"

/-- `PathOK` is needed (for arbitrary states): `$.m.y.k = 5` treats the stale stand-in as a missing
    parent, creates "the missing member `m` of `$`" — replacing the existing `$.m` by a fresh
    object that has no `y` — and the written cell (6) is not where `$.m.y.k` leads afterwards.
    (No run of the interpreter stores a stand-in as a member without overwriting it, except when
    the store then fails with "cannot copy a function".) -/
example : ¬ PathOK exStaleSt ∧
    (match evalExpr Program.empty 12 (assign exStale (numL b!"5")) exStaleSt with
     | .ok c s' =>
       (match evalExpr Program.empty 10 exStale s' with
        | .ok c' _ => c == 6 && c' != c
        | _ => false)
     | _ => false) = true := by decide +kernel

/-- `u.k = u` for an unset variable `u` — the case the value clause of `read_after_write` leaves
    out (the source cell is the unset base of the target): the store first turns `u` into a fresh
    object and only then copies the value of `u`, so `u.k` is `u` itself (a cyclic object), not
    the unset value the source had when it was evaluated.  Read-after-write holds all the same.
    (The model follows the Go code: `evalAssignment` creates the target, then `copyValue` reads
    the source cell.) -/
def exSelf : Expr := assign (dot (.ident (tk .ident b!"u")) b!"k") (.ident (tk .ident b!"u"))

example :
    (match evalExpr Program.empty 12 exSelf exSt with
     | .ok c s' =>
       (match evalExpr Program.empty 10 (.ident (tk .ident b!"u")) s' with
        | .ok u _ => s'.heap.get u == .obj 1 && s'.heap.get c == .obj 1 &&
            objLookup (s'.heap.obj 1) b!"k" == some c
        | _ => false) &&
       (match evalExpr Program.empty 10 (dot (.ident (tk .ident b!"u")) b!"k") s' with
        | .ok c' _ => c' == c
        | _ => false)
     | _ => false) = true := by decide +kernel

/-- excluded by `hkind` but true on this instance: `$.length = 5` sets an own key `length` on the
    object, and `$.length` then reads that cell -/
example :
    (match evalExpr Program.empty 12 (assign (dot dollar b!"length") (numL b!"5")) exSt with
     | .ok c s' =>
       (match evalExpr Program.empty 10 (dot dollar b!"length") s' with
        | .ok c' _ => c' == c
        | _ => false)
     | _ => false) = true := by decide +kernel



/-! ### copy on argument passing and insertion, sharing of arrays and objects

  Clause: "Scalars are copied on assignment, argument passing and insertion into containers,
  whereas arrays and objects are shared, so a mutation made through one reference is visible
  through every other reference."  (Assignment itself: `copyVal_spec`, `copyValue_local`,
  `assign_existing_frame` above.)  Proofs of the inductions are in Lemmas/CopyShare.lean. -/

/-! #### argument passing -/

/-- Clause "scalars are copied on … argument passing", the callee side: `bindParams` (what a call
    does after pushing the new frame) from ANY state with a frame succeeds, and: the heap only
    grows, by one cell per parameter (`HeapPreserved`: every old cell, array and object is as it
    was); the parameter at position `j` is bound — found by the dynamic lookup, in the innermost
    frame — to the `j`-th new cell, which is fresh (`size ≤ c < size'`) and holds the `j`-th
    argument value, or null when there are fewer arguments.  For a name that occurs several times
    in the parameter list the LAST occurrence wins (`hlast`; see `params_bound_fresh_nodup` for
    lists without repetition). -/
theorem params_bound_fresh (ps : List Bytes) (args : List Val) (s : St) (hf : s.frames ≠ []) :
    ∃ s', bindParams ps args s = .ok () s' ∧ HeapPreserved s.heap s'.heap ∧
      s'.heap.cells.size = s.heap.cells.size + ps.length ∧
      s'.frames.tail = s.frames.tail ∧
      ∀ j p, ps[j]? = some p → (∀ j', j < j' → ps[j']? ≠ some p) →
        ∃ c, lookupFrames s'.frames p = some c ∧ c = s.heap.cells.size + j ∧
          s.heap.cells.size ≤ c ∧ c < s'.heap.cells.size ∧
          s'.heap.get c = args.getD j (.nil none) := by
  cases hfr : s.frames with
  | nil => exact absurd hfr hf
  | cons f fs =>
    obtain ⟨s', f', h1, h2, h3, _, _, h6, h7, _, _, h10, _⟩ := bindParams_spec ps args s f fs hfr
    refine ⟨s', h1, h2, h3, by rw [h7]; rfl, ?_⟩
    intro j p hj hlast
    have hjlt : j < ps.length := by
      apply Classical.byContradiction
      intro hn
      rw [List.getElem?_eq_none (Nat.le_of_not_lt hn)] at hj
      cases hj
    refine ⟨s.heap.cells.size + j, ?_, rfl, Nat.le_add_right _ _, ?_, h6 j hjlt⟩
    · rw [h7]
      simp only [lookupFrames, h10 j p hj hlast]
    · rw [h3]; exact Nat.add_lt_add_left hjlt _

/-- the same for a parameter list without repeated names: position `j` ↦ `j`-th fresh cell -/
theorem params_bound_fresh_nodup (ps : List Bytes) (args : List Val) (s : St) (hf : s.frames ≠ [])
    (hnd : ps.Nodup) :
    ∃ s', bindParams ps args s = .ok () s' ∧ HeapPreserved s.heap s'.heap ∧
      ∀ j p, ps[j]? = some p →
        ∃ c, lookupFrames s'.frames p = some c ∧ s.heap.cells.size ≤ c ∧ c < s'.heap.cells.size ∧
          s'.heap.get c = args.getD j (.nil none) := by
  obtain ⟨s', h1, h2, _, _, h5⟩ := params_bound_fresh ps args s hf
  refine ⟨s', h1, h2, ?_⟩
  intro j p hj
  have hjlt : j < ps.length := by
    apply Classical.byContradiction
    intro hn
    rw [List.getElem?_eq_none (Nat.le_of_not_lt hn)] at hj
    cases hj
  obtain ⟨c, a, _, b, d, e⟩ := h5 j p hj (fun j' hlt hj' => by
    have := (List.getElem?_inj hjlt hnd).mp (hj.trans hj'.symm)
    exact absurd this (Nat.ne_of_lt hlt))
  exact ⟨c, a, b, d, e⟩

/-- non-vacuity and the role of `hlast`: `function f(x, y, x)` called with `(1, "hi", [1,2])`
    in a fresh frame on the example heap: `y` ↦ cell 7 holding `"hi"`, `x` ↦ cell 8 (the LAST
    `x`), holding the array; cells 0…5 are as before -/
example :
    let s0 : St := { exSt with frames := ⟨b!"f", []⟩ :: exSt.frames }
    let r := bindParams [b!"x", b!"y", b!"x"] [exHeap.get 2, exHeap.get 4, exHeap.get 1] s0
    resVal? r = some () ∧ lookupFrames (resState r).frames b!"x" = some 8 ∧
    lookupFrames (resState r).frames b!"y" = some 7 ∧ (resState r).heap.get 8 = .arr 0 ∧
    (resState r).heap.get 7 = .str b!"hi" none ∧ sameOld exHeap (resState r).heap = true := by
  decide +kernel

/-- `evalExpr (.call f args)`: the callee, then the arguments by `evalExprList … true` (each
    value copied into a fresh cell, `call_args_are_copies`), then `callFunction` -/
theorem call_unfold (prog : Program) (n : Nat) (f : Expr) (args : List Expr) :
    evalExpr prog (n + 1) (.call f args) = (do
      let fnCell ← evalExpr prog n f
      let argCells ← evalExprList prog n args true
      callFunction prog n f.token.pos fnCell argCells) := by
  rw [evalExpr]

/-- … and `callFunction` on a user function: a frame is pushed, the parameters are bound by
    `bindParams` to the VALUES of the argument cells (`params_bound_fresh`: in fresh cells), the
    body runs, the saved frames are restored -/
theorem call_user_function_unfold (prog : Program) (n pos : Nat) (fc : CellId) (argCells : List CellId)
    (s : St) (i : Nat) (f : FuncDef) (hv : s.heap.get fc = .fn i) (hf : prog.functions[i]? = some f)
    (hd : ¬ s.frames.length > callDepthLimit) :
    callFunction prog (n + 1) pos fc argCells s =
      withFrames s.frames (do
          bindParams f.args (argCells.map s.heap.get)
          let rv ← catchReturn (evalStmt prog n f.body)
          newCell rv)
        { s with frames := ⟨f.ident.text, []⟩ :: s.frames,
                 maxDepth := max s.maxDepth (s.frames.length + 1) } := by
  unfold callFunction
  simp only [bind, EM.bind, readCell, getHeap, hv, hf, getSt, pushFrame, hd, ↓reduceIte]

/-- Clause "scalars are copied on … argument passing", the caller side: the argument list of a
    call (`evalExprList … true`) with read-only argument expressions — `k = false`: no calls
    inside the arguments, any program; `k = true`: method calls with literal non-mutating names
    under the hypotheses of `readonly_methods` — changes no existing cell, array or object, and
    yields one cell per argument, pairwise distinct, each of them allocated during this
    evaluation (`size ≤ c < size'`: no variable, member or element can be that cell) and holding
    a copy (`FreshCopy`: `copyVal` of some value — by `copyVal_spec` a scalar in a fresh payload
    that remembers no parent, or the SAME array/object id), hence not a stand-in for a missing
    member. -/
theorem call_args_are_copies (prog : Program) (k : Bool) (n : Nat) (es : List Expr) (s s' : St)
    (cs : List CellId) (hk : k = true → prog.FnsRO ∧ ObjsInRange s.heap) (hro : roEs k es = true)
    (h : evalExprList prog n es true s = .ok cs s') :
    HeapPreserved s.heap s'.heap ∧ cs.length = es.length ∧ cs.Pairwise (fun a b => a < b) ∧
    ∀ c, c ∈ cs → FreshCopy s.heap s'.heap c ∧ (s'.heap.get c).speculative = false := by
  obtain ⟨p, _, hl, hfc, hpw⟩ :=
    evalExprList_copy_fresh prog k (fun e => (hk e).1) es n s s' cs hro (fun e => (hk e).2) h
  exact ⟨p, hl, hpw, fun c hc => ⟨hfc c hc, (hfc c hc).not_speculative⟩⟩

/-- value-precise form (no hypothesis on the expressions): the first argument cell is the next
    free cell after evaluating the first argument expression, and it receives `copyVal` of the
    value held by that expression's result cell `v`; the remaining arguments are evaluated
    afterwards.  (The value is read after the new cell was allocated with the placeholder `""`;
    for an allocated `v` — the only case that occurs — that is `s1.heap.get v`,
    `Heap.get_alloc_old`.) -/
theorem call_arg_copied_from_result (prog : Program) (n : Nat) (e : Expr) (rest : List Expr) (s s' : St)
    (cs : List CellId) (h : evalExprList prog (n + 1) (e :: rest) true s = .ok cs s') :
    ∃ v s1 w cs', evalExpr prog n e s = .ok v s1 ∧
      copyVal ((s1.heap.alloc (.str [] none)).2.get v) = .ok w ∧
      cs = s1.heap.cells.size :: cs' ∧
      evalExprList prog n rest true (copiedSt s1 (.str [] none) w) = .ok cs' s' :=
  evalExprList_copy_cons prog n e rest s s' cs h

/-- the arguments `($.a[0], $.a, $.s.upper())`: three fresh cells 8, 10, 15 (old heap: 0…5); the
    first holds the number again, the second the SAME array id, the third a string -/
example :
    let es := [idx (dot dollar b!"a") (numL b!"0"), dot dollar b!"a", mcall (dot dollar b!"s") b!"upper" []]
    let r := evalExprList Program.empty 12 es true exSt
    roEs true es = true ∧ resVal? r = some [8, 10, 15] ∧
    (resState r).heap.get 8 = exHeap.get 2 ∧ (resState r).heap.get 10 = .arr 0 ∧
    (resState r).heap.get 15 = .str b!"HI" none ∧ sameOld exHeap (resState r).heap = true := by
  decide +kernel

/-- Consequence for the caller: an assignment `x = r` to a variable whose cell `c` was allocated
    after some earlier state `s0` (`s0.heap.cells.size ≤ c` — e.g. a parameter cell,
    `params_bound_fresh`; `s0` = the state at the call) leaves everything that existed in `s0`
    unchanged: every cell, array and object of `s0` (`HeapPreserved s0.heap …`).  `r` is
    read-only as in `assign_var_frame`. -/
theorem fresh_cell_assign_preserves (prog : Program) (k : Bool) (n : Nat) (t : Token) (r : Expr)
    (op : Token) (s0 s s2 : St) (c rc : CellId)
    (hp : HeapPreserved s0.heap s.heap) (hfresh : s0.heap.cells.size ≤ c)
    (hk : k = true → prog.FnsRO ∧ ObjsInRange s.heap)
    (hr : Expr.readOnly k r = true) (hop : op.tag = .equal)
    (ht : (t.tag == Tag.dollar) = false) (hb : lookupFrames s.frames t.text = some c)
    (hc : c < s.heap.cells.size) (hns : (s.heap.get c).speculative = false)
    (h2 : evalExpr prog (n + 1) r s = .ok rc s2) :
    match copyVal (s2.heap.get rc) with
    | .ok w =>
      evalExpr prog (n + 3) (.binary (.ident t) r op) s = .ok c { s2 with heap := s2.heap.set c w } ∧
      HeapPreserved s0.heap (s2.heap.set c w) ∧ (s2.heap.set c w).get c = w
    | .error m =>
      evalExpr prog (n + 3) (.binary (.ident t) r op) s = Jqawk.throwRt t.pos m s2 ∧
      HeapPreserved s0.heap s2.heap := by
  have h := assign_var_frame prog k n t r op s s2 c rc hk hr hop ht hb hc hns h2
  have q2 := (allRO prog k (fun e => (hk e).1) (n + 1)).expr true r hr s
  rw [h2] at q2
  obtain ⟨r2, _⟩ := q2 (fun e => (hk e).2)
  cases hcv : copyVal (s2.heap.get rc) with
  | ok w =>
    rw [hcv] at h
    exact ⟨h.1, HeapPreservedExcept.of_fresh hp h.2.1 hfresh, h.2.2⟩
  | error m =>
    rw [hcv] at h
    exact ⟨h, hp.trans r2.heap⟩

/-- Clause "scalars are copied on … argument passing", consequence: inside a call, an assignment
    to a parameter — `s0` the state after the frame was pushed, `s` the state after `bindParams`,
    the parameter at position `j` (last occurrence of its name), its argument value not a stand-in
    for a missing member (true for every value passed by a call expression,
    `call_args_are_copies`) — writes the parameter's own fresh cell `c` and leaves every cell,
    array and object of the caller (`s0`) unchanged.  So a callee cannot change a caller's scalar
    through a parameter; it can change a caller's array or object only by a member store or a
    mutating method through the shared id (`array_store_visible`, `object_store_visible`). -/
theorem param_assign_preserves_caller (prog : Program) (k : Bool) (n : Nat) (ps : List Bytes)
    (args : List Val) (s0 s s2 : St) (j : Nat) (t : Token) (r : Expr) (op : Token) (rc : CellId)
    (hf : s0.frames ≠ []) (hbind : bindParams ps args s0 = .ok () s)
    (hj : ps[j]? = some t.text) (hlast : ∀ j', j < j' → ps[j']? ≠ some t.text)
    (harg : (args.getD j (.nil none)).speculative = false)
    (hk : k = true → prog.FnsRO ∧ ObjsInRange s.heap)
    (hr : Expr.readOnly k r = true) (hop : op.tag = .equal) (ht : (t.tag == Tag.dollar) = false)
    (h2 : evalExpr prog (n + 1) r s = .ok rc s2) :
    match copyVal (s2.heap.get rc) with
    | .ok w =>
      evalExpr prog (n + 3) (.binary (.ident t) r op) s =
        .ok (s0.heap.cells.size + j) { s2 with heap := s2.heap.set (s0.heap.cells.size + j) w } ∧
      HeapPreserved s0.heap (s2.heap.set (s0.heap.cells.size + j) w) ∧
      (s2.heap.set (s0.heap.cells.size + j) w).get (s0.heap.cells.size + j) = w
    | .error m =>
      evalExpr prog (n + 3) (.binary (.ident t) r op) s = Jqawk.throwRt t.pos m s2 ∧
      HeapPreserved s0.heap s2.heap := by
  obtain ⟨s', h1, hp, _, _, h5⟩ := params_bound_fresh ps args s0 hf
  rw [hbind] at h1
  simp only [Res.ok.injEq, true_and] at h1
  subst h1
  obtain ⟨c, hl, rfl, hge, hlt, hval⟩ := h5 j t.text hj hlast
  exact fresh_cell_assign_preserves prog k n t r op s0 s s2 _ rc hp hge hk hr hop ht hl hlt
    (by rw [hval]; exact harg) h2

/-- `function f(x) { x = 7 }` entered with the argument value `[1,2]` (the array of `$.a`) on the
    example heap: all hypotheses of `param_assign_preserves_caller` hold (`j = 0`), and indeed
    the parameter cell 6 receives 7 while `$.a` (cell 1) still holds the array -/
example :
    let s0 : St := { exSt with frames := ⟨b!"f", []⟩ :: exSt.frames }
    let rb := bindParams [b!"x"] [exHeap.get 1] s0
    let r2 := evalExpr Program.empty 5 (numL b!"7") (resState rb)
    let r3 := evalExpr Program.empty 7 (assign (.ident (tk .ident b!"x")) (numL b!"7")) (resState rb)
    rb = .ok () (resState rb) ∧ ([exHeap.get 1].getD 0 (.nil none)).speculative = false ∧
    r2 = .ok 7 (resState r2) ∧
    resVal? r3 = some 6 ∧ (resState rb).heap.get 6 = .arr 0 ∧
    (F64.parse b!"7").map Val.num = some ((resState r3).heap.get 6) ∧
    (resState r3).heap.get 1 = .arr 0 ∧ sameOld exHeap (resState r3).heap = true := by
  refine ⟨eq_ok_of_resVal (by decide +kernel), by decide +kernel, eq_ok_of_resVal (by decide +kernel),
    by decide +kernel, by decide +kernel, by decide +kernel, by decide +kernel, by decide +kernel⟩

/-- Clause "scalars are copied on … argument passing", the syntactic class: a user function whose
    body is read-only WITHOUT calls except for assignments `p = e` whose target is a bare
    identifier naming one of its own parameters (`Stmt.roP f.args`: such assignments may appear
    as statements, in operands, array items, conditions, and on the right of such assignments;
    object literals and `match` bodies must be plainly read-only — a pattern may rebind a
    parameter name to the matched cell — and `for … in` is excluded) cannot change anything of
    its caller: whichever way the call ends, every cell, array and object that existed at the
    call is unchanged, and so are all variable bindings and the roots (`Unchanged`).  `hargs`:
    the argument cells do not hold stand-ins for missing members — true for every argument list
    built by a call expression (`call_args_are_copies`).  Proved by a second mutual induction
    over the evaluator (Lemmas/CopyShare.lean, `allP`) with the frame invariant "every parameter
    is bound to a cell allocated after the call" (`PInv`).  NOT covered: bodies with calls
    (also method calls such as `x.length()`), `++`/`--` on parameters. -/
theorem call_param_only_function (prog : Program) (n pos : Nat) (fc : CellId) (argCells : List CellId)
    (s : St) (i : Nat) (f : FuncDef) (hv : s.heap.get fc = .fn i) (hf : prog.functions[i]? = some f)
    (hbody : Stmt.roP f.args f.body = true)
    (hargs : ∀ c, c ∈ argCells → (s.heap.get c).speculative = false) :
    Unchanged s (callFunction prog (n + 1) pos fc argCells s) :=
  (Unchanged.of_QR (callFunction_paramOnly prog n pos fc argCells s i f hv hf hbody hargs)
    (fun e => by cases e)).1

/-- `function g(x, y) { if (x < 3) { x = x + 1; y = [x, $.a] } return x }` is in the class;
    `function h(x) { x[0] = 9 }` (a member store through the parameter) and
    `function h'(x) { y = x }` (assignment to a non-parameter) are not -/
example :
    let x := Expr.ident (tk .ident b!"x")
    let y := Expr.ident (tk .ident b!"y")
    Stmt.roP [b!"x", b!"y"] (.block (tk .lcurly b!"{")
      [.if_ (.binary x (numL b!"3") (tk .lessThan b!"<"))
        (.block (tk .lcurly b!"{")
          [.expr (assign x (.binary x (numL b!"1") (tk .plus b!"+"))),
           .expr (assign y (.arr (tk .lsquare b!"[") [x, dot dollar b!"a"]))]) none,
       .ret (some x)]) = true ∧
    Stmt.roP [b!"x"] (.expr (assign (idx x (numL b!"0")) (numL b!"9"))) = false ∧
    Stmt.roP [b!"x"] (.expr (assign y x)) = false := by
  decide +kernel

/-! #### insertion into containers -/

/-- Clause "scalars are copied on … insertion into containers", array literal `[e₁, …]` with
    read-only items: the result cell is new and refers to a NEW array id whose cells are exactly
    the cells produced by `evalExprList … true` — one per item, pairwise distinct, each allocated
    during this evaluation and holding a copy (`FreshCopy`), none of them the result cell; no
    existing cell, array or object changes. -/
theorem array_literal_copies (prog : Program) (k : Bool) (n : Nat) (t : Token) (items : List Expr)
    (s s' : St) (c : CellId) (hk : k = true → prog.FnsRO ∧ ObjsInRange s.heap)
    (hro : roEs k items = true) (h : evalExpr prog (n + 1) (.arr t items) s = .ok c s') :
    ∃ a cs s1, evalExprList prog n items true s = .ok cs s1 ∧
      s'.heap.get c = .arr a ∧ s'.heap.arr a = cs.toArray ∧ cs.length = items.length ∧
      s.heap.cells.size ≤ c ∧ c < s'.heap.cells.size ∧
      s.heap.arrs.size ≤ a ∧ a < s'.heap.arrs.size ∧
      HeapPreserved s.heap s'.heap ∧ cs.Pairwise (fun x y => x < y) ∧
      ∀ cell, cell ∈ cs → FreshCopy s.heap s'.heap cell ∧ cell ≠ c := by
  obtain ⟨cs, s1, h1, rfl, rfl⟩ := evalExpr_arr_inv prog n t items s s' c h
  obtain ⟨p, _, hl, hfc, hpw⟩ :=
    evalExprList_copy_fresh prog k (fun e => (hk e).1) items n s s1 cs hro (fun e => (hk e).2) h1
  obtain ⟨q1, q2, q3, q4, q5, _⟩ := arrLitHeap_spec s1.heap cs
  refine ⟨s1.heap.arrs.size, cs, s1, h1, q2, q3, hl, p.cells, ?_, p.arrs, ?_, p.trans q1, hpw, ?_⟩
  · show s1.heap.cells.size < (arrLitHeap s1.heap cs).cells.size
    rw [q4]; exact Nat.lt_succ_self _
  · show s1.heap.arrs.size < (arrLitHeap s1.heap cs).arrs.size
    rw [q5]; exact Nat.lt_succ_self _
  · intro cell hc
    exact ⟨(hfc cell hc).mono (Nat.le_refl _) q1, Nat.ne_of_lt (hfc cell hc).2.1⟩

/-- `[$.a[0], $.a]` on the example heap: a new array (id 1) of two new cells; the first holds the
    number 1 again (a different cell than the element cell 2 of `$.a`), the second the SAME array
    id 0 as `$.a` -/
example :
    let e := Expr.arr (tk .lsquare b!"[") [idx (dot dollar b!"a") (numL b!"0"), dot dollar b!"a"]
    let r := evalExpr Program.empty 12 e exSt
    Expr.readOnly false e = true ∧ resVal? r = some 11 ∧ (resState r).heap.get 11 = .arr 1 ∧
    (resState r).heap.arr 1 = #[8, 10] ∧ (resState r).heap.get 8 = exHeap.get 2 ∧
    (resState r).heap.get 10 = .arr 0 ∧ sameOld exHeap (resState r).heap = true := by
  decide +kernel

/-- Clause "scalars are copied on … insertion into containers", object literal `{k₁: e₁, …}` with
    read-only member expressions: the result cell is new and refers to a NEW object id; its keys
    are exactly the keys of the literal; every member cell was allocated during this evaluation,
    holds a copy (`FreshCopy`) and is not the result cell; no existing cell, array or object
    changes.  (For a repeated key the later member wins, `objInsert`.) -/
theorem object_literal_copies (prog : Program) (k : Bool) (n : Nat) (t : Token)
    (items : List (Bytes × Expr)) (s s' : St) (c : CellId)
    (hk : k = true → prog.FnsRO ∧ ObjsInRange s.heap)
    (hro : roKVs k items = true) (h : evalExpr prog (n + 1) (.obj t items) s = .ok c s') :
    ∃ o, s'.heap.get c = .obj o ∧
      s.heap.cells.size ≤ c ∧ c < s'.heap.cells.size ∧
      s.heap.objs.size ≤ o ∧ o < s'.heap.objs.size ∧
      HeapPreserved s.heap s'.heap ∧
      (∀ key cell, objLookup (s'.heap.obj o) key = some cell →
        key ∈ items.map (·.1) ∧ FreshCopy s.heap s'.heap cell ∧ cell ≠ c) ∧
      (∀ key, key ∈ items.map (·.1) → (objLookup (s'.heap.obj o) key).isSome = true) := by
  obtain ⟨m, s1, h1, rfl, rfl⟩ := evalExpr_obj_inv prog n t items s s' c h
  obtain ⟨p, _, hmem, hkeys⟩ :=
    evalObjItems_copy_fresh prog k (fun e => (hk e).1) items n t.pos [] m s s1 hro (fun e => (hk e).2) h1
  obtain ⟨q1, q2, q3, q4, q5, _⟩ := objLitHeap_spec s1.heap m
  refine ⟨s1.heap.objs.size, q2, p.cells, ?_, p.objs, ?_, p.trans q1, ?_, ?_⟩
  · show s1.heap.cells.size < (objLitHeap s1.heap m).cells.size
    rw [q4]; exact Nat.lt_succ_self _
  · show s1.heap.objs.size < (objLitHeap s1.heap m).objs.size
    rw [q5]; exact Nat.lt_succ_self _
  · intro key cell hl
    have hl' : objLookup m key = some cell := by
      have : (objLitHeap s1.heap m).obj s1.heap.objs.size = m := q3
      rw [← this]; exact hl
    rcases hmem key cell hl' with ⟨hin, hf⟩ | ⟨_, hacc⟩
    · exact ⟨hin, hf.mono (Nat.le_refl _) q1, Nat.ne_of_lt hf.2.1⟩
    · simp [objLookup] at hacc
  · intro key hin
    have : (objLitHeap s1.heap m).obj s1.heap.objs.size = m := q3
    show (objLookup ((objLitHeap s1.heap m).obj s1.heap.objs.size) key).isSome = true
    rw [this]
    exact hkeys key (.inl hin)

/-- `{n: $.a[0], arr: $.a}` on the example heap: a new object (id 1); member `n` is a new cell
    holding the number 1, member `arr` a new cell holding the SAME array id 0 -/
example :
    let e := Expr.obj (tk .lcurly b!"{") [(b!"n", idx (dot dollar b!"a") (numL b!"0")), (b!"arr", dot dollar b!"a")]
    let r := evalExpr Program.empty 12 e exSt
    Expr.readOnly false e = true ∧ resVal? r = some 11 ∧ (resState r).heap.get 11 = .obj 1 ∧
    (resState r).heap.obj 1 = [(b!"n", 8), (b!"arr", 10)] ∧ (resState r).heap.get 8 = exHeap.get 2 ∧
    (resState r).heap.get 10 = .arr 0 ∧ sameOld exHeap (resState r).heap = true := by
  decide +kernel

/-- Clause "scalars are copied on … insertion into containers", `a.push(v)`: the array gets
    exactly ONE new last cell — the next free cell id, so no existing reference denotes it —
    holding `v`; its earlier cells stay in place; every old cell keeps its value; every other
    array and every object is unchanged.  `push` itself stores `v` as it is: the copy was made
    before, when the call expression evaluated its arguments (`call_args_are_copies`;
    `push_call`). -/
theorem push_appends_fresh_cell (a : ArrId) (v : Val) (s : St) :
    ∃ s', callNative .arrPush [v] (some (.arr a)) s = .ok (.ok (some (.arr a))) s' ∧
      s'.heap.cells.size = s.heap.cells.size + 1 ∧ s'.heap.get s.heap.cells.size = v ∧
      (∀ c, c < s.heap.cells.size → s'.heap.get c = s.heap.get c) ∧
      (a < s.heap.arrs.size → s'.heap.arr a = (s.heap.arr a).push s.heap.cells.size) ∧
      (∀ b, b ≠ a → s'.heap.arr b = s.heap.arr b) ∧ (∀ o, s'.heap.obj o = s.heap.obj o) ∧
      s'.frames = s.frames ∧ s'.out = s.out := by
  obtain ⟨h1, h2, h3, h4, h5, _, _⟩ := pushHeap_spec s.heap a v
  exact ⟨_, callNative_arrPush a v s, h1, h2, h3, h4, h5, fun _ => rfl, rfl, rfl⟩

/-- `recv.push(e)` at the level of `callFunction` (reached from the call expression by
    `call_unfold`): the callee cell holds the method `push` bound to a cell `b` that holds the
    array `a`; the one argument cell `argc` comes from `evalExprList … true`, i.e. it is a fresh
    cell holding a copy; its VALUE is pushed (into yet another fresh cell), and the result is a
    new cell referring to the same array -/
theorem push_call (prog : Program) (n pos : Nat) (fc argc b : CellId) (sp : Option SpecRef)
    (a : ArrId) (s : St) (hf : s.heap.get fc = .native .arrPush (some b) sp)
    (hb : s.heap.get b = .arr a) :
    callFunction prog (n + 1) pos fc [argc] s =
      .ok (s.heap.cells.size + 1)
        { s with heap := ((pushHeap s.heap a (s.heap.get argc)).alloc (.arr a)).2 } :=
  callFunction_push prog n pos fc argc b sp a s hf hb

/-- `$.a.push($.a[0])`: `$.a` becomes `[1, 2, 1]`: its third cell is new and differs from the
    cell of `$.a[0]`; old cells and the object are unchanged -/
example :
    let r := evalExpr Program.empty 12 (mcall (dot dollar b!"a") b!"push" [idx (dot dollar b!"a") (numL b!"0")]) exSt
    let h' := (resState r).heap
    (resVal? r).isSome = true ∧ (h'.arr 0).size = 3 ∧ (h'.arr 0).getD 0 0 = 2 ∧ (h'.arr 0).getD 1 0 = 3 ∧
    exHeap.cells.size ≤ (h'.arr 0).getD 2 0 ∧ h'.get ((h'.arr 0).getD 2 0) = exHeap.get 2 ∧
    oldCellsSame exHeap h' [] = true ∧ h'.obj 0 = exHeap.obj 0 := by
  decide +kernel

/-! #### sharing of arrays and objects -/

/-- Clause "arrays and objects are shared": the assignment `y = x` (at the level of
    `evalAssignment`: `y`, `x` the cells of target and source; the target an allocated cell that
    is not a stand-in for a missing member) where `x` holds an array or an object: afterwards
    BOTH cells hold the same array/object id; nothing is allocated, no array, no object and no
    other cell changes — the container itself is not copied. -/
theorem assign_container_shares (pos : Nat) (y x : CellId) (s : St) (v : Val)
    (hv : s.heap.get x = v) (hcont : v.isContainer = true)
    (hy : (s.heap.get y).speculative = false) (hlt : y < s.heap.cells.size) :
    ∃ s', evalAssignment pos y x s = .ok y s' ∧
      s'.heap.get y = v ∧ s'.heap.get x = v ∧
      s'.heap.arrs = s.heap.arrs ∧ s'.heap.objs = s.heap.objs ∧
      s'.heap.cells.size = s.heap.cells.size ∧
      ∀ c, c ≠ y → s'.heap.get c = s.heap.get c := by
  refine ⟨{ s with heap := s.heap.set y v }, ?_, Heap.get_set_same' _ _ _ hlt, ?_, rfl, rfl,
    Heap.size_set _ _ _, fun c hc => Heap.get_set_ne' _ _ _ _ hc⟩
  · rw [evalAssignment_plain pos y x s hy, hv, copyVal_container v hcont]
  · by_cases e : x = y
    · subst e; exact Heap.get_set_same' _ _ _ hlt
    · show (s.heap.set y v).get x = v
      rw [Heap.get_set_ne' _ _ _ _ e]; exact hv

/-- two cells holding the same value are interchangeable as the base of a member store -/
theorem store_via_either_reference (h : Heap) (c1 c2 : CellId) (key : Val) (cell : CellId)
    (he : h.get c1 = h.get c2) :
    setMember h (h.get c1) key cell = setMember h (h.get c2) key cell := by
  rw [he]

/-- Clause "a mutation made through one reference is visible through every other reference",
    objects: `c1` and `c2` both hold the object `o`.  Storing the member `key` through `c1`
    makes `cell` that member, and reading `key` through `c2` afterwards finds exactly that cell
    (whose value is untouched); both cells still hold `o`; no cell value changes. -/
theorem object_store_visible (h : Heap) (c1 c2 : CellId) (o : ObjId) (key : Val) (cell : CellId)
    (h1 : h.get c1 = .obj o) (h2 : h.get c2 = .obj o) (ho : o < h.objs.size)
    (hkey : isKeyVal key = true) :
    ∃ h', setMember h (h.get c1) key cell = .ok (cell, h') ∧
      getMember h' (h'.get c2) key = .ok (.cell cell) ∧
      h'.get c1 = .obj o ∧ h'.get c2 = .obj o ∧ h'.cells = h.cells ∧ h'.arrs = h.arrs := by
  obtain ⟨h', e1, e2, _, _, e5, e6⟩ := setMember_object_local h o key cell ho
  have hget : ∀ c, h'.get c = h.get c := fun c => by simp only [Heap.get, e5]
  refine ⟨h', by rw [h1]; exact e1, ?_, by rw [hget, h1], by rw [hget, h2], e5, e6⟩
  rw [hget, h2]
  cases key <;> simp [isKeyVal] at hkey <;> simp only [getMember, e2]

/-- … arrays, store at an index inside the array: `c1` and `c2` both hold the array `a`.
    Storing at index `x` through `c1` writes the value of `cell` into the element cell `item`,
    and reading index `x` through `c2` afterwards finds that element cell, which now holds the
    stored value; both cells still hold `a`.  (`hn1`, `hn2`: the element cell is not one of the
    two reference cells themselves — otherwise the store overwrites that reference.) -/
theorem array_store_visible (h : Heap) (c1 c2 : CellId) (a : ArrId) (x : F64) (cell : CellId) (i : Nat)
    (h1 : h.get c1 = .arr a) (h2 : h.get c2 = .arr a)
    (hi : resolveIndex (h.arr a).size x.toGoInt = some i) (hlt : i < (h.arr a).size)
    (hitem : (h.arr a).getD i 0 < h.cells.size)
    (hn1 : (h.arr a).getD i 0 ≠ c1) (hn2 : (h.arr a).getD i 0 ≠ c2) :
    ∃ h', setMember h (h.get c1) (.num x) cell = .ok ((h.arr a).getD i 0, h') ∧
      getMember h' (h'.get c2) (.num x) = .ok (.cell ((h.arr a).getD i 0)) ∧
      h'.get ((h.arr a).getD i 0) = h.get cell ∧
      h'.get c1 = .arr a ∧ h'.get c2 = .arr a ∧ h'.arrs = h.arrs ∧ h'.objs = h.objs := by
  refine ⟨h.set ((h.arr a).getD i 0) (h.get cell), by rw [h1]; simp [setMember, hi, hlt], ?_,
    get_set_same _ _ _ hitem, ?_, ?_, rfl, rfl⟩
  · rw [get_set_ne _ _ _ _ (Ne.symm hn2), h2]
    have : (h.set ((h.arr a).getD i 0) (h.get cell)).arr a = h.arr a := rfl
    simp only [getMember, this, hi, hlt, ↓reduceIte]
  · rw [get_set_ne _ _ _ _ (Ne.symm hn1), h1]
  · rw [get_set_ne _ _ _ _ (Ne.symm hn2), h2]

/-- … `push`: `c1` and `c2` both hold the array `a`, whose cells are allocated (the part of
    `Heap.WF` that concerns `a`).  After `push(v)` through `c1`, the array seen through `c2` —
    still the same id — has the new last element `v`. -/
theorem push_visible (s : St) (c1 c2 : CellId) (a : ArrId) (v : Val)
    (h1 : s.heap.get c1 = .arr a) (h2 : s.heap.get c2 = .arr a) (ha : a < s.heap.arrs.size)
    (hcs : ∀ c, c ∈ (s.heap.arr a).toList → c < s.heap.cells.size) :
    ∃ s', callNative .arrPush [v] (some (s.heap.get c1)) s = .ok (.ok (some (.arr a))) s' ∧
      s'.heap.get c1 = .arr a ∧ s'.heap.get c2 = .arr a ∧
      absArr s'.heap a = absArr s.heap a ++ [v] ∧
      s'.heap.arr a = (s.heap.arr a).push s.heap.cells.size := by
  obtain ⟨_, _, h3, h4, _⟩ := pushHeap_spec s.heap a v
  refine ⟨_, by rw [h1]; exact callNative_arrPush a v s, ?_, ?_, absArr_pushHeap_same' s.heap a v ha hcs, h4 ha⟩
  · show (pushHeap s.heap a v).get c1 = .arr a
    rw [h3 c1 (Heap.lt_of_get_ne_unknown _ _ (by rw [h1]; simp)), h1]
  · show (pushHeap s.heap a v).get c2 = .arr a
    rw [h3 c2 (Heap.lt_of_get_ne_unknown _ _ (by rw [h2]; simp)), h2]

/-- Clause "scalars are copied on assignment" (contrast to sharing): after `y = x` where `x` holds
    a value that can be copied (`copyVal … = .ok w`; for a number, string or boolean `w` is that
    scalar again, `copyVal_spec`) and `y ≠ x`, the two cells are independent: whatever a later
    assignment `y = z` stores into `y`'s cell — and whichever way it ends — `x`'s cell keeps its
    value and no array or object changes.  (The only other way to "change a value through `y`",
    a member store `y[k] = …`, is refused for a scalar: `setMember_refusals`.) -/
theorem scalar_copy_independent (pos pos' : Nat) (y x z : CellId) (s : St) (w : Val)
    (hcv : copyVal (s.heap.get x) = .ok w) (hxy : x ≠ y)
    (hy : (s.heap.get y).speculative = false) (hlt : y < s.heap.cells.size) :
    ∃ s1, evalAssignment pos y x s = .ok y s1 ∧ s1.heap.get y = w ∧ s1.heap.get x = s.heap.get x ∧
      After (fun s2 => s2.heap.get x = s.heap.get x ∧ s2.heap.arrs = s.heap.arrs ∧
          s2.heap.objs = s.heap.objs) (evalAssignment pos' y z s1) ∧
      evalAssignment pos' y z s1 ≠ .oof := by
  have hs1 : evalAssignment pos y x s = .ok y { s with heap := s.heap.set y w } := by
    rw [evalAssignment_plain pos y x s hy, hcv]
  have hgy : (s.heap.set y w).get y = w := Heap.get_set_same' _ _ _ hlt
  have hgx : (s.heap.set y w).get x = s.heap.get x := Heap.get_set_ne' _ _ _ _ hxy
  have hns : (({ s with heap := s.heap.set y w } : St).heap.get y).speculative = false := by
    show ((s.heap.set y w).get y).speculative = false
    rw [hgy]; exact copyVal_not_speculative _ _ hcv
  obtain ⟨a1, a2, a3⟩ := evalAssignment_plain_local pos' y z { s with heap := s.heap.set y w } hns
  refine ⟨_, hs1, hgy, hgx, ?_, a3⟩
  cases hr : evalAssignment pos' y z { s with heap := s.heap.set y w } with
  | ok c s2 =>
    obtain ⟨_, b2, b3, b4, _⟩ := a1 c s2 hr
    exact ⟨by rw [b4 x hxy]; exact hgx, b2, b3⟩
  | err e s2 =>
    obtain ⟨b1, _⟩ := a2 e s2 hr
    exact ⟨by rw [b1]; exact hgx, by rw [b1]; rfl, by rw [b1]; rfl⟩
  | oof => trivial

/-! #### the hypotheses of the sharing theorems are satisfiable -/

/-- the example heap with two more cells: 6 holds the array of `$.a` again, 7 the root object
    again (as after `y = $.a; z = $`) -/
def exHeap2 : Heap := { exHeap with cells := exHeap.cells ++ #[.arr 0, .obj 0] }
def exSt2 : St := { exSt with heap := exHeap2 }

/-- `assign_container_shares` with `x = 1` (`$.a`), `y = 5` (the unset `$.u`) -/
example : ∃ s', evalAssignment 0 5 1 exSt = .ok 5 s' ∧ s'.heap.get 5 = .arr 0 ∧ s'.heap.get 1 = .arr 0 ∧
    s'.heap.arrs = exSt.heap.arrs ∧ s'.heap.objs = exSt.heap.objs ∧
    s'.heap.cells.size = exSt.heap.cells.size ∧ ∀ c, c ≠ 5 → s'.heap.get c = exSt.heap.get c :=
  assign_container_shares 0 5 1 exSt (.arr 0) (by decide +kernel) rfl (by decide +kernel) (by decide +kernel)

/-- `object_store_visible` with `c1 = 0`, `c2 = 7` (both the root object), key `"s"`, new member
    cell 3 -/
example : ∃ h', setMember exHeap2 (exHeap2.get 0) (.str b!"s" none) 3 = .ok (3, h') ∧
    getMember h' (h'.get 7) (.str b!"s" none) = .ok (.cell 3) ∧
    h'.get 0 = .obj 0 ∧ h'.get 7 = .obj 0 ∧ h'.cells = exHeap2.cells ∧ h'.arrs = exHeap2.arrs :=
  object_store_visible exHeap2 0 7 0 (.str b!"s" none) 3 (by decide +kernel) (by decide +kernel)
    (by decide +kernel) rfl

/-- `array_store_visible` with `c1 = 1`, `c2 = 6` (both the array `[1, 2]`), index 0 (element
    cell 2), storing the value of cell 4 (`"hi"`) -/
example : exHeap2.get 1 = .arr 0 ∧ exHeap2.get 6 = .arr 0 ∧
    resolveIndex (exHeap2.arr 0).size F64.zero.toGoInt = some 0 ∧ 0 < (exHeap2.arr 0).size ∧
    (exHeap2.arr 0).getD 0 0 < exHeap2.cells.size ∧ (exHeap2.arr 0).getD 0 0 ≠ 1 ∧
    (exHeap2.arr 0).getD 0 0 ≠ 6 := by decide +kernel

example :
    (match setMember exHeap2 (exHeap2.get 1) (.num F64.zero) 4 with
     | .ok (item, h') => item == 2 &&
         (match getMember h' (h'.get 6) (.num F64.zero) with | .ok (.cell c) => c == 2 | _ => false) &&
         h'.get 2 == .str b!"hi" none && h'.get 1 == .arr 0 && h'.get 6 == .arr 0
     | _ => false) = true := by decide +kernel

/-- `push_visible` with `c1 = 1`, `c2 = 6`: the array seen through cell 6 has a third element -/
example : ∃ s', callNative .arrPush [.bool true] (some (exSt2.heap.get 1)) exSt2 = .ok (.ok (some (.arr 0))) s' ∧
    s'.heap.get 1 = .arr 0 ∧ s'.heap.get 6 = .arr 0 ∧
    absArr s'.heap 0 = absArr exSt2.heap 0 ++ [.bool true] ∧
    s'.heap.arr 0 = (exSt2.heap.arr 0).push exSt2.heap.cells.size :=
  push_visible exSt2 1 6 0 (.bool true) (by decide +kernel) (by decide +kernel) (by decide +kernel)
    (by decide +kernel)

/-- `scalar_copy_independent` with `x = 2` (`$.a[0]`, the number 1), `y = 5`, later `y = $.s` -/
example : ∃ s1, evalAssignment 0 5 2 exSt = .ok 5 s1 ∧ s1.heap.get 5 = .num F64.one ∧
    s1.heap.get 2 = exSt.heap.get 2 ∧
    After (fun s2 => s2.heap.get 2 = exSt.heap.get 2 ∧ s2.heap.arrs = exSt.heap.arrs ∧
      s2.heap.objs = exSt.heap.objs) (evalAssignment 0 5 4 s1) ∧
    evalAssignment 0 5 4 s1 ≠ .oof :=
  scalar_copy_independent 0 0 5 2 4 exSt (.num F64.one) rfl (by decide)
    (by decide +kernel) (by decide +kernel)

/-- `push_call`: the callee `$.a.push` evaluates (cell 8) to the method `push` bound to cell 1,
    which holds the array 0 -/
example :
    let r := evalExpr Program.empty 10 (dot (dot dollar b!"a") b!"push") exSt
    resVal? r = some 8 ∧
    (resState r).heap.get 8 = .native .arrPush (some 1) (some ⟨1, .str b!"push"⟩) ∧
    (resState r).heap.get 1 = .arr 0 := by decide +kernel

/-- `params_bound_fresh_nodup`, `call_user_function_unfold`: the hypotheses hold on the examples -/
example : [b!"x", b!"y"].Nodup ∧ exSt.frames ≠ [] := by decide +kernel

/-! #### concrete runs on `$ = {"a": [1, 2], "s": "hi", "u": <unset>}` -/

def identE (name : Bytes) : Expr := .ident (tk .ident name)
def blockS (ss : List Stmt) : Stmt := .block (tk .lcurly b!"{") ss

/-- sharing: `{ y = $.a; y[0] = 9 }` — afterwards `$.a[0]` reads 9: the variable `y` (cell 6)
    and the member `$.a` (cell 1) hold the same array id, and the store through `y` wrote the
    element cell 2 of that array -/
example :
    let r := evalStmt Program.empty 14 (blockS [.expr (assign (identE b!"y") (dot dollar b!"a")),
      .expr (assign (idx (identE b!"y") (numL b!"0")) (numL b!"9"))]) exSt
    let s' := resState r
    let rd := evalExpr Program.empty 12 (idx (dot dollar b!"a") (numL b!"0")) s'
    (resVal? r).isSome = true ∧ lookupFrames s'.frames b!"y" = some 6 ∧
    s'.heap.get 6 = .arr 0 ∧ s'.heap.get 1 = .arr 0 ∧
    (resVal? rd).map s'.heap.get = (F64.parse b!"9").map Val.num ∧
    (resVal? rd).map exHeap.get = some (.num F64.one) := by
  decide +kernel

/-- copying: `{ y = $.a[0]; y = 9 }` — `$.a[0]` still reads 1: `y`'s cell received a copy of
    the number, and the second assignment wrote only `y`'s cell -/
example :
    let r := evalStmt Program.empty 14 (blockS [.expr (assign (identE b!"y") (idx (dot dollar b!"a") (numL b!"0"))),
      .expr (assign (identE b!"y") (numL b!"9"))]) exSt
    let s' := resState r
    let rd := evalExpr Program.empty 12 (idx (dot dollar b!"a") (numL b!"0")) s'
    (resVal? r).isSome = true ∧ lookupFrames s'.frames b!"y" = some 6 ∧
    (F64.parse b!"9").map Val.num = some (s'.heap.get 6) ∧
    (resVal? rd).map s'.heap.get = some (.num F64.one) ∧ sameOld exHeap s'.heap = true := by
  decide +kernel

/-- a program with `function setFirst(x) { x[0] = 9 }` (index 0) and
    `function setParam(x) { x = 9 }` (index 1), bound to the globals `setFirst` (cell 6) and
    `setParam` (cell 7) -/
def exProgFns : Program :=
  ⟨[], [⟨tk .ident b!"setFirst", [b!"x"], .expr (assign (idx (identE b!"x") (numL b!"0")) (numL b!"9"))⟩,
        ⟨tk .ident b!"setParam", [b!"x"], .expr (assign (identE b!"x") (numL b!"9"))⟩]⟩

def exStFns : St :=
  { exSt with heap := { exHeap with cells := exHeap.cells ++ #[.fn 0, .fn 1] },
              frames := [⟨b!"<root>", [(b!"setFirst", 6), (b!"setParam", 7)]⟩] }

/-- argument passing shares arrays: `setFirst($.a)` changes `$.a[0]` to 9 (the parameter cell
    holds the same array id as `$.a`) … -/
example :
    let r := evalExpr exProgFns 14 (.call (identE b!"setFirst") [dot dollar b!"a"]) exStFns
    (resVal? r).isSome = true ∧ (resState r).heap.get 1 = .arr 0 ∧ (resState r).heap.arr 0 = #[2, 3] ∧
    (F64.parse b!"9").map Val.num = some ((resState r).heap.get 2) ∧
    (resState r).frames.length = 1 ∧ lookupFrames (resState r).frames b!"x" = none := by
  decide +kernel

/-- … but the parameter itself is a fresh cell: `setParam($.a)` and `setParam($.a[0])` leave
    every old cell (in particular `$.a` and `$.a[0]`), the array and the object as they were -/
example :
    let r1 := evalExpr exProgFns 14 (.call (identE b!"setParam") [dot dollar b!"a"]) exStFns
    let r2 := evalExpr exProgFns 14 (.call (identE b!"setParam") [idx (dot dollar b!"a") (numL b!"0")]) exStFns
    (resVal? r1).isSome = true ∧ sameOld exStFns.heap (resState r1).heap = true ∧
    (resVal? r2).isSome = true ∧ sameOld exStFns.heap (resState r2).heap = true := by
  decide +kernel

/-- the hypotheses of `call_param_only_function` hold for `setParam` (function 1 of `exProgFns`,
    callee cell 7) called with the argument cell 1 (`$.a`); they fail for `setFirst`, whose body
    stores a member through the parameter — and which does change the caller's array (above) -/
example :
    exStFns.heap.get 7 = .fn 1 ∧
    exProgFns.functions[1]? = some ⟨tk .ident b!"setParam", [b!"x"], .expr (assign (identE b!"x") (numL b!"9"))⟩ ∧
    Stmt.roP [b!"x"] (.expr (assign (identE b!"x") (numL b!"9"))) = true ∧
    (∀ c, c ∈ [1] → (exStFns.heap.get c).speculative = false) ∧
    Stmt.roP [b!"x"] (.expr (assign (idx (identE b!"x") (numL b!"0")) (numL b!"9"))) = false := by
  refine ⟨by decide +kernel, rfl, by decide +kernel, ?_, by decide +kernel⟩
  intro c hc
  simp only [List.mem_singleton] at hc
  subst hc
  decide +kernel

example : exStFns.heap.get 6 = .fn 0 ∧ ¬ exStFns.frames.length > callDepthLimit := by decide +kernel


end Jqawk.C09
